import ArgMapper.Model.Reach
import ArgMapper.Spec.Match
/-!
# Specification: the call graph's edge rules and value flow (C01, C02, C13)

`EdgeRule` is the declarative list of edge rules R0–R8 (after the repairs of R5 and R6).  The *edge
characterisation* (`Proofs/CallGraphEdges.lean`) says every edge of the graph `callGraph` builds is
an instance of one of them.  `Flow g o x` says a value that entered the graph at vertex `o` may be
copied, vertex to vertex along edges and never through a function vertex, to vertex `x`.
-/
namespace ArgMapper

/-- dependent → requirement -/
inductive EdgeRule (e : TypeEnv) : Vtx → Vtx → Prop
  /-- R0: a function requires its named / typed inputs (or the root when it has none) -/
  | funcReq (k : Nat) (x : Vtx) : (x.isValue = true ∨ x.isArg = true ∨ x = .root) → EdgeRule e (.func k) x
  /-- R1: a supplied value hangs off the root -/
  | inputRoot (x : Vtx) : (x.isValue = true ∨ x.isOut = true) → EdgeRule e x .root
  /-- R2: a converter's output requires the converter -/
  | outputFunc (x : Vtx) (k : Nat) : (x.isValue = true ∨ x.isOut = true) → EdgeRule e x (.func k)
  /-- R3: a named value may take the type-only output of its type … -/
  | valueOut (n : String) (t : Nat) (s : String) : EdgeRule e (.value n t s) (.out t "")
  /-- … and satisfies the type-only arguments of its type (without subtype, or with its own) -/
  | argValue (n : String) (t : Nat) (s s' : String) : (s' = "" ∨ s' = s) → EdgeRule e (.arg t s') (.value n t s)
  /-- R4 -/
  | argOut (t : Nat) (s : String) : EdgeRule e (.arg t s) (.out t s)
  /-- R5 (repaired): an interface-typed output may take the output of a *different* implementing type -/
  | ifaceOut (i : Nat) (s : String) (t' : Nat) (s' : String) :
      e.isIface i = true → e.impl t' i = true → t' ≠ i → EdgeRule e (.out i s) (.out t' s')
  /-- R6 (repaired): a named value without subtype may take the same-named, same-typed value with one -/
  | valueValue (n : String) (t : Nat) (s : String) : s ≠ "" → EdgeRule e (.value n t "") (.value n t s)
  /-- R7: across "no subtype" / "some subtype" -/
  | argOutSub (t : Nat) (s s' : String) : ((s = "" ∧ s' ≠ "") ∨ (s ≠ "" ∧ s' = "")) → EdgeRule e (.arg t s) (.out t s')
  /-- R8 (Redefine only): candidate inputs hang off the root -/
  | redefineRoot (x : Vtx) : (x.isValue = true ∨ x.isArg = true) → EdgeRule e x .root

/-- every edge of `g` is an instance of a rule -/
def EdgeOK (e : TypeEnv) (g : AGraph Vtx) : Prop := ∀ x y, g.hasEdge x y = true → EdgeRule e x y

/-- a vertex that can hold a value -/
def Vtx.isData (v : Vtx) : Bool := v.isValue || v.isArg || v.isOut

/-- `Flow g o x`: a value that entered at `o` can reach `x` by vertex-to-vertex copies along edges of
`g` (each edge points from the copy's destination to its source), never through a function vertex
or the root -/
inductive Flow (g : AGraph Vtx) (o : Vtx) : Vtx → Prop
  | here : o.isData = true → Flow g o o
  | step {x y : Vtx} : x.isData = true → g.hasEdge x y = true → Flow g o y → Flow g o x

/-- the same closure over the declarative rules -/
inductive RuleFlow (e : TypeEnv) (o : Vtx) : Vtx → Prop
  | here : o.isData = true → RuleFlow e o o
  | step {x y : Vtx} : x.isData = true → EdgeRule e x y → RuleFlow e o y → RuleFlow e o x

/-- vertices at which values enter the graph: named values and typed outputs (what callers supply
and what converters return) -/
def Vtx.isOrigin (v : Vtx) : Bool := v.isValue || v.isOut

/-- `Implements` is transitive, and no two distinct interface types implement each other
(excluded: "twin" interfaces with equal method sets, finding F14) -/
def ImplTrans (e : TypeEnv) : Prop := ∀ a b c, e.impl a b = true → e.impl b c = true → e.impl a c = true
def ImplAntisym (e : TypeEnv) : Prop :=
  ∀ a b, e.isIface a = true → e.isIface b = true → e.impl a b = true → e.impl b a = true → a = b

end ArgMapper
