import ArgMapper.Model.Graph
import ArgMapper.Model.GraphImpl
/-!
# Specification for C19: graph histories against the plain adjacency model

A history is a list of `GOp`s over numbered handles (`new`, `copy` and `reverse` create the next
handle).  The specification keeps, per *sharing class*, one `AGraph` plus a payload table; a handle
is a class and an orientation.  `Copy` starts a new class, `Reverse` flips the orientation within
the class — that is the whole content of "copies are independent, a reversed view shares state,
reversing twice is the identity".

`AddEdge*` on an absent endpoint is outside the documented precondition: the specification marks
the class `poisoned` and promises nothing about it afterwards (the implementation panics there, which
is compared separately, model against code).
-/
namespace ArgMapper
namespace GraphSpec
variable {α : Type} [DecidableEq α]

inductive GOp (α : Type)
  | new
  | add (h : Nat) (v : α) (tag : Nat)
  | addow (h : Nat) (v : α) (tag : Nat)
  | edge (h : Nat) (u v : α) (w : Int)
  | redge (h : Nat) (u v : α)
  | remove (h : Nat) (v : α)
  | copy (h : Nat)
  | reverse (h : Nat)
deriving Repr

structure SClass (α : Type) where
  g : AGraph α
  tags : List (α × Nat)
  poisoned : Bool

structure SpecWorld (α : Type) where
  classes : List (SClass α)
  handles : List (Nat × Bool)        -- (class, flipped)

def SpecWorld.empty : SpecWorld α := { classes := [], handles := [] }

def SClass.empty : SClass α := { g := AGraph.empty, tags := [], poisoned := false }

def SpecWorld.handle (s : SpecWorld α) (h : Nat) : Nat × Bool := s.handles.getD h (0, false)

def SpecWorld.cls (s : SpecWorld α) (h : Nat) : SClass α := s.classes.getD (s.handle h).1 SClass.empty

def SpecWorld.setCls (s : SpecWorld α) (h : Nat) (c : SClass α) : SpecWorld α :=
  { s with classes := s.classes.set (s.handle h).1 c }

def setTag (m : List (α × Nat)) (v : α) (t : Nat) : List (α × Nat) :=
  m.filter (fun p => !decide (p.1 = v)) ++ [(v, t)]

def specStep (s : SpecWorld α) : GOp α → SpecWorld α
  | .new => { classes := s.classes ++ [SClass.empty], handles := s.handles ++ [(s.classes.length, false)] }
  | .add h v tag =>
    let c := s.cls h
    if v ∈ c.g.verts then s else s.setCls h { c with g := c.g.add v, tags := setTag c.tags v tag }
  | .addow h v tag =>
    let c := s.cls h
    s.setCls h { c with g := c.g.add v, tags := setTag c.tags v tag }
  | .edge h u v w =>
    let c := s.cls h
    if u ∈ c.g.verts ∧ v ∈ c.g.verts then
      if (s.handle h).2 then s.setCls h { c with g := c.g.addEdge v u w }
      else s.setCls h { c with g := c.g.addEdge u v w }
    else s.setCls h { c with poisoned := true }
  | .redge h u v =>
    let c := s.cls h
    if (s.handle h).2 then s.setCls h { c with g := c.g.removeEdge v u }
    else s.setCls h { c with g := c.g.removeEdge u v }
  | .remove h v =>
    let c := s.cls h
    s.setCls h { c with g := c.g.remove v, tags := c.tags.filter (fun p => !decide (p.1 = v)) }
  | .copy h =>
    { classes := s.classes ++ [s.cls h], handles := s.handles ++ [(s.classes.length, (s.handle h).2)] }
  | .reverse h =>
    { s with handles := s.handles ++ [((s.handle h).1, !(s.handle h).2)] }

def specRun (ops : List (GOp α)) : SpecWorld α := ops.foldl specStep SpecWorld.empty

/-- the graph a handle denotes -/
def SpecWorld.view (s : SpecWorld α) (h : Nat) : AGraph α :=
  if (s.handle h).2 then (s.cls h).g.reverse else (s.cls h).g

/-- the implementation model run on the same history (a panicking `AddEdge*` leaves the
    partially updated world, exactly as the Go code does) -/
def implStep (fixedReverse : Bool) (w : GraphImpl.World α) : GOp α → GraphImpl.World α
  | .new => GraphImpl.newGraph w
  | .add h v tag => GraphImpl.add w h v tag
  | .addow h v tag => GraphImpl.addOverwrite w h v tag
  | .edge h u v wt =>
    match GraphImpl.addEdge w h u v wt with
    | (.ok w', _) => w'
    | (.error _, w') => w'
  | .redge h u v => GraphImpl.removeEdge w h u v
  | .remove h v => GraphImpl.remove w h v
  | .copy h => GraphImpl.copy w h
  | .reverse h => GraphImpl.reverse fixedReverse w h

def implRun (fixedReverse : Bool) (ops : List (GOp α)) : GraphImpl.World α :=
  ops.foldl (implStep fixedReverse) GraphImpl.World.empty

/-- does this step panic in the implementation model? -/
def implPanics (w : GraphImpl.World α) : GOp α → Bool
  | .edge h u v wt =>
    match GraphImpl.addEdge w h u v wt with
    | (.ok _, _) => false
    | (.error _, _) => true
  | _ => false

end GraphSpec
end ArgMapper
