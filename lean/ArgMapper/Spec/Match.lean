import ArgMapper.Model.CallGraph
/-!
# Specification: the matching table (C01) and derivability (C02, C05, C13)
-/
namespace ArgMapper

/-- the library's matching table: may a value whose origin carries label `origin` be injected
into a parameter labelled `param`?  Equal names when both are named; identical type, or an
implementation of the parameter's interface type; for identical types a subtype that is equal or
absent on one side. -/
def compatB (e : TypeEnv) (param origin : Label) : Bool :=
  (param.name == "" || origin.name == "" || param.name == origin.name) &&
  ((origin.ty == param.ty && (param.sub == origin.sub || param.sub == "" || origin.sub == "")) ||
   (origin.ty != param.ty && e.isIface param.ty && e.impl origin.ty param.ty))

def Compat (e : TypeEnv) (param origin : Label) : Prop := compatB e param origin = true

/-- one round of the derivability fixpoint -/
def derivStep (e : TypeEnv) (convs : List FuncDesc) (D : List Label) : List Label :=
  convs.foldl (fun D f =>
    if f.input.labels.all (fun p => D.any (compatB e p)) then
      D ++ (f.output.labels.filter (fun l => !decide (l ∈ D)))
    else D) D

/-- labels derivable from the supplied ones through the converters (executable least fixpoint) -/
def derivable (e : TypeEnv) (supplied : List Label) (convs : List FuncDesc) : List Label :=
  (List.range (convs.length + 1)).foldl (fun D _ => derivStep e convs D) supplied

/-- the inductive definition the executable fixpoint computes -/
inductive Deriv (e : TypeEnv) (supplied : List Label) (convs : List FuncDesc) : Label → Prop
  | supplied {l} : l ∈ supplied → Deriv e supplied convs l
  | output {f l} (w : Label → Label) : f ∈ convs → l ∈ f.output.labels →
      (∀ p ∈ f.input.labels, Deriv e supplied convs (w p)) →
      (∀ p ∈ f.input.labels, compatB e p (w p) = true) →
      Deriv e supplied convs l

end ArgMapper

namespace ArgMapper

/-- the part of the matching table that the library's edge rules actually realise (after the
repairs of R5/R6): which origins can *flow* to a parameter.  `compatB` is the soundness table;
this is the completeness table.  The difference (`compatB` but not `libCompatB`) is the list of
"matching gaps" recorded as known findings. -/
def libCompatB (e : TypeEnv) (param origin : Label) : Bool :=
  if param.name != "" then
    if origin.name != "" then
      origin == param ||
      (param.sub == "" && origin.ty == param.ty && origin.sub != "" && origin.name == param.name)
    else
      (origin.ty == param.ty && origin.sub == "") ||
      (e.isIface param.ty && e.impl origin.ty param.ty && origin.ty != param.ty)
  else
    if origin.name != "" then
      origin.ty == param.ty && (param.sub == "" || param.sub == origin.sub)
    else
      (origin.ty == param.ty && (param.sub == origin.sub || param.sub == "" || origin.sub == "")) ||
      (e.isIface param.ty && e.impl origin.ty param.ty && origin.ty != param.ty)

/-- which gap a (table-compatible, not realised) pair falls into -/
def gapClass (e : TypeEnv) (param origin : Label) : String :=
  if !compatB e param origin || libCompatB e param origin then "none"
  else if origin.name != "" && origin.ty != param.ty then
    (if param.name != "" then "G1_named_value_of_implementing_type_to_named_interface_parameter"
     else "G2_named_value_of_implementing_type_to_typed_interface_parameter")
  else if origin.name != "" && param.name == "" then "G3_named_value_without_subtype_to_typed_parameter_with_subtype"
  else if origin.name != "" then "G4_named_value_without_subtype_to_same-named_parameter_with_subtype"
  else "G5_typed_value_with_subtype_to_named_parameter_of_that_type"

def derivStepWith (cmp : Label → Label → Bool) (convs : List FuncDesc) (D : List Label) : List Label :=
  convs.foldl (fun D f =>
    if f.input.labels.all (fun p => D.any (cmp p)) then
      D ++ (f.output.labels.filter (fun l => !decide (l ∈ D)))
    else D) D

def derivableWith (cmp : Label → Label → Bool) (supplied : List Label) (convs : List FuncDesc) : List Label :=
  (List.range (convs.length + 1)).foldl (fun D _ => derivStepWith cmp convs D) supplied

end ArgMapper

namespace ArgMapper

/-- the lookup maps of a value set are consistent with its value list (true of every set
`newValueSetFromStruct` builds): every entry is keyed by what it holds and holds a member of the list -/
def ValueSet.KeysOK (vs : ValueSet) : Prop :=
  (∀ p ∈ vs.named, p.2 ∈ vs.values ∧ p.1 = p.2.lab.name ∧ p.1 ≠ "") ∧
  (∀ p ∈ vs.typed, p.2 ∈ vs.values ∧ p.1 = p.2.lab.ty ∧ p.2.lab.name = "")

end ArgMapper
