/-!
# Driver utilities: tokenising protocol lines, canonical ordering, small parsers.
Core Lean only (the driver is linked as a `lean_exe`).
-/
namespace ArgMapper.Driver

/-- a scenario block: header tokens and body lines (each already split on spaces) -/
structure Block where
  kind  : String
  id    : String
  head  : List String
  lines : List (List String)
deriving Repr

def toks (s : String) : List String :=
  (s.splitOn " ").filter (· ≠ "")

/-- group raw lines into blocks delimited by `scn …` / `end` -/
def parseBlocks (ls : List String) : List Block :=
  let rec go (ls : List String) (cur : Option Block) (acc : List Block) : List Block :=
    match ls with
    | [] => acc.reverse
    | l :: rest =>
      match toks l, cur with
      | "scn" :: k :: i :: hd, _ => go rest (some { kind := k, id := i, head := hd, lines := [] }) acc
      | ["end"], some b => go rest none ({ b with lines := b.lines.reverse } :: acc)
      | [], c => go rest c acc
      | t, some b => go rest (some { b with lines := t :: b.lines }) acc
      | _, none => go rest none acc
  go ls none []

/-- all (signed) integers embedded in a string, in order: `"3>4:-1"` ↦ `[3,4,-1]` -/
def nums (s : String) : List Int :=
  let rec go (cs : List Char) (cur : Nat) (inNum neg : Bool) (acc : List Int) : List Int :=
    match cs with
    | [] => (if inNum then (if neg then -(cur : Int) else cur) :: acc else acc).reverse
    | c :: rest =>
      if c.isDigit then go rest (cur * 10 + (c.toNat - '0'.toNat)) true neg acc
      else
        let acc' := if inNum then (if neg then -(cur : Int) else cur) :: acc else acc
        go rest 0 false (c == '-') acc'
  go s.toList 0 false false []

def lexLt : List Int → List Int → Bool
  | [], [] => false
  | [], _ => true
  | _, [] => false
  | a :: as, b :: bs => if a < b then true else if b < a then false else lexLt as bs

def sortTuples (l : List (List Int)) : List (List Int) :=
  l.mergeSort (fun a b => !lexLt b a)

/-- `"a,b,c"` ↦ tuples of the integers of each item (empty string ↦ no items) -/
def parseItems (s : String) : List (List Int) :=
  if s = "" then [] else (s.splitOn ",").map nums

/-- find the line starting with `key` and return its remaining tokens -/
def field (b : Block) (key : String) : Option (List String) :=
  (b.lines.find? (fun l => l.head? = some key)).map (·.drop 1)

/-- `k=v` fields on a token list -/
def kv (ts : List String) (key : String) : Option String :=
  ts.findSome? (fun t =>
    if t.startsWith (key ++ "=") then some ((t.drop (key.length + 1)).toString) else none)

def natOf (s : String) : Nat := s.toNat?.getD 0
def intOf (s : String) : Int := s.toInt?.getD 0

def showTuples (l : List (List Int)) : String :=
  ",".intercalate (l.map (fun t => ":".intercalate (t.map toString)))

/-- graph line `g <n> u>v:w,...` -/
def parseGraphLine (ts : List String) : Nat × List (Nat × Nat × Int) :=
  match ts with
  | n :: rest =>
    let es := (rest.headD "").splitOn ","
    (natOf n, es.filterMap (fun e =>
      match nums e with
      | [u, v, w] => some (u.toNat, v.toNat, w)
      | _ => none))
  | [] => (0, [])

end ArgMapper.Driver
