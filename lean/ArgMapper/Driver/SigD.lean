import ArgMapper.Driver.GraphD
import ArgMapper.Model.Sig
import ArgMapper.Model.Result
import ArgMapper.Model.Args
/-!
# Driver: signature / value-set / option / result kinds (`sig`, `vset`, `opts`, `result`)
-/
namespace ArgMapper.Driver
open ArgMapper

/-- protocol encoding of names / subtypes: `~` is the empty string, `%XX` a byte -/
def hexVal (c : UInt8) : Nat :=
  if c ≥ 48 ∧ c ≤ 57 then c.toNat - 48 else if c ≥ 65 ∧ c ≤ 70 then c.toNat - 55 else if c ≥ 97 ∧ c ≤ 102 then c.toNat - 87 else 0

def decBytes : List UInt8 → List UInt8
  | 37 :: a :: b :: rest => UInt8.ofNat (hexVal a * 16 + hexVal b) :: decBytes rest
  | c :: rest => c :: decBytes rest
  | [] => []

def unTilde (s : String) : String :=
  if s = "~" then "" else
  if !s.contains '%' then s else
  match String.fromUTF8? (ByteArray.mk (decBytes s.toUTF8.toList).toArray) with
  | some r => r
  | none => s

def hexDigit (n : Nat) : Char := if n < 10 then Char.ofNat (48 + n) else Char.ofNat (55 + n)

/-- inverse of `unTilde` (what the harness's `e2s` prints) -/
def tilde (s : String) : String :=
  if s = "" then "~" else
  String.join (s.toUTF8.toList.map (fun c =>
    if (c ≥ 97 ∧ c ≤ 122) ∨ (c ≥ 65 ∧ c ≤ 90) ∨ (c ≥ 48 ∧ c ≤ 57) ∨ c = 95 ∨ c = 61 ∨ c = 46 ∨ c = 43 ∨ c = 47 ∨ c = 45
    then (Char.ofNat c.toNat).toString
    else "%" ++ (hexDigit (c.toNat / 16)).toString ++ (hexDigit (c.toNat % 16)).toString))

/-- `name:ty:sub[:vid]` (sub may contain `=` but no `:`) -/
def parseLabelV (s : String) : Label × Nat :=
  match s.splitOn ":" with
  | [n, t, st] => ({ name := unTilde n, ty := natOf t, sub := unTilde st }, 0)
  | [n, t, st, v] => ({ name := unTilde n, ty := natOf t, sub := unTilde st }, natOf v)
  | _ => ({ name := "?", ty := 0, sub := "?" }, 0)

def parseLabel (s : String) : Label := (parseLabelV s).1

def showLabel (l : Label) : String := s!"{tilde l.name}:{l.ty}:{tilde l.sub}"

def parseField (s : String) : Field :=
  match s.splitOn "|" with
  | [n, tag, ty, x, m] => { name := n, tag := unTilde tag, ty := natOf ty, exported := x == "1", marker := m == "1" }
  | _ => { name := "?", tag := "", ty := 0 }

def parseParam (s : String) : Param :=
  if s.startsWith "P:" then .plain (natOf (s.drop 2).toString)
  else
    -- S:<ty>:<depth>:[f;f]
    match s.splitOn ":[" with
    | [hd, body] =>
      let hs := hd.splitOn ":"
      let body := (body.dropEnd 1).toString
      .struct (natOf (hs.getD 1 "0")) (natOf (hs.getD 2 "0"))
        (if body = "" then [] else (body.splitOn ";").map parseField)
    | _ => .plain 0

def lookupLine (vs : ValueSet) : List String :=
  let rec go (vals : List SVal) (seenN : List String) (seenT : List Nat) (acc : List String) : List String :=
    match vals with
    | [] => acc.reverse
    | v :: rest =>
      let showO := fun (o : Option SVal) => match o with | some x => showLabel x.lab | none => "-"
      let acc1 := if v.lab.name ≠ "" ∧ !seenN.contains v.lab.name
        then s!"named:{tilde v.lab.name}@{showO (vs.namedLookup v.lab.name)}" :: acc else acc
      let acc2 := if !seenT.contains v.lab.ty
        then s!"typed:{v.lab.ty}@{showO (vs.typedLookup v.lab.ty)}" :: acc1 else acc1
      let acc3 := s!"tsub:{v.lab.ty}:{tilde v.lab.sub}@{showO (vs.typedSubLookup v.lab.ty v.lab.sub)}" :: acc2
      go rest (v.lab.name :: seenN) (v.lab.ty :: seenT) acc3
  go vs.values [] [] []

def showLabels (ls : List Label) : String := " ".intercalate (ls.map showLabel)

/-- the declarative C14 specification of what introspection reports for a parameter list -/
def specLabels (ps : List Param) : Option (List Label) :=
  match ps with
  | [] => some []
  | [.struct t d fs] =>
    if (Param.struct t d fs).isStruct then (if d ≤ 1 then some (specStructLabels fs) else none)
    else some (specPositionalLabels ps)
  | _ => if ps.any Param.isStruct then none else some (specPositionalLabels ps)

def runSig (b : Block) : Res :=
  let impl := ((field b "impl").getD []).headD "?"
  if (field b "nonfunc").isSome then
    -- a non-function value must be rejected with an error, not a panic
    let lst := ((field b "list").getD []).headD "err"
    let p := if impl ≠ "err" then some s!"nonfunc_{impl}"
      else if lst ≠ "err" then some s!"NewFuncList_accepts_a_list_with_a_non-function_{lst}" else none
    { conform := if impl = "err" then none else some s!"nonfunc_model=err_impl={impl}", prop := p,
      props := [("C06", if impl = "panic" then "FAIL:NewFunc_panics_on_non_function" else "ok")],
      stats := ["class=nonfunc"] }
  else
  let ins := ((field b "in").getD []).map parseParam
  let outs := ((field b "out").getD []).map parseParam
  let iv := ((field b "iv").getD []).map parseLabel
  let ov := ((field b "ov").getD []).map parseLabel
  let ilk := (field b "ilk").getD []
  let olk := (field b "olk").getD []
  let isig := ((field b "isig").getD []).headD "~"
  let m := newFunc ins outs
  let c : Option String := match m with
    | .error e => if impl = "err" then none else some s!"model_rejects({repr e})_impl={impl}"
    | .ok fs =>
      if impl ≠ "ok" then some s!"model_accepts_impl={impl}"
      else if fs.input.labels ≠ iv then some s!"in_model={showLabels fs.input.labels}_impl={showLabels iv}"
      else if fs.output.labels ≠ ov then some s!"out_model={showLabels fs.output.labels}_impl={showLabels ov}"
      else if lookupLine fs.input ≠ ilk then some s!"inlookup_model={lookupLine fs.input}_impl={ilk}"
      else if lookupLine fs.output ≠ olk then some s!"outlookup_model={lookupLine fs.output}_impl={olk}"
      else
        let ms := match fs.input.signature ((ins.headD (.plain 0)).ty) with
          | none => "panic"
          | some l => if l.isEmpty then "~" else ",".intercalate (l.map toString)
        -- for struct forms the rendered signature is the (pointer-less) struct type, whose id the
        -- harness does not name: only panic-or-not is compared there
        if fs.input.lifted ∧ ms ≠ isig then some s!"signature_model={ms}_impl={isig}"
        else if !fs.input.lifted ∧ (ms = "panic") ≠ (isig = "panic") then some s!"signature_model={ms}_impl={isig}"
        else none
  -- property C14 on the implementation's answers
  let hasErr := match outs.getLast? with | some (.plain t) => t == errorTy | _ => false
  let outsE := if hasErr then outs.dropLast else outs
  let p : Option String :=
    match specLabels ins, specLabels outsE with
    | some si, some so =>
      if impl ≠ "ok" then some s!"valid_signature_rejected_{impl}"
      else if ((field b "relook").getD []).headD "same" ≠ "same" then some "a_second_look_at_the_value_sets_differs_after_the_caller_changed_the_list_it_was_handed"
      else if iv ≠ si then some s!"inputs={showLabels iv}_expected={showLabels si}"
      else if ov ≠ so then some s!"outputs={showLabels ov}_expected={showLabels so}"
      else none
    | _, _ => if impl ≠ "err" then some s!"unsupported_signature_not_rejected_{impl}"
              else if ((field b "list").getD []).headD "err" ≠ "err" then
                some s!"NewFuncList_accepts_a_list_with_an_unsupported_signature_{((field b "list").getD []).headD "?"}"
              else none
  -- C15: the rendered signature of a positional input set is the parameter type list
  let p15 : String :=
    if impl ≠ "ok" then "na"
    else match specLabels ins with
      | some si =>
        let lifted := match ins with | [q] => !q.isStruct | [] => false | _ => true
        if !lifted then "na"
        else
          let want := if si.isEmpty then "~" else ",".intercalate (si.map (fun l => toString l.ty))
          if isig = want then "ok" else s!"FAIL:Signature()={isig}_expected={want}"
      | none => "na"
  let cls := match ins with
    | [] => "none" | [q] => if q.isStruct then "struct" else "pos" | _ => if ins.any Param.isStruct then "mix" else "pos"
  { conform := c, prop := p, props := [("C15", p15), ("C06", if isig = "panic" ∨ impl = "panic" then "FAIL:panic" else "ok")],
    stats := [s!"class={cls}", s!"size={iv.length + ov.length}"] }

/-! ### vset (C15) -/

def runVset (b : Block) (validates : Bool := true) : Res :=
  let vals := ((field b "v").getD []).map parseLabelV
  let labs := vals.map (·.1)
  let distinct := (kv b.head "distinct").getD "true" == "true"
  let implL := (field b "impl").getD []
  let impl := implL.headD "?"
  let model := if validates then newValueSetChecked labs else newValueSetOfValues labs
  -- a label that cannot be represented in a struct is refused with an error (never a panic, never a set that
  -- describes other values)
  if impl ≠ "ok" then
    let panicked := (kv implL "panic").getD "false" == "true"
    match model with
    | .error _ =>
      { conform := if panicked then some "impl_panicked_model_error" else none,
        prop := if panicked then some "NewValueSet_panicked" else none,
        stats := [s!"size={labs.length}", "class=rejected"] }
    | .ok _ => { conform := some s!"impl_{impl}_model_ok", prop := some s!"NewValueSet_failed_on_representable_values{if panicked then "_panic" else ""}" }
  else
  let iv := ((field b "iv").getD []).map parseLabel
  let ilk := (field b "ilk").getD []
  let rt := ((field b "rt").getD []).map parseLabelV
  match model with
  | .error _ =>
    -- the code built a set from labels that cannot survive the struct: judge what it reports
    let want := labs.map (fun l => { l with name := lower l.name })
    { conform := some "model_rejects_impl_ok",
      prop := if iv ≠ want then some s!"values={showLabels iv}_expected={showLabels want}" else none }
  | .ok vs =>
    let c : Option String :=
      if vs.labels ≠ iv then some s!"values_model={showLabels vs.labels}_impl={showLabels iv}"
      else if lookupLine vs ≠ ilk then some s!"lookup_model={lookupLine vs}_impl={ilk}"
      else if vs.roundTrip (vals.map (fun p => some p.2)) ≠ rt.map (fun p => some p.2) then some "roundtrip_differs"
      else none
    -- C15 on the implementation's answers
    let want := labs.map (fun l => { l with name := lower l.name })
    let findLk := fun (q : String) => (ilk.find? (fun s => s.startsWith (q ++ "@"))).map (fun s => (s.drop (q.length + 1)).toString)
    let p : Option String :=
      if iv ≠ want then some s!"values={showLabels iv}_expected={showLabels want}"
      else if rt.map (·.1) ≠ want ∨ rt.map (·.2) ≠ vals.map (·.2) then some "signature_roundtrip_lost_a_value"
      else if !distinct then none
      else want.findSome? (fun l =>
        if l.name ≠ "" then
          (if findLk s!"named:{tilde l.name}" = some (showLabel l) then none else some s!"Named({tilde l.name})_wrong")
        else if findLk s!"typed:{l.ty}" ≠ some (showLabel l) then some s!"Typed({l.ty})_wrong"
        else if (want.filter (fun x => x.ty = l.ty ∧ x.sub = l.sub)).length = 1 ∧
                findLk s!"tsub:{l.ty}:{tilde l.sub}" ≠ some (showLabel l)
          then some s!"TypedSubtype({l.ty},{tilde l.sub})_wrong"
        else none)
    { conform := c, prop := p, stats := [s!"size={labs.length}", s!"class={if distinct then "distinct" else "dups"}"] }

/-! ### opts (C16) -/

def parseOptVal (ty id : String) : Option Val := if ty = "nil" then none else some { ty := natOf ty, id := natOf id }

def parseOpt (ts : List String) : Opt :=
  match ts with
  | ["named", n, "nil"] => .named (unTilde n) none
  | ["named", n, ty, id] => .named (unTilde n) (some { ty := natOf ty, id := natOf id })
  | ["namedsub", n, "nil", st] => .namedSub (unTilde n) none (unTilde st)
  | ["namedsub", n, ty, id, st] => .namedSub (unTilde n) (some { ty := natOf ty, id := natOf id }) (unTilde st)
  | "typed" :: vs => .typed (vs.map (fun v => match v.splitOn ":" with
      | [t, i] => some { ty := natOf t, id := natOf i } | _ => none))
  | ["typedsub", "nil", st] => .typedSub none (unTilde st)
  | ["typedsub", ty, id, st] => .typedSub (some { ty := natOf ty, id := natOf id }) (unTilde st)
  -- `(&Value{Name, Type, Subtype, Value}).Arg()`
  | ["value", n, ty, id, st] => valueArg (unTilde n) (unTilde st) { ty := natOf ty, id := natOf id }
  | ["nil"] => .nilOpt
  | _ => .other

def showBuilder (tag : String) (o : BuildOutcome) : String :=
  let sortS := fun (l : List String) => l.mergeSort (fun a b => a ≤ b)
  match o with
  | .nilArg => s!"{tag} nilarg"
  | .ok b | .optErr b =>
    let st := match o with | .ok _ => "ok" | _ => "opterr"
    let a := sortS (b.named.map (fun p => s!"{p.1}={p.2.ty}:{p.2.id}"))
    let c := sortS (b.namedSub.map (fun p => s!"{p.1.1}/{p.1.2}={p.2.ty}:{p.2.id}"))
    let d := sortS (b.typed.map (fun p => s!"{p.1}={p.2.ty}:{p.2.id}"))
    let e := sortS (b.typedSub.map (fun p => s!"{p.1.1}/{p.1.2}={p.2.ty}:{p.2.id}"))
    s!"{tag} {st} named={",".intercalate a} namedsub={",".intercalate c} typed={",".intercalate d} typedsub={",".intercalate e} convs={b.convs.length}"

/-- the key an option writes (after the `""`-name / `""`-subtype redirections), for the
distinct-keys premise of the permutation clause -/
def optKeys : Opt → List String
  | .named n v => if v.isNone then [] else if n = "" then [s!"T{(v.map (·.ty)).getD 0}"] else [s!"N{lower n}"]
  | .namedSub n v st =>
    if v.isNone then [] else
    if n = "" then (if st = "" then [s!"T{(v.map (·.ty)).getD 0}"] else [s!"T{(v.map (·.ty)).getD 0}/{st}"])
    else if st = "" then [s!"N{lower n}"] else [s!"N{lower n}/{st}"]
  | .typed vs => vs.filterMap (fun v => v.map (fun x => s!"T{x.ty}"))
  | .typedSub v st => match v with
    | none => []
    | some x => if st = "" then [s!"T{x.ty}"] else [s!"T{x.ty}/{st}"]
  | _ => []

/-- C16 specification evaluated on the implementation's dump: every key holds the value of its
last writer, with call options after defaults -/
def specLastWins (opts : List Opt) : List (String × Val) :=
  opts.foldl (fun acc o =>
    let writes : List (String × Val) := match o with
      | .named n (some v) => if n = "" then [(s!"T{v.ty}", v)] else [(s!"N{lower n}", v)]
      | .namedSub n (some v) st =>
        if n = "" then (if st = "" then [(s!"T{v.ty}", v)] else [(s!"T{v.ty}/{st}", v)])
        else if st = "" then [(s!"N{lower n}", v)] else [(s!"N{lower n}/{st}", v)]
      | .typed vs => vs.filterMap (fun v => v.map (fun x => (s!"T{x.ty}", x)))
      | .typedSub (some v) st => if st = "" then [(s!"T{v.ty}", v)] else [(s!"T{v.ty}/{st}", v)]
      | _ => []
    writes.foldl (fun acc w => mapSet acc w.1 w.2) acc) []

def parseDump (ts : List String) : List (String × Val) :=
  let sect := fun (key pre : String) =>
    let body := (kv ts key).getD ""
    if body = "" then [] else (body.splitOn ",").filterMap (fun item =>
      match item.splitOn "=" with
      | [k, v] => match v.splitOn ":" with
        | [t, i] => some (pre ++ k, ({ ty := natOf t, id := natOf i } : Val))
        | _ => none
      | _ => none)
  sect "named" "N" ++ sect "namedsub" "N" ++ sect "typed" "T" ++ sect "typedsub" "T"

def runOpts (b : Block) : Res :=
  let k := natOf ((kv b.head "defaults").getD "0")
  let opts := (b.lines.filter (fun l => l.head? = some "opt")).map (fun l => parseOpt (l.drop 1))
  let implL := (b.lines.find? (fun l => l.head? = some "impl")).getD []
  let impl2L := (b.lines.find? (fun l => l.head? = some "impl2")).getD []
  let implS := " ".intercalate implL
  let hasNil := opts.any (fun o => o == Opt.nilOpt)
  if implL = ["impl", "newfunc_err"] then
    -- NewFunc rejected the defaults: only legitimate for a nil default option
    let nilInDefaults := (opts.take k).any (fun o => o == Opt.nilOpt)
    { conform := if nilInDefaults then none else some "newfunc_err_without_nil_default",
      prop := if nilInDefaults then none else some "defaults_rejected", stats := ["class=nildefault", s!"size={opts.length}"] }
  else
  let m := buildFor (opts.take k) (opts.drop k)
  let c1 := if showBuilder "impl" m = implS then none else some s!"builder_model=[{noSpace (showBuilder "impl" m)}]_impl=[{noSpace implS}]"
  let perm := ((field b "perm").getD []).map natOf
  let m2 := build (perm.map (fun i => opts.getD i .other))
  let c2 := if showBuilder "impl2" m2 = " ".intercalate impl2L then none else some "permuted_builder_differs_from_model"
  -- a second function whose defaults share the first one's backing array must keep its own defaults
  let impl3L := (b.lines.find? (fun l => l.head? = some "impl3")).getD []
  let xopt := (b.lines.find? (fun l => l.head? = some "xopt")).map (fun l => parseOpt (l.drop 1))
  let c3 : Option String := match xopt with
    | some xo =>
      if impl3L.isEmpty then none
      else if showBuilder "impl3" (buildFor (opts.take k ++ [xo]) []) = " ".intercalate impl3L then none
      else some s!"shared_defaults_model=[{noSpace (showBuilder "impl3" (buildFor (opts.take k ++ [xo]) []))}]_impl=[{noSpace (" ".intercalate impl3L)}]"
    | none => none
  -- after a call with options, a use without any shows the defaults alone
  let impl4L := (b.lines.find? (fun l => l.head? = some "impl4")).getD []
  let c4 : Option String :=
    if impl4L.isEmpty ∨ hasNil then none
    else if showBuilder "impl4" (buildFor (opts.take k) []) = " ".intercalate impl4L then none
    else some s!"defaults_after_call_model=[{noSpace (showBuilder "impl4" (buildFor (opts.take k) []))}]_impl=[{noSpace (" ".intercalate impl4L)}]"
  -- a nil option among the call options makes the call itself fail, whatever the target needs
  let callres := ((field b "callres").getD []).headD "skip"
  let nilInCall := (opts.drop k).any (fun o => o == Opt.nilOpt)
  -- property
  let p : Option String :=
    if callres = "panic" then some "call_panicked" else
    if nilInCall ∧ callres ≠ "nilarg" ∧ callres ≠ "skip" then some s!"nil_option_given_to_Call_of_a_function_without_parameters_ended_{callres}" else
    if !hasNil ∧ callres = "nilarg" then some "call_reports_a_nil_option_that_was_not_given" else
    if c3.isSome ∧ !hasNil then some "defaults_of_one_function_changed_by_calling_another" else
    if c4.isSome then some "defaults_changed_by_the_options_of_an_earlier_call" else
    if hasNil then (if implL = ["impl", "nilarg"] then none else some s!"nil_option_not_reported_{noSpace implS}")
    else if implL.getD 1 "" ≠ "ok" then some s!"valid_options_rejected_{noSpace implS}"
    else
      let want := specLastWins opts
      let got := parseDump implL
      let sortK := fun (l : List (String × Val)) => l.mergeSort (fun a b => a.1 ≤ b.1)
      if sortK want ≠ sortK got then some s!"maps_differ_from_last-wins_spec"
      else
        let keys := opts.flatMap optKeys
        if keys.Nodup ∧ sortK (parseDump impl2L) ≠ sortK got then some "permutation_of_distinct_keys_changed_the_maps"
        else none
  { conform := c1.or (c2.or (c3.or c4)), prop := p,
    stats := [s!"size={opts.length}", s!"class={if hasNil then "nil" else if (opts.flatMap optKeys).Nodup then "distinct" else "dups"}"] }

/-! ### result (C17) -/

def runResult (b : Block) : Res :=
  let rets := ((field b "rets").getD []).map (fun s =>
    match s.splitOn ":" with
    | ["K", t, i] => ({ ty := natOf t, id := some (natOf i) } : RVal)
    | ["E", i] => { ty := errorTy, id := if i = "0" then none else some (natOf i) }
    | ["C", i] => { ty := 20, id := if i = "0" then none else some (natOf i) }
    | ["S", i] => { ty := 30, id := some (natOf i) }
    | _ => { ty := 0, id := none })
  let resolves := ((field b "resolve").getD []) == ["true"]
  let implL := (field b "impl").getD []
  if implL.length < 4 then { conform := some s!"impl_{implL}", prop := some s!"impl_{implL}" } else
  let ilen := natOf ((kv implL "len").getD "0")
  let ierr := (kv implL "err").getD "?"
  let iout := ((kv implL "out").getD "").splitOn "," |>.filter (· ≠ "") |>.map natOf
  let iexec := (kv implL "executed").getD "?" == "true"
  let showE := fun (e : Option Nat) => match e with | none => "nil" | some x => toString x
  if !resolves then
    let p := if ilen = 0 ∧ ierr = "unsat" ∧ !iexec then none else some s!"resolution_failure_len={ilen}_err={ierr}_executed={iexec}"
    { conform := p, prop := p, stats := ["class=unresolved", "size=1"] }
  else
  let r : Result := { out := rets, buildErr := none }
  let mout := (List.range r.len).map (fun i => ((r.outAt i).map (fun v => v.id.getD 0)).getD 0)
  let c := if r.len ≠ ilen then some s!"len_model={r.len}_impl={ilen}"
    else if showE r.err ≠ ierr then some s!"err_model={showE r.err}_impl={ierr}"
    else if mout ≠ iout then some s!"out_model={mout}_impl={iout}"
    else none
  -- specification: k values optionally followed by a final `error`
  let finalErr := match rets.getLast? with | some v => v.ty == errorTy | none => false
  let body := if finalErr then rets.dropLast else rets
  let wantErr := if finalErr then (rets.getLast?.bind (·.id)) else none
  let p := if !iexec then some "function_not_executed"
    else if ilen ≠ body.length then some s!"Len={ilen}_expected={body.length}"
    else if iout ≠ body.map (fun v => v.id.getD 0) then some s!"Out={iout}"
    else if ierr ≠ showE wantErr then some s!"Err={ierr}_expected={showE wantErr}"
    else none
  -- C15: loading the result into the function's own output set (twice) leaves the result what it was
  let fr := ((field b "fr").getD []).headD "skip"
  let p15 := if fr = "skip" ∨ fr = "intact" then "ok" else s!"FAIL:FromResult_on_the_functions_own_output_set_{fr}"
  -- … which is also C17's concern: afterwards the i-th output is no longer the function's i-th returned value
  let p := p.or (if fr = "skip" ∨ fr = "intact" ∨ fr = "err" then none else some s!"result_changed_by_loading_it_into_the_functions_output_set_{fr}")
  -- C04: an error returned by the target itself is what the result's error accessor reports
  let p04 := if !iexec ∨ ierr = showE wantErr then "ok" else s!"FAIL:target_returned_error_{showE wantErr}_but_Err()_is_{ierr}"
  { conform := c, prop := p, props := [("C15", p15), ("C04", p04)],
    stats := [s!"size={rets.length}", s!"class={if finalErr then "finalerr" else "noerr"}"] }

end ArgMapper.Driver
