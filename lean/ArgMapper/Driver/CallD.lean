import ArgMapper.Driver.SigD
import ArgMapper.Model.Reach
import ArgMapper.Model.ErrMsg
import ArgMapper.Model.Hist
import ArgMapper.Model.Gens
import ArgMapper.Props.C07b
import ArgMapper.Spec.Match
/-!
# Driver: resolver scenarios (`call` and friends)

Per run of the real code: rebuild the scenario in the model, compare the call-graph dump, rebuild
the oracle (requirement order, pop orders, chosen paths) from the trace, check each chosen path
against the model's Dijkstra replay, run `callWith` under that oracle with the function behaviours
taken from the trace, and compare the execution log (what every body received) and the outcome.
Independently, evaluate the property predicates on the real trace.
-/
namespace ArgMapper.Driver
open ArgMapper

def parseVtx (s : String) : Vtx :=
  match s.splitOn ":" with
  | ["R"] => .root
  | ["V", n, t, st] => .value (unTilde n) (natOf t) (unTilde st)
  | ["A", t, st] => .arg (natOf t) (unTilde st)
  | ["O", t, st] => .out (natOf t) (unTilde st)
  | ["F", k] => .func (natOf k)
  | _ => .func 99999

/-- `reflect.Type.String()` of the harness's type universe (the harness checks this convention when it starts) -/
def tyNameOf (t : Nat) : String :=
  if t ≤ 9 then s!"main.K{t}" else if t ≥ 10 ∧ t ≤ 13 then s!"main.I{t - 10}" else if t = 20 then "*main.E0"
  else if t = 1000 then "error" else if t = 21 then "main.L0" else if t = 22 then "[]int" else if t = 23 then "*main.I0" else s!"?{t}"

def showVtx : Vtx → String
  | .root => "R"
  | .value n t st => s!"V:{tilde n}:{t}:{tilde st}"
  | .arg t st => s!"A:{t}:{tilde st}"
  | .out t st => s!"O:{t}:{tilde st}"
  | .func k => s!"F:{k}"

structure FnInfo where
  desc   : FuncDesc
  form   : String
  script : String
deriving Repr

structure Scn where
  /-- the unsatisfied error of a scenario without inputs and converters carries empty lists, which
      the trace cannot tell from the resolver-level error -/
  reportsInputs : Bool := true
  env      : TypeEnv
  fns      : List FnInfo
  defaults : Nat
  opts     : List Opt
  /-- set when a function description could not be turned into a `FuncDesc` -/
  bad      : Option String
  /-- converter generators with a rule: (generator id, trigger type, trigger name or "*", function, mode) -/
  genRules : List (Nat × Nat × String × Nat × String) := []

def parseTypes (ts : List String) : TypeEnv :=
  let tbl : List (Nat × List Nat) := ts.filterMap (fun t =>
    match t.splitOn "<" with
    | [i, l] => some (natOf i, (l.splitOn ",").map natOf)
    | _ => none)
  { isIface := fun t => tbl.any (fun p => p.1 == t),
    impl := fun t i => match tbl.find? (fun p => p.1 == i) with
      | some p => p.2.contains t
      | none => false }

def parseCallOpt (ts : List String) : Opt :=
  match ts with
  | "conv" :: fs => .convFunc (fs.map (fun f => if f = "nil" then none else some (natOf f)))
  | "convfunc" :: fs => .convFunc (fs.map (fun f => if f = "nil" then none else some (natOf f)))
  | ["gen", "fail"] => .gen 1
  | "gen" :: "rule" :: k :: _ => .gen (natOf k + 2)
  | ["gen", "nil"] => .gen 0
  | ["convnil"] => .conv [none]
  | ["convbad"] => .conv [none]
  | _ => parseOpt ts

def parseScn (b : Block) : Scn :=
  let env := parseTypes ((field b "types").getD [])
  let fnLines := b.lines.filter (fun l => l.head? = some "fn")
  let fns := fnLines.map (fun l =>
    let id := natOf (l.getD 1 "0")
    let ins := ((b.lines.find? (fun x => x.head? = some "fnin" ∧ x[1]? = some (toString id))).getD []).drop 2 |>.map parseParam
    let outs := ((b.lines.find? (fun x => x.head? = some "fnout" ∧ x[1]? = some (toString id))).getD []).drop 2 |>.map parseParam
    let sig := newFunc ins outs
    (id, l, sig))
  let bad := fns.findSome? (fun p => match p.2.2 with | .error e => some s!"fn{p.1}:{repr e}" | .ok _ => none)
  let infos := fns.filterMap (fun p => match p.2.2 with
    | .ok sg => some { desc := { id := p.1, key := natOf ((kv p.2.1 "key").getD "0"), input := sg.input, output := sg.output,
                                 hasErr := sg.hasErr, once := (kv p.2.1 "once").getD "0" == "1" },
                       form := (kv p.2.1 "form").getD "", script := (kv p.2.1 "script").getD "ok" : FnInfo }
    | .error _ => none)
  { reportsInputs := b.lines.any (fun l => l.head? = some "opt" ∧ l.length > 1 ∧ l[1]? ≠ some "nil" ∧ l[1]? ≠ some "other"),
    env := env, fns := infos, defaults := natOf (((field b "defaults").getD []).headD "0"),
    opts := (b.lines.filter (fun l => l.head? = some "opt")).map (fun l => parseCallOpt (l.drop 1)), bad := bad,
    genRules := b.lines.filterMap (fun l => match l with
      | "opt" :: "gen" :: "rule" :: k :: rest =>
        some (natOf k + 2, natOf ((kv rest "ty").getD "0"), unTilde ((kv rest "name").getD "*"),
              natOf ((kv rest "fid").getD "0"), (kv rest "mode").getD "ok")
      | _ => none) }

/-- the generators of a scenario as functions of the visited vertex: id 0 never returns anything, id 1
always reports an error, the others follow their rule (trigger type, optionally trigger name) -/
def Scn.genOf (sc : Scn) (g : Nat) (v : Vtx) : GenRes :=
  if g = 0 then .nothing else if g = 1 then .err else
  match sc.genRules.find? (fun r => r.1 == g) with
  | none => .nothing
  | some (_, ty, name, fid, mode) =>
    if v.ty == ty && (name == "*" || v.name == name) then
      (if mode == "fail" then .err else if mode == "nil" then .nothing else .func fid)
    else .nothing

def Scn.fn (sc : Scn) (id : Nat) : Option FuncDesc := (sc.fns.find? (fun f => f.desc.id == id)).map (·.desc)

/-- the function object held by the vertex of Go type `key`: the first one registered -/
def Scn.funcOfKey (sc : Scn) (convs : List Nat) (key : Nat) : Option FuncDesc :=
  ((0 :: convs).filterMap sc.fn).find? (fun f => f.key == key)

/-! ### events -/

inductive Ev
  | reach (v : Vtx)
  | missing (v : Vtx)
  | pops (vs : List Vtx)
  | path (vs : List Vtx)
  | exec (fid nth : Nat) (args : List PVal) (res : BehOut)
  | res (ts : List String)
deriving Repr

def parseExec (ts : List String) : Option Ev :=
  match ts with
  | fid :: nth :: rest =>
    let args := ((kv rest "args").getD "").splitOn "," |>.filter (· ≠ "") |>.map (fun a =>
      match a.splitOn ":" with
      | [i, t] => ({ ty := natOf t, id := natOf i, org := .root } : PVal)
      | _ => { ty := 0, id := 0, org := .root })
    let res : BehOut := match kv rest "err" with
      | some "typednil" => { outs := [], err := some 1 }
      | some e => { outs := [], err := some (natOf e) }
      | none => { outs := ((kv rest "outs").getD "").splitOn "," |>.filter (· ≠ "") |>.map natOf, err := none }
    some (.exec (natOf fid) (natOf nth) args res)
  | _ => none

def parseEv (l : List String) : Option Ev :=
  match l with
  | "ev" :: "reach" :: [v] => some (.reach (parseVtx v))
  | "ev" :: "missing" :: [v] => some (.missing (parseVtx v))
  | "ev" :: "pops" :: vs => some (.pops (vs.map parseVtx))
  | "ev" :: "path" :: vs => some (.path (vs.map parseVtx))
  | "ev" :: "exec" :: rest => parseExec rest
  | "res" :: ts => some (.res ts)
  | _ => none

/-- split the block's lines into runs, also keeping the raw lines whose first token is in `keep` -/
def splitRunsWith (keep : List String) (lines : List (List String)) : List (List Ev × List (List String)) :=
  let rec go (ls : List (List String)) (cur : Option (List Ev × List (List String)))
      (acc : List (List Ev × List (List String))) : List (List Ev × List (List String)) :=
    match ls with
    | [] => (match cur with | some c => ((c.1.reverse, c.2.reverse) :: acc) | none => acc).reverse
    | l :: rest =>
      if l.head? = some "run" then
        go rest (some ([], [])) (match cur with | some c => (c.1.reverse, c.2.reverse) :: acc | none => acc)
      else match cur with
        | none => go rest none acc
        | some c =>
          if keep.contains (l.headD "") then go rest (some (c.1, l :: c.2)) acc
          else match parseEv l with
            | some e => go rest (some (e :: c.1, c.2)) acc
            | none => go rest cur acc
  go lines none []

/-- split the block's lines into runs -/
def splitRuns (lines : List (List String)) : List (List Ev) :=
  let rec go (ls : List (List String)) (cur : Option (List Ev)) (acc : List (List Ev)) : List (List Ev) :=
    match ls with
    | [] => (match cur with | some c => (c.reverse :: acc) | none => acc).reverse
    | l :: rest =>
      if l.head? = some "run" then
        go rest (some []) (match cur with | some c => c.reverse :: acc | none => acc)
      else match cur, parseEv l with
        | some c, some e => go rest (some (e :: c)) acc
        | c, _ => go rest c acc
  go lines none []

structure OrcB where
  items : List OrcItem
  cur   : Option OrcItem
  pops  : List (Vtx × List Vtx × List Vtx)     -- (requirement, pops, path) for the Dijkstra replay

def buildOracle (evs : List Ev) : List OrcItem × List (Vtx × List Vtx × List Vtx) :=
  let fin := fun (o : OrcB) => match o.cur with | some c => o.items ++ [c] | none => o.items
  let o := evs.foldl (fun (o : OrcB) e =>
    match e with
    | .reach v => { o with items := fin o, cur := some { target := v, missing := [], paths := [] } }
    | .missing v => { o with cur := o.cur.map (fun c => { c with missing := c.missing ++ [v] }) }
    | .path p => { o with cur := o.cur.map (fun c => { c with paths := c.paths ++ [p] }) }
    | _ => o) { items := [], cur := none, pops := [] }
  -- pair each pops event with the path event that follows it and the requirement it ends in
  let rec pair (es : List Ev) (pending : Option (List Vtx)) (acc : List (Vtx × List Vtx × List Vtx)) :=
    match es with
    | [] => acc.reverse
    | .pops ps :: rest => pair rest (some ps) acc
    | .path p :: rest =>
      (match pending, p.getLast? with
       | some ps, some cur => pair rest none ((cur, ps, p) :: acc)
       | _, _ => pair rest none acc)
    | _ :: rest => pair rest pending acc
  (fin o, pair evs none [])

/-- executions numbered per function in order of appearance (a traced call that follows an untraced one on the
same objects starts its counters where that one stopped) -/
def renumberExecs (evs : List Ev) : List Ev :=
  (evs.foldl (fun (acc : List Ev × List (Nat × Nat)) e =>
    match e with
    | .exec fid _ args res =>
      let k := ((acc.2.find? (fun p => p.1 == fid)).map (·.2)).getD 0
      (acc.1 ++ [.exec fid k args res], (acc.2.filter (fun p => p.1 != fid)) ++ [(fid, k + 1)])
    | _ => (acc.1 ++ [e], acc.2)) ([], [])).1

def execsOf (evs : List Ev) : List ExecEv :=
  evs.filterMap (fun e => match e with
    | .exec f n a r => some { fid := f, nth := n, args := a, res := r }
    | _ => none)

def resOf (evs : List Ev) : List String :=
  (evs.findSome? (fun e => match e with | .res ts => some ts | _ => none)).getD ["missing"]

/-! ### model run -/

structure Flags where
  var : Variant := {}
  memoCopy : Bool := true
  publishAfterUpdate : Bool := true
  trackReaching : Bool := true
  takeValuedNamed : Bool := true
  skipRecordsInput : Bool := false
  dupIsError : Bool := true
  hopCopies : Bool := true
deriving Repr

def behFromTrace (sc : Scn) (execs : List ExecEv) : Nat → Nat → List PVal → BehOut :=
  fun fid nth _ =>
    match execs.find? (fun e => e.fid == fid && e.nth == nth) with
    | some e =>
      -- pad the outputs (an erroring execution reports none) to the size of the output set
      let n := ((sc.fn fid).map (fun f => f.output.values.length)).getD 0
      { e.res with outs := e.res.outs ++ List.replicate (n - e.res.outs.length) 0 }
    | none => { outs := [], err := some 424242 }      -- the real code never executed this: shows as a log divergence

instance : Inhabited ExecEv := ⟨{ fid := 0, nth := 0, args := [], res := { outs := [], err := none } }⟩

def showVal (v : PVal) : String := s!"{v.id}:{v.ty}"
def showExec (e : ExecEv) : String :=
  s!"f{e.fid}#{e.nth}({",".intercalate (e.args.map showVal)})->{match e.res.err with | some x => s!"err{x}" | none => ",".intercalate (e.res.outs.map toString)}"

def showOutcome (rep : Bool) (o : Outcome) : String :=
  match o with
  | .ok r => s!"ok {",".intercalate (r.outs.map toString)}"
  | .unsat a g => s!"unsat {",".intercalate ((a.map showLabel).mergeSort (· ≤ ·))} graph={g && rep}"
  | .convErr e => if e = 1 then "e0 typednil" else s!"e0 {e}"
  | .targetErr e _ => if e = 1 then "e0 typednil" else s!"e0 {e}"
  | .missingArg => "missingarg"
  | .panic k => s!"panic {match k with | .finalValue => "finalValue" | .setNotAssignable => "setNotAssignable" | .elemOnStruct => "elemOnStruct" | .emptyPath => "emptyPath" | .unknownVertex => "unknownVertex"}"
  | .outOfFuel => "crash"
  | .badOracle w => s!"badOracle({w})"

/-- canonical rendering of the implementation's `res` line for comparison with `showOutcome` -/
def showImplRes (ts : List String) : String :=
  match ts with
  | "ok" :: rest => s!"ok {rest.headD ""}"
  | "err" :: "unsat" :: rest =>
    -- the resolver-level error lists a requirement once per in-progress function its path runs through;
    -- `planOne` models exactly that, so the (sorted) lists are compared as multisets
    let args := (((kv rest "args").getD "").splitOn ",").mergeSort (· ≤ ·)
    s!"unsat {",".intercalate args} graph={(kv rest "inputs").getD "" != "" || (kv rest "convs").getD "" != ""}"
  | "err" :: "e0" :: [x] => s!"e0 {x}"
  | "err" :: [x] => x
  | "panic" :: [k] => s!"panic {k}"
  | ["crash"] => "crash"
  | _ => " ".intercalate ts

structure RunOut where
  conform : Option String
  outcome : Outcome
  log     : List ExecEv
  stats   : List String
  memo    : List (Nat × Memo) := []
  count   : List (Nat × Nat) := []

def dumpOf (c : CG) : List String × List String :=
  let vs := c.g.verts.map (fun v => showVtx v ++ (if (c.valueOf v).isSome then "=v" else ""))
  let es := c.g.edges.map (fun e => s!"{showVtx e.1}>{showVtx e.2.1}>{e.2.2}")
  (vs.mergeSort (· ≤ ·), es.mergeSort (· ≤ ·))

/-- the builder the scenario produces (defaults first) and the list of registered converters -/
def Scn.builder (sc : Scn) : BuildOutcome := buildFor (sc.opts.take sc.defaults) (sc.opts.drop sc.defaults)

def fuelFor (sc : Scn) : Nat := 4 * sc.fns.length + 8

def replayRun (fl : Flags) (sc : Scn) (b : Builder) (cgr : CallGraphResult) (target : FuncDesc) (evs : List Ev)
    (auto : Bool) (convertRun : Bool := false) (memo0 : List (Nat × Memo) := []) (count0 : List (Nat × Nat) := []) : RunOut :=
  let (items, dij) := buildOracle evs
  let execs := execsOf evs
  -- Dijkstra replay of every chosen path
  let c1 := dij.findSome? (fun d =>
    let cur := d.1; let pops := d.2.1; let path := d.2.2
    if !legalChoice cgr.cg.g cur pops then some s!"illegal_pop_order_for_{showVtx cur}"
    else
      let mp := choosePath cgr.cg.g cur pops
      if mp ≠ path then some s!"path_for_{showVtx cur}_model={" ".intercalate (mp.map showVtx)}_impl={" ".intercalate (path.map showVtx)}"
      else none)
  -- `Convert` runs the library's own identity function, whose body the harness cannot instrument:
  -- its behaviour is known (it returns its argument) and its execution is not in the trace
  let behT := behFromTrace sc execs
  let beh : Nat → Nat → List PVal → BehOut := fun fid nth args =>
    if convertRun && fid == 0 then
      -- the library's identity function returns its argument; for the target type `error` itself the single
      -- result is the function's error: a non-nil argument makes the identity call fail with that value
      (if target.hasErr && target.output.values.isEmpty then { outs := [], err := (args.head?.map (·.id)) }
       else { outs := args.map (·.id), err := none })
    else behT fid nth args
  let ctx : Ctx := { env := sc.env, g := cgr.cg.g, funcOf := sc.funcOfKey b.convs, beh := beh,
                     memoCopy := fl.memoCopy, publishAfterUpdate := fl.publishAfterUpdate,
                     trackReaching := fl.trackReaching, takeValuedNamed := fl.takeValuedNamed,
                     skipRecordsInput := fl.skipRecordsInput, hopCopies := fl.hopCopies, auto := auto }
  let (o, st) := histCall ctx cgr target (fuelFor sc) { memo := memo0, count := count0 } items
  let ires := resOf evs
  -- the unsatisfied error of a call without any input or converter carries empty lists
  let rep := !b.named.isEmpty || !b.namedSub.isEmpty || !b.typed.isEmpty || !b.typedSub.isEmpty || !b.convs.isEmpty
  let c2 := if showOutcome rep o = showImplRes ires then none
            else some s!"outcome_model=[{noSpace (showOutcome rep o)}]_impl=[{noSpace (showImplRes ires)}]"
  let mlog := if convertRun then st.log.filter (fun e => e.fid != 0) else st.log
  let c3 := if mlog.map showExec = execs.map showExec then none
            else some s!"execlog_model=[{";".intercalate (mlog.map showExec)}]_impl=[{";".intercalate (execs.map showExec)}]"
  let c4 := if st.orc.isEmpty then none else some "trace_has_unused_reach_events"
  { conform := c1.or (c3.or (c2.or c4)), outcome := o, log := st.log,
    stats := [s!"paths={dij.length}"], memo := st.memo, count := st.count }

/-! ### property predicates on the real trace -/

/-- effective supplied values: label and provenance id -/
def suppliedOf (b : Builder) : List (Label × Nat) :=
  b.named.map (fun p => ({ name := p.1, ty := p.2.ty, sub := "" }, p.2.id)) ++
  b.namedSub.map (fun p => ({ name := p.1.1, ty := p.2.ty, sub := p.1.2 }, p.2.id)) ++
  b.typed.map (fun p => ({ name := "", ty := p.1, sub := "" }, p.2.id)) ++
  b.typedSub.map (fun p => ({ name := "", ty := p.1.1, sub := p.1.2 }, p.2.id))

/-- where a value id comes from: a supplied label, or output `j` of an earlier execution -/
def originOf (sc : Scn) (supplied : List (Label × Nat)) (earlier : List ExecEv) (id : Nat) : List Label :=
  (supplied.filter (fun p => p.2 == id)).map (·.1) ++
  earlier.flatMap (fun e =>
    match sc.fn e.fid with
    | some f => ((f.output.labels.zip e.res.outs).filter (fun p => p.2 == id)).map (·.1)
    | none => [])

/-- C01 on one run: every executed function received a full argument list of supplied /
previously returned values with compatible labels -/
def c01check (sc : Scn) (supplied : List (Label × Nat)) (execs : List ExecEv) (prior : List ExecEv := []) : Option String :=
  let rec go (done : List ExecEv) (todo : List ExecEv) : Option String :=
    match todo with
    | [] => none
    | e :: rest =>
      match sc.fn e.fid with
      | none => some s!"unknown_function_{e.fid}"
      | some f =>
        if e.args.length ≠ f.input.values.length then some s!"f{e.fid}_executed_with_{e.args.length}_of_{f.input.values.length}_arguments"
        else
          match (f.input.labels.zip e.args).findSome? (fun pa =>
            let origins := originOf sc supplied done pa.2.id
            if origins.isEmpty then some s!"f{e.fid}_param_{showLabel pa.1}_got_fabricated_value_{pa.2.id}"
            else if origins.any (compatB sc.env pa.1) then none
            else
              let o := origins.headD default
              let twin := o.ty == pa.1.ty && sc.env.isIface o.ty &&
                (List.range 40).any (fun t => t != o.ty && sc.env.isIface t && sc.env.impl t o.ty && sc.env.impl o.ty t)
              some s!"{if twin then "twin_interfaces:" else ""}f{e.fid}_param_{showLabel pa.1}_got_value_{pa.2.id}_labelled_{showLabel o}") with
          | some m => some m
          | none => go (done ++ [e]) rest
  go prior execs

def isErrRes (ts : List String) : Bool := ts.head? = some "err"
def isOkRes (ts : List String) : Bool := ts.head? = some "ok"
def isPanicRes (ts : List String) : Bool := ts.head? = some "panic" || ts.head? = some "crash"

def outcomeClass (ts : List String) : String :=
  match ts with
  | "ok" :: _ => "ok"
  | "err" :: "unsat" :: _ => "unsat"
  | "err" :: "e0" :: _ => "funcerr"
  | "err" :: x :: _ => x
  | "panic" :: _ => "panic"
  | "crash" :: _ => "crash"
  | _ => "other"

structure Facts where
  supplied   : List (Label × Nat)
  convs      : List FuncDesc
  target     : FuncDesc
  deriv      : List Label
  /-- target parameters with no compatible derivable label -/
  underiv    : List Label
  /-- target parameters compatible with no supplied label and no converter output label at all -/
  hopeless   : List Label
  exactAll   : Bool
  allConvSat : Bool
  /-- parameters the library's own edge rules cannot feed although the matching table allows it,
      with the gap class -/
  gaps       : List (Label × String)
  underivLib : List Label
  allConvSatLib : Bool
  singleIn   : Bool
  acyclic    : Bool
  scripted   : Bool

def exactFor (supplied : List (Label × Nat)) (p : Label) : List Nat :=
  (supplied.filter (fun s => if p.name ≠ "" then s.1 == p else (s.1.name == "" && s.1.ty == p.ty && s.1.sub == p.sub))).map (·.2)

/-- converter dependency: `f` may consume an output of `g` -/
def dependsOn (e : TypeEnv) (f g : FuncDesc) : Bool :=
  f.input.labels.any (fun p => g.output.labels.any (compatB e p))

def acyclicConvs (e : TypeEnv) (convs : List FuncDesc) : Bool :=
  let vs : List Nat := convs.map (fun f => f.id)
  let es : List (Nat × Nat × Int) :=
    convs.flatMap (fun f => (convs.filter (dependsOn e f)).map (fun h => (f.id, h.id, (1 : Int))))
  let g : AGraph Nat := ⟨vs, es⟩
  !(g.verts.any (fun v => (g.outs v).any (fun w => Traverse.reachB g w v)))

/-- a converter as far as derivability is concerned: of two type-only outputs of one type only the later is
usable (the output set is keyed by type) — a function declaring both is outside the well-formedness premise,
and what it cannot deliver does not count as derivable -/
def effectiveOutputs (f : FuncDesc) : FuncDesc :=
  { f with output := { f.output with values := f.output.values.filter (fun v =>
      f.output.named.any (fun p => p.2.index == v.index) || f.output.typed.any (fun p => p.2.index == v.index)) } }

def mkFacts (sc : Scn) (b : Builder) (target : FuncDesc) : Facts :=
  let supplied := suppliedOf b
  let convs := (b.convs.filterMap sc.fn).map effectiveOutputs
  let deriv := derivable sc.env (supplied.map (·.1)) convs
  let params := target.input.labels
  let derivL := derivableWith (libCompatB sc.env) (supplied.map (·.1)) convs
  let allLabels := supplied.map (·.1) ++ convs.flatMap (fun f => f.output.labels)
  let gapOf := fun (p : Label) => (allLabels.findSome? (fun o =>
    let g := gapClass sc.env p o; if g = "none" then none else some g)).getD "G0_unclassified"
  let underivL := params.filter (fun p => !derivL.any (libCompatB sc.env p))
  let convGaps := convs.flatMap (fun f => f.input.labels.filter (fun p =>
    deriv.any (compatB sc.env p) && !derivL.any (libCompatB sc.env p)))
  let cands := (underivL.filter (fun p => deriv.any (compatB sc.env p)) ++ convGaps).map (fun p => (p, gapOf p))
  let direct := cands.filter (fun g => g.2 != "G0_unclassified")
  { gaps := if direct.isEmpty then cands else direct,
    underivLib := underivL,
    allConvSatLib := convs.all (fun f => f.input.labels.all (fun p => derivL.any (libCompatB sc.env p))),
    supplied := supplied, convs := convs, target := target, deriv := deriv,
    underiv := params.filter (fun p => !deriv.any (compatB sc.env p)),
    hopeless := params.filter (fun p => !(supplied.any (fun s => compatB sc.env p s.1)) &&
                  !(convs.any (fun f => f.output.labels.any (compatB sc.env p)))),
    exactAll := !params.isEmpty && params.all (fun p => !(exactFor supplied p).isEmpty),
    allConvSat := convs.all (fun f => f.input.labels.all (fun p => deriv.any (compatB sc.env p))),
    singleIn := convs.all (fun f => f.input.labels.length ≤ 1),
    acyclic := acyclicConvs sc.env convs,
    scripted := sc.fns.any (fun f => f.script ≠ "ok") }

def parseLabelList (s : String) : List Label :=
  if s = "" then [] else (s.splitOn ",").map parseLabel

/-- the per-run predicates; returns (property id, verdict) pairs -/
def runPredicates (sc : Scn) (fx : Facts) (evs : List Ev) : List (String × Option String) :=
  let execs := execsOf evs
  let ires := resOf evs
  let targetRan := execs.any (fun e => e.fid == 0)
  let convRan := execs.any (fun e => e.fid != 0)
  let fullArgs := execs.all (fun e => match sc.fn e.fid with
    | some f => e.args.length == f.input.values.length | none => false)
  let c01 := c01check sc fx.supplied execs
  let twinSeen := match c01 with | some m => m.startsWith "twin_interfaces" | none => false
  -- C02
  let c02 : Option String :=
    if fx.underiv.isEmpty then none
    else if !isErrRes ires ∧ !isPanicRes ires then
      -- (when the same trace shows finding F14 — a value reaching a parameter through twin interface types — the success
      -- of the call is that finding seen from this property: marked, so that the known-findings file can tell it apart)
      some s!"{if twinSeen then "twin_interfaces:" else ""}underivable_{showLabel (fx.underiv.headD default)}_but_call_returned_{outcomeClass ires}"
    else if isPanicRes ires then some s!"underivable_parameter_and_call_{outcomeClass ires}"
    else if targetRan then some "target_executed_although_unsatisfiable"
    else if !fullArgs then some "converter_executed_with_missing_argument"
    else if fx.allConvSat ∧ outcomeClass ires ≠ "unsat" then some s!"error_kind_{outcomeClass ires}_instead_of_unsat"
    else none
  -- C03
  let c03 : Option String :=
    if !fx.exactAll then none
    else if !isOkRes ires then some s!"exact_inputs_but_{outcomeClass ires}"
    else if convRan then some "converter_executed_despite_exact_inputs"
    else match execs.find? (fun e => e.fid == 0) with
      | none => some "target_not_executed"
      | some e => (fx.target.input.labels.zip e.args).findSome? (fun pa =>
          if (exactFor fx.supplied pa.1).contains pa.2.id then none
          else if pa.1.name = "" ∧ fx.supplied.any (fun s => s.2 == pa.2.id && s.1.ty == pa.1.ty) then none
          else some s!"param_{showLabel pa.1}_got_{pa.2.id}_not_its_exact_value")
  -- C04
  let erring := execs.filter (fun e => e.res.err.isSome)
  let c04 : Option String :=
    match erring.head? with
    | some e =>
      if execs.getLast? ≠ some e then some s!"execution_continued_after_f{e.fid}_failed"
      else if showImplRes ires ≠ (if e.res.err = some 1 then "e0 typednil" else s!"e0 {e.res.err.getD 0}") then
        some s!"error_of_f{e.fid}_not_returned_verbatim_got_{noSpace (showImplRes ires)}"
      else none
    | none => if outcomeClass ires = "funcerr" then some "error_reported_but_no_function_failed" else none
  -- C06
  let c06 : Option String := if isPanicRes ires then some s!"{noSpace (showImplRes ires)}" else none
  -- the text of the unsatisfied-argument error against the model of `Error()` (Model/ErrMsg.lean): every entry the
  -- model's message lists (a missing argument, a parameter, an input, a converter with its values) must end at least
  -- as many lines of the real message as of the model's — bullets, headers and prose are free to change
  let c13msg : Option String :=
    match ires with
    | "err" :: "unsat" :: rest =>
      match kv rest "msg" with
      | none => none
      | some enc =>
        let args := parseLabelList ((kv rest "args").getD "")
        let inputs := (((kv rest "inputs").getD "").splitOn "," |>.filter (· ≠ "") |>.map parseLabelV).map (·.1)
        let cn := ((kv rest "cnames").getD "").splitOn ";" |>.filter (· ≠ "") |>.map (fun s =>
          match s.splitOn ":" with
          | [i, n] => (if i.startsWith "-" then none else some (natOf i), unTilde n)
          | _ => (none, "?"))
        if cn.any (fun p => p.1.isNone) then none else
        let convs : List ConvShown := cn.map (fun p =>
          let f := sc.fn (p.1.getD 0)
          { name := p.2, ins := (f.map (·.input.labels)).getD [], outs := (f.map (·.output.labels)).getD [] })
        let model := unsatMessageLines tyNameOf (unTilde ((kv rest "fname").getD "~")) fx.target.input.labels args inputs convs
        let impl := (unTilde enc).splitOn "\n"
        let entries : List String := ((args ++ fx.target.input.labels ++ inputs ++ convs.flatMap (fun c => c.ins ++ c.outs)).map
          (renderValue tyNameOf) ++ convs.map (·.name)).eraseDups
        let count := fun (ls : List String) (r : String) => (ls.filter (fun l => l.endsWith r)).length
        match entries.find? (fun r => count impl r < count model r) with
        | none => none
        | some r => some s!"message_lists_[{noSpace r}]_{count impl r}_times_the_model_of_Error()_{count model r}_times"
    | _ => none
  -- C13
  let c13 : Option String :=
    if fx.hopeless.isEmpty then c13msg
    else match ires with
      | "err" :: "unsat" :: rest =>
        let args := parseLabelList ((kv rest "args").getD "")
        let inputs := ((kv rest "inputs").getD "").splitOn "," |>.filter (· ≠ "") |>.map parseLabelV
        let convs := ((kv rest "convs").getD "").splitOn "," |>.filter (· ≠ "") |>.map natOf
        let sortL := fun (l : List (Label × Nat)) => (l.map (fun p => showLabel p.1 ++ s!":{p.2}")).mergeSort (· ≤ ·)
        if !fx.hopeless.all (fun h => args.contains h) then
          -- (a hopeless parameter of an interface type that has a twin — another interface with the same method set — is
          -- reachable for the library through the twin's vertex: finding F14 seen from this property)
          let h := (fx.hopeless.find? (fun h => !args.contains h)).getD default
          let twin := sc.env.isIface h.ty && (List.range 40).any (fun t => t != h.ty && sc.env.isIface t && sc.env.impl t h.ty && sc.env.impl h.ty t)
          some s!"{if twin then "twin_interfaces:" else ""}hopeless_{showLabel h}_not_listed"
        else if !args.all (fun a => fx.target.input.labels.contains a) then some "listed_argument_is_not_a_parameter"
        else if !args.all (fun a => fx.underiv.contains a) then
          (if args.all (fun a => fx.underivLib.contains a) ∧ !fx.gaps.isEmpty
           then some s!"matching_gap:{(fx.gaps.headD default).2}:listed_although_table-derivable"
           else some s!"listed_argument_is_derivable")
        else if sortL inputs ≠ sortL fx.supplied then some s!"inputs_{sortL inputs}_expected_{sortL fx.supplied}"
        else if !fx.convs.all (fun f =>
            -- a converter handed over as a raw function is wrapped in a fresh object: only its Go type (key) is
            -- observable; so count per key: at least as many listed as supplied
            let keyOf := fun (i : Nat) => ((sc.fn i).map (·.key)).getD i
            (convs.filter (fun i => keyOf i == f.key)).length ≥ (fx.convs.filter (fun g => g.key == f.key)).length) then
          some "a_supplied_converter_is_missing_from_the_report"
        else if (kv rest "mentions").getD "" ≠ "true" then some "message_does_not_mention_a_missing_argument"
        else c13msg
      | _ => some s!"{if twinSeen then "twin_interfaces:" else ""}hopeless_parameter_but_{outcomeClass ires}"
  [("C01", c01), ("C02", c02), ("C03", c03), ("C04", c04), ("C06", c06), ("C13", c13)]

/-! ### converter generators: the traced invocations against the model -/

def giOf (r : List (List String)) : List (Nat × Vtx × String) := r.filterMap (fun l => match l with
  | ["gi", g, v, res] => some (natOf g + 2, parseVtx v, res)
  | _ => none)

def showGen : GenRes → String
  | .nothing => "nil" | .err => "err" | .func f => toString f

/-- per run: every traced invocation is on a snapshot vertex and returned what its rule says; without an
error every rule-driven generator was invoked exactly once for every snapshot vertex; with one, the
failing invocation is the last -/
def giConform (sc : Scn) (bld : Builder) (snap : List Vtx) (errExpected : Bool) (rawRuns : List (List (List String))) : Option String :=
  let ruleGens := bld.gens.filter (fun g => g ≥ 2)
  rawRuns.findSome? (fun raw =>
    let gi := giOf raw
    (gi.findSome? (fun t =>
      if !snap.contains t.2.1 then some s!"generator_invoked_for_{showVtx t.2.1}_outside_the_snapshot"
      else if showGen (sc.genOf t.1 t.2.1) ≠ t.2.2 then some s!"generator_{t.1}_on_{showVtx t.2.1}_model={showGen (sc.genOf t.1 t.2.1)}_impl={t.2.2}"
      else none)).or
    (if errExpected then
      (if sc.genRules.isEmpty then none
       else if (gi.getLast?.map (·.2.2)) ≠ some "err" then some "generator_error_not_the_last_invocation"
       else if (gi.dropLast.any (fun t => t.2.2 == "err")) then some "generators_invoked_after_an_error"
       else none)
     else
      let got := gi.map (fun t => (t.1, t.2.1))
      let want := snap.flatMap (fun v => ruleGens.map (fun g => (g, v)))
      if want.all (fun w => got.count w == want.count w) ∧ got.length = want.length then none
      else some s!"generator_invocations_model={want.length}_impl={got.length}"))

/-- the builder after the generator loop for this target (`none`: a generator reports an error) -/
def expandFor (sc : Scn) (bld : Builder) (tgt : FuncDesc) : Option Builder :=
  expandGens sc.genOf bld (genVerts (preGenGraph bld sc.fn tgt))

def verdictStr (v : Option String) : String := match v with | none => "ok" | some m => "FAIL:" ++ noSpace m

def runCall (fl : Flags) (b : Block) (conv : Bool := false) : Res :=
  if (field b "builderr").isSome then
    { conform := some s!"harness_builderr_{noSpace (" ".intercalate ((field b "builderr").getD []))}" , propNA := true }
  else
  let sc := parseScn b
  match sc.bad, sc.fn 0 with
  | some m, _ => { conform := some s!"model_rejects_{noSpace m}", propNA := true }
  | _, none => { conform := some "no_target", propNA := true }
  | none, some target =>
  let runsG0 := splitRunsWith ["cv", "gi"] b.lines
  let runsG := if (kv b.head "burn").getD "false" == "true" then runsG0.map (fun r => (renumberExecs r.1, r.2)) else runsG0
  let runsX := runsG.map (fun r => (r.1, r.2.filter (fun l => l.head? = some "cv")))
  let runs := runsX.map (fun r => r.1)
  match sc.builder with
  | .nilArg | .optErr _ =>
    let ok := runs.all (fun r => let t := resOf r; t = ["err", "nilarg"] ∨ t = ["err", "notfunc"])
    { conform := if ok then none else some "builder_error_expected", propNA := true,
      props := [("C06", if runs.any (fun r => isPanicRes (resOf r)) then "FAIL:panic_on_malformed_option" else "ok"),
                -- C10: with a malformed option the call on the identity function fails, so Convert must fail (runs
                -- alternate between the two)
                ("C10", if conv ∧ runsX.any (fun r => !r.2.isEmpty ∧ isOkRes (resOf r.1)) then "FAIL:Convert_succeeds_although_the_call_on_the_identity_function_fails_on_a_malformed_option" else "ok"),
                -- C17: resolution itself fails here (the options cannot even be assembled): no result, an error
                ("C17", if runs.any (fun r => isOkRes (resOf r)) then "FAIL:a_malformed_option_but_a_result_without_error_was_returned" else "ok")],
      stats := ["outcome=builderr"] }
  | .ok bld =>
  -- converter generators: invoked for every named value / typed output present once inputs and converters
  -- are in the graph (a snapshot; the model iterates it in representation order, the code in map order);
  -- the first error aborts the call, generated functions join the converter list
  let snap := genVerts (preGenGraph bld sc.fn target)
  let rawRuns := runsG.map (·.2)
  match expandGens sc.genOf bld snap with
  | none =>
    let ok := runs.all (fun r => resOf r = ["err", "generr"])
    { conform := (if ok then none else some s!"failing_generator_expected_error_got_{noSpace (" ".intercalate (resOf (runs.headD [])))}").or
        (giConform sc bld snap true rawRuns),
      propNA := true,
      props := [("C06", if runs.any (fun r => isPanicRes (resOf r)) then "FAIL:panic_when_a_converter_generator_reports_an_error" else "ok"),
                -- C17: a generator's error makes resolution itself fail: no result, an error — whatever the target needs
                ("C17", if runs.any (fun r => isOkRes (resOf r)) then "FAIL:a_converter_generator_failed_but_a_result_without_error_was_returned" else "ok")],
      stats := ["outcome=generr", "execs=0", s!"convs={bld.convs.length}", "gens=err"] }
  | some bldX =>
  let giAll := giConform sc bld snap false rawRuns
  let generated := bldX.convs.length - bld.convs.length
  let genStat := if bld.gens.isEmpty then "gens=none" else if generated > 0 then "gens=fired" else "gens=idle"
  let bld := bldX
  let cgr := callGraph fl.var sc.env bld sc.fn target false none
  -- graph dump
  let dl := (field b "dump").getD []
  let (mv, me) := dumpOf cgr.cg
  let cd : Option String :=
    if dl.head? = some "skip" then none
    else if dl.head? = some "panic" then some "dump_panicked"
    else
      let iv := ((kv dl "v").getD "").splitOn "," |>.filter (· ≠ "")
      let ie := ((kv dl "e").getD "").splitOn "," |>.filter (· ≠ "")
      if iv.mergeSort (· ≤ ·) ≠ mv then some s!"graph_vertices_model={",".intercalate mv}_impl={",".intercalate (iv.mergeSort (· ≤ ·))}"
      else if ie.mergeSort (· ≤ ·) ≠ me then
        let extraM := me.filter (fun x => !ie.contains x)
        let extraI := ie.filter (fun x => !me.contains x)
        some s!"graph_edges_only_model={",".intercalate extraM}_only_impl={",".intercalate extraI}"
      else if (dl.head? = some "err") ≠ (!cgr.unsat.isEmpty) then some "graph_unsat_verdict_differs"
      else none
  let fx := mkFacts sc bld target
  -- a run that killed the process left no trace: the model runs on its own (greedy oracle) and must diverge too
  let outs := runsX.map (fun rx => let evs := rx.1
    -- in a `Convert` run the target (the library's own identity function) is not instrumented:
    -- the exact-match predicate, which looks at the target's execution, does not apply
    let preds := runPredicates sc fx evs
    let preds := if conv && !rx.2.isEmpty then preds.filter (fun p => p.1 != "C03") else preds
    -- the identity function of a conversion to `error` itself "fails" with the value it is given: no traced body failed
    let preds := if conv then preds.map (fun p => if p.1 == "C04" && p.2 == some "error_reported_but_no_function_failed" then (p.1, none) else p) else preds
    (replayRun fl sc bld cgr target evs ((resOf evs).head? == some "crash") (conv && !rx.2.isEmpty), preds, evs))
  let conform := giAll.or (cd.or (outs.findSome? (fun o => o.1.conform)))
  -- aggregate predicates over runs
  let pids := ["C01", "C02", "C03", "C04", "C06", "C13"]
  let agg := pids.map (fun p => (p, verdictStr (outs.findSome? (fun o => (o.2.1.find? (fun q => q.1 == p)).bind (·.2)))))
  -- C05: completeness + stability across the runs
  let classes := (runs.map (fun r => outcomeClass (resOf r))).eraseDups
  let c05 : String :=
    if fx.scripted then "na"
    else if classes.length > 1 ∧ (fx.singleIn ∨ (fx.acyclic ∧ fx.allConvSat)) then s!"FAIL:outcome_differs_between_runs_{",".intercalate classes}"
    else if fx.underiv.isEmpty ∧ (fx.singleIn ∨ (fx.acyclic ∧ fx.allConvSat)) ∧ !classes.all (fun c => c == "ok") then
      (if !fx.gaps.isEmpty ∧ classes.all (fun c => c == "unsat" || c == "missingarg")
       then s!"FAIL:matching_gap:{(fx.gaps.headD default).2}:param_{showLabel (fx.gaps.headD default).1}"
       else s!"FAIL:derivable_well-behaved_scenario_ended_{",".intercalate classes}")
    else "ok"
  -- C07: the two documented priority families (header says which execution is expected)
  let fam := (kv b.head "fam").getD ""
  -- does the real pruned graph meet the decidable premise of the C07 path theorems?
  let premStat : String :=
    if fam = "affA" then
      let conv := natOf ((kv b.head "conv").getD "0")
      let wants := ((kv b.head "want").getD "").splitOn "," |>.filterMap (fun w =>
        match w.splitOn ":" with | [n, v] => some (n, natOf v) | _ => none)
      match sc.fn conv with
      | none => "prem=A:nofn"
      | some cf =>
        let a : Vtx := .arg ((cf.input.labels.headD default).ty) ""
        let all := wants.all (fun w =>
          match cgr.cg.store.find? (fun p => p.2.id == w.2) with
          | some p => C07.famA cgr.cg.g w.1 a p.1
          | none => false)
        s!"prem=A:{all}"
    else if fam = "affB" then
      let k2 := (sc.fn (natOf ((kv b.head "want").getD "0"))).map (·.key) |>.getD 0
      let f1 := sc.fn (natOf ((kv b.head "not").getD "0"))
      let k1 := f1.map (·.key) |>.getD 0
      let u := cgr.inputs.headD .root
      let a : Vtx := .arg u.ty ""
      let cur := (target.input.labels.headD default).vertex
      let o : Vtx := .out cur.ty ""
      if C07.famB cgr.cg.g u.name u a o k1 k2 then "prem=B:true"
      else if C07.famB' cgr.cg.g u.name u a o cur k1 k2 then "prem=B':true"
      else "prem=B:false"
    else "prem=na"
  let c07 : String :=
    if fam = "affA" then
      let conv := natOf ((kv b.head "conv").getD "0")
      -- want=<param>:<vid>,…  each named parameter must receive the conversion of the input of its own name
      let wants := ((kv b.head "want").getD "").splitOn "," |>.filterMap (fun w =>
        match w.splitOn ":" with | [n, v] => some (n, natOf v) | _ => none)
      match runs.findSome? (fun r =>
        let ex := execsOf r
        let cex := ex.filter (fun e => e.fid == conv)
        if !isOkRes (resOf r) then some s!"call_{outcomeClass (resOf r)}"
        else match ex.find? (fun e => e.fid == 0) with
          | none => some "target_not_executed"
          | some te =>
            (target.input.labels.zip te.args).findSome? (fun pa =>
              match wants.find? (fun w => w.1 == pa.1.name) with
              | none => none
              | some w =>
                -- the execution of the converter that produced this argument
                match cex.find? (fun e => e.res.outs.contains pa.2.id) with
                | none => some s!"parameter_{pa.1.name}_not_produced_by_the_converter"
                | some e => if e.args.map (·.id) = [w.2] then none
                            else some s!"parameter_{pa.1.name}_converted_from_{e.args.map (·.id)}_instead_of_the_same-named_{w.2}")) with
      | some m => "FAIL:" ++ noSpace m
      | none => "ok"
    else if fam = "affB" then
      let want := natOf ((kv b.head "want").getD "0")
      let notw := natOf ((kv b.head "not").getD "0")
      match runs.findSome? (fun r =>
        let ex := execsOf r
        if !isOkRes (resOf r) then some s!"call_{outcomeClass (resOf r)}"
        else if !ex.any (fun e => e.fid == want) then some "name-using_converter_not_executed"
        else if ex.any (fun e => e.fid == notw) then some "type-only_converter_executed"
        else none) with
      | some m => "FAIL:" ++ noSpace m
      | none => "ok"
    else "na"
  let firstOutcome := outcomeClass (resOf (runs.headD []))
  let nexec := ((runs.headD []).filter (fun e => match e with | .exec .. => true | _ => false)).length
  let depth := (outs.map (fun o => ((buildOracle o.2.2).1).length)).foldl Nat.max 0
  -- C10: Convert returns a value exactly when the call on the identity function succeeds; the value
  -- is assignable to the target type; on failure the value is nil
  let c10 : String :=
    if !conv then "na" else
    let cvRuns := runsX.filter (fun r => !r.2.isEmpty)
    let callRuns := runsX.filter (fun r => r.2.isEmpty)
    match cvRuns.findSome? (fun r =>
      let cvl := (r.2.headD []).drop 1
      let ires := resOf r.1
      if isPanicRes ires then some s!"convert_{outcomeClass ires}"
      else if isOkRes ires ∧ (kv cvl "assignable").getD "" ≠ "true" then some "converted_value_not_assignable_to_the_target_type"
      else if isErrRes ires ∧ (kv cvl "nilvalue").getD "" ≠ "true" then some "error_returned_together_with_a_non-nil_value"
      else none) with
    | some m => "FAIL:" ++ noSpace m
    | none =>
      let cc := (callRuns.map (fun r => isOkRes (resOf r.1))).eraseDups
      let vc := (cvRuns.map (fun r => isOkRes (resOf r.1))).eraseDups
      if !fx.scripted ∧ (fx.singleIn ∨ (fx.acyclic ∧ fx.allConvSat)) ∧ cc.length = 1 ∧ vc.length = 1 ∧ cc ≠ vc then
        s!"FAIL:convert_succeeds={vc}_but_call_on_identity_succeeds={cc}"
      else "ok"
  let c08 : String :=
    -- (a value supplied under a parameter's name with another type is outside C08's premise: the value the redefined
    -- function is called with replaces it in the name-keyed option table)
    if fam = "redefcall" ∧ (kv b.head "collide").getD "false" = "true" then "na" else
    if fam = "redefcall" then
      (match runs.find? (fun r => let c := outcomeClass (resOf r); c == "unsat" || c == "missingarg") with
       | some r => s!"FAIL:redefined_function_failed_for_lack_of_an_argument_{noSpace (showImplRes (resOf r))}"
       | none =>
         -- "yields the original function's own results for the original arguments plus those values": the inner
         -- call is replayed as an ordinary call with the extra values; any difference is reported here
         match conform with
         | some m => s!"FAIL:redefined_function_differs_from_the_original_called_with_the_extra_values:{noSpace m}"
         | none => "ok")
    else "na"
  -- C17 on the redefined function: a successful call reports no error (also after an earlier failed call)
  let c17 := if fam = "redefcall" then
      (match runs.find? (fun r => (resOf r).head? == some "err") , outs.find? (fun o => match o.1.outcome with | .ok _ => true | _ => false) with
       | some r, some _ => s!"FAIL:redefined_function_reports_{noSpace (showImplRes (resOf r))}_although_the_call_succeeds"
       | _, _ =>
         -- … and hands back the k results of the original (same length, same values)
         match runs.find? (fun r => isPanicRes (resOf r)), outs.find? (fun o => match o.1.outcome with | .ok _ => true | _ => false) with
         | some r, some _ => s!"FAIL:redefined_function_{noSpace (showImplRes (resOf r))}_although_the_call_succeeds"
         | _, _ => "ok")
    else
      -- any call: when resolution itself fails (the model, replaying this very trace, ends unsatisfied) the result has
      -- length 0 and carries an error
      (match outs.find? (fun o => (match o.1.outcome with | .unsat _ _ => true | .missingArg => true | _ => false) && isOkRes (resOf o.2.2)) with
       | some _ => "FAIL:resolution_fails_but_a_result_without_error_was_returned"
       | none => "ok")
  -- C16 on the redefined function: the values it is called with come after the options given to Redefine, so for a
  -- key given at both times the later one is injected (the replay applies the options in that order)
  let c16 := if fam = "redefcall" ∧ !runs.any (fun r => isPanicRes (resOf r)) then
      (match conform with
       | some m => s!"FAIL:inner_call_of_the_redefined_function_differs_from_options_then_values_in_order:{noSpace m}"
       | none => "ok")
    else "na"
  { conform := conform, propNA := true, props := agg ++ [("C05", c05), ("C07", c07), ("C08", c08), ("C10", c10), ("C17", c17), ("C16", c16)],
    stats := [s!"outcome={firstOutcome}", s!"execs={nexec}", s!"convs={fx.convs.length}", s!"depth={depth}",
              s!"class={if fx.exactAll then "exact" else if !fx.underiv.isEmpty then "underiv" else "deriv"}",
              s!"runs={runs.length}", genStat, premStat, s!"argform={(kv b.head "argform").getD "na"}"] }

end ArgMapper.Driver
