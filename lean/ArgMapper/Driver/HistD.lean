import ArgMapper.Driver.RedefD
/-!
# Driver: `hist` blocks — sequences of `Call` and `Redefine` on shared function objects (C09, C11)

The run-once memo cells and the per-function execution counters are threaded through the model
from one operation to the next, exactly as the real `Func` objects carry them.
-/
namespace ArgMapper.Driver
open ArgMapper

structure HistSt where
  memo : List (Nat × Memo) := []
  count : List (Nat × Nat) := []
  conform : Option String := none
  c09 : Option String := none
  c11 : Option String := none
  c06 : Option String := none
  c01 : Option String := none
  c04 : Option String := none
  c13 : Option String := none
  c17 : Option String := none
  c15 : Option String := none
  c02 : Option String := none
  c03 : Option String := none
  ops : Nat := 0
  /-- Redefine operations so far -/
  redefs : Nat := 0
  /-- executions per function over the whole history, and the first result of each -/
  execs : List ExecEv := []

def runHist (fl : Flags) (b : Block) : Res :=
  if (field b "builderr").isSome then { conform := some "harness_builderr", propNA := true } else
  let sc := parseScn b
  match sc.bad, sc.fn 0, sc.builder with
  | some m, _, _ => { conform := some s!"model_rejects_{noSpace m}", propNA := true }
  | _, none, _ => { conform := some "no_target", propNA := true }
  | _, _, .nilArg => { conform := some "builder_nilarg", propNA := true }
  | _, _, .optErr _ => { conform := some "builder_opterr", propNA := true }
  | none, some target, .ok bld0 =>
  -- converter generators: the builder is extended by what they return (a failing generator makes every
  -- operation on the target fail; such histories are judged operation by operation below)
  let bld := (expandFor sc bld0 target).getD bld0
  let genErr := (expandFor sc bld0 target).isNone
  let cgrRedef := callGraph fl.var sc.env bld sc.fn target true none
  let fx := mkFacts sc bld target
  let runs := splitRunsWith ["rdres", "rdexecs", "hop", "rdsets", "rdfin"] b.lines
  let outCount := fun (fid : Nat) => ((sc.fn fid).map (fun f => f.output.values.length)).getD 0
  let st := runs.foldl (fun (h : HistSt) rl =>
    let evs := rl.1
    let h := { h with ops := h.ops + 1 }
    match rl.2.find? (fun l => l.head? = some "rdres") with
    | some rdl =>
      -- a Redefine: planning run with the current memo cells; nothing it does is kept
      let rdres := rdl.drop 1
      let rdexecs := natOf ((((rl.2.find? (fun l => l.head? = some "rdexecs")).getD []).drop 1).headD "0")
      let rdsets := (((rl.2.find? (fun l => l.head? = some "rdsets")).getD []).drop 1).headD "intact"
      let (items, _) := buildOracle evs
      -- the operation's own input filter (none: the plain Redefine)
      let rdfin := ((rl.2.find? (fun l => l.head? = some "rdfin")).getD []).drop 1
      let fin := parseFilter (rdfin.headD "none") (natOf (rdfin.getD 1 "0"))
      let cgrRedef := if fin.isNone then cgrRedef else callGraph fl.var sc.env bld sc.fn target true fin
      let ctx : Ctx := { env := sc.env, g := cgrRedef.cg.g, funcOf := sc.funcOfKey bld.convs, beh := zeroBeh outCount,
                         memoCopy := fl.memoCopy, publishAfterUpdate := fl.publishAfterUpdate,
                         trackReaching := fl.trackReaching, takeValuedNamed := fl.takeValuedNamed,
                         skipRecordsInput := fl.skipRecordsInput, hopCopies := fl.hopCopies }
      let o := histRedefine ctx cgrRedef target none (fuelFor sc) { memo := h.memo, count := h.count } items fl.dupIsError
      let c := if genErr then (if rdres = ["err", "generr"] then none else some s!"op{h.ops}_failing_generator_expected_error_from_redefine")
               else if showRedef o = showImplRedef rdres then none
               else some s!"op{h.ops}_redefine_model=[{noSpace (showRedef o)}]_impl=[{noSpace (showImplRedef rdres)}]"
      { h with conform := h.conform.or c, redefs := h.redefs + 1,
               c09 := (h.c09.or (if rdexecs = 0 then none else some s!"op{h.ops}_redefine_executed_{rdexecs}_user_function_bodies")).or
                        (if rdsets = "intact" then none else some s!"op{h.ops}_redefine_left_value_sets_{rdsets}"),
               c06 := h.c06.or (if rdres.head? = some "panic" then some s!"redefine_{noSpace (showImplRedef rdres)}" else none) }
    | none =>
      -- a call: possibly on another function object of the scenario, possibly with an option left out
      let hop := ((rl.2.find? (fun l => l.head? = some "hop")).getD []).drop 1
      let tfid := natOf ((kv hop "target").getD "0")
      let omitL := ((kv hop "omit").getD "").splitOn "," |>.filter (· ≠ "") |>.map natOf
      let callOpts := ((List.range sc.opts.length).zip sc.opts).filter (fun p => p.1 ≥ sc.defaults ∧ !omitL.contains p.1) |>.map (·.2)
      let defs := if tfid = 0 then sc.opts.take sc.defaults else []
      match sc.fn tfid, buildFor defs callOpts with
      | some tgt, .ok bld1 =>
        match expandFor sc bld1 tgt with
        | none =>
          { h with conform := h.conform.or (if resOf evs = ["err", "generr"] then none else some s!"op{h.ops}_failing_generator_expected_error"),
                   c06 := h.c06.or (if isPanicRes (resOf evs) then some "panic_when_a_converter_generator_reports_an_error" else none) }
        | some bld' =>
        let cgr' := callGraph fl.var sc.env bld' sc.fn tgt false none
        let fx' := mkFacts sc bld' tgt
        let ro := replayRun fl sc bld' cgr' tgt evs false false h.memo h.count
        let preds := runPredicates sc fx' evs
        let get := fun (p : String) => (preds.find? (fun q => q.1 == p)).bind (·.2)
        let ex := execsOf evs
        -- a direct call of a run-once function that already ran must return that first result
        let c11d : Option String :=
          if tgt.once then
            match h.execs.find? (fun e => e.fid == tfid), resOf evs with
            | some first, "ok" :: rest =>
              if first.res.err.isNone ∧ (rest.headD "") ≠ ",".intercalate (first.res.outs.map toString) then
                some s!"op{h.ops}_direct_call_of_run-once_f{tfid}_returned_{rest.headD ""}_not_its_first_result"
              else none
            | _, _ => none
          else none
        { h with memo := ro.memo, count := ro.count,
                 conform := h.conform.or (ro.conform.map (fun m => s!"op{h.ops}_{m}")),
                 c06 := h.c06.or (get "C06"),
                 -- values returned by executions of earlier operations (memoised run-once results) are legitimate origins
                 c01 := h.c01.or (c01check sc fx'.supplied ex h.execs),
                 c13 := h.c13.or (get "C13"),
                 -- C03 on calls of the target (its own error is a legitimate outcome here, unlike in the exact family)
                 c03 := h.c03.or (if tfid ≠ 0 ∨ tgt.once then none else
                   ((get "C03").filter (fun m => m != "exact_inputs_but_funcerr")).map (fun m => s!"op{h.ops}_{m}")),
                 c11 := h.c11.or c11d,
                 -- C09: after any number of Redefine calls the original function and every converter behave exactly as
                 -- before — the model's Redefine leaves nothing behind, so a later operation that differs is reported
                 c09 := h.c09.or (if h.redefs > 0 then ro.conform.map (fun m => s!"op{h.ops}_after_{h.redefs}_Redefine_calls_a_call_no_longer_behaves_as_before:{m}") else none),
                 -- C02: a call whose resolution fails (replaying this very trace) must not succeed — also when the target
                 -- is a run-once function that already has a result
                 c02 := h.c02.or (match ro.outcome, (resOf evs).head? with
                   | .unsat _ _, some "ok" => some s!"op{h.ops}_underivable_parameter_but_call_returned_ok"
                   | _, _ => none),
                 -- C15: a function assembled with BuildFunc behaves like an ordinary function of its signature — the
                 -- model knows no difference, so a divergence in an operation that executed one is reported under C15
                 c15 := h.c15.or (match ro.conform with
                   | some m => if ex.any (fun e => (sc.fns.find? (fun f => f.desc.id == e.fid)).any (fun f => f.form == "built"))
                               then some s!"op{h.ops}_built_function_differs_from_an_ordinary_one:{m}" else none
                   | none => none),
                 -- C17: when resolution itself fails (the model, replaying this very trace, ends unsatisfied) the
                 -- result must have length 0 and carry an error — also for a run-once target that already has a result
                 c17 := h.c17.or (match ro.outcome, (resOf evs).head? with
                   | .unsat _ _, some "ok" => some s!"op{h.ops}_resolution_fails_but_a_result_of_length>0_without_error_was_returned"
                   | .missingArg, some "ok" => some s!"op{h.ops}_resolution_fails_but_a_result_without_error_was_returned"
                   | _, _ => none),
                 -- a memoised error of a run-once function is reported without any execution in this call
                 c04 := h.c04.or ((get "C04").filter (fun m => m != "error_reported_but_no_function_failed" || h.memo.all (fun mm => mm.2.res.err.isNone))),
                 execs := h.execs ++ ex }
      | _, _ => { h with conform := h.conform.or (some s!"op{h.ops}_bad_target_or_options") }) {}
  -- C11 on the real history: a run-once function's body runs at most once
  let onceIds := (sc.fns.filter (fun f => f.desc.once)).map (fun f => f.desc.id)
  let c11 := st.c11.or <| onceIds.findSome? (fun fid =>
    let n := (st.execs.filter (fun e => e.fid == fid)).length
    if n > 1 then some s!"run-once_function_f{fid}_executed_{n}_times" else none)
  -- a wrapper assembled over the target's own value sets was called before the history: it must not panic
  let wrapV := ((field b "wrap").getD []).headD "none"
  let st := { st with c06 := st.c06.or (if wrapV = "panic" then some "BuildFunc_over_the_targets_own_value_sets_panicked_when_called" else none),
                      -- C15: a function built from a function's own input and output sets is an ordinary function of that signature
                      c15 := st.c15.or (if wrapV = "panic" ∨ wrapV = "builderr" then some s!"BuildFunc_over_the_targets_own_value_sets_{wrapV}" else none) }
  let nOnceUsed := (onceIds.filter (fun fid => st.execs.any (fun e => e.fid == fid))).length
  { conform := st.conform, propNA := true,
    props := [("C09", verdictStr st.c09), ("C11", verdictStr c11), ("C06", verdictStr st.c06), ("C04", verdictStr st.c04),
              ("C13", verdictStr st.c13), ("C17", verdictStr (st.c17.or st.c11)), ("C15", verdictStr st.c15), ("C01", verdictStr st.c01), ("C02", verdictStr st.c02), ("C03", verdictStr st.c03)],
    stats := [s!"ops={st.ops}", s!"execs={st.execs.length}", s!"once={onceIds.length}", s!"onceused={nOnceUsed}",
              s!"convs={fx.convs.length}", s!"outcome=hist"] }

end ArgMapper.Driver

namespace ArgMapper.Driver

/-- `convseq` blocks: each `Convert` must agree with `Call` on an identity function of the same type -/
def runConvSeq (b : Block) : Res :=
  let bad := b.lines.findSome? (fun l =>
    match l with
    | "cs" :: name :: rest =>
      let cv := (kv rest "convert").getD "?"
      let cl := (kv rest "call").getD "?"
      if cv = "panic" then some s!"{name}_convert_panics"
      else if cv ≠ cl then some s!"{name}_convert={cv}_call_on_identity={cl}"
      else if cv.startsWith "ok" ∧ !cv.endsWith ":true" then some s!"{name}_converted_value_has_the_wrong_type"
      else none
    | _ => none)
  { conform := none, prop := bad, stats := [s!"size={b.lines.length}", "execs=1", "outcome=ok"] }

end ArgMapper.Driver

namespace ArgMapper.Driver

/-- `race` blocks: goroutines sharing a target, converter objects and one option slice, run under the
race detector.  No model replay here (the interleaving is not observable); the verdicts are the
property's own observables: no data race reported, every concurrent outcome is one a sequential run
produced, a run-once body ran at most once. -/
def runRace (b : Block) : Res :=
  if b.head.contains "builderr" then { propNA := true, stats := ["outcome=builderr"] } else
  let seq := (((field b "seq").getD []).headD "").splitOn "," |>.filter (· ≠ "")
  let got := (((field b "got").getD []).headD "").splitOn "," |>.filter (· ≠ "") |>.map (fun s => (s.splitOn "*").headD "")
  let once := (((field b "once").getD []).headD "").splitOn "," |>.filter (· ≠ "") |>.filterMap (fun s =>
    match s.splitOn ":" with | [f, n] => some (natOf f, natOf n) | _ => none)
  let raceL := (field b "race").getD []
  let c12 : Option String :=
    if raceL.head? = some "yes" ∧ raceL.getD 1 "" = "HARNESS-RACE" then none
    else if raceL.head? = some "yes" then some s!"data_race:{raceL.getD 1 "?"}"
    else match got.find? (fun o => (o.startsWith "ok:" || o.startsWith "err:" || o.startsWith "panic:" || o.startsWith "rd:") && !seq.contains o) with
      | some o => some s!"concurrent_outcome_{o}_never_produced_sequentially_{seq}"
      | none => if raceL.isEmpty then some "no_race_verdict" else none
  let c11 : Option String := (once.find? (fun p => p.2 > 1)).map (fun p => s!"run-once_function_f{p.1}_executed_{p.2}_times_concurrently")
  let c06 : Option String := (got.find? (fun o => o.startsWith "panic:")).map (fun o => s!"concurrent_{o}")
  -- a run-once body that ran twice: some concurrent call received the result of a second execution, which no
  -- sequential execution of these calls can produce (there the body runs once and everybody sees that result)
  let c12 := c12.or (c11.map (fun m => s!"outcome_of_no_sequential_execution:{m}"))
  -- C04: when every sequential execution reports a function's own error (a memoised failure of a run-once
  -- converter the target depends on), no concurrent call may succeed
  let seqCalls := seq.filter (fun o => o.startsWith "ok:" || o.startsWith "err:" || o.startsWith "panic:")
  let c04 : Option String :=
    if !seqCalls.isEmpty ∧ seqCalls.all (fun o => o == "err:e0") ∧ got.any (fun o => o.startsWith "ok:") then
      some "call_succeeded_although_a_converter_it_needs_failed"
    else none
  -- C01: an execution that received values supplied by two different concurrent calls
  let mixed := natOf ((((field b "mixed").getD []).headD "0"))
  let raceIn := fun (frag : String) => raceL.head? = some "yes" ∧ (((raceL.getD 1 "").splitOn frag).length > 1)
  let c01 : Option String :=
    if mixed > 0 then some s!"{mixed}_executions_received_values_of_two_different_concurrent_calls"
    else if raceIn "Redefine.func" then some s!"data_race_while_a_redefined_function_assembles_the_arguments_of_its_call:{raceL.getD 1 "?"}"
    else none
  let c12 := c12.or c01
  -- C10: concurrent Converts end as sequential ones do
  let c10 : Option String := (got.find? (fun o => o.startsWith "cv:" && !seq.contains o)).map (fun o =>
    s!"concurrent_Convert_ended_{o}_which_no_sequential_Convert_does_{seq.filter (·.startsWith "cv:")}")
  let c06 := c06.or ((got.find? (fun o => o.startsWith "cv:panic:")).map (fun o => s!"concurrent_{o}"))
  let c12 := c12.or c10
  -- a race between two pieces of harness code is a defect of the harness: shown as a divergence, not as a violation
  { conform := if raceL.head? = some "yes" ∧ raceL.getD 1 "" = "HARNESS-RACE" then some "data_race_inside_the_harness" else none, propNA := true,
    props := [("C12", verdictStr c12), ("C11", verdictStr c11), ("C06", verdictStr c06), ("C04", verdictStr c04), ("C01", verdictStr c01), ("C10", verdictStr c10)],
    stats := [s!"execs={(once.map (·.2)).foldl (· + ·) 0 + 1}", s!"once={once.length}", s!"outcome=race", s!"convs={once.length}"] }

end ArgMapper.Driver

namespace ArgMapper.Driver

/-- `redefgen` blocks: Redefine over a converter produced by a generator while the graph is built;
no model replay (generators are not modelled), only the property's observable: no body runs during
Redefine, and the generated converter still runs (once) in a real call afterwards. -/
def runRedefGen (b : Block) : Res :=
  if b.head.contains "builderr" then { propNA := true } else
  let bad := b.lines.findSome? (fun l =>
    match l with
    | "rd" :: k :: rest =>
      if (kv rest "panic").getD "" = "true" then some s!"redefine_{k}_panicked"
      else if (kv rest "execs").getD "0" ≠ "0" then some s!"redefine_{k}_executed_{(kv rest "execs").getD "?"}_user_function_bodies"
      else none
    | "call" :: rest =>
      if (kv rest "ok").getD "" ≠ "true" then some "call_after_redefine_failed"
      else if (kv rest "execs").getD "" ≠ "1" then some s!"generated_converter_executed_{(kv rest "execs").getD "?"}_times_in_the_real_call"
      else none
    | _ => none)
  { conform := none, prop := bad, stats := ["execs=1", "outcome=ok", "size=1"] }

end ArgMapper.Driver
