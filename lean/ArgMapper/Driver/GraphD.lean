import ArgMapper.Driver.Util
import ArgMapper.Model.Dijkstra
import ArgMapper.Model.Traverse
import ArgMapper.Spec.GraphSpec
/-!
# Driver: graph-layer scenario kinds (`gops`, `dij`, `dfs`, `kahn`, `scc`, `topo`)

For every block the driver answers one line
`res <kind> <id> conform=<ok|DIVERGE:…> prop=<ok|FAIL:…|na>`:
* `conform` — the executable model, run on the same operations, agrees with what the real code
  printed (the model↔code tie);
* `prop` — the property's own predicate, evaluated on what the **real code** printed (against
  the specification, not against the concrete model).
-/
namespace ArgMapper.Driver
open ArgMapper ArgMapper.GraphSpec

structure Res where
  conform : Option String := none      -- none = ok
  prop    : Option String := none      -- none = ok   (single-property kinds)
  propNA  : Bool := false
  /-- verdicts for further properties: (id, "ok" | "na" | "FAIL:…") -/
  props   : List (String × String) := []
  stats   : List String := []

/-- `dijconc` blocks: searches of private graphs by several goroutines at once; the harness compares each with the
sequential search of the same graph (which the `dij` family replays against the model) -/
def runDijConc (b : Block) : Res :=
  let v := ((field b "conc").getD []).headD "skip"
  let p := if v = "consistent" ∨ v = "skip" then none else some s!"a_search_running_next_to_others_returned_something_else_than_alone:{v}"
  { conform := none, prop := p, props := [("C12", match p with | none => "ok" | some m => "FAIL:" ++ m)],
    stats := ["small=true", "n=8", "m=0", "reach=0"] }

def Res.line (kind id pid : String) (r : Res) : String :=
  let c := match r.conform with | none => "ok" | some m => "DIVERGE:" ++ m
  let p := if r.propNA then "na" else match r.prop with | none => "ok" | some m => "FAIL:" ++ m
  let main := if pid = "" then "" else s!" p.{pid}={p}"
  let more := String.join (r.props.map (fun q => s!" p.{q.1}={q.2}"))
  s!"res {kind} {id} conform={c}{main}{more}" ++
  (if r.stats.isEmpty then "" else " " ++ " ".intercalate r.stats)

def noSpace (s : String) : String := s.replace " " "_"

/-! ### gops (C19) -/

def parseGOp (ts : List String) : Option (GOp Nat × Bool) :=
  match ts with
  | ["new"] => some (.new, false)
  | ["add", h, v, t] => some (.add (natOf h) (natOf v) (natOf t), false)
  | ["addow", h, v, t] => some (.addow (natOf h) (natOf v) (natOf t), false)
  | ["edge", h, u, v, w] => some (.edge (natOf h) (natOf u) (natOf v) (intOf w), false)
  | ["edge", h, u, v, w, "panic"] => some (.edge (natOf h) (natOf u) (natOf v) (intOf w), true)
  | ["redge", h, u, v] => some (.redge (natOf h) (natOf u) (natOf v), false)
  | ["remove", h, v] => some (.remove (natOf h) (natOf v), false)
  | ["copy", h] => some (.copy (natOf h), false)
  | ["reverse", h] => some (.reverse (natOf h), false)
  | _ => none

/-- the eight observation components, each a sorted list of integer tuples -/
abbrev Obs := List (String × List (List Int))

def obsKeys : List String := ["V", "KO", "KI", "O", "I", "PV", "PO", "PI"]

def parseObs (ts : List String) : Obs :=
  obsKeys.map (fun k => (k, sortTuples (parseItems ((kv ts k).getD ""))))

def tagOf (hash : List (Nat × Nat)) (v : Nat) : Option Nat := GraphImpl.aget hash v

def implObs (w : GraphImpl.World Nat) (h nv : Nat) : Obs :=
  let gv := w.handle h
  let out := w.getAdj gv.out
  let inn := w.getAdj gv.inn
  let hash := w.getHash gv.hash
  let V := hash.map (fun p => [(p.1 : Int), p.2])
  let O := out.flatMap (fun p => p.2.map (fun e => [(p.1 : Int), e.1, e.2]))
  let I := inn.flatMap (fun p => p.2.map (fun e => [(e.1 : Int), p.1, e.2]))
  let PO := (List.range nv).flatMap (fun i =>
    ((GraphImpl.aget out i).getD []).map (fun e =>
      match tagOf hash e.1 with
      | some t => [(i : Int), e.1, t]
      | none => [(i : Int)]))
  let PI := (List.range nv).flatMap (fun i =>
    ((GraphImpl.aget inn i).getD []).map (fun e =>
      match tagOf hash e.1 with
      | some t => [(e.1 : Int), t, i]
      | none => [(i : Int)]))
  [("V", V), ("KO", out.map (fun p => [(p.1 : Int)])), ("KI", inn.map (fun p => [(p.1 : Int)])),
   ("O", O), ("I", I), ("PV", V), ("PO", PO), ("PI", PI)].map (fun p => (p.1, sortTuples p.2))

def specObs (s : SpecWorld Nat) (h nv : Nat) : Obs :=
  let g := s.view h
  let tags := (s.cls h).tags
  let V := g.verts.map (fun (v : Nat) => [(v : Int), ((GraphImpl.aget tags v).getD 0 : Nat)])
  let K := g.verts.map (fun (v : Nat) => [(v : Int)])
  let E := g.edges.map (fun e => [(e.1 : Int), e.2.1, e.2.2])
  let PO := g.edges.filterMap (fun e =>
    if e.1 < nv then some [(e.1 : Int), e.2.1, ((GraphImpl.aget tags e.2.1).getD 0 : Nat)] else none)
  let PI := g.edges.filterMap (fun e =>
    if e.2.1 < nv then some [(e.1 : Int), ((GraphImpl.aget tags e.1).getD 0 : Nat), e.2.1] else none)
  [("V", V), ("KO", K), ("KI", K), ("O", E), ("I", E), ("PV", V), ("PO", PO), ("PI", PI)].map
    (fun p => (p.1, sortTuples p.2))

def obsDiff (a b : Obs) : Option String :=
  (a.zip b).findSome? (fun p =>
    if p.1.2 == p.2.2 then none
    else some s!"{p.1.1}:model/spec={showTuples p.1.2}_impl={showTuples p.2.2}")

structure GopsSt where
  w : GraphImpl.World Nat := GraphImpl.World.empty
  s : SpecWorld Nat := SpecWorld.empty
  res : Res := {}
  step : Nat := 0
  obsN : Nat := 0

def runGops (b : Block) (fixedReverse : Bool) : Res :=
  let nv := natOf ((kv b.head "nv").getD "0")
  let st := b.lines.foldl (fun (st : GopsSt) ts =>
    let st := { st with step := st.step + 1 }
    match ts with
    | "obs" :: h :: rest =>
      let h := natOf h
      let io := parseObs rest
      let c := match st.res.conform with
        | some m => some m
        | none => (obsDiff (implObs st.w h nv) io).map (fun m => s!"step{st.step}_h{h}_{m}")
      let p := match st.res.prop with
        | some m => some m
        | none =>
          if (st.s.cls h).poisoned then none
          else (obsDiff (specObs st.s h nv) io).map (fun m => s!"step{st.step}_h{h}_{m}")
      { st with res := { st.res with conform := c, prop := p }, obsN := st.obsN + 1 }
    | _ =>
      match parseGOp ts with
      | none => { st with res := { st.res with conform := st.res.conform.or (some s!"step{st.step}_unparsed") } }
      | some (op, implPanicked) =>
        let mp := implPanics st.w op
        let c := if mp == implPanicked then st.res.conform
                 else st.res.conform.or (some s!"step{st.step}_panic_model={mp}_impl={implPanicked}")
        { st with w := implStep fixedReverse st.w op, s := specStep st.s op,
                  res := { st.res with conform := c } }) {}
  { st.res with stats := [s!"ops={st.step}", s!"obs={st.obsN}", s!"handles={st.w.handles.length}"] }

/-! ### shared: build an `AGraph Nat` from a `g` line (same insertion order as the harness) -/

def buildGraph (n : Nat) (es : List (Nat × Nat × Int)) : AGraph Nat :=
  es.foldl (fun g e => g.addEdge e.1 e.2.1 e.2.2) { verts := List.range n, edges := [] }

def blockGraph (b : Block) : AGraph Nat :=
  match field b "g" with
  | some ts => let p := parseGraphLine ts; buildGraph p.1 p.2
  | none => AGraph.empty

/-! ### dij (C18) -/

/-- reference shortest distances: Bellman–Ford over unbounded integers, `none` = unreachable.
    (Independent of the Dijkstra model; `Props/C18.lean` relates both to the path-based
    definition.) -/
def bfRound (g : AGraph Nat) (d : List (Nat × Int)) : List (Nat × Int) :=
  g.edges.foldl (fun d e =>
    match GraphImpl.aget d e.1 with
    | none => d
    | some du =>
      match GraphImpl.aget d e.2.1 with
      | none => GraphImpl.aset d e.2.1 (du + e.2.2)
      | some dv => if du + e.2.2 < dv then GraphImpl.aset d e.2.1 (du + e.2.2) else d) d

def bellmanFordL (g : AGraph Nat) (src : Nat) : List (Nat × Int) :=
  (List.range g.verts.length).foldl (fun d _ => bfRound g d) [(src, 0)]

def bellmanFord (g : AGraph Nat) (src : Nat) : Nat → Option Int :=
  GraphImpl.aget (bellmanFordL g src)

def parseMapInt (ts : List String) : List (Nat × Int) :=
  (parseItems (ts.headD "")).filterMap (fun t => match t with | [k, v] => some (k.toNat, v) | _ => none)

/-- `prev` line: `k:v` or `k:-` -/
def parseMapPrev (ts : List String) : List (Nat × Option Nat) :=
  ((ts.headD "").splitOn ",").filterMap (fun item =>
    match item.splitOn ":" with
    | [k, "-"] => some (natOf k, none)
    | [k, v] => some (natOf k, some (natOf v))
    | _ => none)

def runDij (b : Block) : Res :=
  let g := blockGraph b
  let src := natOf (((field b "src").getD []).headD "0")
  if (field b "panic").isSome then { conform := some "impl_panicked", prop := some "impl_panicked" } else
  let pops := ((field b "pops").getD []).map natOf
  let idist := parseMapInt ((field b "dist").getD [])
  let iprev := parseMapPrev ((field b "prev").getD [])
  let s := Dijkstra.run g src pops
  -- conformance: legal pop order, distances and predecessors equal to the replay, paths equal
  let legal := Dijkstra.legalFrom g (Dijkstra.init src) pops &&
               decide (pops.Nodup) && g.verts.all (fun v => decide (v ∈ pops)) && decide (pops.length = g.verts.length)
  let c1 := if legal then none else some "illegal_pop_order"
  let c2 := g.verts.findSome? (fun v =>
    let di := (GraphImpl.aget idist v)
    let pi := (GraphImpl.aget iprev v)
    if di ≠ some (s.dist v) then some s!"dist[{v}]_model={s.dist v}_impl={di}"
    else if pi ≠ some (s.prev v) then some s!"prev[{v}]_model={s.prev v}_impl={pi}"
    else none)
  let iprevF : Nat → Option Nat := fun v => (GraphImpl.aget iprev v).getD none
  let pathsImpl := b.lines.filterMap (fun l =>
    match l with
    | "path" :: t :: rest => some (natOf ((t.dropEnd 1).toString), rest.map natOf)
    | _ => none)
  let c3 := pathsImpl.findSome? (fun p =>
    let mp := Dijkstra.edgeToPath s.prev (g.verts.length + 1) p.1
    if mp = p.2 then none else some s!"path[{p.1}]_model={mp}_impl={p.2}")
  -- property (on the implementation's own answers), under the property's premise
  let nonneg := g.edges.all (fun e => decide (0 ≤ e.2.2))
  let small := g.edges.all (fun e => decide (e.2.2 < 2147483648)) &&
               decide ((g.edges.foldl (fun a e => a + e.2.2) 0) < 2147483647)
  let ref := bellmanFord g src
  let p : Option String :=
    if !nonneg then none else
    g.verts.findSome? (fun v =>
      let path := (pathsImpl.find? (fun p => p.1 = v)).map (·.2)
      match ref v with
      | some d =>
        if GraphImpl.aget idist v ≠ some d then some s!"dist[{v}]_impl={GraphImpl.aget idist v}_true={d}"
        else match path with
          | none => some s!"nopath[{v}]"
          | some pth =>
            if pth.head? ≠ some src then some s!"path[{v}]_not_from_source"
            else if pth.getLast? ≠ some v then some s!"path[{v}]_wrong_end"
            else if !(AGraph.isPathB g pth) then some s!"path[{v}]_uses_missing_edge"
            else if AGraph.pathWeight g pth ≠ d then some s!"path[{v}]_weight={AGraph.pathWeight g pth}_dist={d}"
            else none
      | none =>
        -- unreachable: the predecessor chain never leads back to the source
        match path with
        | some pth => if src ∈ pth then some s!"unreachable[{v}]_chain_reaches_source" else none
        | none => none)
  let _ := iprevF
  let reach := (g.verts.filter (fun v => (ref v).isSome)).length
  { conform := c1.or (c2.or c3), prop := p, propNA := !nonneg,
    stats := [s!"n={g.verts.length}", s!"m={g.edges.length}", s!"reach={reach}", s!"small={small}"] }

/-! ### dfs / kahn / scc / topo (C20) -/

def parseActs (ts : List String) : Nat → Traverse.DfsAct := fun v =>
  match ts[v]? with
  | some "d" => .descend
  | some "a" => .abort
  | _ => .skip

/-- specification of the DFS report: `w ≠ start` is handed to the callback iff it is reachable
    from `start` through descended vertices; executable form used on the implementation's log -/
def descReach (g : AGraph Nat) (acts : Nat → Traverse.DfsAct) (start : Nat) : List Nat :=
  -- vertices whose out-edges get explored: start plus descended vertices reachable via such
  let sub : AGraph Nat := { g with edges := g.edges.filter (fun e => e.1 = start ∨ acts e.1 = .descend) }
  let sub2 : AGraph Nat := { sub with edges := sub.edges.filter (fun e => e.2.1 = start ∨ acts e.2.1 = .descend) }
  Traverse.reachSet sub2 (g.verts.length + 1) [start] [start]

def runDfs (b : Block) : Res :=
  let g := blockGraph b
  let start := natOf (((field b "start").getD []).headD "0")
  let acts := parseActs ((field b "acts").getD [])
  if (field b "panic").isSome then { conform := some "impl_panicked", prop := some "impl_panicked" } else
  let ilog := ((field b "log").getD []).map natOf
  let ierr := ((field b "err").getD []) == ["true"]
  let m := Traverse.DFS g acts start
  let hasAbort := g.verts.any (fun v => acts v = .abort)
  let sortN := fun (l : List Nat) => l.mergeSort (· ≤ ·)
  -- conformance: same error verdict; without aborts the report multiset is order independent
  let c := if m.outOfFuel then some "model_out_of_fuel"
    else if m.aborted != ierr then some s!"err_model={m.aborted}_impl={ierr}"
    else if !hasAbort ∧ sortN m.log ≠ sortN ilog then some s!"log_model={sortN m.log}_impl={sortN ilog}"
    else none
  -- property on the implementation's log
  let explored := descReach g acts start              -- start + descended vertices actually entered
  let shouldReport := (g.verts.filter (fun w => w ≠ start ∧
      explored.any (fun u => g.hasEdge u w))).mergeSort (· ≤ ·)
  let reported := (ilog.eraseDups).mergeSort (· ≤ ·)
  let p : Option String :=
    if hasAbort then
      -- an abort stops the traversal at an order-dependent point: only soundness is checkable
      if ilog.any (fun w => w = start ∨ !(shouldReport.contains w)) then some "reported_unreachable_vertex"
      else if ierr ≠ ilog.any (fun w => acts w = .abort) then some "error_not_propagated"
      else if (ilog.filter (fun w => acts w = .descend)).Nodup then none else some "descended_twice"
    else if reported ≠ shouldReport then some s!"reported={reported}_expected={shouldReport}"
    else if !(ilog.filter (fun w => acts w = .descend)).Nodup then some "descended_twice"
    else if ierr then some "spurious_error"
    else none
  { conform := c, prop := p,
    stats := [s!"n={g.verts.length}", s!"m={g.edges.length}", s!"reported={ilog.length}", s!"abort={hasAbort}"] }

def runKahn (b : Block) : Res :=
  let g := blockGraph b
  let ipanic := (field b "panic").isSome
  let iorder := ((field b "order").getD []).map natOf
  let untouched := ((field b "untouched").getD []) == ["true"]
  let m := Traverse.kahnSort g
  let cyclic := g.verts.any (fun v => g.outs v |>.any (fun w => Traverse.reachB g w v))
  let c := match m with
    | none => if ipanic then none else some "model_panics_impl_returns"
    | some _ => if ipanic then some "impl_panics_model_returns" else none
  let p : Option String :=
    if !untouched then some "original_graph_modified"
    else if cyclic then (if ipanic then none else some "cyclic_graph_accepted")
    else if ipanic then some "acyclic_graph_refused"
    else if Traverse.isTopoOrder g iorder then none else some s!"not_a_topological_order_{iorder}"
  { conform := c, prop := p, stats := [s!"n={g.verts.length}", s!"m={g.edges.length}", s!"cyclic={cyclic}"] }

def runScc (b : Block) : Res :=
  let g := blockGraph b
  if (field b "panic").isSome then { conform := some "impl_panicked", prop := some "impl_panicked" } else
  let raw := " ".intercalate ((field b "comps").getD [])
  let icomps := (raw.splitOn "|").map (fun c => (toks c).map natOf) |>.filter (fun c => !c.isEmpty)
  let canon := fun (cs : List (List Nat)) =>
    sortTuples (cs.map (fun c => (c.mergeSort (· ≤ ·)).map (fun (x : Nat) => (x : Int))))
  let m := Traverse.stronglyConnected g
  let c := if canon m = canon icomps then none else some s!"comps_model={showTuples (canon m)}_impl={showTuples (canon icomps)}"
  let p := if Traverse.isSccPartition g icomps then none else some s!"not_the_scc_partition_{showTuples (canon icomps)}"
  { conform := c, prop := p,
    stats := [s!"n={g.verts.length}", s!"m={g.edges.length}", s!"comps={icomps.length}"] }

def runTopo (b : Block) : Res :=
  let g := blockGraph b
  let root := natOf (((field b "root").getD []).headD "0")
  if (field b "panic").isSome then { conform := some "impl_panicked", prop := some "impl_panicked" } else
  let iorder := ((field b "order").getD []).map natOf
  let itd := parseMapInt ((field b "tdist").getD [])
  let idd := parseMapInt ((field b "ddist").getD [])
  let itp := parseMapPrev ((field b "tprev").getD [])
  -- conformance: the model run on the implementation's own topological order gives the same maps
  let m := Traverse.topoShortestPath g iorder
  let c := g.verts.findSome? (fun v =>
    if Traverse.lookupD m.dist v ≠ GraphImpl.aget itd v then
      some s!"tdist[{v}]_model={Traverse.lookupD m.dist v}_impl={GraphImpl.aget itd v}"
    else none)
  let ref := bellmanFord g root
  let p : Option String :=
    if !Traverse.isTopoOrder g iorder then some "kahn_order_invalid" else
    g.verts.findSome? (fun v =>
      if v = root then none else
      let t := GraphImpl.aget itd v
      let d := GraphImpl.aget idd v
      if t ≠ d then some s!"dist[{v}]_topo={t}_dijkstra={d}"
      else if t ≠ ref v then some s!"dist[{v}]_topo={t}_true={ref v}"
      else
        -- the predecessor is a shortest-path-tree edge
        match (GraphImpl.aget itp v).getD none, t with
        | some u, some tv =>
          let du := if u = root then some 0 else GraphImpl.aget itd u
          match du, g.weight u v with
          | some x, some w => if x + w = tv then none else some s!"prev[{v}]={u}_not_tight"
          | _, _ => some s!"prev[{v}]={u}_no_edge"
        | _, _ => some s!"prev[{v}]_missing")
  { conform := c, prop := p, stats := [s!"n={g.verts.length}", s!"m={g.edges.length}"] }

end ArgMapper.Driver
