import ArgMapper.Driver.CallD
import ArgMapper.Model.Redefine
/-!
# Driver: `redef` blocks (Redefine planning runs; C08, C09)
-/
namespace ArgMapper.Driver
open ArgMapper

/-- the filter as the harness assembles it — nest 0: `FilterOr(types…)`; 1: `FilterAnd(FilterOr(types…),
FilterOr(types…))`; 2: `FilterOr(FilterAnd(t), …)` -/
def parseFilter (s : String) (nest : Nat := 0) : Option Filter :=
  if s = "none" then none
  else
    let tys : List Filter := if s = "empty" then [] else (s.splitOn ",").map (fun t => Filter.ty (natOf t))
    match nest with
    | 1 => some (.and [.or tys, .or tys])
    | 2 => some (.or (tys.map (fun t => Filter.and [t])))
    | 3 => some (.or (tys ++ [.and []]))
    | 4 => some (.and [.or tys, .or []])
    | _ => some (.or tys)

def showRedef (o : RedefOutcome) : String :=
  match o with
  | .ok ls => s!"ok {",".intercalate ((ls.map showLabel).mergeSort (· ≤ ·))}"
  | .outputFiltered => "outfilter"
  | .unsat a _ => s!"unsat {",".intercalate ((a.map showLabel).mergeSort (· ≤ ·))}"
  | .missingArg => "missingarg"
  | .funcErr e => if e = 1 then "e0 typednil" else s!"e0 {e}"
  | .panic k => s!"panic {repr k}"
  | .outOfFuel => "crash"
  | .badOracle w => s!"badOracle({w})"
  | .structPanic => "panic structof"
  | .dupName => "dupname"

def showImplRedef (ts : List String) : String :=
  match ts with
  | "ok" :: rest => s!"ok {(kv rest "inputs").getD ""}"
  | "err" :: "outfilter" :: _ => "outfilter"
  | "err" :: "unsat" :: rest => s!"unsat {(kv rest "args").getD ""}"
  | "err" :: "e0" :: [x] => s!"e0 {x}"
  | "err" :: [x] => x
  | "panic" :: [k] => s!"panic {k}"
  | "crash" :: _ => "crash"
  | _ => " ".intercalate ts

def runRedef (fl : Flags) (b : Block) : Res :=
  if (field b "builderr").isSome then { conform := some "harness_builderr", propNA := true } else
  let sc := parseScn b
  match sc.bad, sc.fn 0, sc.builder with
  | some m, _, _ => { conform := some s!"model_rejects_{noSpace m}", propNA := true }
  | _, none, _ => { conform := some "no_target", propNA := true }
  | _, _, .nilArg => { conform := some "builder_nilarg", propNA := true }
  | _, _, .optErr _ => { conform := some "builder_opterr", propNA := true }
  | none, some target, .ok bld0 =>
  let fin := parseFilter ((kv b.head "fin").getD "none") (natOf ((kv b.head "finnest").getD "0"))
  let fout := parseFilter ((kv b.head "fout").getD "none") (natOf ((kv b.head "foutnest").getD "0"))
  -- converter generators run while the Redefine graph is built, after the output filter was checked
  let snap := genVerts (preGenGraph bld0 sc.fn target)
  let rawRuns := (splitRunsWith ["gi", "rdres"] b.lines).map (fun r => r.2)
  let outRej := !outputsPass sc.env target fout
  -- with a rejected output the graph is never built: no invocation at all
  let giC := if outRej then
      (if rawRuns.any (fun r => !(giOf r).isEmpty) then some "generators_invoked_although_the_output_filter_rejects" else none)
    else giConform sc bld0 snap (expandGens sc.genOf bld0 snap).isNone rawRuns
  match expandGens sc.genOf bld0 snap with
  | none =>
    let want := if outRej then ["err", "outfilter"] else ["err", "generr"]
    let ok := rawRuns.all (fun r => ((r.find? (fun l => l.head? = some "rdres")).getD []).drop 1 = want)
    let pan := rawRuns.any (fun r => let t := ((r.find? (fun l => l.head? = some "rdres")).getD []).drop 1
                                     t.head? = some "panic" ∨ t.head? = some "crash")
    { conform := (if ok then none else some s!"failing_generator_expected_{"_".intercalate want}_from_redefine").or giC, propNA := true,
      props := [("C08", "na"), ("C09", "na"), ("C06", if pan then "FAIL:redefine_panicked_when_a_generator_reports_an_error" else "ok")],
      stats := ["outcome=generr", s!"convs={bld0.convs.length}", "execs=1", "gens=err"] }
  | some bld =>
  let genStat := if bld0.gens.isEmpty then "gens=none" else if bld.convs.length > bld0.convs.length then "gens=fired" else "gens=idle"
  let cgr := callGraph fl.var sc.env bld sc.fn target true fin
  let dl := (field b "dump").getD []
  let (mv, me) := dumpOf cgr.cg
  let cd : Option String :=
    let iv := ((kv dl "v").getD "").splitOn "," |>.filter (· ≠ "")
    let ie := ((kv dl "e").getD "").splitOn "," |>.filter (· ≠ "")
    if iv.mergeSort (· ≤ ·) ≠ mv then some s!"graph_vertices_model={",".intercalate mv}_impl={",".intercalate (iv.mergeSort (· ≤ ·))}"
    else if ie.mergeSort (· ≤ ·) ≠ me then
      some s!"graph_edges_only_model={",".intercalate (me.filter (fun x => !ie.contains x))}_only_impl={",".intercalate (ie.filter (fun x => !me.contains x))}"
    else none
  let runs := splitRunsWith ["rdres", "rdexecs", "rdsets"] b.lines
  let supplied := suppliedOf bld
  let outCount := fun (fid : Nat) => ((sc.fn fid).map (fun f => f.output.values.length)).getD 0
  let per := runs.map (fun rl =>
    let evs := rl.1
    let rdres := ((rl.2.find? (fun l => l.head? = some "rdres")).getD []).drop 1
    let rdexecs := natOf ((((rl.2.find? (fun l => l.head? = some "rdexecs")).getD []).drop 1).headD "0")
    let rdsets := (((rl.2.find? (fun l => l.head? = some "rdsets")).getD []).drop 1).headD "intact"
    let (items, dij) := buildOracle evs
    let c1 := dij.findSome? (fun d =>
      if !legalChoice cgr.cg.g d.1 d.2.1 then some s!"illegal_pop_order_for_{showVtx d.1}"
      else if choosePath cgr.cg.g d.1 d.2.1 ≠ d.2.2 then some s!"path_for_{showVtx d.1}_differs"
      else none)
    let ctx : Ctx := { env := sc.env, g := cgr.cg.g, funcOf := sc.funcOfKey bld.convs, beh := zeroBeh outCount,
                       memoCopy := fl.memoCopy, publishAfterUpdate := fl.publishAfterUpdate,
                       trackReaching := fl.trackReaching, takeValuedNamed := fl.takeValuedNamed,
                       skipRecordsInput := fl.skipRecordsInput, hopCopies := fl.hopCopies,
                       auto := rdres.head? == some "crash" }
    let o := histRedefine ctx cgr target fout (fuelFor sc) {} items fl.dupIsError
    let c2 := if showRedef o = showImplRedef rdres then none
              else some s!"redefine_model=[{noSpace (showRedef o)}]_impl=[{noSpace (showImplRedef rdres)}]"
    -- predicates on the implementation's answer
    let declared := if rdres.head? = some "ok" then parseLabelList ((kv rdres "inputs").getD "") else []
    let passes := fun (l : Label) => match fin with | none => true | some f => f.eval sc.env l.ty
    let isSupplied := fun (l : Label) => supplied.any (fun s =>
      if l.name ≠ "" then s.1.name == l.name && s.1.ty == l.ty else s.1.name == "" && s.1.ty == l.ty)
    let outRejected := !outputsPass sc.env target fout
    let p08 : Option String :=
      if (kv b.head "subs").getD "false" == "true" then none   -- subtype labels: outside the premise of C08
      else if outRejected then (if rdres = ["err", "outfilter"] then none else some s!"output_rejected_by_filter_but_{noSpace (showImplRedef rdres)}")
      else if rdres = ["err", "outfilter"] then some "outputs_pass_but_rejected"
      else match declared.find? (fun l => !passes l) with
        | some l => some s!"declared_input_{showLabel l}_violates_the_input_filter"
        | none => match declared.find? isSupplied with
          | some l => some s!"declared_input_{showLabel l}_was_already_supplied"
          | none =>
            if target.input.labels.all passes ∧ rdres.head? ≠ some "ok" then
              some s!"all_parameters_permitted_but_{noSpace (showImplRedef rdres)}"
            else none
    let p09 : Option String := if rdexecs ≠ 0 then some s!"redefine_executed_{rdexecs}_user_function_bodies"
      else if rdsets ≠ "intact" then some s!"redefine_left_value_sets_{rdsets}" else none
    -- C11: a run-once function's body must not run during planning (its first real use would be its second run)
    let p11 : Option String := if rdexecs > 0 ∧ sc.fns.any (fun f => f.desc.once) then
      some s!"redefine_executed_{rdexecs}_function_bodies_in_a_scenario_with_run-once_converters" else none
    -- C16: defaults given at construction count for Redefine as they do for Call
    let p16 : Option String := if sc.defaults > 0 ∧ showRedef o ≠ showImplRedef rdres then
      some s!"with_default_options_redefine_model=[{noSpace (showRedef o)}]_impl=[{noSpace (showImplRedef rdres)}]" else none
    let p06 : Option String := if rdres.head? = some "panic" ∨ rdres.head? = some "crash" then some s!"redefine_{noSpace (showImplRedef rdres)}" else none
    (c1.or c2, p08, p09, p06.or none, rdres, p11, p16))
  let conform := giC.or (cd.or (per.findSome? (fun p => p.1)))
  let v := fun (f : (Option String × Option String × Option String × Option String × List String × Option String × Option String) → Option String) =>
    verdictStr (per.findSome? f)
  let cls := ((per.headD (none, none, none, none, [], none, none)).2.2.2.2.1).headD "none"
  { conform := conform, propNA := true,
    props := [("C08", v (·.2.1)), ("C09", v (·.2.2.1)), ("C06", v (·.2.2.2.1)), ("C11", v (·.2.2.2.2.2.1)), ("C16", v (·.2.2.2.2.2.2))],
    stats := [s!"outcome={cls}", s!"convs={bld.convs.length}", s!"execs=1", s!"runs={per.length}", genStat] }

end ArgMapper.Driver

namespace ArgMapper.Driver

/-- `probe` blocks (after call scenarios): a sibling function sharing the target's default-option array must be
left alone by `Call` / `Redefine` on the target (its exactly matching default value is what it receives: C03, C16;
an unsatisfiable call must not pick up somebody else's value: C02; Redefine disturbs nothing: C09), and an
option-less `Call()` behaves the same before and after an option-less `Redefine()` (C09) -/
def runProbe (b : Block) : Res :=
  let sib := ((field b "sibling").getD []).headD "skip"
  let bare := ((field b "bare").getD []).headD "skip"
  let ps := if sib = "disturbed" ∨ sib = "panic" then some s!"call_or_redefine_on_the_target_{sib}_a_function_sharing_its_default_option_array" else none
  let pb := if bare.startsWith "changed" ∨ bare = "panic" then some s!"option-less_Call_after_option-less_Redefine_{noSpace bare}" else none
  -- one value set as input and output of a built function: the callback's view is what the caller gave, and what
  -- it leaves there is what the caller gets (C15)
  let pt := ((field b "passthru").getD []).headD "skip"
  let pp := if pt = "changed" ∨ pt = "panic" then some s!"built_function_over_one_shared_value_set_{pt}_the_values_passed_through" else none
  -- two value sets built from the same description (or belonging to two functions with the same result types) are two objects
  let tw := ((field b "twinsets").getD []).headD "skip"
  let pp := pp.or (if tw = "aliased" ∨ tw = "panic" ∨ tw = "err" then some s!"value_sets_of_equal_description_{tw}" else none)
  -- a redefined function called again passes on the values of this call only
  let ru := ((field b "reuse").getD []).headD "skip"
  let pru := if ru = "skip" ∨ ru = "intact" then none else some s!"a_redefined_function_called_repeatedly_{ru}"
  let ptw := if tw = "aliased" then some "value_sets_of_equal_description_aliased:_a_value_loaded_into_one_is_seen_through_the_other" else none
  { conform := none, propNA := true,
    props := [("C02", verdictStr ps), ("C03", verdictStr ps), ("C05", verdictStr ps), ("C16", verdictStr (ps.or pru)), ("C08", verdictStr pru), ("C15", verdictStr (pp.or ps)), ("C13", verdictStr ps), ("C01", verdictStr (ps.or ptw)), ("C09", verdictStr (ps.or pb)), ("C06", verdictStr (if bare = "panic" ∨ sib = "panic" then some "probe_panicked" else none))],
    stats := ["execs=1", "outcome=ok", "size=1"] }

/-- `alias` blocks: after calling a redefined function, is the caller's option slice (spare capacity
included) still what the caller put there? -/
def runAlias (b : Block) : Res :=
  let v := ((field b "alias").getD []).headD "skip"
  let sib := ((field b "sibling").getD []).headD "skip"
  let p08 := if v = "modified" ∨ v = "panic" then some s!"calling_the_redefined_function_{v}_the_callers_option_slice" else none
  -- Convert on a prefix of the caller's option list: what lies behind the prefix in the same array is the caller's
  let cv := ((field b "cvalias").getD []).headD "skip"
  let p10 := if cv = "modified" ∨ cv = "panic" then some s!"Convert_{cv}_the_callers_option_slice" else none
  -- Redefine (and Call) on a function must leave every other function as it was: also one whose default options
  -- live in the same array, behind the target's own
  let p09 := if sib = "disturbed" ∨ sib = "panic" then some s!"redefine_or_call_on_the_target_{sib}_a_function_sharing_its_default_option_array" else none
  { conform := none, prop := p08, props := [("C09", verdictStr p09), ("C10", verdictStr p10)],
    stats := ["execs=1", "outcome=ok", "size=1"] }

end ArgMapper.Driver
