import ArgMapper.Proofs.RedefStatic
/-!
# The unpruned `Call` graph is monotone in the supplied values (helper lemmas for C08c)

Every phase of `callGraph` before `prune` is a list of elementary operations (`Op`: add a vertex, add an
edge) computed from the vertex set of the phase's input, applied in order (`run`).  This gives an exact
characterisation of the vertices and edges after each phase, from which: a graph with more vertices and
edges gives, after the same phase, more vertices and edges (`Sub`).  Rule R6 is the only phase whose
selection depends on the value store (antitonically: "has no value"); on a graph without subtype-carrying
value vertices it adds nothing.

Result: `pre_mono` — for two builders with the same converters, the second supplying every vertex the first
supplies, the unpruned graph of a subtype-free scenario is contained in that of the second builder.
-/
set_option linter.unusedSectionVars false
set_option linter.unusedVariables false
namespace ArgMapper.RedefC
open ArgMapper Generated

/-! ### elementary operations -/

inductive Op
  | add (v : Vtx)
  | edge (u v : Vtx) (w : Int)

def Op.app (g : AGraph Vtx) : Op → AGraph Vtx
  | .add v => g.add v
  | .edge u v w => g.addEdge u v w

def run (L : List Op) (g : AGraph Vtx) : AGraph Vtx := L.foldl Op.app g

theorem run_nil (g : AGraph Vtx) : run [] g = g := rfl

theorem run_append (A B : List Op) (g : AGraph Vtx) : run (A ++ B) g = run B (run A g) := by
  unfold run
  rw [List.foldl_append]

theorem run_cons (o : Op) (L : List Op) (g : AGraph Vtx) : run (o :: L) g = run L (o.app g) := rfl

theorem mem_run_verts (L : List Op) : ∀ (g : AGraph Vtx) (x : Vtx),
    x ∈ (run L g).verts ↔ x ∈ g.verts ∨ Op.add x ∈ L := by
  induction L with
  | nil => intro g x; simp [run_nil]
  | cons o L ih =>
    intro g x
    rw [run_cons, ih]
    cases o with
    | add v =>
      show x ∈ (g.add v).verts ∨ _ ↔ _
      rw [AGraph.mem_add_verts]
      constructor
      · rintro ((h | h) | h)
        · exact Or.inl h
        · exact Or.inr (by rw [h]; exact List.mem_cons_self)
        · exact Or.inr (List.mem_cons_of_mem _ h)
      · rintro (h | h)
        · exact Or.inl (Or.inl h)
        · rcases List.mem_cons.1 h with h | h
          · injection h with h
            exact Or.inl (Or.inr h)
          · exact Or.inr h
    | edge u v w =>
      show x ∈ (g.addEdge u v w).verts ∨ _ ↔ _
      have : (g.addEdge u v w).verts = g.verts := rfl
      rw [this]
      constructor
      · rintro (h | h)
        · exact Or.inl h
        · exact Or.inr (List.mem_cons_of_mem _ h)
      · rintro (h | h)
        · exact Or.inl h
        · rcases List.mem_cons.1 h with h | h
          · cases h
          · exact Or.inr h

theorem run_hasEdge (L : List Op) : ∀ (g : AGraph Vtx) (x y : Vtx),
    (run L g).hasEdge x y = true ↔ g.hasEdge x y = true ∨ ∃ w, Op.edge x y w ∈ L := by
  induction L with
  | nil => intro g x y; simp [run_nil]
  | cons o L ih =>
    intro g x y
    rw [run_cons, ih]
    cases o with
    | add v =>
      show (g.add v).hasEdge x y = true ∨ _ ↔ _
      rw [CGE.hasEdge_add]
      constructor
      · rintro (h | ⟨w, h⟩)
        · exact Or.inl h
        · exact Or.inr ⟨w, List.mem_cons_of_mem _ h⟩
      · rintro (h | ⟨w, h⟩)
        · exact Or.inl h
        · rcases List.mem_cons.1 h with h | h
          · cases h
          · exact Or.inr ⟨w, h⟩
    | edge u v w =>
      show (g.addEdge u v w).hasEdge x y = true ∨ _ ↔ _
      rw [CGE.hasEdge_addEdge]
      constructor
      · rintro ((⟨rfl, rfl⟩ | h) | ⟨w', h⟩)
        · exact Or.inr ⟨w, List.mem_cons_self⟩
        · exact Or.inl h
        · exact Or.inr ⟨w', List.mem_cons_of_mem _ h⟩
      · rintro (h | ⟨w', h⟩)
        · exact Or.inl (Or.inr h)
        · rcases List.mem_cons.1 h with h | h
          · injection h with h1 h2 h3
            exact Or.inl (Or.inl ⟨h1, h2⟩)
          · exact Or.inr ⟨w', h⟩

/-- containment of graphs: vertices and edges -/
def Sub (g g' : AGraph Vtx) : Prop :=
  (∀ x ∈ g.verts, x ∈ g'.verts) ∧ (∀ x y, g.hasEdge x y = true → g'.hasEdge x y = true)

theorem Sub.refl (g : AGraph Vtx) : Sub g g := ⟨fun _ h => h, fun _ _ h => h⟩

theorem Sub.trans {a b c : AGraph Vtx} (h1 : Sub a b) (h2 : Sub b c) : Sub a c :=
  ⟨fun x hx => h2.1 x (h1.1 x hx), fun x y h => h2.2 x y (h1.2 x y h)⟩

theorem run_mono {g g' : AGraph Vtx} (h : Sub g g') {L L' : List Op} (hL : ∀ o ∈ L, o ∈ L') :
    Sub (run L g) (run L' g') := by
  refine ⟨fun x hx => ?_, fun x y hxy => ?_⟩
  · rw [mem_run_verts] at hx ⊢
    rcases hx with hx | hx
    · exact Or.inl (h.1 x hx)
    · exact Or.inr (hL _ hx)
  · rw [run_hasEdge] at hxy ⊢
    rcases hxy with hxy | ⟨w, hw⟩
    · exact Or.inl (h.2 x y hxy)
    · exact Or.inr ⟨w, hL _ hw⟩

/-- a fold whose every step is a run of operations computed from the element is a run -/
theorem fold_run {β : Type} (step : CG → β → CG) (opsOf : β → List Op) (I : CG → Prop)
    (hI : ∀ c x, I c → I (step c x))
    (h : ∀ c x, I c → (step c x).g = run (opsOf x) c.g) :
    ∀ (l : List β) (c : CG), I c → (l.foldl step c).g = run (l.flatMap opsOf) c.g := by
  intro l
  induction l with
  | nil => intro c _; rfl
  | cons a l ih =>
    intro c hc
    rw [List.foldl_cons, ih _ (hI c a hc), h c a hc, List.flatMap_cons, run_append]

/-! ### the phases as runs -/

def valOps (k : Nat) (val : SVal) : List Op :=
  if val.lab.name ≠ "" then
    [.add (.value val.lab.name val.lab.ty val.lab.sub),
     .edge (.func k) (.value val.lab.name val.lab.ty val.lab.sub) weightNormal]
  else
    [.add (.arg val.lab.ty val.lab.sub), .edge (.func k) (.arg val.lab.ty val.lab.sub) weightTyped]

def funcOps (f : FuncDesc) (io : Bool) : List Op :=
  [.add (.func f.key)] ++ (if f.input.empty then [.edge (.func f.key) .root weightNormal] else []) ++
  f.input.values.flatMap (valOps f.key) ++
  (if io then
    f.output.named.flatMap (fun p => [Op.add (.value p.1 p.2.lab.ty p.2.lab.sub),
      Op.edge (.value p.1 p.2.lab.ty p.2.lab.sub) (.func f.key) weightNormal]) ++
    f.output.typed.flatMap (fun p => [Op.add (.out p.2.lab.ty p.2.lab.sub),
      Op.edge (.out p.2.lab.ty p.2.lab.sub) (.func f.key) weightTyped])
   else [])

theorem funcGraph_run (c : CG) (f : FuncDesc) (io : Bool) :
    (funcGraph c f io).g = run (funcOps f io) c.g := by
  unfold funcGraph funcOps
  dsimp only
  have h3 := fold_run (fun (c : CG) (val : SVal) =>
      if val.lab.name ≠ "" then
        (c.add (.value val.lab.name val.lab.ty val.lab.sub)).edge (Vtx.func f.key)
          (.value val.lab.name val.lab.ty val.lab.sub) weightNormal
      else
        (c.add (.arg val.lab.ty val.lab.sub)).edge (Vtx.func f.key) (.arg val.lab.ty val.lab.sub) weightTyped)
    (valOps f.key) (fun _ => True) (fun _ _ _ => trivial)
    (by
      intro c val _
      unfold valOps
      split <;> rfl)
    f.input.values
  rw [run_append, run_append]
  have h12 : (if f.input.empty = true then (c.add (Vtx.func f.key)).edge (Vtx.func f.key) .root weightNormal
      else c.add (Vtx.func f.key)).g =
      run (if f.input.empty = true then [Op.edge (.func f.key) .root weightNormal] else [])
        (run [Op.add (.func f.key)] c.g) := by
    split <;> rfl
  split
  · rename_i hio
    have hio' : io = false := by simpa using hio
    rw [hio']
    simp only [Bool.false_eq_true, if_false, run_nil]
    rw [h3 _ trivial, h12, run_append]
  · rename_i hio
    have hio' : io = true := by simpa using hio
    rw [hio']
    simp only [if_true]
    rw [run_append]
    rw [fold_run (fun (c : CG) (p : Nat × SVal) =>
        (c.add (.out p.2.lab.ty p.2.lab.sub)).edge (.out p.2.lab.ty p.2.lab.sub) (Vtx.func f.key) weightTyped)
      (fun p => [Op.add (.out p.2.lab.ty p.2.lab.sub),
        Op.edge (.out p.2.lab.ty p.2.lab.sub) (.func f.key) weightTyped]) (fun _ => True) (fun _ _ _ => trivial)
      (fun _ _ _ => rfl) f.output.typed _ trivial]
    rw [fold_run (fun (c : CG) (p : String × SVal) =>
        (c.add (.value p.1 p.2.lab.ty p.2.lab.sub)).edge (.value p.1 p.2.lab.ty p.2.lab.sub) (Vtx.func f.key) weightNormal)
      (fun p => [Op.add (.value p.1 p.2.lab.ty p.2.lab.sub),
        Op.edge (.value p.1 p.2.lab.ty p.2.lab.sub) (.func f.key) weightNormal]) (fun _ => True) (fun _ _ _ => trivial)
      (fun _ _ _ => rfl) f.output.named _ trivial]
    rw [h3 _ trivial, h12, run_append]

def inputOps (b : Builder) : List Op :=
  (Prune.inputsPairs b).flatMap (fun vx => [Op.add vx.1, Op.edge vx.1 .root weightNormal])

theorem inputsCG_run (c : CG) (b : Builder) : (Prune.inputsCG c b).g = run (inputOps b) c.g := by
  rw [Prune.inputsCG_eq]
  exact fold_run (fun (c : CG) (vx : Vtx × Val) => (c.addValued vx.1 vx.2).edge vx.1 .root weightNormal)
    (fun vx => [Op.add vx.1, Op.edge vx.1 .root weightNormal]) (fun _ => True) (fun _ _ _ => trivial)
    (fun _ _ _ => rfl) _ _ trivial

def convOps (funcs : Nat → Option FuncDesc) (fid : Nat) : List Op :=
  match funcs fid with
  | some f => funcOps f true
  | none => []

theorem convs_run (funcs : Nat → Option FuncDesc) (convs : List Nat) (c : CG) :
    (convs.foldl (Prune.convStep funcs) c).g = run (convs.flatMap (convOps funcs)) c.g :=
  fold_run (Prune.convStep funcs) (convOps funcs) (fun _ => True) (fun _ _ _ => trivial)
    (by
      intro c fid _
      unfold Prune.convStep convOps
      cases funcs fid with
      | some f => exact funcGraph_run _ _ _
      | none => rfl)
    convs c trivial

def r3Ops (v : Vtx) : List Op :=
  [.add (.out v.ty ""), .edge v (.out v.ty "") weightTyped, .add (.arg v.ty ""), .edge (.arg v.ty "") v weightTyped] ++
  (if v.sub ≠ "" then [.add (.arg v.ty v.sub), .edge (.arg v.ty v.sub) v weightTyped] else [])

theorem phaseR3_run (c : CG) :
    (phaseR3 c).g = run ((c.g.verts.filter Vtx.isValue).flatMap r3Ops) c.g := by
  unfold phaseR3
  exact fold_run _ r3Ops (fun _ => True) (fun _ _ _ => trivial)
    (by
      intro c v _
      unfold r3Ops
      dsimp only
      split <;> rfl)
    _ _ trivial

def r4Ops (v : Vtx) : List Op := [.add (.out v.ty v.sub), .edge v (.out v.ty v.sub) weightTyped]

theorem phaseR4_run (c : CG) :
    (phaseR4 c).g = run ((c.g.verts.filter Vtx.isArg).flatMap r4Ops) c.g := by
  unfold phaseR4
  exact fold_run _ r4Ops (fun _ => True) (fun _ _ _ => trivial) (fun _ _ _ => rfl) _ _ trivial

/-- the common shape of R5, R6, R7 -/
def nestedOps (verts : List Vtx) (p : Vtx → Bool) (q : Vtx → Vtx → Bool) (w : Int) : List Op :=
  (verts.filter p).flatMap (fun v => (verts.filter (q v)).flatMap (fun v2 => [Op.edge v v2 w]))

theorem nested_run (c : CG) (p : Vtx → Bool) (q : Vtx → Vtx → Bool) (w : Int) :
    ((c.g.verts.filter p).foldl (fun c v =>
      (c.g.verts.filter (q v)).foldl (fun c v2 => c.edge v v2 w) c) c).g =
      run (nestedOps c.g.verts p q w) c.g := by
  unfold nestedOps
  refine fold_run (fun (c' : CG) v => (c'.g.verts.filter (q v)).foldl (fun c v2 => c.edge v v2 w) c')
    (fun v => (c.g.verts.filter (q v)).flatMap (fun v2 => [Op.edge v v2 w]))
    (fun c' => c'.g.verts = c.g.verts) ?_ ?_ _ c rfl
  · intro c' v hc'
    apply CGE.foldl_inv' (fun c'' : CG => c''.g.verts = c.g.verts)
    · intro c'' v2 h; exact h
    · exact hc'
  · intro c' v hc'
    rw [hc']
    exact fold_run (fun (c : CG) v2 => c.edge v v2 w) (fun v2 => [Op.edge v v2 w]) (fun _ => True)
      (fun _ _ _ => trivial) (fun _ _ _ => rfl) _ c' trivial

theorem mem_nestedOps {verts : List Vtx} {p : Vtx → Bool} {q : Vtx → Vtx → Bool} {w : Int} {o : Op}
    (h : o ∈ nestedOps verts p q w) :
    ∃ v v2, v ∈ verts ∧ p v = true ∧ v2 ∈ verts ∧ q v v2 = true ∧ o = .edge v v2 w := by
  unfold nestedOps at h
  simp only [List.mem_flatMap, List.mem_filter, List.mem_singleton] at h
  obtain ⟨v, ⟨hv, hp⟩, v2, ⟨hv2, hq⟩, rfl⟩ := h
  exact ⟨v, v2, hv, hp, hv2, hq, rfl⟩

theorem nestedOps_mem {verts : List Vtx} {p : Vtx → Bool} {q : Vtx → Vtx → Bool} {w : Int} {v v2 : Vtx}
    (hv : v ∈ verts) (hp : p v = true) (hv2 : v2 ∈ verts) (hq : q v v2 = true) :
    Op.edge v v2 w ∈ nestedOps verts p q w := by
  unfold nestedOps
  simp only [List.mem_flatMap, List.mem_filter, List.mem_singleton]
  exact ⟨v, ⟨hv, hp⟩, v2, ⟨hv2, hq⟩, rfl⟩

/-! ### monotonicity of the phases -/

theorem flatMap_filter_mono {verts verts' : List Vtx} (h : ∀ x ∈ verts, x ∈ verts') (p : Vtx → Bool)
    (f : Vtx → List Op) : ∀ o ∈ (verts.filter p).flatMap f, o ∈ (verts'.filter p).flatMap f := by
  intro o ho
  simp only [List.mem_flatMap, List.mem_filter] at ho ⊢
  obtain ⟨v, ⟨hv, hp⟩, hov⟩ := ho
  exact ⟨v, ⟨h v hv, hp⟩, hov⟩

theorem phaseR3_mono {c c' : CG} (h : Sub c.g c'.g) : Sub (phaseR3 c).g (phaseR3 c').g := by
  rw [phaseR3_run, phaseR3_run]
  exact run_mono h (flatMap_filter_mono h.1 _ _)

theorem phaseR4_mono {c c' : CG} (h : Sub c.g c'.g) : Sub (phaseR4 c).g (phaseR4 c').g := by
  rw [phaseR4_run, phaseR4_run]
  exact run_mono h (flatMap_filter_mono h.1 _ _)

theorem nested_mono {c c' : CG} (h : Sub c.g c'.g) (p : Vtx → Bool) (q : Vtx → Vtx → Bool) (w : Int) :
    Sub ((c.g.verts.filter p).foldl (fun c v =>
        (c.g.verts.filter (q v)).foldl (fun c v2 => c.edge v v2 w) c) c).g
      ((c'.g.verts.filter p).foldl (fun c v =>
        (c.g.verts.filter (q v)).foldl (fun c v2 => c.edge v v2 w) c) c').g := by
  rw [nested_run, nested_run]
  apply run_mono h
  intro o ho
  obtain ⟨v, v2, hv, hp, hv2, hq, rfl⟩ := mem_nestedOps ho
  exact nestedOps_mem (h.1 v hv) hp (h.1 v2 hv2) hq

theorem phaseR5_mono (e : TypeEnv) (sk : Bool) {c c' : CG} (h : Sub c.g c'.g) :
    Sub (phaseR5 e sk c).g (phaseR5 e sk c').g := by
  unfold phaseR5
  exact nested_mono h (fun v => v.isOut && e.isIface v.ty)
    (fun v v2 => v2.isOut && decide (v2 ≠ v) && e.impl v2.ty v.ty && !(sk && v2.ty == v.ty)) weightTyped

theorem phaseR7_mono {c c' : CG} (h : Sub c.g c'.g) : Sub (phaseR7 c).g (phaseR7 c').g := by
  unfold phaseR7
  dsimp only
  exact nested_mono (nested_mono h (fun v => v.isArg && v.sub == "")
    (fun v v2 => v2.isOut && v2.ty == v.ty && v2.sub != "") weightTypedOtherSubtype)
    (fun v => v.isArg && v.sub != "") (fun v v2 => v2.isOut && v2.ty == v.ty && v2.sub == "")
    weightTypedOtherSubtype

/-- R6 adds nothing to a graph without subtype-carrying value vertices; it never removes anything -/
theorem phaseR6_mono (nt : Bool) {c c' : CG} (h : Sub c.g c'.g)
    (hvk : ∀ v ∈ c.g.verts, v.isValue = true → v.sub = "") :
    Sub (phaseR6 nt c).g (phaseR6 nt c').g := by
  have h1 : Sub (phaseR6 nt c).g c.g := by
    unfold phaseR6
    rw [nested_run c (fun v => v.isValue && v.sub == "" && (c.valueOf v).isNone)
      (fun v v2 => v2.isValue && v2.ty == v.ty && v2.sub != "" && !(nt && v2.name != v.name)) weightTyped]
    refine ⟨fun x hx => ?_, fun x y hxy => ?_⟩
    · rw [mem_run_verts] at hx
      rcases hx with hx | hx
      · exact hx
      · obtain ⟨_, _, _, _, _, _, h⟩ := mem_nestedOps hx
        cases h
    · rw [run_hasEdge] at hxy
      rcases hxy with hxy | ⟨w, hw⟩
      · exact hxy
      · obtain ⟨v, v2, _, _, hv2, hq, _⟩ := mem_nestedOps hw
        simp only [Bool.and_eq_true, bne_iff_ne, ne_eq] at hq
        exact absurd (hvk v2 hv2 hq.1.1.1) hq.1.2
  have h2 : Sub c'.g (phaseR6 nt c').g := by
    unfold phaseR6
    rw [nested_run c' (fun v => v.isValue && v.sub == "" && (c'.valueOf v).isNone)
      (fun v v2 => v2.isValue && v2.ty == v.ty && v2.sub != "" && !(nt && v2.name != v.name)) weightTyped]
    refine ⟨fun x hx => ?_, fun x y hxy => ?_⟩
    · rw [mem_run_verts]; exact Or.inl hx
    · rw [run_hasEdge]; exact Or.inl hxy
  exact (h1.trans h).trans h2

/-! ### the unpruned graph -/

theorem inputOps_mono {b b' : Builder} (hin : ∀ u ∈ Prune.inputsList b, u ∈ Prune.inputsList b') :
    ∀ o ∈ inputOps b, o ∈ inputOps b' := by
  intro o ho
  unfold inputOps at ho ⊢
  simp only [List.mem_flatMap] at ho ⊢
  obtain ⟨vx, hvx, ho⟩ := ho
  have hm : vx.1 ∈ Prune.inputsList b := by
    rw [Prune.inputsList_eq]
    exact List.mem_map.2 ⟨vx, hvx, rfl⟩
  have hm' := hin _ hm
  rw [Prune.inputsList_eq] at hm'
  obtain ⟨vx', hvx', heq⟩ := List.mem_map.1 hm'
  refine ⟨vx', hvx', ?_⟩
  rw [heq]
  exact ho

theorem preC_mono {b b' : Builder} (funcs : Nat → Option FuncDesc) (target : FuncDesc)
    (hconv : b'.convs = b.convs) (hin : ∀ u ∈ Prune.inputsList b, u ∈ Prune.inputsList b') :
    Sub (preC b funcs target).g (preC b' funcs target).g := by
  unfold preC
  rw [convs_run, convs_run, inputsCG_run, inputsCG_run, hconv]
  exact run_mono (run_mono (Sub.refl _) (inputOps_mono hin)) (fun _ h => h)

/-- the unpruned `Call` graph grows with the supplied values (subtype-free scenario) -/
theorem pre_mono (e : TypeEnv) {b b' : Builder} (funcs : Nat → Option FuncDesc) (target : FuncDesc)
    (hconv : b'.convs = b.convs) (hin : ∀ u ∈ Prune.inputsList b, u ∈ Prune.inputsList b')
    (hvk : ∀ v ∈ (phaseR5 e true (phaseR4 (phaseR3 (preC b funcs target)))).g.verts, v.isValue = true → v.sub = "") :
    Sub (Prune.pre e b funcs target).g (Prune.pre e b' funcs target).g := by
  unfold Prune.pre
  exact phaseR7_mono (phaseR6_mono true (phaseR5_mono e true (phaseR4_mono (phaseR3_mono
    (preC_mono funcs target hconv hin)))) hvk)

end ArgMapper.RedefC
