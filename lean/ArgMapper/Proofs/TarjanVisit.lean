import ArgMapper.Proofs.TarjanFold
/-!
# Tarjan's SCC algorithm: the contract of `sccVisit`

After the loop over the successors of `x`, either `x` stays on the stack (its low-link is smaller than
its index) or the stack is popped down to `x` and the popped vertices are exactly the strongly
connected component of `x`.
-/
namespace ArgMapper
namespace Tarjan
open AGraph Traverse TraverseReach
set_option linter.unusedSectionVars false
variable {α : Type} [DecidableEq α]

/-- facts available once all successors of `x` have been processed -/
structure Done (g : AGraph α) (x : α) (a : SccAcct α) (gr : List α) (a' : SccAcct α) (m : Nat)
    (s : List α) : Prop where
  hs : a'.stack = s ++ x :: a.stack
  idx_x : idxOf a' x = a.next
  above : ∀ y ∈ s, idxOf a' x < idxOf a' y
  below : ∀ y ∈ a.stack, idxOf a' y < idxOf a' x
  x_notgr : x ∉ gr
  closed : ∀ p y, g.hasEdge p y = true → idxOf a' p ≠ 0 → p ∉ gr → idxOf a' y ≠ 0
  to_x : ∀ y, y ∈ s ∨ y = x → Reach g y x
  from_x : ∀ y, y ∈ s ∨ y = x → Reach g x y
  ext : Ext a a'
  edge_old : ∀ p, p ∈ s ∨ p = x → ∀ y, g.hasEdge p y = true → y ∈ a.stack → m ≤ idxOf a' y

theorem done_of_fold {g : AGraph α} {n : Nat} {x : α} {a : SccAcct α} {gr : List α}
    (hp : Pre g gr (n + 1) x a) {a' : SccAcct α} {m : Nat}
    (F : FoldInv g n x a gr (g.outs x) (a', m)) : ∃ s, Done g x a gr a' m s := by
  obtain ⟨s, hs⟩ := F.ext.stack
  simp only [push_stack] at hs
  have hI : Inv g (x :: gr) a' := F.inv
  have hpos := hp.inv.next_pos
  have hidx : idxOf a' x = a.next := by
    have h := F.ext.idx_pres x (by rw [idxOf_push_self]; omega)
    rw [idxOf_push_self] at h; exact h
  have hsorted := hI.sorted
  rw [hs, List.pairwise_append, List.pairwise_cons] at hsorted
  have hxs : x ∉ a.stack := fun h => hp.inv.stack_vis h hp.white
  have hxg : x ∉ gr := fun h => hxs (hp.inv.gray_stack x h)
  have hmem : ∀ y, y ∈ s ∨ y = x → y ∈ a'.stack := by
    intro y hy; rw [hs]
    rcases hy with h | h
    · exact List.mem_append_left _ h
    · exact List.mem_append_right _ (by simp [h])
  have habove : ∀ y ∈ s, idxOf a' x < idxOf a' y := fun y hy => hsorted.2.2 y hy x (by simp)
  refine ⟨s, hs, hidx, habove, fun y hy => hsorted.2.1.1 y hy, hxg, ?_, ?_, ?_,
    (ext_push hp.white).trans F.ext, ?_⟩
  · intro p y he hpv hpg
    by_cases hpx : p = x
    · subst hpx
      exact F.done_vis y (mem_outs.mpr he)
    · exact hI.closed p y he hpv (by simp [hpx, hpg])
  · intro y hy
    obtain ⟨z, hz, _, hr⟩ := hI.stack_reach y (hmem y hy)
    rcases List.mem_cons.mp hz with rfl | hz
    · exact hr
    · exact reach_trans hr (hp.access z hz)
  · intro y hy
    refine hI.gray_reach x (by simp) y (hmem y hy) ?_
    rcases hy with h | h
    · exact Nat.le_of_lt (habove y h)
    · rw [h]; exact Nat.le_refl _
  · intro p hp' y he hya
    rcases hp' with h | h
    · exact F.xedge s hs p h y he hya
    · subst h
      exact F.done_edge y (mem_outs.mpr he) hya

/-! ## `x` stays on the stack -/

theorem post_keep {g : AGraph α} {n : Nat} {x : α} {a : SccAcct α} {gr : List α}
    (hp : Pre g gr (n + 1) x a) {a' : SccAcct α} {m : Nat}
    (F : FoldInv g n x a gr (g.outs x) (a', m)) (hne : a.next ≠ m) : Post g gr x a (a', m) := by
  obtain ⟨s, D⟩ := done_of_fold hp F
  have hI : Inv g (x :: gr) a' := F.inv
  have hle : m ≤ a.next := F.le
  have hlt : m < a.next := by omega
  refine ⟨?_, D.ext, D.idx_x, hle, fun _ => F.reach, ?_⟩
  · refine ⟨hI.next_pos, hI.idx_lt, hI.vis_verts, hI.vis_iff, hI.disj, hI.scc_nodup, hI.sorted,
      ?_, D.closed, ?_, ?_, hI.scc_ok⟩
    · intro y hy
      have := D.ext.stack_mem (hp.inv.gray_stack y hy)
      exact this
    · intro z hz y hy hle
      exact hI.gray_reach z (List.mem_cons_of_mem _ hz) y hy hle
    · intro y hy
      obtain ⟨y0, hy0, hm, hr0⟩ := F.reach
      change m = idxOf a' y0 at hm
      change y0 ∈ a'.stack at hy0
      obtain ⟨z0, hz0, hz0le, hrz0⟩ := hI.stack_reach y0 hy0
      have hz0g : z0 ∈ gr := by
        rcases List.mem_cons.mp hz0 with rfl | h
        · rw [D.idx_x] at hz0le; omega
        · exact h
      obtain ⟨z, hz, hzle, hrz⟩ := hI.stack_reach y hy
      rcases List.mem_cons.mp hz with rfl | hz
      · refine ⟨z0, hz0g, ?_, reach_trans hrz (reach_trans hr0 hrz0)⟩
        show idxOf a' z0 ≤ idxOf a' y
        rw [D.idx_x] at hzle; omega
      · exact ⟨z, hz, hzle, hrz⟩
  · intro s' hs' p hps' y he hya
    change a'.stack = s' ++ a.stack at hs'
    have : s' = s ++ [x] := by
      apply List.append_cancel_right (bs := a.stack)
      rw [← hs', D.hs]; simp
    rw [this] at hps'
    refine D.edge_old p ?_ y he hya
    rcases List.mem_append.mp hps' with h | h
    · exact Or.inl h
    · exact Or.inr (by simpa using h)

/-! ## the component of `x` is popped -/

/-- a set containing `x` and closed under those edges whose target reaches `x` contains every vertex
on a cycle through `x` -/
theorem cycle_closed {g : AGraph α} (S : α → Prop) {x : α} (hx : S x)
    (hstep : ∀ w' w, S w' → g.hasEdge w' w = true → Reach g w x → S w) :
    ∀ w, Reach g x w → Reach g w x → S w := by
  intro w h
  induction h with
  | refl => intro _; exact hx
  | step _ he ih =>
    intro hwx
    exact hstep _ _ (ih (reach_trans (reach_edge he) hwx)) he hwx

theorem post_pop {g : AGraph α} {n : Nat} {x : α} {a : SccAcct α} {gr : List α}
    (hp : Pre g gr (n + 1) x a) {a' : SccAcct α} {m : Nat}
    (F : FoldInv g n x a gr (g.outs x) (a', m)) (heq : a.next = m) :
    Post g gr x a (popped a' (popTo x a'.stack []).1 (popTo x a'.stack []).2, m) := by
  obtain ⟨s, D⟩ := done_of_fold hp F
  have hI : Inv g (x :: gr) a' := F.inv
  have hxs : x ∉ s := fun h => Nat.lt_irrefl _ (D.above x h)
  have hpop : popTo x a'.stack [] = (a.stack, s ++ [x]) := by
    rw [D.hs, popTo_append x s a.stack [] hxs]; simp
  rw [hpop]
  have hcomp_stack : ∀ y, y ∈ s ++ [x] → y ∈ a'.stack := by
    intro y hy; rw [D.hs]
    rcases List.mem_append.mp hy with h | h
    · exact List.mem_append_left _ h
    · exact List.mem_append_right _ (by simp at h; simp [h])
  have hcomp_or : ∀ y, y ∈ s ++ [x] → y ∈ s ∨ y = x := by
    intro y hy
    rcases List.mem_append.mp hy with h | h
    · exact Or.inl h
    · exact Or.inr (by simpa using h)
  have hold_stack : ∀ y, y ∈ a.stack → y ∈ a'.stack := fun y hy => D.ext.stack_mem hy
  have hcomp_idx : ∀ y, y ∈ s ++ [x] → idxOf a' x ≤ idxOf a' y := by
    intro y hy
    rcases hcomp_or y hy with h | h
    · exact Nat.le_of_lt (D.above y h)
    · rw [h]; exact Nat.le_refl _
  have hnd := hI.stack_nodup
  have hsplit : a'.stack = (s ++ [x]) ++ a.stack := by rw [D.hs]; simp
  rw [hsplit, List.nodup_append] at hnd
  obtain ⟨cs, hcs⟩ := D.ext.scc
  refine ⟨?_, ?_, D.idx_x, F.le, ?_, ?_⟩
  · -- the invariant
    refine ⟨hI.next_pos, hI.idx_lt, hI.vis_verts, ?_, ?_, ?_, ?_, hp.inv.gray_stack, D.closed,
      ?_, ?_, ?_⟩
    · intro y
      show idxOf a' y ≠ 0 ↔ (y ∈ a.stack ∨ y ∈ (a'.scc ++ [s ++ [x]]).flatten)
      rw [hI.vis_iff y, hsplit]
      simp only [List.flatten_append, List.mem_append, List.flatten_cons, List.flatten_nil,
        List.append_nil]
      constructor
      · rintro ((h | h) | h)
        · exact Or.inr (Or.inr h)
        · exact Or.inl h
        · exact Or.inr (Or.inl h)
      · rintro (h | h | h)
        · exact Or.inl (Or.inr h)
        · exact Or.inr h
        · exact Or.inl (Or.inl h)
    · intro y hy
      show y ∉ (a'.scc ++ [s ++ [x]]).flatten
      change y ∈ a.stack at hy
      simp only [List.flatten_append, List.mem_append, List.flatten_cons, List.flatten_nil,
        List.append_nil]
      rintro (hc | hc)
      · exact hI.disj y (hold_stack y hy) hc
      · exact hnd.2.2 y (List.mem_append.mpr hc) y hy rfl
    · show (a'.scc ++ [s ++ [x]]).flatten.Nodup
      simp only [List.flatten_append, List.flatten_cons, List.flatten_nil, List.append_nil]
      rw [List.nodup_append]
      refine ⟨hI.scc_nodup, hnd.1, ?_⟩
      intro y hy z hz hyz
      subst hyz
      exact hI.disj y (hcomp_stack y hz) hy
    · show a.stack.Pairwise (fun p q => idxOf a' q < idxOf a' p)
      have := hI.sorted
      rw [hsplit, List.pairwise_append] at this
      exact this.2.1
    · intro z hz y hy hle
      exact hI.gray_reach z (List.mem_cons_of_mem _ hz) y (hold_stack y hy) hle
    · intro y hy
      change y ∈ a.stack at hy
      obtain ⟨z, hz, hzle, hrz⟩ := hI.stack_reach y (hold_stack y hy)
      rcases List.mem_cons.mp hz with rfl | hz
      · have := D.below y hy
        omega
      · exact ⟨z, hz, hzle, hrz⟩
    · intro c hc
      change c ∈ a'.scc ++ [s ++ [x]] at hc
      rcases List.mem_append.mp hc with h | h
      · exact hI.scc_ok c h
      · simp only [List.mem_singleton] at h
        subst h
        refine ⟨by simp, ?_⟩
        intro u hu v
        have hux := D.to_x u (hcomp_or u hu)
        have hxu := D.from_x u (hcomp_or u hu)
        constructor
        · intro hv
          exact ⟨reach_trans hux (D.from_x v (hcomp_or v hv)),
            reach_trans (D.to_x v (hcomp_or v hv)) hxu⟩
        · rintro ⟨huv, hvu⟩
          refine cycle_closed (fun w => w ∈ s ++ [x]) (by simp) ?_ v (reach_trans hxu huv)
            (reach_trans hvu hux)
          intro w' w hw' he hwx
          have hw'g : w' ∉ gr := by
            intro hg
            have h1 := D.below w' (hp.inv.gray_stack w' hg)
            have h2 := hcomp_idx w' hw'
            omega
          have hwv : idxOf a' w ≠ 0 :=
            D.closed w' w he (hI.stack_vis (hcomp_stack w' hw')) hw'g
          rcases (hI.vis_iff w).mp hwv with hws | hwc
          · rw [hsplit] at hws
            rcases List.mem_append.mp hws with h | h
            · exact h
            · exfalso
              have h1 := D.edge_old w' (hcomp_or w' hw') w he h
              have h2 := D.below w h
              have h3 := D.idx_x
              omega
          · exfalso
            obtain ⟨c, hc, hwc'⟩ := List.mem_flatten.mp hwc
            have hxc : x ∈ c :=
              ((hI.scc_ok c hc).2 w hwc' x).mpr ⟨hwx, reach_trans (D.from_x w' (hcomp_or w' hw')) (reach_edge he)⟩
            exact hI.disj x (hcomp_stack x (by simp)) (List.mem_flatten.mpr ⟨c, hc, hxc⟩)
  · -- extension
    refine ⟨⟨[], by simp⟩, D.ext.idx_pres, D.ext.idx_new, D.ext.next_le, ⟨cs ++ [s ++ [x]], ?_⟩⟩
    show a'.scc ++ [s ++ [x]] = a.scc ++ (cs ++ [s ++ [x]])
    rw [hcs]; simp
  · intro h
    change m < a.next at h
    omega
  · intro s' hs' p hps'
    change a.stack = s' ++ a.stack at hs'
    have := nil_of_eq_append_self hs'
    subst this
    cases hps'

/-! ## the contract -/

theorem visit_spec {g : AGraph α} (hwf : g.WF) : ∀ n, RecSpec g n := by
  intro n
  induction n with
  | zero =>
    intro gr v a hp
    exact absurd hp.fuel (Nat.not_lt_zero _)
  | succ n ih =>
    intro gr v a hp
    have F := foldInv_outs hwf hp ih
    rw [sccVisit_succ]
    generalize (g.outs v).foldl (sccEdge (sccVisit g n)) (push v a, a.next) = r at F
    obtain ⟨a', m⟩ := r
    by_cases h : a.next = m
    · rw [if_pos h]
      exact post_pop hp F h
    · rw [if_neg h]
      exact post_keep hp F h

end Tarjan
end ArgMapper
