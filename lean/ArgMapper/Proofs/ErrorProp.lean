import ArgMapper.Model.Reach
import ArgMapper.Proofs.WalkEqs
/-!
# Error propagation through `reach` (helper lemmas for C04)

`Eff s r s'` describes what a sub-computation that started in state `s`, returned `r` and ended in
state `s'` did to the execution log and to the memo table: the log only grows; a successful
computation appended no failing execution and introduced no failing memo cell; a computation that
failed with `funcErr ε` either appended the failing execution last (and nothing failing before it),
or replayed a failing memo cell that was there from the start; any other failure appended no
failing execution.
-/
namespace ArgMapper.ErrorProp
open ArgMapper

def MemoErr (m : List (Nat × Memo)) (ε : Nat) : Prop := ∃ p ∈ m, p.2.res.err = some ε
def NoErr (l : List ExecEv) : Prop := ∀ ev ∈ l, ev.res.err = none

def ErrPost (m : List (Nat × Memo)) (app : List ExecEv) : RErr → Prop
  | .funcErr ε =>
    (∃ init ev, app = init ++ [ev] ∧ NoErr init ∧ ev.res.err = some ε) ∨ (NoErr app ∧ MemoErr m ε)
  | _ => NoErr app

def Post (s s' : CallSt) (app : List ExecEv) : Option RErr → Prop
  | none => NoErr app ∧ ∀ ε, MemoErr s'.memo ε → MemoErr s.memo ε
  | some e => ErrPost s.memo app e

/-- the error of an outcome, if any -/
def errOf {α : Type} : Except RErr α → Option RErr
  | .ok _ => none
  | .error e => some e

def Eff (s : CallSt) (r : Option RErr) (s' : CallSt) : Prop :=
  ∃ app, s'.log = s.log ++ app ∧ Post s s' app r

theorem NoErr_nil : NoErr [] := by intro ev h; cases h

theorem NoErr_append {a b : List ExecEv} (ha : NoErr a) (hb : NoErr b) : NoErr (a ++ b) := by
  intro ev h
  rcases List.mem_append.1 h with h | h
  · exact ha ev h
  · exact hb ev h

theorem ErrPost_noErr {m : List (Nat × Memo)} {app : List ExecEv} {e : RErr}
    (h : ∀ ε, e ≠ .funcErr ε) (ha : NoErr app) : ErrPost m app e := by
  cases e <;> first | exact ha | exact absurd rfl (h _)

theorem ErrPost_trans {m m1 : List (Nat × Memo)} {a b : List ExecEv} {e : RErr}
    (ha : NoErr a) (hm : ∀ ε, MemoErr m1 ε → MemoErr m ε) (h : ErrPost m1 b e) :
    ErrPost m (a ++ b) e := by
  cases e with
  | funcErr ε =>
    rcases h with ⟨init, ev, hb, hi, he⟩ | ⟨hb, hme⟩
    · exact Or.inl ⟨a ++ init, ev, by rw [hb, List.append_assoc], NoErr_append ha hi, he⟩
    · exact Or.inr ⟨NoErr_append ha hb, hm ε hme⟩
  | _ => exact NoErr_append ha h

theorem Eff.refl (s : CallSt) : Eff s none s :=
  ⟨[], by simp, NoErr_nil, fun _ h => h⟩

/-- only the log and the memo table matter -/
theorem Eff.congr {s s' s'' : CallSt} {r : Option RErr}
    (hl : s''.log = s'.log) (hm : s''.memo = s'.memo) (h : Eff s r s') : Eff s r s'' := by
  obtain ⟨app, h1, h2⟩ := h
  refine ⟨app, by rw [hl, h1], ?_⟩
  cases r with
  | none => exact ⟨h2.1, fun ε h => h2.2 ε (by rw [← hm]; exact h)⟩
  | some e => exact h2

theorem Eff.trans {s s1 s2 : CallSt} {r : Option RErr}
    (h1 : Eff s none s1) (h2 : Eff s1 r s2) : Eff s r s2 := by
  obtain ⟨a1, hl1, hn1, hm1⟩ := h1
  obtain ⟨a2, hl2, hp2⟩ := h2
  refine ⟨a1 ++ a2, by rw [hl2, hl1, List.append_assoc], ?_⟩
  cases r with
  | none => exact ⟨NoErr_append hn1 hp2.1, fun ε h => hm1 ε (hp2.2 ε h)⟩
  | some e => exact ErrPost_trans hn1 hm1 hp2

theorem Eff.error_of_ok {s s' : CallSt} {e : RErr}
    (h : Eff s none s') (he : ∀ ε, e ≠ .funcErr ε) : Eff s (some e) s' := by
  obtain ⟨app, hl, hn, _⟩ := h
  exact ⟨app, hl, ErrPost_noErr he hn⟩

/-! ### state updates that touch neither the log nor the memo table -/

@[simp] theorem set_log (s : CallSt) (v : Vtx) (x : Option PVal) : (s.set v x).log = s.log := by
  unfold CallSt.set; split <;> rfl
@[simp] theorem set_memo (s : CallSt) (v : Vtx) (x : Option PVal) : (s.set v x).memo = s.memo := by
  unfold CallSt.set; split <;> rfl
@[simp] theorem addInput_log (s : CallSt) (v : Vtx) : (s.addInput v).log = s.log := by
  unfold CallSt.addInput; split <;> rfl
@[simp] theorem addInput_memo (s : CallSt) (v : Vtx) : (s.addInput v).memo = s.memo := by
  unfold CallSt.addInput; split <;> rfl

theorem foldl_addInput_log (l : List Vtx) (s : CallSt) : (l.foldl CallSt.addInput s).log = s.log := by
  induction l generalizing s with
  | nil => rfl
  | cons a l ih => simp [List.foldl_cons, ih]
theorem foldl_addInput_memo (l : List Vtx) (s : CallSt) : (l.foldl CallSt.addInput s).memo = s.memo := by
  induction l generalizing s with
  | nil => rfl
  | cons a l ih => simp [List.foldl_cons, ih]


/-! ### callDirect -/

theorem foldl_inv {σ β : Type} (P : σ → Prop) (g : σ → β → σ) (hg : ∀ s v, P s → P (g s v))
    (l : List β) (s : σ) (h : P s) : P (l.foldl g s) := by
  induction l generalizing s with
  | nil => exact h
  | cons a l ih => exact ih _ (hg _ _ h)



theorem callDirect_eff (c : Ctx) (f : FuncDesc) (am : ArgMap) (s : CallSt) :
    ((callDirect c f am s).2 = s ∧
      ∀ r u, (callDirect c f am s).1 = .ok (r, u) → ∀ ε, r.err = some ε → MemoErr s.memo ε) ∨
    (∃ r ev, (callDirect c f am s).1 = .ok (r, false) ∧ (callDirect c f am s).2.log = s.log ++ [ev] ∧
      ev.res = r ∧ (r.err = none → ∀ ε, MemoErr (callDirect c f am s).2.memo ε → MemoErr s.memo ε)) := by
  unfold callDirect
  split
  · rename_i m hm
    left
    refine ⟨rfl, ?_⟩
    intro r u h ε hε
    simp only [Except.ok.injEq, Prod.mk.injEq] at h
    split at hm
    · unfold mapGet at hm
      cases hf : s.memo.find? (fun p => decide (p.1 = f.id)) with
      | none => simp [hf] at hm
      | some p =>
        simp [hf] at hm
        exact ⟨p, List.mem_of_find?_eq_some hf, by rw [hm, h.1]; exact hε⟩
    · cases hm
  · split
    · left; exact ⟨rfl, fun r u h => by cases h⟩
    · rename_i args _
      right
      refine ⟨_, (⟨f.id, countOf s f.id, args, f.input.labels, c.beh f.id (countOf s f.id) args⟩ : ExecEv),
        rfl, ?_, rfl, ?_⟩
      · split <;> rfl
      · intro hr ε hme
        split at hme
        · obtain ⟨p, hp, hpe⟩ := hme
          simp only [mapSet, List.mem_append, List.mem_filter, List.mem_singleton] at hp
          rcases hp with hp | hp
          · exact ⟨p, hp.1, hpe⟩
          · subst hp; simp [hr] at hpe
        · exact hme

theorem gatherArgs_err (e : TypeEnv) (f : FuncDesc) (am : ArgMap) (x : RErr)
    (h : gatherArgs e f am = .error x) : ∀ ε, x ≠ .funcErr ε := by
  unfold gatherArgs at h
  have key : ∀ r : Except RErr (List PVal), (∀ x, r = .error x → ∀ ε, x ≠ .funcErr ε) →
      ∀ x, f.input.values.foldl (fun acc v =>
        match acc with
        | .error x => .error x
        | .ok l =>
          match mapGet am v.lab.vertex with
          | none => .error .missingArg
          | some a =>
            if e.assignable a.ty v.lab.ty then .ok (l ++ [{ ty := v.lab.ty, id := a.id, org := a.org }])
            else .error (.panic .setNotAssignable)) r = .error x → ∀ ε, x ≠ .funcErr ε := by
    intro r hr
    apply foldl_inv (P := fun (r : Except RErr (List PVal)) => ∀ x, r = .error x → ∀ ε, x ≠ .funcErr ε)
    · intro r v hr x hx ε
      split at hx
      · exact hr x hx ε
      · split at hx
        · cases hx; intro h; cases h
        · split at hx
          · cases hx
          · cases hx; intro h; cases h
    · exact hr
  exact key _ (fun x hx => by cases hx) x h

theorem callDirect_err (c : Ctx) (f : FuncDesc) (am : ArgMap) (s : CallSt) (e : RErr)
    (h : (callDirect c f am s).1 = .error e) : ∀ ε, e ≠ .funcErr ε := by
  unfold callDirect at h
  split at h
  · cases h
  · split at h
    · rename_i x hx
      simp only [Except.error.injEq] at h
      subst h
      exact gatherArgs_err _ _ _ _ hx
    · cases h

/-! ### outputValues -/

theorem outputValues_err (c : Ctx) (f : FuncDesc) (r : BehOut) (u : Bool) (s : CallSt) (e : RErr)
    (h : outputValues c f r u s = .error e) : ∀ ε, e ≠ .funcErr ε := by
  unfold outputValues at h
  split at h
  · cases h; intro ε h; cases h
  · cases h

theorem outputValues_eff (c : Ctx) (f : FuncDesc) (r : BehOut) (u : Bool) (s s' : CallSt)
    (h : outputValues c f r u s = .ok s') :
    s'.log = s.log ∧ ∀ ε, MemoErr s'.memo ε → MemoErr s.memo ε := by
  unfold outputValues at h
  split at h
  · cases h
  · simp only [Except.ok.injEq] at h
    subst h
    apply foldl_inv (P := fun (t : CallSt) => t.log = s.log ∧ ∀ ε, MemoErr t.memo ε → MemoErr s.memo ε)
    · intro t v ht
      split <;> (try split) <;> simpa using ht
    · split
      · refine ⟨rfl, ?_⟩
        rintro ε ⟨p, hp, hpe⟩
        simp only [List.mem_map] at hp
        obtain ⟨q, hq, rfl⟩ := hp
        refine ⟨q, hq, ?_⟩
        split at hpe
        · exact hpe
        · exact hpe
      · exact ⟨rfl, fun ε h => h⟩


/-! ### planning -/

theorem planOne_log (target : Vtx) (reaching : List Vtx) (tr rd : Bool) (ps : PlanSt) (cp : Vtx × List Vtx) :
    (planOne target reaching tr rd ps cp).s.log = ps.s.log ∧
    (planOne target reaching tr rd ps cp).s.memo = ps.s.memo := by
  unfold planOne
  dsimp only
  split
  · exact ⟨rfl, rfl⟩
  · dsimp only
    split
    · split <;> (try split) <;> simp
    · simp

theorem plan_fold_log (target : Vtx) (reaching : List Vtx) (tr rd : Bool) (l : List (Vtx × List Vtx)) (ps : PlanSt) :
    (l.foldl (planOne target reaching tr rd) ps).s.log = ps.s.log ∧
    (l.foldl (planOne target reaching tr rd) ps).s.memo = ps.s.memo := by
  apply foldl_inv (P := fun (t : PlanSt) => t.s.log = ps.s.log ∧ t.s.memo = ps.s.memo)
  · intro t v ht
    rw [(planOne_log ..).1, (planOne_log ..).2]; exact ht
  · exact ⟨rfl, rfl⟩

/-! ### walking -/

open WalkEqs

def RecOK (rec : Vtx → CallSt → Except RErr ArgMap × CallSt) : Prop :=
  ∀ v s, Eff s (errOf (rec v s).1) (rec v s).2

def WEff (s0 : CallSt) (w : WalkSt) : Prop := Eff s0 w.err w.s

theorem WEff.same {s0 : CallSt} {w w' : WalkSt} (h : WEff s0 w) (he' : w'.err = w.err)
    (hl : w'.s.log = w.s.log) (hm : w'.s.memo = w.s.memo) : WEff s0 w' := by
  unfold WEff at *
  rw [he']
  exact Eff.congr hl hm h

@[simp] theorem copyFrom_log (s : CallSt) (p : Option Vtx) (v : Vtx) : (copyFrom s p v).log = s.log := by
  unfold copyFrom; split <;> simp
@[simp] theorem copyFrom_memo (s : CallSt) (p : Option Vtx) (v : Vtx) : (copyFrom s p v).memo = s.memo := by
  unfold copyFrom; split <;> simp
@[simp] theorem valCopy_log (c : Ctx) (s : CallSt) (p : Option Vtx) (v : Vtx) : (valCopy c s p v).log = s.log := by
  rcases valCopy_cases c s p v with h | ⟨_, _, _, _, _, _, _, h⟩ <;> rw [h] <;> simp
@[simp] theorem valCopy_memo (c : Ctx) (s : CallSt) (p : Option Vtx) (v : Vtx) : (valCopy c s p v).memo = s.memo := by
  rcases valCopy_cases c s p v with h | ⟨_, _, _, _, _, _, _, h⟩ <;> rw [h] <;> simp
@[simp] theorem argStore_log (c : Ctx) (s : CallSt) (t : Nat) (v : Vtx) : (argStore c s t v).log = s.log := by
  unfold argStore; split <;> (try split) <;> simp
@[simp] theorem argStore_memo (c : Ctx) (s : CallSt) (t : Nat) (v : Vtx) : (argStore c s t v).memo = s.memo := by
  unfold argStore; split <;> (try split) <;> simp

theorem walkStep_eff (c : Ctx) (rec : Vtx → CallSt → Except RErr ArgMap × CallSt) (hrec : RecOK rec)
    (s0 : CallSt) (w : WalkSt) (v : Vtx) (h : WEff s0 w) : WEff s0 (walkStep c rec w v) := by
  cases herr : w.err with
  | some e => rw [walkStep_err c rec herr]; exact h
  | none =>
    have h0 : Eff s0 none w.s := by unfold WEff at h; rw [herr] at h; exact h
    cases v with
    | root => rw [walkStep_root c rec herr]; exact h.same rfl rfl rfl
    | value n t u => rw [walkStep_value c rec herr]; exact h.same rfl (by simp) (by simp)
    | arg t u => rw [walkStep_arg c rec herr]; exact h.same rfl (by simp) (by simp)
    | out t u => rw [walkStep_out c rec herr]; exact h.same rfl (by simp) (by simp)
    | func k =>
      cases hf : c.funcOf k with
      | none =>
        rw [walkStep_func_none c rec herr k hf]
        exact Eff.error_of_ok h0 (by intro ε h; cases h)
      | some f =>
        have hr := hrec (Vtx.func k) w.s
        rcases hrs : rec (Vtx.func k) w.s with ⟨e | am, s1⟩
        · rw [walkStep_func_recErr c rec herr k hf hrs]
          rw [hrs] at hr
          exact Eff.trans h0 hr
        · rw [hrs] at hr
          have h1 : Eff s0 none s1 := Eff.trans h0 hr
          have hcd := callDirect_eff c f am s1
          rcases hcs : callDirect c f am s1 with ⟨e | ⟨r, unw⟩, s2⟩
          · rw [walkStep_func_cdErr c rec herr k hf hrs hcs]
            rw [hcs] at hcd
            rcases hcd with ⟨hs, _⟩ | ⟨r, ev, hk, _⟩
            · have := callDirect_err c f am s1 e (by rw [hcs])
              simp only at hs
              rw [hs]
              exact Eff.error_of_ok h1 this
            · cases hk
          · rw [hcs] at hcd
            simp only at hcd
            cases hre : r.err with
            | some ε =>
              rw [walkStep_func_funcErr c rec herr k hf hrs hcs hre]
              refine Eff.trans h1 ?_
              rcases hcd with ⟨hs, hm⟩ | ⟨r', ev, hk, hl, hev, _⟩
              · rw [hs]
                exact ⟨[], by simp, Or.inr ⟨NoErr_nil, hm r unw rfl ε hre⟩⟩
              · simp only [Except.ok.injEq, Prod.mk.injEq] at hk
                refine ⟨[ev], hl, Or.inl ⟨[], ev, rfl, NoErr_nil, ?_⟩⟩
                rw [hev, ← hk.1]; exact hre
            | none =>
              have h2 : Eff s1 none s2 := by
                rcases hcd with ⟨hs, hm⟩ | ⟨r', ev, hk, hl, hev, hm⟩
                · rw [hs]; exact Eff.refl _
                · simp only [Except.ok.injEq, Prod.mk.injEq] at hk
                  refine ⟨[ev], hl, ?_, hm (by rw [← hk.1]; exact hre)⟩
                  intro ev' hev'
                  simp only [List.mem_singleton] at hev'
                  rw [hev', hev, ← hk.1]; exact hre
              cases hov : outputValues c f r unw s2 with
              | error e =>
                rw [walkStep_func_outErr c rec herr k hf hrs hcs hre hov]
                exact Eff.error_of_ok (Eff.trans h1 h2) (outputValues_err _ _ _ _ _ _ hov)
              | ok s3 =>
                rw [walkStep_func_ok c rec herr k hf hrs hcs hre hov]
                have := outputValues_eff _ _ _ _ _ _ hov
                unfold WEff
                rw [herr]
                refine Eff.trans (Eff.trans h1 h2) ⟨[], by simp [this.1], NoErr_nil, this.2⟩

theorem walkPaths_eff (c : Ctx) (rec : Vtx → CallSt → Except RErr ArgMap × CallSt) (hrec : RecOK rec)
    (ps : List (List Vtx)) (am : ArgMap) (s : CallSt) :
    Eff s (errOf (walkPaths c rec ps am s).1) (walkPaths c rec ps am s).2 := by
  induction ps generalizing am s with
  | nil => exact Eff.refl s
  | cons p rest ih =>
    unfold walkPaths
    have hw : WEff s (p.foldl (walkStep c rec) { s := s, final := none, prev := none, err := none }) :=
      foldl_inv (P := WEff s) _ (fun w v hw => walkStep_eff c rec hrec s w v hw) p _ (Eff.refl s)
    generalize p.foldl (walkStep c rec) { s := s, final := none, prev := none, err := none } = w at hw
    dsimp only
    split
    · rename_i e he
      unfold WEff at hw; rw [he] at hw; exact hw
    · rename_i he
      unfold WEff at hw; rw [he] at hw
      split
      · exact Eff.trans hw (ih _ _)
      · exact Eff.error_of_ok hw (by intro ε h; cases h)

theorem reach_eff (c : Ctx) (redefine : Bool) (fuel : Nat) (reaching : List Vtx) (target : Vtx) (s : CallSt) :
    Eff s (errOf (reach c redefine fuel reaching target s).1) (reach c redefine fuel reaching target s).2 := by
  induction fuel generalizing reaching target s with
  | zero =>
    unfold reach
    exact Eff.error_of_ok (Eff.refl s) (by intro ε h; cases h)
  | succ n ih =>
    unfold reach
    dsimp only
    have hs1 : Eff s none (if c.skipRecordsInput then
        ((c.g.outs target).filter (fun v => v == Vtx.root || takenAsIs c s v)).foldl CallSt.addInput s else s) := by
      split
      · exact Eff.congr (foldl_addInput_log _ _) (foldl_addInput_memo _ _) (Eff.refl s)
      · exact Eff.refl s
    generalize (if c.skipRecordsInput then
        ((c.g.outs target).filter (fun v => v == Vtx.root || takenAsIs c s v)).foldl CallSt.addInput s else s) = s1 at hs1
    split
    · exact Eff.error_of_ok hs1 (by intro ε h; cases h)
    · rename_i item orcRest _
      have hs2 : Eff s none { s1 with orc := orcRest } := Eff.congr rfl rfl hs1
      split
      · exact Eff.error_of_ok hs2 (by intro ε h; cases h)
      · split
        · exact Eff.error_of_ok hs2 (by intro ε h; cases h)
        · split
          · exact hs2
          · split
            · exact Eff.error_of_ok hs2 (by intro ε h; cases h)
            · split
              · exact Eff.error_of_ok hs2 (by intro ε h; cases h)
              · have hp := plan_fold_log target (target :: reaching) c.trackReaching redefine
                  (item.missing.zip item.paths) { s := { s1 with orc := orcRest }, unsat := [] }
                have hs3 : Eff s none ((item.missing.zip item.paths).foldl
                    (planOne target (target :: reaching) c.trackReaching redefine)
                    { s := { s1 with orc := orcRest }, unsat := [] }).s := Eff.congr hp.1 hp.2 hs2
                split
                · exact Eff.error_of_ok hs3 (by intro ε h; cases h)
                · exact Eff.trans hs3 (walkPaths_eff c _ (fun v st => ih _ v st) _ _ _)


/-! ### `callWith` -/

def LastErr (app : List ExecEv) (ε : Nat) : Prop :=
  ∃ init ev, app = init ++ [ev] ∧ NoErr init ∧ ev.res.err = some ε

def OutPost (m0 : List (Nat × Memo)) (app : List ExecEv) : Outcome → Prop
  | .ok r => r.err = none ∧ NoErr app
  | .convErr ε => LastErr app ε ∨ (NoErr app ∧ MemoErr m0 ε)
  | .targetErr ε r => r.err = some ε ∧ (LastErr app ε ∨ NoErr app)
  | _ => NoErr app

theorem callWith_eff (c : Ctx) (cgr : CallGraphResult) (target : FuncDesc) (fuel : Nat) (s0 : CallSt) :
    ∃ app, (callWith c cgr target fuel s0).2.log = s0.log ++ app ∧
      OutPost s0.memo app (callWith c cgr target fuel s0).1 := by
  unfold callWith
  split
  · exact ⟨[], by simp, NoErr_nil⟩
  · have hr := reach_eff c false fuel [] cgr.target s0
    rcases hres : reach c false fuel [] cgr.target s0 with ⟨e | am, s⟩
    · rw [hres] at hr
      obtain ⟨app, hl, hp⟩ := hr
      refine ⟨app, ?_⟩
      cases e <;> exact ⟨hl, hp⟩
    · rw [hres] at hr
      obtain ⟨app, hl, hn, hm⟩ := hr
      dsimp only at hl hn hm ⊢
      have hcd := callDirect_eff c target am s
      rcases hcs : callDirect c target am s with ⟨e | ⟨r, unw⟩, s2⟩
      · rw [hcs] at hcd
        rcases hcd with ⟨hs, _⟩ | ⟨r, ev, hk, _⟩
        · simp only at hs
          subst hs
          refine ⟨app, ?_⟩
          cases e <;> first | exact ⟨hl, hn⟩ | (rename_i k; exact ⟨hl, hn⟩)
        · cases hk
      · rw [hcs] at hcd
        simp only at hcd
        dsimp only
        rcases hcd with ⟨hs, hm'⟩ | ⟨r', ev, hk, hl', hev, _⟩
        · subst hs
          refine ⟨app, ?_⟩
          split
          · rename_i ε hε
            exact ⟨hl, hε, Or.inr hn⟩
          · rename_i hε
            exact ⟨hl, hε, hn⟩
        · simp only [Except.ok.injEq, Prod.mk.injEq] at hk
          have hl2 : s2.log = s0.log ++ (app ++ [ev]) := by rw [hl', hl, List.append_assoc]
          refine ⟨app ++ [ev], ?_⟩
          split
          · rename_i ε hε
            exact ⟨hl2, hε, Or.inl ⟨app, ev, rfl, hn, by rw [hev, ← hk.1]; exact hε⟩⟩
          · rename_i hε
            refine ⟨hl2, hε, NoErr_append hn ?_⟩
            intro ev' h'
            simp only [List.mem_singleton] at h'
            rw [h', hev, ← hk.1]; exact hε

theorem LastErr.unique {app : List ExecEv} {ε : Nat} (h : LastErr app ε) {ev : ExecEv} {ε' : Nat}
    (hev : ev ∈ app) (he : ev.res.err = some ε') : app.getLast? = some ev ∧ ε' = ε := by
  obtain ⟨init, ev0, rfl, hn, h0⟩ := h
  rcases List.mem_append.1 hev with h | h
  · rw [hn ev h] at he; cases he
  · simp only [List.mem_singleton] at h
    subst h
    rw [h0] at he; cases he
    simp

theorem NoErr.absurd {app : List ExecEv} (h : NoErr app) {ev : ExecEv} {ε : Nat}
    (hev : ev ∈ app) (he : ev.res.err = some ε) : False := by
  rw [h ev hev] at he; cases he

end ArgMapper.ErrorProp
