import ArgMapper.Proofs.Sig
import ArgMapper.Proofs.Args
/-!
# Labels built by the model of `NewFunc` have lower-case names (helper lemmas for C08c)

`fieldLabel` sets the name to `""` (type-only fields) or to `lower …`; `lower` is idempotent
(`lower_lower`, `Proofs/Args.lean`) and fixes `""`.
-/
namespace ArgMapper.RedefC
open ArgMapper

theorem fieldLabel_lower (f : Field) : lower (fieldLabel f).name = (fieldLabel f).name := by
  unfold fieldLabel
  dsimp only
  split
  · exact lower_eq_empty.2 rfl
  · exact lower_lower _

/-- every label of the set has a lower-case name -/
def SetLower (vs : ValueSet) : Prop := ∀ l ∈ vs.labels, lower l.name = l.name

theorem setLower_nil : SetLower ValueSet.nil := by
  intro l hl
  simp [ValueSet.labels, ValueSet.nil] at hl

theorem fromStruct_setLower {d : Nat} {fs : List Field} {vs : ValueSet}
    (h : newValueSetFromStruct d fs = .ok vs) : SetLower vs := by
  by_cases hd : d ≤ 1
  · rw [newValueSetFromStruct_eq d hd fs] at h
    simp only [Except.ok.injEq] at h
    subst h
    intro l hl
    obtain ⟨v, hv, rfl⟩ := List.mem_map.1 hl
    obtain ⟨_, f, _, _, hlab⟩ := structVals_mem fs 0 v hv
    rw [← hlab]
    exact fieldLabel_lower f
  · unfold newValueSetFromStruct at h
    rw [if_pos (by omega)] at h
    cases h

theorem lifted_setLower {ps : List Param} {vs : ValueSet} (h : newValueSetLifted ps = .ok vs) : SetLower vs := by
  unfold newValueSetLifted at h
  split at h
  · cases h
  · split at h
    · next vs' hvs =>
      simp only [Except.ok.injEq] at h
      subst h
      exact (fromStruct_setLower hvs : SetLower vs')
    · cases h

theorem newValueSet_setLower {ps : List Param} {vs : ValueSet} (h : newValueSet ps = .ok vs) : SetLower vs := by
  unfold newValueSet at h
  split at h
  · simp only [Except.ok.injEq] at h
    subst h
    exact setLower_nil
  · split at h
    · exact fromStruct_setLower h
    · exact lifted_setLower h
  · exact lifted_setLower h

theorem newFunc_setLower {ins outs : List Param} {fs : FuncSig} (h : newFunc ins outs = .ok fs) :
    SetLower fs.input ∧ SetLower fs.output := by
  refine ⟨?_, newValueSet_setLower (newFunc_ok h).1⟩
  unfold newFunc at h
  cases hi : newValueSet ins with
  | error e => simp [hi] at h
  | ok i =>
    simp only [hi] at h
    split at h
    · cases h
    · simp only [Except.ok.injEq] at h
      subst h
      exact newValueSet_setLower hi

end ArgMapper.RedefC
