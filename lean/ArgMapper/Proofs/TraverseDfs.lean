import ArgMapper.Model.Traverse
/-!
# Helper lemmas for `Props/C20.lean`: the callback-controlled DFS
-/
namespace ArgMapper.TraverseDfs
open ArgMapper AGraph Traverse
variable {α : Type} [DecidableEq α]

/-! ## graph basics -/

theorem mem_outs_iff (g : AGraph α) (u w : α) :
    w ∈ g.outs u ↔ ∃ e ∈ g.edges, e.1 = u ∧ e.2.1 = w := by
  simp only [outs, outsW, List.map_map, List.mem_map, List.mem_filter, decide_eq_true_eq,
    Function.comp]
  constructor
  · rintro ⟨e, ⟨he, h1⟩, h2⟩; exact ⟨e, he, h1, h2⟩
  · rintro ⟨e, he, h1, h2⟩; exact ⟨e, ⟨he, h1⟩, h2⟩

theorem hasEdge_iff (g : AGraph α) (u w : α) :
    g.hasEdge u w = true ↔ ∃ e ∈ g.edges, e.1 = u ∧ e.2.1 = w := by
  simp [hasEdge, weight, isEdge]

theorem hasEdge_iff_mem_outs (g : AGraph α) (u w : α) :
    g.hasEdge u w = true ↔ w ∈ g.outs u := by
  rw [hasEdge_iff, mem_outs_iff]

theorem nodup_subset_length : ∀ (l l' : List α), l.Nodup → (∀ x ∈ l, x ∈ l') →
    l.length ≤ l'.length
  | [], _, _, _ => by simp
  | a :: l, l', hn, hs => by
    have ha : a ∈ l' := hs a (by simp)
    have hn' := List.nodup_cons.mp hn
    have := nodup_subset_length l (l'.erase a) hn'.2 (by
      intro x hx
      have hxa : x ≠ a := by rintro rfl; exact hn'.1 hx
      exact (List.mem_erase_of_ne hxa).mpr (hs x (by simp [hx])))
    rw [List.length_erase_of_mem ha] at this
    have : 0 < l'.length := List.length_pos_of_mem ha
    simp; omega

/-! ## specification-side sets (copies of `C20.Explored` / `C20.Reportable`) -/

inductive Expl (g : AGraph α) (cb : α → DfsAct) (start : α) : α → Prop
  | start : Expl g cb start start
  | step {u w} : Expl g cb start u → g.hasEdge u w = true → w ≠ start → cb w = .descend →
      Expl g cb start w

def Rep (g : AGraph α) (cb : α → DfsAct) (start w : α) : Prop :=
  w ≠ start ∧ ∃ u, Expl g cb start u ∧ g.hasEdge u w = true

/-! ## the invariant -/

structure Inv (g : AGraph α) (cb : α → DfsAct) (start : α) (s : DfsSt α) : Prop where
  nodup : s.visited.Nodup
  sub : ∀ x ∈ s.visited, x ∈ g.verts
  fuel : s.outOfFuel = false
  ab : s.aborted = true ↔ ∃ w ∈ s.log, cb w = .abort
  dn : (s.log.filter (fun w => decide (cb w = .descend))).Nodup
  dv : ∀ w ∈ s.log, cb w = .descend → w ∈ s.visited
  st : start ∈ s.visited
  ex : ∀ x ∈ s.visited, Expl g cb start x
  rep : ∀ w ∈ s.log, Rep g cb start w
  vl : ∀ x ∈ s.visited, x = start ∨ x ∈ s.log

structure Rel (g : AGraph α) (s s' : DfsSt α) : Prop where
  vis : ∀ x ∈ s.visited, x ∈ s'.visited
  len : s.visited.length ≤ s'.visited.length
  log : ∀ x ∈ s.log, x ∈ s'.log
  ab : s'.aborted = false → s.aborted = false
  closed : s'.aborted = false → ∀ u ∈ s'.visited, u ∉ s.visited →
    ∀ w ∈ g.outs u, w ∈ s'.visited ∨ w ∈ s'.log

theorem Rel.refl (g : AGraph α) (s : DfsSt α) : Rel g s s :=
  ⟨fun _ h => h, Nat.le_refl _, fun _ h => h, fun h => h, fun _ _ hu hn => absurd hu hn⟩

theorem Rel.trans {g : AGraph α} {s₁ s₂ s₃ : DfsSt α} (h₁ : Rel g s₁ s₂) (h₂ : Rel g s₂ s₃) :
    Rel g s₁ s₃ := by
  refine ⟨fun x hx => h₂.vis x (h₁.vis x hx), Nat.le_trans h₁.len h₂.len,
    fun x hx => h₂.log x (h₁.log x hx), fun h => h₁.ab (h₂.ab h), ?_⟩
  intro hab u hu hn w hw
  by_cases h2 : u ∈ s₂.visited
  · rcases h₁.closed (h₂.ab hab) u h2 hn w hw with h | h
    · exact Or.inl (h₂.vis w h)
    · exact Or.inr (h₂.log w h)
  · exact h₂.closed hab u hu h2 w hw

def RecSpec (g : AGraph α) (cb : α → DfsAct) (start : α) (n : Nat)
    (rec : α → DfsSt α → DfsSt α) : Prop :=
  ∀ v s, Inv g cb start { s with visited := v :: s.visited } →
    g.verts.length < n + s.visited.length →
    Inv g cb start (rec v s) ∧ Rel g s (rec v s) ∧ v ∈ (rec v s).visited

theorem step_spec {g : AGraph α} (hwf : g.WF) {cb : α → DfsAct} {start : α} {n : Nat}
    {rec : α → DfsSt α → DfsSt α} (hrec : RecSpec g cb start n rec) (s0 : DfsSt α) (v w : α)
    (hI : Inv g cb start s0) (hv : v ∈ s0.visited) (hw : w ∈ g.outs v)
    (hf : g.verts.length < n + s0.visited.length) :
    Inv g cb start (dfsStep cb rec s0 w) ∧ Rel g s0 (dfsStep cb rec s0 w) ∧
      ((dfsStep cb rec s0 w).aborted = false →
        w ∈ (dfsStep cb rec s0 w).visited ∨ w ∈ (dfsStep cb rec s0 w).log) := by
  have hedge : g.hasEdge v w = true := (hasEdge_iff_mem_outs g v w).mpr hw
  have hwv : w ∈ g.verts := by
    obtain ⟨e, he, h1, h2⟩ := (mem_outs_iff g v w).mp hw
    exact h2 ▸ (hwf.2.2 e he).2
  unfold dfsStep
  split
  · rename_i hab
    exact ⟨hI, Rel.refl g s0, fun h => by simp [hab] at h⟩
  split
  · rename_i hab hvis
    exact ⟨hI, Rel.refl g s0, fun _ => Or.inl hvis⟩
  rename_i hab hvis
  have hab' : s0.aborted = false := by simpa using hab
  have hws : w ≠ start := by rintro rfl; exact hvis hI.st
  have hrepw : Rep g cb start w := ⟨hws, v, hI.ex v hv, hedge⟩
  split
  · -- descend
    rename_i hcb
    have hI' : Inv g cb start
        { ({ s0 with log := s0.log ++ [w] } : DfsSt α) with
          visited := w :: ({ s0 with log := s0.log ++ [w] } : DfsSt α).visited } := by
      refine ⟨?_, ?_, hI.fuel, ?_, ?_, ?_, ?_, ?_, ?_, ?_⟩
      · exact List.nodup_cons.mpr ⟨hvis, hI.nodup⟩
      · intro x hx
        rcases List.mem_cons.mp hx with rfl | hx
        · exact hwv
        · exact hI.sub x hx
      · show s0.aborted = true ↔ ∃ x ∈ s0.log ++ [w], cb x = .abort
        rw [hI.ab]
        constructor
        · rintro ⟨x, hx, h⟩; exact ⟨x, by simp [hx], h⟩
        · rintro ⟨x, hx, h⟩
          rcases List.mem_append.mp hx with hx | hx
          · exact ⟨x, hx, h⟩
          · simp at hx; subst hx; rw [hcb] at h; cases h
      · show ((s0.log ++ [w]).filter (fun w => decide (cb w = .descend))).Nodup
        rw [List.filter_append, List.nodup_append]
        refine ⟨hI.dn, (List.filter_sublist).nodup (by simp), ?_⟩
        intro a ha b hb
        rw [List.mem_filter] at ha hb
        simp at hb
        rintro rfl
        rw [hb.1] at ha
        exact hvis (hI.dv w ha.1 hcb)
      · intro x hx hd
        rcases List.mem_append.mp hx with hx | hx
        · exact List.mem_cons_of_mem _ (hI.dv x hx hd)
        · simp at hx; subst hx; simp
      · exact List.mem_cons_of_mem _ hI.st
      · intro x hx
        rcases List.mem_cons.mp hx with rfl | hx
        · exact Expl.step (hI.ex v hv) hedge hws hcb
        · exact hI.ex x hx
      · intro x hx
        rcases List.mem_append.mp hx with hx | hx
        · exact hI.rep x hx
        · simp at hx; subst hx; exact hrepw
      · intro x hx
        rcases List.mem_cons.mp hx with rfl | hx
        · right; simp
        · rcases hI.vl x hx with h | h
          · exact Or.inl h
          · right; exact List.mem_append_left _ h
    obtain ⟨h1, h2, h3⟩ := hrec w { s0 with log := s0.log ++ [w] } hI' hf
    refine ⟨h1, ?_, fun _ => Or.inl h3⟩
    refine Rel.trans (s₂ := { s0 with log := s0.log ++ [w] }) ?_ h2
    exact ⟨fun _ h => h, Nat.le_refl _, fun x hx => List.mem_append_left _ hx, fun h => h,
      fun _ u hu hn => absurd hu hn⟩
  · -- skip
    rename_i hcb
    refine ⟨?_, ?_, fun _ => Or.inr (by simp)⟩
    · refine ⟨hI.nodup, hI.sub, hI.fuel, ?_, ?_, ?_, hI.st, hI.ex, ?_, ?_⟩
      · show s0.aborted = true ↔ ∃ x ∈ s0.log ++ [w], cb x = .abort
        rw [hI.ab]
        constructor
        · rintro ⟨x, hx, h⟩; exact ⟨x, by simp [hx], h⟩
        · rintro ⟨x, hx, h⟩
          rcases List.mem_append.mp hx with hx | hx
          · exact ⟨x, hx, h⟩
          · simp at hx; subst hx; rw [hcb] at h; cases h
      · show ((s0.log ++ [w]).filter (fun w => decide (cb w = .descend))).Nodup
        rw [List.filter_append]
        simpa [List.filter_cons, hcb] using hI.dn
      · intro x hx hd
        rcases List.mem_append.mp hx with hx | hx
        · exact hI.dv x hx hd
        · simp at hx; subst hx; rw [hcb] at hd; cases hd
      · intro x hx
        rcases List.mem_append.mp hx with hx | hx
        · exact hI.rep x hx
        · simp at hx; subst hx; exact hrepw
      · intro x hx
        rcases hI.vl x hx with h | h
        · exact Or.inl h
        · right; exact List.mem_append_left _ h
    · exact ⟨fun _ h => h, Nat.le_refl _, fun x hx => List.mem_append_left _ hx, fun h => h,
        fun _ u hu hn => absurd hu hn⟩
  · -- abort
    rename_i hcb
    refine ⟨?_, ?_, fun h => by simp at h⟩
    · refine ⟨hI.nodup, hI.sub, hI.fuel, ?_, ?_, ?_, hI.st, hI.ex, ?_, ?_⟩
      · show true = true ↔ ∃ x ∈ s0.log ++ [w], cb x = .abort
        simp only [true_iff]
        exact ⟨w, by simp, hcb⟩
      · show ((s0.log ++ [w]).filter (fun w => decide (cb w = .descend))).Nodup
        rw [List.filter_append]
        simpa [List.filter_cons, hcb] using hI.dn
      · intro x hx hd
        rcases List.mem_append.mp hx with hx | hx
        · exact hI.dv x hx hd
        · simp at hx; subst hx; rw [hcb] at hd; cases hd
      · intro x hx
        rcases List.mem_append.mp hx with hx | hx
        · exact hI.rep x hx
        · simp at hx; subst hx; exact hrepw
      · intro x hx
        rcases hI.vl x hx with h | h
        · exact Or.inl h
        · right; exact List.mem_append_left _ h
    · exact ⟨fun _ h => h, Nat.le_refl _, fun x hx => List.mem_append_left _ hx,
        fun h => by simp at h, fun h => by simp at h⟩

theorem fold_spec {g : AGraph α} (hwf : g.WF) {cb : α → DfsAct} {start : α} {n : Nat}
    {rec : α → DfsSt α → DfsSt α} (hrec : RecSpec g cb start n rec) (v : α) :
    ∀ (l : List α) (s0 : DfsSt α), Inv g cb start s0 → v ∈ s0.visited →
      (∀ w ∈ l, w ∈ g.outs v) → g.verts.length < n + s0.visited.length →
      Inv g cb start (l.foldl (dfsStep cb rec) s0) ∧ Rel g s0 (l.foldl (dfsStep cb rec) s0) ∧
      ((l.foldl (dfsStep cb rec) s0).aborted = false →
        ∀ w ∈ l, w ∈ (l.foldl (dfsStep cb rec) s0).visited ∨
          w ∈ (l.foldl (dfsStep cb rec) s0).log)
  | [], s0, hI, _, _, _ => ⟨hI, Rel.refl g s0, fun _ w hw => by simp at hw⟩
  | w :: l, s0, hI, hv, hl, hf => by
    obtain ⟨h1, h2, h3⟩ := step_spec hwf hrec s0 v w hI hv (hl w (by simp)) hf
    obtain ⟨k1, k2, k3⟩ := fold_spec hwf hrec v l (dfsStep cb rec s0 w) h1 (h2.vis v hv)
      (fun x hx => hl x (by simp [hx])) (by have := h2.len; omega)
    simp only [List.foldl_cons]
    refine ⟨k1, h2.trans k2, ?_⟩
    intro hab x hx
    rcases List.mem_cons.mp hx with rfl | hx
    · rcases h3 (k2.ab hab) with h | h
      · exact Or.inl (k2.vis _ h)
      · exact Or.inr (k2.log _ h)
    · exact k3 hab x hx

theorem dfs_spec {g : AGraph α} (hwf : g.WF) (cb : α → DfsAct) (start : α) :
    ∀ n, RecSpec g cb start n (dfs g cb n)
  | 0 => by
    intro v s hI hf
    have := nodup_subset_length _ _ hI.nodup hI.sub
    simp at this; omega
  | n + 1 => by
    intro v s hI hf
    have ih := dfs_spec hwf cb start n
    obtain ⟨h1, h2, h3⟩ := fold_spec hwf ih v (g.outs v) { s with visited := v :: s.visited } hI
      (by simp) (fun _ h => h) (by simp; omega)
    show Inv g cb start ((g.outs v).foldl (dfsStep cb (dfs g cb n)) { s with visited := v :: s.visited })
      ∧ Rel g s ((g.outs v).foldl (dfsStep cb (dfs g cb n)) { s with visited := v :: s.visited })
      ∧ v ∈ ((g.outs v).foldl (dfsStep cb (dfs g cb n)) { s with visited := v :: s.visited }).visited
    refine ⟨h1, ?_, h2.vis v (by simp)⟩
    refine ⟨fun x hx => h2.vis x (List.mem_cons_of_mem _ hx), ?_, h2.log, h2.ab, ?_⟩
    · have := h2.len; simp at this; omega
    · intro hab u hu hn w hw
      by_cases huv : u = v
      · subst huv; exact h3 hab w hw
      · exact h2.closed hab u hu (by simp [huv, hn]) w hw

/-! ## top-level consequences -/

theorem DFS_spec {g : AGraph α} (hwf : g.WF) (cb : α → DfsAct) (start : α) (hs : start ∈ g.verts) :
    Inv g cb start (DFS g cb start) ∧
      ((DFS g cb start).aborted = false → ∀ u ∈ (DFS g cb start).visited,
        ∀ w ∈ g.outs u, w ∈ (DFS g cb start).visited ∨ w ∈ (DFS g cb start).log) := by
  have hI : Inv g cb start
      { ({ visited := [], log := [], aborted := false } : DfsSt α) with
        visited := start :: ({ visited := [], log := [], aborted := false } : DfsSt α).visited } := by
    refine ⟨by simp, by simp [hs], rfl, by simp, by simp, by simp, by simp, ?_, by simp, by simp⟩
    intro x hx; simp at hx; subst hx; exact Expl.start
  obtain ⟨h1, h2, _⟩ := dfs_spec hwf cb start (g.verts.length + 1) start _ hI (by simp)
  exact ⟨h1, fun hab u hu w hw => h2.closed hab u hu (by simp) w hw⟩

theorem DFS_sound_once {g : AGraph α} (hwf : g.WF) (cb : α → DfsAct) (start : α)
    (hs : start ∈ g.verts) :
    (DFS g cb start).outOfFuel = false ∧
    (∀ w ∈ (DFS g cb start).log, Rep g cb start w) ∧
    ((DFS g cb start).log.filter (fun w => decide (cb w = .descend))).Nodup :=
  have h := (DFS_spec hwf cb start hs).1
  ⟨h.fuel, h.rep, h.dn⟩

theorem DFS_abort {g : AGraph α} (hwf : g.WF) (cb : α → DfsAct) (start : α)
    (hs : start ∈ g.verts) :
    (DFS g cb start).aborted = true ↔ ∃ w ∈ (DFS g cb start).log, cb w = .abort :=
  (DFS_spec hwf cb start hs).1.ab

theorem DFS_exact {g : AGraph α} (hwf : g.WF) (cb : α → DfsAct) (start : α)
    (hs : start ∈ g.verts) (hna : ∀ w, Rep g cb start w → cb w ≠ .abort) :
    (DFS g cb start).outOfFuel = false ∧ (DFS g cb start).aborted = false ∧
    ∀ w, w ∈ (DFS g cb start).log ↔ Rep g cb start w := by
  obtain ⟨hI, hc⟩ := DFS_spec hwf cb start hs
  have hab : (DFS g cb start).aborted = false := by
    cases h : (DFS g cb start).aborted with
    | false => rfl
    | true =>
      obtain ⟨w, hw, hcb⟩ := hI.ab.mp h
      exact absurd hcb (hna w (hI.rep w hw))
  have hc := hc hab
  have hex : ∀ u, Expl g cb start u → u ∈ (DFS g cb start).visited := by
    intro u hu
    induction hu with
    | start => exact hI.st
    | step _ he _ hd ih =>
      rcases hc _ ih _ ((hasEdge_iff_mem_outs g _ _).mp he) with h | h
      · exact h
      · exact hI.dv _ h hd
  refine ⟨hI.fuel, hab, fun w => ⟨hI.rep w, ?_⟩⟩
  rintro ⟨hws, u, hu, he⟩
  rcases hc u (hex u hu) w ((hasEdge_iff_mem_outs g _ _).mp he) with h | h
  · rcases hI.vl w h with h | h
    · exact absurd h hws
    · exact h
  · exact h

end ArgMapper.TraverseDfs
