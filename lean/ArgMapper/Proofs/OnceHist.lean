import ArgMapper.Model.Hist
import ArgMapper.Proofs.Once
/-!
# Run-once functions over histories with Redefines (helper lemmas for C11b)

* `Has fid memo log`: the memo cell of `fid` is filled only if an execution of `fid` is in the log
  (the converse of the second half of `Once.Good`).  `PresH` / `callWith_presH`: preserved by a call.
* `runHist_good` / `runHist_has`: both invariants hold along a whole history (Redefine steps leave the
  state and the accumulated log unchanged).
-/
namespace ArgMapper.OnceHist
open ArgMapper ArgMapper.WalkEqs ArgMapper.ErrorProp

def Has (fid : Nat) (memo : List (Nat × Memo)) (log : List ExecEv) : Prop :=
  mapGet memo fid = none ∨ ∃ ev ∈ log, ev.fid = fid

def PresH (fid : Nat) (s s' : CallSt) : Prop :=
  ∀ pre, Has fid s.memo (pre ++ s.log) → Has fid s'.memo (pre ++ s'.log)

theorem Has_nil (fid : Nat) : Has fid [] [] := Or.inl rfl

theorem PresH.refl (fid : Nat) (s : CallSt) : PresH fid s s := fun _ h => h

theorem PresH.trans {fid : Nat} {s s1 s2 : CallSt} (h1 : PresH fid s s1) (h2 : PresH fid s1 s2) :
    PresH fid s s2 := fun pre h => h2 pre (h1 pre h)

theorem PresH.congr {fid : Nat} {s s' s'' : CallSt} (hl : s''.log = s'.log) (hm : s''.memo = s'.memo)
    (h : PresH fid s s') : PresH fid s s'' := by
  intro pre hg
  rw [hl, hm]; exact h pre hg

theorem PresH.of_eq {fid : Nat} {s s' : CallSt} (hl : s'.log = s.log) (hm : s'.memo = s.memo) :
    PresH fid s s' := PresH.congr hl hm (PresH.refl fid s)

theorem callDirect_presH (fid : Nat) (c : Ctx) (f : FuncDesc) (am : ArgMap) (s : CallSt) :
    PresH fid s (callDirect c f am s).2 := by
  rcases Once.callDirect_cases c f am s with h | ⟨_, ev, hevid, hlog, hmemo⟩
  · rw [h]; exact PresH.refl fid s
  · intro pre hg
    rw [hlog, hmemo, ← List.append_assoc]
    by_cases hid : f.id = fid
    · exact Or.inr ⟨ev, List.mem_append_right _ (List.mem_singleton.2 rfl), hevid.trans hid⟩
    · have hmemo' : mapGet (if f.once = true then mapSet s.memo f.id { res := ev.res, unwrapped := false }
          else s.memo) fid = mapGet s.memo fid := by
        split
        · rw [mapGet_mapSet, if_neg (fun h => hid h.symm)]
        · rfl
      unfold Has
      rw [hmemo']
      rcases hg with hg | ⟨e, he, hef⟩
      · exact Or.inl hg
      · exact Or.inr ⟨e, List.mem_append_left _ he, hef⟩

theorem Has_map_unwrap {fid : Nat} {memo : List (Nat × Memo)} {log : List ExecEv} (k : Nat)
    (h : Has fid memo log) :
    Has fid (memo.map (fun p => if p.1 = k then (p.1, { p.2 with unwrapped := true }) else p)) log := by
  rcases h with h | h
  · left
    rw [Once.mapGet_map_unwrap, h]; rfl
  · exact Or.inr h

theorem outputValues_presH (fid : Nat) (c : Ctx) (f : FuncDesc) (r : BehOut) (u : Bool) (s s' : CallSt)
    (h : outputValues c f r u s = .ok s') : PresH fid s s' := by
  unfold outputValues at h
  split at h
  · cases h
  · simp only [Except.ok.injEq] at h
    subst h
    apply foldl_inv (P := fun (t : CallSt) => PresH fid s t)
    · intro t v ht
      split <;> (try split) <;> first | exact ht | exact PresH.congr (by simp) (by simp) ht
    · split
      · intro pre hg
        exact Has_map_unwrap f.id hg
      · exact PresH.refl fid s

def RecOK (fid : Nat) (rec : Vtx → CallSt → Except RErr ArgMap × CallSt) : Prop :=
  ∀ v s, PresH fid s (rec v s).2

theorem walkStep_presH (fid : Nat) (c : Ctx)
    (rec : Vtx → CallSt → Except RErr ArgMap × CallSt) (hrec : RecOK fid rec)
    (s0 : CallSt) (w : WalkSt) (v : Vtx) (h : PresH fid s0 w.s) : PresH fid s0 (walkStep c rec w v).s := by
  cases herr : w.err with
  | some e => rw [walkStep_err c rec herr]; exact h
  | none =>
    cases v with
    | root => rw [walkStep_root c rec herr]; exact h
    | value n t u => rw [walkStep_value c rec herr]; exact PresH.congr (by simp) (by simp) h
    | arg t u => rw [walkStep_arg c rec herr]; exact PresH.congr (by simp) (by simp) h
    | out t u => rw [walkStep_out c rec herr]; exact PresH.congr (by simp) (by simp) h
    | func k =>
      cases hf : c.funcOf k with
      | none => rw [walkStep_func_none c rec herr k hf]; exact h
      | some f =>
        have hr := hrec (Vtx.func k) w.s
        rcases hrs : rec (Vtx.func k) w.s with ⟨e | am, s1⟩
        · rw [walkStep_func_recErr c rec herr k hf hrs]
          rw [hrs] at hr
          exact PresH.trans h hr
        · rw [hrs] at hr
          have h1 : PresH fid s0 s1 := PresH.trans h hr
          have hcd := callDirect_presH fid c f am s1
          rcases hcs : callDirect c f am s1 with ⟨e | ⟨r, unw⟩, s2⟩
          · rw [walkStep_func_cdErr c rec herr k hf hrs hcs]
            rw [hcs] at hcd
            exact PresH.trans h1 hcd
          · rw [hcs] at hcd
            have h2 : PresH fid s0 s2 := PresH.trans h1 hcd
            cases hre : r.err with
            | some ε => rw [walkStep_func_funcErr c rec herr k hf hrs hcs hre]; exact h2
            | none =>
              cases hov : outputValues c f r unw s2 with
              | error e => rw [walkStep_func_outErr c rec herr k hf hrs hcs hre hov]; exact h2
              | ok s3 =>
                rw [walkStep_func_ok c rec herr k hf hrs hcs hre hov]
                exact PresH.trans h2 (outputValues_presH fid c f r unw s2 s3 hov)

theorem walkPaths_presH (fid : Nat) (c : Ctx)
    (rec : Vtx → CallSt → Except RErr ArgMap × CallSt) (hrec : RecOK fid rec)
    (ps : List (List Vtx)) (am : ArgMap) (s : CallSt) :
    PresH fid s (walkPaths c rec ps am s).2 := by
  induction ps generalizing am s with
  | nil => exact PresH.refl fid s
  | cons p rest ih =>
    unfold walkPaths
    have hw : PresH fid s (p.foldl (walkStep c rec) { s := s, final := none, prev := none, err := none }).s :=
      foldl_inv (P := fun w => PresH fid s w.s) _ (fun w v hw => walkStep_presH fid c rec hrec s w v hw) p _
        (PresH.refl fid s)
    generalize p.foldl (walkStep c rec) { s := s, final := none, prev := none, err := none } = w at hw
    dsimp only
    split
    · exact hw
    · split
      · exact PresH.trans hw (ih _ _)
      · exact hw

theorem reach_presH (fid : Nat) (c : Ctx)
    (redefine : Bool) (fuel : Nat) (reaching : List Vtx) (target : Vtx) (s : CallSt) :
    PresH fid s (reach c redefine fuel reaching target s).2 := by
  induction fuel generalizing reaching target s with
  | zero =>
    unfold reach
    exact PresH.refl fid s
  | succ n ih =>
    unfold reach
    dsimp only
    have hs1 : PresH fid s (if c.skipRecordsInput then
        ((c.g.outs target).filter (fun v => v == Vtx.root || takenAsIs c s v)).foldl CallSt.addInput s else s) := by
      split
      · exact PresH.of_eq (foldl_addInput_log _ _) (foldl_addInput_memo _ _)
      · exact PresH.refl fid s
    generalize (if c.skipRecordsInput then
        ((c.g.outs target).filter (fun v => v == Vtx.root || takenAsIs c s v)).foldl CallSt.addInput s else s) = s1 at hs1
    split
    · exact hs1
    · rename_i item orcRest _
      have hs2 : PresH fid s { s1 with orc := orcRest } := PresH.congr rfl rfl hs1
      split
      · exact hs2
      · split
        · exact hs2
        · split
          · exact hs2
          · split
            · exact hs2
            · split
              · exact hs2
              · have hp := plan_fold_log target (target :: reaching) c.trackReaching redefine
                  (item.missing.zip item.paths) { s := { s1 with orc := orcRest }, unsat := [] }
                have hs3 : PresH fid s ((item.missing.zip item.paths).foldl
                    (planOne target (target :: reaching) c.trackReaching redefine)
                    { s := { s1 with orc := orcRest }, unsat := [] }).s := PresH.congr hp.1 hp.2 hs2
                split
                · exact hs3
                · exact PresH.trans hs3 (walkPaths_presH fid c _ (fun v st => ih _ v st) _ _ _)

theorem callWith_presH (fid : Nat) (c : Ctx)
    (cgr : CallGraphResult) (target : FuncDesc)
    (fuel : Nat) (s0 : CallSt) : PresH fid s0 (callWith c cgr target fuel s0).2 := by
  unfold callWith
  split
  · exact PresH.refl fid s0
  · have hr := reach_presH fid c false fuel [] cgr.target s0
    rcases hres : reach c false fuel [] cgr.target s0 with ⟨e | am, s⟩
    · rw [hres] at hr
      cases e <;> exact hr
    · rw [hres] at hr
      dsimp only at hr ⊢
      have hcd := callDirect_presH fid c target am s
      rcases hcs : callDirect c target am s with ⟨e | ⟨r, unw⟩, s2⟩
      · rw [hcs] at hcd
        cases e <;> exact PresH.trans hr hcd
      · rw [hcs] at hcd
        dsimp only
        split <;> exact PresH.trans hr hcd

/-! ### histories -/

/-- every execution of every `Call` of a history, in order (Redefines execute nothing) -/
def obsLog (obs : List HistObs) : List ExecEv :=
  obs.flatMap (fun o => match o with | .call _ l => l | .redef _ => [])

/-- every function object with id `fid` that some call of the history could execute is run-once -/
def OnceOps (ops : List HistOp) (fid : Nat) : Prop :=
  ∀ op ∈ ops, match op with
    | .call c _ t _ => (t.id = fid → t.once = true) ∧ ∀ k f, c.funcOf k = some f → f.id = fid → f.once = true
    | .redefine .. => True

theorem obsLog_cons_call (o : Outcome) (l : List ExecEv) (os : List HistObs) :
    obsLog (.call o l :: os) = l ++ obsLog os := by
  simp [obsLog]

theorem obsLog_cons_redef (o : RedefOutcome) (os : List HistObs) :
    obsLog (.redef o :: os) = obsLog os := by
  simp [obsLog]

theorem runHist_cons (fuel : Nat) (h : HistState) (op : HistOp) (rest : List HistOp) :
    runHist fuel h (op :: rest) =
      ((runHist fuel (histStep fuel h op).1 rest).1,
        (histStep fuel h op).2 :: (runHist fuel (histStep fuel h op).1 rest).2) := rfl

theorem runHist_good (fuel : Nat) (fid : Nat) (ops : List HistOp) (h : HistState) (pre : List ExecEv)
    (hops : OnceOps ops fid) (hg : Once.Good fid h.memo pre) :
    Once.Good fid (runHist fuel h ops).1.memo (pre ++ obsLog (runHist fuel h ops).2) := by
  induction ops generalizing h pre with
  | nil => simpa [runHist, obsLog] using hg
  | cons op rest ih =>
    have hrest : OnceOps rest fid := fun o ho => hops o (List.mem_cons_of_mem _ ho)
    have hop := hops op List.mem_cons_self
    rw [runHist_cons]
    cases op with
    | call c cgr t orc =>
      dsimp only at hop
      have hp := Once.callWith_pres fid c hop.2 cgr t hop.1 fuel (h.start cgr.cg orc) pre
        (by simpa [HistState.start, initSt] using hg)
      simp only [histStep, histCall, obsLog_cons_call, ← List.append_assoc]
      exact ih _ _ hrest hp
    | redefine c cgr t fo orc =>
      simp only [histStep, obsLog_cons_redef]
      exact ih _ _ hrest hg

theorem runHist_has (fuel : Nat) (fid : Nat) (ops : List HistOp) (h : HistState) (pre : List ExecEv)
    (hg : Has fid h.memo pre) :
    Has fid (runHist fuel h ops).1.memo (pre ++ obsLog (runHist fuel h ops).2) := by
  induction ops generalizing h pre with
  | nil => simpa [runHist, obsLog] using hg
  | cons op rest ih =>
    rw [runHist_cons]
    cases op with
    | call c cgr t orc =>
      have hp := callWith_presH fid c cgr t fuel (h.start cgr.cg orc) pre
        (by simpa [HistState.start, initSt] using hg)
      simp only [histStep, histCall, obsLog_cons_call, ← List.append_assoc]
      exact ih _ _ hp
    | redefine c cgr t fo orc =>
      simp only [histStep, obsLog_cons_redef]
      exact ih _ _ hg

end ArgMapper.OnceHist
