import ArgMapper.Proofs.GraphSim
/-!
# Object-level representation lemmas: each mutator maps represented objects to represented objects (C19)
-/
set_option linter.unusedSectionVars false
namespace ArgMapper
namespace GraphSpec
variable {α : Type} [DecidableEq α]
open AGraph GraphImpl

theorem clsW_congr {c c' : SClass α} (hW : ∀ a b, c'.g.weight a b = c.g.weight a b) (fl : Bool) (a b : α) :
    clsW c' fl a b = clsW c fl a b := by
  cases fl <;> simp [clsW, hW]

theorem repC_add {o i : AdjObj α} {hs : HashObj α} {c : SClass α} {fl : Bool} (h : RepC o i hs c fl)
    (v : α) (tag : Nat) (hv : ¬ v ∈ c.g.verts) :
    RepC (aset o v []) (aset i v []) (aset hs v tag)
      { g := c.g.add v, tags := setTag c.tags v tag, poisoned := c.poisoned } fl := by
  have hV : ∀ x, x ∈ (c.g.add v).verts ↔ x ∈ c.g.verts ∨ x = v := mem_add_verts c.g v
  have hW : ∀ a b, (c.g.add v).weight a b = c.g.weight a b := weight_add c.g v
  refine ⟨?_, ?_, ?_⟩
  · exact (h.out.addV v hv hV).congr (fun _ => Iff.rfl)
      (fun a b => clsW_congr (c' := ⟨c.g.add v, _, _⟩) hW fl a b)
  · exact (h.inn.addV v hv hV).congr (fun _ => Iff.rfl)
      (fun a b => clsW_congr (c' := ⟨c.g.add v, _, _⟩) hW fl b a)
  · exact h.hash.set v tag hV (fun x => aget_setTag c.tags v tag x)

theorem repC_addow_present {o i : AdjObj α} {hs : HashObj α} {c : SClass α} {fl : Bool} (h : RepC o i hs c fl)
    (v : α) (tag : Nat) (hv : v ∈ c.g.verts) :
    RepC o i (aset hs v tag)
      { g := c.g.add v, tags := setTag c.tags v tag, poisoned := c.poisoned } fl := by
  have hV : ∀ x, x ∈ (c.g.add v).verts ↔ x ∈ c.g.verts := by
    intro x; rw [mem_add_verts]
    constructor
    · rintro (e | e)
      · exact e
      · subst e; exact hv
    · exact Or.inl
  have hV' : ∀ x, x ∈ (c.g.add v).verts ↔ x ∈ c.g.verts ∨ x = v := mem_add_verts c.g v
  have hW : ∀ a b, (c.g.add v).weight a b = c.g.weight a b := weight_add c.g v
  refine ⟨?_, ?_, ?_⟩
  · exact h.out.congr hV (fun a b => clsW_congr (c' := ⟨c.g.add v, _, _⟩) hW fl a b)
  · exact h.inn.congr hV (fun a b => clsW_congr (c' := ⟨c.g.add v, _, _⟩) hW fl b a)
  · exact h.hash.set v tag hV' (fun x => aget_setTag c.tags v tag x)

/-- the class after `AddEdge u v wt` through a handle of orientation `fl` -/
def edgeCls (c : SClass α) (fl : Bool) (u v : α) (wt : Int) : SClass α :=
  if fl then { c with g := c.g.addEdge v u wt } else { c with g := c.g.addEdge u v wt }

theorem clsW_edgeCls (c : SClass α) (fl : Bool) (u v : α) (wt : Int) (a b : α) :
    clsW (edgeCls c fl u v wt) fl a b = if a = u ∧ b = v then some wt else clsW c fl a b := by
  cases fl
  · simp [clsW, edgeCls, weight_addEdge]
  · simp only [clsW, edgeCls, if_true, weight_addEdge]
    by_cases h1 : a = u <;> by_cases h2 : b = v <;> simp [h1, h2]

theorem edgeCls_verts (c : SClass α) (fl : Bool) (u v : α) (wt : Int) :
    (edgeCls c fl u v wt).g.verts = c.g.verts := by
  cases fl <;> rfl

theorem edgeCls_tags (c : SClass α) (fl : Bool) (u v : α) (wt : Int) :
    (edgeCls c fl u v wt).tags = c.tags := by
  cases fl <;> rfl

theorem repC_edge {o i : AdjObj α} {hs : HashObj α} {c : SClass α} {fl : Bool} (h : RepC o i hs c fl)
    (u v : α) (wt : Int) (x y : Inner α) (hx : aget o u = some x) (hy : aget i v = some y) :
    RepC (aset o u (aset x v wt)) (aset i v (aset y u wt)) hs (edgeCls c fl u v wt) fl := by
  refine ⟨?_, ?_, ?_⟩
  · rw [edgeCls_verts]
    exact h.out.setE u v wt x hx (clsW_edgeCls c fl u v wt)
  · rw [edgeCls_verts]
    refine h.inn.setE v u wt y hy (fun a b => ?_)
    rw [clsW_edgeCls]
    by_cases h1 : a = v <;> by_cases h2 : b = u <;> simp [h1, h2]
  · rw [edgeCls_verts, edgeCls_tags]; exact h.hash

/-- the class after `RemoveEdge u v` through a handle of orientation `fl` -/
def redgeCls (c : SClass α) (fl : Bool) (u v : α) : SClass α :=
  if fl then { c with g := c.g.removeEdge v u } else { c with g := c.g.removeEdge u v }

theorem clsW_redgeCls (c : SClass α) (fl : Bool) (u v : α) (a b : α) :
    clsW (redgeCls c fl u v) fl a b = if a = u ∧ b = v then none else clsW c fl a b := by
  cases fl
  · simp [clsW, redgeCls, weight_removeEdge]
  · simp only [clsW, redgeCls, if_true, weight_removeEdge]
    by_cases h1 : a = u <;> by_cases h2 : b = v <;> simp [h1, h2]

theorem redgeCls_verts (c : SClass α) (fl : Bool) (u v : α) :
    (redgeCls c fl u v).g.verts = c.g.verts := by
  cases fl <;> rfl

theorem redgeCls_tags (c : SClass α) (fl : Bool) (u v : α) :
    (redgeCls c fl u v).tags = c.tags := by
  cases fl <;> rfl

theorem repC_redge {o i : AdjObj α} {hs : HashObj α} {c : SClass α} {fl : Bool} (h : RepC o i hs c fl)
    (u v : α) :
    RepC (delInner o u v) (delInner i v u) hs (redgeCls c fl u v) fl := by
  refine ⟨?_, ?_, ?_⟩
  · rw [redgeCls_verts]
    exact h.out.delE u v (clsW_redgeCls c fl u v)
  · rw [redgeCls_verts]
    refine h.inn.delE v u (fun a b => ?_)
    rw [clsW_redgeCls]
    by_cases h1 : a = v <;> by_cases h2 : b = u <;> simp [h1, h2]
  · rw [redgeCls_verts, redgeCls_tags]; exact h.hash

theorem clsW_remove (c : SClass α) (fl : Bool) (v : α) (tg : List (α × Nat)) (p : Bool) (a b : α) :
    clsW ⟨c.g.remove v, tg, p⟩ fl a b = if a = v ∨ b = v then none else clsW c fl a b := by
  cases fl
  · simp [clsW, weight_remove]
  · simp only [clsW, if_true, weight_remove]
    by_cases h1 : a = v <;> by_cases h2 : b = v <;> simp [h1, h2]

/-- `Remove v` at the level of the two adjacency objects and the hash object -/
theorem repC_remove {o i : AdjObj α} {hs : HashObj α} {c : SClass α} {fl : Bool} (h : RepC o i hs c fl)
    (v : α) :
    let i1 := (akeys ((aget o v).getD [])).foldl (fun m x => delInner m x v) i
    let o1 := adel o v
    let o2 := (akeys ((aget i1 v).getD [])).foldl (fun m x => delInner m x v) o1
    RepC o2 (adel i1 v) (adel hs v)
      { g := c.g.remove v, tags := c.tags.filter (fun p => !decide (p.1 = v)), poisoned := c.poisoned } fl := by
  intro i1 o1 o2
  have hV : ∀ x, x ∈ (c.g.remove v).verts ↔ x ∈ c.g.verts ∧ x ≠ v := mem_remove_verts c.g v
  -- step 1: clean the predecessor lists of `v`'s successors
  have hi1 : Half i1 (· ∈ c.g.verts)
      (fun a b => if a ∈ akeys ((aget o v).getD []) ∧ b = v then none else clsW c fl b a) :=
    Half.delInners _ v h.inn (fun a b => rfl)
  have ho1 : Half o1 (· ∈ (c.g.remove v).verts) (fun a b => if a = v then none else clsW c fl a b) :=
    h.out.adel v hV (fun a b => rfl)
  have ho2 : Half o2 (· ∈ (c.g.remove v).verts)
      (fun a b => if a ∈ akeys ((aget i1 v).getD []) ∧ b = v then none
        else if a = v then none else clsW c fl a b) :=
    Half.delInners _ v ho1 (fun a b => rfl)
  have hi2 : Half (adel i1 v) (· ∈ (c.g.remove v).verts)
      (fun a b => if a = v then none
        else if a ∈ akeys ((aget o v).getD []) ∧ b = v then none else clsW c fl b a) :=
    hi1.adel v hV (fun a b => rfl)
  have houts : ∀ a, a ∈ akeys ((aget o v).getD []) ↔ (clsW c fl v a).isSome := h.out.mem_succ_keys v
  have hins : ∀ a, a ∈ akeys ((aget i1 v).getD []) ↔
      (if v ∈ akeys ((aget o v).getD []) ∧ a = v then none else clsW c fl a v).isSome :=
    hi1.mem_succ_keys v
  refine ⟨?_, ?_, ?_⟩
  · refine ho2.congr (fun _ => Iff.rfl) (fun a b => ?_)
    rw [clsW_remove]
    by_cases ha : a = v
    · simp [ha]
    · by_cases hb : b = v
      · subst hb
        by_cases hin : a ∈ akeys ((aget i1 b).getD [])
        · simp [hin]
        · have := fun e => hin ((hins a).2 e)
          simp only [ha, and_false, if_false] at this
          simp only [hin, false_and, if_false, ha, or_true, if_true]
          cases hh : clsW c fl a b with
          | none => rfl
          | some x => rw [hh] at this; simp at this
      · simp [ha, hb]
  · refine hi2.congr (fun _ => Iff.rfl) (fun a b => ?_)
    rw [clsW_remove]
    by_cases ha : a = v
    · simp [ha]
    · by_cases hb : b = v
      · subst hb
        by_cases hin : a ∈ akeys ((aget o b).getD [])
        · simp [hin]
        · have := fun e => hin ((houts a).2 e)
          simp only [hin, false_and, if_false, ha, true_or, if_true]
          cases hh : clsW c fl b a with
          | none => rfl
          | some x => rw [hh] at this; simp at this
      · simp [ha, hb]
  · refine h.hash.del v hV (fun x => ?_)
    exact aget_adel c.tags v x

end GraphSpec
end ArgMapper
