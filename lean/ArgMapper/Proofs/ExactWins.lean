import ArgMapper.Props.C01b
import ArgMapper.Props.C18
import ArgMapper.Props.C20
import ArgMapper.Proofs.Args
/-!
# Helper lemmas for C03 (exact matches win)

* `Built`: graphs obtained by adding vertices and rule-obeying edges; every construction phase of
  `callGraph` is such an extension, so well-formedness, the weighted edge characterisation `WRule`,
  and persistence of edges / vertices are proved once.
* the value store `inputsGraph` writes, and that later phases leave it alone;
* `prune` keeps what the reverse DFS from the root reports;
* evaluation of `reach` / `callDirect` when every requirement of the target already holds a value.
-/
set_option linter.unusedSectionVars false
set_option linter.unusedVariables false
namespace ArgMapper.ExactWins
open ArgMapper Generated

/-! ### graph extension -/

/-- graphs obtained from `g0` by adding vertices and edges (between present vertices, obeying `R`) -/
inductive Built (R : Vtx → Vtx → Int → Prop) (g0 : AGraph Vtx) : AGraph Vtx → Prop
  | refl : Built R g0 g0
  | add {g : AGraph Vtx} (v : Vtx) : Built R g0 g → Built R g0 (g.add v)
  | edge {g : AGraph Vtx} (u v : Vtx) (w : Int) : Built R g0 g → u ∈ g.verts → v ∈ g.verts → R u v w →
      Built R g0 (g.addEdge u v w)

variable {R : Vtx → Vtx → Int → Prop}

theorem Built.trans {g0 g1 g2 : AGraph Vtx} (h1 : Built R g0 g1) (h2 : Built R g1 g2) : Built R g0 g2 := by
  induction h2 with
  | refl => exact h1
  | add v _ ih => exact .add v ih
  | edge u v w _ hu hv hr ih => exact .edge u v w ih hu hv hr

theorem Built.verts {g0 g : AGraph Vtx} (h : Built R g0 g) {x : Vtx} (hx : x ∈ g0.verts) : x ∈ g.verts := by
  induction h with
  | refl => exact hx
  | add v _ ih => exact (AGraph.mem_add_verts _ _ _).2 (Or.inl ih)
  | edge u v w _ _ _ _ ih => exact ih

theorem Built.hasEdge {g0 g : AGraph Vtx} (h : Built R g0 g) {x y : Vtx} (hx : g0.hasEdge x y = true) :
    g.hasEdge x y = true := by
  induction h with
  | refl => exact hx
  | add v _ ih => rw [CGE.hasEdge_add]; exact ih
  | edge u v w _ _ _ _ ih => exact (CGE.hasEdge_addEdge _ _ _ _ _ _).2 (Or.inr ih)

theorem Built.wf {g0 g : AGraph Vtx} (h : Built R g0 g) (h0 : g0.WF) : g.WF := by
  induction h with
  | refl => exact h0
  | add v _ ih => exact AGraph.WF_add _ _ ih
  | edge u v w _ hu hv _ ih => exact AGraph.WF_addEdge _ _ _ _ ih hu hv

/-- every edge carries a weight allowed by `R` -/
def RuleOK (R : Vtx → Vtx → Int → Prop) (g : AGraph Vtx) : Prop :=
  ∀ x y w, g.weight x y = some w → R x y w

theorem Built.rule {g0 g : AGraph Vtx} (h : Built R g0 g) (h0 : RuleOK R g0) : RuleOK R g := by
  induction h with
  | refl => exact h0
  | add v _ ih =>
    intro x y w hw
    rw [AGraph.weight_add] at hw
    exact ih x y w hw
  | edge u v w _ _ _ hr ih =>
    intro x y w' hw
    rw [AGraph.weight_addEdge] at hw
    split at hw
    · rename_i hxy
      obtain ⟨rfl, rfl⟩ := hxy
      cases hw
      exact hr
    · exact ih x y w' hw

/-- adding a vertex and then an edge that involves it -/
theorem Built.addEdgeR {g0 g : AGraph Vtx} (h : Built R g0 g) (u v : Vtx) (w : Int)
    (hu : u ∈ g.verts) (hr : R u v w) : Built R g0 ((g.add v).addEdge u v w) :=
  .edge u v w (.add v h) ((AGraph.mem_add_verts _ _ _).2 (Or.inl hu))
    ((AGraph.mem_add_verts _ _ _).2 (Or.inr rfl)) hr

theorem Built.addEdgeL {g0 g : AGraph Vtx} (h : Built R g0 g) (u v : Vtx) (w : Int)
    (hv : v ∈ g.verts) (hr : R u v w) : Built R g0 ((g.add u).addEdge u v w) :=
  .edge u v w (.add u h) ((AGraph.mem_add_verts _ _ _).2 (Or.inr rfl))
    ((AGraph.mem_add_verts _ _ _).2 (Or.inl hv)) hr

/-- a fold of extension steps is an extension; `Q` is a side condition on the elements that
extensions preserve -/
theorem built_foldl {σ β : Type} (gr : σ → AGraph Vtx) (step : σ → β → σ) (Q : AGraph Vtx → β → Prop)
    (hQ : ∀ g g' x, Built R g g' → Q g x → Q g' x)
    (hstep : ∀ s x, Q (gr s) x → Built R (gr s) (gr (step s x))) :
    ∀ (l : List β) (s : σ), (∀ x ∈ l, Q (gr s) x) → Built R (gr s) (gr (l.foldl step s)) := by
  intro l
  induction l with
  | nil => intro s _; exact .refl
  | cons a l ih =>
    intro s hl
    rw [List.foldl_cons]
    have h1 := hstep s a (hl a List.mem_cons_self)
    exact h1.trans (ih _ (fun x hx => hQ _ _ x h1 (hl x (List.mem_cons_of_mem _ hx))))


/-! ### the weighted edge rules -/

/-- the vertices `inputsGraph` hangs off the root -/
def inputVerts (b : Builder) : List Vtx :=
  b.named.map (fun p => Vtx.value p.1 p.2.ty "") ++ b.namedSub.map (fun p => Vtx.value p.1.1 p.2.ty p.1.2) ++
  b.typed.map (fun p => Vtx.out p.1 "") ++ b.typedSub.map (fun p => Vtx.out p.1.1 p.1.2)

/-- dependent → requirement, with the weight the rule assigns; `fs` are the function objects whose
graphs are built, `ins` the vertices of the supplied values -/
inductive WRule (fs : List FuncDesc) (ins : List Vtx) : Vtx → Vtx → Int → Prop
  | funcRoot (f : FuncDesc) : f ∈ fs → WRule fs ins (.func f.key) .root weightNormal
  | funcNamed (f : FuncDesc) (v : SVal) : f ∈ fs → v ∈ f.input.values → v.lab.name ≠ "" →
      WRule fs ins (.func f.key) (.value v.lab.name v.lab.ty v.lab.sub) weightNormal
  | funcTyped (f : FuncDesc) (v : SVal) : f ∈ fs → v ∈ f.input.values → v.lab.name = "" →
      WRule fs ins (.func f.key) (.arg v.lab.ty v.lab.sub) weightTyped
  | inputRoot (x : Vtx) : x ∈ ins → WRule fs ins x .root weightNormal
  | namedOut (n : String) (t : Nat) (s : String) (k : Nat) : WRule fs ins (.value n t s) (.func k) weightNormal
  | typedOut (t : Nat) (s : String) (k : Nat) : WRule fs ins (.out t s) (.func k) weightTyped
  | valueOut (n : String) (t : Nat) (s : String) : WRule fs ins (.value n t s) (.out t "") weightTyped
  | argValue (n : String) (t : Nat) (s s' : String) : WRule fs ins (.arg t s') (.value n t s) weightTyped
  | argOut (t : Nat) (s : String) : WRule fs ins (.arg t s) (.out t s) weightTyped
  | outOut (t : Nat) (s : String) (t' : Nat) (s' : String) : WRule fs ins (.out t s) (.out t' s') weightTyped
  | valueValue (n : String) (t : Nat) (s : String) (n' : String) (t' : Nat) (s' : String) :
      WRule fs ins (.value n t s) (.value n' t' s') weightTyped
  | argOutSub (t : Nat) (s s' : String) : s ≠ s' → WRule fs ins (.arg t s) (.out t s') weightTypedOtherSubtype

variable {fs : List FuncDesc} {ins : List Vtx}

theorem mem_add_self (g : AGraph Vtx) (v : Vtx) : v ∈ (g.add v).verts :=
  (AGraph.mem_add_verts _ _ _).2 (Or.inr rfl)

theorem mem_add_of_mem (g : AGraph Vtx) (v : Vtx) {x : Vtx} (h : x ∈ g.verts) : x ∈ (g.add v).verts :=
  (AGraph.mem_add_verts _ _ _).2 (Or.inl h)

/-! ### the phases of `callGraph` are extensions -/

theorem built_funcGraph (c : CG) (f : FuncDesc) (io : Bool) (hf : f ∈ fs) (hroot : Vtx.root ∈ c.g.verts) :
    Built (WRule fs ins) c.g (funcGraph c f io).g := by
  unfold funcGraph
  dsimp only
  have h1 : Built (WRule fs ins) c.g (c.add (Vtx.func f.key)).g := .add _ .refl
  have hv1 : Vtx.func f.key ∈ (c.add (.func f.key)).g.verts := mem_add_self _ _
  have h2 : Built (WRule fs ins) c.g (if f.input.empty = true
      then (c.add (.func f.key)).edge (.func f.key) .root weightNormal else c.add (.func f.key)).g := by
    split
    · exact .edge _ _ _ h1 hv1 (h1.verts hroot) (.funcRoot f hf)
    · exact h1
  have hv2 : Vtx.func f.key ∈ (if f.input.empty = true
      then (c.add (.func f.key)).edge (.func f.key) .root weightNormal else c.add (.func f.key)).g.verts := by
    split
    · exact hv1
    · exact hv1
  have h3 := built_foldl (R := WRule fs ins) (fun c : CG => c.g) (fun (c : CG) (val : SVal) =>
      if val.lab.name ≠ "" then
        (c.add (.value val.lab.name val.lab.ty val.lab.sub)).edge (Vtx.func f.key)
          (.value val.lab.name val.lab.ty val.lab.sub) weightNormal
      else
        (c.add (.arg val.lab.ty val.lab.sub)).edge (Vtx.func f.key) (.arg val.lab.ty val.lab.sub) weightTyped)
    (fun g val => Vtx.func f.key ∈ g.verts ∧ val ∈ f.input.values)
    (fun g g' x hb hq => ⟨hb.verts hq.1, hq.2⟩)
    (by
      intro s x hq
      split
      · rename_i hn
        exact Built.addEdgeR .refl _ _ _ hq.1 (.funcNamed f x hf hq.2 hn)
      · rename_i hn
        exact Built.addEdgeR .refl _ _ _ hq.1 (.funcTyped f x hf hq.2 (by simpa using hn)))
    f.input.values _ (fun x hx => ⟨hv2, hx⟩)
  have h3' := h2.trans h3
  split
  · exact h3'
  · refine h3'.trans ?_
    have hv3 : Vtx.func f.key ∈ (f.input.values.foldl (fun (c : CG) (val : SVal) =>
      if val.lab.name ≠ "" then
        (c.add (.value val.lab.name val.lab.ty val.lab.sub)).edge (Vtx.func f.key)
          (.value val.lab.name val.lab.ty val.lab.sub) weightNormal
      else
        (c.add (.arg val.lab.ty val.lab.sub)).edge (Vtx.func f.key) (.arg val.lab.ty val.lab.sub) weightTyped)
      (if f.input.empty = true
      then (c.add (.func f.key)).edge (.func f.key) .root weightNormal else c.add (.func f.key))).g.verts :=
      h3.verts hv2
    have h4 := built_foldl (R := WRule fs ins) (fun c : CG => c.g) (fun (c : CG) (p : String × SVal) =>
        (c.add (.value p.1 p.2.lab.ty p.2.lab.sub)).edge (.value p.1 p.2.lab.ty p.2.lab.sub) (Vtx.func f.key)
          weightNormal)
      (fun g _ => Vtx.func f.key ∈ g.verts) (fun g g' x hb hq => hb.verts hq)
      (by
        intro s x hq
        exact Built.addEdgeL .refl _ _ _ hq (.namedOut _ _ _ _))
      f.output.named _ (fun x hx => hv3)
    refine h4.trans ?_
    exact built_foldl (R := WRule fs ins) (fun c : CG => c.g) (fun (c : CG) (p : Nat × SVal) =>
        (c.add (.out p.2.lab.ty p.2.lab.sub)).edge (.out p.2.lab.ty p.2.lab.sub) (Vtx.func f.key) weightTyped)
      (fun g _ => Vtx.func f.key ∈ g.verts) (fun g g' x hb hq => hb.verts hq)
      (by
        intro s x hq
        exact Built.addEdgeL .refl _ _ _ hq (.typedOut _ _ _))
      f.output.typed _ (fun x hx => h4.verts hv3)


theorem mem_inputVerts_named {b : Builder} {p : String × Val} (h : p ∈ b.named) :
    Vtx.value p.1 p.2.ty "" ∈ inputVerts b := by
  unfold inputVerts
  simp only [List.mem_append, List.mem_map]
  exact Or.inl (Or.inl (Or.inl ⟨p, h, rfl⟩))

theorem mem_inputVerts_namedSub {b : Builder} {p : (String × String) × Val} (h : p ∈ b.namedSub) :
    Vtx.value p.1.1 p.2.ty p.1.2 ∈ inputVerts b := by
  unfold inputVerts
  simp only [List.mem_append, List.mem_map]
  exact Or.inl (Or.inl (Or.inr ⟨p, h, rfl⟩))

theorem mem_inputVerts_typed {b : Builder} {p : Nat × Val} (h : p ∈ b.typed) :
    Vtx.out p.1 "" ∈ inputVerts b := by
  unfold inputVerts
  simp only [List.mem_append, List.mem_map]
  exact Or.inl (Or.inr ⟨p, h, rfl⟩)

theorem mem_inputVerts_typedSub {b : Builder} {p : (Nat × String) × Val} (h : p ∈ b.typedSub) :
    Vtx.out p.1.1 p.1.2 ∈ inputVerts b := by
  unfold inputVerts
  simp only [List.mem_append, List.mem_map]
  exact Or.inr ⟨p, h, rfl⟩

theorem built_inputs_step {g0 : AGraph Vtx} (acc : CG × List Vtx) (v : Vtx) (x : Val) (hv : v ∈ ins)
    (hroot : Vtx.root ∈ g0.verts) (h : Built (WRule fs ins) g0 acc.1.g) :
    Built (WRule fs ins) g0 (((acc.1.addValued v x).edge v .root weightNormal), acc.2 ++ [v]).1.g :=
  Built.addEdgeL h _ _ _ (h.verts hroot) (.inputRoot v hv)

theorem built_inputsGraph (c : CG) (b : Builder) (hroot : Vtx.root ∈ c.g.verts) :
    Built (WRule fs (inputVerts b)) c.g (inputsGraph c b).1.g := by
  unfold inputsGraph
  dsimp only
  apply CGE.foldl_inv (fun acc : CG × List Vtx => Built (WRule fs (inputVerts b)) c.g acc.1.g)
    (fun p => p ∈ b.typedSub)
  · intro acc p hp hacc
    exact built_inputs_step acc _ _ (mem_inputVerts_typedSub hp) hroot hacc
  · exact fun x hx => hx
  apply CGE.foldl_inv (fun acc : CG × List Vtx => Built (WRule fs (inputVerts b)) c.g acc.1.g)
    (fun p => p ∈ b.typed)
  · intro acc p hp hacc
    exact built_inputs_step acc _ _ (mem_inputVerts_typed hp) hroot hacc
  · exact fun x hx => hx
  apply CGE.foldl_inv (fun acc : CG × List Vtx => Built (WRule fs (inputVerts b)) c.g acc.1.g)
    (fun p => p ∈ b.namedSub)
  · intro acc p hp hacc
    exact built_inputs_step acc _ _ (mem_inputVerts_namedSub hp) hroot hacc
  · exact fun x hx => hx
  apply CGE.foldl_inv (fun acc : CG × List Vtx => Built (WRule fs (inputVerts b)) c.g acc.1.g)
    (fun p => p ∈ b.named)
  · intro acc p hp hacc
    exact built_inputs_step acc _ _ (mem_inputVerts_named hp) hroot hacc
  · exact fun x hx => hx
  exact .refl

theorem built_convs (c : CG) (funcs : Nat → Option FuncDesc) (convs : List Nat)
    (hfs : ∀ fid ∈ convs, ∀ f, funcs fid = some f → f ∈ fs) (hroot : Vtx.root ∈ c.g.verts) :
    Built (WRule fs ins) c.g (convs.foldl (fun c fid => match funcs fid with
      | some f => funcGraph c f true
      | none => c) c).g := by
  apply CGE.foldl_inv (fun c' : CG => Built (WRule fs ins) c.g c'.g) (fun fid => fid ∈ convs)
  · intro c' fid hfid hc'
    split
    · rename_i f hf
      exact hc'.trans (built_funcGraph c' f true (hfs fid hfid f hf) (hc'.verts hroot))
    · exact hc'
  · exact fun x hx => hx
  · exact .refl

theorem built_phaseR3 (c : CG) : Built (WRule fs ins) c.g (phaseR3 c).g := by
  unfold phaseR3
  apply CGE.foldl_inv (fun c' : CG => Built (WRule fs ins) c.g c'.g)
    (fun v => v ∈ c.g.verts ∧ v.isValue = true)
  · intro c' v hv hc'
    obtain ⟨hv1, hv2⟩ := hv
    cases v with
    | value n t s =>
      have hvc := hc'.verts hv1
      have h1 : Built (WRule fs ins) c.g ((c'.add (.out t "")).edge (.value n t s) (.out t "") weightTyped).g :=
        Built.addEdgeR hc' _ _ _ hvc (.valueOut n t s)
      have h2 : Built (WRule fs ins) c.g ((((c'.add (.out t "")).edge (.value n t s) (.out t "") weightTyped).add
          (.arg t "")).edge (.arg t "") (.value n t s) weightTyped).g :=
        Built.addEdgeL h1 _ _ _ (h1.verts hv1) (.argValue n t s "")
      by_cases hs : (Vtx.value n t s).sub ≠ ""
      · dsimp only [Vtx.ty]
        rw [if_pos hs]
        exact Built.addEdgeL h2 _ _ _ (h2.verts hv1) (.argValue n t s _)
      · dsimp only [Vtx.ty]
        rw [if_neg hs]
        exact h2
    | _ => simp [Vtx.isValue] at hv2
  · intro x hx
    exact ⟨(List.mem_filter.1 hx).1, (List.mem_filter.1 hx).2⟩
  · exact .refl

theorem built_phaseR4 (c : CG) : Built (WRule fs ins) c.g (phaseR4 c).g := by
  unfold phaseR4
  apply CGE.foldl_inv (fun c' : CG => Built (WRule fs ins) c.g c'.g)
    (fun v => v ∈ c.g.verts ∧ v.isArg = true)
  · intro c' v hv hc'
    obtain ⟨hv1, hv2⟩ := hv
    cases v with
    | arg t s =>
      dsimp only [Vtx.ty, Vtx.sub]
      exact Built.addEdgeR hc' _ _ _ (hc'.verts hv1) (.argOut t s)
    | _ => simp [Vtx.isArg] at hv2
  · intro x hx
    exact ⟨(List.mem_filter.1 hx).1, (List.mem_filter.1 hx).2⟩
  · exact .refl

/-- a double loop that only adds edges between present vertices -/
theorem built_double (c : CG) (p : Vtx → Bool) (q : Vtx → Vtx → Bool) (w : Int)
    (hr : ∀ v v2, p v = true → q v v2 = true → WRule fs ins v v2 w) :
    Built (WRule fs ins) c.g ((c.g.verts.filter p).foldl (fun c v =>
      (c.g.verts.filter (q v)).foldl (fun c v2 => c.edge v v2 w) c) c).g := by
  apply CGE.foldl_inv (fun c' : CG => Built (WRule fs ins) c.g c'.g)
    (fun v => v ∈ c.g.verts ∧ p v = true)
  · intro c' v hv hc'
    have := CGE.foldl_inv (fun c'' : CG => Built (WRule fs ins) c.g c''.g ∧ ∀ x ∈ c'.g.verts, x ∈ c''.g.verts)
      (fun v2 => v2 ∈ c'.g.verts ∧ q v v2 = true) (fun c v2 => c.edge v v2 w)
      (by
        intro c'' v2 hv2 hc''
        exact ⟨.edge _ _ _ hc''.1 (hc''.1.verts hv.1) (hc''.2 _ hv2.1) (hr v v2 hv.2 hv2.2), hc''.2⟩)
      (c'.g.verts.filter (q v)) c'
      (fun x hx => ⟨(List.mem_filter.1 hx).1, (List.mem_filter.1 hx).2⟩) ⟨hc', fun x hx => hx⟩
    exact this.1
  · intro x hx
    exact ⟨(List.mem_filter.1 hx).1, (List.mem_filter.1 hx).2⟩
  · exact .refl

theorem built_phaseR5 (e : TypeEnv) (sk : Bool) (c : CG) : Built (WRule fs ins) c.g (phaseR5 e sk c).g := by
  unfold phaseR5
  exact built_double c (fun v => v.isOut && e.isIface v.ty)
    (fun v v2 => v2.isOut && decide (v2 ≠ v) && e.impl v2.ty v.ty && !(sk && v2.ty == v.ty)) weightTyped
    (by
      intro v v2 hv hv2
      cases v <;> simp [Vtx.isOut] at hv
      cases v2 <;> simp [Vtx.isOut] at hv2
      exact .outOut _ _ _ _)

theorem built_phaseR6 (nt : Bool) (c : CG) : Built (WRule fs ins) c.g (phaseR6 nt c).g := by
  unfold phaseR6
  exact built_double c (fun v => v.isValue && v.sub == "" && (c.valueOf v).isNone)
    (fun v v2 => v2.isValue && v2.ty == v.ty && v2.sub != "" && !(nt && v2.name != v.name)) weightTyped
    (by
      intro v v2 hv hv2
      cases v <;> simp [Vtx.isValue] at hv
      cases v2 <;> simp [Vtx.isValue] at hv2
      exact .valueValue _ _ _ _ _ _)

theorem built_phaseR7 (c : CG) : Built (WRule fs ins) c.g (phaseR7 c).g := by
  unfold phaseR7
  dsimp only
  refine Built.trans (built_double c (fun v => v.isArg && v.sub == "")
    (fun v v2 => v2.isOut && v2.ty == v.ty && v2.sub != "") weightTypedOtherSubtype ?_) (built_double _
      (fun v => v.isArg && v.sub != "") (fun v v2 => v2.isOut && v2.ty == v.ty && v2.sub == "")
      weightTypedOtherSubtype ?_)
  · intro v v2 hv hv2
    cases v <;> simp [Vtx.isArg, Vtx.sub] at hv
    cases v2 <;> simp [Vtx.isOut, Vtx.sub, Vtx.ty] at hv2
    obtain ⟨rfl, h2⟩ := hv2
    subst hv
    exact .argOutSub _ _ _ (fun h => h2 h.symm)
  · intro v v2 hv hv2
    cases v <;> simp [Vtx.isArg, Vtx.sub] at hv
    cases v2 <;> simp [Vtx.isOut, Vtx.sub, Vtx.ty] at hv2
    obtain ⟨rfl, rfl⟩ := hv2
    exact .argOutSub _ _ _ hv


/-! ### the value store is written by `inputsGraph` only -/

theorem store_funcGraph (c : CG) (f : FuncDesc) (io : Bool) : (funcGraph c f io).store = c.store := by
  unfold funcGraph
  dsimp only
  have h2 : (if f.input.empty = true
      then (c.add (.func f.key)).edge (.func f.key) .root weightNormal else c.add (.func f.key)).store = c.store := by
    split <;> rfl
  have h3 := CGE.foldl_inv' (fun c' : CG => c'.store = c.store) (fun (c : CG) (val : SVal) =>
      if val.lab.name ≠ "" then
        (c.add (.value val.lab.name val.lab.ty val.lab.sub)).edge (Vtx.func f.key)
          (.value val.lab.name val.lab.ty val.lab.sub) weightNormal
      else
        (c.add (.arg val.lab.ty val.lab.sub)).edge (Vtx.func f.key) (.arg val.lab.ty val.lab.sub) weightTyped)
    (by intro c' x hc'; split <;> exact hc') f.input.values _ h2
  split
  · exact h3
  · apply CGE.foldl_inv' (fun c' : CG => c'.store = c.store)
    · intro c' x hc'; exact hc'
    apply CGE.foldl_inv' (fun c' : CG => c'.store = c.store)
    · intro c' x hc'; exact hc'
    exact h3

theorem store_convs (c : CG) (funcs : Nat → Option FuncDesc) (convs : List Nat) :
    (convs.foldl (fun c fid => match funcs fid with
      | some f => funcGraph c f true
      | none => c) c).store = c.store := by
  apply CGE.foldl_inv' (fun c' : CG => c'.store = c.store)
  · intro c' fid hc'
    split
    · rw [store_funcGraph]; exact hc'
    · exact hc'
  · rfl

theorem store_phaseR3 (c : CG) : (phaseR3 c).store = c.store := by
  unfold phaseR3
  apply CGE.foldl_inv' (fun c' : CG => c'.store = c.store)
  · intro c' v hc'
    dsimp only
    split <;> exact hc'
  · rfl

theorem store_phaseR4 (c : CG) : (phaseR4 c).store = c.store := by
  unfold phaseR4
  apply CGE.foldl_inv' (fun c' : CG => c'.store = c.store)
  · intro c' v hc'; exact hc'
  · rfl

theorem store_double (c : CG) (l : List Vtx) (q : CG → Vtx → List Vtx) (w : Int) :
    (l.foldl (fun c v => (q c v).foldl (fun c v2 => c.edge v v2 w) c) c).store = c.store := by
  apply CGE.foldl_inv' (fun c' : CG => c'.store = c.store)
  · intro c' v hc'
    apply CGE.foldl_inv' (fun c' : CG => c'.store = c.store)
    · intro c'' v2 hc''; exact hc''
    · exact hc'
  · rfl

theorem store_phaseR5 (e : TypeEnv) (sk : Bool) (c : CG) : (phaseR5 e sk c).store = c.store := by
  unfold phaseR5
  exact store_double c _ (fun c v => c.g.verts.filter (fun v2 => v2.isOut && decide (v2 ≠ v) && e.impl v2.ty v.ty &&
        !(sk && v2.ty == v.ty))) _

theorem store_phaseR6 (nt : Bool) (c : CG) : (phaseR6 nt c).store = c.store := by
  unfold phaseR6
  exact store_double c _ (fun c v => c.g.verts.filter (fun v2 => v2.isValue && v2.ty == v.ty && v2.sub != "" &&
        !(nt && v2.name != v.name))) _

theorem store_phaseR7 (c : CG) : (phaseR7 c).store = c.store := by
  unfold phaseR7
  dsimp only
  rw [store_double _ _ (fun c v => c.g.verts.filter (fun v2 => v2.isOut && v2.ty == v.ty && v2.sub == "")) _]
  exact store_double c _ (fun c v => c.g.verts.filter (fun v2 => v2.isOut && v2.ty == v.ty && v2.sub != "")) _

theorem store_prune (c : CG) (t : Vtx) : (prune c t).store = c.store := by
  unfold prune
  dsimp only
  apply CGE.foldl_inv' (fun c' : CG => c'.store = c.store)
  · intro c' v hc'; exact hc'
  · rfl

/-! ### the graph before pruning -/

def c0 : CG := CG.empty.add .root

def c1 (target : FuncDesc) : CG := funcGraph c0 target false

def c2 (b : Builder) (target : FuncDesc) : CG := (inputsGraph (c1 target) b).1

def c3 (b : Builder) (funcs : Nat → Option FuncDesc) (target : FuncDesc) : CG :=
  b.convs.foldl (fun c fid => match funcs fid with
    | some f => funcGraph c f true
    | none => c) (c2 b target)

def pre (e : TypeEnv) (b : Builder) (funcs : Nat → Option FuncDesc) (target : FuncDesc) : CG :=
  phaseR7 (phaseR6 true (phaseR5 e true (phaseR4 (phaseR3 (c3 b funcs target)))))

theorem callGraph_cg (e : TypeEnv) (b : Builder) (funcs : Nat → Option FuncDesc) (target : FuncDesc) :
    (callGraph {} e b funcs target false none).cg = prune (pre e b funcs target) (.func target.key) := by
  unfold callGraph pre c3 c2 c1 c0
  dsimp only
  rfl

theorem callGraph_unsat (e : TypeEnv) (b : Builder) (funcs : Nat → Option FuncDesc) (target : FuncDesc) :
    (callGraph {} e b funcs target false none).unsat =
      (((c1 target).g.outs (.func target.key)).filter (fun r =>
        !(prune (pre e b funcs target) (.func target.key)).g.hasVertex r)).map Vtx.label := by
  unfold callGraph pre c3 c2 c1 c0
  dsimp only
  rfl

theorem callGraph_target (e : TypeEnv) (b : Builder) (funcs : Nat → Option FuncDesc) (target : FuncDesc) :
    (callGraph {} e b funcs target false none).target = .func target.key := rfl


/-- the rules of one `Call` -/
abbrev CRule (b : Builder) (funcs : Nat → Option FuncDesc) (target : FuncDesc) : Vtx → Vtx → Int → Prop :=
  WRule (C01.allFuncs b funcs target) (inputVerts b)

theorem root_mem_c0 : Vtx.root ∈ c0.g.verts := by
  simp [c0, CG.empty, CG.add, AGraph.add, AGraph.empty]

theorem c0_wf : c0.g.WF := AGraph.WF_add _ _ AGraph.WF_empty

theorem c0_rule (R : Vtx → Vtx → Int → Prop) : RuleOK R c0.g := by
  intro x y w h
  have : c0.g.weight x y = none := by
    simp [c0, CG.empty, CG.add, AGraph.add, AGraph.empty, AGraph.weight]
  rw [this] at h; cases h

section
variable (e : TypeEnv) (b : Builder) (funcs : Nat → Option FuncDesc) (target : FuncDesc)

theorem built_c1 : Built (CRule b funcs target) c0.g (c1 target).g :=
  built_funcGraph c0 target false (by simp [C01.allFuncs]) root_mem_c0

theorem built_c2 : Built (CRule b funcs target) (c1 target).g (c2 b target).g :=
  built_inputsGraph (c1 target) b ((built_c1 b funcs target).verts root_mem_c0)

theorem built_c3 : Built (CRule b funcs target) (c2 b target).g (c3 b funcs target).g := by
  unfold c3
  apply built_convs
  · intro fid hfid f hf
    simp only [C01.allFuncs, List.mem_cons, List.mem_filterMap]
    exact Or.inr ⟨fid, hfid, hf⟩
  · exact (built_c2 b funcs target).verts ((built_c1 b funcs target).verts root_mem_c0)

theorem built_pre_c3 : Built (CRule b funcs target) (c3 b funcs target).g (pre e b funcs target).g := by
  unfold pre
  exact (built_phaseR3 _).trans ((built_phaseR4 _).trans ((built_phaseR5 e true _).trans
    ((built_phaseR6 true _).trans (built_phaseR7 _))))

theorem built_pre_c2 : Built (CRule b funcs target) (c2 b target).g (pre e b funcs target).g :=
  (built_c3 b funcs target).trans (built_pre_c3 e b funcs target)

theorem built_pre_c1 : Built (CRule b funcs target) (c1 target).g (pre e b funcs target).g :=
  (built_c2 b funcs target).trans (built_pre_c2 e b funcs target)

theorem built_pre_c0 : Built (CRule b funcs target) c0.g (pre e b funcs target).g :=
  (built_c1 b funcs target).trans (built_pre_c1 e b funcs target)

theorem pre_wf : (pre e b funcs target).g.WF := (built_pre_c0 e b funcs target).wf c0_wf

theorem pre_rule : RuleOK (CRule b funcs target) (pre e b funcs target).g :=
  (built_pre_c0 e b funcs target).rule (c0_rule _)

theorem pre_root : Vtx.root ∈ (pre e b funcs target).g.verts :=
  (built_pre_c0 e b funcs target).verts root_mem_c0

theorem pre_store : (pre e b funcs target).store = (c2 b target).store := by
  unfold pre c3
  rw [store_phaseR7, store_phaseR6, store_phaseR5, store_phaseR4, store_phaseR3, store_convs]

end

/-! ### `prune` -/

theorem verts_foldl_remove (L : List Vtx) : ∀ (c : CG) (x : Vtx),
    x ∈ (L.foldl (fun (c : CG) v => { c with g := c.g.remove v }) c).g.verts ↔ x ∈ c.g.verts ∧ x ∉ L := by
  induction L with
  | nil => intro c x; simp
  | cons a L ih =>
    intro c x
    rw [List.foldl_cons, ih]
    simp only [AGraph.mem_remove_verts, List.mem_cons, not_or]
    constructor
    · rintro ⟨⟨h1, h2⟩, h3⟩; exact ⟨h1, h2, h3⟩
    · rintro ⟨h1, h2, h3⟩; exact ⟨⟨h1, h2⟩, h3⟩

theorem weight_foldl_remove (L : List Vtx) : ∀ (c : CG) (x y : Vtx),
    (L.foldl (fun (c : CG) v => { c with g := c.g.remove v }) c).g.weight x y =
      if x ∈ L ∨ y ∈ L then none else c.g.weight x y := by
  induction L with
  | nil => intro c x y; simp
  | cons a L ih =>
    intro c x y
    rw [List.foldl_cons, ih]
    simp only [AGraph.weight_remove, List.mem_cons]
    by_cases h1 : x ∈ L ∨ y ∈ L
    · have : (x = a ∨ x ∈ L) ∨ (y = a ∨ y ∈ L) := by
        rcases h1 with h | h
        · exact Or.inl (Or.inr h)
        · exact Or.inr (Or.inr h)
      rw [if_pos h1, if_pos this]
    · rw [if_neg h1]
      have h1' := not_or.1 h1
      by_cases h2 : x = a ∨ y = a
      · have : (x = a ∨ x ∈ L) ∨ (y = a ∨ y ∈ L) := by
          rcases h2 with h | h
          · exact Or.inl (Or.inl h)
          · exact Or.inr (Or.inl h)
        rw [if_pos h2, if_pos this]
      · have h2' := not_or.1 h2
        have : ¬ ((x = a ∨ x ∈ L) ∨ (y = a ∨ y ∈ L)) := by
          rintro ((h | h) | (h | h))
          · exact h2'.1 h
          · exact h1'.1 h
          · exact h2'.2 h
          · exact h1'.2 h
        rw [if_neg h2, if_neg this]

theorem wf_foldl_remove (L : List Vtx) : ∀ (c : CG), c.g.WF →
    (L.foldl (fun (c : CG) v => { c with g := c.g.remove v }) c).g.WF := by
  induction L with
  | nil => intro c h; exact h
  | cons a L ih =>
    intro c h
    rw [List.foldl_cons]
    exact ih _ (AGraph.WF_remove _ _ h)

/-- what pruning keeps: the root and whatever the reverse DFS reports -/
def Kept (c : CG) (t : Vtx) (x : Vtx) : Prop :=
  x = .root ∨ x ∈ (Traverse.DFS c.g.reverse (fun v => if v = t then .skip else .descend) .root).log

theorem prune_verts (c : CG) (t x : Vtx) : x ∈ (prune c t).g.verts ↔ x ∈ c.g.verts ∧ Kept c t x := by
  unfold prune
  dsimp only
  rw [verts_foldl_remove]
  simp only [List.mem_filter, Bool.not_eq_true', decide_eq_false_iff_not, List.mem_cons, not_and,
    Classical.not_not, Kept]
  constructor
  · rintro ⟨h1, h2⟩; exact ⟨h1, h2 h1⟩
  · rintro ⟨h1, h2⟩; exact ⟨h1, fun _ => h2⟩

theorem weight_of_mem_verts {g : AGraph Vtx} (hwf : g.WF) {x y : Vtx} {w : Int} (h : g.weight x y = some w) :
    x ∈ g.verts ∧ y ∈ g.verts := by
  unfold AGraph.weight at h
  rw [Option.map_eq_some_iff] at h
  obtain ⟨ed, hed, _⟩ := h
  have hm := List.mem_of_find?_eq_some hed
  have hk := List.find?_some hed
  rw [AGraph.isEdge_iff] at hk
  have := hwf.2.2 ed hm
  rw [hk.1, hk.2] at this
  exact this

theorem mem_pruned (c : CG) (t x : Vtx) :
    x ∈ c.g.verts.filter (fun v => !decide (v ∈ Vtx.root ::
      (Traverse.DFS c.g.reverse (fun v => if v = t then .skip else .descend) .root).log)) ↔
    x ∈ c.g.verts ∧ ¬ Kept c t x := by
  simp only [List.mem_filter, Bool.not_eq_true', decide_eq_false_iff_not, List.mem_cons, Kept]

theorem prune_weight (c : CG) (hwf : c.g.WF) (t x y : Vtx) (w : Int) :
    (prune c t).g.weight x y = some w ↔ c.g.weight x y = some w ∧ Kept c t x ∧ Kept c t y := by
  unfold prune
  dsimp only
  rw [weight_foldl_remove]
  constructor
  · intro h
    split at h
    · cases h
    · rename_i hn
      have hn' := not_or.1 hn
      obtain ⟨hx, hy⟩ := weight_of_mem_verts hwf h
      exact ⟨h, Classical.not_not.1 (fun hk => hn'.1 ((mem_pruned c t x).2 ⟨hx, hk⟩)),
        Classical.not_not.1 (fun hk => hn'.2 ((mem_pruned c t y).2 ⟨hy, hk⟩))⟩
  · rintro ⟨h, hx, hy⟩
    rw [if_neg]
    · exact h
    · rintro (hk | hk)
      · exact ((mem_pruned c t x).1 hk).2 hx
      · exact ((mem_pruned c t y).1 hk).2 hy

theorem prune_wf (c : CG) (hwf : c.g.WF) (t : Vtx) : (prune c t).g.WF := by
  unfold prune
  dsimp only
  exact wf_foldl_remove _ _ hwf

theorem WF_reverse {g : AGraph Vtx} (h : g.WF) : g.reverse.WF := by
  obtain ⟨h1, h2, h3⟩ := h
  refine ⟨h1, ?_, ?_⟩
  · have : g.reverse.edges.map (fun e => (e.1, e.2.1)) = (g.edges.map (fun e => (e.1, e.2.1))).map Prod.swap := by
      simp [AGraph.reverse, List.map_map, Function.comp_def]
    rw [this]
    exact List.Pairwise.map _ (fun a b hab hsw => hab (by
      have := congrArg Prod.swap hsw
      simpa using this)) h2
  · intro ed hed
    simp only [AGraph.reverse, List.mem_map] at hed
    obtain ⟨e0, he0, rfl⟩ := hed
    exact ⟨(h3 e0 he0).2, (h3 e0 he0).1⟩

theorem hasEdge_iff_weight (g : AGraph Vtx) (x y : Vtx) : g.hasEdge x y = true ↔ ∃ w, g.weight x y = some w := by
  unfold AGraph.hasEdge
  rw [Option.isSome_iff_exists]

/-- a vertex that hangs off the root (and is not the root) is kept -/
theorem kept_of_root_edge (c : CG) (hwf : c.g.WF) (hroot : Vtx.root ∈ c.g.verts) (t x : Vtx)
    (hx : c.g.hasEdge x .root = true) : Kept c t x := by
  by_cases hxr : x = .root
  · exact Or.inl hxr
  · right
    have := (C20.dfs_exact c.g.reverse (WF_reverse hwf) (fun v => if v = t then .skip else .descend) .root
      hroot (by intro w _; split <;> simp)).2.2 x
    rw [this]
    exact ⟨hxr, .root, .start, (ReachSound.hasEdge_reverse _ _ _).2 hx⟩

/-- a dependent of a kept vertex other than the target is kept -/
theorem kept_of_edge (c : CG) (hwf : c.g.WF) (hroot : Vtx.root ∈ c.g.verts) (t x y : Vtx)
    (hx : c.g.hasEdge x .root = true) (hxt : x ≠ t) (hy : c.g.hasEdge y x = true) : Kept c t y := by
  by_cases hyr : y = .root
  · exact Or.inl hyr
  · right
    have := (C20.dfs_exact c.g.reverse (WF_reverse hwf) (fun v => if v = t then .skip else .descend) .root
      hroot (by intro w _; split <;> simp)).2.2 y
    rw [this]
    by_cases hxr : x = .root
    · subst hxr
      exact ⟨hyr, .root, .start, (ReachSound.hasEdge_reverse _ _ _).2 hy⟩
    · refine ⟨hyr, x, .step .start ((ReachSound.hasEdge_reverse _ _ _).2 hx) hxr ?_,
        (ReachSound.hasEdge_reverse _ _ _).2 hy⟩
      rw [if_neg hxt]


/-! ### the store written by `inputsGraph` -/

/-- the step of the four loops of `inputsGraph` -/
def inStep {β : Type} (vtx : β → Vtx) (val : β → Val) (acc : CG × List Vtx) (p : β) : CG × List Vtx :=
  (((acc.1.addValued (vtx p) (val p)).edge (vtx p) .root weightNormal), acc.2 ++ [vtx p])

theorem inStep_store {β : Type} (vtx : β → Vtx) (val : β → Val) (acc : CG × List Vtx) (p : β) (v : Vtx) :
    mapGet (inStep vtx val acc p).1.store v = if v = vtx p then some (val p) else mapGet acc.1.store v := by
  show mapGet (mapSet acc.1.store (vtx p) (val p)) v = _
  exact ReachSound.mapGet_mapSet' _ _ _ _

theorem store_fold_keep {β : Type} (vtx : β → Vtx) (val : β → Val) (v : Vtx) (x : Val) :
    ∀ (l : List β) (acc : CG × List Vtx), mapGet acc.1.store v = some x →
      (∀ q ∈ l, vtx q = v → val q = x) →
      mapGet (l.foldl (inStep vtx val) acc).1.store v = some x := by
  intro l
  induction l with
  | nil => intro acc h _; exact h
  | cons a l ih =>
    intro acc h hl
    rw [List.foldl_cons]
    apply ih
    · rw [inStep_store]
      split
      · rename_i hv
        rw [hl a List.mem_cons_self hv.symm]
      · exact h
    · intro q hq; exact hl q (List.mem_cons_of_mem _ hq)

theorem store_fold_set {β : Type} (vtx : β → Vtx) (val : β → Val) (p : β) :
    ∀ (l : List β) (acc : CG × List Vtx), p ∈ l →
      (∀ q ∈ l, vtx q = vtx p → val q = val p) →
      mapGet (l.foldl (inStep vtx val) acc).1.store (vtx p) = some (val p) := by
  intro l
  induction l with
  | nil => intro acc h; cases h
  | cons a l ih =>
    intro acc hp hl
    rw [List.foldl_cons]
    by_cases hpl : p ∈ l
    · exact ih _ hpl (fun q hq => hl q (List.mem_cons_of_mem _ hq))
    · have : p = a := by
        rcases List.mem_cons.1 hp with h | h
        · exact h
        · exact absurd h hpl
      subst this
      apply store_fold_keep
      · rw [inStep_store, if_pos rfl]
      · intro q hq; exact hl q (List.mem_cons_of_mem _ hq)

theorem inputsGraph_eq (c : CG) (b : Builder) :
    inputsGraph c b =
      b.typedSub.foldl (inStep (fun p => Vtx.out p.1.1 p.1.2) (fun p => p.2))
        (b.typed.foldl (inStep (fun p => Vtx.out p.1 "") (fun p => p.2))
          (b.namedSub.foldl (inStep (fun p => Vtx.value p.1.1 p.2.ty p.1.2) (fun p => p.2))
            (b.named.foldl (inStep (fun p => Vtx.value p.1 p.2.ty "") (fun p => p.2)) (c, [])))) := rfl

/-- the named maps of a builder as the options produce them -/
structure NamedOK (b : Builder) : Prop where
  named_nodup : (b.named.map (·.1)).Nodup
  namedSub_nodup : (b.namedSub.map (·.1)).Nodup
  namedSub_sub : ∀ p ∈ b.namedSub, p.1.2 ≠ ""

theorem store_named (c : CG) (b : Builder) (hb : NamedOK b) (n : String) (x : Val) (h : (n, x) ∈ b.named) :
    mapGet (inputsGraph c b).1.store (.value n x.ty "") = some x := by
  rw [inputsGraph_eq]
  apply store_fold_keep
  · apply store_fold_keep
    · apply store_fold_keep
      · exact store_fold_set (fun p : String × Val => Vtx.value p.1 p.2.ty "") (fun p => p.2) (n, x) _ _ h
          (by
            intro q hq hv
            simp only [Vtx.value.injEq] at hv
            have : (n, q.2) ∈ b.named := by rw [← hv.1]; exact hq
            exact nodup_keys_unique hb.named_nodup this h)
      · intro q hq hv
        simp only [Vtx.value.injEq] at hv
        exact absurd hv.2.2 (hb.namedSub_sub q hq)
    · intro q hq hv; cases hv
  · intro q hq hv; cases hv

theorem store_namedSub (c : CG) (b : Builder) (hb : NamedOK b) (n s : String) (x : Val)
    (h : ((n, s), x) ∈ b.namedSub) :
    mapGet (inputsGraph c b).1.store (.value n x.ty s) = some x := by
  rw [inputsGraph_eq]
  apply store_fold_keep
  · apply store_fold_keep
    · exact store_fold_set (fun p : (String × String) × Val => Vtx.value p.1.1 p.2.ty p.1.2) (fun p => p.2)
        ((n, s), x) _ _ h
        (by
          intro q hq hv
          simp only [Vtx.value.injEq] at hv
          have : ((n, s), q.2) ∈ b.namedSub := by
            have : q = ((n, s), q.2) := by
              obtain ⟨⟨a, b'⟩, c'⟩ := q
              simp only at hv ⊢
              rw [hv.1, hv.2.2]
            rw [← this]; exact hq
          exact nodup_keys_unique hb.namedSub_nodup this h)
    · intro q hq hv; cases hv
  · intro q hq hv; cases hv


/-! ### edges that are certainly there -/

/-- after a fold, the effect `P · x` of the step on each element `x` of the list is still there -/
theorem foldl_effect {σ β : Type} (step : σ → β → σ) (P : σ → β → Prop)
    (h1 : ∀ c x, P (step c x) x) (h2 : ∀ c x y, P c x → P (step c y) x) :
    ∀ (l : List β) (c : σ), ∀ x ∈ l, P (l.foldl step c) x := by
  intro l
  induction l with
  | nil => intro c x hx; cases hx
  | cons a l ih =>
    intro c x hx
    rw [List.foldl_cons]
    by_cases hxl : x ∈ l
    · exact ih _ x hxl
    · have : x = a := by
        rcases List.mem_cons.1 hx with h | h
        · exact h
        · exact absurd h hxl
      subst this
      have : ∀ (l : List β) (c : σ), P c x → P (l.foldl step c) x := by
        intro l
        induction l with
        | nil => intro c h; exact h
        | cons b l ih2 => intro c h; exact ih2 _ (h2 c x b h)
      exact this l _ (h1 c x)

theorem hasEdge_addEdge_self (g : AGraph Vtx) (u v : Vtx) (w : Int) : (g.addEdge u v w).hasEdge u v = true :=
  (CGE.hasEdge_addEdge _ _ _ _ _ _).2 (Or.inl ⟨rfl, rfl⟩)

theorem hasEdge_addEdge_mono (g : AGraph Vtx) (u v : Vtx) (w : Int) {x y : Vtx} (h : g.hasEdge x y = true) :
    (g.addEdge u v w).hasEdge x y = true :=
  (CGE.hasEdge_addEdge _ _ _ _ _ _).2 (Or.inr h)

/-- `funcGraph` without outputs creates the requirement edges of the function -/
theorem funcGraph_req_edge (c : CG) (f : FuncDesc) (v : SVal) (hv : v ∈ f.input.values) :
    (funcGraph c f false).g.hasEdge (.func f.key) v.lab.vertex = true := by
  unfold funcGraph
  dsimp only
  rw [if_pos (by rfl)]
  refine foldl_effect _ (fun (c : CG) (v : SVal) => c.g.hasEdge (.func f.key) v.lab.vertex = true) ?_ ?_
    f.input.values _ v hv
  · intro c x
    unfold Label.vertex
    split
    · exact hasEdge_addEdge_self _ _ _ _
    · exact hasEdge_addEdge_self _ _ _ _
  · intro c x y h
    split
    · refine hasEdge_addEdge_mono _ _ _ _ ?_
      show (c.g.add _).hasEdge _ _ = true
      rw [CGE.hasEdge_add]; exact h
    · refine hasEdge_addEdge_mono _ _ _ _ ?_
      show (c.g.add _).hasEdge _ _ = true
      rw [CGE.hasEdge_add]; exact h

theorem inStep_hasEdge_mono {β : Type} (vtx : β → Vtx) (val : β → Val) (acc : CG × List Vtx) (p : β) {x y : Vtx}
    (h : acc.1.g.hasEdge x y = true) : (inStep vtx val acc p).1.g.hasEdge x y = true := by
  show ((acc.1.g.add (vtx p)).addEdge (vtx p) .root weightNormal).hasEdge x y = true
  refine hasEdge_addEdge_mono _ _ _ _ ?_
  rw [CGE.hasEdge_add]; exact h

theorem inStep_fold_hasEdge_mono {β : Type} (vtx : β → Vtx) (val : β → Val) {x y : Vtx} :
    ∀ (l : List β) (acc : CG × List Vtx), acc.1.g.hasEdge x y = true →
      (l.foldl (inStep vtx val) acc).1.g.hasEdge x y = true := by
  intro l
  induction l with
  | nil => intro acc h; exact h
  | cons a l ih => intro acc h; exact ih _ (inStep_hasEdge_mono vtx val acc a h)

theorem inStep_fold_edge {β : Type} (vtx : β → Vtx) (val : β → Val) (l : List β) (acc : CG × List Vtx)
    (p : β) (hp : p ∈ l) : (l.foldl (inStep vtx val) acc).1.g.hasEdge (vtx p) .root = true :=
  foldl_effect (inStep vtx val) (fun acc p => acc.1.g.hasEdge (vtx p) .root = true)
    (fun c x => hasEdge_addEdge_self _ _ _ _) (fun c x y h => inStep_hasEdge_mono vtx val c y h) l acc p hp

/-- every supplied value's vertex hangs off the root -/
theorem inputsGraph_root_edge (c : CG) (b : Builder) (v : Vtx) (hv : v ∈ inputVerts b) :
    (inputsGraph c b).1.g.hasEdge v .root = true := by
  rw [inputsGraph_eq]
  unfold inputVerts at hv
  simp only [List.mem_append, List.mem_map] at hv
  rcases hv with ((⟨p, hp, rfl⟩ | ⟨p, hp, rfl⟩) | ⟨p, hp, rfl⟩) | ⟨p, hp, rfl⟩
  · exact inStep_fold_hasEdge_mono _ _ _ _ (inStep_fold_hasEdge_mono _ _ _ _ (inStep_fold_hasEdge_mono _ _ _ _
      (inStep_fold_edge (fun p : String × Val => Vtx.value p.1 p.2.ty "") (fun p => p.2) _ _ p hp)))
  · exact inStep_fold_hasEdge_mono _ _ _ _ (inStep_fold_hasEdge_mono _ _ _ _
      (inStep_fold_edge (fun p : (String × String) × Val => Vtx.value p.1.1 p.2.ty p.1.2) (fun p => p.2) _ _ p hp))
  · exact inStep_fold_hasEdge_mono _ _ _ _
      (inStep_fold_edge (fun p : Nat × Val => Vtx.out p.1 "") (fun p => p.2) _ _ p hp)
  · exact inStep_fold_edge (fun p : (Nat × String) × Val => Vtx.out p.1.1 p.1.2) (fun p => p.2) _ _ p hp

theorem inputVerts_kind {b : Builder} {x : Vtx} (h : x ∈ inputVerts b) : x.isValue = true ∨ x.isOut = true := by
  unfold inputVerts at h
  simp only [List.mem_append, List.mem_map] at h
  rcases h with ((⟨p, hp, rfl⟩ | ⟨p, hp, rfl⟩) | ⟨p, hp, rfl⟩) | ⟨p, hp, rfl⟩
  · exact Or.inl rfl
  · exact Or.inl rfl
  · exact Or.inr rfl
  · exact Or.inr rfl


/-! ### `reach` when every requirement already holds a value -/

theorem mapGet_am0 (s : CallSt) (x : Vtx) : ∀ (l : List Vtx),
    mapGet (l.filterMap (fun v => if v == Vtx.root then none else (s.get v).map (fun y => (v, y)))) x =
      if x ∈ l ∧ x ≠ Vtx.root then s.get x else none := by
  intro l
  induction l with
  | nil => simp [mapGet]
  | cons a l ih =>
    rw [List.filterMap_cons]
    by_cases har : a = Vtx.root
    · subst har
      simp only [beq_self_eq_true, if_true]
      rw [ih]
      by_cases hx : x = Vtx.root
      · simp [hx]
      · have : (x ∈ Vtx.root :: l ∧ x ≠ Vtx.root) ↔ (x ∈ l ∧ x ≠ Vtx.root) := by
          simp [hx]
        simp only [this]
    · have hbeq : (a == Vtx.root) = false := by simpa using har
      simp only [hbeq]
      cases hg : s.get a with
      | none =>
        simp only [Option.map_none, Bool.false_eq_true, if_false]
        rw [ih]
        by_cases hxa : x = a
        · subst hxa
          simp [hg]
        · have : (x ∈ a :: l ∧ x ≠ Vtx.root) ↔ (x ∈ l ∧ x ≠ Vtx.root) := by
            simp [hxa]
          simp only [this]
      | some y =>
        simp only [Option.map_some, Bool.false_eq_true, if_false]
        by_cases hxa : x = a
        · subst hxa
          simp [mapGet, hg, har]
        · have h1 : mapGet ((a, y) :: l.filterMap (fun v => if v == Vtx.root then none
              else (s.get v).map (fun y => (v, y)))) x =
              mapGet (l.filterMap (fun v => if v == Vtx.root then none else (s.get v).map (fun y => (v, y)))) x := by
            unfold mapGet
            rw [List.find?_cons]
            have : decide (a = x) = false := by simpa using fun h => hxa h.symm
            simp only [this]
          rw [h1, ih]
          have : (x ∈ a :: l ∧ x ≠ Vtx.root) ↔ (x ∈ l ∧ x ≠ Vtx.root) := by
            simp [hxa]
          simp only [this]

theorem reach_all_present (c : Ctx) (hsr : c.skipRecordsInput = false) (hauto : c.auto = false)
    (n : Nat) (reaching : List Vtx) (t : Vtx) (s : CallSt)
    (hall : ∀ v ∈ c.g.outs t, (v == Vtx.root || takenAsIs c s v) = true) :
    (∃ w, (reach c false (n + 1) reaching t s).1 = .error (.badOracle w)) ∨
    ∃ rest,
      reach c false (n + 1) reaching t s =
        (.ok ((c.g.outs t).filterMap (fun v => if v == Vtx.root then none else (s.get v).map (fun x => (v, x)))),
         { s with orc := rest }) := by
  unfold reach
  dsimp only
  have hskip : (c.g.outs t).filter (fun v => v == Vtx.root || takenAsIs c s v) = c.g.outs t :=
    List.filter_eq_self.2 hall
  have hmiss : (c.g.outs t).filter (fun v => !(v == Vtx.root || takenAsIs c s v)) = [] := by
    rw [List.filter_eq_nil_iff]
    intro v hv
    simp [hall v hv]
  rw [hskip, hmiss, hsr, hauto]
  simp only [Bool.false_eq_true, if_false]
  cases horc : s.orc with
  | nil => exact Or.inl ⟨_, rfl⟩
  | cons item rest =>
    dsimp only
    split
    · exact Or.inl ⟨_, rfl⟩
    · split
      · exact Or.inl ⟨_, rfl⟩
      · exact Or.inr ⟨rest, rfl⟩

/-! ### `callDirect` when every argument is there -/

theorem gStep_fold_ok (e : TypeEnv) (am : ArgMap) : ∀ (vals : List SVal) (l : List PVal),
    (∀ v ∈ vals, ∃ a, mapGet am v.lab.vertex = some a ∧ e.assignable a.ty v.lab.ty = true) →
    vals.foldl (ReachSound.gStep e am) (.ok l) = .ok (l ++ vals.map (ReachSound.argOf am)) := by
  intro vals
  induction vals with
  | nil => intro l _; simp
  | cons v vs ih =>
    intro l h
    obtain ⟨a, ha1, ha2⟩ := h v List.mem_cons_self
    rw [List.foldl_cons]
    have : ReachSound.gStep e am (.ok l) v = .ok (l ++ [{ ty := v.lab.ty, id := a.id, org := a.org }]) := by
      simp [ReachSound.gStep, ha1, ha2]
    rw [this, ih _ (fun v' hv' => h v' (List.mem_cons_of_mem _ hv'))]
    simp [ReachSound.argOf, ha1]

theorem gatherArgs_ok (e : TypeEnv) (f : FuncDesc) (am : ArgMap)
    (h : ∀ v ∈ f.input.values, ∃ a, mapGet am v.lab.vertex = some a ∧ e.assignable a.ty v.lab.ty = true) :
    gatherArgs e f am = .ok (f.input.values.map (ReachSound.argOf am)) := by
  rw [ReachSound.gatherArgs_eq, gStep_fold_ok e am _ _ h]
  simp

theorem callDirect_ok (c : Ctx) (f : FuncDesc) (am : ArgMap) (s : CallSt) (args : List PVal)
    (hm : mapGet s.memo f.id = none) (hga : gatherArgs c.env f am = .ok args) :
    ∃ r u s2, callDirect c f am s = (.ok (r, u), s2) ∧
      s2.log = s.log ++ [{ fid := f.id, nth := countOf s f.id, args := args, params := f.input.labels,
                           res := c.beh f.id (countOf s f.id) args }] := by
  unfold callDirect
  have : (if f.once = true then mapGet s.memo f.id else none) = none := by
    split
    · exact hm
    · rfl
  rw [this]
  dsimp only
  rw [hga]
  dsimp only
  refine ⟨_, _, _, rfl, ?_⟩
  split <;> rfl


/-! ### exact matches (copies of the definitions of `Props/C03.lean`, which imports this file) -/

def exactValue (b : Builder) (p : Label) : Option Val :=
  if p.name ≠ "" then
    (if p.sub = "" then (mapGet b.named p.name).filter (fun v => v.ty == p.ty)
     else (mapGet b.namedSub (p.name, p.sub)).filter (fun v => v.ty == p.ty))
  else if p.sub = "" then mapGet b.typed p.ty else mapGet b.typedSub (p.ty, p.sub)

theorem mem_of_mapGet' {κ β : Type} [DecidableEq κ] {m : List (κ × β)} {k : κ} {v : β}
    (h : mapGet m k = some v) : (k, v) ∈ m := by
  unfold mapGet at h
  rw [Option.map_eq_some_iff] at h
  obtain ⟨p, hp, rfl⟩ := h
  have h1 := List.find?_some hp
  have h2 := List.mem_of_find?_eq_some hp
  simp only [decide_eq_true_eq] at h1
  rw [← h1]
  exact h2

theorem initSt_get (cg : CG) (memo : List (Nat × Memo)) (orc : List OrcItem) (x : Vtx) :
    (initSt cg memo orc).get x = (mapGet cg.store x).map (fun v => { ty := v.ty, id := v.id, org := x }) := by
  unfold initSt CallSt.get mapGet
  dsimp only
  induction cg.store with
  | nil => rfl
  | cons a l ih =>
    rw [List.map_cons, List.find?_cons, List.find?_cons]
    dsimp only
    by_cases h : a.1 = x
    · subst h; simp
    · have : decide (a.1 = x) = false := by simpa using h
      simp only [this]
      exact ih

/-- a named parameter with an exactly matching supplied value: the value sits at the parameter's vertex -/
theorem exact_named_store (c : CG) (b : Builder) (hb : NamedOK b) (p : Label) (hn : p.name ≠ "") (val : Val)
    (h : exactValue b p = some val) :
    mapGet (inputsGraph c b).1.store p.vertex = some val ∧ val.ty = p.ty ∧ p.vertex ∈ inputVerts b ∧
      p.vertex = .value p.name p.ty p.sub := by
  unfold exactValue at h
  rw [if_pos hn] at h
  have hv : p.vertex = .value p.name p.ty p.sub := by unfold Label.vertex; rw [if_pos hn]
  rw [hv]
  split at h
  · rename_i hs
    rw [Option.filter_eq_some_iff] at h
    obtain ⟨h1, h2⟩ := h
    have hty : val.ty = p.ty := by simpa using h2
    have hmem := mem_of_mapGet' h1
    refine ⟨?_, hty, ?_, rfl⟩
    · rw [hs, ← hty]; exact store_named c b hb _ _ hmem
    · rw [hs, ← hty]; exact mem_inputVerts_named hmem
  · rename_i hs
    rw [Option.filter_eq_some_iff] at h
    obtain ⟨h1, h2⟩ := h
    have hty : val.ty = p.ty := by simpa using h2
    have hmem := mem_of_mapGet' h1
    refine ⟨?_, hty, ?_, rfl⟩
    · rw [← hty]; exact store_namedSub c b hb _ _ _ hmem
    · rw [← hty]; exact mem_inputVerts_namedSub (p := ((p.name, p.sub), val)) hmem

theorem rule_from_func {fs : List FuncDesc} {ins : List Vtx} {k : Nat} {y : Vtx} {w : Int}
    (h : WRule fs ins (.func k) y w) :
    (y = .root ∧ w = weightNormal) ∨
    (∃ f ∈ fs, f.key = k ∧ ∃ v ∈ f.input.values, y = v.lab.vertex ∧
      w = if v.lab.name ≠ "" then weightNormal else weightTyped) := by
  generalize hx : Vtx.func k = x at h
  cases h with
  | funcRoot f hf => exact Or.inl ⟨rfl, rfl⟩
  | funcNamed f v hf hv hn =>
    cases hx
    exact Or.inr ⟨f, hf, rfl, v, hv, by unfold Label.vertex; rw [if_pos hn], by rw [if_pos hn]⟩
  | funcTyped f v hf hv hn =>
    cases hx
    exact Or.inr ⟨f, hf, rfl, v, hv, by unfold Label.vertex; rw [if_neg (by simpa using hn)],
      by rw [if_neg (by simpa using hn)]⟩
  | inputRoot x hxi => exact Or.inl ⟨rfl, rfl⟩
  | namedOut => cases hx
  | typedOut => cases hx
  | valueOut => cases hx
  | argValue => cases hx
  | argOut => cases hx
  | outOut => cases hx
  | valueValue => cases hx
  | argOutSub => cases hx

theorem mem_outs_iff_hasEdge (g : AGraph Vtx) (u x : Vtx) : x ∈ g.outs u ↔ g.hasEdge u x = true :=
  (TraverseDfs.hasEdge_iff_mem_outs g u x).symm

theorem assignable_refl (e : TypeEnv) (t : Nat) : e.assignable t t = true := by
  simp [TypeEnv.assignable]

section
variable (e : TypeEnv) (b : Builder) (funcs : Nat → Option FuncDesc) (target : FuncDesc)

/-- the pruned graph -/
def fin : CG := prune (pre e b funcs target) (.func target.key)

theorem fin_store : (fin e b funcs target).store = (c2 b target).store := by
  unfold fin
  rw [store_prune, pre_store]

/-- out-edges of the target vertex in the pruned graph, when same-typed functions have the same inputs -/
theorem fin_target_outs
    (hsame : ∀ f ∈ C01.allFuncs b funcs target, f.key = target.key → f.input = target.input)
    (y : Vtx) (hy : (fin e b funcs target).g.hasEdge (.func target.key) y = true) :
    y = .root ∨ ∃ v ∈ target.input.values, y = v.lab.vertex := by
  obtain ⟨w, hw⟩ := (hasEdge_iff_weight _ _ _).1 hy
  unfold fin at hw
  rw [prune_weight _ (pre_wf e b funcs target)] at hw
  rcases rule_from_func (pre_rule e b funcs target _ _ _ hw.1) with h | ⟨f, hf, hk, v, hv, hyv, _⟩
  · exact Or.inl h.1
  · rw [hsame f hf hk] at hv
    exact Or.inr ⟨v, hv, hyv⟩

theorem c1_target_outs (y : Vtx) (hy : y ∈ (c1 target).g.outs (.func target.key)) :
    y = .root ∨ ∃ v ∈ target.input.values, y = v.lab.vertex := by
  have hb : Built (WRule [target] []) c0.g (c1 target).g :=
    built_funcGraph c0 target false (by simp) root_mem_c0
  obtain ⟨w, hw⟩ := (hasEdge_iff_weight _ _ _).1 ((mem_outs_iff_hasEdge _ _ _).1 hy)
  rcases rule_from_func (hb.rule (c0_rule _) _ _ _ hw) with h | ⟨f, hf, hk, v, hv, hyv, _⟩
  · exact Or.inl h.1
  · simp only [List.mem_singleton] at hf
    subst hf
    exact Or.inr ⟨v, hv, hyv⟩

/-- a parameter vertex that hangs off the root survives pruning, together with the target and the
edge between them -/
theorem param_kept (v : SVal) (hv : v ∈ target.input.values)
    (hroot : (c2 b target).g.hasEdge v.lab.vertex .root = true) :
    (fin e b funcs target).g.hasEdge (.func target.key) v.lab.vertex = true ∧
    v.lab.vertex ∈ (fin e b funcs target).g.verts := by
  have hwf := pre_wf e b funcs target
  have hr := pre_root e b funcs target
  have h1 : (pre e b funcs target).g.hasEdge (.func target.key) v.lab.vertex = true :=
    (built_pre_c1 e b funcs target).hasEdge (funcGraph_req_edge c0 target v hv)
  have h2 : (pre e b funcs target).g.hasEdge v.lab.vertex .root = true :=
    (built_pre_c2 e b funcs target).hasEdge hroot
  have hne : v.lab.vertex ≠ .func target.key := by
    unfold Label.vertex; split <;> exact fun h => by cases h
  have k1 : Kept (pre e b funcs target) (.func target.key) v.lab.vertex := kept_of_root_edge _ hwf hr _ _ h2
  have k2 : Kept (pre e b funcs target) (.func target.key) (.func target.key) :=
    kept_of_edge _ hwf hr _ _ _ h2 hne h1
  obtain ⟨w, hw⟩ := (hasEdge_iff_weight _ _ _).1 h1
  refine ⟨(hasEdge_iff_weight _ _ _).2 ⟨w, ?_⟩, ?_⟩
  · unfold fin
    rw [prune_weight _ hwf]
    exact ⟨hw, k2, k1⟩
  · unfold fin
    rw [prune_verts]
    exact ⟨(weight_of_mem_verts hwf hw).2, k1⟩

theorem fin_root : Vtx.root ∈ (fin e b funcs target).g.verts := by
  unfold fin
  rw [prune_verts]
  exact ⟨pre_root e b funcs target, Or.inl rfl⟩

end


/-! ### C03, named parameters -/

/-- the dynamic part: every requirement of the target is a value vertex that already holds a value -/
theorem call_all_present (c : Ctx) (cgr : CallGraphResult) (target : FuncDesc) (s0 : CallSt) (n : Nat)
    (hsr : c.skipRecordsInput = false) (hauto : c.auto = false) (htv : c.takeValuedNamed = true)
    (hunsat : cgr.unsat = []) (htgt : cgr.target = .func target.key)
    (hm : mapGet s0.memo target.id = none) (hlog : s0.log = [])
    (ids : SVal → Option Nat)
    (houts : ∀ y ∈ c.g.outs (.func target.key), y = .root ∨ ∃ v ∈ target.input.values, y = v.lab.vertex)
    (hpar : ∀ v ∈ target.input.values, (∃ nm t st, v.lab.vertex = .value nm t st) ∧
      v.lab.vertex ∈ c.g.outs (.func target.key) ∧
      ∃ a, s0.get v.lab.vertex = some a ∧ a.ty = v.lab.ty ∧ some a.id = ids v) :
    (∃ w, (callWith c cgr target (n + 1) s0).1 = .badOracle w) ∨
    (∃ ev, (callWith c cgr target (n + 1) s0).2.log = [ev] ∧ ev.fid = target.id ∧
      ev.args.map (fun a => some a.id) = target.input.values.map ids) := by
  have hall : ∀ y ∈ c.g.outs (.func target.key), (y == Vtx.root || takenAsIs c s0 y) = true := by
    intro y hy
    rcases houts y hy with rfl | ⟨v, hv, rfl⟩
    · rfl
    · obtain ⟨⟨nm, t, st, hvx⟩, _, a, hget, _, _⟩ := hpar v hv
      rw [hvx] at hget ⊢
      simp [takenAsIs, hget, htv]
  have hreach := reach_all_present c hsr hauto n [] (.func target.key) s0 hall
  unfold callWith
  rw [hunsat, htgt]
  simp only [List.isEmpty_nil, Bool.not_true, Bool.false_eq_true, if_false]
  rcases hreach with ⟨w, hw⟩ | ⟨rest, hre⟩
  · left
    rcases hres : reach c false (n + 1) [] (.func target.key) s0 with ⟨res, s'⟩
    rw [hres] at hw
    dsimp only at hw
    subst hw
    exact ⟨w, rfl⟩
  · right
    rw [hre]
    dsimp only
    have hlook : ∀ v ∈ target.input.values, ∃ a,
        mapGet ((c.g.outs (.func target.key)).filterMap (fun v => if v == Vtx.root then none
          else (s0.get v).map (fun x => (v, x)))) v.lab.vertex = some a ∧ a.ty = v.lab.ty ∧ some a.id = ids v := by
      intro v hv
      obtain ⟨⟨nm, t, st, hvx⟩, hmem, a, hget, hty, hid⟩ := hpar v hv
      refine ⟨a, ?_, hty, hid⟩
      rw [mapGet_am0, if_pos, hget]
      exact ⟨hmem, by rw [hvx]; exact fun h => by cases h⟩
    have hga := gatherArgs_ok c.env target
      ((c.g.outs (.func target.key)).filterMap (fun v => if v == Vtx.root then none
        else (s0.get v).map (fun x => (v, x))))
      (by
        intro v hv
        obtain ⟨a, h1, h2, _⟩ := hlook v hv
        exact ⟨a, h1, by rw [h2]; exact assignable_refl _ _⟩)
    obtain ⟨res, u, s2, hcd, hlog2⟩ := callDirect_ok c target _ { s0 with orc := rest } _ hm hga
    rw [hcd]
    dsimp only
    have hl2 : ∃ ev : ExecEv, s2.log = [ev] ∧ ev.fid = target.id ∧
        ev.args = target.input.values.map (ReachSound.argOf ((c.g.outs (.func target.key)).filterMap
            (fun v => if v == Vtx.root then none else (s0.get v).map (fun x => (v, x))))) := by
      refine ⟨?ev, ?h1, ?h2, ?h3⟩
      case h1 =>
        rw [hlog2]
        show s0.log ++ _ = _
        rw [hlog]
        rfl
      case h2 => rfl
      case h3 => rfl
    obtain ⟨ev, hev1, hev2, hev3⟩ := hl2
    refine ⟨ev, ?_, hev2, ?_⟩
    · split <;> exact hev1
    · rw [hev3, List.map_map]
      apply List.map_congr_left
      intro v hv
      obtain ⟨a, h1, _, h3⟩ := hlook v hv
      simp only [Function.comp]
      unfold ReachSound.argOf
      rw [h1]
      exact h3

theorem stdCtx_g (e : TypeEnv) (b : Builder) (funcs : Nat → Option FuncDesc) (target : FuncDesc)
    (beh : Nat → Nat → List PVal → BehOut) : (C01.stdCtx e b funcs target beh).g = (fin e b funcs target).g := by
  unfold C01.stdCtx
  dsimp only
  rw [callGraph_cg]
  rfl

theorem exact_wins_named_aux (e : TypeEnv) (b : Builder) (funcs : Nat → Option FuncDesc) (target : FuncDesc)
    (hb : NamedOK b)
    (hsame : ∀ f ∈ C01.allFuncs b funcs target, f.key = target.key → f.input = target.input)
    (hnamed : ∀ p ∈ target.input.labels, p.name ≠ "")
    (hex : ∀ p ∈ target.input.labels, (exactValue b p).isSome = true)
    (beh : Nat → Nat → List PVal → BehOut) (fuel : Nat) (hfuel : 0 < fuel)
    (memo : List (Nat × Memo)) (orc : List OrcItem) (hm : mapGet memo target.id = none) :
    let r := callWith (C01.stdCtx e b funcs target beh) (callGraph {} e b funcs target false none) target fuel
              (initSt (callGraph {} e b funcs target false none).cg memo orc)
    (∃ w, r.1 = .badOracle w) ∨
    (∃ ev, r.2.log = [ev] ∧ ev.fid = target.id ∧
      ev.args.map (fun a => some a.id) = target.input.labels.map (fun p => (exactValue b p).map (·.id))) := by
  intro r
  -- per-parameter facts
  have hpar : ∀ v ∈ target.input.values, ∃ val, exactValue b v.lab = some val ∧
      v.lab.vertex = .value v.lab.name v.lab.ty v.lab.sub ∧
      (fin e b funcs target).g.hasEdge (.func target.key) v.lab.vertex = true ∧
      v.lab.vertex ∈ (fin e b funcs target).g.verts ∧
      (initSt (fin e b funcs target) memo orc).get v.lab.vertex =
        some { ty := v.lab.ty, id := val.id, org := v.lab.vertex } := by
    intro v hv
    have hl : v.lab ∈ target.input.labels := List.mem_map.2 ⟨v, hv, rfl⟩
    obtain ⟨val, hval⟩ := Option.isSome_iff_exists.1 (hex _ hl)
    obtain ⟨h1, h2, h3, h4⟩ := exact_named_store (c1 target) b hb v.lab (hnamed _ hl) val hval
    obtain ⟨k1, k2⟩ := param_kept e b funcs target v hv (inputsGraph_root_edge _ _ _ h3)
    refine ⟨val, hval, h4, k1, k2, ?_⟩
    rw [initSt_get, fin_store]
    show Option.map _ (mapGet (inputsGraph (c1 target) b).1.store v.lab.vertex) = _
    rw [h1, Option.map_some, h2]
  -- nothing is unsatisfiable
  have hunsat : (callGraph {} e b funcs target false none).unsat = [] := by
    rw [callGraph_unsat]
    rw [List.map_eq_nil_iff, List.filter_eq_nil_iff]
    intro y hy
    have : (fin e b funcs target).g.hasVertex y = true := by
      unfold AGraph.hasVertex
      rw [decide_eq_true_eq]
      rcases c1_target_outs target y hy with rfl | ⟨v, hv, rfl⟩
      · exact fin_root e b funcs target
      · obtain ⟨_, _, _, _, h, _⟩ := hpar v hv
        exact h
    unfold fin at this
    rw [this]; simp
  obtain ⟨n, rfl⟩ : ∃ n, fuel = n + 1 := ⟨fuel - 1, by omega⟩
  have hmain := call_all_present (C01.stdCtx e b funcs target beh) (callGraph {} e b funcs target false none)
    target (initSt (callGraph {} e b funcs target false none).cg memo orc) n rfl rfl rfl hunsat
    (callGraph_target e b funcs target) hm rfl (fun v => (exactValue b v.lab).map (·.id))
    (by
      intro y hy
      rw [stdCtx_g, mem_outs_iff_hasEdge] at hy
      exact fin_target_outs e b funcs target hsame y hy)
    (by
      intro v hv
      obtain ⟨val, hval, hvx, hedge, _, hget⟩ := hpar v hv
      refine ⟨⟨_, _, _, hvx⟩, ?_, { ty := v.lab.ty, id := val.id, org := v.lab.vertex }, ?_, rfl, ?_⟩
      · rw [stdCtx_g, mem_outs_iff_hasEdge]; exact hedge
      · rw [callGraph_cg]; exact hget
      · rw [hval]; rfl)
  rw [ValueSet.labels, List.map_map]
  exact hmain


/-! ### builders produced by `build` are well formed -/

/-- typed entries are keyed by the dynamic type of the value they hold -/
structure TypedOK (b : Builder) : Prop where
  typed_ty : ∀ p ∈ b.typed, p.2.ty = p.1
  typedSub_ty : ∀ p ∈ b.typedSub, p.2.ty = p.1.1

theorem mapSet_keys_nodup {κ β : Type} [DecidableEq κ] (m : List (κ × β)) (k : κ) (v : β)
    (h : (m.map (·.1)).Nodup) : ((mapSet m k v).map (·.1)).Nodup := by
  unfold mapSet
  rw [List.map_append, List.nodup_append]
  refine ⟨(List.filter_sublist.map _).nodup h, by simp, ?_⟩
  intro a ha b hb
  simp only [List.map_cons, List.map_nil, List.mem_singleton] at hb
  subst hb
  rw [List.mem_map] at ha
  obtain ⟨p, hp, rfl⟩ := ha
  have := (List.mem_filter.1 hp).2
  simpa using this

theorem mem_mapSet {κ β : Type} [DecidableEq κ] {m : List (κ × β)} {k : κ} {v : β} {p : κ × β}
    (h : p ∈ mapSet m k v) : p ∈ m ∨ p = (k, v) := by
  unfold mapSet at h
  rw [List.mem_append] at h
  rcases h with h | h
  · exact Or.inl (List.mem_filter.1 h).1
  · exact Or.inr (by simpa using h)

def BOK (b : Builder) : Prop := NamedOK b ∧ TypedOK b

theorem BOK_congr {b b' : Builder} (h : BOK b) (h1 : b'.named = b.named) (h2 : b'.namedSub = b.namedSub)
    (h3 : b'.typed = b.typed) (h4 : b'.typedSub = b.typedSub) : BOK b' :=
  ⟨⟨by rw [h1]; exact h.1.named_nodup, by rw [h2]; exact h.1.namedSub_nodup, by rw [h2]; exact h.1.namedSub_sub⟩,
   ⟨by rw [h3]; exact h.2.typed_ty, by rw [h4]; exact h.2.typedSub_ty⟩⟩

theorem BOK_empty : BOK Builder.empty :=
  ⟨⟨by simp [Builder.empty], by simp [Builder.empty], by simp [Builder.empty]⟩,
   ⟨by simp [Builder.empty], by simp [Builder.empty]⟩⟩

theorem BOK_setTyped (b : Builder) (v : Option Val) (h : BOK b) : BOK (setTyped b v) := by
  unfold setTyped
  split
  · exact h
  · rename_i x
    refine ⟨⟨h.1.named_nodup, h.1.namedSub_nodup, h.1.namedSub_sub⟩, ⟨?_, h.2.typedSub_ty⟩⟩
    intro p hp
    rcases mem_mapSet hp with hp | rfl
    · exact h.2.typed_ty p hp
    · rfl

theorem BOK_setTypedSub (b : Builder) (v : Option Val) (st : String) (h : BOK b) : BOK (setTypedSub b v st) := by
  unfold setTypedSub
  split
  · exact BOK_setTyped b v h
  · split
    · exact h
    · rename_i x
      refine ⟨⟨h.1.named_nodup, h.1.namedSub_nodup, h.1.namedSub_sub⟩, ⟨h.2.typed_ty, ?_⟩⟩
      intro p hp
      rcases mem_mapSet hp with hp | rfl
      · exact h.2.typedSub_ty p hp
      · rfl

theorem BOK_setNamed (b : Builder) (n : String) (v : Option Val) (h : BOK b) : BOK (setNamed b n v) := by
  unfold setNamed
  split
  · exact BOK_setTyped b v h
  · split
    · exact h
    · rename_i x
      exact ⟨⟨mapSet_keys_nodup _ _ _ h.1.named_nodup, h.1.namedSub_nodup, h.1.namedSub_sub⟩,
        ⟨h.2.typed_ty, h.2.typedSub_ty⟩⟩

theorem BOK_setNamedSub (b : Builder) (n : String) (v : Option Val) (st : String) (h : BOK b) :
    BOK (setNamedSub b n v st) := by
  unfold setNamedSub
  split
  · exact BOK_setTypedSub b v st h
  · split
    · exact BOK_setNamed b n v h
    · rename_i hst
      split
      · exact h
      · rename_i x
        refine ⟨⟨h.1.named_nodup, mapSet_keys_nodup _ _ _ h.1.namedSub_nodup, ?_⟩,
          ⟨h.2.typed_ty, h.2.typedSub_ty⟩⟩
        intro p hp
        rcases mem_mapSet hp with hp | rfl
        · exact h.1.namedSub_sub p hp
        · exact hst

theorem BOK_addConvs (fs : List (Option Nat)) : ∀ (b : Builder), BOK b → BOK (addConvs b fs) := by
  induction fs with
  | nil => intro b h; exact h
  | cons f fs ih =>
    intro b h
    cases f with
    | none => exact BOK_congr h rfl rfl rfl rfl
    | some f => exact ih _ (BOK_congr h rfl rfl rfl rfl)

theorem BOK_applyOpt (b : Builder) (o : Opt) (h : BOK b) : BOK (applyOpt b o) := by
  cases o with
  | named n v => exact BOK_setNamed b n v h
  | namedSub n v st => exact BOK_setNamedSub b n v st h
  | typed vs =>
    show BOK (vs.foldl setTyped b)
    exact CGE.foldl_inv' BOK setTyped (fun b v hb => BOK_setTyped b v hb) vs b h
  | typedSub v st => exact BOK_setTypedSub b v st h
  | convFunc fs => exact BOK_congr h rfl rfl rfl rfl
  | conv fs => exact BOK_addConvs fs b h
  | gen k => exact BOK_congr h rfl rfl rfl rfl
  | filterIn k => exact BOK_congr h rfl rfl rfl rfl
  | filterOut k => exact BOK_congr h rfl rfl rfl rfl
  | funcOnce => exact BOK_congr h rfl rfl rfl rfl
  | other => exact h
  | nilOpt => exact h

theorem BOK_buildFrom : ∀ (opts : List Opt) (b b' : Builder), BOK b →
    (buildFrom b opts = .ok b' ∨ buildFrom b opts = .optErr b') → BOK b' := by
  intro opts
  induction opts with
  | nil =>
    intro b b' h hb
    unfold buildFrom at hb
    split at hb
    · rcases hb with hb | hb
      · cases hb; exact h
      · cases hb
    · rcases hb with hb | hb
      · cases hb
      · cases hb; exact h
  | cons o opts ih =>
    intro b b' h hb
    cases o <;> first
      | (unfold buildFrom at hb; rcases hb with hb | hb <;> cases hb)
      | (unfold buildFrom at hb; exact ih _ _ (BOK_applyOpt b _ h) hb)

/-- every builder `newArgBuilder` returns (with or without an option error) is well formed -/
theorem build_BOK (opts : List Opt) (b : Builder) (h : build opts = .ok b ∨ build opts = .optErr b) : BOK b :=
  BOK_buildFrom opts _ _ BOK_empty h

end ArgMapper.ExactWins
