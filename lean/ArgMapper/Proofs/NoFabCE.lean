import ArgMapper.Model.Hist
import ArgMapper.Props.C01b
/-!
# Counterexamples to the original statements of `C01.no_fabrication_call` / `C01.no_fabrication_hist`

One scenario, three variations.  Types `A = 1`, `C = 3`; target `func(C)` (object 0), converter
`func(A) C` (object 1), `Typed(A{…})` supplied with provenance id `10`; the only path to the target's
parameter runs through the converter.

* `convBad`: the converter's output set is not one `newFunc` builds — its typed lookup map points to a value
  with struct index 5, which is not in its value list.  `resultField` finds no entry and writes the zero value
  (id `0`): the target receives an id nobody supplied or returned, although every body returns one id per
  output value (`BehFull`).
* a run-once converter whose cell (state `h`) holds a result with *no* ids: `resultField` falls back to
  the zero value again.  `BehFull` speaks about the bodies of this call only, not about what is in the cells.
* the same cell, produced by an earlier call of a history whose bodies returned too few ids.

With the good converter, an empty cell table and full bodies the target receives the converter's output
(`good_log`: the hypotheses of the corrected theorems are satisfiable and the log is not empty).
-/
namespace ArgMapper.NoFabCE
open ArgMapper

def e0 : TypeEnv := ⟨fun _ => false, fun _ _ => false⟩
def tv (t i : Nat) : SVal := ⟨⟨"", t, ""⟩, i⟩

/-- the lifted sets of `(C)` and `(A)` -/
def setC : ValueSet := ⟨true, 0, [tv 3 0], [], [(3, tv 3 0)], true⟩
def setA : ValueSet := ⟨true, 0, [tv 1 0], [], [(1, tv 1 0)], true⟩
/-- not a set of the real code: the typed map holds a value (index 5) that is not in the value list -/
def badC : ValueSet := ⟨true, 0, [tv 3 0], [], [(3, tv 3 5)], true⟩

def tgt : FuncDesc := ⟨0, 0, setC, ValueSet.nil, false, false⟩
def conv (once : Bool) : FuncDesc := ⟨1, 1, setA, setC, false, once⟩
def convBad : FuncDesc := ⟨1, 1, setA, badC, false, false⟩

def funcs (f : FuncDesc) : Nat → Option FuncDesc := fun i => if i = 1 then some f else none
def b : Builder := { Builder.empty with typed := [(1, ⟨1, 10⟩)], convs := [1] }

/-- one id per output value: the converter returns `[7]`, the target nothing -/
def behFull : Nat → Nat → List PVal → BehOut := fun i _ _ => if i = 1 then ⟨[7], none⟩ else ⟨[], none⟩
/-- too few: nobody returns anything -/
def behShort : Nat → Nat → List PVal → BehOut := fun _ _ _ => ⟨[], none⟩

def orc : List OrcItem :=
  [⟨.func 0, [.arg 3 ""], [[.root, .out 1 "", .arg 1 "", .func 1, .out 3 "", .arg 3 ""]]⟩,
   ⟨.func 1, [], []⟩]

def ctx (f : FuncDesc) (beh : Nat → Nat → List PVal → BehOut) : Ctx := C01.stdCtx e0 b (funcs f) tgt beh
def cgr (f : FuncDesc) : CallGraphResult := callGraph {} e0 b (funcs f) tgt false none

theorem funcOf_mem (f g : FuncDesc) (beh : Nat → Nat → List PVal → BehOut) (k : Nat)
    (h : (ctx f beh).funcOf k = some g) : g = tgt ∨ g = f := by
  have hm := List.mem_of_find?_eq_some h
  have hl : C01.allFuncs b (funcs f) tgt = [tgt, f] := rfl
  rw [hl] at hm
  simpa using hm

/-- the supplied ids -/
theorem supplied : (cgr (conv true)).cg.store.map (fun p => p.2.id) = [10] ∧
    (cgr convBad).cg.store.map (fun p => p.2.id) = [10] := by
  decide

/-! ### 1. an output set whose lookup map is not backed by its value list -/

/-- the conclusion of `no_fabrication_call` fails for the call with `convBad` (fresh function objects) -/
theorem bad_set_fabricates :
    ¬ ∀ ev ∈ (histCall (ctx convBad behFull) (cgr convBad) tgt 5 {} orc).2.log, ∀ a ∈ ev.args,
      a.id ∈ (cgr convBad).cg.store.map (fun p => p.2.id) ∨
      (∃ p ∈ ({} : HistState).memo, a.id ∈ p.2.res.outs) ∨
      ∃ ev' ∈ (histCall (ctx convBad behFull) (cgr convBad) tgt 5 {} orc).2.log, a.id ∈ ev'.res.outs := by
  decide

/-! ### 2. a run-once cell that holds too few ids -/

def hShort : HistState := { memo := [(1, ⟨⟨[], none⟩, false⟩)] }

theorem short_cell_fabricates :
    ¬ ∀ ev ∈ (histCall (ctx (conv true) behFull) (cgr (conv true)) tgt 5 hShort orc).2.log, ∀ a ∈ ev.args,
      a.id ∈ (cgr (conv true)).cg.store.map (fun p => p.2.id) ∨
      (∃ p ∈ hShort.memo, a.id ∈ p.2.res.outs) ∨
      ∃ ev' ∈ (histCall (ctx (conv true) behFull) (cgr (conv true)) tgt 5 hShort orc).2.log,
        a.id ∈ ev'.res.outs := by
  decide

/-! ### 3. the same cell, left by an earlier call whose bodies returned too few ids -/

def pre : List HistOp := [.call (ctx (conv true) behShort) (cgr (conv true)) tgt orc]

/-- the log of the observations of a history (as `C01.histLog`) -/
def obsLog (obs : List HistObs) : List ExecEv :=
  obs.flatMap (fun o => match o with | .call _ l => l | .redef _ => [])

theorem short_history_fabricates :
    ¬ ∀ ev ∈ (histCall (ctx (conv true) behFull) (cgr (conv true)) tgt 5 (runHist 5 {} pre).1 orc).2.log,
      ∀ a ∈ ev.args,
      a.id ∈ (cgr (conv true)).cg.store.map (fun p => p.2.id) ∨
      ∃ ev' ∈ obsLog (runHist 5 {} pre).2 ++
          (histCall (ctx (conv true) behFull) (cgr (conv true)) tgt 5 (runHist 5 {} pre).1 orc).2.log,
        a.id ∈ ev'.res.outs := by
  decide

/-! ### the good scenario -/

theorem good_log :
    ((histCall (ctx (conv true) behFull) (cgr (conv true)) tgt 5 {} orc).2.log.map (fun ev => ev.args.map (·.id)))
      = [[10], [7]] := by
  decide

end ArgMapper.NoFabCE
