import ArgMapper.Proofs.CompleteStatic
import ArgMapper.Proofs.RedefineInputs
import ArgMapper.Proofs.RedefComplete
/-!
# The Redefine graph of a subtype-free scenario satisfies `RedefC.FactsR` (helper lemmas for C08b, static part)

* rule R8 (`phaseR8`) only adds edges `value / arg → root` between present vertices (`ext_phaseR8`) and adds
  one for every candidate that passes the filter and was not supplied as a typed value (`phaseR8_new`);
* `VP`: a property of every value vertex carried through the construction — here "no subtype, and the name
  and type of a label of the scenario" (`pre_valueVerts`);
* the Redefine graph is `prune (phaseR8 (ExactWins.pre …))`: its edges are edges of the `Call` graph before
  pruning or R8 edges (`finR_edge`), which gives `factsR`;
* every permitted parameter survives pruning (`unsat_nil`);
* the declared inputs have pairwise distinct field names (`fieldsOK_declared`);
* `redefine_succeeds`: the planning run ends in success, or the oracle does not fit.
-/
set_option linter.unusedSectionVars false
set_option linter.unusedVariables false
namespace ArgMapper.RedefC
open ArgMapper Generated

/-! ### rule R8 -/

/-- the edges R8 adds -/
def R8R : Vtx → Vtx → Prop := fun u v => v = .root ∧ (u.isValue = true ∨ u.isArg = true)

def r8Step (e : TypeEnv) (filter : Option Filter) (sk : Bool) (c : CG) (v : Vtx) : CG :=
  if sk && v.isArg && (c.valueOf (.out v.ty v.sub)).isSome then c
  else match filter with
    | some f => if f.eval e v.ty then c.edge v .root weightNormal else c
    | none => c.edge v .root weightNormal

theorem phaseR8_eq (e : TypeEnv) (filter : Option Filter) (sk : Bool) (c : CG) :
    phaseR8 e filter sk c = (c.g.verts.filter (fun v => v.isValue || v.isArg)).foldl (r8Step e filter sk) c := by
  unfold phaseR8
  congr 1
  funext c v
  unfold r8Step
  split
  · rfl
  · cases filter <;> rfl

theorem r8Step_cases (e : TypeEnv) (filter : Option Filter) (sk : Bool) (c : CG) (v : Vtx) :
    r8Step e filter sk c v = c ∨ r8Step e filter sk c v = c.edge v .root weightNormal := by
  unfold r8Step
  split
  · exact Or.inl rfl
  · split
    · split
      · exact Or.inr rfl
      · exact Or.inl rfl
    · exact Or.inr rfl

theorem r8Step_verts (e : TypeEnv) (filter : Option Filter) (sk : Bool) (c : CG) (v : Vtx) :
    (r8Step e filter sk c v).g.verts = c.g.verts ∧ (r8Step e filter sk c v).store = c.store := by
  rcases r8Step_cases e filter sk c v with h | h <;> rw [h] <;> exact ⟨rfl, rfl⟩

theorem phaseR8_verts (e : TypeEnv) (filter : Option Filter) (sk : Bool) (c : CG) :
    (phaseR8 e filter sk c).g.verts = c.g.verts ∧ (phaseR8 e filter sk c).store = c.store := by
  rw [phaseR8_eq]
  apply CGE.foldl_inv' (fun c' : CG => c'.g.verts = c.g.verts ∧ c'.store = c.store)
  · intro c' v hc'
    obtain ⟨h1, h2⟩ := r8Step_verts e filter sk c' v
    exact ⟨h1.trans hc'.1, h2.trans hc'.2⟩
  · exact ⟨rfl, rfl⟩

theorem ext_phaseR8 (e : TypeEnv) (filter : Option Filter) (sk : Bool) (c : CG) (hroot : Vtx.root ∈ c.g.verts) :
    Prune.Ext R8R c (phaseR8 e filter sk c) := by
  rw [phaseR8_eq]
  apply Prune.Ext.foldl' (R := R8R) _ c
  intro c' v hv hc'
  rw [List.mem_filter] at hv
  rcases r8Step_cases e filter sk c' v with h | h <;> rw [h]
  · exact .refl _
  · refine .edge _ _ _ (.refl _) (hc'.verts hv.1) (hc'.verts hroot) ⟨rfl, ?_⟩
    simpa using hv.2

/-- a candidate that passes the filter hangs off the root after R8 -/
theorem phaseR8_new (e : TypeEnv) (filter : Option Filter) (c : CG) (x : Vtx) (hx : x ∈ c.g.verts)
    (hk : (x.isValue || x.isArg) = true)
    (hns : (x.isArg && (c.valueOf (.out x.ty x.sub)).isSome) = false)
    (hp : RedefineInputs.passesF e filter x.ty = true) :
    (phaseR8 e filter true c).g.hasEdge x .root = true := by
  rw [phaseR8_eq]
  have := ExactWins.foldl_effect (r8Step e filter true)
    (fun (c' : CG) (x : Vtx) => c'.store = c.store → (x.isArg && (c.valueOf (.out x.ty x.sub)).isSome) = false →
      RedefineInputs.passesF e filter x.ty = true → c'.g.hasEdge x .root = true)
    (by
      intro c' x hst hns hp
      have hst' : c'.store = c.store := (r8Step_verts e filter true c' x).2.symm.trans hst
      unfold r8Step
      have : (c'.valueOf (.out x.ty x.sub)) = (c.valueOf (.out x.ty x.sub)) := by
        unfold CG.valueOf; rw [hst']
      rw [this]
      simp only [Bool.true_and, hns, Bool.false_eq_true, if_false]
      unfold RedefineInputs.passesF at hp
      split
      · rw [if_pos hp]; exact ExactWins.hasEdge_addEdge_self _ _ _ _
      · exact ExactWins.hasEdge_addEdge_self _ _ _ _)
    (by
      intro c' x y h hst hns hp
      have hst' : c'.store = c.store := (r8Step_verts e filter true c' y).2.symm.trans hst
      have h' := h hst' hns hp
      rcases r8Step_cases e filter true c' y with h2 | h2 <;> rw [h2]
      · exact h'
      · exact ExactWins.hasEdge_addEdge_mono _ _ _ _ h')
    (c.g.verts.filter (fun v => v.isValue || v.isArg)) c x (List.mem_filter.2 ⟨hx, hk⟩)
  refine this ?_ hns hp
  have := (phaseR8_verts e filter true c).2
  rw [phaseR8_eq] at this
  exact this


/-! ### a property of every value vertex, carried through the construction -/

section VP
variable (P : Vtx → Prop)

/-- every value vertex satisfies `P` -/
def VP (c : CG) : Prop := ∀ v ∈ c.g.verts, v.isValue = true → P v

variable {P}

theorem vp_add {c : CG} (v : Vtx) (h : VP P c) (hv : v.isValue = true → P v) : VP P (c.add v) := by
  intro x hx
  have hx' : x ∈ (c.g.add v).verts := hx
  rcases (AGraph.mem_add_verts _ _ _).1 hx' with h' | h'
  · exact h x h'
  · subst h'; exact hv

theorem vp_edge {c : CG} (u v : Vtx) (w : Int) (h : VP P c) : VP P (c.edge u v w) := h

theorem vp_addValued {c : CG} (v : Vtx) (x : Val) (h : VP P c) (hv : v.isValue = true → P v) :
    VP P (c.addValued v x) := by
  intro y hy
  have hy' : y ∈ (c.g.add v).verts := hy
  rcases (AGraph.mem_add_verts _ _ _).1 hy' with h' | h'
  · exact h y h'
  · subst h'; exact hv

theorem vp_funcGraph {c : CG} (f : FuncDesc) (io : Bool) (h : VP P c)
    (hin : ∀ val ∈ f.input.values, val.lab.name ≠ "" → P (.value val.lab.name val.lab.ty val.lab.sub))
    (hout : io = true → ∀ p ∈ f.output.named, P (.value p.1 p.2.lab.ty p.2.lab.sub)) : VP P (funcGraph c f io) := by
  unfold funcGraph
  dsimp only
  have h1 : VP P (c.add (Vtx.func f.key)) := vp_add _ h (fun h => by cases h)
  have h2 : VP P (if f.input.empty = true then (c.add (Vtx.func f.key)).edge (Vtx.func f.key) .root weightNormal
      else c.add (Vtx.func f.key)) := by
    split
    · exact vp_edge _ _ _ h1
    · exact h1
  have h3 := CGE.foldl_inv (VP P) (fun val => val ∈ f.input.values) (fun (c : CG) (val : SVal) =>
      if val.lab.name ≠ "" then
        (c.add (.value val.lab.name val.lab.ty val.lab.sub)).edge (Vtx.func f.key)
          (.value val.lab.name val.lab.ty val.lab.sub) weightNormal
      else
        (c.add (.arg val.lab.ty val.lab.sub)).edge (Vtx.func f.key) (.arg val.lab.ty val.lab.sub) weightTyped)
    (by
      intro c val hval hc
      split
      · next hn => exact vp_edge _ _ _ (vp_add _ hc (fun _ => hin val hval hn))
      · exact vp_edge _ _ _ (vp_add _ hc (fun h => by cases h)))
    f.input.values _ (fun _ hx => hx) h2
  split
  · exact h3
  · next hio =>
    have hio' : io = true := by simpa using hio
    apply CGE.foldl_inv' (VP P)
    · intro c p hc
      exact vp_edge _ _ _ (vp_add _ hc (fun h => by cases h))
    · apply CGE.foldl_inv (VP P) (fun p => p ∈ f.output.named)
      · intro c p hp hc
        exact vp_edge _ _ _ (vp_add _ hc (fun _ => hout hio' p hp))
      · exact fun _ hx => hx
      · exact h3

theorem vp_inputsCG (c : CG) (b : Builder) (h : VP P c) (hin : ∀ u ∈ Prune.inputsList b, u.isValue = true → P u) :
    VP P (Prune.inputsCG c b) := by
  rw [Prune.inputsCG_eq]
  rw [Prune.inputsList_eq] at hin
  apply CGE.foldl_inv (VP P) (fun vx => vx ∈ Prune.inputsPairs b)
  · intro c vx hvx hc
    exact vp_edge _ _ _ (vp_addValued _ _ hc (hin _ (List.mem_map.2 ⟨vx, hvx, rfl⟩)))
  · exact fun _ hx => hx
  · exact h

theorem vp_phaseR3 {c : CG} (h : VP P c) : VP P (phaseR3 c) := by
  unfold phaseR3
  apply CGE.foldl_inv' (VP P)
  · intro c v hc
    dsimp only
    have h2 : VP P ((((c.add (.out v.ty "")).edge v (.out v.ty "") weightTyped).add (.arg v.ty "")).edge
        (.arg v.ty "") v weightTyped) :=
      vp_edge _ _ _ (vp_add _ (vp_edge _ _ _ (vp_add _ hc (fun h => by cases h))) (fun h => by cases h))
    split
    · exact vp_edge _ _ _ (vp_add _ h2 (fun h => by cases h))
    · exact h2
  · exact h

theorem vp_phaseR4 {c : CG} (h : VP P c) : VP P (phaseR4 c) := by
  unfold phaseR4
  apply CGE.foldl_inv' (VP P)
  · intro c v hc; exact vp_edge _ _ _ (vp_add _ hc (fun h => by cases h))
  · exact h

theorem vp_nested {c : CG} (p : Vtx → Bool) (q : Vtx → Vtx → Bool) (w : Int) (h : VP P c) :
    VP P ((c.g.verts.filter p).foldl (fun c v =>
      (c.g.verts.filter (q v)).foldl (fun c v2 => c.edge v v2 w) c) c) := by
  apply CGE.foldl_inv' (VP P)
  · intro c v hc
    apply CGE.foldl_inv' (VP P)
    · intro c v2 hc; exact hc
    · exact hc
  · exact h

theorem vp_phaseR5 {e : TypeEnv} {sk : Bool} {c : CG} (h : VP P c) : VP P (phaseR5 e sk c) := by
  unfold phaseR5
  exact vp_nested _ (fun v v2 => v2.isOut && decide (v2 ≠ v) && e.impl v2.ty v.ty && !(sk && v2.ty == v.ty)) _ h

theorem vp_phaseR6 {nt : Bool} {c : CG} (h : VP P c) : VP P (phaseR6 nt c) := by
  unfold phaseR6
  exact vp_nested _ (fun v v2 => v2.isValue && v2.ty == v.ty && v2.sub != "" && !(nt && v2.name != v.name)) _ h

theorem vp_phaseR7 {c : CG} (h : VP P c) : VP P (phaseR7 c) := by
  unfold phaseR7
  dsimp only
  exact vp_nested _ (fun v v2 => v2.isOut && v2.ty == v.ty && v2.sub == "") _
    (vp_nested _ (fun v v2 => v2.isOut && v2.ty == v.ty && v2.sub != "") _ h)

/-- the graph after the converters, before the rule phases -/
def preC (b : Builder) (funcs : Nat → Option FuncDesc) (target : FuncDesc) : CG :=
  b.convs.foldl (Prune.convStep funcs) (Prune.inputsCG (Prune.base target) b)

theorem vp_preC (b : Builder) (funcs : Nat → Option FuncDesc) (target : FuncDesc)
    (hin : ∀ u ∈ Prune.inputsList b, u.isValue = true → P u)
    (hpar : ∀ f ∈ C01.allFuncs b funcs target, ∀ val ∈ f.input.values, val.lab.name ≠ "" →
      P (.value val.lab.name val.lab.ty val.lab.sub))
    (hres : ∀ f ∈ b.convs.filterMap funcs, ∀ p ∈ f.output.named, P (.value p.1 p.2.lab.ty p.2.lab.sub)) :
    VP P (preC b funcs target) := by
  unfold preC
  refine CGE.foldl_inv (VP P) (fun fid => fid ∈ b.convs) (Prune.convStep funcs) ?_ _ _ (fun _ hx => hx) ?_
  · intro c fid hfid hc
    unfold Prune.convStep
    split
    · next f hf =>
      have hmem : f ∈ b.convs.filterMap funcs := List.mem_filterMap.2 ⟨fid, hfid, hf⟩
      exact vp_funcGraph _ _ hc (hpar f (List.mem_cons_of_mem _ hmem)) (fun _ => hres f hmem)
    · exact hc
  · refine vp_inputsCG _ _ ?_ hin
    unfold Prune.base
    refine vp_funcGraph _ _ ?_ (hpar target (by simp [C01.allFuncs])) (fun h => by cases h)
    refine vp_add (P := P) (c := CG.empty) Vtx.root ?_ (fun h => by cases h)
    intro v hv
    simp [CG.empty, AGraph.empty] at hv

/-- every value vertex of `Prune.pre` is the vertex of a supplied named value, of a named parameter or of a
named result of a converter -/
theorem vp_pre (e : TypeEnv) (b : Builder) (funcs : Nat → Option FuncDesc) (target : FuncDesc)
    (hin : ∀ u ∈ Prune.inputsList b, u.isValue = true → P u)
    (hpar : ∀ f ∈ C01.allFuncs b funcs target, ∀ val ∈ f.input.values, val.lab.name ≠ "" →
      P (.value val.lab.name val.lab.ty val.lab.sub))
    (hres : ∀ f ∈ b.convs.filterMap funcs, ∀ p ∈ f.output.named, P (.value p.1 p.2.lab.ty p.2.lab.sub)) :
    VP P (Prune.pre e b funcs target) := by
  have h := vp_preC b funcs target hin hpar hres
  unfold preC at h
  unfold Prune.pre
  exact vp_phaseR7 (vp_phaseR6 (vp_phaseR5 (vp_phaseR4 (vp_phaseR3 h))))

end VP


/-! ### the Redefine graph -/

section
variable (e : TypeEnv) (fin : Option Filter) (b : Builder) (funcs : Nat → Option FuncDesc) (target : FuncDesc)

/-- the graph before pruning: the `Call` graph before pruning plus the R8 edges -/
def preR : CG := phaseR8 e fin true (ExactWins.pre e b funcs target)

/-- the pruned Redefine graph -/
def finR : CG := prune (preR e fin b funcs target) (.func target.key)

theorem callGraph_cg : (callGraph {} e b funcs target true fin).cg = finR e fin b funcs target := by
  unfold callGraph finR preR ExactWins.pre ExactWins.c3 ExactWins.c2 ExactWins.c1 ExactWins.c0
  simp only [if_true]
  rfl

theorem callGraph_unsat :
    (callGraph {} e b funcs target true fin).unsat =
      (((ExactWins.c1 target).g.outs (.func target.key)).filter (fun r =>
        !(finR e fin b funcs target).g.hasVertex r)).map Vtx.label := by
  unfold callGraph finR preR ExactWins.pre ExactWins.c3 ExactWins.c2 ExactWins.c1 ExactWins.c0
  simp only [if_true]
  rfl

theorem callGraph_inputs : (callGraph {} e b funcs target true fin).inputs = ExactWins.inputVerts b := by
  unfold callGraph
  dsimp only
  rw [Prune.inputsGraph_eq]
  rfl

theorem callGraph_target : (callGraph {} e b funcs target true fin).target = .func target.key := rfl

theorem pre_eq : Prune.pre e b funcs target = ExactWins.pre e b funcs target := by
  unfold Prune.pre ExactWins.pre ExactWins.c3 ExactWins.c2 ExactWins.c1 ExactWins.c0 Prune.base
  rw [Prune.inputsGraph_eq (funcGraph (CG.empty.add .root) target false) b]
  rfl

theorem ext_preR : Prune.Ext R8R (ExactWins.pre e b funcs target) (preR e fin b funcs target) :=
  ext_phaseR8 e fin true _ (ExactWins.pre_root e b funcs target)

theorem preR_wf : (preR e fin b funcs target).g.WF := (ext_preR e fin b funcs target).wf (ExactWins.pre_wf e b funcs target)

theorem preR_root : Vtx.root ∈ (preR e fin b funcs target).g.verts :=
  (ext_preR e fin b funcs target).verts (ExactWins.pre_root e b funcs target)

theorem finR_wf : (finR e fin b funcs target).g.WF := ExactWins.prune_wf _ (preR_wf e fin b funcs target) _

/-- an edge of the Redefine graph is an edge of the `Call` graph before pruning or an R8 edge -/
theorem finR_edge {x y : Vtx} (h : (finR e fin b funcs target).g.hasEdge x y = true) :
    (ExactWins.pre e b funcs target).g.hasEdge x y = true ∨ R8R x y :=
  (ext_preR e fin b funcs target).edge_inv (Complete.hasEdge_prune _ _ _ _ h)

theorem finR_verts {x : Vtx} (h : x ∈ (finR e fin b funcs target).g.verts) :
    x ∈ (ExactWins.pre e b funcs target).g.verts := by
  unfold finR at h
  rw [ExactWins.prune_verts] at h
  have := h.1
  unfold preR at this
  rw [(phaseR8_verts e fin true _).1] at this
  exact this

theorem finR_store : (finR e fin b funcs target).store = (ExactWins.c2 b target).store := by
  unfold finR preR
  rw [ExactWins.store_prune, (phaseR8_verts e fin true _).2, ExactWins.pre_store]

theorem ginv_pre : CGF.GInv (b.convs.filterMap funcs) (ExactWins.pre e b funcs target) := by
  unfold ExactWins.pre ExactWins.c3 ExactWins.c2 ExactWins.c1 ExactWins.c0
  have h0 : CGF.GInv (b.convs.filterMap funcs)
      (inputsGraph (funcGraph (CG.empty.add .root) target false) b).1 :=
    CGF.ginv_inputsGraph b (CGF.ginv_funcGraph target false (by simp) (CGF.ginv_add _ (CGF.ginv_empty _)))
  have h1 := CGE.foldl_inv (CGF.GInv (b.convs.filterMap funcs)) (fun fid => fid ∈ b.convs)
    (fun (c : CG) (fid : Nat) => match funcs fid with
      | some f => funcGraph c f true
      | none => c)
    (by
      intro c fid hfid hc
      split
      · next f hf =>
        exact CGF.ginv_funcGraph _ _ (fun _ => List.mem_filterMap.2 ⟨fid, hfid, hf⟩) hc
      · exact hc)
    b.convs _ (fun _ hx => hx) h0
  exact CGF.ginv_phaseR7 (CGF.ginv_phaseR6 (CGF.ginv_phaseR5 (CGF.ginv_phaseR4 (CGF.ginv_phaseR3 h1))))

end


/-! ### the labels of a scenario and its value vertices -/

/-- the labels of the scenario: supplied named values, parameters, results -/
def nameLabels (b : Builder) (fs : List FuncDesc) : List Label :=
  b.named.map (fun p => { name := p.1, ty := p.2.ty, sub := "" }) ++
    fs.flatMap (fun f => f.input.labels ++ f.output.labels)

/-- a value vertex without subtype that carries the name and type of a label of the scenario -/
def PV (b : Builder) (fs : List FuncDesc) (v : Vtx) : Prop :=
  v.sub = "" ∧ ∃ l ∈ nameLabels b fs, l.name = v.name ∧ l.ty = v.ty

open Complete in
theorem pre_valueVerts {e : TypeEnv} {b : Builder} {funcs : Nat → Option FuncDesc} {target : FuncDesc}
    (H : Hyps e b funcs target) :
    VP (PV b (C01.allFuncs b funcs target)) (ExactWins.pre e b funcs target) := by
  rw [← pre_eq]
  apply vp_pre
  · intro u hu hv
    simp only [Prune.inputsList, H.nsub, H.tsub, List.map_nil, List.append_nil, List.mem_append, List.mem_map] at hu
    rcases hu with ⟨p, hp, rfl⟩ | ⟨p, hp, rfl⟩
    · refine ⟨rfl, { name := p.1, ty := p.2.ty, sub := "" }, ?_, rfl, rfl⟩
      unfold nameLabels
      exact List.mem_append_left _ (List.mem_map.2 ⟨p, hp, rfl⟩)
    · cases hv
  · intro f hf val hval _
    have hl : val.lab ∈ f.input.labels := List.mem_map.2 ⟨val, hval, rfl⟩
    refine ⟨(H.labs f hf).1 _ hl, val.lab, ?_, rfl, rfl⟩
    unfold nameLabels
    exact List.mem_append_right _ (List.mem_flatMap.2 ⟨f, hf, List.mem_append_left _ hl⟩)
  · intro f hf p hp
    have hfa : f ∈ C01.allFuncs b funcs target := List.mem_cons_of_mem _ hf
    obtain ⟨hmem, hkey, _⟩ := (H.cons.2 f hfa).2.1 p hp
    have hl : p.2.lab ∈ f.output.labels := List.mem_map.2 ⟨p.2, hmem, rfl⟩
    refine ⟨(H.labs f hfa).2 _ hl, p.2.lab, ?_, hkey.symm, rfl⟩
    unfold nameLabels
    exact List.mem_append_right _ (List.mem_flatMap.2 ⟨f, hfa, List.mem_append_right _ hl⟩)

/-! ### the context of the planning run and its facts -/

/-- the context the planning run of `Redefine` executes in -/
def rctx (e : TypeEnv) (b : Builder) (funcs : Nat → Option FuncDesc) (target : FuncDesc)
    (fin : Option Filter) (outCount : Nat → Nat) : Ctx :=
  { env := e, g := (callGraph {} e b funcs target true fin).cg.g,
    funcOf := fun k => (C01.allFuncs b funcs target).find? (fun f => f.key == k), beh := zeroBeh outCount }

theorem rctx_g (e : TypeEnv) (b : Builder) (funcs : Nat → Option FuncDesc) (target : FuncDesc)
    (fin : Option Filter) (outCount : Nat → Nat) :
    (rctx e b funcs target fin outCount).g = (finR e fin b funcs target).g := by
  unfold rctx
  dsimp only
  rw [callGraph_cg]

section
open Complete
variable {e : TypeEnv} {b : Builder} {funcs : Nat → Option FuncDesc} {target : FuncDesc}

theorem factsR (H : Hyps e b funcs target) (ht : ImplTrans e) (fin : Option Filter) (outCount : Nat → Nat) :
    FactsR (rctx e b funcs target fin outCount) True target.key (fun x => x ∈ ExactWins.inputVerts b) := by
  have hg : (rctx e b funcs target fin outCount).g = (finR e fin b funcs target).g := rctx_g _ _ _ _ _ _
  have hfo : ∀ k, (rctx e b funcs target fin outCount).funcOf k =
      (C01.allFuncs b funcs target).find? (fun f => f.key == k) := fun _ => rfl
  have hrule := ExactWins.pre_rule e b funcs target
  have hgin := ginv_pre e b funcs target
  have hsub := @finR_edge e fin b funcs target
  have hsame : ∀ k f0, (C01.allFuncs b funcs target).find? (fun f => f.key == k) = some f0 →
      f0 ∈ C01.allFuncs b funcs target ∧ f0.key = k ∧
      ∀ f ∈ C01.allFuncs b funcs target, f.key = k → f0.input = f.input ∧ f0.output = f.output := by
    intro k f0 h
    have hm := List.mem_of_find?_eq_some h
    have hk : f0.key = k := by simpa using List.find?_some h
    exact ⟨hm, hk, fun f hf hfk => H.cons.1 f0 hm f hf (hk.trans hfk.symm)⟩
  -- an edge from a function vertex is an edge of the `Call` graph before pruning
  have hfunc : ∀ k y, (finR e fin b funcs target).g.hasEdge (.func k) y = true →
      (ExactWins.pre e b funcs target).g.hasEdge (.func k) y = true := by
    intro k y h
    rcases hsub h with h' | ⟨_, h' | h'⟩
    · exact h'
    · cases h'
    · cases h'
  have hfroot : ∀ k, (ExactWins.pre e b funcs target).g.hasEdge (.func k) .root = true →
      ∃ f ∈ C01.allFuncs b funcs target, f.key = k ∧ f.input.empty = true := by
    intro k h
    rw [← pre_eq] at h
    exact pre_func_root e b funcs target k h
  -- an edge into a function vertex is an edge of the `Call` graph before pruning
  have hinto : ∀ x k, (finR e fin b funcs target).g.hasEdge x (.func k) = true →
      (ExactWins.pre e b funcs target).g.hasEdge x (.func k) = true := by
    intro x k h
    rcases hsub h with h' | ⟨h', _⟩
    · exact h'
    · cases h'
  refine
    { hN := fun _ _ _ _ => rfl, pub := rfl, tvn := rfl, mc := rfl, tr := rfl, sri := rfl, auto := rfl, trans := ht,
      edgeOK := ?_,
      valSub := ?_, toRoot := ?_,
      funcReq := ?_, funcKey := ?_, funcRoot := ?_, single := ?_, noTarget := ?_, outTyped := ?_ }
  · -- edgeOK
    have := C01.callGraph_edges e b funcs target true fin
    simp only [rctx]
    exact this
  · -- valSub
    intro x n t s he
    rw [hg] at he
    have hmem := (Prune.hasEdge_mem_verts _ (finR_wf e fin b funcs target) _ _ he).2
    exact (pre_valueVerts H _ (finR_verts e fin b funcs target hmem) rfl).1
  · -- toRoot
    intro x he
    rw [hg] at he
    rcases hsub he with h' | ⟨_, h' | h'⟩
    · obtain ⟨w, hw⟩ := (ExactWins.hasEdge_iff_weight _ _ _).1 h'
      rcases (ExactWins.rule_to_root (hrule _ _ _ hw)).2 with ⟨k, rfl⟩ | h
      · exact Or.inl rfl
      · exact Or.inr (Or.inl h)
    · exact Or.inr (Or.inr (Or.inl h'))
    · exact Or.inr (Or.inr (Or.inr h'))
  · -- funcReq
    intro k y he
    rw [hg] at he
    have he' := hfunc k y he
    obtain ⟨w, hw⟩ := (ExactWins.hasEdge_iff_weight _ _ _).1 he'
    rcases ExactWins.rule_from_func (hrule _ _ _ hw) with ⟨rfl, _⟩ | ⟨f, hf, hk, v, hv, hyv, _⟩
    · obtain ⟨f, hf, hk, _⟩ := hfroot k he'
      obtain ⟨f0, h0, _, _⟩ := find_key hf hk
      exact ⟨f0, by rw [hfo]; exact h0, Or.inl rfl⟩
    · obtain ⟨f0, h0, _, _⟩ := find_key hf hk
      refine ⟨f0, by rw [hfo]; exact h0, Or.inr ⟨v, ?_, hyv⟩⟩
      rw [((hsame k f0 h0).2.2 f hf hk).1]
      exact hv
  · -- funcKey
    intro k f h
    rw [hfo] at h
    exact (hsame k f h).2.1
  · -- funcRoot
    intro k f0 hk h he
    rw [hfo] at h
    rw [hg] at he
    obtain ⟨hm0, hk0, hs0⟩ := hsame k f0 h
    obtain ⟨f, hf, hfk, hemp⟩ := hfroot k (hfunc k _ he)
    rw [← (hs0 f hf hfk).1] at hemp
    have hconv := H.conv_of_ne hm0 (by rw [hk0]; exact hk)
    unfold ValueSet.empty at hemp
    cases hst : f0.input.hasStruct with
    | false => exact (H.wf f0 hconv).2 hst
    | true =>
      rw [hst] at hemp
      simpa using hemp
  · -- single
    intro k f0 hk h
    rw [hfo] at h
    obtain ⟨hm0, hk0, _⟩ := hsame k f0 h
    exact H.single f0 (H.conv_of_ne hm0 (by rw [hk0]; exact hk))
  · -- noTarget
    intro x
    rw [hg]
    cases he : (finR e fin b funcs target).g.hasEdge x (.func target.key) with
    | false => rfl
    | true =>
      obtain ⟨f, hf, hk, _⟩ := hgin x (.func target.key) (hinto x _ he)
      exact absurd hk (H.key f hf)
  · -- outTyped
    intro k f0 h v hv
    rw [hfo] at h
    obtain ⟨hm0, hk0, hs0⟩ := hsame k f0 h
    rw [hg] at hv
    obtain ⟨f, hf, hfk, hcase⟩ := hgin v (.func k) (hinto v k (CGF.hasEdge_of_mem_ins _ _ _ hv))
    have hfa : f ∈ C01.allFuncs b funcs target := List.mem_cons_of_mem _ hf
    have hout : f0.output = f.output := (hs0 f hfa hfk).2
    rcases hcase with ⟨p, hp, rfl⟩ | ⟨p, hp, rfl⟩
    · refine ⟨?_, fun t s h => (by cases h), Or.inl rfl⟩
      intro n t s hv
      injection hv with hn ht _
      refine ⟨p.2, ?_, ht⟩
      rw [hout, ← hn]
      exact mapGet_of_nodup (H.wf f hf).1 hp
    · refine ⟨fun n t s h => (by cases h), ?_, Or.inr rfl⟩
      intro t s hv
      injection hv with ht _
      have hkey := ((H.cons.2 f hfa).2.2 p hp).2.1
      have hsome := CGF.mapGet_isSome_of_mem _ _ hp
      obtain ⟨sv, hsv⟩ := Option.isSome_iff_exists.1 hsome
      refine ⟨sv, by rw [hout, ← ht, ← hkey]; exact hsv, ?_⟩
      have := ((H.cons.2 f hfa).2.2 _ (ExactWins.mem_of_mapGet' hsv)).2.1
      rw [← this, hkey, ht]

end


/-! ### every permitted parameter survives pruning -/

section
open ExactWins
variable (e : TypeEnv) (fin : Option Filter) (b : Builder) (funcs : Nat → Option FuncDesc) (target : FuncDesc)

include e funcs in
theorem store_key_input (x : Vtx) (val : Val) (h : mapGet (c2 b target).store x = some val) :
    x ∈ inputVerts b := by
  have hst : (callGraph {} e b funcs target false none).cg.store = (c2 b target).store := by
    rw [ExactWins.callGraph_cg]
    exact ExactWins.fin_store e b funcs target
  exact Refused.callGraph_store_inputs e b funcs target (x, val) (by rw [hst]; exact mem_of_mapGet' h)

theorem param_keptR (hperm : ∀ l ∈ target.input.labels, RedefineInputs.passesF e fin l.ty = true)
    (v : SVal) (hv : v ∈ target.input.values) :
    v.lab.vertex ∈ (finR e fin b funcs target).g.verts := by
  have hwf := preR_wf e fin b funcs target
  have hr := preR_root e fin b funcs target
  have hext := ext_preR e fin b funcs target
  have h1 : (pre e b funcs target).g.hasEdge (.func target.key) v.lab.vertex = true :=
    (built_pre_c1 e b funcs target).hasEdge (funcGraph_req_edge c0 target v hv)
  have hmem : v.lab.vertex ∈ (pre e b funcs target).g.verts :=
    (Prune.hasEdge_mem_verts _ (pre_wf e b funcs target) _ _ h1).2
  have hp : RedefineInputs.passesF e fin v.lab.vertex.ty = true := by
    rw [Complete.vertex_ty]
    exact hperm _ (List.mem_map.2 ⟨v, hv, rfl⟩)
  have hk : (v.lab.vertex.isValue || v.lab.vertex.isArg) = true := by
    rcases Complete.vertex_kind v.lab with h | h <;> simp [h]
  unfold finR
  rw [prune_verts]
  refine ⟨hext.verts hmem, ?_⟩
  cases hsk : (v.lab.vertex.isArg &&
      ((pre e b funcs target).valueOf (.out v.lab.vertex.ty v.lab.vertex.sub)).isSome) with
  | false =>
    exact kept_of_root_edge _ hwf hr _ _ (phaseR8_new e fin _ _ hmem hk hsk hp)
  | true =>
    simp only [Bool.and_eq_true] at hsk
    obtain ⟨harg, hsome⟩ := hsk
    obtain ⟨val, hval⟩ := Option.isSome_iff_exists.1 hsome
    unfold CG.valueOf at hval
    rw [pre_store] at hval
    have hin := store_key_input e b funcs target _ val hval
    have h2 : (pre e b funcs target).g.hasEdge (.out v.lab.vertex.ty v.lab.vertex.sub) .root = true :=
      (built_pre_c2 e b funcs target).hasEdge (inputsGraph_root_edge _ _ _ hin)
    cases hvx : v.lab.vertex with
    | arg t st =>
      rw [hvx] at hmem h2 h1
      dsimp only [Vtx.ty, Vtx.sub] at h2
      have hc1e : (c1 target).g.hasEdge (.func target.key) (.arg t st) = true := by
        rw [← hvx]; exact funcGraph_req_edge c0 target v hv
      have hc1wf : (c1 target).g.WF := (built_c1 b funcs target).wf c0_wf
      obtain ⟨w, hw⟩ := (hasEdge_iff_weight _ _ _).1 hc1e
      have hargm : Vtx.arg t st ∈ (phaseR3 (c3 b funcs target)).g.verts :=
        (built_phaseR3 (fs := C01.allFuncs b funcs target) (ins := inputVerts b) _).verts
          ((built_c3 b funcs target).verts ((built_c2 b funcs target).verts (weight_of_mem_verts hc1wf hw).2))
      have h3 : (pre e b funcs target).g.hasEdge (.arg t st) (.out t st) = true :=
        (built_pre_r4 e b funcs target).hasEdge (phaseR4_edge _ _ _ hargm)
      have k1 : Kept (preR e fin b funcs target) (.func target.key) (.out t st) :=
        kept_of_root_edge _ hwf hr _ _ (hext.edge_mono h2)
      exact kept_step _ hwf hr _ _ _ k1 (fun h => by cases h) (hext.edge_mono h3)
    | root => rw [hvx] at harg; cases harg
    | value n t st => rw [hvx] at harg; cases harg
    | out t st => rw [hvx] at harg; cases harg
    | func k => rw [hvx] at harg; cases harg

/-- every parameter of the target passes the input filter: nothing is unsatisfied -/
theorem unsat_nil (hperm : ∀ l ∈ target.input.labels, RedefineInputs.passesF e fin l.ty = true) :
    (callGraph {} e b funcs target true fin).unsat = [] := by
  rw [callGraph_unsat, List.map_eq_nil_iff, List.filter_eq_nil_iff]
  intro r hr
  have hmem : r ∈ (finR e fin b funcs target).g.verts := by
    rcases c1_target_outs target r hr with rfl | ⟨v, hv, rfl⟩
    · unfold finR
      rw [prune_verts]
      exact ⟨preR_root e fin b funcs target, Or.inl rfl⟩
    · exact param_keptR e fin b funcs target hperm v hv
  simp [AGraph.hasVertex, hmem]

end


/-! ### the declared inputs have distinct field names -/

theorem nodup_filterMap_of_injOn {α β : Type} (g : α → Option β) (L : List α) (hL : L.Nodup)
    (hinj : ∀ a ∈ L, ∀ b ∈ L, ∀ x, g a = some x → g b = some x → a = b) : (L.filterMap g).Nodup := by
  induction L with
  | nil => simp
  | cons a L ih =>
    rw [List.nodup_cons] at hL
    have ih' := ih hL.2 (fun a' ha' b' hb' x h1 h2 =>
      hinj a' (List.mem_cons_of_mem _ ha') b' (List.mem_cons_of_mem _ hb') x h1 h2)
    rw [List.filterMap_cons]
    cases hga : g a with
    | none => exact ih'
    | some x =>
      dsimp only
      rw [List.nodup_cons]
      refine ⟨?_, ih'⟩
      intro hx
      rw [List.mem_filterMap] at hx
      obtain ⟨b', hb', hgb⟩ := hx
      have := hinj a List.mem_cons_self b' (List.mem_cons_of_mem _ hb') x hga hgb
      rw [this] at hL
      exact hL.1 hb'

/-- the struct field name a used input vertex contributes -/
def fieldOf : Vtx → Option String
  | .value n _ _ => if n != "" then some (upper n) else none
  | _ => none

theorem declared_fields (I prov : List Vtx) :
    (((declaredInputs I prov).filter (fun l => l.name != "")).map (fun l => upper l.name)) =
      (I.filter (fun v => !decide (v ∈ prov))).filterMap fieldOf := by
  unfold declaredInputs
  generalize I.filter (fun v => !decide (v ∈ prov)) = L
  induction L with
  | nil => rfl
  | cons a L ih =>
    cases a with
    | value n t s =>
      rw [List.filterMap_cons, List.filterMap_cons]
      dsimp only [fieldOf]
      rw [List.filter_cons]
      dsimp only
      split
      · rw [List.map_cons, ih]
      · exact ih
    | arg t s =>
      rw [List.filterMap_cons, List.filterMap_cons]
      dsimp only [fieldOf]
      rw [List.filter_cons]
      have : (("" : String) != "") = false := by decide
      simp only [this, Bool.false_eq_true, if_false]
      exact ih
    | root => rw [List.filterMap_cons, List.filterMap_cons]; exact ih
    | out t s => rw [List.filterMap_cons, List.filterMap_cons]; exact ih
    | func k => rw [List.filterMap_cons, List.filterMap_cons]; exact ih

/-- each name denotes a single type -/
def NamesSingle (ls : List Label) : Prop :=
  ∀ l₁ ∈ ls, ∀ l₂ ∈ ls, l₁.name ≠ "" → upper l₁.name = upper l₂.name → l₁.name = l₂.name ∧ l₁.ty = l₂.ty

theorem fieldsOK_declared (b : Builder) (fs : List FuncDesc) (I prov : List Vtx) (hnd : I.Nodup)
    (hI : ∀ v ∈ I, v.isValue = true → PV b fs v) (hnames : NamesSingle (nameLabels b fs)) :
    fieldsOK (declaredInputs I prov) = true := by
  unfold fieldsOK
  rw [declared_fields]
  simp only [decide_eq_true_eq]
  apply nodup_filterMap_of_injOn
  · exact hnd.filter _
  · intro a ha b' hb' x h1 h2
    have ha' := (List.mem_filter.1 ha).1
    have hb'' := (List.mem_filter.1 hb').1
    cases a with
    | value n t s =>
      cases b' with
      | value n' t' s' =>
        obtain ⟨hs, l, hl, hln, hlt⟩ := hI _ ha' rfl
        obtain ⟨hs', l', hl', hln', hlt'⟩ := hI _ hb'' rfl
        dsimp only [Vtx.sub, Vtx.name, Vtx.ty] at hs hs' hln hlt hln' hlt'
        unfold fieldOf at h1 h2
        dsimp only at h1 h2
        split at h1
        · rename_i hn
          split at h2
          · simp only [Option.some.injEq] at h1 h2
            have hne : l.name ≠ "" := by rw [hln]; simpa using hn
            have := hnames l hl l' hl' hne (by rw [hln, hln', h1, h2])
            rw [hln, hln', hlt, hlt'] at this
            rw [this.1, this.2, hs, hs']
          · cases h2
        · cases h1
      | root => cases h2
      | arg t' s' => cases h2
      | out t' s' => cases h2
      | func k => cases h2
    | root => cases h1
    | arg t s => cases h1
    | out t s => cases h1
    | func k => cases h1


/-! ### the planning run succeeds -/

section
open Complete
variable {e : TypeEnv} {b : Builder} {funcs : Nat → Option FuncDesc} {target : FuncDesc}

theorem rctx_env (e : TypeEnv) (b : Builder) (funcs : Nat → Option FuncDesc) (target : FuncDesc)
    (fin : Option Filter) (outCount : Nat → Nat) : (rctx e b funcs target fin outCount).env = e := by
  unfold rctx
  rfl

theorem initSt_sinvR (H : Hyps e b funcs target) (fin : Option Filter) (outCount : Nat → Nat)
    (orc : List OrcItem) :
    SInv (rctx e b funcs target fin outCount) True (fun x => x ∈ ExactWins.inputVerts b)
      (initSt (callGraph {} e b funcs target true fin).cg [] orc) := by
  have hst : (callGraph {} e b funcs target true fin).cg.store =
      (callGraph {} e b funcs target false none).cg.store := by
    rw [callGraph_cg, finR_store, ExactWins.callGraph_cg]
    exact (ExactWins.fin_store e b funcs target).symm
  have heq : initSt (callGraph {} e b funcs target true fin).cg [] orc =
      initSt (callGraph {} e b funcs target false none).cg [] orc := by
    unfold initSt; rw [hst]
  rw [heq]
  have h0 := initSt_sinv H (zeroBeh outCount) True [] (fun _ p hp => by cases hp) orc
  refine ⟨?_, h0.sup, h0.memo⟩
  intro x v hv
  rw [rctx_env]
  exact h0.typed x v hv

/-- the core of C08b: the planning run of `Redefine` ends in success or the oracle did not fit -/
theorem redefine_succeeds (H : Hyps e b funcs target) (ht : ImplTrans e)
    (hnames : NamesSingle (nameLabels b (C01.allFuncs b funcs target)))
    (fin fout : Option Filter)
    (hperm : ∀ l ∈ target.input.labels, RedefineInputs.passesF e fin l.ty = true)
    (hout : outputsPass e target fout = true)
    (outCount : Nat → Nat) (fuel : Nat) (hfuel : 2 ≤ fuel) (orc : List OrcItem) :
    (∃ ls, redefine (rctx e b funcs target fin outCount) (callGraph {} e b funcs target true fin) target fout fuel
        (initSt (callGraph {} e b funcs target true fin).cg [] orc) = .ok ls) ∨
    (∃ w, redefine (rctx e b funcs target fin outCount) (callGraph {} e b funcs target true fin) target fout fuel
        (initSt (callGraph {} e b funcs target true fin).cg [] orc) = .badOracle w) := by
  obtain ⟨m, rfl⟩ : ∃ m, fuel = m + 1 + 1 := ⟨fuel - 2, by omega⟩
  have gf := factsR H ht fin outCount
  have hrec : RecSpec (rctx e b funcs target fin outCount)
      (fun v st => reach (rctx e b funcs target fin outCount) true (m + 1) [.func target.key] v st) :=
    fun k s hall => reach_all_present' _ gf.sri gf.auto true m [.func target.key] (.func k) s hall
  obtain ⟨hE, hO⟩ := reach_top' (E := Allowed True) gf (fun ε hn => Or.inr ⟨⟨ε, rfl⟩, hn⟩)
    (fun w => Or.inl ⟨w, rfl⟩) (m + 1) (RecSpecE.of_recSpec hrec) _ (initSt_sinvR H fin outCount orc)
    (by simp [initSt])
  have hadj := RedefineInputs.reach_inputSet (rctx e b funcs target fin outCount) gf.sri true (m + 1 + 1) []
    (.func target.key) (initSt (callGraph {} e b funcs target true fin).cg [] orc)
    (by intro v hv; simp [initSt] at hv)
  unfold redefine
  rw [rctx_env, hout, unsat_nil e fin b funcs target hperm, callGraph_target]
  simp only [Bool.not_true, List.isEmpty_nil, Bool.false_eq_true, if_false]
  rcases hres : reach (rctx e b funcs target fin outCount) true (m + 1 + 1) [] (.func target.key)
      (initSt (callGraph {} e b funcs target true fin).cg [] orc) with ⟨err | am, s⟩
  · rw [hres] at hE
    rcases hE err rfl with ⟨w, rfl⟩ | ⟨_, hn⟩
    · exact Or.inr ⟨w, rfl⟩
    · exact absurd trivial hn
  · rw [hres] at hO hadj
    have hnd := (hO am rfl).1
    dsimp only at hnd hadj ⊢
    have hf : fieldsOK (declaredInputs s.inputSet (callGraph {} e b funcs target true fin).inputs) = true := by
      apply fieldsOK_declared b (C01.allFuncs b funcs target) _ _ hnd _ hnames
      intro v hv hval
      have he := hadj v hv
      rw [rctx_g] at he
      have hmem := (Prune.hasEdge_mem_verts _ (finR_wf e fin b funcs target) _ _ he).1
      exact pre_valueVerts H _ (finR_verts e fin b funcs target hmem) hval
    rw [hf]
    exact Or.inl ⟨_, rfl⟩

end

end ArgMapper.RedefC
