import ArgMapper.Spec.Flow
import ArgMapper.Proofs.WalkEqs
/-!
# Soundness of `reach` with respect to value flow (helper lemmas for C01, dynamic part)

Every value held in the store carries a ghost origin; `StoreOK` says the origin is an origin vertex and
the value can flow (vertex-to-vertex copies along edges) to the vertex it is stored at.  The walk
preserves this, and every argument map handed to `callDirect` satisfies it too (`AmOK`), hence
every logged execution satisfies `ArgsFlow`.
-/
namespace ArgMapper.ReachSound
open ArgMapper WalkEqs

/-! ### copies of the definitions of `Props/C01.lean` (that file imports this one) -/

def ArgsFlow (g : AGraph Vtx) (ev : ExecEv) : Prop :=
  ev.args.length = ev.params.length ∧
  ∀ (i : Nat) (p : Label) (a : PVal), ev.params[i]? = some p → ev.args[i]? = some a →
    a.org.isOrigin = true ∧ Flow g a.org p.vertex

def StoreOK (g : AGraph Vtx) (s : CallSt) : Prop :=
  ∀ x v, s.get x = some v → v.org.isOrigin = true ∧ Flow g v.org x

def FuncsOK (c : Ctx) : Prop :=
  ∀ k f, c.funcOf k = some f →
    f.key = k ∧
    ∀ v ∈ c.g.ins (.func k),
      (∀ n t s, v = .value n t s → (mapGet f.output.named n).isSome = true) ∧
      (∀ t s, v = .out t s → (mapGet f.output.typed t).isSome = true) ∧
      (v.isValue = true ∨ v.isOut = true)

/-! ### graph basics -/

theorem hasEdge_iff (g : AGraph Vtx) (u v : Vtx) :
    g.hasEdge u v = true ↔ ∃ e ∈ g.edges, e.1 = u ∧ e.2.1 = v := by
  unfold AGraph.hasEdge AGraph.weight
  rw [Option.isSome_map, List.find?_isSome]
  simp [AGraph.isEdge]

theorem hasEdge_reverse (g : AGraph Vtx) (a b : Vtx) :
    g.reverse.hasEdge a b = true ↔ g.hasEdge b a = true := by
  rw [hasEdge_iff, hasEdge_iff]
  simp only [AGraph.reverse, List.mem_map]
  constructor
  · rintro ⟨e, ⟨e0, h0, rfl⟩, h1, h2⟩
    exact ⟨e0, h0, h2, h1⟩
  · rintro ⟨e, h0, h1, h2⟩
    exact ⟨_, ⟨e, h0, rfl⟩, h2, h1⟩

theorem hasEdge_of_mem_outs (g : AGraph Vtx) (u x : Vtx) (h : x ∈ g.outs u) : g.hasEdge u x = true := by
  rw [hasEdge_iff]
  simp only [AGraph.outs, AGraph.outsW, List.mem_map, List.mem_filter, decide_eq_true_eq] at h
  obtain ⟨p, ⟨e, ⟨he, h1⟩, rfl⟩, rfl⟩ := h
  exact ⟨e, he, h1, rfl⟩

theorem mem_ins_of_hasEdge (g : AGraph Vtx) (x v : Vtx) (h : g.hasEdge x v = true) : x ∈ g.ins v := by
  rw [hasEdge_iff] at h
  obtain ⟨e, he, h1, h2⟩ := h
  simp only [AGraph.ins, AGraph.insW, List.mem_map, List.mem_filter, decide_eq_true_eq]
  exact ⟨(e.1, e.2.2), ⟨e, ⟨he, h2⟩, rfl⟩, h1⟩

/-- the kinds of vertices an edge rule can join -/
def kindOK : Vtx → Vtx → Bool
  | .func _, .value .. => true
  | .func _, .arg .. => true
  | .func _, .root => true
  | .value .., .root => true
  | .value .., .func _ => true
  | .value .., .out .. => true
  | .value .., .value .. => true
  | .out .., .root => true
  | .out .., .func _ => true
  | .out .., .out .. => true
  | .arg .., .value .. => true
  | .arg .., .out .. => true
  | .arg .., .root => true
  | _, _ => false

theorem kindOK_of_rule {e : TypeEnv} {x y : Vtx} (h : EdgeRule e x y) : kindOK x y = true := by
  cases h <;> first
    | rfl
    | (cases x <;> simp_all [kindOK, Vtx.isValue, Vtx.isArg, Vtx.isOut])
    | (cases y <;> simp_all [kindOK, Vtx.isValue, Vtx.isArg, Vtx.isOut])


/-! ### the store -/

theorem mapGet_filter_ne {β : Type} (m : List (Vtx × β)) (v u : Vtx) :
    mapGet (m.filter (fun p => !decide (p.1 = v))) u = if u = v then none else mapGet m u := by
  unfold mapGet
  induction m with
  | nil => simp
  | cons a m ih =>
    by_cases h1 : a.1 = v <;> by_cases h2 : a.1 = u <;> by_cases h : u = v <;>
      simp_all [List.find?_cons, List.filter_cons]

theorem mapGet_mapSet' {β : Type} (m : List (Vtx × β)) (k k' : Vtx) (v : β) :
    mapGet (mapSet m k v) k' = if k' = k then some v else mapGet m k' := by
  unfold mapGet mapSet
  induction m with
  | nil => by_cases h : k = k' <;> simp [h, eq_comm]
  | cons a m ih =>
    by_cases h1 : a.1 = k <;> by_cases h2 : a.1 = k' <;> by_cases h : k' = k <;>
      simp_all [List.find?_cons]

theorem mem_of_mapGet {β : Type} {m : List (Vtx × β)} {k : Vtx} {v : β} (h : mapGet m k = some v) :
    (k, v) ∈ m := by
  unfold mapGet at h
  cases hf : m.find? (fun p => decide (p.1 = k)) with
  | none => simp [hf] at h
  | some p =>
    simp [hf] at h
    have h1 := List.find?_some hf
    have h2 := List.mem_of_find?_eq_some hf
    simp at h1
    obtain ⟨a, b⟩ := p
    simp at h1 h
    subst h1; subst h
    exact h2

theorem get_set (s : CallSt) (v u : Vtx) (x : Option PVal) :
    (s.set v x).get u = if u = v then x else s.get u := by
  unfold CallSt.set CallSt.get
  cases x with
  | some y => exact mapGet_mapSet' _ _ _ _
  | none => exact mapGet_filter_ne _ _ _

@[simp] theorem set_log (s : CallSt) (v : Vtx) (x : Option PVal) : (s.set v x).log = s.log := by
  unfold CallSt.set; split <;> rfl
@[simp] theorem set_last (s : CallSt) (v : Vtx) (x : Option PVal) : (s.set v x).last = s.last := by
  unfold CallSt.set; split <;> rfl
@[simp] theorem set_orc (s : CallSt) (v : Vtx) (x : Option PVal) : (s.set v x).orc = s.orc := by
  unfold CallSt.set; split <;> rfl
@[simp] theorem addInput_log (s : CallSt) (v : Vtx) : (s.addInput v).log = s.log := by
  unfold CallSt.addInput; split <;> rfl
@[simp] theorem addInput_store (s : CallSt) (v : Vtx) : (s.addInput v).store = s.store := by
  unfold CallSt.addInput; split <;> rfl

/-! ### invariants -/

/-- a value that may legitimately sit at (or be handed to) vertex `x` -/
def ValOK (g : AGraph Vtx) (x : Vtx) (a : PVal) : Prop := a.org.isOrigin = true ∧ Flow g a.org x

theorem ValOK.step {g : AGraph Vtx} {x y : Vtx} {a : PVal} (h : ValOK g y a) (hx : x.isData = true)
    (he : g.hasEdge x y = true) : ValOK g x a := ⟨h.1, Flow.step hx he h.2⟩

def AmOK (g : AGraph Vtx) (am : ArgMap) : Prop := ∀ x a, mapGet am x = some a → ValOK g x a

/-- state invariant: the store and the log -/
structure Inv (c : Ctx) (s : CallSt) : Prop where
  store : StoreOK c.g s
  log : ∀ ev ∈ s.log, ArgsFlow c.g ev

theorem Inv.congr {c : Ctx} {s s' : CallSt} (h : Inv c s) (hs : s'.store = s.store) (hl : s'.log = s.log) :
    Inv c s' := by
  refine ⟨?_, by rw [hl]; exact h.log⟩
  intro x v hv
  unfold CallSt.get at hv
  rw [hs] at hv
  exact h.store x v hv

theorem Inv.set {c : Ctx} {s : CallSt} (h : Inv c s) (v : Vtx) (x : Option PVal)
    (hx : ∀ a, x = some a → ValOK c.g v a) : Inv c (s.set v x) := by
  refine ⟨?_, by rw [set_log]; exact h.log⟩
  intro u a ha
  rw [get_set] at ha
  split at ha
  · rename_i huv; subst huv; exact hx a ha
  · exact h.store u a ha

theorem Inv.addInput {c : Ctx} {s : CallSt} (h : Inv c s) (v : Vtx) : Inv c (s.addInput v) :=
  h.congr (by simp) (by simp)

theorem foldl_inv {σ β : Type} (P : σ → Prop) (g : σ → β → σ) (hg : ∀ s v, P s → P (g s v))
    (l : List β) (s : σ) (h : P s) : P (l.foldl g s) := by
  induction l generalizing s with
  | nil => exact h
  | cons a l ih => exact ih _ (hg _ _ h)


/-! ### callDirect -/

def gStep (e : TypeEnv) (am : ArgMap) (acc : Except RErr (List PVal)) (v : SVal) : Except RErr (List PVal) :=
  match acc with
  | .error x => .error x
  | .ok l =>
    match mapGet am v.lab.vertex with
    | none => .error .missingArg
    | some a =>
      if e.assignable a.ty v.lab.ty then .ok (l ++ [{ ty := v.lab.ty, id := a.id, org := a.org }])
      else .error (.panic .setNotAssignable)

theorem gatherArgs_eq (e : TypeEnv) (f : FuncDesc) (am : ArgMap) :
    gatherArgs e f am = f.input.values.foldl (gStep e am) (.ok []) := rfl

def argOf (am : ArgMap) (v : SVal) : PVal :=
  match mapGet am v.lab.vertex with
  | some a => { ty := v.lab.ty, id := a.id, org := a.org }
  | none => default

theorem gStep_fold_err (e : TypeEnv) (am : ArgMap) (vals : List SVal) (x : RErr) :
    vals.foldl (gStep e am) (.error x) = .error x := by
  induction vals with
  | nil => rfl
  | cons v vs ih => exact ih

theorem gStep_fold (e : TypeEnv) (am : ArgMap) (vals : List SVal) (l args : List PVal)
    (h : vals.foldl (gStep e am) (.ok l) = .ok args) :
    args = l ++ vals.map (argOf am) ∧ ∀ v ∈ vals, (mapGet am v.lab.vertex).isSome = true := by
  induction vals generalizing l with
  | nil =>
    simp only [List.foldl_nil, Except.ok.injEq] at h
    simp [h]
  | cons v vs ih =>
    rw [List.foldl_cons] at h
    cases hm : mapGet am v.lab.vertex with
    | none =>
      have : gStep e am (.ok l) v = .error .missingArg := by simp [gStep, hm]
      rw [this, gStep_fold_err] at h; cases h
    | some a =>
      by_cases ha : e.assignable a.ty v.lab.ty = true
      · have : gStep e am (.ok l) v = .ok (l ++ [{ ty := v.lab.ty, id := a.id, org := a.org }]) := by
          simp [gStep, hm, ha]
        rw [this] at h
        obtain ⟨h1, h2⟩ := ih _ h
        refine ⟨?_, ?_⟩
        · rw [h1]; simp [argOf, hm]
        · intro v' hv'
          rcases List.mem_cons.1 hv' with rfl | hv'
          · simp [hm]
          · exact h2 v' hv'
      · have : gStep e am (.ok l) v = .error (.panic .setNotAssignable) := by
          simp [gStep, hm, ha]
        rw [this, gStep_fold_err] at h; cases h

theorem gatherArgs_flow (g : AGraph Vtx) (e : TypeEnv) (f : FuncDesc) (am : ArgMap) (ham : AmOK g am)
    (args : List PVal) (h : gatherArgs e f am = .ok args) (fid nth : Nat) (res : BehOut) :
    ArgsFlow g { fid := fid, nth := nth, args := args, params := f.input.labels, res := res } := by
  rw [gatherArgs_eq] at h
  obtain ⟨h1, h2⟩ := gStep_fold e am _ _ _ h
  simp only [List.nil_append] at h1
  subst h1
  refine ⟨by simp [ValueSet.labels], ?_⟩
  intro i p a hp ha
  simp only [ValueSet.labels, List.getElem?_map] at hp ha
  cases hv : f.input.values[i]? with
  | none => simp [hv] at hp
  | some v =>
    simp only [hv, Option.map_some, Option.some.injEq] at hp ha
    subst hp; subst ha
    have hmem : v ∈ f.input.values := List.mem_of_getElem? hv
    have hs := h2 v hmem
    cases hm : mapGet am v.lab.vertex with
    | none => simp [hm] at hs
    | some a0 =>
      have := ham _ _ hm
      simp only [argOf, hm]
      exact this

theorem callDirect_inv (c : Ctx) (f : FuncDesc) (am : ArgMap) (s : CallSt) (h : Inv c s) (ham : AmOK c.g am) :
    Inv c (callDirect c f am s).2 := by
  unfold callDirect
  split
  · exact h
  · split
    · exact h
    · rename_i args hargs
      dsimp only
      have hev := gatherArgs_flow c.g c.env f am ham args hargs f.id (countOf s f.id)
        (c.beh f.id (countOf s f.id) args)
      have h1 : Inv c { s with
          log := s.log ++ [{ fid := f.id, nth := countOf s f.id, args := args, params := f.input.labels,
                             res := c.beh f.id (countOf s f.id) args }],
          count := mapSet s.count f.id (countOf s f.id + 1) } := by
        refine ⟨h.store, ?_⟩
        intro ev hev'
        rcases List.mem_append.1 hev' with h' | h'
        · exact h.log ev h'
        · simp only [List.mem_singleton] at h'
          subst h'; exact hev
      split
      · exact h1.congr rfl rfl
      · exact h1

/-! ### outputValues -/

def oStep (f : FuncDesc) (r : BehOut) (s : CallSt) (v : Vtx) : CallSt :=
  match v with
  | .value n _ _ =>
    match mapGet f.output.named n with
    | some sv => s.set v (some (resultField f r sv.index sv.lab.ty v))
    | none => s
  | .out t _ =>
    match mapGet f.output.typed t with
    | some sv => s.set v (some (resultField f r sv.index sv.lab.ty v))
    | none => s
  | _ => s

theorem outputValues_eq (c : Ctx) (f : FuncDesc) (r : BehOut) (u : Bool) (s : CallSt) :
    outputValues c f r u s =
      if f.output.ptrs > 0 ∧ !f.output.lifted ∧ u ∧ !c.memoCopy then .error (.panic .elemOnStruct)
      else .ok ((c.g.ins (.func f.key)).foldl (oStep f r)
        (if f.once ∧ f.output.ptrs > 0 ∧ !f.output.lifted ∧ !c.memoCopy
          then { s with memo := s.memo.map (fun p => if p.1 = f.id then (p.1, { p.2 with unwrapped := true }) else p) }
          else s)) := rfl

theorem resultField_org (f : FuncDesc) (r : BehOut) (idx ty : Nat) (v : Vtx) :
    (resultField f r idx ty v).org = v := by
  unfold resultField; split <;> rfl

/-- the output vertices of a function vertex, as `FuncsOK` describes them -/
def OutsKnown (f : FuncDesc) (l : List Vtx) : Prop :=
  ∀ v ∈ l,
    (∀ n t s, v = .value n t s → (mapGet f.output.named n).isSome = true) ∧
    (∀ t s, v = .out t s → (mapGet f.output.typed t).isSome = true) ∧
    (v.isValue = true ∨ v.isOut = true)

theorem oStep_inv (c : Ctx) (f : FuncDesc) (r : BehOut) (s : CallSt) (v : Vtx) (h : Inv c s) :
    Inv c (oStep f r s v) := by
  have key : ∀ sv : SVal, v.isOrigin = true → Inv c (s.set v (some (resultField f r sv.index sv.lab.ty v))) := by
    intro sv hv
    apply h.set
    intro a ha
    simp only [Option.some.injEq] at ha
    subst ha
    refine ⟨by rw [resultField_org]; exact hv, ?_⟩
    rw [resultField_org]
    apply Flow.here
    cases v <;> simp_all [Vtx.isOrigin, Vtx.isData, Vtx.isValue, Vtx.isOut]
  unfold oStep
  split
  · split
    · exact key _ rfl
    · exact h
  · split
    · exact key _ rfl
    · exact h
  · exact h

theorem oStep_mono (f : FuncDesc) (r : BehOut) (s : CallSt) (v u : Vtx) (h : (s.get u).isSome = true) :
    ((oStep f r s v).get u).isSome = true := by
  unfold oStep
  split
  · split
    · rw [get_set]; split <;> simp [h]
    · exact h
  · split
    · rw [get_set]; split <;> simp [h]
    · exact h
  · exact h

theorem oStep_self (f : FuncDesc) (r : BehOut) (s : CallSt) (v : Vtx) (h : OutsKnown f [v]) :
    ((oStep f r s v).get v).isSome = true := by
  obtain ⟨h1, h2, h3⟩ := h v (by simp)
  unfold oStep
  cases v with
  | value n t u =>
    have := h1 n t u rfl
    cases hm : mapGet f.output.named n with
    | none => simp [hm] at this
    | some sv => dsimp only; rw [hm]; dsimp only; rw [get_set]; simp
  | out t u =>
    have := h2 t u rfl
    cases hm : mapGet f.output.typed t with
    | none => simp [hm] at this
    | some sv => dsimp only; rw [hm]; dsimp only; rw [get_set]; simp
  | _ => simp [Vtx.isValue, Vtx.isOut] at h3

theorem oFold_inv (c : Ctx) (f : FuncDesc) (r : BehOut) (l : List Vtx) (hl : OutsKnown f l) (s : CallSt)
    (h : Inv c s) :
    Inv c (l.foldl (oStep f r) s) ∧
    (∀ u, (s.get u).isSome = true → ((l.foldl (oStep f r) s).get u).isSome = true) ∧
    (∀ v ∈ l, ((l.foldl (oStep f r) s).get v).isSome = true) := by
  induction l generalizing s with
  | nil => exact ⟨h, fun _ h => h, fun _ h => by cases h⟩
  | cons a l ih =>
    have hl' : OutsKnown f l := fun v hv => hl v (List.mem_cons_of_mem _ hv)
    obtain ⟨i1, i2, i3⟩ := ih hl' (oStep f r s a) (oStep_inv c f r s a h)
    refine ⟨i1, fun u hu => i2 u (oStep_mono f r s a u hu), ?_⟩
    intro v hv
    rcases List.mem_cons.1 hv with rfl | hv
    · exact i2 _ (oStep_self f r s _ (fun v hv => by
        simp only [List.mem_singleton] at hv; subst hv; exact hl _ (by simp)))
    · exact i3 v hv

theorem outputValues_inv (c : Ctx) (f : FuncDesc) (r : BehOut) (u : Bool) (s s' : CallSt)
    (hl : OutsKnown f (c.g.ins (.func f.key))) (h : Inv c s) (ho : outputValues c f r u s = .ok s') :
    Inv c s' ∧ ∀ v ∈ c.g.ins (.func f.key), (s'.get v).isSome = true := by
  rw [outputValues_eq] at ho
  split at ho
  · cases ho
  · simp only [Except.ok.injEq] at ho
    subst ho
    have h0 : Inv c (if f.once ∧ f.output.ptrs > 0 ∧ !f.output.lifted ∧ !c.memoCopy
          then { s with memo := s.memo.map (fun p => if p.1 = f.id then (p.1, { p.2 with unwrapped := true }) else p) }
          else s) := by
      split
      · exact h.congr rfl rfl
      · exact h
    obtain ⟨i1, _, i3⟩ := oFold_inv c f r _ hl _ h0
    exact ⟨i1, i3⟩


/-! ### one step of the walk -/

/-- what is known about `final`, `last` and the store right after the vertex `prev` was processed -/
def PrevInv (c : Ctx) (s : CallSt) (final : Option PVal) : Option Vtx → Prop
  | none => final = none
  | some .root => final = none
  | some (.value n t u) =>
    (∀ f, final = some f → ValOK c.g (.value n t u) f) ∧ (∀ l, s.last = some l → ValOK c.g (.value n t u) l)
  | some (.arg t u) => ∀ f, final = some f → ValOK c.g (.arg t u) f
  | some (.out t u) =>
    ((s.get (.out t u)).isSome = true ∨ final = none) ∧ (∀ l, s.last = some l → ValOK c.g (.out t u) l)
  | some (.func k) => ∀ v ∈ c.g.ins (.func k), (s.get v).isSome = true

def WInv (c : Ctx) (w : WalkSt) : Prop :=
  Inv c w.s ∧ (w.err = none → PrevInv c w.s w.final w.prev)

def RecSound (c : Ctx) (rec : Vtx → CallSt → Except RErr ArgMap × CallSt) : Prop :=
  ∀ k s, Inv c s → Inv c (rec (.func k) s).2 ∧ ∀ am, (rec (.func k) s).1 = .ok am → AmOK c.g am

theorem copyFrom_inv (c : Ctx) (s : CallSt) (prev : Option Vtx) (v : Vtx) (h : Inv c s)
    (hv : v.isData = true) (he : ∀ u, prev = some u → c.g.hasEdge v u = true) :
    Inv c (copyFrom s prev v) := by
  unfold copyFrom
  split
  · rename_i t st
    apply h.set
    intro a ha
    exact ValOK.step (h.store _ _ ha) hv (he _ rfl)
  · exact h

theorem valCopy_inv (c : Ctx) (s : CallSt) (prev : Option Vtx) (v : Vtx) (h : Inv c s)
    (hv : v.isData = true) (he : ∀ u, prev = some u → c.g.hasEdge v u = true) :
    Inv c (valCopy c s prev v) := by
  rcases valCopy_cases c s prev v with h1 | ⟨n, t, st, x, hp, _, hg, h1⟩
  · rw [h1]; exact copyFrom_inv c s prev v h hv he
  · rw [h1]
    apply h.set
    intro a ha
    cases ha
    exact ValOK.step (h.store _ _ hg) hv (he _ hp)

theorem copyFrom_get_out (s : CallSt) (t : Nat) (st : String) (v : Vtx) :
    (copyFrom s (some (.out t st)) v).get v = s.get (.out t st) := by
  show (s.set v (s.get (.out t st))).get v = _
  rw [get_set]; simp

theorem argStore_inv (c : Ctx) (s : CallSt) (t : Nat) (v : Vtx) (h : Inv c s)
    (hl : ∀ x, s.last = some x → ValOK c.g v x) : Inv c (argStore c s t v) := by
  unfold argStore
  split
  · rename_i x hx
    split
    · apply h.set
      intro a ha
      simp only [Option.some.injEq] at ha
      subst ha
      exact hl _ hx
    · exact h
  · exact h

theorem walkStep_inv (c : Ctx) (hg : EdgeOK c.env c.g) (hf : FuncsOK c)
    (rec : Vtx → CallSt → Except RErr ArgMap × CallSt) (hrec : RecSound c rec) (w : WalkSt) (v : Vtx)
    (hw : WInv c w)
    (hedge : w.err = none → ∀ u, w.prev = some u → c.g.hasEdge v u = true)
    (hstart : w.err = none → (w.prev = none ∨ w.prev = some .root) → v.isArg = false) :
    WInv c (walkStep c rec w v) := by
  cases herr : w.err with
  | some e => rw [walkStep_err c rec herr]; exact hw
  | none =>
    have hP := hw.2 herr
    have hedge := hedge herr
    have hstart := hstart herr
    have kind : ∀ u, w.prev = some u → kindOK v u = true := fun u hu => kindOK_of_rule (hg _ _ (hedge u hu))
    cases v with
    | root =>
      rw [walkStep_root c rec herr]
      refine ⟨hw.1, fun _ => ?_⟩
      show w.final = none
      cases hp : w.prev with
      | none => rw [hp] at hP; exact hP
      | some u => have := kind u hp; cases u <;> simp [kindOK] at this
    | value n t u =>
      rw [walkStep_value c rec herr]
      have hi1 : Inv c (valCopy c w.s w.prev (.value n t u)) := valCopy_inv c _ _ _ hw.1 rfl hedge
      refine ⟨hi1.congr rfl rfl, fun _ => ⟨?_, ?_⟩⟩
      · intro f hfin
        dsimp only at hfin
        cases hget : (valCopy c w.s w.prev (.value n t u)).get (.value n t u) with
        | some x =>
          rw [hget] at hfin
          simp only [Option.some_or, Option.some.injEq] at hfin
          subst hfin
          exact hi1.store _ _ hget
        | none =>
          rw [hget] at hfin
          replace hfin : w.final = some f := by simpa using hfin
          cases hp : w.prev with
          | none => rw [hp] at hP; rw [hP] at hfin; cases hfin
          | some p =>
            have hk := kind p hp
            have he := hedge p hp
            rw [hp] at hP hget
            cases p with
            | root => rw [show w.final = none from hP] at hfin; cases hfin
            | value n' t' u' => exact (hP.1 f hfin).step rfl he
            | arg t' u' => simp [kindOK] at hk
            | out t' u' =>
              rw [valCopy_out, copyFrom_get_out] at hget
              rcases hP.1 with h | h
              · rw [hget] at h; cases h
              · rw [h] at hfin; cases hfin
            | func k =>
              have := hP _ (mem_ins_of_hasEdge _ _ _ he)
              rw [show valCopy c w.s (some (Vtx.func k)) (Vtx.value n t u) = w.s from rfl] at hget
              rw [hget] at this; cases this
      · intro l hl
        dsimp only at hl
        split at hl
        · exact hi1.store _ _ hl
        · exact hw.1.store _ _ hl
    | arg t u =>
      rw [walkStep_arg c rec herr]
      have hi1 : Inv c (argStore c w.s t (.arg t u)) := by
        apply argStore_inv c _ _ _ hw.1
        intro x hx
        cases hp : w.prev with
        | none => have := hstart (Or.inl hp); simp [Vtx.isArg] at this
        | some p =>
          have hk := kind p hp
          have he := hedge p hp
          rw [hp] at hP
          cases p with
          | root => have := hstart (Or.inr hp); simp [Vtx.isArg] at this
          | value n' t' u' => exact (hP.2 x hx).step rfl he
          | arg t' u' => simp [kindOK] at hk
          | out t' u' => exact (hP.2 x hx).step rfl he
          | func k => simp [kindOK] at hk
      refine ⟨hi1, fun _ => ?_⟩
      intro f hfin
      exact hi1.store _ _ hfin
    | out t u =>
      rw [walkStep_out c rec herr]
      have hi1 : Inv c (copyFrom w.s w.prev (.out t u)) := copyFrom_inv c _ _ _ hw.1 rfl hedge
      refine ⟨hi1.congr rfl rfl, fun _ => ⟨?_, ?_⟩⟩
      · show ((copyFrom w.s w.prev (.out t u)).get (.out t u)).isSome = true ∨ w.final = none
        cases hp : w.prev with
        | none => rw [hp] at hP; exact Or.inr hP
        | some p =>
          have hk := kind p hp
          have he := hedge p hp
          rw [hp] at hP
          cases p with
          | root => exact Or.inr hP
          | value n' t' u' => simp [kindOK] at hk
          | arg t' u' => simp [kindOK] at hk
          | out t' u' =>
            rw [copyFrom_get_out]
            exact hP.1
          | func k => exact Or.inl (hP _ (mem_ins_of_hasEdge _ _ _ he))
      · intro l hl
        exact hi1.store _ _ hl
    | func k =>
      cases hfo : c.funcOf k with
      | none =>
        rw [walkStep_func_none c rec herr k hfo]
        exact ⟨hw.1, fun h => by cases h⟩
      | some f =>
        obtain ⟨hkey, houts⟩ := hf k f hfo
        have hr := hrec k w.s hw.1
        rcases hrs : rec (Vtx.func k) w.s with ⟨e | am, s1⟩
        · rw [walkStep_func_recErr c rec herr k hfo hrs]
          rw [hrs] at hr
          exact ⟨hr.1, fun h => by cases h⟩
        · rw [hrs] at hr
          have ham := hr.2 am rfl
          have h2 := callDirect_inv c f am s1 hr.1 ham
          rcases hcs : callDirect c f am s1 with ⟨e | ⟨r, unw⟩, s2⟩
          · rw [walkStep_func_cdErr c rec herr k hfo hrs hcs]
            rw [hcs] at h2
            exact ⟨h2, fun h => by cases h⟩
          · rw [hcs] at h2
            cases hre : r.err with
            | some ε =>
              rw [walkStep_func_funcErr c rec herr k hfo hrs hcs hre]
              exact ⟨h2, fun h => by cases h⟩
            | none =>
              cases hov : outputValues c f r unw s2 with
              | error e =>
                rw [walkStep_func_outErr c rec herr k hfo hrs hcs hre hov]
                exact ⟨h2, fun h => by cases h⟩
              | ok s3 =>
                rw [walkStep_func_ok c rec herr k hfo hrs hcs hre hov]
                have := outputValues_inv c f r unw s2 s3 (by rw [hkey]; exact houts) h2 hov
                refine ⟨this.1, fun _ => ?_⟩
                show ∀ v ∈ c.g.ins (.func k), _
                rw [← hkey]; exact this.2


/-! ### walking one path -/

/-- the path condition seen from the walk: every vertex has an edge to the one processed before it,
and no typed-argument vertex comes first or right after the root -/
def PathFrom (g : AGraph Vtx) : Option Vtx → List Vtx → Prop
  | _, [] => True
  | u, v :: rest =>
    (∀ a, u = some a → g.hasEdge v a = true) ∧ ((u = none ∨ u = some .root) → v.isArg = false) ∧
      PathFrom g (some v) rest

theorem walk_fold_inv (c : Ctx) (hg : EdgeOK c.env c.g) (hf : FuncsOK c)
    (rec : Vtx → CallSt → Except RErr ArgMap × CallSt) (hrec : RecSound c rec) (p : List Vtx) (w : WalkSt)
    (hw : WInv c w) (hpath : w.err = none → PathFrom c.g w.prev p) :
    WInv c (p.foldl (walkStep c rec) w) ∧
    ((p.foldl (walkStep c rec) w).err = none → ∀ l, p.getLast? = some l →
      (p.foldl (walkStep c rec) w).prev = some l) := by
  induction p generalizing w with
  | nil => exact ⟨hw, fun _ l h => by simp at h⟩
  | cons v rest ih =>
    rw [List.foldl_cons]
    have hw1 : WInv c (walkStep c rec w v) :=
      walkStep_inv c hg hf rec hrec w v hw (fun he u hu => (hpath he).1 u hu) (fun he h => (hpath he).2.1 h)
    have hpath1 : (walkStep c rec w v).err = none → PathFrom c.g (walkStep c rec w v).prev rest := by
      intro he
      rw [walkStep_prev c rec w v he]
      exact (hpath (walkStep_err_mono c rec w v he)).2.2
    obtain ⟨i1, i2⟩ := ih _ hw1 hpath1
    refine ⟨i1, fun he l hl => ?_⟩
    cases rest with
    | nil =>
      simp only [List.getLast?_singleton, Option.some.injEq] at hl
      subst hl
      exact walkStep_prev c rec w v he
    | cons b rest' =>
      rw [List.getLast?_cons_cons] at hl
      exact i2 he l hl

theorem pathFrom_chain (c : Ctx) (hg : EdgeOK c.env c.g) (rest : List Vtx) (a : Vtx)
    (hp : AGraph.isPathB c.g.reverse (a :: rest) = true)
    (ha : a = .root → ∀ b, rest.head? = some b → b.isArg = false) :
    PathFrom c.g (some a) rest := by
  induction rest generalizing a with
  | nil => trivial
  | cons b rest' ih =>
    simp only [AGraph.isPathB, Bool.and_eq_true] at hp
    have he : c.g.hasEdge b a = true := (hasEdge_reverse _ _ _).1 hp.1
    refine ⟨?_, ?_, ?_⟩
    · intro a' h
      simp only [Option.some.injEq] at h
      subst h; exact he
    · intro h
      rcases h with h | h
      · cases h
      · simp only [Option.some.injEq] at h
        exact ha h b rfl
    · apply ih b hp.2
      intro hb
      subst hb
      have := kindOK_of_rule (hg _ _ he)
      cases a <;> simp [kindOK] at this

/-- what the walk needs to know about a chosen path -/
def GoodPath (c : Ctx) (p : List Vtx) : Prop :=
  PathFrom c.g none p ∧ ∀ l, p.getLast? = some l → (l.isValue = true ∨ l.isArg = true)

theorem pathFrom_of_valid (c : Ctx) (hg : EdgeOK c.env c.g) (hnar : ∀ t s, c.g.hasEdge (.arg t s) .root = false)
    (cur : Vtx) (p : List Vtx) (h : validPath c.g cur p = true) :
    PathFrom c.g none p ∧ p.getLast? = some cur := by
  simp only [validPath, Bool.and_eq_true, beq_iff_eq] at h
  obtain ⟨⟨⟨_, hhead⟩, hlast⟩, hpath⟩ := h
  refine ⟨?_, hlast⟩
  cases p with
  | nil => trivial
  | cons a rest =>
    simp only [List.head?_cons, Option.some.injEq] at hhead
    subst hhead
    refine ⟨fun a h => (by cases h), fun _ => rfl, ?_⟩
    apply pathFrom_chain c hg rest _ hpath
    intro _ b hb
    cases rest with
    | nil => cases hb
    | cons b' rest' =>
      simp only [List.head?_cons, Option.some.injEq] at hb
      subst hb
      simp only [AGraph.isPathB, Bool.and_eq_true] at hpath
      have he : c.g.hasEdge b' .root = true := (hasEdge_reverse _ _ _).1 hpath.1
      cases b' with
      | arg t s => rw [hnar t s] at he; cases he
      | _ => rfl

/-! ### walking all paths -/

theorem walkPaths_inv (c : Ctx) (hg : EdgeOK c.env c.g) (hf : FuncsOK c)
    (rec : Vtx → CallSt → Except RErr ArgMap × CallSt) (hrec : RecSound c rec)
    (paths : List (List Vtx)) (hp : ∀ p ∈ paths, GoodPath c p) (am : ArgMap) (s : CallSt)
    (hs : Inv c s) (ham : AmOK c.g am) :
    Inv c (walkPaths c rec paths am s).2 ∧
    ∀ am', (walkPaths c rec paths am s).1 = .ok am' → AmOK c.g am' := by
  induction paths generalizing am s with
  | nil =>
    refine ⟨hs, fun am' h => ?_⟩
    simp only [walkPaths, Except.ok.injEq] at h
    subst h; exact ham
  | cons p rest ih =>
    unfold walkPaths
    have hgood := hp p (by simp)
    have hfold := walk_fold_inv c hg hf rec hrec p { s := s, final := none, prev := none, err := none }
      ⟨hs, fun _ => rfl⟩ (fun _ => hgood.1)
    generalize p.foldl (walkStep c rec) { s := s, final := none, prev := none, err := none } = w at hfold
    obtain ⟨⟨hi, hprev⟩, hlastv⟩ := hfold
    dsimp only
    split
    · exact ⟨hi, fun am' h => by cases h⟩
    · rename_i herr
      split
      · rename_i x lastV hx hlast
        apply ih (fun q hq => hp q (List.mem_cons_of_mem _ hq)) _ _ hi
        intro y a hy
        rw [mapGet_mapSet'] at hy
        split at hy
        · rename_i hyl
          simp only [Option.some.injEq] at hy
          subst hy; subst hyl
          have hP := hprev herr
          rw [hlastv herr y hlast] at hP
          rcases hgood.2 y hlast with hv | hv
          · cases y <;> simp [Vtx.isValue] at hv
            exact hP.1 x hx
          · cases y <;> simp [Vtx.isArg] at hv
            exact hP x hx
        · exact ham y a hy
      · exact ⟨hi, fun am' h => by cases h⟩


/-! ### reach -/

theorem planOne_inv (c : Ctx) (target : Vtx) (reaching : List Vtx) (tr : Bool) (ps : PlanSt)
    (cp : Vtx × List Vtx) (h : Inv c ps.s) : Inv c (planOne target reaching tr false ps cp).s := by
  unfold planOne
  dsimp only
  split
  · exact h
  · simp only [Bool.false_eq_true, if_false]
    exact h.addInput _

theorem zip_snd_mem {α β : Type} (l1 : List α) (l2 : List β) (hlen : l2.length = l1.length) (b : β)
    (hb : b ∈ l2) : ∃ a, a ∈ l1 ∧ (a, b) ∈ l1.zip l2 := by
  induction l1 generalizing l2 with
  | nil =>
    cases l2 with
    | nil => cases hb
    | cons _ _ => simp at hlen
  | cons a l1 ih =>
    cases l2 with
    | nil => cases hb
    | cons b' l2 =>
      rcases List.mem_cons.1 hb with rfl | hb
      · exact ⟨a, by simp, by simp⟩
      · obtain ⟨a', h1, h2⟩ := ih l2 (by simpa using hlen) hb
        exact ⟨a', List.mem_cons_of_mem _ h1, by simp [h2]⟩

theorem am0_ok (c : Ctx) (s : CallSt) (hs : Inv c s) (l : List Vtx) :
    AmOK c.g (l.filterMap (fun v => if v == Vtx.root then none else (s.get v).map (fun x => (v, x)))) := by
  intro x a h
  have hm := mem_of_mapGet h
  simp only [List.mem_filterMap] at hm
  obtain ⟨v, _, hv⟩ := hm
  split at hv
  · cases hv
  · cases hg : s.get v with
    | none => simp [hg] at hv
    | some y =>
      simp only [hg, Option.map_some, Option.some.injEq, Prod.mk.injEq] at hv
      obtain ⟨rfl, rfl⟩ := hv
      exact hs.store _ _ hg

theorem reach_sound (c : Ctx) (hg : EdgeOK c.env c.g) (hf : FuncsOK c)
    (hnar : ∀ t s, c.g.hasEdge (.arg t s) .root = false)
    (n : Nat) (reaching : List Vtx) (k : Nat) (s : CallSt) (hs : Inv c s) :
    Inv c (reach c false n reaching (.func k) s).2 ∧
    ∀ am, (reach c false n reaching (.func k) s).1 = .ok am → AmOK c.g am := by
  induction n generalizing reaching k s with
  | zero =>
    unfold reach
    exact ⟨hs, fun am h => by cases h⟩
  | succ n ih =>
    unfold reach
    dsimp only
    have ham0 := am0_ok c s hs ((c.g.outs (.func k)).filter (fun v => v == Vtx.root || takenAsIs c s v))
    generalize ((c.g.outs (.func k)).filter (fun v => v == Vtx.root || takenAsIs c s v)).filterMap
      (fun v => if v == Vtx.root then none else (s.get v).map (fun x => (v, x))) = am0 at ham0
    have hmiss : ∀ cur ∈ (c.g.outs (.func k)).filter (fun v => !(v == Vtx.root || takenAsIs c s v)),
        cur.isValue = true ∨ cur.isArg = true := by
      intro cur hcur
      simp only [List.mem_filter] at hcur
      have hk := kindOK_of_rule (hg _ _ (hasEdge_of_mem_outs _ _ _ hcur.1))
      have hnr := hcur.2
      cases cur <;> simp_all [kindOK, Vtx.isValue, Vtx.isArg]
    generalize (c.g.outs (.func k)).filter (fun v => !(v == Vtx.root || takenAsIs c s v)) = missingM at hmiss
    have hs1 : Inv c (if c.skipRecordsInput then
        ((c.g.outs (.func k)).filter (fun v => v == Vtx.root || takenAsIs c s v)).foldl CallSt.addInput s else s) := by
      split
      · exact foldl_inv (Inv c) _ (fun s v h => h.addInput v) _ _ hs
      · exact hs
    generalize (if c.skipRecordsInput then
        ((c.g.outs (.func k)).filter (fun v => v == Vtx.root || takenAsIs c s v)).foldl CallSt.addInput s else s) = s1
      at hs1
    split
    · exact ⟨hs1, fun am h => by cases h⟩
    · rename_i item orcRest _
      have hs2 : Inv c { s1 with orc := orcRest } := hs1.congr rfl rfl
      split
      · exact ⟨hs2, fun am h => by cases h⟩
      · split
        · exact ⟨hs2, fun am h => by cases h⟩
        · rename_i hsame
          split
          · refine ⟨hs2, fun am h => ?_⟩
            simp only [Except.ok.injEq] at h
            subst h; exact ham0
          · split
            · exact ⟨hs2, fun am h => by cases h⟩
            · rename_i hlen
              split
              · exact ⟨hs2, fun am h => by cases h⟩
              · rename_i hvalid
                have hs3 : Inv c ((item.missing.zip item.paths).foldl
                    (planOne (.func k) (.func k :: reaching) c.trackReaching false)
                    { s := { s1 with orc := orcRest }, unsat := [] }).s :=
                  foldl_inv (fun (ps : PlanSt) => Inv c ps.s) _
                    (fun ps cp h => planOne_inv c _ _ _ ps cp h) _ _ hs2
                split
                · exact ⟨hs3, fun am h => by cases h⟩
                · apply walkPaths_inv c hg hf _ (fun k' st hst => ih _ k' st hst) _ _ _ _ hs3 ham0
                  intro p hp
                  simp only [ne_eq, Decidable.not_not] at hlen
                  obtain ⟨cur, hcur, hz⟩ := zip_snd_mem item.missing item.paths hlen p hp
                  have hvalid' : ((item.missing.zip item.paths).all fun cp => validPath c.g cp.1 cp.2) = true := by
                    simpa using hvalid
                  have hv := List.all_eq_true.1 hvalid' _ hz
                  obtain ⟨h1, h2⟩ := pathFrom_of_valid c hg hnar cur p hv
                  refine ⟨h1, fun l hl => ?_⟩
                  rw [h2] at hl
                  simp only [Option.some.injEq] at hl
                  subst hl
                  apply hmiss
                  have hsame' : sameMembers item.missing missingM = true := by simpa using hsame
                  simp only [sameMembers, Bool.and_eq_true, List.all_eq_true, decide_eq_true_eq] at hsame'
                  exact hsame'.1.1 _ hcur


/-! ### Call -/

theorem callWith_args_flow (c : Ctx) (hg : EdgeOK c.env c.g) (hf : FuncsOK c)
    (hnar : ∀ t s, c.g.hasEdge (.arg t s) .root = false) (cgr : CallGraphResult)
    (target : FuncDesc) (htv : cgr.target = .func target.key)
    (fuel : Nat) (s0 : CallSt) (hs : StoreOK c.g s0) (hl : s0.log = []) :
    ∀ ev ∈ (callWith c cgr target fuel s0).2.log, ArgsFlow c.g ev := by
  have h0 : Inv c s0 := ⟨hs, by rw [hl]; intro _ h; cases h⟩
  unfold callWith
  split
  · exact h0.log
  · rw [htv]
    have hr := reach_sound c hg hf hnar fuel [] target.key s0 h0
    rcases hres : reach c false fuel [] (.func target.key) s0 with ⟨e | am, s⟩
    · rw [hres] at hr
      cases e <;> exact hr.1.log
    · rw [hres] at hr
      have h2 := callDirect_inv c target am s hr.1 (hr.2 am rfl)
      dsimp only
      rcases hcs : callDirect c target am s with ⟨e | ⟨r, u⟩, s2⟩
      · rw [hcs] at h2
        cases e <;> exact h2.log
      · rw [hcs] at h2
        dsimp only
        split <;> exact h2.log

theorem mapGet_isSome_of_mem {β : Type} {m : List (Vtx × β)} {p : Vtx × β} (h : p ∈ m) :
    (mapGet m p.1).isSome = true := by
  unfold mapGet
  rw [Option.isSome_map, List.find?_isSome]
  exact ⟨p, h, by simp⟩

theorem initSt_storeOK (cg : CG) (memo : List (Nat × Memo)) (orc : List OrcItem)
    (hcg : ∀ x v, mapGet cg.store x = some v → x.isOrigin = true) :
    StoreOK cg.g (initSt cg memo orc) := by
  intro x v hv
  have hm := mem_of_mapGet hv
  simp only [initSt, List.mem_map, Prod.mk.injEq] at hm
  obtain ⟨p, hp, rfl, rfl⟩ := hm
  have := mapGet_isSome_of_mem hp
  cases hq : mapGet cg.store p.1 with
  | none => rw [hq] at this; cases this
  | some q =>
    have ho := hcg _ _ hq
    refine ⟨ho, Flow.here ?_⟩
    dsimp only
    cases hp1 : p.1 <;> simp_all [Vtx.isOrigin, Vtx.isData, Vtx.isValue, Vtx.isOut]

end ArgMapper.ReachSound
