import ArgMapper.Model.Sig
import ArgMapper.Proofs.Args
import ArgMapper.Proofs.StrEval
/-!
# Helper lemmas for C14 / C15: the `fromStructStep` fold in closed form
-/
namespace ArgMapper

/-! ### the fold over the struct fields -/

def keep (f : Field) : Bool := f.exported && !f.marker

/-- the values produced from fields `fs` when the first of them has position `i` -/
def structVals : Nat → List Field → List SVal
  | _, [] => []
  | i, f :: fs => (if keep f then [{ lab := fieldLabel f, index := i }] else []) ++ structVals (i + 1) fs

def namedStep (m : List (String × SVal)) (v : SVal) : List (String × SVal) :=
  if v.lab.name ≠ "" then mapSet m v.lab.name v else m

def typedStep (m : List (Nat × SVal)) (v : SVal) : List (Nat × SVal) :=
  if v.lab.name ≠ "" then m else mapSet m v.lab.ty v

def namedW (v : SVal) : List (String × SVal) := if v.lab.name ≠ "" then [(v.lab.name, v)] else []
def typedW (v : SVal) : List (Nat × SVal) := if v.lab.name ≠ "" then [] else [(v.lab.ty, v)]

theorem foldl_fromStructStep (fs : List Field) : ∀ (a : FsAcc),
    fs.foldl fromStructStep a =
      { idx := a.idx + fs.length,
        values := a.values ++ structVals a.idx fs,
        named := (structVals a.idx fs).foldl namedStep a.named,
        typed := (structVals a.idx fs).foldl typedStep a.typed } := by
  induction fs with
  | nil => intro a; simp [structVals]
  | cons f fs ih =>
    intro a
    rw [List.foldl_cons, ih]
    unfold fromStructStep
    by_cases hk : keep f = true
    · have hk' : (!f.exported || f.marker) = false := by
        unfold keep at hk; cases hx : f.exported <;> cases hm : f.marker <;> simp_all
      by_cases hn : (fieldLabel f).name = ""
      · simp [hk', hk, hn, structVals, namedStep, typedStep, Nat.add_assoc, Nat.add_comm 1]
      · simp [hk', hk, hn, structVals, namedStep, typedStep, Nat.add_assoc, Nat.add_comm 1]
    · have hk' : (!f.exported || f.marker) = true := by
        unfold keep at hk; cases hx : f.exported <;> cases hm : f.marker <;> simp_all
      simp [hk', hk, structVals, Nat.add_assoc, Nat.add_comm 1]

theorem newValueSetFromStruct_eq (d : Nat) (hd : d ≤ 1) (fs : List Field) :
    newValueSetFromStruct d fs = .ok
      { hasStruct := true, ptrs := d, values := structVals 0 fs,
        named := (structVals 0 fs).foldl namedStep [],
        typed := (structVals 0 fs).foldl typedStep [], lifted := false } := by
  unfold newValueSetFromStruct
  rw [if_neg (by omega), foldl_fromStructStep]
  simp

theorem structVals_labels (fs : List Field) : ∀ i,
    (structVals i fs).map (·.lab) = specStructLabels fs := by
  induction fs with
  | nil => intro i; rfl
  | cons f fs ih =>
    intro i
    have := ih (i + 1)
    unfold specStructLabels at this ⊢
    by_cases hk : keep f = true
    · have hk2 : (f.exported && !f.marker) = true := hk
      simp [structVals, hk, hk2, this]
    · have hk2 : ¬ (f.exported && !f.marker) = true := hk
      simp [structVals, hk, hk2, this]

theorem structVals_mem (fs : List Field) : ∀ i v, v ∈ structVals i fs →
    i ≤ v.index ∧ ∃ f, fs[v.index - i]? = some f ∧ keep f = true ∧ fieldLabel f = v.lab := by
  induction fs with
  | nil => intro i v h; simp [structVals] at h
  | cons f fs ih =>
    intro i v h
    simp only [structVals, List.mem_append] at h
    rcases h with h | h
    · by_cases hk : keep f = true
      · simp [hk] at h
        subst h
        simp [hk]
      · simp [hk] at h
    · obtain ⟨h1, g, h2, h3, h4⟩ := ih (i + 1) v h
      refine ⟨by omega, g, ?_, h3, h4⟩
      have : v.index - i = (v.index - (i + 1)) + 1 := by omega
      rw [this, List.getElem?_cons_succ]
      exact h2

/-- when every field is kept, the values are the fields' labels with consecutive indices -/
theorem structVals_all_keep (fs : List Field) (hk : ∀ f ∈ fs, keep f = true) : ∀ (i j : Nat),
    (structVals i fs)[j]? = fs[j]?.map (fun f => ({ lab := fieldLabel f, index := i + j } : SVal)) := by
  induction fs with
  | nil => intro i j; simp [structVals]
  | cons f fs ih =>
    intro i j
    have hf : keep f = true := hk f (by simp)
    have ih' := ih (fun g hg => hk g (by simp [hg])) (i + 1)
    simp only [structVals, hf, if_true, List.singleton_append]
    cases j with
    | zero => simp
    | succ j => simp [ih', Nat.add_assoc, Nat.add_comm 1]

theorem structVals_all_keep_length (fs : List Field) (hk : ∀ f ∈ fs, keep f = true) : ∀ i,
    (structVals i fs).length = fs.length := by
  induction fs with
  | nil => intro i; rfl
  | cons f fs ih =>
    intro i
    have hf : keep f = true := hk f (by simp)
    simp [structVals, hf, ih (fun g hg => hk g (by simp [hg])) (i + 1)]

/-! ### lookups in the maps built by the fold -/

theorem mapGet_foldl_namedStep (vals : List SVal) (m : List (String × SVal)) (n : String) :
    mapGet (vals.foldl namedStep m) n = (lastW (vals.flatMap namedW) n).or (mapGet m n) := by
  refine get_foldl_lastW mapGet namedStep namedW ?_ vals m n
  intro b a k
  unfold namedStep namedW
  by_cases h : a.lab.name = ""
  · simp [h, lastW_nil]
  · simp only [ne_eq, h, not_false_eq_true, if_true, mapGet_mapSet, lastW_singleton]
    by_cases hk : k = a.lab.name
    · simp [hk]
    · have : ¬ a.lab.name = k := fun h' => hk h'.symm
      simp [hk, this]

theorem mapGet_foldl_typedStep (vals : List SVal) (m : List (Nat × SVal)) (t : Nat) :
    mapGet (vals.foldl typedStep m) t = (lastW (vals.flatMap typedW) t).or (mapGet m t) := by
  refine get_foldl_lastW mapGet typedStep typedW ?_ vals m t
  intro b a k
  unfold typedStep typedW
  by_cases h : a.lab.name = ""
  · simp only [ne_eq, h, not_true_eq_false, if_false, mapGet_mapSet, lastW_singleton]
    by_cases hk : k = a.lab.ty
    · simp [hk]
    · have : ¬ a.lab.ty = k := fun h' => hk h'.symm
      simp [hk, this]
  · simp [h, lastW_nil]

section
variable {κ β : Type} [DecidableEq κ]

theorem lastW_isSome_of_mem {ws : List (κ × β)} {k : κ} {v : β} (h : (k, v) ∈ ws) :
    ∃ v', lastW ws k = some v' := by
  cases hl : lastW ws k with
  | some v' => exact ⟨v', rfl⟩
  | none =>
    exfalso
    unfold lastW at hl
    simp only [Option.map_eq_none_iff, List.find?_eq_none] at hl
    have := hl (k, v) (by simpa using h)
    simp at this

theorem mapSet_of_not_mem (m : List (κ × β)) (k : κ) (v : β) (h : k ∉ m.map (·.1)) :
    mapSet m k v = m ++ [(k, v)] := by
  unfold mapSet
  congr 1
  rw [List.filter_eq_self]
  intro a ha
  have : a.1 ≠ k := fun h' => h (h' ▸ List.mem_map.mpr ⟨a, ha, rfl⟩)
  simp [this]

/-- with duplicate-free keys, position `j` of an association list is what `mapGet` finds -/
theorem mapGet_of_getElem? (m : List (κ × β)) (hd : (m.map (·.1)).Nodup) :
    ∀ (j : Nat) (k : κ) (x : β), m[j]? = some (k, x) → mapGet m k = some x := by
  induction m with
  | nil => intro j k x h; simp at h
  | cons a m ih =>
    intro j k x h
    simp only [List.map_cons, List.nodup_cons] at hd
    cases j with
    | zero =>
      simp at h
      subst h
      simp [mapGet]
    | succ j =>
      simp only [List.getElem?_cons_succ] at h
      have hmem : k ∈ m.map (·.1) := List.mem_map.mpr ⟨(k, x), List.mem_of_getElem? h, rfl⟩
      have hne : ¬ a.1 = k := fun h' => hd.1 (h' ▸ hmem)
      have := ih hd.2 j k x h
      unfold mapGet at this ⊢
      simpa [List.find?_cons, hne] using this
end

/-- `zipWith f (range n) l` position by position -/
theorem getElem?_zipWith_range {α γ : Type} (f : Nat → α → γ) (l : List α) (j : Nat) :
    (List.zipWith f (List.range l.length) l)[j]? = l[j]?.map (f j) := by
  rw [List.getElem?_zipWith]
  by_cases h : j < l.length
  · simp [List.getElem?_range h, List.getElem?_eq_getElem h]
  · have : l[j]? = none := List.getElem?_eq_none (by omega)
    simp [this]

/-- a list is determined by its positions -/
theorem list_eq_map_of_getElem? {α γ : Type} (xs : List γ) (l : List α) (g : Nat → α → γ)
    (h : ∀ j, xs[j]? = l[j]?.map (g j)) : xs = l.mapIdx g := by
  apply List.ext_getElem?
  intro j
  rw [h j, List.getElem?_mapIdx]

/-! ### positional (lifted) parameter lists -/

theorem fieldLabel_liftedField (i ty : Nat) : fieldLabel (liftedField i ty) = ⟨"", ty, ""⟩ := by
  simp [fieldLabel, liftedField, parseTag_typeOnly]

theorem keep_liftedField (i ty : Nat) : keep (liftedField i ty) = true := rfl

def liftedFields (tys : List Nat) : List Field :=
  List.zipWith liftedField (List.range tys.length) tys

theorem liftedFields_getElem? (tys : List Nat) (j : Nat) :
    (liftedFields tys)[j]? = tys[j]?.map (liftedField j) := getElem?_zipWith_range _ _ _

theorem liftedFields_keep (tys : List Nat) : ∀ f ∈ liftedFields tys, keep f = true := by
  intro f hf
  obtain ⟨j, hj⟩ := List.getElem?_of_mem hf
  rw [liftedFields_getElem?] at hj
  cases h : tys[j]? with
  | none => simp [h] at hj
  | some t => simp [h] at hj; rw [← hj]; rfl

def liftedVal (j : Nat) (t : Nat) : SVal := { lab := ⟨"", t, ""⟩, index := j }

theorem structVals_lifted (tys : List Nat) :
    structVals 0 (liftedFields tys) = tys.mapIdx liftedVal := by
  apply list_eq_map_of_getElem?
  intro j
  rw [structVals_all_keep _ (liftedFields_keep tys), liftedFields_getElem?]
  cases tys[j]? <;> simp [fieldLabel_liftedField, liftedVal]

theorem newValueSetLifted_eq (ps : List Param) (hns : ∀ p ∈ ps, p.isStruct = false) :
    newValueSetLifted ps = .ok
      { hasStruct := true, ptrs := 0, values := (ps.map Param.ty).mapIdx liftedVal,
        named := ((ps.map Param.ty).mapIdx liftedVal).foldl namedStep [],
        typed := ((ps.map Param.ty).mapIdx liftedVal).foldl typedStep [], lifted := true } := by
  unfold newValueSetLifted
  have h1 : ps.any Param.isStruct = false := by
    rw [List.any_eq_false]; intro p hp; simp [hns p hp]
  have h2 : (List.range ps.length).zipWith liftedField (ps.map Param.ty) = liftedFields (ps.map Param.ty) := by
    simp [liftedFields]
  rw [h1, h2, newValueSetFromStruct_eq 0 (by omega), structVals_lifted]
  simp

theorem newValueSet_eq_lifted (ps : List Param) (hns : ∀ p ∈ ps, p.isStruct = false) (hne : ps ≠ []) :
    newValueSet ps = newValueSetLifted ps := by
  unfold newValueSet
  split
  · exact absurd rfl hne
  · next t d fs => rw [hns _ (by simp)]; simp
  · rfl

theorem foldl_typedStep_lifted (tys : List Nat) : ∀ (i : Nat) (acc : List (Nat × SVal)),
    ((acc.map (·.1)) ++ tys).Nodup →
    (tys.mapIdx (fun j t => liftedVal (i + j) t)).foldl typedStep acc =
      acc ++ tys.mapIdx (fun j t => (t, liftedVal (i + j) t)) := by
  induction tys with
  | nil => intro i acc _; simp
  | cons t tys ih =>
    intro i acc hnd
    simp only [List.mapIdx_cons, List.foldl_cons]
    have ht : t ∉ acc.map (·.1) := by
      intro hmem
      rw [List.nodup_append] at hnd
      exact hnd.2.2 t hmem t (by simp) rfl
    have hstep : typedStep acc (liftedVal (i + 0) t) = acc ++ [(t, liftedVal (i + 0) t)] := by
      simp only [typedStep, liftedVal, ne_eq, not_true_eq_false, if_false]
      exact mapSet_of_not_mem _ _ _ ht
    rw [hstep]
    have hnd' : (((acc ++ [(t, liftedVal (i + 0) t)]).map (·.1)) ++ tys).Nodup := by
      simpa [List.append_assoc] using hnd
    have := ih (i + 1) _ hnd'
    have hfun : (fun j t => liftedVal (i + (j + 1)) t) = (fun j t => liftedVal (i + 1 + j) t) := by
      funext j t; congr 1; omega
    have hfun2 : (fun j t => (t, liftedVal (i + (j + 1)) t)) = (fun j t => (t, liftedVal (i + 1 + j) t)) := by
      funext j t; congr 2; omega
    rw [hfun, this, hfun2]
    simp

theorem typed_lifted (tys : List Nat) (hd : tys.Nodup) :
    (tys.mapIdx liftedVal).foldl typedStep [] = tys.mapIdx (fun j t => (t, liftedVal j t)) := by
  have := foldl_typedStep_lifted tys 0 [] (by simpa using hd)
  simpa using this

/-! ### `newFunc` -/

def lastIsErr (outs : List Param) : Bool :=
  match outs.getLast? with
  | some (.plain t) => t == errorTy
  | _ => false

theorem newFunc_ok {ins outs : List Param} {fs : FuncSig} (h : newFunc ins outs = .ok fs) :
    newValueSet (if lastIsErr outs then outs.dropLast else outs) = .ok fs.output ∧
      fs.hasErr = lastIsErr outs := by
  unfold newFunc at h
  change (match newValueSet ins with
    | .error e => .error e
    | .ok i =>
      match newValueSet (if lastIsErr outs then outs.dropLast else outs) with
      | .error e => .error e
      | .ok o => .ok { input := i, output := o, hasErr := lastIsErr outs }) = Except.ok fs at h
  cases hi : newValueSet ins with
  | error e => simp [hi] at h
  | ok i =>
    simp only [hi] at h
    cases ho : newValueSet (if lastIsErr outs then outs.dropLast else outs) with
    | error e => simp [ho] at h
    | ok o =>
      simp only [ho, Except.ok.injEq] at h
      subst h
      exact ⟨rfl, rfl⟩

theorem lastIsErr_concat_error (outs : List Param) : lastIsErr (outs ++ [.plain errorTy]) = true := by
  simp [lastIsErr]

theorem lastIsErr_false (outs : List Param)
    (hl : ∀ p, outs.getLast? = some p → p.isStruct = true ∨ p.ty ≠ errorTy) : lastIsErr outs = false := by
  unfold lastIsErr
  split
  · next t hl' =>
    rcases hl _ hl' with h1 | h1
    · simp [Param.isStruct] at h1
    · simpa [Param.ty] using h1
  · rfl

end ArgMapper
