import ArgMapper.Model.Args
/-!
# Helper lemmas for C16 (and the association-list maps used by C15)
-/
namespace ArgMapper

/-! ### `lower` -/

theorem toLower_toLower (c : Char) : c.toLower.toLower = c.toLower := by
  by_cases h : c.val ≥ 'A'.val ∧ c.val ≤ 'Z'.val
  · have h1 : c.toLower = ⟨c.val + ('a'.val - 'A'.val), by
        have := h.2; have := h.1
        simp only [UInt32.le_iff_toNat_le, ge_iff_le] at *
        left
        simp [UInt32.toNat_add] at *
        omega⟩ := by
      unfold Char.toLower; rw [dif_pos h]
    rw [h1]
    unfold Char.toLower
    rw [dif_neg]
    intro h2
    simp only [UInt32.le_iff_toNat_le, ge_iff_le, UInt32.toNat_add] at h h2
    simp at h h2
    omega
  · have h1 : c.toLower = c := by unfold Char.toLower; rw [dif_neg h]
    rw [h1, h1]

theorem lower_lower (s : String) : lower (lower s) = lower s := by
  unfold lower
  rw [String.map_map]
  congr 1
  funext c
  exact toLower_toLower c

theorem lower_eq_empty {s : String} : lower s = "" ↔ s = "" := String.map_eq_empty

theorem eq_empty_of_lower_eq {n n' : String} (h : lower n = lower n') : n = "" ↔ n' = "" := by
  rw [← lower_eq_empty, h, lower_eq_empty]

/-! ### association-list maps -/

section Maps
variable {κ β : Type} [DecidableEq κ]

theorem mapGet_nil (k : κ) : mapGet ([] : List (κ × β)) k = none := rfl

theorem mapGet_mapSet (m : List (κ × β)) (k k' : κ) (v : β) :
    mapGet (mapSet m k v) k' = if k' = k then some v else mapGet m k' := by
  unfold mapGet mapSet
  induction m with
  | nil => by_cases h : k = k' <;> simp [h, eq_comm]
  | cons a m ih =>
    by_cases h1 : a.1 = k <;> by_cases h2 : a.1 = k' <;> by_cases h : k' = k <;>
      simp_all [List.find?_cons]

/-- the last write to `k` in a list of writes (generic form of `C16.lastWrite`) -/
def lastW (ws : List (κ × β)) (k : κ) : Option β :=
  (ws.reverse.find? (fun w => decide (w.1 = k))).map (·.2)

theorem lastW_nil (k : κ) : lastW ([] : List (κ × β)) k = none := rfl

theorem lastW_singleton (k0 k : κ) (v : β) :
    lastW [(k0, v)] k = if k0 = k then some v else none := by
  unfold lastW
  by_cases h : k0 = k <;> simp [h]

theorem lastW_append (a b : List (κ × β)) (k : κ) :
    lastW (a ++ b) k = (lastW b k).or (lastW a k) := by
  unfold lastW
  rw [List.reverse_append, List.find?_append]
  cases b.reverse.find? (fun w => decide (w.1 = k)) <;> simp

theorem lastW_mem {ws : List (κ × β)} {k : κ} {v : β} (h : lastW ws k = some v) : (k, v) ∈ ws := by
  unfold lastW at h
  cases hf : ws.reverse.find? (fun w => decide (w.1 = k)) with
  | none => simp [hf] at h
  | some w =>
    simp [hf] at h
    have h1 := List.find?_some hf
    have h2 := List.mem_of_find?_eq_some hf
    simp at h1 h2
    obtain ⟨a, b⟩ := w
    simp at h h1
    subst h h1
    exact h2

omit [DecidableEq κ] in
theorem nodup_keys_unique {ws : List (κ × β)} (hd : (ws.map (·.1)).Nodup) {k : κ} {v v' : β}
    (h1 : (k, v) ∈ ws) (h2 : (k, v') ∈ ws) : v = v' := by
  induction ws with
  | nil => simp at h1
  | cons w ws ih =>
    simp only [List.map_cons, List.nodup_cons] at hd
    simp only [List.mem_cons] at h1 h2
    rcases h1 with h1 | h1 <;> rcases h2 with h2 | h2
    · rw [← h1] at h2; simpa using h2.symm
    · exfalso; apply hd.1; rw [← h1]; exact List.mem_map.mpr ⟨_, h2, rfl⟩
    · exfalso; apply hd.1; rw [← h2]; exact List.mem_map.mpr ⟨_, h1, rfl⟩
    · exact ih hd.2 h1 h2

theorem lastW_of_mem {ws : List (κ × β)} (hd : (ws.map (·.1)).Nodup) {k : κ} {v : β}
    (h : (k, v) ∈ ws) : lastW ws k = some v := by
  cases hl : lastW ws k with
  | none =>
    exfalso
    unfold lastW at hl
    simp only [Option.map_eq_none_iff, List.find?_eq_none] at hl
    have := hl (k, v) (by simpa using h)
    simp at this
  | some v' =>
    rw [nodup_keys_unique hd h (lastW_mem hl)]

theorem lastW_perm {ws ws' : List (κ × β)} (hp : ws.Perm ws') (hd : (ws.map (·.1)).Nodup) (k : κ) :
    lastW ws k = lastW ws' k := by
  have hd' : (ws'.map (·.1)).Nodup := (hp.map _).nodup_iff.mp hd
  cases hl : lastW ws k with
  | none =>
    cases hl' : lastW ws' k with
    | none => rfl
    | some v =>
      have := lastW_of_mem hd (hp.mem_iff.mpr (lastW_mem hl'))
      rw [hl] at this; cases this
  | some v =>
    exact (lastW_of_mem hd' (hp.mem_iff.mp (lastW_mem hl))).symm

/-- a fold of steps, each of which behaves as "the step's last write wins", behaves as "the last
write of the whole list wins" -/
theorem get_foldl_lastW {B α : Type} (get : B → κ → Option β) (step : B → α → B)
    (w : α → List (κ × β))
    (hstep : ∀ b a k, get (step b a) k = (lastW (w a) k).or (get b k)) :
    ∀ (l : List α) (b : B) (k : κ), get (l.foldl step b) k = (lastW (l.flatMap w) k).or (get b k) := by
  intro l
  induction l with
  | nil => intro b k; simp [lastW_nil]
  | cons a l ih =>
    intro b k
    rw [List.foldl_cons, ih, hstep, List.flatMap_cons, lastW_append, Option.or_assoc]

end Maps

/-! ### `build` -/

theorem buildFrom_of_not_mem (opts : List Opt) (hn : Opt.nilOpt ∉ opts) (b : Builder) :
    buildFrom b opts = (if (opts.foldl applyOpt b).errs = 0
      then .ok (opts.foldl applyOpt b) else .optErr (opts.foldl applyOpt b)) := by
  induction opts generalizing b with
  | nil => rfl
  | cons o rest ih =>
    simp only [List.mem_cons, not_or] at hn
    have h := ih hn.2 (applyOpt b o)
    cases o <;> first | (exact absurd rfl hn.1) | (simp only [buildFrom, List.foldl_cons]; exact h)

theorem buildFrom_of_mem (opts : List Opt) (h : Opt.nilOpt ∈ opts) (b : Builder) :
    buildFrom b opts = .nilArg := by
  induction opts generalizing b with
  | nil => simp at h
  | cons o rest ih =>
    by_cases ho : o = .nilOpt
    · subst ho; simp [buildFrom]
    · have hr : Opt.nilOpt ∈ rest := by
        simp only [List.mem_cons] at h
        rcases h with h | h
        · exact absurd h.symm ho
        · exact h
      have := ih hr (applyOpt b o)
      cases o <;> first | (exact absurd rfl ho) | (simp only [buildFrom]; exact this)

end ArgMapper
