import ArgMapper.Spec.Flow
import ArgMapper.Spec.Match
import ArgMapper.Proofs.CallGraphEdges
import ArgMapper.Proofs.FlowCompat
import ArgMapper.Proofs.TraverseDfs
/-!
# Helper lemmas for C13: what `prune` keeps, and the shape of the graph before pruning

`Ext R c c'`: `c'` is obtained from `c` by adding vertices and edges between present vertices, each
new edge being allowed by `R`.  Every phase of `callGraph` before `prune` is such an extension, so
well-formedness, monotonicity and "every edge is allowed by `R`" are proved once.
-/
set_option linter.unusedSectionVars false
set_option linter.unusedVariables false
namespace ArgMapper
namespace Prune
open Generated Traverse

/-! ### graph basics -/

section Graph
variable {α : Type} [DecidableEq α]

theorem hasEdge_reverse (g : AGraph α) (a b : α) : g.reverse.hasEdge a b = g.hasEdge b a := by
  unfold AGraph.hasEdge
  rw [AGraph.weight_reverse]

theorem WF_reverse (g : AGraph α) (h : g.WF) : g.reverse.WF := by
  obtain ⟨h1, h2, h3⟩ := h
  refine ⟨h1, ?_, ?_⟩
  · have : (g.reverse.edges.map (fun e => (e.1, e.2.1))) =
        (g.edges.map (fun e => (e.1, e.2.1))).map (fun p => (p.2, p.1)) := by
      simp [AGraph.reverse, List.map_map, Function.comp_def]
    rw [this]
    refine List.Pairwise.map _ ?_ h2
    intro p q hpq heq
    apply hpq
    cases p; cases q
    simp only [Prod.mk.injEq] at heq ⊢
    exact ⟨heq.2, heq.1⟩
  · intro e he
    simp only [AGraph.reverse, List.mem_map] at he
    obtain ⟨e', he', rfl⟩ := he
    exact ⟨(h3 e' he').2, (h3 e' he').1⟩

theorem hasEdge_mem_verts (g : AGraph α) (h : g.WF) (a b : α) (he : g.hasEdge a b = true) :
    a ∈ g.verts ∧ b ∈ g.verts := by
  rw [TraverseDfs.hasEdge_iff] at he
  obtain ⟨e, he, rfl, rfl⟩ := he
  exact h.2.2 e he

end Graph

/-! ### extensions -/

inductive Ext (R : Vtx → Vtx → Prop) : CG → CG → Prop
  | refl (c) : Ext R c c
  | add {c c'} (v : Vtx) : Ext R c c' → Ext R c (c'.add v)
  | addValued {c c'} (v : Vtx) (x : Val) : Ext R c c' → Ext R c (c'.addValued v x)
  | edge {c c'} (u v : Vtx) (w : Int) : Ext R c c' → u ∈ c'.g.verts → v ∈ c'.g.verts → R u v →
      Ext R c (c'.edge u v w)

namespace Ext
variable {R : Vtx → Vtx → Prop}

theorem trans {a b c : CG} (h1 : Ext R a b) (h2 : Ext R b c) : Ext R a c := by
  induction h2 with
  | refl => exact h1
  | add v _ ih => exact .add v ih
  | addValued v x _ ih => exact .addValued v x ih
  | edge u v w _ hu hv hr ih => exact .edge u v w ih hu hv hr

theorem mono {R R' : Vtx → Vtx → Prop} (hR : ∀ u v, R u v → R' u v) {a b : CG} (h : Ext R a b) :
    Ext R' a b := by
  induction h with
  | refl => exact .refl _
  | add v _ ih => exact .add v ih
  | addValued v x _ ih => exact .addValued v x ih
  | edge u v w _ hu hv hr ih => exact .edge u v w ih hu hv (hR _ _ hr)

theorem verts {a b : CG} (h : Ext R a b) {x : Vtx} (hx : x ∈ a.g.verts) : x ∈ b.g.verts := by
  induction h with
  | refl => exact hx
  | add v _ ih => exact (AGraph.mem_add_verts _ _ _).2 (.inl ih)
  | addValued v x _ ih => exact (AGraph.mem_add_verts _ _ _).2 (.inl ih)
  | edge u v w _ hu hv hr ih => exact ih

theorem wf {a b : CG} (h : Ext R a b) (hw : a.g.WF) : b.g.WF := by
  induction h with
  | refl => exact hw
  | add v _ ih => exact AGraph.WF_add _ _ ih
  | addValued v x _ ih => exact AGraph.WF_add _ _ ih
  | edge u v w _ hu hv hr ih => exact AGraph.WF_addEdge _ _ _ _ ih hu hv

theorem edge_mono {a b : CG} (h : Ext R a b) {x y : Vtx} (hx : a.g.hasEdge x y = true) :
    b.g.hasEdge x y = true := by
  induction h with
  | refl => exact hx
  | add v _ ih => show (AGraph.add _ v).hasEdge x y = true; rw [CGE.hasEdge_add]; exact ih
  | addValued v x _ ih => show (AGraph.add _ v).hasEdge _ y = true; rw [CGE.hasEdge_add]; exact ih
  | edge u v w _ hu hv hr ih =>
    show (AGraph.addEdge _ u v w).hasEdge x y = true
    exact (CGE.hasEdge_addEdge _ _ _ _ _ _).2 (.inr ih)

theorem edge_inv {a b : CG} (h : Ext R a b) {x y : Vtx} (hx : b.g.hasEdge x y = true) :
    a.g.hasEdge x y = true ∨ R x y := by
  induction h with
  | refl => exact .inl hx
  | add v _ ih =>
    have : (AGraph.add _ v).hasEdge x y = true := hx
    rw [CGE.hasEdge_add] at this; exact ih this
  | addValued v x' _ ih =>
    have : (AGraph.add _ v).hasEdge x y = true := hx
    rw [CGE.hasEdge_add] at this; exact ih this
  | edge u v w _ hu hv hr ih =>
    have : (AGraph.addEdge _ u v w).hasEdge x y = true := hx
    rcases (CGE.hasEdge_addEdge _ _ _ _ _ _).1 this with ⟨rfl, rfl⟩ | h'
    · exact .inr hr
    · exact ih h'

/-- a fold whose every step extends the graph extends the graph -/
theorem foldl {β : Type} (step : CG → β → CG) (c0 : CG) :
    ∀ (l : List β), (∀ c x, x ∈ l → Ext R c0 c → Ext R c (step c x)) →
      ∀ c, Ext R c0 c → Ext R c0 (l.foldl step c) := by
  intro l
  induction l with
  | nil => intro _ c h; exact h
  | cons a l ih =>
    intro hstep c h
    rw [List.foldl_cons]
    apply ih
    · intro c x hx hc; exact hstep c x (List.mem_cons_of_mem _ hx) hc
    · exact h.trans (hstep c a List.mem_cons_self h)

/-- relative version -/
theorem foldl_rel {β : Type} (step : CG → β → CG) (c0 : CG) :
    ∀ (l : List β), (∀ c x, x ∈ l → Ext R c0 c → Ext R c (step c x)) →
      ∀ c, Ext R c0 c → Ext R c (l.foldl step c) := by
  intro l
  induction l with
  | nil => intro _ c h; exact .refl _
  | cons a l ih =>
    intro hstep c h
    rw [List.foldl_cons]
    have h1 := hstep c a List.mem_cons_self h
    exact h1.trans (ih (fun c x hx hc => hstep c x (List.mem_cons_of_mem _ hx) hc) _ (h.trans h1))

theorem foldl' {β : Type} (step : CG → β → CG) (c0 : CG) (l : List β)
    (hstep : ∀ c x, x ∈ l → Ext R c0 c → Ext R c (step c x)) : Ext R c0 (l.foldl step c0) :=
  foldl step c0 l hstep c0 (.refl _)

/-- a property established by the step for `x` and preserved by extensions holds after the fold -/
theorem foldl_mem {β : Type} (step : CG → β → CG) (Q : CG → Prop) (x : β) (c0 : CG)
    (hq : ∀ c, Q (step c x)) (hpres : ∀ c c', Ext R c c' → Q c → Q c') :
    ∀ (l : List β), (∀ c y, y ∈ l → Ext R c0 c → Ext R c (step c y)) → x ∈ l →
      ∀ c, Ext R c0 c → Q (l.foldl step c) := by
  intro l
  induction l with
  | nil => intro _ h; simp at h
  | cons a l ih =>
    intro hext hx c hc
    rw [List.foldl_cons]
    have h1 := hext c a List.mem_cons_self hc
    have hext' : ∀ c y, y ∈ l → Ext R c0 c → Ext R c (step c y) :=
      fun c y hy hc => hext c y (List.mem_cons_of_mem _ hy) hc
    rcases List.mem_cons.1 hx with rfl | hx
    · exact hpres _ _ (foldl_rel step c0 l hext' _ (hc.trans h1)) (hq c)
    · exact ih hext' hx _ (hc.trans h1)

end Ext

/-! ### the phases are extensions -/

variable {R : Vtx → Vtx → Prop}

/-- add a vertex, then an edge from / to it -/
theorem ext_add_edge_to {c0 c : CG} (h : Ext R c0 c) (u v : Vtx) (w : Int) (hu : u ∈ c.g.verts)
    (hr : R u v) : Ext R c0 ((c.add v).edge u v w) :=
  .edge u v w (.add v h) ((AGraph.mem_add_verts _ _ _).2 (.inl hu))
    ((AGraph.mem_add_verts _ _ _).2 (.inr rfl)) hr

theorem ext_add_edge_from {c0 c : CG} (h : Ext R c0 c) (u v : Vtx) (w : Int) (hv : v ∈ c.g.verts)
    (hr : R u v) : Ext R c0 ((c.add u).edge u v w) :=
  .edge u v w (.add u h) ((AGraph.mem_add_verts _ _ _).2 (.inr rfl))
    ((AGraph.mem_add_verts _ _ _).2 (.inl hv)) hr

theorem ext_funcGraph (c : CG) (f : FuncDesc) (io : Bool) (hroot : Vtx.root ∈ c.g.verts)
    (h0 : f.input.empty = true → R (.func f.key) .root)
    (h1 : ∀ val ∈ f.input.values, R (.func f.key) val.lab.vertex)
    (h2 : io = true → ∀ p ∈ f.output.named, R (.value p.1 p.2.lab.ty p.2.lab.sub) (.func f.key))
    (h3 : io = true → ∀ p ∈ f.output.typed, R (.out p.2.lab.ty p.2.lab.sub) (.func f.key)) :
    Ext R c (funcGraph c f io) := by
  unfold funcGraph
  dsimp only
  have e1 : Ext R c (c.add (Vtx.func f.key)) := .add _ (.refl c)
  have hv : ∀ {c'}, Ext R (c.add (Vtx.func f.key)) c' → Vtx.func f.key ∈ c'.g.verts :=
    fun h => h.verts ((AGraph.mem_add_verts _ _ _).2 (.inr rfl))
  have hr : ∀ {c'}, Ext R (c.add (Vtx.func f.key)) c' → Vtx.root ∈ c'.g.verts :=
    fun h => h.verts ((AGraph.mem_add_verts _ _ _).2 (.inl hroot))
  have e2 : Ext R (c.add (Vtx.func f.key))
      (if f.input.empty = true then (c.add (Vtx.func f.key)).edge (Vtx.func f.key) .root weightNormal
       else c.add (Vtx.func f.key)) := by
    split
    · next he => exact .edge _ _ _ (.refl _) (hv (.refl _)) (hr (.refl _)) (h0 he)
    · exact .refl _
  have e3 := Ext.foldl (R := R) (fun (c : CG) (val : SVal) =>
      if val.lab.name ≠ "" then
        (c.add (.value val.lab.name val.lab.ty val.lab.sub)).edge (Vtx.func f.key)
          (.value val.lab.name val.lab.ty val.lab.sub) weightNormal
      else
        (c.add (.arg val.lab.ty val.lab.sub)).edge (Vtx.func f.key) (.arg val.lab.ty val.lab.sub) weightTyped)
    (c.add (Vtx.func f.key)) f.input.values
    (by
      intro c' val hval hc'
      have hR := h1 val hval
      unfold Label.vertex at hR
      split
      · next hn => rw [if_pos hn] at hR; exact ext_add_edge_to (.refl _) _ _ _ (hv hc') hR
      · next hn => rw [if_neg hn] at hR; exact ext_add_edge_to (.refl _) _ _ _ (hv hc') hR)
    _ e2
  split
  · exact e1.trans e3
  · next hio =>
    have hio' : io = true := by simpa using hio
    apply e1.trans
    apply Ext.foldl (R := R) _ (c.add (Vtx.func f.key))
    · intro c' p hp hc'
      exact ext_add_edge_from (.refl _) _ _ _ (hv hc') (h3 hio' p hp)
    · apply Ext.foldl (R := R) _ (c.add (Vtx.func f.key))
      · intro c' p hp hc'
        exact ext_add_edge_from (.refl _) _ _ _ (hv hc') (h2 hio' p hp)
      · exact e3

/-! ### `inputsGraph` -/

theorem foldl_pair {β : Type} (v : β → Vtx) (x : β → Val) (l : List β) :
    ∀ (c : CG) (L : List Vtx),
    l.foldl (fun (acc : CG × List Vtx) p =>
      (((acc.1.addValued (v p) (x p)).edge (v p) .root weightNormal), acc.2 ++ [v p])) (c, L) =
    (l.foldl (fun c p => (c.addValued (v p) (x p)).edge (v p) .root weightNormal) c, L ++ l.map v) := by
  induction l with
  | nil => intro c L; simp
  | cons a l ih =>
    intro c L
    rw [List.foldl_cons, ih]
    simp

/-- the graph component of `inputsGraph` -/
def inputsCG (c : CG) (b : Builder) : CG :=
  b.typedSub.foldl (fun c p => (c.addValued (.out p.1.1 p.1.2) p.2).edge (.out p.1.1 p.1.2) .root weightNormal)
  (b.typed.foldl (fun c p => (c.addValued (.out p.1 "") p.2).edge (.out p.1 "") .root weightNormal)
  (b.namedSub.foldl (fun c p => (c.addValued (.value p.1.1 p.2.ty p.1.2) p.2).edge (.value p.1.1 p.2.ty p.1.2) .root weightNormal)
  (b.named.foldl (fun c p => (c.addValued (.value p.1 p.2.ty "") p.2).edge (.value p.1 p.2.ty "") .root weightNormal) c)))

/-- the vertex-list component of `inputsGraph` -/
def inputsList (b : Builder) : List Vtx :=
  b.named.map (fun p => Vtx.value p.1 p.2.ty "") ++
  b.namedSub.map (fun p => Vtx.value p.1.1 p.2.ty p.1.2) ++
  b.typed.map (fun p => Vtx.out p.1 "") ++
  b.typedSub.map (fun p => Vtx.out p.1.1 p.1.2)

theorem inputsGraph_eq (c : CG) (b : Builder) : inputsGraph c b = (inputsCG c b, inputsList b) := by
  unfold inputsGraph inputsCG inputsList
  dsimp only
  rw [foldl_pair (fun p : String × Val => Vtx.value p.1 p.2.ty "") (fun p => p.2)]
  rw [foldl_pair (fun p : (String × String) × Val => Vtx.value p.1.1 p.2.ty p.1.2) (fun p => p.2)]
  rw [foldl_pair (fun p : Nat × Val => Vtx.out p.1 "") (fun p => p.2)]
  rw [foldl_pair (fun p : (Nat × String) × Val => Vtx.out p.1.1 p.1.2) (fun p => p.2)]
  simp

theorem ext_inStep {c0 c : CG} (h : Ext R c0 c) (v : Vtx) (x : Val) (hroot : Vtx.root ∈ c.g.verts)
    (hr : R v .root) : Ext R c0 ((c.addValued v x).edge v .root weightNormal) :=
  .edge v .root _ (.addValued v x h) ((AGraph.mem_add_verts _ _ _).2 (.inr rfl))
    ((AGraph.mem_add_verts _ _ _).2 (.inl hroot)) hr

theorem ext_inputsCG (c : CG) (b : Builder) (hroot : Vtx.root ∈ c.g.verts)
    (hin : ∀ u ∈ inputsList b, R u .root) : Ext R c (inputsCG c b) := by
  unfold inputsCG
  apply Ext.foldl (R := R) _ c
  · intro c' p hp hc'
    refine ext_inStep (.refl _) _ _ (hc'.verts hroot) (hin _ ?_)
    simp only [inputsList, List.mem_append, List.mem_map]
    exact .inr ⟨p, hp, rfl⟩
  apply Ext.foldl (R := R) _ c
  · intro c' p hp hc'
    refine ext_inStep (.refl _) _ _ (hc'.verts hroot) (hin _ ?_)
    simp only [inputsList, List.mem_append, List.mem_map]
    exact .inl (.inr ⟨p, hp, rfl⟩)
  apply Ext.foldl (R := R) _ c
  · intro c' p hp hc'
    refine ext_inStep (.refl _) _ _ (hc'.verts hroot) (hin _ ?_)
    simp only [inputsList, List.mem_append, List.mem_map]
    exact .inl (.inl (.inr ⟨p, hp, rfl⟩))
  apply Ext.foldl' (R := R) _ c
  · intro c' p hp hc'
    refine ext_inStep (.refl _) _ _ (hc'.verts hroot) (hin _ ?_)
    simp only [inputsList, List.mem_append, List.mem_map]
    exact .inl (.inl (.inl ⟨p, hp, rfl⟩))

/-! ### the rule phases R3–R7 only add edges into data vertices -/

theorem ext_phaseR3 (c : CG) (hd : ∀ u v, v.isData = true → R u v) : Ext R c (phaseR3 c) := by
  unfold phaseR3
  apply Ext.foldl' (R := R) _ c
  intro c' v hv hc'
  rw [List.mem_filter] at hv
  have hvm : v ∈ c'.g.verts := hc'.verts hv.1
  have hvd : v.isData = true := by simp [Vtx.isData, hv.2]
  have e1 : Ext R c' ((c'.add (.out v.ty "")).edge v (.out v.ty "") weightTyped) :=
    ext_add_edge_to (.refl _) _ _ _ hvm (hd _ _ rfl)
  have e2 : Ext R c' ((((c'.add (.out v.ty "")).edge v (.out v.ty "") weightTyped).add (.arg v.ty "")).edge
      (.arg v.ty "") v weightTyped) :=
    ext_add_edge_from e1 _ _ _ (e1.verts hvm) (hd _ _ hvd)
  dsimp only
  split
  · exact ext_add_edge_from e2 _ _ _ (e2.verts hvm) (hd _ _ hvd)
  · exact e2

theorem ext_phaseR4 (c : CG) (hd : ∀ u v, v.isData = true → R u v) : Ext R c (phaseR4 c) := by
  unfold phaseR4
  apply Ext.foldl' (R := R) _ c
  intro c' v hv hc'
  rw [List.mem_filter] at hv
  exact ext_add_edge_to (.refl _) _ _ _ (hc'.verts hv.1) (hd _ _ rfl)

/-- the common shape of R5, R6, R7: for selected present vertices `v`, edges to selected present
data vertices `v2` -/
theorem ext_nested (c : CG) (hd : ∀ u v, v.isData = true → R u v) (p : CG → Vtx → Bool)
    (q : Vtx → Vtx → Bool) (w : Int) (hq : ∀ v v2, q v v2 = true → v2.isData = true) :
    Ext R c ((c.g.verts.filter (p c)).foldl (fun c v =>
      (c.g.verts.filter (q v)).foldl (fun c v2 => c.edge v v2 w) c) c) := by
  apply Ext.foldl' (R := R) _ c
  intro c' v hv hc'
  rw [List.mem_filter] at hv
  apply Ext.foldl' (R := R) _ c'
  intro c'' v2 hv2 hc''
  rw [List.mem_filter] at hv2
  exact .edge _ _ _ (.refl _) (hc''.verts (hc'.verts hv.1)) (hc''.verts hv2.1) (hd _ _ (hq _ _ hv2.2))

theorem isData_of_isOut {v : Vtx} (h : v.isOut = true) : v.isData = true := by
  simp [Vtx.isData, h]
theorem isData_of_isValue {v : Vtx} (h : v.isValue = true) : v.isData = true := by
  simp [Vtx.isData, h]
theorem isData_of_isArg {v : Vtx} (h : v.isArg = true) : v.isData = true := by
  simp [Vtx.isData, h]

theorem ext_phaseR5 (e : TypeEnv) (sk : Bool) (c : CG) (hd : ∀ u v, v.isData = true → R u v) :
    Ext R c (phaseR5 e sk c) := by
  unfold phaseR5
  refine ext_nested c hd (fun _ v => v.isOut && e.isIface v.ty)
    (fun v v2 => v2.isOut && decide (v2 ≠ v) && e.impl v2.ty v.ty && !(sk && v2.ty == v.ty)) _ ?_
  intro v v2 h
  simp only [Bool.and_eq_true] at h
  exact isData_of_isOut h.1.1.1

theorem ext_phaseR6 (nt : Bool) (c : CG) (hd : ∀ u v, v.isData = true → R u v) :
    Ext R c (phaseR6 nt c) := by
  unfold phaseR6
  refine ext_nested c hd (fun c v => v.isValue && v.sub == "" && (c.valueOf v).isNone)
    (fun v v2 => v2.isValue && v2.ty == v.ty && v2.sub != "" && !(nt && v2.name != v.name)) _ ?_
  intro v v2 h
  simp only [Bool.and_eq_true] at h
  exact isData_of_isValue h.1.1.1

theorem ext_phaseR7 (c : CG) (hd : ∀ u v, v.isData = true → R u v) : Ext R c (phaseR7 c) := by
  unfold phaseR7
  dsimp only
  have e1 := ext_nested c hd (fun _ v => v.isArg && v.sub == "")
    (fun v v2 => v2.isOut && v2.ty == v.ty && v2.sub != "") weightTypedOtherSubtype (by
      intro v v2 h
      simp only [Bool.and_eq_true] at h
      exact isData_of_isOut h.1.1)
  refine e1.trans ?_
  refine ext_nested _ hd (fun _ v => v.isArg && v.sub != "")
    (fun v v2 => v2.isOut && v2.ty == v.ty && v2.sub == "") weightTypedOtherSubtype ?_
  intro v v2 h
  simp only [Bool.and_eq_true] at h
  exact isData_of_isOut h.1.1

/-! ### the graph before pruning -/

/-- the target's function vertex with its requirements -/
def base (target : FuncDesc) : CG := funcGraph (CG.empty.add .root) target false

def convStep (funcs : Nat → Option FuncDesc) (c : CG) (fid : Nat) : CG :=
  match funcs fid with
  | some f => funcGraph c f true
  | none => c

/-- the graph `callGraph` builds (no Redefine, repaired rules) before `prune` -/
def pre (e : TypeEnv) (b : Builder) (funcs : Nat → Option FuncDesc) (target : FuncDesc) : CG :=
  phaseR7 (phaseR6 true (phaseR5 e true (phaseR4 (phaseR3
    (b.convs.foldl (convStep funcs) (inputsCG (base target) b))))))

theorem callGraph_eq (e : TypeEnv) (b : Builder) (funcs : Nat → Option FuncDesc) (target : FuncDesc) :
    callGraph {} e b funcs target false none =
    { cg := prune (pre e b funcs target) (.func target.key), target := .func target.key,
      reqs := (base target).g.outs (.func target.key), inputs := inputsList b,
      unsat := (((base target).g.outs (.func target.key)).filter
        (fun r => !(prune (pre e b funcs target) (.func target.key)).g.hasVertex r)).map Vtx.label } := by
  unfold callGraph
  dsimp only
  rw [inputsGraph_eq]
  rfl

theorem root_mem_init : Vtx.root ∈ (CG.empty.add .root).g.verts :=
  (AGraph.mem_add_verts _ _ _).2 (.inr rfl)

theorem wf_init : (CG.empty.add .root).g.WF := AGraph.WF_add _ _ AGraph.WF_empty

theorem ext_base (target : FuncDesc)
    (h0 : target.input.empty = true → R (.func target.key) .root)
    (h1 : ∀ val ∈ target.input.values, R (.func target.key) val.lab.vertex) :
    Ext R (CG.empty.add .root) (base target) :=
  ext_funcGraph _ _ _ root_mem_init h0 h1 (fun h => by simp at h) (fun h => by simp at h)

/-- converters and rule phases -/
theorem ext_tail (e : TypeEnv) (b : Builder) (funcs : Nat → Option FuncDesc) (c : CG)
    (hroot : Vtx.root ∈ c.g.verts)
    (hd : ∀ u v, v.isData = true → R u v) (hfr : ∀ k, R (.func k) .root)
    (hon : ∀ fid ∈ b.convs, ∀ f, funcs fid = some f → ∀ p ∈ f.output.named,
      R (.value p.1 p.2.lab.ty p.2.lab.sub) (.func f.key))
    (hot : ∀ fid ∈ b.convs, ∀ f, funcs fid = some f → ∀ p ∈ f.output.typed,
      R (.out p.2.lab.ty p.2.lab.sub) (.func f.key)) :
    Ext R c (phaseR7 (phaseR6 true (phaseR5 e true (phaseR4 (phaseR3
      (b.convs.foldl (convStep funcs) c)))))) := by
  have hparam : ∀ k (l : Label), R (.func k) l.vertex := by
    intro k l
    apply hd
    unfold Label.vertex
    split <;> rfl
  have e2 : Ext R c (b.convs.foldl (convStep funcs) c) := by
    apply Ext.foldl' (R := R)
    intro c' fid hfid hc
    unfold convStep
    split
    · next f hf =>
      exact ext_funcGraph c' f true (hc.verts hroot) (fun _ => hfr _) (fun val _ => hparam _ _)
        (fun _ => hon fid hfid f hf) (fun _ => hot fid hfid f hf)
    · exact .refl _
  exact ((((e2.trans (ext_phaseR3 _ hd)).trans (ext_phaseR4 _ hd)).trans (ext_phaseR5 e true _ hd)).trans
    (ext_phaseR6 true _ hd)).trans (ext_phaseR7 _ hd)

/-- `pre` extends the initial graph by edges allowed by `R`, provided `R` allows: edges into data
vertices, function → root, supplied vertex → root, converter output → converter -/
theorem ext_pre (e : TypeEnv) (b : Builder) (funcs : Nat → Option FuncDesc) (target : FuncDesc)
    (hd : ∀ u v, v.isData = true → R u v) (hfr : ∀ k, R (.func k) .root)
    (hin : ∀ u ∈ inputsList b, R u .root)
    (hon : ∀ fid ∈ b.convs, ∀ f, funcs fid = some f → ∀ p ∈ f.output.named,
      R (.value p.1 p.2.lab.ty p.2.lab.sub) (.func f.key))
    (hot : ∀ fid ∈ b.convs, ∀ f, funcs fid = some f → ∀ p ∈ f.output.typed,
      R (.out p.2.lab.ty p.2.lab.sub) (.func f.key)) :
    Ext R (CG.empty.add .root) (pre e b funcs target) := by
  have hparam : ∀ k (l : Label), R (.func k) l.vertex := by
    intro k l
    apply hd
    unfold Label.vertex
    split <;> rfl
  have e0 : Ext R (CG.empty.add .root) (base target) :=
    ext_base target (fun _ => hfr _) (fun val _ => hparam _ _)
  have e1 : Ext R (CG.empty.add .root) (inputsCG (base target) b) :=
    e0.trans (ext_inputsCG _ b (e0.verts root_mem_init) hin)
  unfold pre
  exact e1.trans (ext_tail e b funcs _ (e1.verts root_mem_init) hd hfr hon hot)

theorem ext_pre_true (e : TypeEnv) (b : Builder) (funcs : Nat → Option FuncDesc) (target : FuncDesc) :
    Ext (fun _ _ => True) (CG.empty.add .root) (pre e b funcs target) :=
  ext_pre e b funcs target (fun _ _ _ => trivial) (fun _ => trivial) (fun _ _ => trivial)
    (fun _ _ _ _ _ _ => trivial) (fun _ _ _ _ _ _ => trivial)

theorem pre_wf (e : TypeEnv) (b : Builder) (funcs : Nat → Option FuncDesc) (target : FuncDesc) :
    (pre e b funcs target).g.WF := (ext_pre_true e b funcs target).wf wf_init

theorem pre_root (e : TypeEnv) (b : Builder) (funcs : Nat → Option FuncDesc) (target : FuncDesc) :
    Vtx.root ∈ (pre e b funcs target).g.verts := (ext_pre_true e b funcs target).verts root_mem_init

theorem init_no_edge (x y : Vtx) : (CG.empty.add .root).g.hasEdge x y = false := by
  show (AGraph.add _ _).hasEdge x y = false
  rw [CGE.hasEdge_add]
  rfl

/-- every edge of `pre` obeys a rule -/
theorem pre_edgeOK (e : TypeEnv) (b : Builder) (funcs : Nat → Option FuncDesc) (target : FuncDesc) :
    EdgeOK e (pre e b funcs target).g := by
  have h0 : CGE.Inv e (inputsCG (base target) b) := by
    have := CGE.inv_inputsGraph (e := e) b
      (CGE.inv_funcGraph target false (CGE.inv_add .root (CGE.inv_empty e)))
    rw [inputsGraph_eq] at this
    exact this
  have h1 := CGE.foldl_inv' (CGE.Inv e) (convStep funcs)
    (by
      intro c fid hc
      unfold convStep
      split
      · exact CGE.inv_funcGraph _ _ hc
      · exact hc)
    b.convs _ h0
  exact (CGE.inv_phaseR7 (CGE.inv_phaseR6 (CGE.inv_phaseR5 (CGE.inv_phaseR4 (CGE.inv_phaseR3 h1))))).1

/-! ### `prune` -/

theorem mem_foldl_remove (l : List Vtx) : ∀ (c : CG) (x : Vtx),
    x ∈ (l.foldl (fun c v => { c with g := c.g.remove v }) c).g.verts ↔ x ∈ c.g.verts ∧ x ∉ l := by
  induction l with
  | nil => intro c x; simp
  | cons a l ih =>
    intro c x
    rw [List.foldl_cons, ih]
    simp only [AGraph.mem_remove_verts, List.mem_cons, not_or]
    constructor
    · rintro ⟨⟨h1, h2⟩, h3⟩; exact ⟨h1, h2, h3⟩
    · rintro ⟨h1, h2, h3⟩; exact ⟨⟨h1, h2⟩, h3⟩

/-- the callback of the pruning traversal -/
def pcb (t : Vtx) : Vtx → DfsAct := fun v => if v = t then .skip else .descend

theorem mem_prune_verts (c : CG) (t x : Vtx) :
    x ∈ (prune c t).g.verts ↔
      x ∈ c.g.verts ∧ (x = .root ∨ x ∈ (DFS c.g.reverse (pcb t) .root).log) := by
  unfold prune
  dsimp only
  rw [mem_foldl_remove]
  simp only [List.mem_filter, Bool.not_eq_true', decide_eq_false_iff_not, List.mem_cons, not_and,
    Classical.not_not]
  constructor
  · rintro ⟨h1, h2⟩; exact ⟨h1, h2 h1⟩
  · rintro ⟨h1, h2⟩; exact ⟨h1, fun _ => h2⟩

/-- reachability used by the pruning traversal, in terms of the un-reversed graph -/
inductive Expl (g : AGraph Vtx) (t : Vtx) : Vtx → Prop
  | start : Expl g t .root
  | step {u w} : Expl g t u → g.hasEdge w u = true → w ≠ .root → w ≠ t → Expl g t w

theorem expl_of (g : AGraph Vtx) (t u : Vtx) (h : TraverseDfs.Expl g.reverse (pcb t) .root u) :
    Expl g t u := by
  induction h with
  | start => exact .start
  | step _ he hne hd ih =>
    rw [hasEdge_reverse] at he
    refine .step ih he hne ?_
    intro heq
    simp [pcb, heq] at hd

theorem log_iff (g : AGraph Vtx) (hwf : g.WF) (hroot : Vtx.root ∈ g.verts) (t x : Vtx) :
    x ∈ (DFS g.reverse (pcb t) .root).log ↔ TraverseDfs.Rep g.reverse (pcb t) .root x := by
  have := TraverseDfs.DFS_exact (WF_reverse g hwf) (pcb t) .root hroot (by
    intro w _
    unfold pcb
    split <;> simp)
  exact this.2.2 x

/-- what is kept has an edge to an explored vertex -/
theorem kept_edge (g : AGraph Vtx) (hwf : g.WF) (hroot : Vtx.root ∈ g.verts) (t x : Vtx)
    (h : x ∈ (DFS g.reverse (pcb t) .root).log) : ∃ u, Expl g t u ∧ g.hasEdge x u = true := by
  obtain ⟨_, u, hu, he⟩ := (log_iff g hwf hroot t x).1 h
  rw [hasEdge_reverse] at he
  exact ⟨u, expl_of g t u hu, he⟩

/-- a vertex adjacent to the root is kept -/
theorem kept_of_edge_root (g : AGraph Vtx) (hwf : g.WF) (hroot : Vtx.root ∈ g.verts) (t x : Vtx)
    (hx : x ≠ .root) (he : g.hasEdge x .root = true) : x ∈ (DFS g.reverse (pcb t) .root).log := by
  rw [log_iff g hwf hroot]
  refine ⟨hx, .root, .start, ?_⟩
  rw [hasEdge_reverse]
  exact he

/-! ### the target's requirement vertices -/

theorem reqs_sub (target : FuncDesc) (r : Vtx) (h : r ∈ (base target).g.outs (.func target.key)) :
    r = .root ∨ ∃ val ∈ target.input.values, r = val.lab.vertex := by
  rw [← TraverseDfs.hasEdge_iff_mem_outs] at h
  have hext : Ext (fun _ v => v = Vtx.root ∨ ∃ val ∈ target.input.values, v = val.lab.vertex)
      (CG.empty.add .root) (base target) :=
    ext_base target (fun _ => .inl rfl) (fun val hval => .inr ⟨val, hval, rfl⟩)
  rcases hext.edge_inv h with h' | h'
  · rw [init_no_edge] at h'; exact absurd h' (by simp)
  · exact h'

theorem reqs_sup (target : FuncDesc) (val : SVal) (hval : val ∈ target.input.values) :
    val.lab.vertex ∈ (base target).g.outs (.func target.key) := by
  rw [← TraverseDfs.hasEdge_iff_mem_outs]
  unfold base funcGraph
  dsimp only
  have e1 : Ext (fun _ _ => True) ((CG.empty.add .root).add (Vtx.func target.key))
      (if target.input.empty = true then
        ((CG.empty.add .root).add (Vtx.func target.key)).edge (Vtx.func target.key) .root weightNormal
       else (CG.empty.add .root).add (Vtx.func target.key)) := by
    split
    · exact .edge _ _ _ (.refl _) ((AGraph.mem_add_verts _ _ _).2 (.inr rfl))
        ((AGraph.mem_add_verts _ _ _).2 (.inl root_mem_init)) trivial
    · exact .refl _
  have := Ext.foldl_mem (R := fun _ _ => True) (fun (c : CG) (val : SVal) =>
      if val.lab.name ≠ "" then
        (c.add (.value val.lab.name val.lab.ty val.lab.sub)).edge (Vtx.func target.key)
          (.value val.lab.name val.lab.ty val.lab.sub) weightNormal
      else
        (c.add (.arg val.lab.ty val.lab.sub)).edge (Vtx.func target.key) (.arg val.lab.ty val.lab.sub) weightTyped)
    (fun c => c.g.hasEdge (.func target.key) val.lab.vertex = true) val
    ((CG.empty.add .root).add (Vtx.func target.key))
    (by
      intro c
      unfold Label.vertex
      split
      · exact (CGE.hasEdge_addEdge _ _ _ _ _ _).2 (.inl ⟨rfl, rfl⟩)
      · exact (CGE.hasEdge_addEdge _ _ _ _ _ _).2 (.inl ⟨rfl, rfl⟩))
    (fun c c' h hq => h.edge_mono hq) target.input.values
    (by
      intro c y _ hc
      have hv : Vtx.func target.key ∈ c.g.verts := hc.verts ((AGraph.mem_add_verts _ _ _).2 (.inr rfl))
      split
      · exact ext_add_edge_to (.refl _) _ _ _ hv trivial
      · exact ext_add_edge_to (.refl _) _ _ _ hv trivial)
    hval _ e1
  simpa using this

/-! ### the unsatisfied list -/

theorem mem_unsat_iff (e : TypeEnv) (b : Builder) (funcs : Nat → Option FuncDesc) (target : FuncDesc)
    (p : Label) :
    p ∈ (callGraph {} e b funcs target false none).unsat ↔
      ∃ r ∈ (base target).g.outs (.func target.key),
        r ∉ (prune (pre e b funcs target) (.func target.key)).g.verts ∧ r.label = p := by
  rw [callGraph_eq]
  simp only [List.mem_map, List.mem_filter, AGraph.hasVertex, Bool.not_eq_true',
    decide_eq_false_iff_not]
  constructor
  · rintro ⟨r, ⟨h1, h2⟩, h3⟩; exact ⟨r, h1, h2, h3⟩
  · rintro ⟨r, h1, h2, h3⟩; exact ⟨r, ⟨h1, h2⟩, h3⟩

theorem inputs_eq (e : TypeEnv) (b : Builder) (funcs : Nat → Option FuncDesc) (target : FuncDesc) :
    (callGraph {} e b funcs target false none).inputs = inputsList b := by
  rw [callGraph_eq]

theorem root_kept (e : TypeEnv) (b : Builder) (funcs : Nat → Option FuncDesc) (target : FuncDesc) :
    Vtx.root ∈ (prune (pre e b funcs target) (.func target.key)).g.verts :=
  (mem_prune_verts _ _ _).2 ⟨pre_root e b funcs target, .inl rfl⟩

/-- a listed requirement is the vertex of a parameter -/
theorem unsat_param (e : TypeEnv) (b : Builder) (funcs : Nat → Option FuncDesc) (target : FuncDesc)
    (p : Label) (hp : p ∈ (callGraph {} e b funcs target false none).unsat) :
    p ∈ target.input.labels ∧
      p.vertex ∉ (prune (pre e b funcs target) (.func target.key)).g.verts := by
  obtain ⟨r, hr, hnk, hl⟩ := (mem_unsat_iff e b funcs target p).1 hp
  rcases reqs_sub target r hr with rfl | ⟨val, hval, rfl⟩
  · exact absurd (root_kept e b funcs target) hnk
  · rw [FlowCompat.Label.vertex_label] at hl
    subst hl
    exact ⟨List.mem_map.2 ⟨val, hval, rfl⟩, hnk⟩

/-- a parameter whose vertex is not kept is listed -/
theorem param_unsat (e : TypeEnv) (b : Builder) (funcs : Nat → Option FuncDesc) (target : FuncDesc)
    (p : Label) (hp : p ∈ target.input.labels)
    (hnk : p.vertex ∉ (prune (pre e b funcs target) (.func target.key)).g.verts) :
    p ∈ (callGraph {} e b funcs target false none).unsat := by
  obtain ⟨val, hval, rfl⟩ := List.mem_map.1 hp
  exact (mem_unsat_iff e b funcs target _).2
    ⟨_, reqs_sup target val hval, hnk, FlowCompat.Label.vertex_label _⟩

theorem vertex_ne_root (p : Label) : p.vertex ≠ .root := by
  unfold Label.vertex
  split <;> simp

/-! ### supplied values are adjacent to the root -/

def inputsPairs (b : Builder) : List (Vtx × Val) :=
  b.named.map (fun p => (Vtx.value p.1 p.2.ty "", p.2)) ++
  b.namedSub.map (fun p => (Vtx.value p.1.1 p.2.ty p.1.2, p.2)) ++
  b.typed.map (fun p => (Vtx.out p.1 "", p.2)) ++
  b.typedSub.map (fun p => (Vtx.out p.1.1 p.1.2, p.2))

theorem inputsCG_eq (c : CG) (b : Builder) :
    inputsCG c b = (inputsPairs b).foldl
      (fun c vx => (c.addValued vx.1 vx.2).edge vx.1 .root weightNormal) c := by
  simp [inputsCG, inputsPairs, List.foldl_append, List.foldl_map]

theorem inputsList_eq (b : Builder) : inputsList b = (inputsPairs b).map (·.1) := by
  simp [inputsList, inputsPairs, List.map_append, List.map_map, Function.comp_def]

theorem inputsCG_edge_root (c : CG) (b : Builder) (hroot : Vtx.root ∈ c.g.verts) (u : Vtx)
    (hu : u ∈ inputsList b) : (inputsCG c b).g.hasEdge u .root = true := by
  rw [inputsList_eq, List.mem_map] at hu
  obtain ⟨vx, hvx, rfl⟩ := hu
  rw [inputsCG_eq]
  exact Ext.foldl_mem (R := fun _ _ => True)
    (fun c (vx : Vtx × Val) => (c.addValued vx.1 vx.2).edge vx.1 .root weightNormal)
    (fun c => c.g.hasEdge vx.1 .root = true) vx c
    (fun c => (CGE.hasEdge_addEdge _ _ _ _ _ _).2 (.inl ⟨rfl, rfl⟩))
    (fun c c' h hq => h.edge_mono hq) _
    (fun c' y _ hc' => ext_inStep (.refl _) _ _ (hc'.verts hroot) trivial)
    hvx c (.refl _)

theorem inputs_edge_root (e : TypeEnv) (b : Builder) (funcs : Nat → Option FuncDesc)
    (target : FuncDesc) (u : Vtx) (hu : u ∈ inputsList b) :
    (pre e b funcs target).g.hasEdge u .root = true := by
  have e0 : Ext (fun _ _ => True) (CG.empty.add .root) (base target) :=
    ext_base target (fun _ => trivial) (fun _ _ => trivial)
  have hroot : Vtx.root ∈ (base target).g.verts := e0.verts root_mem_init
  have e1 : Ext (fun _ _ => True) (base target) (inputsCG (base target) b) :=
    ext_inputsCG _ b hroot (fun _ _ => trivial)
  have e2 := ext_tail (R := fun _ _ => True) e b funcs (inputsCG (base target) b) (e1.verts hroot)
    (fun _ _ _ => trivial) (fun _ => trivial) (fun _ _ _ _ _ _ => trivial) (fun _ _ _ _ _ _ => trivial)
  exact e2.edge_mono (inputsCG_edge_root _ b hroot u hu)

/-- a supplied value's vertex survives pruning -/
theorem inputs_kept (e : TypeEnv) (b : Builder) (funcs : Nat → Option FuncDesc)
    (target : FuncDesc) (u : Vtx) (hu : u ∈ inputsList b) (hne : u ≠ .root) :
    u ∈ (prune (pre e b funcs target) (.func target.key)).g.verts := by
  have he := inputs_edge_root e b funcs target u hu
  have hwf := pre_wf e b funcs target
  rw [mem_prune_verts]
  exact ⟨(hasEdge_mem_verts _ hwf _ _ he).1,
    .inr (kept_of_edge_root _ hwf (pre_root e b funcs target) _ u hne he)⟩

/-! ### whatever is kept can be fed -/

/-- the label of a supplied value or of an output of a registered converter -/
def Avail (b : Builder) (funcs : Nat → Option FuncDesc) (l : Label) : Prop :=
  l ∈ (inputsList b).map Vtx.label ∨
  ∃ fid ∈ b.convs, ∃ f, funcs fid = some f ∧ l ∈ f.output.labels

/-- (I2), (I3): edges into the root come from function vertices or supplied values; edges into a
function vertex come from outputs of registered converters -/
def RH (b : Builder) (funcs : Nat → Option FuncDesc) : Vtx → Vtx → Prop := fun u v =>
  (v = .root → u.isFunc = true ∨ (u.isOrigin = true ∧ Avail b funcs u.label)) ∧
  (∀ k, v = .func k → u.isOrigin = true ∧ Avail b funcs u.label)

theorem inputsList_isOrigin (b : Builder) (u : Vtx) (hu : u ∈ inputsList b) : u.isOrigin = true := by
  simp only [inputsList, List.mem_append, List.mem_map] at hu
  rcases hu with ((⟨p, _, rfl⟩ | ⟨p, _, rfl⟩) | ⟨p, _, rfl⟩) | ⟨p, _, rfl⟩ <;> rfl

theorem pre_RH (e : TypeEnv) (b : Builder) (funcs : Nat → Option FuncDesc) (target : FuncDesc)
    (hck : ∀ fid ∈ b.convs, ∀ f, funcs fid = some f → ValueSet.KeysOK f.output) (x y : Vtx)
    (h : (pre e b funcs target).g.hasEdge x y = true) : RH b funcs x y := by
  have hext : Ext (RH b funcs) (CG.empty.add .root) (pre e b funcs target) := by
    apply ext_pre
    · intro u v hv
      refine ⟨?_, ?_⟩
      · rintro rfl; simp [Vtx.isData, Vtx.isValue, Vtx.isArg, Vtx.isOut] at hv
      · rintro k rfl; simp [Vtx.isData, Vtx.isValue, Vtx.isArg, Vtx.isOut] at hv
    · intro k
      exact ⟨fun _ => .inl rfl, fun k h => by simp at h⟩
    · intro u hu
      refine ⟨fun _ => .inr ⟨inputsList_isOrigin b u hu, .inl (List.mem_map.2 ⟨u, hu, rfl⟩)⟩, ?_⟩
      intro k h; simp at h
    · intro fid hfid f hf p hp
      obtain ⟨hv, hn, _⟩ := (hck fid hfid f hf).1 p hp
      refine ⟨fun h => by simp at h, fun _ _ => ⟨rfl, .inr ⟨fid, hfid, f, hf, ?_⟩⟩⟩
      refine List.mem_map.2 ⟨p.2, hv, ?_⟩
      simp only [Vtx.label, hn]
    · intro fid hfid f hf p hp
      obtain ⟨hv, _, hn⟩ := (hck fid hfid f hf).2 p hp
      refine ⟨fun h => by simp at h, fun _ _ => ⟨rfl, .inr ⟨fid, hfid, f, hf, ?_⟩⟩⟩
      refine List.mem_map.2 ⟨p.2, hv, ?_⟩
      simp only [Vtx.label, ← hn]
  rcases hext.edge_inv h with h' | h'
  · rw [init_no_edge] at h'; exact absurd h' (by simp)
  · exact h'

/-- a data vertex with an edge to an explored vertex is fed by an available origin -/
theorem flow_of_expl (e : TypeEnv) (b : Builder) (funcs : Nat → Option FuncDesc) (g : AGraph Vtx)
    (hok : EdgeOK e g) (hrh : ∀ x y, g.hasEdge x y = true → RH b funcs x y) (t : Vtx) (u : Vtx)
    (hu : Expl g t u) : ∀ x, x.isData = true → g.hasEdge x u = true →
      ∃ o, o.isOrigin = true ∧ Avail b funcs o.label ∧ RuleFlow e o x := by
  induction hu with
  | start =>
    intro x hx he
    rcases (hrh _ _ he).1 rfl with hf | ⟨ho, ha⟩
    · cases x <;> simp [Vtx.isData, Vtx.isValue, Vtx.isArg, Vtx.isOut, Vtx.isFunc] at hx hf
    · exact ⟨x, ho, ha, .here hx⟩
  | @step u w _ hwu hnr _ ih =>
    intro x hx he
    by_cases hwd : w.isData = true
    · obtain ⟨o, ho, ha, hfl⟩ := ih w hwd hwu
      exact ⟨o, ho, ha, .step hx (hok _ _ he) hfl⟩
    · cases w with
      | root => exact absurd rfl hnr
      | func k =>
        obtain ⟨ho, ha⟩ := (hrh _ _ he).2 k rfl
        exact ⟨x, ho, ha, .here hx⟩
      | value _ _ _ => exact absurd rfl hwd
      | arg _ _ => exact absurd rfl hwd
      | out _ _ => exact absurd rfl hwd

/-- a parameter vertex that survives pruning is compatible with an available label -/
theorem kept_compat (e : TypeEnv) (ht : ImplTrans e) (ha : ImplAntisym e) (b : Builder)
    (funcs : Nat → Option FuncDesc) (target : FuncDesc)
    (hck : ∀ fid ∈ b.convs, ∀ f, funcs fid = some f → ValueSet.KeysOK f.output) (p : Label)
    (hk : p.vertex ∈ (prune (pre e b funcs target) (.func target.key)).g.verts) :
    ∃ l, Avail b funcs l ∧ compatB e p l = true := by
  rw [mem_prune_verts] at hk
  rcases hk.2 with h | h
  · exact absurd h (vertex_ne_root p)
  · obtain ⟨u, hu, he⟩ := kept_edge _ (pre_wf e b funcs target) (pre_root e b funcs target) _ _ h
    have hpd : p.vertex.isData = true := by
      rcases FlowCompat.Label.vertex_isParam p with h | h <;> simp [Vtx.isData, h]
    obtain ⟨o, ho, hav, hfl⟩ := flow_of_expl e b funcs _ (pre_edgeOK e b funcs target)
      (pre_RH e b funcs target hck) _ u hu _ hpd he
    have := FlowCompat.flow_compat e ht ha o p.vertex ho (FlowCompat.Label.vertex_isParam p) hfl
    rw [FlowCompat.Label.vertex_label] at this
    exact ⟨o.label, hav, this⟩

end Prune
end ArgMapper
