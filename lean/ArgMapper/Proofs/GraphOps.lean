import ArgMapper.Proofs.GraphPush
import ArgMapper.Proofs.GraphRep
/-!
# Every operation preserves the simulation invariant (C19)
-/
set_option linter.unusedSectionVars false
namespace ArgMapper
namespace GraphSpec
variable {α : Type} [DecidableEq α]
open AGraph GraphImpl

theorem sim_new {w : World α} {s : SpecWorld α} (hs : Sim w s) :
    Sim (newGraph w) (specStep s .new) := by
  have e : newGraph w = { adj := w.adj ++ [], hashes := w.hashes ++ [], handles := w.handles ++ [nones] } := by
    simp [newGraph, nones]
  rw [e]
  show Sim _ { classes := s.classes ++ [SClass.empty], handles := s.handles ++ [(s.classes.length, false)] }
  apply hs.push [] [] nones [SClass.empty] s.classes.length false
  · simp
  · exact Or.inl rfl
  · rw [getD_append_len]
    exact RepC.empty false
  · intro k hk hc
    have := hs.cok k hk
    omega
  · intro k hk _
    exact (Disj.nones_left _).symm

theorem sim_copy {w : World α} {s : SpecWorld α} (hs : Sim w s) {h : Nat} (hlt : h < s.handles.length) :
    Sim (copy w h) (specStep s (.copy h)) := by
  show Sim { adj := w.adj ++ [w.getAdj (w.handle h).out, w.getAdj (w.handle h).inn],
             hashes := w.hashes ++ [w.getHash (w.handle h).hash],
             handles := w.handles ++ [⟨some w.adj.length, some (w.adj.length + 1), some w.hashes.length⟩] }
    { classes := s.classes ++ [s.cls h], handles := s.handles ++ [(s.classes.length, (s.handle h).2)] }
  apply hs.push
  · simp
  · refine Or.inr ⟨_, _, _, rfl, ?_, ?_, ?_, ?_⟩ <;> simp
  · rw [getD_append_len]
    have e1 : ∀ (l : List (AdjObj α)) (a b : AdjObj α), (l ++ [a, b]).getD l.length [] = a := by
      intro l a b; simp [List.getD_eq_getElem?_getD]
    have e2 : ∀ (l : List (AdjObj α)) (a b : AdjObj α), (l ++ [a, b]).getD (l.length + 1) [] = b := by
      intro l a b; simp [List.getD_eq_getElem?_getD]
    simp only [World.getAdj, World.getHash, e1, e2, getD_append_len]
    exact hs.rep h hlt
  · intro k hk hc
    have := hs.cok k hk
    omega
  · intro k hk _
    exact (Disj.fresh (hs.shape k hk) (Nat.le_refl _) (Nat.le_succ _) (Nat.le_refl _)).symm

theorem sim_reverse {w : World α} {s : SpecWorld α} (hs : Sim w s) {h : Nat} (hlt : h < s.handles.length) :
    Sim (reverse true w h) (specStep s (.reverse h)) := by
  obtain ⟨hs1, a, b, c, hgv, hab⟩ := hs.init hlt
  generalize hw1 : init w h = w1 at hs1 hgv
  have e : reverse true w h =
      { adj := w1.adj ++ [], hashes := w1.hashes ++ [], handles := w1.handles ++ [⟨some b, some a, some c⟩] } := by
    simp [GraphImpl.reverse, hw1, hgv]
  have e2 : specStep s (.reverse h) =
      { classes := s.classes ++ [], handles := s.handles ++ [((s.handle h).1, !(s.handle h).2)] } := by
    simp [specStep]
  rw [e, e2]
  have hsh := hs1.shape h hlt
  rw [hgv] at hsh
  have hne : w1.handle h ≠ nones := by rw [hgv]; simp [nones]
  apply hs1.push
  · simpa using hs.cok h hlt
  · rcases hsh with e | ⟨a', b', c', e, h1, h2, h3, h4⟩
    · simp [nones] at e
    · simp only [GraphVal.mk.injEq, Option.some.injEq] at e
      obtain ⟨rfl, rfl, rfl⟩ := e
      refine Or.inr ⟨_, _, _, rfl, ?_, ?_, fun e => h3 e.symm, ?_⟩ <;> simpa
  · have := (hs1.rep h hlt).swap
    rw [hgv] at this
    simpa [World.getAdj, World.getHash, SpecWorld.cls] using this
  · intro k hk hc
    by_cases hkh : k = h
    · subst hkh
      refine ⟨hne, ?_⟩
      rw [hgv]
      cases (s.handle k).2 <;> simp [gswap]
    · obtain ⟨n1, e1⟩ := hs1.same k h hk hlt hkh hc
      refine ⟨n1, ?_⟩
      rw [hgv] at e1
      generalize w1.handle k = gk at e1 ⊢
      obtain ⟨o, i, hh⟩ := gk
      generalize (s.handle k).2 = f1 at e1 ⊢
      generalize (s.handle h).2 = f2 at e1 ⊢
      cases f1 <;> cases f2 <;>
        simp only [gswap, bne_self_eq_false, Bool.false_eq_true, if_false, Bool.not_false,
          Bool.not_true, if_true, Bool.bne_true, Bool.bne_false,
          GraphVal.mk.injEq] at e1 ⊢ <;>
        (obtain ⟨r1, r2, r3⟩ := e1; subst r1; subst r2; subst r3; simp)
  · intro k hk hc
    have := hs1.diff k h hk hlt hc
    rw [hgv] at this
    exact this.gswap_right true

/-! ### mutators on an initialised handle -/

theorem Sim.inRange {w : World α} {s : SpecWorld α} (hs : Sim w s) {h : Nat} (hlt : h < s.handles.length)
    {a b c : Nat} (hgv : w.handle h = ⟨some a, some b, some c⟩) :
    a < w.adj.length ∧ b < w.adj.length ∧ a ≠ b ∧ c < w.hashes.length := by
  rcases hs.shape h hlt with e | ⟨a', b', c', e, h1, h2, h3, h4⟩
  · rw [hgv] at e; simp [nones] at e
  · rw [hgv] at e
    simp only [GraphVal.mk.injEq, Option.some.injEq] at e
    obtain ⟨rfl, rfl, rfl⟩ := e
    exact ⟨h1, h2, h3, h4⟩

def addCore (w : World α) (h : Nat) (v : α) (tag : Nat) : World α :=
  let gv := w.handle h
  if (aget (w.getAdj gv.out) v).isSome then w
  else
    let w := w.setAdj gv.out (aset (w.getAdj gv.out) v [])
    let w := w.setAdj gv.inn (aset (w.getAdj gv.inn) v [])
    w.setHash gv.hash (aset (w.getHash gv.hash) v tag)

theorem add_eq (w0 : World α) (h : Nat) (v : α) (tag : Nat) :
    add w0 h v tag = addCore (init w0 h) h v tag := rfl

theorem sim_addCore {w : World α} {s : SpecWorld α} (hs : Sim w s) {h : Nat} (hlt : h < s.handles.length)
    {a b c : Nat} (hgv : w.handle h = ⟨some a, some b, some c⟩) (v : α) (tag : Nat) :
    Sim (addCore w h v tag) (specStep s (.add h v tag)) := by
  obtain ⟨ha, hb, hab, hc⟩ := hs.inRange hlt hgv
  have hr := hs.rep h hlt
  rw [hgv] at hr
  simp only [World.getAdj, World.getHash] at hr
  have hpres : (aget (w.adj.getD a []) v).isSome ↔ v ∈ (s.cls h).g.verts := hr.out.keys v
  unfold addCore
  simp only [hgv, specStep, World.getAdj]
  by_cases hv : v ∈ (s.cls h).g.verts
  · rw [if_pos (hpres.2 hv), if_pos hv]; exact hs
  · rw [if_neg (fun e => hv (hpres.1 e)), if_neg hv]
    apply hs.update hlt
    · rfl
    · simp [World.setAdj, World.setHash]
    · simp [World.setAdj, World.setHash]
    · rw [hgv]; intro k h1 h2
      simp only [ne_eq, Option.some.injEq] at h1 h2
      simp [World.setAdj, World.setHash, h1, h2]
    · rw [hgv]; intro k h1
      simp only [ne_eq, Option.some.injEq] at h1
      simp [World.setAdj, World.setHash, h1]
    · rw [hgv]
      have hba : ¬ b = a := fun e => hab e.symm
      simp only [World.setAdj, World.setHash, World.getAdj, World.getHash, getD_set, List.length_set,
        hab, hba, ha, hb, hc, and_self, if_true, false_and, if_false]
      exact repC_add hr v tag hv

def addowCore (w : World α) (h : Nat) (v : α) (tag : Nat) : World α :=
  let gv := w.handle h
  let w := w.setHash gv.hash (aset (w.getHash gv.hash) v tag)
  if (aget (w.getAdj gv.out) v).isSome then w
  else
    let w := w.setAdj gv.out (aset (w.getAdj gv.out) v [])
    w.setAdj gv.inn (aset (w.getAdj gv.inn) v [])

theorem addow_eq (w0 : World α) (h : Nat) (v : α) (tag : Nat) :
    addOverwrite w0 h v tag = addowCore (init w0 h) h v tag := rfl

theorem sim_addowCore {w : World α} {s : SpecWorld α} (hs : Sim w s) {h : Nat} (hlt : h < s.handles.length)
    {a b c : Nat} (hgv : w.handle h = ⟨some a, some b, some c⟩) (v : α) (tag : Nat) :
    Sim (addowCore w h v tag) (specStep s (.addow h v tag)) := by
  obtain ⟨ha, hb, hab, hc⟩ := hs.inRange hlt hgv
  have hr := hs.rep h hlt
  rw [hgv] at hr
  simp only [World.getAdj, World.getHash] at hr
  have hpres : (aget (w.adj.getD a []) v).isSome ↔ v ∈ (s.cls h).g.verts := hr.out.keys v
  have hba : ¬ b = a := fun e => hab e.symm
  unfold addowCore
  simp only [hgv, specStep, World.getAdj, World.setHash]
  by_cases hv : v ∈ (s.cls h).g.verts
  · rw [if_pos (hpres.2 hv)]
    apply hs.update hlt
    · rfl
    · rfl
    · simp
    · intro k _ _; rfl
    · rw [hgv]; intro k h1
      simp only [ne_eq, Option.some.injEq] at h1
      simp [h1]
    · rw [hgv]
      simp only [World.getAdj, World.getHash, getD_set, hc, and_self, if_true]
      exact repC_addow_present hr v tag hv
  · rw [if_neg (fun e => hv (hpres.1 e))]
    apply hs.update hlt
    · rfl
    · simp [World.setAdj]
    · simp [World.setAdj]
    · rw [hgv]; intro k h1 h2
      simp only [ne_eq, Option.some.injEq] at h1 h2
      simp [World.setAdj, h1, h2]
    · rw [hgv]; intro k h1
      simp only [ne_eq, Option.some.injEq] at h1
      simp [World.setAdj, h1]
    · rw [hgv]
      simp only [World.setAdj, World.getAdj, World.getHash, getD_set, List.length_set,
        hab, hba, ha, hb, hc, and_self, if_true, false_and, if_false]
      exact repC_add hr v tag hv

def edgeCore (w : World α) (h : Nat) (u v : α) (wt : Int) : Except Panic (World α) × World α :=
  let gv := w.handle h
  match aget (w.getAdj gv.out) u with
  | none => (.error .nilMap, w)
  | some inner =>
    let w1 := w.setAdj gv.out (aset (w.getAdj gv.out) u (aset inner v wt))
    match aget (w1.getAdj gv.inn) v with
    | none => (.error .nilMap, w1)
    | some inner2 => (.ok (w1.setAdj gv.inn (aset (w1.getAdj gv.inn) v (aset inner2 u wt))), w1)

theorem edge_eq (w0 : World α) (h : Nat) (u v : α) (wt : Int) :
    addEdge w0 h u v wt = edgeCore (init w0 h) h u v wt := rfl

theorem spec_edge_present (s : SpecWorld α) (h : Nat) (u v : α) (wt : Int)
    (hp : u ∈ (s.cls h).g.verts ∧ v ∈ (s.cls h).g.verts) :
    specStep s (.edge h u v wt) = s.setCls h (edgeCls (s.cls h) (s.handle h).2 u v wt) := by
  simp only [specStep, hp, and_self, if_true, edgeCls]
  cases (s.handle h).2 <;> rfl

theorem sim_edgeCore {w : World α} {s : SpecWorld α} (hs : Sim w s) {h : Nat} (hlt : h < s.handles.length)
    {a b c : Nat} (hgv : w.handle h = ⟨some a, some b, some c⟩) (u v : α) (wt : Int)
    (hp : u ∈ (s.cls h).g.verts ∧ v ∈ (s.cls h).g.verts) :
    ∃ w' w1, edgeCore w h u v wt = (.ok w', w1) ∧ Sim w' (specStep s (.edge h u v wt)) := by
  obtain ⟨ha, hb, hab, hc⟩ := hs.inRange hlt hgv
  have hr := hs.rep h hlt
  rw [hgv] at hr
  simp only [World.getAdj, World.getHash] at hr
  have hba : ¬ b = a := fun e => hab e.symm
  obtain ⟨x, hx⟩ := Option.isSome_iff_exists.1 ((hr.out.keys u).2 hp.1)
  obtain ⟨y, hy⟩ := Option.isSome_iff_exists.1 ((hr.inn.keys v).2 hp.2)
  unfold edgeCore
  simp only [hgv, World.getAdj, World.setAdj, hx, getD_set, hab, false_and, if_false, hy]
  refine ⟨_, _, rfl, ?_⟩
  rw [spec_edge_present s h u v wt hp]
  apply hs.update hlt
  · rfl
  · simp
  · rfl
  · rw [hgv]; intro k h1 h2
    simp only [ne_eq, Option.some.injEq] at h1 h2
    simp [h1, h2]
  · intro k _; rfl
  · rw [hgv]
    simp only [World.getAdj, World.getHash, getD_set, List.length_set,
      hab, hba, ha, hb, and_self, if_true, false_and, if_false]
    exact repC_edge hr u v wt x y hx hy

def redgeCore (w : World α) (h : Nat) (u v : α) : World α :=
  let gv := w.handle h
  let w := w.setAdj gv.out (delInner (w.getAdj gv.out) u v)
  w.setAdj gv.inn (delInner (w.getAdj gv.inn) v u)

theorem redge_eq (w0 : World α) (h : Nat) (u v : α) :
    removeEdge w0 h u v = redgeCore (init w0 h) h u v := rfl

theorem spec_redge (s : SpecWorld α) (h : Nat) (u v : α) :
    specStep s (.redge h u v) = s.setCls h (redgeCls (s.cls h) (s.handle h).2 u v) := by
  simp only [specStep, redgeCls]
  cases (s.handle h).2 <;> rfl

theorem sim_redgeCore {w : World α} {s : SpecWorld α} (hs : Sim w s) {h : Nat} (hlt : h < s.handles.length)
    {a b c : Nat} (hgv : w.handle h = ⟨some a, some b, some c⟩) (u v : α) :
    Sim (redgeCore w h u v) (specStep s (.redge h u v)) := by
  obtain ⟨ha, hb, hab, hc⟩ := hs.inRange hlt hgv
  have hr := hs.rep h hlt
  rw [hgv] at hr
  simp only [World.getAdj, World.getHash] at hr
  have hba : ¬ b = a := fun e => hab e.symm
  unfold redgeCore
  simp only [hgv, World.getAdj, World.setAdj, getD_set, hab, false_and, if_false]
  rw [spec_redge]
  apply hs.update hlt
  · rfl
  · simp
  · rfl
  · rw [hgv]; intro k h1 h2
    simp only [ne_eq, Option.some.injEq] at h1 h2
    simp [h1, h2]
  · intro k _; rfl
  · rw [hgv]
    simp only [World.getAdj, World.getHash, getD_set, List.length_set,
      hab, hba, ha, hb, and_self, if_true, false_and, if_false]
    exact repC_redge hr u v

theorem sim_remove {w : World α} {s : SpecWorld α} (hs : Sim w s) {h : Nat} (hlt : h < s.handles.length)
    (v : α) : Sim (remove w h v) (specStep s (.remove h v)) := by
  have hr := hs.rep h hlt
  rcases hs.shape h hlt with e | ⟨a, b, c, hgv, ha, hb, hab, hc⟩
  · have e1 : remove w h v = w := by
      unfold GraphImpl.remove
      simp [e, nones, World.setAdj, World.setHash]
    rw [e1]
    simp only [specStep]
    apply hs.update hlt
    · rfl
    · rfl
    · rfl
    · intro k _ _; rfl
    · intro k _; rfl
    · rw [e] at hr ⊢
      simp only [nones, World.getAdj, World.getHash] at hr ⊢
      exact repC_remove hr v
  · rw [hgv] at hr
    simp only [World.getAdj, World.getHash] at hr
    have hba : ¬ b = a := fun e => hab e.symm
    unfold GraphImpl.remove
    simp only [hgv, World.getAdj, World.setAdj, World.setHash, World.getHash, getD_set, List.length_set,
      hab, hba, ha, hb, hc, and_self, if_true, false_and, if_false, specStep]
    apply hs.update hlt
    · rfl
    · simp
    · simp
    · rw [hgv]; intro k h1 h2
      simp only [ne_eq, Option.some.injEq] at h1 h2
      simp [h1, h2]
    · rw [hgv]; intro k h1
      simp only [ne_eq, Option.some.injEq] at h1
      simp [h1]
    · rw [hgv]
      simp only [World.getAdj, World.getHash, getD_set, List.length_set,
        hab, hba, ha, hb, hc, and_self, if_true, false_and, if_false]
      exact repC_remove hr v

end GraphSpec
end ArgMapper
