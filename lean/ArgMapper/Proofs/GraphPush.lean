import ArgMapper.Proofs.GraphSim
/-!
# Handle-creating operations (`new`, `Copy`, `Reverse`) preserve the simulation invariant (C19)
-/
set_option linter.unusedSectionVars false
namespace ArgMapper
namespace GraphSpec
variable {α : Type} [DecidableEq α]
open AGraph GraphImpl

theorem gswap_gswap (b : Bool) (g : GraphVal) : gswap b (gswap b g) = g := by
  cases b <;> simp [gswap]

theorem Disj.gswap_right {g1 g2 : GraphVal} (b : Bool) (h : Disj g1 g2) : Disj g1 (gswap b g2) := by
  cases b
  · simpa [gswap] using h
  · refine ⟨?_, ?_⟩
    · intro k hk
      have := h.1 k hk
      simp only [gswap, if_true]
      exact ⟨this.2, this.1⟩
    · intro k hk
      simpa [gswap] using h.2 k hk

/-- appending one handle (and possibly fresh objects and classes) -/
theorem Sim.push {w : World α} {s : SpecWorld α} (hs : Sim w s)
    (xa : List (AdjObj α)) (xh : List (HashObj α)) (gv : GraphVal)
    (xc : List (SClass α)) (c : Nat) (fl : Bool)
    (hc : c < (s.classes ++ xc).length)
    (hshape : Shape ({ adj := w.adj ++ xa, hashes := w.hashes ++ xh, handles := w.handles ++ [gv] } : World α) gv)
    (hrep : RepC (World.getAdj ({ adj := w.adj ++ xa, hashes := w.hashes ++ xh, handles := w.handles ++ [gv] } : World α) gv.out)
      (World.getAdj ({ adj := w.adj ++ xa, hashes := w.hashes ++ xh, handles := w.handles ++ [gv] } : World α) gv.inn)
      (World.getHash ({ adj := w.adj ++ xa, hashes := w.hashes ++ xh, handles := w.handles ++ [gv] } : World α) gv.hash)
      ((s.classes ++ xc).getD c SClass.empty) fl)
    (hsame : ∀ k, k < s.handles.length → (s.handle k).1 = c →
      w.handle k ≠ nones ∧ gv = gswap ((s.handle k).2 != fl) (w.handle k))
    (hdiff : ∀ k, k < s.handles.length → (s.handle k).1 ≠ c → Disj (w.handle k) gv) :
    Sim ({ adj := w.adj ++ xa, hashes := w.hashes ++ xh, handles := w.handles ++ [gv] } : World α)
      ({ classes := s.classes ++ xc, handles := s.handles ++ [(c, fl)] } : SpecWorld α) := by
  -- abbreviations
  generalize hw' : ({ adj := w.adj ++ xa, hashes := w.hashes ++ xh, handles := w.handles ++ [gv] } : World α) = w' at *
  generalize hs' : ({ classes := s.classes ++ xc, handles := s.handles ++ [(c, fl)] } : SpecWorld α) = s'
  have hlen' : s'.handles.length = s.handles.length + 1 := by subst hs'; simp
  have hHold : ∀ k, k < s.handles.length → w'.handle k = w.handle k := by
    intro k hk; subst hw'
    exact getD_append_lt _ _ _ _ (by rw [hs.len]; exact hk)
  have hHnew : w'.handle s.handles.length = gv := by
    subst hw'; rw [← hs.len]; exact getD_append_len _ _ _
  have hSold : ∀ k, k < s.handles.length → s'.handle k = s.handle k := by
    intro k hk; subst hs'
    exact getD_append_lt _ _ _ _ hk
  have hSnew : s'.handle s.handles.length = (c, fl) := by
    subst hs'; exact getD_append_len _ _ _
  have hCold : ∀ k, k < s.handles.length → s'.cls k = s.cls k := by
    intro k hk
    unfold SpecWorld.cls
    rw [hSold k hk]; subst hs'
    exact getD_append_lt _ _ _ _ (hs.cok k hk)
  have hCnew : s'.cls s.handles.length = (s.classes ++ xc).getD c SClass.empty := by
    unfold SpecWorld.cls
    rw [hSnew]; subst hs'; rfl
  have hAold : ∀ g, Shape w g → w'.getAdj g.out = w.getAdj g.out ∧ w'.getAdj g.inn = w.getAdj g.inn ∧
      w'.getHash g.hash = w.getHash g.hash := by
    intro g hg
    rcases hg with e | ⟨a, b, c, e, h1, h2, h3, h4⟩
    · subst e; exact ⟨rfl, rfl, rfl⟩
    · subst e; subst hw'
      exact ⟨getD_append_lt _ _ _ _ h1, getD_append_lt _ _ _ _ h2, getD_append_lt _ _ _ _ h4⟩
  have hShold : ∀ g, Shape w g → Shape w' g := by
    intro g hg
    rcases hg with e | ⟨a, b, c, e, h1, h2, h3, h4⟩
    · exact Or.inl e
    · subst hw'
      refine Or.inr ⟨a, b, c, e, ?_, ?_, h3, ?_⟩ <;> simp <;> omega
  have hcase : ∀ k, k < s'.handles.length → k < s.handles.length ∨ k = s.handles.length := by
    intro k hk; omega
  refine ⟨?_, ?_, ?_, ?_, ?_, ?_⟩
  · subst hw'; subst hs'; simp [hs.len]
  · intro k hk
    rcases hcase k hk with hk2 | hk2
    · rw [hSold k hk2]
      have := hs.cok k hk2
      subst hs'
      simp only [List.length_append]; omega
    · subst hk2; rw [hSnew]; subst hs'; exact hc
  · intro k hk
    rcases hcase k hk with hk | hk
    · rw [hHold k hk]; exact hShold _ (hs.shape k hk)
    · subst hk; rw [hHnew]; exact hshape
  · intro k hk
    rcases hcase k hk with hk | hk
    · rw [hHold k hk, hCold k hk, hSold k hk]
      obtain ⟨e1, e2, e3⟩ := hAold _ (hs.shape k hk)
      rw [e1, e2, e3]
      exact hs.rep k hk
    · subst hk; rw [hHnew, hCnew, hSnew]; exact hrep
  · intro h1 h2 l1 l2 hne hcl
    rcases hcase h1 l1 with l1 | l1 <;> rcases hcase h2 l2 with l2 | l2
    · rw [hSold h1 l1, hSold h2 l2] at hcl ⊢
      rw [hHold h1 l1, hHold h2 l2]
      exact hs.same h1 h2 l1 l2 hne hcl
    · subst l2
      rw [hSold h1 l1, hSnew] at hcl ⊢
      rw [hHold h1 l1, hHnew]
      exact hsame h1 l1 hcl
    · subst l1
      rw [hSold h2 l2, hSnew] at hcl ⊢
      rw [hHold h2 l2, hHnew]
      obtain ⟨n1, e1⟩ := hsame h2 l2 hcl.symm
      refine ⟨?_, ?_⟩
      · rw [e1]; exact gswap_ne_nones _ _ n1
      · rw [e1]
        have : (fl != (s.handle h2).2) = ((s.handle h2).2 != fl) := by
          cases fl <;> cases (s.handle h2).2 <;> rfl
        rw [this, gswap_gswap]
    · exact absurd (l1.trans l2.symm) hne
  · intro h1 h2 l1 l2 hcl
    rcases hcase h1 l1 with l1 | l1 <;> rcases hcase h2 l2 with l2 | l2
    · rw [hSold h1 l1, hSold h2 l2] at hcl
      rw [hHold h1 l1, hHold h2 l2]
      exact hs.diff h1 h2 l1 l2 hcl
    · subst l2
      rw [hSold h1 l1, hSnew] at hcl
      rw [hHold h1 l1, hHnew]
      exact hdiff h1 l1 hcl
    · subst l1
      rw [hSold h2 l2, hSnew] at hcl
      rw [hHold h2 l2, hHnew]
      exact (hdiff h2 l2 (fun e => hcl e.symm)).symm
    · subst l1; subst l2; exact absurd rfl hcl

end GraphSpec
end ArgMapper
