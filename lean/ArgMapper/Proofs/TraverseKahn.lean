import ArgMapper.Model.Traverse
import ArgMapper.Proofs.TraverseDfs
/-!
# Helper lemmas for `Props/C20.lean`: topological-order checker and Kahn's algorithm
-/
namespace ArgMapper.TraverseKahn
open ArgMapper AGraph Traverse TraverseDfs
variable {α : Type} [DecidableEq α]

/-! ## the executable checker `isTopoOrder` -/

theorem indexOf?_eq_findIdx? (L : List α) (v : α) :
    indexOf? L v = L.findIdx? (fun x => decide (x = v)) := by
  unfold indexOf?; split
  · rename_i h; exact h.symm
  · rename_i h; exact h.symm

theorem indexOf?_eq_some_iff (L : List α) (hL : L.Nodup) (v : α) (i : Nat) :
    indexOf? L v = some i ↔ L[i]? = some v := by
  rw [indexOf?_eq_findIdx?, List.findIdx?_eq_some_iff_getElem]
  constructor
  · rintro ⟨h, hp, _⟩
    have hp' : L[i] = v := by simpa using hp
    simp [List.getElem?_eq_getElem h, hp']
  · intro h
    obtain ⟨hi, hv⟩ := List.getElem?_eq_some_iff.mp h
    refine ⟨hi, by simp [hv], ?_⟩
    intro j hji hp
    simp at hp
    have := (List.getElem_inj (h₀ := by omega) (h₁ := hi) hL).mp (hp.trans hv.symm)
    omega

theorem isTopoOrder_iff' (g : AGraph α) (L : List α) :
    isTopoOrder g L = true ↔
      (L.Nodup ∧ (∀ v, v ∈ L ↔ v ∈ g.verts) ∧
        ∀ e ∈ g.edges, ∃ i j : Nat, L[i]? = some e.1 ∧ L[j]? = some e.2.1 ∧ i < j) := by
  unfold isTopoOrder
  simp only [Bool.and_eq_true, decide_eq_true_eq, List.all_eq_true]
  constructor
  · rintro ⟨⟨⟨hn, h1⟩, h2⟩, h3⟩
    refine ⟨hn, fun v => ⟨h2 v, h1 v⟩, ?_⟩
    intro e he
    have := h3 e he
    split at this
    · rename_i i j hi hj
      exact ⟨i, j, (indexOf?_eq_some_iff L hn _ _).mp hi, (indexOf?_eq_some_iff L hn _ _).mp hj,
        by simpa using this⟩
    · simp at this
  · rintro ⟨hn, h1, h2⟩
    refine ⟨⟨⟨hn, fun v hv => (h1 v).mpr hv⟩, fun v hv => (h1 v).mp hv⟩, ?_⟩
    intro e he
    obtain ⟨i, j, hi, hj, hij⟩ := h2 e he
    rw [(indexOf?_eq_some_iff L hn _ _).mpr hi, (indexOf?_eq_some_iff L hn _ _).mpr hj]
    simpa using hij

/-! ## graph basics for Kahn -/

theorem ins_isEmpty_iff (g : AGraph α) (v : α) :
    (g.ins v).isEmpty = true ↔ ∀ e ∈ g.edges, e.2.1 ≠ v := by
  simp [ins, insW, List.isEmpty_iff, List.filter_eq_nil_iff]

theorem mem_removeEdge (g : AGraph α) (x m : α) (e : α × α × Int) :
    e ∈ (g.removeEdge x m).edges ↔ e ∈ g.edges ∧ ¬ (e.1 = x ∧ e.2.1 = m) := by
  simp only [removeEdge, isEdge, List.mem_filter, Bool.not_eq_true', Bool.and_eq_false_iff,
    decide_eq_false_iff_not, not_and]
  constructor
  · rintro ⟨h, h' | h'⟩
    · exact ⟨h, fun h1 => absurd h1 h'⟩
    · exact ⟨h, fun _ => h'⟩
  · rintro ⟨h, h'⟩
    by_cases h1 : e.1 = x
    · exact ⟨h, Or.inr (h' h1)⟩
    · exact ⟨h, Or.inl h1⟩

theorem reach_head {g : AGraph α} {u v w : α} (he : g.hasEdge u v = true) (h : Reach g v w) :
    Reach g u w := by
  induction h with
  | refl => exact .step (.refl u) he
  | step _ he' ih => exact .step ih he'

/-! ## cyclic graphs are refused -/

def OnCycle (g : AGraph α) (x : α) : Prop := ∃ y, g.hasEdge x y = true ∧ Reach g y x

theorem OnCycle.pred {g : AGraph α} {m : α} (h : OnCycle g m) :
    ∃ y, OnCycle g y ∧ g.hasEdge y m = true := by
  obtain ⟨y0, he, hr⟩ := h
  cases hr with
  | refl => exact ⟨m, ⟨m, he, .refl m⟩, he⟩
  | step hr' he' =>
    rename_i z
    exact ⟨z, ⟨m, he', reach_head he hr'⟩, he'⟩

structure CInv (g : AGraph α) (st : KahnSt α) : Prop where
  s : ∀ x ∈ st.S, ¬ OnCycle g x
  e : ∀ e ∈ g.edges, OnCycle g e.1 → e ∈ st.g.edges

theorem cinv_edge {g : AGraph α} {x : α} (hx : ¬ OnCycle g x) (st : KahnSt α) (m : α)
    (h : CInv g st) : CInv g (kahnEdge x st m) := by
  have he : ∀ e ∈ g.edges, OnCycle g e.1 → e ∈ (st.g.removeEdge x m).edges := by
    intro e hee hc
    rw [mem_removeEdge]
    refine ⟨h.e e hee hc, ?_⟩
    rintro ⟨h1, _⟩
    exact hx (h1 ▸ hc)
  unfold kahnEdge
  split
  · rename_i hemp
    refine ⟨?_, he⟩
    intro y hy hc
    rcases List.mem_append.mp hy with hy | hy
    · exact h.s y hy hc
    · simp at hy; subst hy
      obtain ⟨z, hz, hzm⟩ := hc.pred
      obtain ⟨e, hee, h1, h2⟩ := (hasEdge_iff g z y).mp hzm
      exact (ins_isEmpty_iff _ _).mp hemp e (he e hee (h1 ▸ hz)) h2
  · exact ⟨h.s, he⟩

theorem cinv_fold {g : AGraph α} {x : α} (hx : ¬ OnCycle g x) :
    ∀ (ms : List α) (st : KahnSt α), CInv g st → CInv g (ms.foldl (kahnEdge x) st)
  | [], _, h => h
  | m :: ms, st, h => by
    simp only [List.foldl_cons]
    exact cinv_fold hx ms _ (cinv_edge hx st m h)

theorem cinv_loop {g : AGraph α} :
    ∀ (n : Nat) (st : KahnSt α) (L : List α), CInv g st → CInv g (kahnLoop n st L).1
  | 0, _, _, h => h
  | n + 1, st, L, h => by
    unfold kahnLoop
    split
    · exact h
    · rename_i x hx
      apply cinv_loop
      apply cinv_fold (h.s x (List.mem_of_getLast? hx))
      refine ⟨?_, h.e⟩
      intro y hy
      exact h.s y (List.dropLast_subset _ hy)

theorem kahn_cyclic' (g : AGraph α) (hc : ∃ u v, g.hasEdge u v = true ∧ Reach g v u) :
    kahnSort g = none := by
  obtain ⟨u, v, he, hr⟩ := hc
  obtain ⟨e, hee, h1, h2⟩ := (hasEdge_iff g u v).mp he
  have h0 : CInv g { g := g, S := g.verts.filter (fun v => (g.ins v).isEmpty) } := by
    refine ⟨?_, fun e he _ => he⟩
    intro x hx hc
    have hx := (List.mem_filter.mp hx).2
    obtain ⟨z, _, hzm⟩ := hc.pred
    obtain ⟨e, hee, _, h2⟩ := (hasEdge_iff g z x).mp hzm
    exact (ins_isEmpty_iff _ _).mp hx e hee h2
  have h := (cinv_loop (g.verts.length + 1) _ [] h0).e e hee ⟨v, h1 ▸ he, h1 ▸ hr⟩
  unfold kahnSort
  split
  rename_i st L heq
  rw [heq] at h
  have : st.g.edges.isEmpty = false := by
    cases hh : st.g.edges with
    | nil => rw [hh] at h; simp at h
    | cons _ _ => rfl
  simp [this]

/-! ## acyclic graphs: a well-founded rank -/

omit [DecidableEq α] in
theorem countP_lt_of {p q : α → Bool} : ∀ (l : List α), (∀ x ∈ l, p x = true → q x = true) →
    (∃ x ∈ l, q x = true ∧ p x = false) → l.countP p < l.countP q
  | [], _, h => by obtain ⟨x, hx, _⟩ := h; simp at hx
  | a :: l, hpq, h => by
    obtain ⟨x, hx, hq, hp⟩ := h
    have hmono : l.countP p ≤ l.countP q :=
      List.countP_mono_left (fun y hy => hpq y (List.mem_cons_of_mem _ hy))
    rw [List.countP_cons, List.countP_cons]
    rcases List.mem_cons.mp hx with rfl | hx
    · simp [hq, hp]; omega
    · have ih := countP_lt_of l (fun y hy => hpq y (List.mem_cons_of_mem _ hy)) ⟨x, hx, hq, hp⟩
      by_cases hpa : p a = true
      · simp [hpa, hpq a (by simp) hpa]; omega
      · simp [hpa]; split <;> omega

open Classical in
noncomputable def anc (g : AGraph α) (v : α) : Nat :=
  g.verts.countP (fun x => decide (Reach g x v))

theorem anc_lt {g : AGraph α} (hac : ¬ ∃ u v, g.hasEdge u v = true ∧ Reach g v u) {u v : α}
    (he : g.hasEdge u v = true) (hv : v ∈ g.verts) : anc g u < anc g v := by
  unfold anc
  apply countP_lt_of
  · intro x _ hx
    simp only [decide_eq_true_eq] at hx ⊢
    exact .step hx he
  · refine ⟨v, hv, by simp [Reach.refl], ?_⟩
    simp only [decide_eq_false_iff_not]
    intro hr
    exact hac ⟨u, v, he, hr⟩

theorem no_pred_closed {g : AGraph α} (hac : ¬ ∃ u v, g.hasEdge u v = true ∧ Reach g v u)
    (T : α → Prop) (hT : ∀ v, T v → v ∈ g.verts ∧ ∃ u, T u ∧ g.hasEdge u v = true) :
    ∀ v, ¬ T v := by
  have : ∀ k, ∀ v, anc g v < k → ¬ T v := by
    intro k
    induction k with
    | zero => intro v h; omega
    | succ k ih =>
      intro v hk hTv
      obtain ⟨hv, u, hTu, he⟩ := hT v hTv
      have := anc_lt hac he hv
      exact ih u (by omega) hTu
  intro v
  exact this _ v (Nat.lt_succ_self _)

/-! ## acyclic graphs: the loop invariant -/

theorem outs_nodup {g : AGraph α} (h : (g.edges.map (fun e => (e.1, e.2.1))).Nodup) (x : α) :
    (g.outs x).Nodup := by
  have h1 : ((g.edges.filter (fun e => decide (e.1 = x))).map (fun e => (e.1, e.2.1))).Nodup :=
    (List.filter_sublist.map _).nodup h
  simp only [outs, outsW, List.map_map]
  unfold List.Nodup at h1 ⊢
  rw [List.pairwise_map] at h1 ⊢
  refine List.Pairwise.imp_of_mem ?_ h1
  intro a b ha hb hab
  have ha := (List.mem_filter.mp ha).2
  have hb := (List.mem_filter.mp hb).2
  simp only [decide_eq_true_eq] at ha hb
  simp only [Function.comp]
  intro h2
  exact hab (by rw [ha, hb, h2])

structure KInv (g : AGraph α) (st : KahnSt α) (L : List α) : Prop where
  pn : (st.g.edges.map (fun e => (e.1, e.2.1))).Nodup
  nd : (L ++ st.S).Nodup
  sub : ∀ v ∈ L ++ st.S, v ∈ g.verts
  ins : ∀ v ∈ g.verts, (v ∈ L ++ st.S ↔ ∀ e ∈ st.g.edges, e.2.1 ≠ v)
  ord : ∀ e ∈ g.edges, e.2.1 ∈ L → ∃ i j : Nat, L[i]? = some e.1 ∧ L[j]? = some e.2.1 ∧ i < j

def EdgeCh (g : AGraph α) (st : KahnSt α) (L : List α) (x : α) (ms : List α) : Prop :=
  ∀ e, e ∈ st.g.edges ↔ e ∈ g.edges ∧ e.1 ∉ L ∧ (e.1 = x → e.2.1 ∈ ms)

def EdgeOut (g : AGraph α) (st : KahnSt α) (L : List α) : Prop :=
  ∀ e, e ∈ st.g.edges ↔ e ∈ g.edges ∧ e.1 ∉ L

theorem kinv_edge {g : AGraph α} (hwf : g.WF) {L' L : List α} {x : α} (hx : x ∉ L)
    (st : KahnSt α) (m : α) (ms : List α) (hI : KInv g st L') (hE : EdgeCh g st L x (m :: ms))
    (hm : m ∉ ms) (hem : ∃ e ∈ g.edges, e.1 = x ∧ e.2.1 = m) :
    KInv g (kahnEdge x st m) L' ∧ EdgeCh g (kahnEdge x st m) L x ms := by
  obtain ⟨e0, he0, h01, h02⟩ := hem
  have hmv : m ∈ g.verts := h02 ▸ (hwf.2.2 e0 he0).2
  have he0' : e0 ∈ st.g.edges := (hE e0).mpr ⟨he0, h01 ▸ hx, fun _ => by simp [h02]⟩
  have hmS : m ∉ L' ++ st.S := fun h => (hI.ins m hmv).mp h e0 he0' h02
  have hpn : ((st.g.removeEdge x m).edges.map (fun e => (e.1, e.2.1))).Nodup :=
    (List.filter_sublist.map _).nodup hI.pn
  have hE' : ∀ e, e ∈ (st.g.removeEdge x m).edges ↔
      e ∈ g.edges ∧ e.1 ∉ L ∧ (e.1 = x → e.2.1 ∈ ms) := by
    intro e
    rw [mem_removeEdge, hE e]
    constructor
    · rintro ⟨⟨h1, h2, h3⟩, h4⟩
      refine ⟨h1, h2, fun hx' => ?_⟩
      rcases List.mem_cons.mp (h3 hx') with h | h
      · exact absurd ⟨hx', h⟩ h4
      · exact h
    · rintro ⟨h1, h2, h3⟩
      refine ⟨⟨h1, h2, fun hx' => List.mem_cons_of_mem _ (h3 hx')⟩, ?_⟩
      rintro ⟨hx', h⟩
      exact hm (h ▸ h3 hx')
  have hother : ∀ v, v ≠ m → ((∀ e ∈ st.g.edges, e.2.1 ≠ v) ↔
      (∀ e ∈ (st.g.removeEdge x m).edges, e.2.1 ≠ v)) := by
    intro v hvm
    constructor
    · intro h e he; exact h e ((mem_removeEdge _ _ _ _).mp he).1
    · intro h e he hev
      exact h e ((mem_removeEdge _ _ _ _).mpr ⟨he, fun h' => hvm (hev ▸ h'.2)⟩) hev
  unfold kahnEdge
  split
  · rename_i hemp
    have hemp := (ins_isEmpty_iff _ _).mp hemp
    refine ⟨⟨hpn, ?_, ?_, ?_, hI.ord⟩, hE'⟩
    · show (L' ++ (st.S ++ [m])).Nodup
      rw [← List.append_assoc, List.nodup_append]
      refine ⟨hI.nd, by simp, ?_⟩
      intro a ha b hb
      simp at hb; subst hb
      rintro rfl; exact hmS ha
    · intro v hv
      have hv : v ∈ (L' ++ st.S) ++ [m] := by simpa [List.append_assoc] using hv
      rcases List.mem_append.mp hv with hv | hv
      · exact hI.sub v hv
      · simp at hv; subst hv; exact hmv
    · intro v hv
      show v ∈ L' ++ (st.S ++ [m]) ↔ _
      rw [← List.append_assoc]
      by_cases hvm : v = m
      · subst hvm
        exact ⟨fun _ => hemp, fun _ => by simp⟩
      · rw [← hother v hvm, ← hI.ins v hv]
        simp [hvm]
  · rename_i hemp
    have hemp : ¬ ∀ e ∈ (st.g.removeEdge x m).edges, e.2.1 ≠ m :=
      fun h => hemp ((ins_isEmpty_iff _ _).mpr h)
    refine ⟨⟨hpn, hI.nd, hI.sub, ?_, hI.ord⟩, hE'⟩
    intro v hv
    by_cases hvm : v = m
    · subst hvm
      exact ⟨fun h => absurd h hmS, fun h => absurd h hemp⟩
    · rw [← hother v hvm]; exact hI.ins v hv

theorem kinv_fold {g : AGraph α} (hwf : g.WF) {L' L : List α} {x : α} (hx : x ∉ L) :
    ∀ (ms : List α) (st : KahnSt α), KInv g st L' → EdgeCh g st L x ms → ms.Nodup →
      (∀ m ∈ ms, ∃ e ∈ g.edges, e.1 = x ∧ e.2.1 = m) →
      KInv g (ms.foldl (kahnEdge x) st) L' ∧ EdgeCh g (ms.foldl (kahnEdge x) st) L x []
  | [], _, hI, hE, _, _ => ⟨hI, hE⟩
  | m :: ms, st, hI, hE, hn, hms => by
    have hn' := List.nodup_cons.mp hn
    obtain ⟨h1, h2⟩ := kinv_edge hwf hx st m ms hI hE hn'.1 (hms m (by simp))
    simp only [List.foldl_cons]
    exact kinv_fold hwf hx ms _ h1 h2 hn'.2 (fun m' hm' => hms m' (by simp [hm']))

theorem kinv_loop {g : AGraph α} (hwf : g.WF) :
    ∀ (n : Nat) (st : KahnSt α) (L : List α), KInv g st L → EdgeOut g st L →
      g.verts.length < n + L.length →
      KInv g (kahnLoop n st L).1 (kahnLoop n st L).2 ∧
        EdgeOut g (kahnLoop n st L).1 (kahnLoop n st L).2 ∧ (kahnLoop n st L).1.S = []
  | 0, st, L, hI, _, hf => by
    have := nodup_subset_length _ _ hI.nd hI.sub
    simp at this; omega
  | n + 1, st, L, hI, hE, hf => by
    unfold kahnLoop
    split
    · rename_i hnone
      exact ⟨hI, hE, List.getLast?_eq_none_iff.mp hnone⟩
    · rename_i x hsome
      obtain ⟨D, hD⟩ := List.getLast?_eq_some_iff.mp hsome
      have hdl : st.S.dropLast = D := by rw [hD]; simp
      rw [hdl]
      have hnd : (L ++ (D ++ [x])).Nodup := hD ▸ hI.nd
      have hxL : x ∉ L := by
        intro h
        exact (List.nodup_append.mp hnd).2.2 x h x (by simp) rfl
      have hxv : x ∈ g.verts := hI.sub x (by rw [hD]; simp)
      have hxin : ∀ e ∈ st.g.edges, e.2.1 ≠ x := (hI.ins x hxv).mp (by rw [hD]; simp)
      have hperm : ∀ v, v ∈ (L ++ [x]) ++ D ↔ v ∈ L ++ st.S := by
        intro v; rw [hD]; simp only [List.mem_append, List.mem_singleton]
        constructor
        · rintro ((h | h) | h)
          · exact Or.inl h
          · exact Or.inr (Or.inr h)
          · exact Or.inr (Or.inl h)
        · rintro (h | h | h)
          · exact Or.inl (Or.inl h)
          · exact Or.inr h
          · exact Or.inl (Or.inr h)
      have hI1 : KInv g { g := st.g, S := D } (L ++ [x]) := by
        refine ⟨hI.pn, ?_, ?_, ?_, ?_⟩
        · show ((L ++ [x]) ++ D).Nodup
          have h1 := List.nodup_append.mp hnd
          have h2 := List.nodup_append.mp h1.2.1
          rw [List.nodup_append]
          refine ⟨?_, h2.1, ?_⟩
          · rw [List.nodup_append]
            refine ⟨h1.1, by simp, ?_⟩
            intro a ha b hb
            simp at hb; subst hb
            rintro rfl; exact hxL ha
          · intro a ha b hb
            rcases List.mem_append.mp ha with ha | ha
            · exact h1.2.2 a ha b (by simp [hb])
            · simp at ha; subst ha
              intro hab
              exact h2.2.2 b hb a (by simp) hab.symm
        · intro v hv
          exact hI.sub v ((hperm v).mp hv)
        · intro v hv
          show v ∈ (L ++ [x]) ++ D ↔ _
          rw [hperm v]; exact hI.ins v hv
        · intro e he hel
          rcases List.mem_append.mp hel with hel | hel
          · obtain ⟨i, j, hi, hj, hij⟩ := hI.ord e he hel
            have hi' := (List.getElem?_eq_some_iff.mp hi).1
            have hj' := (List.getElem?_eq_some_iff.mp hj).1
            exact ⟨i, j, by rw [List.getElem?_append_left hi']; exact hi,
              by rw [List.getElem?_append_left hj']; exact hj, hij⟩
          · simp at hel
            have hsrc : e.1 ∈ L := by
              apply Classical.byContradiction
              intro hn
              exact hxin e ((hE e).mpr ⟨he, hn⟩) hel
            obtain ⟨i, hi⟩ := List.getElem?_of_mem hsrc
            have hi' := (List.getElem?_eq_some_iff.mp hi).1
            exact ⟨i, L.length, by rw [List.getElem?_append_left hi']; exact hi,
              by rw [hel]; exact List.getElem?_concat_length, hi'⟩
      have hE1 : EdgeCh g { g := st.g, S := D } L x (st.g.outs x) := by
        intro e
        show e ∈ st.g.edges ↔ _
        rw [hE e]
        constructor
        · rintro ⟨h1, h2⟩
          exact ⟨h1, h2, fun hx' => (mem_outs_iff _ _ _).mpr ⟨e, (hE e).mpr ⟨h1, h2⟩, hx', rfl⟩⟩
        · rintro ⟨h1, h2, _⟩; exact ⟨h1, h2⟩
      have hms : ∀ m ∈ st.g.outs x, ∃ e ∈ g.edges, e.1 = x ∧ e.2.1 = m := by
        intro m hm
        obtain ⟨e, he, h1, h2⟩ := (mem_outs_iff _ _ _).mp hm
        exact ⟨e, ((hE e).mp he).1, h1, h2⟩
      obtain ⟨k1, k2⟩ := kinv_fold hwf hxL (st.g.outs x) _ hI1 hE1 (outs_nodup hI.pn x) hms
      have k3 : EdgeOut g ((st.g.outs x).foldl (kahnEdge x) { g := st.g, S := D }) (L ++ [x]) := by
        intro e
        rw [k2 e]
        simp only [List.mem_append, List.mem_singleton, List.not_mem_nil, not_or]
      exact kinv_loop hwf n _ _ k1 k3 (by simp; omega)

theorem kahn_acyclic' (g : AGraph α) (hwf : g.WF)
    (hac : ¬ ∃ u v, g.hasEdge u v = true ∧ Reach g v u) :
    ∃ L, kahnSort g = some L ∧ (L.Nodup ∧ (∀ v, v ∈ L ↔ v ∈ g.verts) ∧
        ∀ e ∈ g.edges, ∃ i j : Nat, L[i]? = some e.1 ∧ L[j]? = some e.2.1 ∧ i < j) := by
  have hI0 : KInv g { g := g, S := g.verts.filter (fun v => (g.ins v).isEmpty) } [] := by
    refine ⟨hwf.2.1, ?_, ?_, ?_, by simp⟩
    · simpa using List.filter_sublist.nodup hwf.1
    · intro v hv; simp at hv; exact hv.1
    · intro v hv
      simp only [List.nil_append, List.mem_filter, ins_isEmpty_iff]
      exact ⟨fun h => h.2, fun h => ⟨hv, h⟩⟩
  have hE0 : EdgeOut g { g := g, S := g.verts.filter (fun v => (g.ins v).isEmpty) } [] := by
    intro e; simp
  obtain ⟨h1, h2, h3⟩ := kinv_loop hwf (g.verts.length + 1) _ [] hI0 hE0 (by simp)
  unfold kahnSort
  split
  rename_i st L heq
  rw [heq] at h1 h2 h3
  simp only at h1 h2 h3
  have hnone : ∀ v, ¬ (v ∈ g.verts ∧ v ∉ L) := by
    apply no_pred_closed hac
    rintro v ⟨hv, hvL⟩
    refine ⟨hv, ?_⟩
    have : ¬ ∀ e ∈ st.g.edges, e.2.1 ≠ v := fun h => hvL (by
      have := (h1.ins v hv).mpr h
      simpa [h3] using this)
    apply Classical.byContradiction
    intro hno
    apply this
    intro e he hev
    have hee := (h2 e).mp he
    exact hno ⟨e.1, ⟨(hwf.2.2 e hee.1).1, hee.2⟩, (hasEdge_iff g _ _).mpr ⟨e, hee.1, rfl, hev⟩⟩
  have hemp : st.g.edges = [] := by
    cases hh : st.g.edges with
    | nil => rfl
    | cons e es =>
      have he : e ∈ st.g.edges := by rw [hh]; simp
      have hee := (h2 e).mp he
      exact absurd ⟨(hwf.2.2 e hee.1).1, hee.2⟩ (hnone e.1)
  have hall : ∀ v, v ∈ g.verts → v ∈ L := by
    intro v hv
    have := (h1.ins v hv).mpr (by rw [hemp]; simp)
    simpa [h3] using this
  refine ⟨L, by simp [hemp], ?_, ?_, ?_⟩
  · have := h1.nd; simpa [h3] using this
  · intro v
    exact ⟨fun h => h1.sub v (by simp [h]), hall v⟩
  · intro e he
    exact h1.ord e he (hall _ (hwf.2.2 e he).2)

end ArgMapper.TraverseKahn
