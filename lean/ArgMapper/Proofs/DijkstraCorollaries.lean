import ArgMapper.Proofs.DijkstraExact
/-!
# Helper lemmas for C18b: corollaries of exactness
-/
namespace ArgMapper.DijkstraProofs
open ArgMapper AGraph Dijkstra
variable {α : Type} [DecidableEq α]

/-- two true distances coincide -/
theorem distSpec_unique {g : AGraph α} {u v : α} {d1 d2 : Int} (h1 : DistSpec g u v d1)
    (h2 : DistSpec g u v d2) : d1 = d2 := by
  obtain ⟨⟨p1, hp1, hw1⟩, hl1⟩ := h1
  obtain ⟨⟨p2, hp2, hw2⟩, hl2⟩ := h2
  have a := hl1 p2 hp2
  have b := hl2 p1 hp1
  omega

theorem distSpec_nonneg {g : AGraph α} (hn : NonNeg g) {u v : α} {d : Int} (h : DistSpec g u v d) :
    0 ≤ d := by
  obtain ⟨⟨p, _, hw⟩, _⟩ := h
  rw [← hw]; exact pathWeight_nonneg hn p

theorem distSpec_edge {g : AGraph α} {s u v : α} {du dv w : Int} (h1 : DistSpec g s u du)
    (h2 : DistSpec g s v dv) (hw : g.weight u v = some w) : dv ≤ du + w := by
  obtain ⟨⟨p, hp, hpw⟩, _⟩ := h1
  obtain ⟨hq, hqw⟩ := pathFT_snoc hp hw
  have := h2.2 _ hq
  omega

theorem distSpec_self {g : AGraph α} (hn : NonNeg g) {s : α} {d : Int} (h : DistSpec g s s d) :
    d = 0 := by
  have h0 := distSpec_nonneg hn h
  have := h.2 [s] ⟨rfl, rfl, trivial⟩
  simp only [pathWeight] at this
  omega

/-- at the end of a legal run every reachable vertex is visited and has its `Link` -/
theorem final_link {g : AGraph α} {src : α} (h : Hyp g src) (pops : List α)
    (hl : LegalPops g src pops) (v : α) (hr : Reach g src v) :
    Link g src (run g src pops) v := by
  obtain ⟨hleg, hnd, hcov⟩ := hl
  have hB : Base g src (run g src pops) :=
    inv_foldl h pops _ (base_init g src) (Or.inl (clean_init g src)) hleg
  have hvv : v ∈ (run g src pops).visited := by
    rw [run_visited]; exact List.mem_reverse.2 (hcov v (reach_verts h hr))
  exact (hB v hvv hr).2

end ArgMapper.DijkstraProofs
