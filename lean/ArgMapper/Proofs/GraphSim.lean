import ArgMapper.Proofs.GraphSpecLemmas
/-!
# The simulation invariant between the heap-of-maps model and the specification (C19)
-/
set_option linter.unusedSectionVars false
namespace ArgMapper
namespace GraphSpec
variable {α : Type} [DecidableEq α]
open AGraph GraphImpl

/-! ### list helpers -/

theorem getD_set {β : Type} (l : List β) (i j : Nat) (x d : β) :
    (l.set i x).getD j d = if i = j ∧ i < l.length then x else l.getD j d := by
  simp only [List.getD_eq_getElem?_getD, List.getElem?_set]
  by_cases h : i = j
  · subst h
    by_cases h2 : i < l.length
    · simp [h2]
    · simp [h2]
  · simp [h]

theorem getD_append_default {β : Type} (l m : List β) (d : β) (hm : ∀ x ∈ m, x = d) (k : Nat) :
    (l ++ m).getD k d = l.getD k d := by
  simp only [List.getD_eq_getElem?_getD, List.getElem?_append]
  by_cases h : k < l.length
  · simp [h]
  · simp only [h, if_false]
    rw [List.getElem?_eq_none (by omega : l.length ≤ k)]
    cases hh : m[k - l.length]? with
    | none => rfl
    | some x => simp [hm x (List.mem_of_getElem? hh)]

theorem getD_append_lt {β : Type} (l m : List β) (d : β) (k : Nat) (h : k < l.length) :
    (l ++ m).getD k d = l.getD k d := by
  simp [List.getD_eq_getElem?_getD, List.getElem?_append, h]

theorem getD_append_len {β : Type} (l : List β) (x d : β) : (l ++ [x]).getD l.length d = x := by
  simp [List.getD_eq_getElem?_getD]

/-! ### the invariant -/

def nones : GraphVal := ⟨none, none, none⟩

def gswap (b : Bool) (gv : GraphVal) : GraphVal := if b then ⟨gv.inn, gv.out, gv.hash⟩ else gv

/-- a handle is either entirely uninitialised or has three valid references -/
def Shape (w : World α) (gv : GraphVal) : Prop :=
  gv = nones ∨ ∃ a b c, gv = ⟨some a, some b, some c⟩ ∧ a < w.adj.length ∧ b < w.adj.length ∧ a ≠ b ∧
    c < w.hashes.length

def Disj (g1 g2 : GraphVal) : Prop :=
  (∀ k, (g1.out = some k ∨ g1.inn = some k) → g2.out ≠ some k ∧ g2.inn ≠ some k) ∧
  (∀ k, g1.hash = some k → g2.hash ≠ some k)

theorem Disj.symm {g1 g2 : GraphVal} (h : Disj g1 g2) : Disj g2 g1 := by
  refine ⟨?_, ?_⟩
  · intro k hk
    refine ⟨fun e => ?_, fun e => ?_⟩
    · rcases hk with hk | hk
      · exact (h.1 k (Or.inl e)).1 hk
      · exact (h.1 k (Or.inl e)).2 hk
    · rcases hk with hk | hk
      · exact (h.1 k (Or.inr e)).1 hk
      · exact (h.1 k (Or.inr e)).2 hk
  · intro k hk e
    exact h.2 k e hk

theorem Disj.nones_left (g : GraphVal) : Disj nones g := by
  refine ⟨?_, ?_⟩
  · intro k hk; simp [nones] at hk
  · intro k hk; simp [nones] at hk

theorem Disj.fresh {w : World α} {g : GraphVal} (hg : Shape w g) {a b c : Nat}
    (ha : w.adj.length ≤ a) (hb : w.adj.length ≤ b) (hc : w.hashes.length ≤ c) :
    Disj ⟨some a, some b, some c⟩ g := by
  rcases hg with hg | ⟨a', b', c', hg, ha', hb', _, hc'⟩
  · subst hg; exact (Disj.nones_left _).symm
  · subst hg
    refine ⟨?_, ?_⟩
    · intro k hk
      simp only [Option.some.injEq] at hk
      simp only [ne_eq, Option.some.injEq]
      omega
    · intro k hk
      simp only [Option.some.injEq] at hk
      simp only [ne_eq, Option.some.injEq]
      omega

/-- the weight function seen through a handle of orientation `fl` -/
def clsW (c : SClass α) (fl : Bool) (u v : α) : Option Int :=
  if fl then c.g.weight v u else c.g.weight u v

structure RepC (o i : AdjObj α) (hs : HashObj α) (c : SClass α) (fl : Bool) : Prop where
  out : Half o (· ∈ c.g.verts) (clsW c fl)
  inn : Half i (· ∈ c.g.verts) (fun u v => clsW c fl v u)
  hash : HRep hs (· ∈ c.g.verts) (aget c.tags)

theorem RepC.swap {o i : AdjObj α} {hs : HashObj α} {c : SClass α} {fl : Bool}
    (h : RepC o i hs c fl) : RepC i o hs c (!fl) := by
  refine ⟨?_, ?_, h.hash⟩
  · exact h.inn.congr (fun _ => Iff.rfl) (fun a b => by cases fl <;> simp [clsW])
  · exact h.out.congr (fun _ => Iff.rfl) (fun a b => by cases fl <;> simp [clsW])

theorem RepC.empty (fl : Bool) : RepC ([] : AdjObj α) [] [] SClass.empty fl := by
  refine ⟨?_, ?_, ?_⟩
  · exact Half.nil.congr (fun v => by simp [SClass.empty, AGraph.empty])
      (fun a b => by cases fl <;> simp [clsW, SClass.empty, weight_empty])
  · exact Half.nil.congr (fun v => by simp [SClass.empty, AGraph.empty])
      (fun a b => by cases fl <;> simp [clsW, SClass.empty, weight_empty])
  · refine ⟨by simp [akeys], by simp [SClass.empty], by simp [SClass.empty, AGraph.empty]⟩

/-- transfer of a representation to a class with the same observable content -/
theorem RepC.congr {o i : AdjObj α} {hs : HashObj α} {c c' : SClass α} {fl : Bool}
    (h : RepC o i hs c fl) (hV : ∀ v, v ∈ c'.g.verts ↔ v ∈ c.g.verts)
    (hW : ∀ a b, c'.g.weight a b = c.g.weight a b) (hT : ∀ v, aget c'.tags v = aget c.tags v) :
    RepC o i hs c' fl := by
  refine ⟨h.out.congr hV (fun a b => by cases fl <;> simp [clsW, hW]),
    h.inn.congr hV (fun a b => by cases fl <;> simp [clsW, hW]), ?_⟩
  exact ⟨h.hash.nd, fun v => by rw [hT]; exact h.hash.get v, fun v => by rw [hT, hV]; exact h.hash.dom v⟩

structure Sim (w : World α) (s : SpecWorld α) : Prop where
  len : w.handles.length = s.handles.length
  cok : ∀ h, h < s.handles.length → (s.handle h).1 < s.classes.length
  shape : ∀ h, h < s.handles.length → Shape w (w.handle h)
  rep : ∀ h, h < s.handles.length →
    RepC (w.getAdj (w.handle h).out) (w.getAdj (w.handle h).inn) (w.getHash (w.handle h).hash)
      (s.cls h) (s.handle h).2
  same : ∀ h1 h2, h1 < s.handles.length → h2 < s.handles.length → h1 ≠ h2 →
    (s.handle h1).1 = (s.handle h2).1 →
    w.handle h1 ≠ nones ∧ w.handle h2 = gswap ((s.handle h1).2 != (s.handle h2).2) (w.handle h1)
  diff : ∀ h1 h2, h1 < s.handles.length → h2 < s.handles.length →
    (s.handle h1).1 ≠ (s.handle h2).1 → Disj (w.handle h1) (w.handle h2)

theorem Sim.empty : Sim (World.empty : World α) SpecWorld.empty := by
  refine ⟨rfl, ?_, ?_, ?_, ?_, ?_⟩ <;> intro h <;> simp [SpecWorld.empty]

/-! ### frame lemma: replacing the objects of one handle and the class of that handle -/

theorem setCls_handle (s : SpecWorld α) (h k : Nat) (c : SClass α) : (s.setCls h c).handle k = s.handle k := rfl

theorem setCls_cls (s : SpecWorld α) (h k : Nat) (c : SClass α) (hc : (s.handle h).1 < s.classes.length) :
    (s.setCls h c).cls k = if (s.handle h).1 = (s.handle k).1 then c else s.cls k := by
  unfold SpecWorld.cls
  rw [setCls_handle]
  simp only [SpecWorld.setCls]
  rw [getD_set]
  simp [hc]

theorem Sim.update {w w' : World α} {s : SpecWorld α} (hs : Sim w s) {h : Nat} (hlt : h < s.handles.length)
    (cl' : SClass α)
    (hh : w'.handles = w.handles) (hal : w'.adj.length = w.adj.length)
    (hhl : w'.hashes.length = w.hashes.length)
    (hfa : ∀ k, (w.handle h).out ≠ some k → (w.handle h).inn ≠ some k → w'.adj.getD k [] = w.adj.getD k [])
    (hfh : ∀ k, (w.handle h).hash ≠ some k → w'.hashes.getD k [] = w.hashes.getD k [])
    (hrep : RepC (w'.getAdj (w.handle h).out) (w'.getAdj (w.handle h).inn) (w'.getHash (w.handle h).hash)
      cl' (s.handle h).2) :
    Sim w' (s.setCls h cl') := by
  have hH : ∀ k, w'.handle k = w.handle k := by intro k; unfold World.handle; rw [hh]
  have hci := hs.cok h hlt
  refine ⟨?_, ?_, ?_, ?_, ?_, ?_⟩
  · rw [hh]; exact hs.len
  · intro k hk
    simp only [SpecWorld.setCls, List.length_set]
    exact hs.cok k hk
  · intro k hk
    rw [hH]
    rcases hs.shape k hk with e | ⟨a, b, c, e, h1, h2, h3, h4⟩
    · exact Or.inl e
    · exact Or.inr ⟨a, b, c, e, by omega, by omega, h3, by omega⟩
  · intro k hk
    have hk' : k < s.handles.length := hk
    rw [hH, setCls_cls _ _ _ _ hci, setCls_handle]
    by_cases hcl : (s.handle h).1 = (s.handle k).1
    · rw [if_pos hcl]
      by_cases hkh : h = k
      · subst hkh; exact hrep
      · obtain ⟨_, e⟩ := hs.same h k hlt hk' hkh hcl
        rw [e]
        cases hf1 : (s.handle h).2 <;> cases hf2 : (s.handle k).2
        · simpa [gswap, hf1] using hrep
        · have := hrep.swap; simpa [gswap, hf1] using this
        · have := hrep.swap; simpa [gswap, hf1] using this
        · simpa [gswap, hf1] using hrep
    · rw [if_neg hcl]
      have hd := hs.diff h k hlt hk' hcl
      have hr := hs.rep k hk'
      have e1 : w'.getAdj (w.handle k).out = w.getAdj (w.handle k).out := by
        cases hx : (w.handle k).out with
        | none => rfl
        | some x =>
          simp only [World.getAdj]
          apply hfa
          · intro e; exact (hd.1 x (Or.inl e)).1 hx
          · intro e; exact (hd.1 x (Or.inr e)).1 hx
      have e2 : w'.getAdj (w.handle k).inn = w.getAdj (w.handle k).inn := by
        cases hx : (w.handle k).inn with
        | none => rfl
        | some x =>
          simp only [World.getAdj]
          apply hfa
          · intro e; exact (hd.1 x (Or.inl e)).2 hx
          · intro e; exact (hd.1 x (Or.inr e)).2 hx
      have e3 : w'.getHash (w.handle k).hash = w.getHash (w.handle k).hash := by
        cases hx : (w.handle k).hash with
        | none => rfl
        | some x =>
          simp only [World.getHash]
          apply hfh
          intro e; exact hd.2 x e hx
      rw [e1, e2, e3]
      exact hr
  · intro h1 h2 l1 l2 hne hc
    rw [hH, hH]
    exact hs.same h1 h2 l1 l2 hne hc
  · intro h1 h2 l1 l2 hc
    rw [hH, hH]
    exact hs.diff h1 h2 l1 l2 hc

/-! ### `init` -/

def initW (w : World α) (h : Nat) : World α :=
  { adj := w.adj ++ [[], []], hashes := w.hashes ++ [[]],
    handles := w.handles.set h ⟨some w.adj.length, some (w.adj.length + 1), some w.hashes.length⟩ }

theorem init_nones (w : World α) (h : Nat) (hh : w.handle h = nones) (hlt : h < w.handles.length) :
    init w h = initW w h := by
  unfold init initW
  simp only [hh, nones]
  simp [World.handle, List.getD_eq_getElem?_getD, hlt]

theorem init_some (w : World α) (h a b c : Nat) (hh : w.handle h = ⟨some a, some b, some c⟩) :
    init w h = w := by
  unfold init
  simp only [hh]

theorem gswap_ne_nones (b : Bool) (g : GraphVal) (h : g ≠ nones) : gswap b g ≠ nones := by
  cases b
  · simpa [gswap] using h
  · intro e
    apply h
    cases g
    simp only [gswap, if_true, nones, GraphVal.mk.injEq] at e ⊢
    exact ⟨e.2.1, e.1, e.2.2⟩

theorem Sim.init {w : World α} {s : SpecWorld α} (hs : Sim w s) {h : Nat} (hlt : h < s.handles.length) :
    Sim (init w h) s ∧ ∃ a b c, (init w h).handle h = ⟨some a, some b, some c⟩ ∧ a ≠ b := by
  rcases hs.shape h hlt with e | ⟨a, b, c, e, h1, h2, h3, h4⟩
  · have hltw : h < w.handles.length := by rw [hs.len]; exact hlt
    rw [init_nones w h e hltw]
    have hH : ∀ k, (initW w h).handle k
          = if h = k then ⟨some w.adj.length, some (w.adj.length + 1), some w.hashes.length⟩
            else w.handle k := by
      intro k
      simp only [World.handle, initW, getD_set, hltw, and_true]
    have hA : ∀ r, (initW w h).getAdj r
          = w.getAdj r := by
      intro r
      cases r with
      | none => rfl
      | some k => exact getD_append_default _ _ _ (by simp) k
    have hHs : ∀ r, (initW w h).getHash r
          = w.getHash r := by
      intro r
      cases r with
      | none => rfl
      | some k => exact getD_append_default _ _ _ (by simp) k
    have hsh : ∀ g, Shape w g → Shape (initW w h) g := by
      intro g hg
      rcases hg with e | ⟨a, b, c, e, h1, h2, h3, h4⟩
      · exact Or.inl e
      · refine Or.inr ⟨a, b, c, e, ?_, ?_, h3, ?_⟩ <;> simp [initW] <;> omega
    -- `h` is alone in its class
    have halone : ∀ k, k < s.handles.length → h ≠ k → (s.handle h).1 ≠ (s.handle k).1 := by
      intro k hk hne hc
      exact (hs.same h k hlt hk hne hc).1 e
    refine ⟨⟨?_, hs.cok, ?_, ?_, ?_, ?_⟩, ⟨w.adj.length, w.adj.length + 1, w.hashes.length, by rw [hH]; simp, by omega⟩⟩
    · simp [initW, hs.len]
    · intro k hk
      rw [hH]
      by_cases hk2 : h = k
      · rw [if_pos hk2]
        refine Or.inr ⟨_, _, _, rfl, ?_, ?_, ?_, ?_⟩ <;> simp [initW]
      · rw [if_neg hk2]; exact hsh _ (hs.shape k hk)
    · intro k hk
      rw [hA, hA, hHs, hH]
      by_cases hk2 : h = k
      · subst hk2
        rw [if_pos rfl]
        have := hs.rep h hlt
        rw [e] at this
        have e1 : w.getAdj (some w.adj.length) = [] := by
          simp [World.getAdj, List.getD_eq_getElem?_getD]
        have e2 : w.getAdj (some (w.adj.length + 1)) = [] := by
          simp [World.getAdj, List.getD_eq_getElem?_getD]
        have e3 : w.getHash (some w.hashes.length) = [] := by
          simp [World.getHash, List.getD_eq_getElem?_getD]
        simp only [e1, e2, e3]
        simpa [nones, World.getAdj, World.getHash] using this
      · rw [if_neg hk2]; exact hs.rep k hk
    · intro h1 h2 l1 l2 hne hc
      have n1 : h ≠ h1 := by
        intro e1; subst e1; exact halone h2 l2 hne hc
      have n2 : h ≠ h2 := by
        intro e2; subst e2; exact halone h1 l1 (fun e => hne e.symm) hc.symm
      rw [hH, hH, if_neg n1, if_neg n2]
      exact hs.same h1 h2 l1 l2 hne hc
    · intro h1 h2 l1 l2 hc
      rw [hH, hH]
      by_cases n1 : h = h1
      · have n2 : h ≠ h2 := by intro e2; apply hc; rw [← n1, ← e2]
        rw [if_pos n1, if_neg n2]
        exact Disj.fresh (hs.shape h2 l2) (Nat.le_refl _) (Nat.le_succ _) (Nat.le_refl _)
      · rw [if_neg n1]
        by_cases n2 : h = h2
        · rw [if_pos n2]
          exact (Disj.fresh (hs.shape h1 l1) (Nat.le_refl _) (Nat.le_succ _) (Nat.le_refl _)).symm
        · rw [if_neg n2]; exact hs.diff h1 h2 l1 l2 hc
  · rw [init_some w h a b c e]
    exact ⟨hs, a, b, c, e, h3⟩

end GraphSpec
end ArgMapper
