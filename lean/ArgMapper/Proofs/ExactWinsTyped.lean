import ArgMapper.Proofs.ExactWins
import ArgMapper.Proofs.DijkstraPath
/-!
# Helper lemmas for C03 (exact matches win), type-only parameters

* static part: in the pruned call graph every root-to-`arg(T,s)` path of the reversed graph that is as
  cheap as the direct one `root → out(T,s) → arg(T,s)` has the shape `[root, x, arg(T,s)]` with `x` the
  vertex of a supplied value of type `T`; by the exactness of Dijkstra (C18) the chosen path is such a
  path;
* dynamic part: walking such paths copies supplied values into the argument vertices and executes
  nothing.
-/
set_option linter.unusedSectionVars false
set_option linter.unusedVariables false
namespace ArgMapper.ExactWins
open ArgMapper Generated

/-! ### case analysis of the weighted rules -/

theorem rule_pos {fs : List FuncDesc} {ins : List Vtx} {x y : Vtx} {w : Int} (h : WRule fs ins x y w) : 1 ≤ w := by
  cases h <;> first
    | (simp only [weightNormal, weightTyped, weightTypedOtherSubtype]; omega)
    | decide

theorem rule_to_root {fs : List FuncDesc} {ins : List Vtx} {x : Vtx} {w : Int} (h : WRule fs ins x .root w) :
    w = 1 ∧ ((∃ k, x = .func k) ∨ x ∈ ins) := by
  generalize hy : Vtx.root = y at h
  cases h with
  | funcRoot f hf => exact ⟨rfl, Or.inl ⟨_, rfl⟩⟩
  | inputRoot x hx => exact ⟨rfl, Or.inr hx⟩
  | funcNamed => cases hy
  | funcTyped => cases hy
  | namedOut => cases hy
  | typedOut => cases hy
  | valueOut => cases hy
  | argValue => cases hy
  | argOut => cases hy
  | outOut => cases hy
  | valueValue => cases hy
  | argOutSub => cases hy

theorem rule_from_arg {fs : List FuncDesc} {ins : List Vtx} {t : Nat} {s : String} {y : Vtx} {w : Int}
    (hins : ∀ x ∈ ins, x.isValue = true ∨ x.isOut = true) (h : WRule fs ins (.arg t s) y w) :
    (∃ n s', y = .value n t s' ∧ w = 5) ∨ (y = .out t s ∧ w = 5) ∨ (∃ s', y = .out t s' ∧ s ≠ s' ∧ w = 20) := by
  generalize hx : Vtx.arg t s = x at h
  cases h with
  | argValue n t' s1 s2 => cases hx; exact Or.inl ⟨_, _, rfl, rfl⟩
  | argOut t' s' => cases hx; exact Or.inr (Or.inl ⟨rfl, rfl⟩)
  | argOutSub t' s1 s2 hne => cases hx; exact Or.inr (Or.inr ⟨_, rfl, hne, rfl⟩)
  | funcRoot => cases hx
  | funcNamed => cases hx
  | funcTyped => cases hx
  | inputRoot x' hx' =>
    subst hx
    rcases hins _ hx' with h | h <;> cases h
  | namedOut => cases hx
  | typedOut => cases hx
  | valueOut => cases hx
  | outOut => cases hx
  | valueValue => cases hx


/-! ### more about pruning -/

/-- a dependent of a kept vertex other than the target is kept -/
theorem kept_step (c : CG) (hwf : c.g.WF) (hroot : Vtx.root ∈ c.g.verts) (t x y : Vtx)
    (hx : Kept c t x) (hxt : x ≠ t) (hy : c.g.hasEdge y x = true) : Kept c t y := by
  by_cases hyr : y = .root
  · exact Or.inl hyr
  · right
    have hex := (C20.dfs_exact c.g.reverse (WF_reverse hwf) (fun v => if v = t then .skip else .descend) .root
      hroot (by intro w _; split <;> simp)).2.2
    rw [hex y]
    have hxe : C20.Explored c.g.reverse (fun v => if v = t then .skip else .descend) .root x := by
      rcases hx with rfl | hx
      · exact .start
      · obtain ⟨hne, u, hu, hux⟩ := (hex x).1 hx
        exact .step hu hux hne (by rw [if_neg hxt])
    exact ⟨hyr, x, hxe, (ReachSound.hasEdge_reverse _ _ _).2 hy⟩

section
variable (e : TypeEnv) (b : Builder) (funcs : Nat → Option FuncDesc) (target : FuncDesc)

theorem fin_wf : (fin e b funcs target).g.WF := prune_wf _ (pre_wf e b funcs target) _

theorem fin_rule : RuleOK (CRule b funcs target) (fin e b funcs target).g := by
  intro x y w h
  unfold fin at h
  rw [prune_weight _ (pre_wf e b funcs target)] at h
  exact pre_rule e b funcs target x y w h.1

theorem fin_hasEdge_of_kept {x y : Vtx} (h : (pre e b funcs target).g.hasEdge x y = true)
    (hx : Kept (pre e b funcs target) (.func target.key) x) (hy : Kept (pre e b funcs target) (.func target.key) y) :
    (fin e b funcs target).g.hasEdge x y = true := by
  obtain ⟨w, hw⟩ := (hasEdge_iff_weight _ _ _).1 h
  refine (hasEdge_iff_weight _ _ _).2 ⟨w, ?_⟩
  unfold fin
  rw [prune_weight _ (pre_wf e b funcs target)]
  exact ⟨hw, hx, hy⟩

theorem fin_mem_of_kept {x : Vtx} (h : x ∈ (pre e b funcs target).g.verts)
    (hx : Kept (pre e b funcs target) (.func target.key) x) : x ∈ (fin e b funcs target).g.verts := by
  unfold fin
  rw [prune_verts]
  exact ⟨h, hx⟩

end

/-! ### R4 -/

theorem phaseR4_edge (c : CG) (t : Nat) (s : String) (h : Vtx.arg t s ∈ c.g.verts) :
    (phaseR4 c).g.hasEdge (.arg t s) (.out t s) = true := by
  unfold phaseR4
  have := foldl_effect (fun (c : CG) (v : Vtx) => (c.add (.out v.ty v.sub)).edge v (.out v.ty v.sub) weightTyped)
    (fun (c : CG) (v : Vtx) => c.g.hasEdge v (.out v.ty v.sub) = true)
    (fun c x => hasEdge_addEdge_self _ _ _ _)
    (fun c x y h => by
      refine hasEdge_addEdge_mono _ _ _ _ ?_
      show (c.g.add _).hasEdge _ _ = true
      rw [CGE.hasEdge_add]; exact h)
    (c.g.verts.filter Vtx.isArg) c (.arg t s) (List.mem_filter.2 ⟨h, rfl⟩)
  exact this

/-! ### every supplied vertex holds a value of its type -/

theorem store_fold_pred {β : Type} (vtx : β → Vtx) (val : β → Val) (P : Val → Prop) (v : Vtx) :
    ∀ (l : List β) (acc : CG × List Vtx), (∀ q ∈ l, vtx q = v → P (val q)) →
      (∃ x, mapGet acc.1.store v = some x ∧ P x) →
      ∃ x, mapGet (l.foldl (inStep vtx val) acc).1.store v = some x ∧ P x := by
  intro l
  induction l with
  | nil => intro acc _ h; exact h
  | cons a l ih =>
    intro acc hl h
    rw [List.foldl_cons]
    apply ih _ (fun q hq => hl q (List.mem_cons_of_mem _ hq))
    rw [inStep_store]
    split
    · rename_i hv
      exact ⟨_, rfl, hl a List.mem_cons_self hv.symm⟩
    · exact h

theorem store_fold_pred_mem {β : Type} (vtx : β → Vtx) (val : β → Val) (P : Val → Prop) (p : β) :
    ∀ (l : List β) (acc : CG × List Vtx), p ∈ l → (∀ q ∈ l, vtx q = vtx p → P (val q)) →
      ∃ x, mapGet (l.foldl (inStep vtx val) acc).1.store (vtx p) = some x ∧ P x := by
  intro l
  induction l with
  | nil => intro acc h; cases h
  | cons a l ih =>
    intro acc hp hl
    rw [List.foldl_cons]
    by_cases hpl : p ∈ l
    · exact ih _ hpl (fun q hq => hl q (List.mem_cons_of_mem _ hq))
    · have : p = a := by
        rcases List.mem_cons.1 hp with h | h
        · exact h
        · exact absurd h hpl
      subst this
      apply store_fold_pred _ _ _ _ _ _ (fun q hq => hl q (List.mem_cons_of_mem _ hq))
      rw [inStep_store, if_pos rfl]
      exact ⟨_, rfl, hl p List.mem_cons_self rfl⟩

theorem store_inputVerts (c : CG) (b : Builder) (hb : TypedOK b) (x : Vtx) (hx : x ∈ inputVerts b) :
    ∃ val, mapGet (inputsGraph c b).1.store x = some val ∧ val.ty = x.ty := by
  rw [inputsGraph_eq]
  unfold inputVerts at hx
  simp only [List.mem_append, List.mem_map] at hx
  have k1 : ∀ q ∈ b.named, Vtx.value q.1 q.2.ty "" = x → q.2.ty = x.ty := by
    intro q _ h; rw [← h]; rfl
  have k2 : ∀ q ∈ b.namedSub, Vtx.value q.1.1 q.2.ty q.1.2 = x → q.2.ty = x.ty := by
    intro q _ h; rw [← h]; rfl
  have k3 : ∀ q ∈ b.typed, Vtx.out q.1 "" = x → q.2.ty = x.ty := by
    intro q hq h; rw [← h]; exact hb.typed_ty q hq
  have k4 : ∀ q ∈ b.typedSub, Vtx.out q.1.1 q.1.2 = x → q.2.ty = x.ty := by
    intro q hq h; rw [← h]; exact hb.typedSub_ty q hq
  rcases hx with ((⟨p, hp, rfl⟩ | ⟨p, hp, rfl⟩) | ⟨p, hp, rfl⟩) | ⟨p, hp, rfl⟩
  · apply store_fold_pred _ _ (fun v : Val => v.ty = (Vtx.value p.1 p.2.ty "").ty) _ _ _ k4
    apply store_fold_pred _ _ (fun v : Val => v.ty = (Vtx.value p.1 p.2.ty "").ty) _ _ _ k3
    apply store_fold_pred _ _ (fun v : Val => v.ty = (Vtx.value p.1 p.2.ty "").ty) _ _ _ k2
    exact store_fold_pred_mem (fun p : String × Val => Vtx.value p.1 p.2.ty "") (fun p => p.2)
      (fun v : Val => v.ty = (Vtx.value p.1 p.2.ty "").ty) p _ _ hp k1
  · apply store_fold_pred _ _ (fun v : Val => v.ty = (Vtx.value p.1.1 p.2.ty p.1.2).ty) _ _ _ k4
    apply store_fold_pred _ _ (fun v : Val => v.ty = (Vtx.value p.1.1 p.2.ty p.1.2).ty) _ _ _ k3
    exact store_fold_pred_mem (fun p : (String × String) × Val => Vtx.value p.1.1 p.2.ty p.1.2) (fun p => p.2)
      (fun v : Val => v.ty = (Vtx.value p.1.1 p.2.ty p.1.2).ty) p _ _ hp k2
  · apply store_fold_pred _ _ (fun v : Val => v.ty = (Vtx.out p.1 "").ty) _ _ _ k4
    exact store_fold_pred_mem (fun p : Nat × Val => Vtx.out p.1 "") (fun p => p.2)
      (fun v : Val => v.ty = (Vtx.out p.1 "").ty) p _ _ hp k3
  · exact store_fold_pred_mem (fun p : (Nat × String) × Val => Vtx.out p.1.1 p.1.2) (fun p => p.2)
      (fun v : Val => v.ty = (Vtx.out p.1.1 p.1.2).ty) p _ _ hp k4


/-! ### cheap paths to a typed argument in the reversed graph -/

section
variable {fs : List FuncDesc} {ins : List Vtx} (g : AGraph Vtx) (hrule : RuleOK (WRule fs ins) g)
  (hins : ∀ x ∈ ins, x.isValue = true ∨ x.isOut = true)
include hrule

theorem rev_edge {a b : Vtx} (h : g.reverse.hasEdge a b = true) :
    ∃ w, g.weight b a = some w ∧ g.reverse.weight a b = some w ∧ WRule fs ins b a w := by
  obtain ⟨w, hw⟩ := (hasEdge_iff_weight _ _ _).1 h
  have hw' := hw
  rw [AGraph.weight_reverse] at hw'
  exact ⟨w, hw', hw, hrule _ _ _ hw'⟩

theorem rev_weight_nonneg (a b : Vtx) : 0 ≤ (g.reverse.weight a b).getD 0 := by
  cases h : g.reverse.weight a b with
  | none => simp
  | some w =>
    rw [AGraph.weight_reverse] at h
    have := rule_pos (hrule _ _ _ h)
    simp only [Option.getD_some]
    omega

include hins

theorem pw_into_arg (t : Nat) (s : String) : ∀ (p : List Vtx) (u : Vtx), p ≠ [] → AGraph.IsPath g.reverse (u :: p) →
    (u :: p).getLast? = some (.arg t s) → 5 ≤ AGraph.pathWeight g.reverse (u :: p) := by
  intro p
  induction p with
  | nil => intro u h; exact absurd rfl h
  | cons v r ih =>
    intro u _ hpath hlast
    cases r with
    | nil =>
      simp only [List.getLast?_cons_cons, List.getLast?_singleton, Option.some.injEq] at hlast
      subst hlast
      obtain ⟨w, hw1, hw2, hr⟩ := rev_edge g hrule hpath.1
      simp only [AGraph.pathWeight, hw2, Option.getD_some]
      rcases rule_from_arg hins hr with ⟨_, _, _, rfl⟩ | ⟨_, rfl⟩ | ⟨_, _, _, rfl⟩ <;> omega
    | cons v' r' =>
      rw [List.getLast?_cons_cons] at hlast
      have := ih v (by simp) hpath.2 hlast
      have h0 := rev_weight_nonneg g hrule u v
      simp only [AGraph.pathWeight] at this ⊢
      omega

theorem short_path_shape (t : Nat) (s : String) (p : List Vtx) (hh : p.head? = some Vtx.root)
    (hl : p.getLast? = some (Vtx.arg t s)) (hp : AGraph.IsPath g.reverse p)
    (hw : AGraph.pathWeight g.reverse p ≤ 6) :
    ∃ x, p = [Vtx.root, x, Vtx.arg t s] ∧ g.hasEdge x .root = true ∧ g.hasEdge (.arg t s) x = true := by
  cases p with
  | nil => cases hh
  | cons a rest =>
    simp only [List.head?_cons, Option.some.injEq] at hh
    subst hh
    cases rest with
    | nil => simp at hl
    | cons v1 rest =>
      cases rest with
      | nil =>
        simp only [List.getLast?_cons_cons, List.getLast?_singleton, Option.some.injEq] at hl
        subst hl
        obtain ⟨w, _, _, hr⟩ := rev_edge g hrule hp.1
        rcases rule_from_arg hins hr with ⟨_, _, h, _⟩ | ⟨h, _⟩ | ⟨_, h, _⟩ <;> cases h
      | cons v2 rest =>
        cases rest with
        | nil =>
          simp only [List.getLast?_cons_cons, List.getLast?_singleton, Option.some.injEq] at hl
          subst hl
          exact ⟨v1, rfl, (ReachSound.hasEdge_reverse _ _ _).1 hp.1, (ReachSound.hasEdge_reverse _ _ _).1 hp.2.1⟩
        | cons v3 rest =>
          exfalso
          obtain ⟨w1, _, hw1, hr1⟩ := rev_edge g hrule hp.1
          obtain ⟨w2, _, hw2, hr2⟩ := rev_edge g hrule hp.2.1
          have h1 := rule_pos hr1
          have h2 := rule_pos hr2
          rw [List.getLast?_cons_cons, List.getLast?_cons_cons] at hl
          have h3 := pw_into_arg g hrule hins t s (v3 :: rest) v2 (by simp) hp.2.2 hl
          simp only [AGraph.pathWeight, hw1, hw2, Option.getD_some] at hw h3
          omega

/-- **the static core**: Dijkstra's path to a typed argument whose exactly matching typed value was
supplied has the shape `[root, x, arg]`, `x` hanging off the root -/
theorem chosen_path_shape (hwf : g.WF) (hroot : Vtx.root ∈ g.verts)
    (hsmall : (g.edges.map (fun e => e.2.2)).sum < maxInt32) (t : Nat) (s : String)
    (h1 : g.hasEdge (.out t s) .root = true) (h2 : g.hasEdge (.arg t s) (.out t s) = true)
    (pops : List Vtx) (hl : Dijkstra.LegalPops (discount g (.arg t s)).reverse Vtx.root pops) :
    ∃ x, choosePath g (.arg t s) pops = [Vtx.root, x, Vtx.arg t s] ∧ g.hasEdge x .root = true ∧
      g.hasEdge (.arg t s) x = true := by
  have hd : discount g (.arg t s) = g := rfl
  rw [hd] at hl
  have hno : C18.NoOverflow g.reverse := by
    constructor
    · intro ed hed
      simp only [AGraph.reverse, List.mem_map] at hed
      obtain ⟨e0, he0, rfl⟩ := hed
      have := DijkstraProofs.weight_of_mem hwf (u := e0.1) (v := e0.2.1) (w := e0.2.2) he0
      have := rule_pos (hrule _ _ _ this)
      show 0 ≤ e0.2.2
      omega
    · have : g.reverse.edges.map (fun e => e.2.2) = g.edges.map (fun e => e.2.2) := by
        simp [AGraph.reverse, List.map_map, Function.comp_def]
      rw [this]; exact hsmall
  have e1 : g.reverse.hasEdge .root (.out t s) = true := (ReachSound.hasEdge_reverse _ _ _).2 h1
  have e2 : g.reverse.hasEdge (.out t s) (.arg t s) = true := (ReachSound.hasEdge_reverse _ _ _).2 h2
  have hr : AGraph.Reach g.reverse .root (.arg t s) := .step (.step (.refl _) e1) e2
  obtain ⟨hdist, hpath, hpw⟩ := C18.dist_exact g.reverse (WF_reverse hwf) .root hroot pops hl hno (.arg t s) hr
  -- the direct path weighs 6
  have hdirect : AGraph.pathWeight g.reverse [.root, .out t s, .arg t s] = 6 := by
    obtain ⟨w1, _, hw1, hr1⟩ := rev_edge g hrule e1
    obtain ⟨w2, _, hw2, hr2⟩ := rev_edge g hrule e2
    have k1 := (rule_to_root hr1).1
    have k2 : w2 = 5 := by
      rcases rule_from_arg hins hr2 with ⟨_, _, h, _⟩ | ⟨_, h⟩ | ⟨_, h, hne, _⟩
      · cases h
      · exact h
      · cases h; exact absurd rfl hne
    simp only [AGraph.pathWeight, hw1, hw2, Option.getD_some]
    omega
  have hle := hdist.2 [.root, .out t s, .arg t s] ⟨rfl, rfl, e1, e2, trivial⟩
  rw [hdirect, ← hpw] at hle
  exact short_path_shape g hrule hins t s _ hpath.1 hpath.2.1 hpath.2.2 hle

end


/-! ### walking `[root, x, arg]` -/

open WalkEqs in
theorem walk_good (c : Ctx) (rec : Vtx → CallSt → Except RErr ArgMap × CallSt) (hpub : c.publishAfterUpdate = true)
    (s : CallSt) (x : Vtx) (t : Nat) (st : String) (xv : PVal)
    (hx : x.isValue = true ∨ x.isOut = true) (hget : s.get x = some xv) (hass : c.env.assignable xv.ty t = true) :
    ([Vtx.root, x, Vtx.arg t st].foldl (walkStep c rec) { s := s, final := none, prev := none, err := none }).err = none ∧
    ([Vtx.root, x, Vtx.arg t st].foldl (walkStep c rec) { s := s, final := none, prev := none, err := none }).final = some xv ∧
    ([Vtx.root, x, Vtx.arg t st].foldl (walkStep c rec) { s := s, final := none, prev := none, err := none }).s =
      ({ s with last := some xv } : CallSt).set (.arg t st) (some xv) := by
  simp only [List.foldl_cons, List.foldl_nil]
  rw [walkStep_root c rec rfl]
  cases x with
  | value nm t' st' =>
    rw [walkStep_value c rec rfl]
    have hcf : valCopy c s (some Vtx.root) (.value nm t' st') = s := rfl
    simp only [hcf, hpub, if_true, hget]
    rw [walkStep_arg c rec rfl]
    simp only [argStore, hass, if_true]
    refine ⟨trivial, ?_, trivial⟩
    rw [ReachSound.get_set, if_pos rfl]
  | out t' st' =>
    rw [walkStep_out c rec rfl]
    have hcf : copyFrom s (some Vtx.root) (.out t' st') = s := rfl
    simp only [hcf, hget]
    rw [walkStep_arg c rec rfl]
    simp only [argStore, hass, if_true]
    refine ⟨trivial, ?_, trivial⟩
    rw [ReachSound.get_set, if_pos rfl]
  | root => rcases hx with h | h <;> cases h
  | arg _ _ => rcases hx with h | h <;> cases h
  | func _ => rcases hx with h | h <;> cases h

/-- the walk changes nothing but `last`, the input set and argument vertices -/
structure Rel (s0 s : CallSt) : Prop where
  get : ∀ v, v.isArg = false → s.get v = s0.get v
  log : s.log = s0.log
  memo : s.memo = s0.memo

theorem Rel.refl (s : CallSt) : Rel s s := ⟨fun _ _ => rfl, rfl, rfl⟩

/-- where the value walked into a typed argument of type `t` comes from -/
def Src (s0 : CallSt) (t : Nat) (xv : PVal) : Prop :=
  ∃ x, (x.isValue = true ∨ x.isOut = true) ∧ x.ty = t ∧ s0.get x = some xv ∧ xv.ty = t

def GoodPath (s0 : CallSt) (p : List Vtx) : Prop :=
  ∃ x t st xv, p = [.root, x, .arg t st] ∧ (x.isValue = true ∨ x.isOut = true) ∧ x.ty = t ∧
    s0.get x = some xv ∧ xv.ty = t

def AmGood (s0 : CallSt) (am : ArgMap) : Prop :=
  ∀ t st xv, mapGet am (.arg t st) = some xv → Src s0 t xv

theorem walkPaths_good (c : Ctx) (rec : Vtx → CallSt → Except RErr ArgMap × CallSt)
    (hpub : c.publishAfterUpdate = true) (s0 : CallSt) :
    ∀ (paths : List (List Vtx)) (am : ArgMap) (s : CallSt), Rel s0 s → AmGood s0 am →
      (∀ p ∈ paths, GoodPath s0 p) →
      ∃ am' s', walkPaths c rec paths am s = (.ok am', s') ∧ Rel s0 s' ∧ AmGood s0 am' ∧
        (∀ v, v.isArg = false → mapGet am' v = mapGet am v) ∧
        (∀ k, (mapGet am k).isSome = true → (mapGet am' k).isSome = true) ∧
        (∀ p ∈ paths, ∀ l, p.getLast? = some l → (mapGet am' l).isSome = true) := by
  intro paths
  induction paths with
  | nil =>
    intro am s hs ham _
    exact ⟨am, s, rfl, hs, ham, fun _ _ => rfl, fun _ h => h, fun p hp => by cases hp⟩
  | cons p rest ih =>
    intro am s hs ham hgood
    obtain ⟨x, t, st, xv, rfl, hx, hxt, hget, hty⟩ := hgood p List.mem_cons_self
    have hxarg : x.isArg = false := by
      cases x <;> first | rfl | (rcases hx with h | h <;> cases h)
    have hget' : s.get x = some xv := by rw [hs.get x hxarg]; exact hget
    have hass : c.env.assignable xv.ty t = true := by rw [hty]; exact assignable_refl _ _
    obtain ⟨w1, w2, w3⟩ := walk_good c rec hpub s x t st xv hx hget' hass
    unfold walkPaths
    dsimp only
    rw [w1]
    dsimp only
    rw [w2]
    have hl : [Vtx.root, x, Vtx.arg t st].getLast? = some (Vtx.arg t st) := rfl
    rw [hl]
    dsimp only
    rw [w3]
    have hs' : Rel s0 (({ s with last := some xv } : CallSt).set (.arg t st) (some xv)) := by
      refine ⟨?_, ?_, ?_⟩
      · intro v hv
        rw [ReachSound.get_set, if_neg (by intro h; subst h; cases hv)]
        exact hs.get v hv
      · rw [ReachSound.set_log]; exact hs.log
      · exact hs.memo
    have ham' : AmGood s0 (mapSet am (.arg t st) xv) := by
      intro t' st' xv' h
      rw [ReachSound.mapGet_mapSet'] at h
      split at h
      · rename_i heq
        cases heq
        cases h
        exact ⟨x, hx, hxt, hget, hty⟩
      · exact ham t' st' xv' h
    obtain ⟨am', s', h1, h2, h3, h4, h5, h6⟩ := ih (mapSet am (.arg t st) xv) _ hs' ham'
      (fun p hp => hgood p (List.mem_cons_of_mem _ hp))
    refine ⟨am', s', h1, h2, h3, ?_, ?_, ?_⟩
    · intro v hv
      rw [h4 v hv, ReachSound.mapGet_mapSet', if_neg (by intro h; subst h; cases hv)]
    · intro k hk
      apply h5
      rw [ReachSound.mapGet_mapSet']
      split
      · rfl
      · exact hk
    · intro p hp l hl'
      rcases List.mem_cons.1 hp with rfl | hp
      · rw [hl] at hl'
        cases hl'
        apply h5
        rw [ReachSound.mapGet_mapSet', if_pos rfl]
        rfl
      · exact h6 p hp l hl'


/-! ### `reach` when every missing requirement is a typed argument with a good path -/

theorem planOne_good (k : Nat) (s0 : CallSt) (ps : PlanSt) (cur : Vtx) (path : List Vtx)
    (hp : GoodPath s0 path) (h : ps.unsat = [] ∧ Rel s0 ps.s) :
    (planOne (.func k) [.func k] true false ps (cur, path)).unsat = [] ∧
    Rel s0 (planOne (.func k) [.func k] true false ps (cur, path)).s := by
  obtain ⟨x, t, st, xv, rfl, hx, _, _, _⟩ := hp
  unfold planOne
  dsimp only
  have hthrough : ([Vtx.root, x, Vtx.arg t st].filter (fun v => decide (v ∈ [Vtx.func k]))) = [] := by
    cases x <;> first | (rcases hx with h | h <;> cases h; done) | simp
  have hpi : pathInput [Vtx.root, x, Vtx.arg t st] = some x := rfl
  simp only [if_true, hthrough, List.map_nil, List.append_nil, Bool.false_eq_true, if_false, hpi]
  refine ⟨h.1, ?_, ?_, ?_⟩
  · intro v hv
    unfold CallSt.get
    rw [ReachSound.addInput_store]
    exact h.2.get v hv
  · rw [ReachSound.addInput_log]; exact h.2.log
  · unfold CallSt.addInput
    split
    · exact h.2.memo
    · exact h.2.memo

theorem reach_exact (c : Ctx) (hsr : c.skipRecordsInput = false) (hauto : c.auto = false)
    (hpub : c.publishAfterUpdate = true) (htr : c.trackReaching = true)
    (n : Nat) (k : Nat) (s0 : CallSt) (hnoarg : ∀ t st, s0.get (.arg t st) = none)
    (hgood : ∀ item rest, s0.orc = item :: rest → ∀ cur ∈ c.g.outs (.func k),
      (cur == Vtx.root || takenAsIs c s0 cur) = false →
      ∀ (i : Nat) (path : List Vtx), item.missing[i]? = some cur → item.paths[i]? = some path →
        GoodPath s0 path) :
    (∃ w, (reach c false (n + 1) [] (.func k) s0).1 = .error (.badOracle w)) ∨
    ∃ am' s', reach c false (n + 1) [] (.func k) s0 = (.ok am', s') ∧ Rel s0 s' ∧ AmGood s0 am' ∧
      (∀ v, v.isArg = false → mapGet am' v =
        mapGet (((c.g.outs (.func k)).filter (fun v => v == Vtx.root || takenAsIs c s0 v)).filterMap
          (fun v => if v == Vtx.root then none else (s0.get v).map (fun x => (v, x)))) v) ∧
      (∀ cur ∈ c.g.outs (.func k), (cur == Vtx.root || takenAsIs c s0 cur) = false →
        (mapGet am' cur).isSome = true) := by
  unfold reach
  dsimp only
  have ham0 : AmGood s0 (((c.g.outs (.func k)).filter (fun v => v == Vtx.root || takenAsIs c s0 v)).filterMap
      (fun v => if v == Vtx.root then none else (s0.get v).map (fun x => (v, x)))) := by
    intro t st xv h
    rw [mapGet_am0] at h
    split at h
    · rw [hnoarg] at h; cases h
    · cases h
  generalize ((c.g.outs (.func k)).filter (fun v => v == Vtx.root || takenAsIs c s0 v)).filterMap
      (fun v => if v == Vtx.root then none else (s0.get v).map (fun x => (v, x))) = am0 at ham0 ⊢
  have hmissM : ∀ cur, cur ∈ (c.g.outs (.func k)).filter (fun v => !(v == Vtx.root || takenAsIs c s0 v)) ↔
      (cur ∈ c.g.outs (.func k) ∧ (cur == Vtx.root || takenAsIs c s0 cur) = false) := by
    intro cur
    rw [List.mem_filter]
    simp
  generalize (c.g.outs (.func k)).filter (fun v => !(v == Vtx.root || takenAsIs c s0 v)) = missingM at hmissM ⊢
  rw [hsr, hauto]
  simp only [Bool.false_eq_true, if_false]
  cases horc : s0.orc with
  | nil => exact Or.inl ⟨_, rfl⟩
  | cons item rest =>
    dsimp only
    split
    · exact Or.inl ⟨_, rfl⟩
    split
    · exact Or.inl ⟨_, rfl⟩
    rename_i hsame
    have hsame' : sameMembers item.missing missingM = true := by simpa using hsame
    simp only [sameMembers, Bool.and_eq_true, List.all_eq_true, decide_eq_true_eq] at hsame'
    have hrel0 : Rel s0 { s0 with orc := rest } := ⟨fun _ _ => rfl, rfl, rfl⟩
    split
    · rename_i hempty
      refine Or.inr ⟨am0, _, rfl, hrel0, ham0, fun _ _ => rfl, ?_⟩
      intro cur hcur hf
      have : cur ∈ missingM := (hmissM cur).2 ⟨hcur, hf⟩
      rw [List.isEmpty_iff] at hempty
      rw [hempty] at this
      cases this
    split
    · exact Or.inl ⟨_, rfl⟩
    rename_i hlen
    simp only [ne_eq, Decidable.not_not] at hlen
    split
    · exact Or.inl ⟨_, rfl⟩
    rename_i hvalid
    have hvalid' : ((item.missing.zip item.paths).all fun cp => validPath c.g cp.1 cp.2) = true := by
      simpa using hvalid
    -- every zipped pair is good
    have hzip : ∀ cp ∈ item.missing.zip item.paths, GoodPath s0 cp.2 := by
      intro cp hcp
      obtain ⟨i, hi⟩ := List.mem_iff_getElem?.1 hcp
      rw [List.getElem?_zip_eq_some] at hi
      have hcm : cp.1 ∈ missingM := hsame'.1.1 _ (List.mem_of_getElem? hi.1)
      obtain ⟨h1, h2⟩ := (hmissM _).1 hcm
      exact hgood item rest horc cp.1 h1 h2 i cp.2 hi.1 hi.2
    have hplan := CGE.foldl_inv (fun ps : PlanSt => ps.unsat = [] ∧ Rel s0 ps.s)
      (fun cp : Vtx × List Vtx => GoodPath s0 cp.2)
      (planOne (.func k) [.func k] c.trackReaching false)
      (by
        intro ps cp hcp hps
        rw [htr]
        exact planOne_good k s0 ps cp.1 cp.2 hcp hps)
      (item.missing.zip item.paths) { s := { s0 with orc := rest }, unsat := [] } hzip ⟨rfl, hrel0⟩
    rw [hplan.1]
    simp only [List.isEmpty_nil, Bool.not_true, Bool.false_eq_true, if_false]
    have hpaths : ∀ p ∈ item.paths, GoodPath s0 p := by
      intro p hp
      obtain ⟨cur, _, hz⟩ := ReachSound.zip_snd_mem item.missing item.paths hlen p hp
      exact hzip _ hz
    obtain ⟨am', s', h1, h2, h3, h4, h5, h6⟩ := walkPaths_good c
      (fun v st => reach c false n [.func k] v st) hpub s0 item.paths am0 _ hplan.2 ham0 hpaths
    refine Or.inr ⟨am', s', h1, h2, h3, h4, ?_⟩
    intro cur hcur hf
    have hcm : cur ∈ item.missing := hsame'.1.2 _ ((hmissM cur).2 ⟨hcur, hf⟩)
    obtain ⟨i, hi⟩ := List.mem_iff_getElem?.1 hcm
    have hilt : i < item.paths.length := by
      rw [hlen]
      exact (List.getElem?_eq_some_iff.1 hi).1
    have hpi : item.paths[i]? = some item.paths[i] := List.getElem?_eq_getElem hilt
    have hz : (cur, item.paths[i]) ∈ item.missing.zip item.paths := by
      apply List.mem_iff_getElem?.2
      exact ⟨i, List.getElem?_zip_eq_some.2 ⟨hi, hpi⟩⟩
    have hv := List.all_eq_true.1 hvalid' _ hz
    simp only [validPath, Bool.and_eq_true, beq_iff_eq] at hv
    exact h6 _ (List.mem_of_getElem? hpi) cur hv.1.2


/-! ### the dynamic part of `exact_wins` -/

theorem call_exact (c : Ctx) (cgr : CallGraphResult) (target : FuncDesc) (s0 : CallSt) (n : Nat)
    (hsr : c.skipRecordsInput = false) (hauto : c.auto = false) (htv : c.takeValuedNamed = true)
    (hpub : c.publishAfterUpdate = true) (htr : c.trackReaching = true)
    (hunsat : cgr.unsat = []) (htgt : cgr.target = .func target.key)
    (hm : mapGet s0.memo target.id = none) (hlog : s0.log = [])
    (hnoarg : ∀ t st, s0.get (.arg t st) = none)
    (houts : ∀ y ∈ c.g.outs (.func target.key), y = .root ∨ ∃ v ∈ target.input.values, y = v.lab.vertex)
    (hmem : ∀ v ∈ target.input.values, v.lab.vertex ∈ c.g.outs (.func target.key))
    (hnamed : ∀ v ∈ target.input.values, v.lab.name ≠ "" → ∃ a, s0.get v.lab.vertex = some a ∧ a.ty = v.lab.ty)
    (hgood : ∀ item rest, s0.orc = item :: rest → ∀ t st, Vtx.arg t st ∈ c.g.outs (.func target.key) →
      ∀ (i : Nat) (path : List Vtx), item.missing[i]? = some (Vtx.arg t st) → item.paths[i]? = some path →
        GoodPath s0 path) :
    (∃ w, (callWith c cgr target (n + 1) s0).1 = .badOracle w) ∨
    (∃ ev, (callWith c cgr target (n + 1) s0).2.log = [ev] ∧ ev.fid = target.id ∧
      ev.params = target.input.labels ∧
      ∀ (i : Nat) (v : SVal) (a : PVal), target.input.values[i]? = some v → ev.args[i]? = some a →
        (v.lab.name ≠ "" → ∃ a', s0.get v.lab.vertex = some a' ∧ a.id = a'.id) ∧
        (v.lab.name = "" → ∃ xv, Src s0 v.lab.ty xv ∧ a.id = xv.id ∧ a.org = xv.org)) := by
  have hvx : ∀ v : SVal, (v.lab.name ≠ "" → v.lab.vertex = .value v.lab.name v.lab.ty v.lab.sub) ∧
      (v.lab.name = "" → v.lab.vertex = .arg v.lab.ty v.lab.sub) := by
    intro v
    unfold Label.vertex
    constructor
    · intro h; rw [if_pos h]
    · intro h; rw [if_neg (by simpa using h)]
  have hpred : ∀ v ∈ target.input.values,
      (v.lab.name ≠ "" → (v.lab.vertex == Vtx.root || takenAsIs c s0 v.lab.vertex) = true) ∧
      (v.lab.name = "" → (v.lab.vertex == Vtx.root || takenAsIs c s0 v.lab.vertex) = false) := by
    intro v hv
    constructor
    · intro hn
      obtain ⟨a, ha, _⟩ := hnamed v hv hn
      rw [(hvx v).1 hn] at ha ⊢
      simp [takenAsIs, htv, ha]
    · intro hn
      rw [(hvx v).2 hn]
      simp [takenAsIs, hnoarg]
  have hreach := reach_exact c hsr hauto hpub htr n target.key s0 hnoarg (by
    intro item rest horc cur hcur hf i path h1 h2
    rcases houts cur hcur with rfl | ⟨v, hv, rfl⟩
    · simp at hf
    · by_cases hn : v.lab.name = ""
      · rw [(hvx v).2 hn] at hcur h1
        exact hgood item rest horc _ _ hcur i path h1 h2
      · rw [(hpred v hv).1 hn] at hf; cases hf)
  unfold callWith
  rw [hunsat, htgt]
  simp only [List.isEmpty_nil, Bool.not_true, Bool.false_eq_true, if_false]
  rcases hreach with ⟨w, hw⟩ | ⟨am', s', hre, hrel, hamg, hnonarg, hmiss⟩
  · left
    rcases hres : reach c false (n + 1) [] (.func target.key) s0 with ⟨res, s'⟩
    rw [hres] at hw
    dsimp only at hw
    subst hw
    exact ⟨w, rfl⟩
  · right
    rw [hre]
    dsimp only
    -- what the argument map holds for each parameter
    have hlook : ∀ v ∈ target.input.values, ∃ a, mapGet am' v.lab.vertex = some a ∧ a.ty = v.lab.ty ∧
        (v.lab.name ≠ "" → s0.get v.lab.vertex = some a) ∧ (v.lab.name = "" → Src s0 v.lab.ty a) := by
      intro v hv
      by_cases hn : v.lab.name = ""
      · have h1 := hmiss _ (hmem v hv) ((hpred v hv).2 hn)
        obtain ⟨a, ha⟩ := Option.isSome_iff_exists.1 h1
        have ha' := ha
        rw [(hvx v).2 hn] at ha'
        have hsrc := hamg _ _ _ ha'
        obtain ⟨x, _, _, _, hty⟩ := hsrc
        exact ⟨a, ha, hty, fun h => absurd hn h, fun _ => hamg _ _ _ ha'⟩
      · obtain ⟨a, ha, hty⟩ := hnamed v hv hn
        refine ⟨a, ?_, hty, fun _ => ha, fun h => absurd h hn⟩
        rw [hnonarg _ (by rw [(hvx v).1 hn]; rfl), mapGet_am0, if_pos, ha]
        refine ⟨List.mem_filter.2 ⟨hmem v hv, (hpred v hv).1 hn⟩, ?_⟩
        rw [(hvx v).1 hn]; exact fun h => by cases h
    have hga := gatherArgs_ok c.env target am' (by
      intro v hv
      obtain ⟨a, h1, h2, _⟩ := hlook v hv
      exact ⟨a, h1, by rw [h2]; exact assignable_refl _ _⟩)
    obtain ⟨res, u, s2, hcd, hlog2⟩ := callDirect_ok c target am' s' _ (by rw [hrel.memo]; exact hm) hga
    rw [hcd]
    dsimp only
    have hl2 : ∃ ev : ExecEv, s2.log = [ev] ∧ ev.fid = target.id ∧ ev.params = target.input.labels ∧
        ev.args = target.input.values.map (ReachSound.argOf am') := by
      refine ⟨?ev, ?h1, ?h2, ?h3, ?h4⟩
      case h1 =>
        rw [hlog2, hrel.log, hlog]
        rfl
      case h2 => rfl
      case h3 => rfl
      case h4 => rfl
    obtain ⟨ev, hev1, hev2, hev3, hev4⟩ := hl2
    refine ⟨ev, ?_, hev2, hev3, ?_⟩
    · split <;> exact hev1
    · intro i v a hv ha
      rw [hev4, List.getElem?_map, hv] at ha
      simp only [Option.map_some, Option.some.injEq] at ha
      obtain ⟨a0, h1, _, h3, h4⟩ := hlook v (List.mem_of_getElem? hv)
      have : a = { ty := v.lab.ty, id := a0.id, org := a0.org } := by
        rw [← ha]; unfold ReachSound.argOf; rw [h1]
      subst this
      exact ⟨fun hn => ⟨a0, h3 hn, rfl⟩, fun hn => ⟨a0, h4 hn, rfl, rfl⟩⟩


/-! ### assembling `exact_wins` -/

section
variable (e : TypeEnv) (b : Builder) (funcs : Nat → Option FuncDesc) (target : FuncDesc)

/-- a kept parameter vertex keeps the target and the edge from it -/
theorem param_kept' (v : SVal) (hv : v ∈ target.input.values)
    (hk : Kept (pre e b funcs target) (.func target.key) v.lab.vertex) :
    (fin e b funcs target).g.hasEdge (.func target.key) v.lab.vertex = true := by
  have hwf := pre_wf e b funcs target
  have hr := pre_root e b funcs target
  have h1 : (pre e b funcs target).g.hasEdge (.func target.key) v.lab.vertex = true :=
    (built_pre_c1 e b funcs target).hasEdge (funcGraph_req_edge c0 target v hv)
  have hne : v.lab.vertex ≠ .func target.key := by
    unfold Label.vertex; split <;> exact fun h => by cases h
  exact fin_hasEdge_of_kept e b funcs target h1 (kept_step _ hwf hr _ _ _ hk hne h1) hk

theorem built_pre_r4 : Built (CRule b funcs target) (phaseR4 (phaseR3 (c3 b funcs target))).g
    (pre e b funcs target).g := by
  unfold pre
  exact (built_phaseR5 e true _).trans ((built_phaseR6 true _).trans (built_phaseR7 _))

/-- a type-only parameter whose typed value was supplied: the direct path survives pruning -/
theorem typed_param_facts (v : SVal) (hv : v ∈ target.input.values) (hn : v.lab.name = "") (val : Val)
    (hval : exactValue b v.lab = some val) :
    v.lab.vertex = .arg v.lab.ty v.lab.sub ∧
    (fin e b funcs target).g.hasEdge (.func target.key) (.arg v.lab.ty v.lab.sub) = true ∧
    (fin e b funcs target).g.hasEdge (.arg v.lab.ty v.lab.sub) (.out v.lab.ty v.lab.sub) = true ∧
    (fin e b funcs target).g.hasEdge (.out v.lab.ty v.lab.sub) .root = true := by
  have hvx : v.lab.vertex = .arg v.lab.ty v.lab.sub := by
    unfold Label.vertex; rw [if_neg (by simpa using hn)]
  have hin : Vtx.out v.lab.ty v.lab.sub ∈ inputVerts b := by
    unfold exactValue at hval
    rw [if_neg (by simpa using hn)] at hval
    split at hval
    · rename_i hs
      rw [hs]
      exact mem_inputVerts_typed (p := (v.lab.ty, val)) (mem_of_mapGet' hval)
    · exact mem_inputVerts_typedSub (p := ((v.lab.ty, v.lab.sub), val)) (mem_of_mapGet' hval)
  have hwf := pre_wf e b funcs target
  have hr := pre_root e b funcs target
  have h1 : (pre e b funcs target).g.hasEdge (.out v.lab.ty v.lab.sub) .root = true :=
    (built_pre_c2 e b funcs target).hasEdge (inputsGraph_root_edge _ _ _ hin)
  have hc1e : (c1 target).g.hasEdge (.func target.key) (.arg v.lab.ty v.lab.sub) = true := by
    rw [← hvx]; exact funcGraph_req_edge c0 target v hv
  have hc1wf : (c1 target).g.WF := (built_c1 b funcs target).wf c0_wf
  obtain ⟨w, hw⟩ := (hasEdge_iff_weight _ _ _).1 hc1e
  have hargm : Vtx.arg v.lab.ty v.lab.sub ∈ (phaseR3 (c3 b funcs target)).g.verts :=
    (built_phaseR3 (fs := C01.allFuncs b funcs target) (ins := inputVerts b) _).verts
      ((built_c3 b funcs target).verts ((built_c2 b funcs target).verts (weight_of_mem_verts hc1wf hw).2))
  have h2 : (pre e b funcs target).g.hasEdge (.arg v.lab.ty v.lab.sub) (.out v.lab.ty v.lab.sub) = true :=
    (built_pre_r4 e b funcs target).hasEdge (phaseR4_edge _ _ _ hargm)
  have k1 : Kept (pre e b funcs target) (.func target.key) (.out v.lab.ty v.lab.sub) :=
    kept_of_root_edge _ hwf hr _ _ h1
  have k2 : Kept (pre e b funcs target) (.func target.key) (.arg v.lab.ty v.lab.sub) :=
    kept_step _ hwf hr _ _ _ k1 (fun h => by cases h) h2
  refine ⟨hvx, ?_, fin_hasEdge_of_kept e b funcs target h2 k2 k1,
    fin_hasEdge_of_kept e b funcs target h1 k1 (Or.inl rfl)⟩
  rw [← hvx]
  exact param_kept' e b funcs target v hv (by rw [hvx]; exact k2)

theorem fin_store_noarg (t : Nat) (st : String) : mapGet (fin e b funcs target).store (.arg t st) = none := by
  cases h : mapGet (fin e b funcs target).store (.arg t st) with
  | none => rfl
  | some v =>
    have := CGE.callGraph_store_isOrigin e b funcs target false none (.arg t st) v (by rw [callGraph_cg]; exact h)
    cases this

end

theorem exact_wins_aux (e : TypeEnv) (b : Builder) (funcs : Nat → Option FuncDesc) (target : FuncDesc)
    (hb : BOK b) (hc : C01.FuncsConsistent (C01.allFuncs b funcs target))
    (hex : ∀ p ∈ target.input.labels, (exactValue b p).isSome = true)
    (hsmall : ((callGraph {} e b funcs target false none).cg.g.edges.map (fun e => e.2.2)).sum < maxInt32)
    (beh : Nat → Nat → List PVal → BehOut) (fuel : Nat) (hfuel : 0 < fuel)
    (memo : List (Nat × Memo)) (orc : List OrcItem) (hm : mapGet memo target.id = none)
    (hleg : ∀ it ∈ orc, ∀ (i : Nat) (cur : Vtx) (path : List Vtx), it.missing[i]? = some cur →
      it.paths[i]? = some path →
      ∃ pops, Dijkstra.LegalPops (discount (callGraph {} e b funcs target false none).cg.g cur).reverse Vtx.root pops ∧
        path = choosePath (callGraph {} e b funcs target false none).cg.g cur pops) :
    let r := callWith (C01.stdCtx e b funcs target beh) (callGraph {} e b funcs target false none) target fuel
              (initSt (callGraph {} e b funcs target false none).cg memo orc)
    (∃ w, r.1 = .badOracle w) ∨
    (∃ ev, r.2.log = [ev] ∧ ev.fid = target.id ∧
      ∀ (i : Nat) (p : Label) (a : PVal), ev.params[i]? = some p → ev.args[i]? = some a →
        (p.name ≠ "" → some a.id = (exactValue b p).map (·.id)) ∧
        (p.name = "" → a.org.isOrigin = true ∧ a.org.ty = p.ty ∧
          ∃ v, mapGet (callGraph {} e b funcs target false none).cg.store a.org = some v ∧ v.id = a.id)) := by
  intro r
  have hsame : ∀ f ∈ C01.allFuncs b funcs target, f.key = target.key → f.input = target.input :=
    fun f hf hk => (hc.1 f hf target (by simp [C01.allFuncs]) hk).1
  have hcg : (callGraph {} e b funcs target false none).cg = fin e b funcs target := callGraph_cg e b funcs target
  rw [hcg] at hsmall hleg
  -- per-parameter facts
  have hpar : ∀ v ∈ target.input.values, ∃ val, exactValue b v.lab = some val ∧
      (fin e b funcs target).g.hasEdge (.func target.key) v.lab.vertex = true ∧
      v.lab.vertex ∈ (fin e b funcs target).g.verts ∧
      (v.lab.name ≠ "" → (initSt (fin e b funcs target) memo orc).get v.lab.vertex =
        some { ty := v.lab.ty, id := val.id, org := v.lab.vertex }) := by
    intro v hv
    have hl : v.lab ∈ target.input.labels := List.mem_map.2 ⟨v, hv, rfl⟩
    obtain ⟨val, hval⟩ := Option.isSome_iff_exists.1 (hex _ hl)
    by_cases hn : v.lab.name = ""
    · obtain ⟨hvx, h1, _, _⟩ := typed_param_facts e b funcs target v hv hn val hval
      rw [← hvx] at h1
      obtain ⟨w, hw⟩ := (hasEdge_iff_weight _ _ _).1 h1
      exact ⟨val, hval, h1, (weight_of_mem_verts (fin_wf e b funcs target) hw).2, fun h => absurd hn h⟩
    · obtain ⟨h1, h2, h3, h4⟩ := exact_named_store (c1 target) b hb.1 v.lab hn val hval
      obtain ⟨k1, k2⟩ := param_kept e b funcs target v hv (inputsGraph_root_edge _ _ _ h3)
      refine ⟨val, hval, k1, k2, fun _ => ?_⟩
      rw [initSt_get, fin_store]
      show Option.map _ (mapGet (inputsGraph (c1 target) b).1.store v.lab.vertex) = _
      rw [h1, Option.map_some, h2]
  -- nothing is unsatisfiable
  have hunsat : (callGraph {} e b funcs target false none).unsat = [] := by
    rw [callGraph_unsat]
    rw [List.map_eq_nil_iff, List.filter_eq_nil_iff]
    intro y hy
    have : (fin e b funcs target).g.hasVertex y = true := by
      unfold AGraph.hasVertex
      rw [decide_eq_true_eq]
      rcases c1_target_outs target y hy with rfl | ⟨v, hv, rfl⟩
      · exact fin_root e b funcs target
      · obtain ⟨_, _, _, h, _⟩ := hpar v hv
        exact h
    unfold fin at this
    rw [this]; simp
  obtain ⟨n, rfl⟩ : ∃ n, fuel = n + 1 := ⟨fuel - 1, by omega⟩
  have hins : ∀ x ∈ inputVerts b, x.isValue = true ∨ x.isOut = true := fun x hx => inputVerts_kind hx
  have houts : ∀ y ∈ (C01.stdCtx e b funcs target beh).g.outs (.func target.key),
      y = .root ∨ ∃ v ∈ target.input.values, y = v.lab.vertex := by
    intro y hy
    rw [stdCtx_g, mem_outs_iff_hasEdge] at hy
    exact fin_target_outs e b funcs target hsame y hy
  have hmain := call_exact (C01.stdCtx e b funcs target beh) (callGraph {} e b funcs target false none)
    target (initSt (callGraph {} e b funcs target false none).cg memo orc) n rfl rfl rfl rfl rfl hunsat
    (callGraph_target e b funcs target) hm rfl
    (by
      intro t st
      rw [hcg, initSt_get, fin_store_noarg]; rfl)
    houts
    (by
      intro v hv
      obtain ⟨_, _, hedge, _, _⟩ := hpar v hv
      rw [stdCtx_g, mem_outs_iff_hasEdge]; exact hedge)
    (by
      intro v hv hn
      obtain ⟨val, _, _, _, hget⟩ := hpar v hv
      rw [hcg]
      exact ⟨_, hget hn, rfl⟩)
    (by
      intro item rest horc t st hmem i path h1 h2
      have hitem : item ∈ orc := by
        have : (initSt (callGraph {} e b funcs target false none).cg memo orc).orc = orc := rfl
        rw [this] at horc
        rw [horc]; exact List.mem_cons_self
      obtain ⟨pops, hpops, rfl⟩ := hleg item hitem i _ path h1 h2
      -- the parameter behind this argument vertex
      rcases houts _ hmem with h | ⟨v, hv, hvv⟩
      · cases h
      have hl : v.lab ∈ target.input.labels := List.mem_map.2 ⟨v, hv, rfl⟩
      obtain ⟨val, hval⟩ := Option.isSome_iff_exists.1 (hex _ hl)
      have hn : v.lab.name = "" := by
        by_cases hn : v.lab.name = ""
        · exact hn
        · exfalso
          unfold Label.vertex at hvv
          rw [if_pos hn] at hvv
          cases hvv
      obtain ⟨hvx, _, e2, e1⟩ := typed_param_facts e b funcs target v hv hn val hval
      rw [hvx] at hvv
      cases hvv
      obtain ⟨x, hpath, hx1, hx2⟩ := chosen_path_shape (fin e b funcs target).g (fin_rule e b funcs target) hins
        (fin_wf e b funcs target) (fin_root e b funcs target) hsmall _ _ e1 e2 pops hpops
      -- `x` is a supplied vertex of the right type
      obtain ⟨w1, hw1⟩ := (hasEdge_iff_weight _ _ _).1 hx1
      obtain ⟨w2, hw2⟩ := (hasEdge_iff_weight _ _ _).1 hx2
      have hxk : (x.isValue = true ∨ x.isOut = true) ∧ x.ty = v.lab.ty := by
        rcases rule_from_arg hins (fin_rule e b funcs target _ _ _ hw2) with ⟨_, _, rfl, _⟩ | ⟨rfl, _⟩ | ⟨_, rfl, _⟩
        · exact ⟨Or.inl rfl, rfl⟩
        · exact ⟨Or.inr rfl, rfl⟩
        · exact ⟨Or.inr rfl, rfl⟩
      have hxin : x ∈ inputVerts b := by
        rcases (rule_to_root (fin_rule e b funcs target _ _ _ hw1)).2 with ⟨k, rfl⟩ | h
        · rcases hxk.1 with h | h <;> cases h
        · exact h
      obtain ⟨xval, hxs, hxt⟩ := store_inputVerts (c1 target) b hb.2 x hxin
      refine ⟨x, _, _, { ty := xval.ty, id := xval.id, org := x }, hpath, hxk.1, hxk.2, ?_, ?_⟩
      · rw [hcg, initSt_get, fin_store]
        show Option.map _ (mapGet (inputsGraph (c1 target) b).1.store x) = _
        rw [hxs]; rfl
      · show xval.ty = _
        rw [hxt, hxk.2])
  rcases hmain with h | ⟨ev, h1, h2, h3, h4⟩
  · exact Or.inl h
  · refine Or.inr ⟨ev, h1, h2, ?_⟩
    intro i p a hp ha
    rw [h3, ValueSet.labels, List.getElem?_map] at hp
    cases hvi : target.input.values[i]? with
    | none => rw [hvi] at hp; cases hp
    | some v =>
      rw [hvi] at hp
      simp only [Option.map_some, Option.some.injEq] at hp
      subst hp
      obtain ⟨k1, k2⟩ := h4 i v a hvi ha
      obtain ⟨val, hval, _, _, hget⟩ := hpar v (List.mem_of_getElem? hvi)
      constructor
      · intro hn
        obtain ⟨a', ha', hid⟩ := k1 hn
        rw [hcg, hget hn] at ha'
        cases ha'
        rw [hval, hid]; rfl
      · intro hn
        obtain ⟨xv, ⟨x, hxk, hxt, hxg, _⟩, hid, horg⟩ := k2 hn
        rw [hcg, initSt_get] at hxg
        cases hst : mapGet (fin e b funcs target).store x with
        | none => rw [hst] at hxg; cases hxg
        | some sv =>
          rw [hst] at hxg
          simp only [Option.map_some, Option.some.injEq] at hxg
          subst hxg
          rw [horg, hid]
          refine ⟨?_, hxt, sv, ?_, rfl⟩
          · unfold Vtx.isOrigin
            rcases hxk with h | h <;> simp [h]
          · rw [hcg]; exact hst

end ArgMapper.ExactWins
