import ArgMapper.Model.Traverse
import ArgMapper.Proofs.TraverseReach
/-!
# Tarjan's SCC algorithm (`Model/Traverse.lean`): basic facts

Unfolding lemmas for `sccEdge` / `sccVisit`, `idxOf` after a push, `popTo`, and the count of
unvisited ("white") vertices that bounds the recursion depth.
-/
namespace ArgMapper
namespace Tarjan
open AGraph Traverse TraverseReach
set_option linter.unusedSectionVars false
variable {α : Type} [DecidableEq α]

/-! ## `idxOf` -/

/-- the state after `visit` has numbered `v` and pushed it on the stack -/
def push (v : α) (a : SccAcct α) : SccAcct α :=
  { a with next := a.next + 1, index := (v, a.next) :: a.index, stack := v :: a.stack }

theorem idxOf_push (v : α) (a : SccAcct α) (x : α) :
    idxOf (push v a) x = if x = v then a.next else idxOf a x := by
  unfold idxOf push
  simp only [List.find?_cons]
  by_cases h : x = v
  · subst h; simp
  · have : ¬ v = x := fun e => h e.symm
    simp [h, this]

@[simp] theorem push_next (v : α) (a : SccAcct α) : (push v a).next = a.next + 1 := rfl
@[simp] theorem push_stack (v : α) (a : SccAcct α) : (push v a).stack = v :: a.stack := rfl
@[simp] theorem push_scc (v : α) (a : SccAcct α) : (push v a).scc = a.scc := rfl

/-- the state after a component has been popped -/
def popped (a : SccAcct α) (stack' : List α) (comp : List α) : SccAcct α :=
  { a with stack := stack', scc := a.scc ++ [comp] }

@[simp] theorem idxOf_popped (a : SccAcct α) (s c : List α) (x : α) :
    idxOf (popped a s c) x = idxOf a x := rfl
@[simp] theorem popped_next (a : SccAcct α) (s c : List α) : (popped a s c).next = a.next := rfl
@[simp] theorem popped_stack (a : SccAcct α) (s c : List α) : (popped a s c).stack = s := rfl
@[simp] theorem popped_scc (a : SccAcct α) (s c : List α) : (popped a s c).scc = a.scc ++ [c] := rfl

/-! ## `popTo` -/

theorem popTo_append (v : α) : ∀ (s rest acc : List α), v ∉ s →
    popTo v (s ++ v :: rest) acc = (rest, acc ++ s ++ [v])
  | [], rest, acc, _ => by simp [popTo]
  | y :: s, rest, acc, h => by
    have hy : y ≠ v := fun e => h (by simp [e])
    have hs : v ∉ s := fun e => h (by simp [e])
    simp only [List.cons_append, popTo, hy, if_false]
    rw [popTo_append v s rest (acc ++ [y]) hs]
    simp

/-! ## unfolding -/

theorem nat_min_eq (a b : Nat) : Nat.min a b = min a b := rfl

theorem sccEdge_eq (rec : α → SccAcct α → SccAcct α × Nat) (st : SccAcct α × Nat) (t : α) :
    sccEdge rec st t =
      if idxOf st.1 t = 0 then ((rec t st.1).1, min st.2 (rec t st.1).2)
      else if t ∈ st.1.stack then (st.1, min st.2 (idxOf st.1 t))
      else st := rfl

theorem sccVisit_zero (g : AGraph α) (v : α) (a : SccAcct α) : sccVisit g 0 v a = (a, 0) := rfl

theorem sccVisit_succ (g : AGraph α) (n : Nat) (v : α) (a : SccAcct α) :
    sccVisit g (n + 1) v a =
      if a.next = ((g.outs v).foldl (sccEdge (sccVisit g n)) (push v a, a.next)).2 then
        (popped ((g.outs v).foldl (sccEdge (sccVisit g n)) (push v a, a.next)).1
          (popTo v ((g.outs v).foldl (sccEdge (sccVisit g n)) (push v a, a.next)).1.stack []).1
          (popTo v ((g.outs v).foldl (sccEdge (sccVisit g n)) (push v a, a.next)).1.stack []).2,
         ((g.outs v).foldl (sccEdge (sccVisit g n)) (push v a, a.next)).2)
      else (g.outs v).foldl (sccEdge (sccVisit g n)) (push v a, a.next) := rfl

/-! ## counting white vertices -/

def whiteCount (g : AGraph α) (a : SccAcct α) : Nat :=
  (g.verts.filter (fun x => decide (idxOf a x = 0))).length

theorem filter_length_mono (p q : α → Bool) : ∀ (l : List α), (∀ x ∈ l, p x = true → q x = true) →
    (l.filter p).length ≤ (l.filter q).length
  | [], _ => by simp
  | x :: l, h => by
    have ih := filter_length_mono p q l (fun y hy => h y (by simp [hy]))
    have hx := h x (by simp)
    simp only [List.filter_cons]
    cases hp : p x <;> cases hq : q x <;> simp_all <;> omega

theorem filter_length_lt (p q : α → Bool) : ∀ (l : List α), (∀ x ∈ l, p x = true → q x = true) →
    ∀ v ∈ l, p v = false → q v = true → (l.filter p).length < (l.filter q).length
  | [], _, v, hv, _, _ => by cases hv
  | x :: l, h, v, hv, hpv, hqv => by
    have hmono := filter_length_mono p q l (fun y hy => h y (by simp [hy]))
    have hx := h x (by simp)
    rcases List.mem_cons.mp hv with rfl | hv'
    · simp only [List.filter_cons, hpv, hqv]
      simp; omega
    · have ih := filter_length_lt p q l (fun y hy => h y (by simp [hy])) v hv' hpv hqv
      simp only [List.filter_cons]
      cases hp : p x <;> cases hq : q x <;> simp_all <;> omega

theorem whiteCount_mono (g : AGraph α) {a a' : SccAcct α}
    (h : ∀ x, idxOf a x ≠ 0 → idxOf a' x ≠ 0) : whiteCount g a' ≤ whiteCount g a := by
  unfold whiteCount
  apply filter_length_mono
  intro x _ hx
  simp only [decide_eq_true_eq] at hx ⊢
  exact Decidable.byContradiction fun hne => h x hne hx

theorem whiteCount_lt (g : AGraph α) {a a' : SccAcct α}
    (h : ∀ x, idxOf a x ≠ 0 → idxOf a' x ≠ 0) {v : α} (hv : v ∈ g.verts)
    (h0 : idxOf a v = 0) (h1 : idxOf a' v ≠ 0) : whiteCount g a' < whiteCount g a := by
  unfold whiteCount
  apply filter_length_lt _ _ _ _ v hv
  · simp [h1]
  · simp [h0]
  · intro x _ hx
    simp only [decide_eq_true_eq] at hx ⊢
    exact Decidable.byContradiction fun hne => h x hne hx

end Tarjan
end ArgMapper
