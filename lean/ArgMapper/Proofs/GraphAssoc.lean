import ArgMapper.Model.GraphImpl
/-!
# Association-list lemmas for the heap-of-maps graph model (helper file for C19)
-/
namespace ArgMapper
namespace GraphImpl
variable {α : Type} [DecidableEq α] {β : Type}

@[simp] theorem aget_nil (k : α) : aget ([] : List (α × β)) k = none := rfl

theorem aget_cons (p : α × β) (m : List (α × β)) (k : α) :
    aget (p :: m) k = if p.1 = k then some p.2 else aget m k := by
  unfold aget
  by_cases h : p.1 = k <;> simp [h]

theorem aget_append (m n : List (α × β)) (k : α) :
    aget (m ++ n) k = (aget m k).or (aget n k) := by
  induction m with
  | nil => simp
  | cons p m ih =>
    simp only [List.cons_append, aget_cons]
    split <;> simp [ih]

theorem aget_single (k' : α) (v : β) (k : α) :
    aget [(k', v)] k = if k' = k then some v else none := by
  simp [aget_cons]

theorem aget_map_set (m : List (α × β)) (k : α) (v : β) (k' : α) :
    aget (m.map (fun p => if p.1 = k then (k, v) else p)) k'
      = if k' = k then (if (aget m k).isSome then some v else none) else aget m k' := by
  induction m with
  | nil => simp
  | cons p m ih =>
    simp only [List.map_cons, aget_cons, ih]
    by_cases h1 : p.1 = k
    · by_cases h2 : k' = k
      · subst h2; simp [h1]
      · have : ¬ k = k' := fun e => h2 e.symm
        simp [h1, h2, this]
    · by_cases h2 : k' = k
      · subst h2; simp [h1]
      · simp [h1, h2]

theorem aget_aset (m : List (α × β)) (k : α) (v : β) (k' : α) :
    aget (aset m k v) k' = if k' = k then some v else aget m k' := by
  unfold aset
  by_cases h : (aget m k).isSome
  · simp only [h, if_true, aget_map_set]
  · rw [if_neg h, aget_append, aget_single]
    by_cases h2 : k' = k
    · subst h2
      simp only [Bool.not_eq_true, Option.isSome_eq_false_iff, Option.isNone_iff_eq_none] at h
      simp [h]
    · have : ¬ k = k' := fun e => h2 e.symm
      simp [h2, this]

theorem aget_adel (m : List (α × β)) (k k' : α) :
    aget (adel m k) k' = if k' = k then none else aget m k' := by
  induction m with
  | nil => simp [adel]
  | cons p m ih =>
    unfold adel at ih ⊢
    by_cases h1 : p.1 = k
    · simp only [List.filter_cons, h1, decide_true, Bool.not_true, Bool.false_eq_true, if_false, ih,
        aget_cons]
      by_cases h2 : k' = k
      · simp [h2]
      · have : ¬ k = k' := fun e => h2 e.symm
        simp [h2, this]
    · simp only [List.filter_cons, h1, decide_false, Bool.not_false, if_true, aget_cons, ih]
      by_cases h2 : k' = k
      · subst h2; simp [h1]
      · simp [h2]

theorem mem_akeys_iff (m : List (α × β)) (k : α) : k ∈ akeys m ↔ (aget m k).isSome := by
  induction m with
  | nil => simp [akeys]
  | cons p m ih =>
    unfold akeys at ih ⊢
    simp only [List.map_cons, List.mem_cons, aget_cons, ih]
    by_cases h : p.1 = k
    · simp [h]
    · have : ¬ k = p.1 := fun e => h e.symm
      simp [h, this]

theorem aget_eq_none_iff (m : List (α × β)) (k : α) : aget m k = none ↔ k ∉ akeys m := by
  rw [mem_akeys_iff]; cases aget m k <;> simp

theorem akeys_map_set (m : List (α × β)) (k : α) (v : β) :
    akeys (m.map (fun p => if p.1 = k then (k, v) else p)) = akeys m := by
  unfold akeys
  rw [List.map_map]
  apply List.map_congr_left
  intro p _
  by_cases h : p.1 = k <;> simp [h]

theorem akeys_aset_nodup (m : List (α × β)) (k : α) (v : β) (h : (akeys m).Nodup) :
    (akeys (aset m k v)).Nodup := by
  unfold aset
  by_cases hk : (aget m k).isSome
  · simp only [hk, if_true, akeys_map_set]; exact h
  · simp only [hk]
    have : k ∉ akeys m := by rw [mem_akeys_iff]; exact hk
    unfold akeys at this h ⊢
    simp only [Bool.false_eq_true, if_false, List.map_append, List.map_cons, List.map_nil]
    rw [List.nodup_append]
    refine ⟨h, by simp, ?_⟩
    intro a ha b hb
    simp only [List.mem_singleton] at hb
    subst hb
    intro e; subst e; exact this ha

theorem akeys_adel_nodup (m : List (α × β)) (k : α) (h : (akeys m).Nodup) :
    (akeys (adel m k)).Nodup := by
  unfold akeys adel at *
  exact (List.filter_sublist.map _).nodup h

theorem mem_iff_aget (m : List (α × β)) (h : (akeys m).Nodup) (k : α) (v : β) :
    (k, v) ∈ m ↔ aget m k = some v := by
  induction m with
  | nil => simp
  | cons p m ih =>
    unfold akeys at h ih
    simp only [List.map_cons, List.nodup_cons] at h
    simp only [List.mem_cons, aget_cons, ih h.2]
    by_cases hp : p.1 = k
    · simp only [hp, if_true]
      constructor
      · rintro (e | e)
        · rw [← e]
        · exfalso
          apply h.1
          rw [hp]
          have : k ∈ akeys m := by rw [mem_akeys_iff, e]; rfl
          exact this
      · intro e
        left
        cases p
        simp_all
    · simp only [hp, if_false]
      constructor
      · rintro (e | e)
        · exfalso; apply hp; rw [← e]
        · exact e
      · intro e; exact Or.inr e

/-! ### two-level lookup -/

def look (m : AdjObj α) (u v : α) : Option Int :=
  match aget m u with
  | none => none
  | some x => aget x v

theorem aget_delInner (m : AdjObj α) (o k a : α) :
    aget (delInner m o k) a = if a = o then (aget m o).map (fun x => adel x k) else aget m a := by
  unfold delInner
  cases h : aget m o with
  | none =>
    by_cases ha : a = o
    · subst ha; simp [h]
    · simp [ha]
  | some x => simp [aget_aset]

/-- an adjacency object represents vertex set `V` and weight function `W` -/
structure Half (m : AdjObj α) (V : α → Prop) (W : α → α → Option Int) : Prop where
  keys : ∀ v, (aget m v).isSome ↔ V v
  wt : ∀ u v, look m u v = W u v
  nd : ∀ u x, aget m u = some x → (akeys x).Nodup

theorem Half.nil : Half ([] : AdjObj α) (fun _ => False) (fun _ _ => none) :=
  ⟨by simp, by simp [look], by simp⟩

theorem Half.congr {m : AdjObj α} {V V' : α → Prop} {W W' : α → α → Option Int}
    (h : Half m V W) (hV : ∀ v, V' v ↔ V v) (hW : ∀ a b, W' a b = W a b) : Half m V' W' :=
  ⟨fun v => by rw [hV]; exact h.keys v, fun a b => by rw [hW]; exact h.wt a b, h.nd⟩

theorem Half.addV {m : AdjObj α} {V V' : α → Prop} {W : α → α → Option Int}
    (h : Half m V W) (v : α) (hv : ¬ V v) (hV : ∀ x, V' x ↔ V x ∨ x = v) :
    Half (aset m v []) V' W := by
  have hnone : aget m v = none := by
    have := h.keys v
    cases hh : aget m v with
    | none => rfl
    | some x => rw [hh] at this; exact absurd (this.1 rfl) hv
  refine ⟨?_, ?_, ?_⟩
  · intro x
    rw [aget_aset, hV, ← h.keys]
    by_cases hx : x = v <;> simp [hx]
  · intro a b
    rw [← h.wt]
    unfold look
    rw [aget_aset]
    by_cases ha : a = v
    · subst ha; simp [hnone]
    · simp [ha]
  · intro u x
    rw [aget_aset]
    by_cases hu : u = v
    · simp only [hu, if_true, Option.some.injEq]
      intro e; subst e; simp [akeys]
    · simp only [hu, if_false]; exact h.nd u x

theorem Half.setE {m : AdjObj α} {V : α → Prop} {W W' : α → α → Option Int}
    (h : Half m V W) (u v : α) (wt : Int) (x : Inner α) (hx : aget m u = some x)
    (hW : ∀ a b, W' a b = if a = u ∧ b = v then some wt else W a b) :
    Half (aset m u (aset x v wt)) V W' := by
  refine ⟨?_, ?_, ?_⟩
  · intro y
    rw [aget_aset, ← h.keys]
    by_cases hy : y = u
    · subst hy; simp [hx]
    · simp [hy]
  · intro a b
    rw [hW, ← h.wt]
    unfold look
    rw [aget_aset]
    by_cases ha : a = u
    · subst ha
      simp only [if_true, true_and, hx, aget_aset]
    · simp [ha]
  · intro a y
    rw [aget_aset]
    by_cases ha : a = u
    · simp only [ha, if_true, Option.some.injEq]
      intro e; subst e
      exact akeys_aset_nodup _ _ _ (h.nd u x hx)
    · simp only [ha, if_false]; exact h.nd a y

theorem Half.delE {m : AdjObj α} {V : α → Prop} {W W' : α → α → Option Int}
    (h : Half m V W) (u v : α)
    (hW : ∀ a b, W' a b = if a = u ∧ b = v then none else W a b) :
    Half (delInner m u v) V W' := by
  refine ⟨?_, ?_, ?_⟩
  · intro y
    rw [aget_delInner, ← h.keys]
    by_cases hy : y = u
    · subst hy; simp
    · simp [hy]
  · intro a b
    rw [hW, ← h.wt]
    unfold look
    rw [aget_delInner]
    by_cases ha : a = u
    · subst ha
      cases hx : aget m a with
      | none => simp
      | some x =>
        simp only [if_true, Option.map_some, aget_adel, true_and]
    · simp [ha]
  · intro a y
    rw [aget_delInner]
    by_cases ha : a = u
    · subst ha
      cases hx : aget m a with
      | none => simp
      | some x =>
        simp only [if_true, Option.map_some, Option.some.injEq]
        intro e; subst e
        exact akeys_adel_nodup _ _ (h.nd a x hx)
    · simp only [ha, if_false]; exact h.nd a y

theorem Half.delInners {V : α → Prop} (ks : List α) (v : α) :
    ∀ {m : AdjObj α} {W W' : α → α → Option Int}, Half m V W →
    (∀ a b, W' a b = if a ∈ ks ∧ b = v then none else W a b) →
    Half (ks.foldl (fun m o => delInner m o v) m) V W' := by
  induction ks with
  | nil =>
    intro m W W' h hW
    exact h.congr (fun _ => Iff.rfl) (fun a b => by rw [hW]; simp)
  | cons k ks ih =>
    intro m W W' h hW
    simp only [List.foldl_cons]
    apply ih (h.delE k v (W' := fun a b => if a = k ∧ b = v then none else W a b) (fun a b => rfl))
    intro a b
    rw [hW]
    by_cases ha : a = k
    · by_cases hb : b = v <;> simp [ha, hb]
    · simp [ha]

theorem Half.adel {m : AdjObj α} {V V' : α → Prop} {W W' : α → α → Option Int}
    (h : Half m V W) (v : α) (hV : ∀ x, V' x ↔ V x ∧ x ≠ v)
    (hW : ∀ a b, W' a b = if a = v then none else W a b) :
    Half (adel m v) V' W' := by
  refine ⟨?_, ?_, ?_⟩
  · intro y
    rw [aget_adel, hV, ← h.keys]
    by_cases hy : y = v <;> simp [hy]
  · intro a b
    rw [hW, ← h.wt]
    unfold look
    rw [aget_adel]
    by_cases ha : a = v <;> simp [ha]
  · intro a y
    rw [aget_adel]
    by_cases ha : a = v
    · simp [ha]
    · simp only [ha, if_false]; exact h.nd a y

/-- membership in the successor list, read through `Half` -/
theorem Half.mem_edges {m : AdjObj α} {V : α → Prop} {W : α → α → Option Int}
    (h : Half m V W) (u v : α) (wt : Int) :
    (v, wt) ∈ (aget m u).getD [] ↔ W u v = some wt := by
  rw [← h.wt]
  unfold look
  cases hx : aget m u with
  | none => simp
  | some x =>
    simp only [Option.getD_some]
    exact mem_iff_aget x (h.nd u x hx) v wt

theorem Half.mem_succ_keys {m : AdjObj α} {V : α → Prop} {W : α → α → Option Int}
    (h : Half m V W) (u v : α) :
    v ∈ akeys ((aget m u).getD []) ↔ (W u v).isSome := by
  rw [← h.wt, mem_akeys_iff]
  unfold look
  cases hx : aget m u with
  | none => simp
  | some x => simp

/-- the hash object represents the payload table `T` on vertex set `V` -/
structure HRep (hs : HashObj α) (V : α → Prop) (T : α → Option Nat) : Prop where
  nd : (akeys hs).Nodup
  get : ∀ v, aget hs v = T v
  dom : ∀ v, (T v).isSome ↔ V v

theorem HRep.set {hs : HashObj α} {V V' : α → Prop} {T T' : α → Option Nat}
    (h : HRep hs V T) (v : α) (t : Nat) (hV : ∀ x, V' x ↔ V x ∨ x = v)
    (hT : ∀ x, T' x = if x = v then some t else T x) : HRep (aset hs v t) V' T' := by
  refine ⟨akeys_aset_nodup _ _ _ h.nd, ?_, ?_⟩
  · intro x; rw [aget_aset, hT, h.get]
  · intro x
    rw [hT, hV, ← h.dom]
    by_cases hx : x = v <;> simp [hx]

theorem HRep.del {hs : HashObj α} {V V' : α → Prop} {T T' : α → Option Nat}
    (h : HRep hs V T) (v : α) (hV : ∀ x, V' x ↔ V x ∧ x ≠ v)
    (hT : ∀ x, T' x = if x = v then none else T x) : HRep (adel hs v) V' T' := by
  refine ⟨akeys_adel_nodup _ _ h.nd, ?_, ?_⟩
  · intro x; rw [aget_adel, hT, h.get]
  · intro x
    rw [hT, hV, ← h.dom]
    by_cases hx : x = v <;> simp [hx]

theorem HRep.mem {hs : HashObj α} {V : α → Prop} {T : α → Option Nat}
    (h : HRep hs V T) (v : α) (t : Nat) : (v, t) ∈ hs ↔ V v ∧ T v = some t := by
  rw [mem_iff_aget hs h.nd, h.get]
  constructor
  · intro e; refine ⟨(h.dom v).1 (by rw [e]; rfl), e⟩
  · exact fun e => e.2

end GraphImpl
end ArgMapper
