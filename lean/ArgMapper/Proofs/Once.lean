import ArgMapper.Model.Reach
import ArgMapper.Proofs.WalkEqs
import ArgMapper.Proofs.ErrorProp
import ArgMapper.Proofs.Args
/-!
# Run-once functions (helper lemmas for C11)

`Good fid memo log`: the log holds at most one execution of `fid`, and every execution of `fid` in
the log has its result stored in the memo cell of `fid`.  `Pres fid s s'`: whatever log precedes the
call's own log, the step from `s` to `s'` preserves `Good`.
-/
namespace ArgMapper.Once
open ArgMapper ArgMapper.WalkEqs ArgMapper.ErrorProp

def Good (fid : Nat) (memo : List (Nat × Memo)) (log : List ExecEv) : Prop :=
  (log.filter (fun e => e.fid == fid)).length ≤ 1 ∧
  ∀ ev ∈ log, ev.fid = fid → ∃ m, mapGet memo fid = some m ∧ m.res = ev.res

def Pres (fid : Nat) (s s' : CallSt) : Prop :=
  ∀ pre, Good fid s.memo (pre ++ s.log) → Good fid s'.memo (pre ++ s'.log)

theorem Good_nil (fid : Nat) : Good fid [] [] := by
  refine ⟨by simp, ?_⟩
  intro ev h; cases h

theorem Pres.refl (fid : Nat) (s : CallSt) : Pres fid s s := fun _ h => h

theorem Pres.trans {fid : Nat} {s s1 s2 : CallSt} (h1 : Pres fid s s1) (h2 : Pres fid s1 s2) :
    Pres fid s s2 := fun pre h => h2 pre (h1 pre h)

theorem Pres.congr {fid : Nat} {s s' s'' : CallSt} (hl : s''.log = s'.log) (hm : s''.memo = s'.memo)
    (h : Pres fid s s') : Pres fid s s'' := by
  intro pre hg
  rw [hl, hm]; exact h pre hg

theorem Pres.of_eq {fid : Nat} {s s' : CallSt} (hl : s'.log = s.log) (hm : s'.memo = s.memo) :
    Pres fid s s' := Pres.congr hl hm (Pres.refl fid s)

/-! ### callDirect -/

theorem filter_nil_of_none {fid : Nat} {memo : List (Nat × Memo)} {log : List ExecEv}
    (hg : Good fid memo log) (hn : mapGet memo fid = none) :
    log.filter (fun e => e.fid == fid) = [] := by
  rw [List.filter_eq_nil_iff]
  intro ev hev hfid
  simp only [beq_iff_eq] at hfid
  obtain ⟨m, hm, _⟩ := hg.2 ev hev hfid
  rw [hn] at hm; cases hm

theorem callDirect_cases (c : Ctx) (f : FuncDesc) (am : ArgMap) (s : CallSt) :
    (callDirect c f am s).2 = s ∨
    ((if f.once then mapGet s.memo f.id else none) = none ∧
      ∃ ev : ExecEv, ev.fid = f.id ∧ (callDirect c f am s).2.log = s.log ++ [ev] ∧
        (callDirect c f am s).2.memo =
          if f.once then mapSet s.memo f.id { res := ev.res, unwrapped := false } else s.memo) := by
  unfold callDirect
  split
  · exact Or.inl rfl
  · rename_i hmiss
    split
    · exact Or.inl rfl
    · rename_i args _
      refine Or.inr ⟨hmiss, ⟨f.id, countOf s f.id, args, f.input.labels, c.beh f.id (countOf s f.id) args⟩,
        rfl, ?_, ?_⟩
      · dsimp only; split <;> rfl
      · dsimp only; split <;> rfl

theorem callDirect_pres (fid : Nat) (c : Ctx) (f : FuncDesc) (am : ArgMap) (s : CallSt)
    (hf : f.id = fid → f.once = true) : Pres fid s (callDirect c f am s).2 := by
  rcases callDirect_cases c f am s with h | ⟨hmiss, ev, hevid, hlog, hmemo⟩
  · rw [h]; exact Pres.refl fid s
  · intro pre hg
    rw [hlog, hmemo, ← List.append_assoc]
    by_cases hid : f.id = fid
    · have honce := hf hid
      rw [honce] at hmiss
      simp only [if_true] at hmiss
      rw [hid] at hmiss
      have hnil := filter_nil_of_none hg hmiss
      simp only [honce, if_true]
      constructor
      · rw [List.filter_append, hnil, List.nil_append]
        exact List.length_filter_le _ [ev]
      · intro ev' hev hevf
        rcases List.mem_append.1 hev with h | h
        · exfalso
          have : ev' ∈ (pre ++ s.log).filter (fun e => e.fid == fid) := by
            rw [List.mem_filter]; exact ⟨h, by simp [hevf]⟩
          rw [hnil] at this; cases this
        · simp only [List.mem_singleton] at h
          subst h
          refine ⟨{ res := ev'.res, unwrapped := false }, ?_, rfl⟩
          rw [mapGet_mapSet, if_pos hid.symm]
    · have hmemo' : mapGet (if f.once = true then mapSet s.memo f.id { res := ev.res, unwrapped := false }
          else s.memo) fid = mapGet s.memo fid := by
        split
        · rw [mapGet_mapSet, if_neg (fun h => hid h.symm)]
        · rfl
      unfold Good
      rw [hmemo']
      constructor
      · rw [List.filter_append]
        have : [ev].filter (fun e => e.fid == fid) = [] := by
          simp [hevid, hid]
        rw [this, List.append_nil]; exact hg.1
      · intro ev' hev hevf
        rcases List.mem_append.1 hev with h | h
        · exact hg.2 ev' h hevf
        · simp only [List.mem_singleton] at h
          subst h
          exact absurd (hevid.symm.trans hevf) hid

/-! ### outputValues -/

theorem mapGet_map_unwrap (memo : List (Nat × Memo)) (k fid : Nat) :
    mapGet (memo.map (fun p => if p.1 = k then (p.1, { p.2 with unwrapped := true }) else p)) fid =
      (mapGet memo fid).map (fun m => if fid = k then { m with unwrapped := true } else m) := by
  unfold mapGet
  rw [List.find?_map]
  have hcomp : ((fun p : Nat × Memo => decide (p.1 = fid)) ∘
      (fun p : Nat × Memo => if p.1 = k then (p.1, { p.2 with unwrapped := true }) else p)) =
      fun p => decide (p.1 = fid) := by
    funext p
    simp only [Function.comp]
    split <;> rfl
  rw [hcomp]
  cases hfind : memo.find? (fun p => decide (p.1 = fid)) with
  | none => rfl
  | some a =>
    have ha := List.find?_some hfind
    simp only [decide_eq_true_eq] at ha
    subst ha
    simp only [Option.map_some]
    by_cases h2 : a.1 = k
    · rw [if_pos h2, if_pos h2]
    · rw [if_neg h2, if_neg h2]

theorem Good_map_unwrap {fid : Nat} {memo : List (Nat × Memo)} {log : List ExecEv} (k : Nat)
    (h : Good fid memo log) :
    Good fid (memo.map (fun p => if p.1 = k then (p.1, { p.2 with unwrapped := true }) else p)) log := by
  refine ⟨h.1, ?_⟩
  intro ev hev hf
  obtain ⟨m, hm, hr⟩ := h.2 ev hev hf
  rw [mapGet_map_unwrap, hm]
  refine ⟨_, rfl, ?_⟩
  split <;> exact hr

theorem outputValues_pres (fid : Nat) (c : Ctx) (f : FuncDesc) (r : BehOut) (u : Bool) (s s' : CallSt)
    (h : outputValues c f r u s = .ok s') : Pres fid s s' := by
  unfold outputValues at h
  split at h
  · cases h
  · simp only [Except.ok.injEq] at h
    subst h
    apply foldl_inv (P := fun (t : CallSt) => Pres fid s t)
    · intro t v ht
      split <;> (try split) <;> first | exact ht | exact Pres.congr (by simp) (by simp) ht
    · split
      · intro pre hg
        exact Good_map_unwrap f.id hg
      · exact Pres.refl fid s

/-! ### walking -/

def RecOK (fid : Nat) (rec : Vtx → CallSt → Except RErr ArgMap × CallSt) : Prop :=
  ∀ v s, Pres fid s (rec v s).2

theorem walkStep_pres (fid : Nat) (c : Ctx) (hc : ∀ k f, c.funcOf k = some f → f.id = fid → f.once = true)
    (rec : Vtx → CallSt → Except RErr ArgMap × CallSt) (hrec : RecOK fid rec)
    (s0 : CallSt) (w : WalkSt) (v : Vtx) (h : Pres fid s0 w.s) : Pres fid s0 (walkStep c rec w v).s := by
  cases herr : w.err with
  | some e => rw [walkStep_err c rec herr]; exact h
  | none =>
    cases v with
    | root => rw [walkStep_root c rec herr]; exact h
    | value n t u => rw [walkStep_value c rec herr]; exact Pres.congr (by simp) (by simp) h
    | arg t u => rw [walkStep_arg c rec herr]; exact Pres.congr (by simp) (by simp) h
    | out t u => rw [walkStep_out c rec herr]; exact Pres.congr (by simp) (by simp) h
    | func k =>
      cases hf : c.funcOf k with
      | none => rw [walkStep_func_none c rec herr k hf]; exact h
      | some f =>
        have hr := hrec (Vtx.func k) w.s
        rcases hrs : rec (Vtx.func k) w.s with ⟨e | am, s1⟩
        · rw [walkStep_func_recErr c rec herr k hf hrs]
          rw [hrs] at hr
          exact Pres.trans h hr
        · rw [hrs] at hr
          have h1 : Pres fid s0 s1 := Pres.trans h hr
          have hcd := callDirect_pres fid c f am s1 (hc k f hf)
          rcases hcs : callDirect c f am s1 with ⟨e | ⟨r, unw⟩, s2⟩
          · rw [walkStep_func_cdErr c rec herr k hf hrs hcs]
            rw [hcs] at hcd
            exact Pres.trans h1 hcd
          · rw [hcs] at hcd
            have h2 : Pres fid s0 s2 := Pres.trans h1 hcd
            cases hre : r.err with
            | some ε => rw [walkStep_func_funcErr c rec herr k hf hrs hcs hre]; exact h2
            | none =>
              cases hov : outputValues c f r unw s2 with
              | error e => rw [walkStep_func_outErr c rec herr k hf hrs hcs hre hov]; exact h2
              | ok s3 =>
                rw [walkStep_func_ok c rec herr k hf hrs hcs hre hov]
                exact Pres.trans h2 (outputValues_pres fid c f r unw s2 s3 hov)

theorem walkPaths_pres (fid : Nat) (c : Ctx) (hc : ∀ k f, c.funcOf k = some f → f.id = fid → f.once = true)
    (rec : Vtx → CallSt → Except RErr ArgMap × CallSt) (hrec : RecOK fid rec)
    (ps : List (List Vtx)) (am : ArgMap) (s : CallSt) :
    Pres fid s (walkPaths c rec ps am s).2 := by
  induction ps generalizing am s with
  | nil => exact Pres.refl fid s
  | cons p rest ih =>
    unfold walkPaths
    have hw : Pres fid s (p.foldl (walkStep c rec) { s := s, final := none, prev := none, err := none }).s :=
      foldl_inv (P := fun w => Pres fid s w.s) _ (fun w v hw => walkStep_pres fid c hc rec hrec s w v hw) p _
        (Pres.refl fid s)
    generalize p.foldl (walkStep c rec) { s := s, final := none, prev := none, err := none } = w at hw
    dsimp only
    split
    · exact hw
    · split
      · exact Pres.trans hw (ih _ _)
      · exact hw

theorem reach_pres (fid : Nat) (c : Ctx) (hc : ∀ k f, c.funcOf k = some f → f.id = fid → f.once = true)
    (redefine : Bool) (fuel : Nat) (reaching : List Vtx) (target : Vtx) (s : CallSt) :
    Pres fid s (reach c redefine fuel reaching target s).2 := by
  induction fuel generalizing reaching target s with
  | zero =>
    unfold reach
    exact Pres.refl fid s
  | succ n ih =>
    unfold reach
    dsimp only
    have hs1 : Pres fid s (if c.skipRecordsInput then
        ((c.g.outs target).filter (fun v => v == Vtx.root || takenAsIs c s v)).foldl CallSt.addInput s else s) := by
      split
      · exact Pres.of_eq (foldl_addInput_log _ _) (foldl_addInput_memo _ _)
      · exact Pres.refl fid s
    generalize (if c.skipRecordsInput then
        ((c.g.outs target).filter (fun v => v == Vtx.root || takenAsIs c s v)).foldl CallSt.addInput s else s) = s1 at hs1
    split
    · exact hs1
    · rename_i item orcRest _
      have hs2 : Pres fid s { s1 with orc := orcRest } := Pres.congr rfl rfl hs1
      split
      · exact hs2
      · split
        · exact hs2
        · split
          · exact hs2
          · split
            · exact hs2
            · split
              · exact hs2
              · have hp := plan_fold_log target (target :: reaching) c.trackReaching redefine
                  (item.missing.zip item.paths) { s := { s1 with orc := orcRest }, unsat := [] }
                have hs3 : Pres fid s ((item.missing.zip item.paths).foldl
                    (planOne target (target :: reaching) c.trackReaching redefine)
                    { s := { s1 with orc := orcRest }, unsat := [] }).s := Pres.congr hp.1 hp.2 hs2
                split
                · exact hs3
                · exact Pres.trans hs3 (walkPaths_pres fid c hc _ (fun v st => ih _ v st) _ _ _)

theorem callWith_pres (fid : Nat) (c : Ctx) (hc : ∀ k f, c.funcOf k = some f → f.id = fid → f.once = true)
    (cgr : CallGraphResult) (target : FuncDesc) (ht : target.id = fid → target.once = true)
    (fuel : Nat) (s0 : CallSt) : Pres fid s0 (callWith c cgr target fuel s0).2 := by
  unfold callWith
  split
  · exact Pres.refl fid s0
  · have hr := reach_pres fid c hc false fuel [] cgr.target s0
    rcases hres : reach c false fuel [] cgr.target s0 with ⟨e | am, s⟩
    · rw [hres] at hr
      cases e <;> exact hr
    · rw [hres] at hr
      dsimp only at hr ⊢
      have hcd := callDirect_pres fid c target am s ht
      rcases hcs : callDirect c target am s with ⟨e | ⟨r, unw⟩, s2⟩
      · rw [hcs] at hcd
        cases e <;> exact Pres.trans hr hcd
      · rw [hcs] at hcd
        dsimp only
        split <;> exact Pres.trans hr hcd

end ArgMapper.Once
