import ArgMapper.Proofs.AffinityStep
/-!
# C07, family B at the Dijkstra level: of two branches meeting again the cheaper one wins
-/
namespace ArgMapper.AffinityProofs
open ArgMapper AGraph Dijkstra DijkstraProofs
variable {α : Type} [DecidableEq α]

structure BInv (g : AGraph α) (r u a f1 f2 o : α) (c wa w1 w2 wo1 wo2 : Int) (s : DSt α) : Prop where
  root : Root s r
  tu : Tight s u r c
  ta : Tight s a u (c + wa)
  tf1 : Tight s f1 a (c + wa + w1)
  tf2 : Tight s f2 u (c + w2)
  mo : Merge s o f2 (c + w2 + wo2) (c + wa + w1 + wo1)
  fo : Fresh g s o

theorem branch_pred_aux (G : AGraph α) (hwf : G.WF) (r u a f1 f2 o : α) (c wa w1 w2 wo1 wo2 : Int)
    (pops : List α)
    (hleg : Dijkstra.LegalPops G r pops)
    (hr : r ∈ G.verts)
    (hdist : [r, u, a, f1, f2, o].Nodup)
    (hu : G.weight r u = some c ∧ ∀ x w, G.weight x u = some w → x = r)
    (ha : G.weight u a = some wa ∧ ∀ x w, G.weight x a = some w → x = u)
    (hf1 : G.weight a f1 = some w1 ∧ ∀ x w, G.weight x f1 = some w → x = a)
    (hf2 : G.weight u f2 = some w2 ∧ ∀ x w, G.weight x f2 = some w → x = u)
    (ho : G.weight f1 o = some wo1 ∧ G.weight f2 o = some wo2 ∧
      ∀ x w, G.weight x o = some w → x = f1 ∨ x = f2)
    (hlt : w2 + wo2 < wa + w1 + wo1) (hlt2 : w2 < wa + w1 + wo1)
    (hc : 0 ≤ c)
    (hsc : -1000000 ≤ c ∧ c ≤ 1000000) (hswa : -1000000 ≤ wa ∧ wa ≤ 1000000)
    (hsw1 : -1000000 ≤ w1 ∧ w1 ≤ 1000000) (hsw2 : -1000000 ≤ w2 ∧ w2 ≤ 1000000)
    (hswo1 : -1000000 ≤ wo1 ∧ wo1 ≤ 1000000) (hswo2 : -1000000 ≤ wo2 ∧ wo2 ≤ 1000000) :
    (Dijkstra.run G r pops).prev o = some f2 ∧ (Dijkstra.run G r pops).prev f2 = some u ∧
    (Dijkstra.run G r pops).prev u = some r ∧ (Dijkstra.run G r pops).prev r = none := by
  simp only [List.nodup_cons, List.mem_cons, List.not_mem_nil, or_false, not_or, List.nodup_nil,
    and_true] at hdist
  obtain ⟨⟨hru, hra, hrf1, hrf2, hro⟩, ⟨hua, huf1, huf2, huo⟩, ⟨haf1, haf2, hao⟩,
    ⟨hf1f2, hf1o⟩, hf2o, _⟩ := hdist
  have huV : u ∈ G.verts := (weight_verts hwf hu.1).2
  have haV : a ∈ G.verts := (weight_verts hwf ha.1).2
  have hf2V : f2 ∈ G.verts := (weight_verts hwf hf2.1).2
  have hmax : maxInt32 = 2147483647 := rfl
  have hstep : ∀ s v, BInv G r u a f1 f2 o c wa w1 w2 wo1 wo2 s → LegalStep G s v →
      BInv G r u a f1 f2 o c wa w1 w2 wo1 wo2 (pop G s v) := by
    intro s v hI hl
    have hv := hl.2.1
    have hrvis : v ≠ r → r ∈ s.visited := by
      intro hne
      apply Classical.byContradiction
      intro hrv
      exact hne (root_first hI.root hr hl hrv)
    -- a vertex still at `MaxInt32` is not popped before `u`
    have hu_of : ∀ x, x ≠ r → s.dist x = maxInt32 → v = x → u ∈ s.visited := by
      intro x hxr hdx hvx
      apply Classical.byContradiction
      intro huv
      have h1 := (hI.tu.2 (hrvis (hvx ▸ hxr))).1
      exact not_pop_of_lt hl huV huv (by omega) hvx
    have Eu : v = u → r ∈ s.visited := fun h => hrvis (h ▸ Ne.symm hru)
    have Ea : v = a → u ∈ s.visited := by
      intro h
      apply Classical.byContradiction
      intro huv
      exact huv (hu_of a (Ne.symm hra) (hI.ta.1 huv).2 h)
    have Ef2 : v = f2 → u ∈ s.visited := by
      intro h
      apply Classical.byContradiction
      intro huv
      exact huv (hu_of f2 (Ne.symm hrf2) (hI.tf2.1 huv).2 h)
    have Ef1 : v = f1 → a ∈ s.visited := by
      intro h
      apply Classical.byContradiction
      intro hav
      have h1 := (hI.tf1.1 hav).2
      by_cases huv : u ∈ s.visited
      · have h2 := (hI.ta.2 huv).1
        exact not_pop_of_lt hl haV hav (by omega) h
      · exact huv (hu_of f1 (Ne.symm hrf1) h1 h)
    have Eo : v = o → f2 ∈ s.visited := by
      intro h
      apply Classical.byContradiction
      intro hf2v
      have h1 := (hI.mo.1 hf2v).2
      by_cases huv : u ∈ s.visited
      · have h2 := (hI.tf2.2 huv).1
        exact not_pop_of_lt hl hf2V hf2v (by omega) h
      · have hav := (hI.ta.1 huv).1
        have hf1v := (hI.tf1.1 hav).1
        have h3 : s.dist o = maxInt32 := hI.fo (fun y w hw => by
          rcases ho.2.2 y w hw with rfl | rfl
          · exact hf1v
          · exact hf2v)
        exact huv (hu_of o (Ne.symm hro) h3 h)
    refine ⟨root_step hI.root hr hl, ?_, ?_, ?_, ?_, ?_, fresh_step hwf hI.fo⟩
    · refine tight_step hwf hI.tu hu.2 hu.1 (Ne.symm hru) hv Eu ?_ (by omega)
      intro hvr
      subst hvr
      rw [(hI.root.2 hv).1]
      exact (wrap32_add (by omega) hsc).trans (by omega)
    · refine tight_step hwf hI.ta ha.2 ha.1 (Ne.symm hua) hv Ea ?_ (by omega)
      intro hvu
      rw [(hI.tu.2 (Eu hvu)).1]
      exact wrap32_add (by omega) hswa
    · refine tight_step hwf hI.tf1 hf1.2 hf1.1 (Ne.symm haf1) hv Ef1 ?_ (by omega)
      intro hva
      rw [(hI.ta.2 (Ea hva)).1]
      exact wrap32_add (by omega) hsw1
    · refine tight_step hwf hI.tf2 hf2.2 hf2.1 (Ne.symm huf2) hv Ef2 ?_ (by omega)
      intro hvu
      rw [(hI.tu.2 (Eu hvu)).1]
      exact wrap32_add (by omega) hsw2
    · refine merge_step hwf hI.mo (by omega) (Ne.symm hf2o) ho.2.1 hv Eo ?_ ?_
      · intro hvf
        rw [(hI.tf2.2 (Ef2 hvf)).1]
        exact wrap32_add (by omega) hswo2
      · intro hvf w hw
        rcases ho.2.2 v w hw with h | h
        · rw [h] at hw ⊢
          rw [ho.1] at hw
          cases hw
          rw [(hI.tf1.2 (Ef1 h)).1, wrap32_add (by omega) hswo1]
          omega
        · exact absurd h hvf
  have h0 : BInv G r u a f1 f2 o c wa w1 w2 wo1 wo2 (init r) :=
    ⟨root_init r, tight_init _ (Ne.symm hru), tight_init _ (Ne.symm hra),
      tight_init _ (Ne.symm hrf1), tight_init _ (Ne.symm hrf2),
      merge_init _ (Ne.symm hro) (by omega), fresh_init G (Ne.symm hro)⟩
  obtain ⟨hI, hall⟩ := run_inv (BInv G r u a f1 f2 o c wa w1 w2 wo1 wo2) hstep h0 hleg
  exact ⟨(hI.mo.2 (hall _ hf2V)).2, (hI.tf2.2 (hall _ huV)).2, (hI.tu.2 (hall _ hr)).2, hI.root.1⟩

structure BInvL (g : AGraph α) (r u a f1 f2 o' o : α) (c wa w1 w2 wo1 wo' wo2 : Int) (s : DSt α) :
    Prop where
  root : Root s r
  tu : Tight s u r c
  ta : Tight s a u (c + wa)
  tf1 : Tight s f1 a (c + wa + w1)
  tf2 : Tight s f2 u (c + w2)
  to' : Tight s o' f1 (c + wa + w1 + wo1)
  mo : Merge s o f2 (c + w2 + wo2) (c + wa + w1 + wo1 + wo')
  fo : Fresh g s o

theorem branch_pred_long_aux (G : AGraph α) (hwf : G.WF) (r u a f1 f2 o' o : α)
    (c wa w1 w2 wo1 wo' wo2 : Int) (pops : List α)
    (hleg : Dijkstra.LegalPops G r pops)
    (hr : r ∈ G.verts)
    (hdist : [r, u, a, f1, f2, o', o].Nodup)
    (hu : G.weight r u = some c ∧ ∀ x w, G.weight x u = some w → x = r)
    (ha : G.weight u a = some wa ∧ ∀ x w, G.weight x a = some w → x = u)
    (hf1 : G.weight a f1 = some w1 ∧ ∀ x w, G.weight x f1 = some w → x = a)
    (hf2 : G.weight u f2 = some w2 ∧ ∀ x w, G.weight x f2 = some w → x = u)
    (ho' : G.weight f1 o' = some wo1 ∧ ∀ x w, G.weight x o' = some w → x = f1)
    (ho : G.weight o' o = some wo' ∧ G.weight f2 o = some wo2 ∧
      ∀ x w, G.weight x o = some w → x = o' ∨ x = f2)
    (hlt : w2 + wo2 < wa + w1 + wo1 + wo') (hlt2 : w2 < wa + w1 + wo1 + wo')
    (hc : 0 ≤ c)
    (hsc : -1000000 ≤ c ∧ c ≤ 1000000) (hswa : -1000000 ≤ wa ∧ wa ≤ 1000000)
    (hsw1 : -1000000 ≤ w1 ∧ w1 ≤ 1000000) (hsw2 : -1000000 ≤ w2 ∧ w2 ≤ 1000000)
    (hswo1 : -1000000 ≤ wo1 ∧ wo1 ≤ 1000000) (hswo' : -1000000 ≤ wo' ∧ wo' ≤ 1000000)
    (hswo2 : -1000000 ≤ wo2 ∧ wo2 ≤ 1000000) :
    (Dijkstra.run G r pops).prev o = some f2 ∧ (Dijkstra.run G r pops).prev f2 = some u ∧
    (Dijkstra.run G r pops).prev u = some r ∧ (Dijkstra.run G r pops).prev r = none := by
  simp only [List.nodup_cons, List.mem_cons, List.not_mem_nil, or_false, not_or, List.nodup_nil,
    and_true] at hdist
  obtain ⟨⟨hru, hra, hrf1, hrf2, hro', hro⟩, ⟨hua, huf1, huf2, huo', huo⟩, ⟨haf1, haf2, hao', hao⟩,
    ⟨hf1f2, hf1o', hf1o⟩, ⟨hf2o', hf2o⟩, ho'o, _⟩ := hdist
  have huV : u ∈ G.verts := (weight_verts hwf hu.1).2
  have haV : a ∈ G.verts := (weight_verts hwf ha.1).2
  have hf1V : f1 ∈ G.verts := (weight_verts hwf hf1.1).2
  have hf2V : f2 ∈ G.verts := (weight_verts hwf hf2.1).2
  have hmax : maxInt32 = 2147483647 := rfl
  have hstep : ∀ s v, BInvL G r u a f1 f2 o' o c wa w1 w2 wo1 wo' wo2 s → LegalStep G s v →
      BInvL G r u a f1 f2 o' o c wa w1 w2 wo1 wo' wo2 (pop G s v) := by
    intro s v hI hl
    have hv := hl.2.1
    have hrvis : v ≠ r → r ∈ s.visited := by
      intro hne
      apply Classical.byContradiction
      intro hrv
      exact hne (root_first hI.root hr hl hrv)
    have hu_of : ∀ x, x ≠ r → s.dist x = maxInt32 → v = x → u ∈ s.visited := by
      intro x hxr hdx hvx
      apply Classical.byContradiction
      intro huv
      have h1 := (hI.tu.2 (hrvis (hvx ▸ hxr))).1
      exact not_pop_of_lt hl huV huv (by omega) hvx
    have Eu : v = u → r ∈ s.visited := fun h => hrvis (h ▸ Ne.symm hru)
    have Ea : v = a → u ∈ s.visited := by
      intro h
      apply Classical.byContradiction
      intro huv
      exact huv (hu_of a (Ne.symm hra) (hI.ta.1 huv).2 h)
    have Ef2 : v = f2 → u ∈ s.visited := by
      intro h
      apply Classical.byContradiction
      intro huv
      exact huv (hu_of f2 (Ne.symm hrf2) (hI.tf2.1 huv).2 h)
    -- a vertex still at `MaxInt32` is not popped before `a`
    have ha_of : ∀ x, x ≠ r → s.dist x = maxInt32 → v = x → a ∈ s.visited := by
      intro x hxr hdx hvx
      apply Classical.byContradiction
      intro hav
      by_cases huv : u ∈ s.visited
      · have h2 := (hI.ta.2 huv).1
        exact not_pop_of_lt hl haV hav (by omega) hvx
      · exact huv (hu_of x hxr hdx hvx)
    have Ef1 : v = f1 → a ∈ s.visited := by
      intro h
      apply Classical.byContradiction
      intro hav
      exact hav (ha_of f1 (Ne.symm hrf1) (hI.tf1.1 hav).2 h)
    have Eo' : v = o' → f1 ∈ s.visited := by
      intro h
      apply Classical.byContradiction
      intro hf1v
      have h1 := (hI.to'.1 hf1v).2
      by_cases hav : a ∈ s.visited
      · have h2 := (hI.tf1.2 hav).1
        exact not_pop_of_lt hl hf1V hf1v (by omega) h
      · exact hav (ha_of o' (Ne.symm hro') h1 h)
    have Eo : v = o → f2 ∈ s.visited := by
      intro h
      apply Classical.byContradiction
      intro hf2v
      have h1 := (hI.mo.1 hf2v).2
      by_cases huv : u ∈ s.visited
      · have h2 := (hI.tf2.2 huv).1
        exact not_pop_of_lt hl hf2V hf2v (by omega) h
      · have hav := (hI.ta.1 huv).1
        have hf1v := (hI.tf1.1 hav).1
        have ho'v := (hI.to'.1 hf1v).1
        have h3 : s.dist o = maxInt32 := hI.fo (fun y w hw => by
          rcases ho.2.2 y w hw with rfl | rfl
          · exact ho'v
          · exact hf2v)
        exact huv (hu_of o (Ne.symm hro) h3 h)
    refine ⟨root_step hI.root hr hl, ?_, ?_, ?_, ?_, ?_, ?_, fresh_step hwf hI.fo⟩
    · refine tight_step hwf hI.tu hu.2 hu.1 (Ne.symm hru) hv Eu ?_ (by omega)
      intro hvr
      subst hvr
      rw [(hI.root.2 hv).1]
      exact (wrap32_add (by omega) hsc).trans (by omega)
    · refine tight_step hwf hI.ta ha.2 ha.1 (Ne.symm hua) hv Ea ?_ (by omega)
      intro hvu
      rw [(hI.tu.2 (Eu hvu)).1]
      exact wrap32_add (by omega) hswa
    · refine tight_step hwf hI.tf1 hf1.2 hf1.1 (Ne.symm haf1) hv Ef1 ?_ (by omega)
      intro hva
      rw [(hI.ta.2 (Ea hva)).1]
      exact wrap32_add (by omega) hsw1
    · refine tight_step hwf hI.tf2 hf2.2 hf2.1 (Ne.symm huf2) hv Ef2 ?_ (by omega)
      intro hvu
      rw [(hI.tu.2 (Eu hvu)).1]
      exact wrap32_add (by omega) hsw2
    · refine tight_step hwf hI.to' ho'.2 ho'.1 (Ne.symm hf1o') hv Eo' ?_ (by omega)
      intro hvf
      rw [(hI.tf1.2 (Ef1 hvf)).1]
      exact wrap32_add (by omega) hswo1
    · refine merge_step hwf hI.mo (by omega) (Ne.symm hf2o) ho.2.1 hv Eo ?_ ?_
      · intro hvf
        rw [(hI.tf2.2 (Ef2 hvf)).1]
        exact wrap32_add (by omega) hswo2
      · intro hvf w hw
        rcases ho.2.2 v w hw with h | h
        · rw [h] at hw ⊢
          rw [ho.1] at hw
          cases hw
          rw [(hI.to'.2 (Eo' h)).1, wrap32_add (by omega) hswo']
          omega
        · exact absurd h hvf
  have h0 : BInvL G r u a f1 f2 o' o c wa w1 w2 wo1 wo' wo2 (init r) :=
    ⟨root_init r, tight_init _ (Ne.symm hru), tight_init _ (Ne.symm hra),
      tight_init _ (Ne.symm hrf1), tight_init _ (Ne.symm hrf2), tight_init _ (Ne.symm hro'),
      merge_init _ (Ne.symm hro) (by omega), fresh_init G (Ne.symm hro)⟩
  obtain ⟨hI, hall⟩ := run_inv (BInvL G r u a f1 f2 o' o c wa w1 w2 wo1 wo' wo2) hstep h0 hleg
  exact ⟨(hI.mo.2 (hall _ hf2V)).2, (hI.tf2.2 (hall _ huV)).2, (hI.tu.2 (hall _ hr)).2, hI.root.1⟩

end ArgMapper.AffinityProofs
