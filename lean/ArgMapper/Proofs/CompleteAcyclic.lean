import ArgMapper.Proofs.Complete
/-!
# Completeness of conversion chaining on acyclic converter sets (helper lemmas for C05b, dynamic part)

The walk invariants of `Proofs/Complete.lean`, generalised from single-input converters to converters
with any number of inputs.  A converter vertex `func k` met on a walked path may now have requirements
without a value: the nested `reach` plans and walks a path for each of them.  The nested search is
described by `ROut` (the errors it may end in; on success an argument map that is type sound and covers
every requirement vertex of `func k`), and the facts about the graph by `FactsA`:

* `funcIn`: every parameter vertex of the function object held by a function vertex of the graph is a
  requirement (out-neighbour) of that vertex — this is what "every converter can itself be satisfied"
  gives after pruning;
* `acyc`: a rank strictly decreasing along every edge.  A real root-first path to a requirement of the
  function being resolved only visits vertices of smaller rank than that function, hence none of the
  functions on the resolution stack (whose ranks are larger): the planning loop never records an
  unsatisfied argument, and the nested searches nest at most as deep as there are function vertices.
-/
set_option linter.unusedSectionVars false
set_option linter.unusedVariables false
namespace ArgMapper.CompleteAcyclic
open ArgMapper WalkEqs ReachSound Complete

/-- what the dynamic part needs to know about the context (no bound on the number of inputs) -/
structure FactsA (c : Ctx) (N : Prop) (Sup : Vtx → Prop) (rank : Vtx → Nat) : Prop where
  hN : N → NE c
  pub : c.publishAfterUpdate = true
  tvn : c.takeValuedNamed = true
  mc : c.memoCopy = true
  tr : c.trackReaching = true
  sri : c.skipRecordsInput = false
  auto : c.auto = false
  trans : ImplTrans c.env
  edgeOK : EdgeOK c.env c.g
  valSub : ∀ x n t s, c.g.hasEdge x (.value n t s) = true → s = ""
  toRoot : ∀ x, c.g.hasEdge x .root = true → x.isFunc = true ∨ Sup x
  supKind : ∀ x, Sup x → x.isValue = true ∨ x.isOut = true
  funcReq : ∀ k y, c.g.hasEdge (.func k) y = true →
    ∃ f, c.funcOf k = some f ∧ (y = .root ∨ ∃ v ∈ f.input.values, y = v.lab.vertex)
  funcKey : ∀ k f, c.funcOf k = some f → f.key = k
  /-- every parameter vertex of a function vertex of the graph is one of its requirements -/
  funcIn : ∀ k f, c.funcOf k = some f → Vtx.func k ∈ c.g.verts →
    ∀ v ∈ f.input.values, v.lab.vertex ∈ c.g.outs (.func k)
  outTyped : ∀ k f, c.funcOf k = some f → OutTyped f (c.g.ins (.func k))
  wf : c.g.WF
  acyc : ∀ x y, c.g.hasEdge x y = true → rank y < rank x

/-- what a (nested or top-level) search for the requirements of `func k` returns -/
def ROut (c : Ctx) (N : Prop) (Sup : Vtx → Prop) (k : Nat) (r : Except RErr ArgMap × CallSt) : Prop :=
  (∀ e, r.1 = .error e → Allowed N e) ∧
  (∀ am, r.1 = .ok am → AmOK c am ∧ SInv c N Sup r.2 ∧
    ∀ y ∈ c.g.outs (.func k), y ≠ .root → (mapGet am y).isSome = true)

/-- the nested search behaves on every function vertex that satisfies `P` -/
def RecSpecA (c : Ctx) (N : Prop) (Sup : Vtx → Prop) (P : Vtx → Prop)
    (rec : Vtx → CallSt → Except RErr ArgMap × CallSt) : Prop :=
  ∀ k s, P (.func k) → SInv c N Sup s → ROut c N Sup k (rec (.func k) s)

variable {c : Ctx} {N : Prop} {Sup : Vtx → Prop} {rank : Vtx → Nat}

/-! ### one step of the walk -/

theorem walkStep_winv (gf : FactsA c N Sup rank) (P : Vtx → Prop)
    (rec : Vtx → CallSt → Except RErr ArgMap × CallSt)
    (hrec : RecSpecA c N Sup P rec) (w : WalkSt) (v : Vtx) (hw : WInv c N Sup w)
    (hedge : w.err = none → ∃ u, w.prev = some u ∧ c.g.hasEdge v u = true) (hPv : P v) :
    WInv c N Sup (walkStep c rec w v) := by
  cases herr : w.err with
  | some e => rw [walkStep_err c rec herr]; exact hw
  | none =>
    obtain ⟨hS, hP⟩ := hw.2 herr
    obtain ⟨u, hu, he⟩ := hedge herr
    rw [hu] at hP
    have hrule := gf.edgeOK _ _ he
    have hkind := kindOK_of_rule hrule
    cases v with
    | root =>
      rw [walkStep_root c rec herr]
      exact ⟨fun e h => (no_err herr h).elim, fun _ => ⟨hS, trivial⟩⟩
    | value n t x =>
      rw [walkStep_value c rec herr, hu]
      -- the copy
      have key : SInv c N Sup (valCopy c w.s (some u) (.value n t x)) ∧
          ((valCopy c w.s (some u) (.value n t x)).get (.value n t x)).isSome = true := by
        cases u with
        | root =>
          rw [valCopy_store_eq _ _ _ _ rfl rfl]
          rcases gf.toRoot _ he with h | h
          · cases h
          · exact ⟨hS, hS.sup _ h⟩
        | value n' t' x' =>
          exact absurd (gf.valSub _ _ _ _ he) (rule_value_value hrule)
        | arg t' x' => simp [kindOK] at hkind
        | out t' x' =>
          have ht := rule_value_out hrule
          subst ht
          obtain ⟨a, ha⟩ := Option.isSome_iff_exists.1 hP.1
          show SInv c N Sup (w.s.set _ (w.s.get (.out t' x'))) ∧ ((w.s.set _ (w.s.get (.out t' x'))).get _).isSome = true
          rw [ha]
          refine ⟨hS.set _ _ (hS.typed (.out t' x') a ha), ?_⟩
          rw [get_set]; simp
        | func k =>
          rw [valCopy_store_eq _ _ _ _ rfl rfl]
          exact ⟨hS, hP _ (mem_ins_of_hasEdge _ _ _ he)⟩
      generalize valCopy c w.s (some u) (.value n t x) = s1 at key
      obtain ⟨k1, k2⟩ := key
      refine ⟨fun e h => (no_err herr h).elim, fun _ => ⟨k1.congr rfl rfl, ?_⟩⟩
      obtain ⟨a, ha⟩ := Option.isSome_iff_exists.1 k2
      show (s1.get (.value n t x)).isSome = true ∧
        (if c.publishAfterUpdate = true then s1.get (.value n t x) else w.s.get (.value n t x)) = s1.get (.value n t x) ∧
        (s1.get (.value n t x)).or w.final = s1.get (.value n t x)
      rw [gf.pub, ha]
      simp
    | out t x =>
      rw [walkStep_out c rec herr, hu]
      have key : SInv c N Sup (copyFrom w.s (some u) (.out t x)) ∧
          ((copyFrom w.s (some u) (.out t x)).get (.out t x)).isSome = true := by
        cases u with
        | root =>
          rw [copyFrom_store_eq _ _ _ rfl]
          rcases gf.toRoot _ he with h | h
          · cases h
          · exact ⟨hS, hS.sup _ h⟩
        | value n' t' x' => simp [kindOK] at hkind
        | arg t' x' => simp [kindOK] at hkind
        | out t' x' =>
          obtain ⟨hi, him⟩ := rule_out_out hrule
          obtain ⟨a, ha⟩ := Option.isSome_iff_exists.1 hP.1
          show SInv c N Sup (w.s.set _ (w.s.get (.out t' x'))) ∧ ((w.s.set _ (w.s.get (.out t' x'))).get _).isSome = true
          rw [ha]
          refine ⟨hS.set _ _ (assignable_trans_impl _ gf.trans _ _ _ (hS.typed (.out t' x') a ha) hi him), ?_⟩
          rw [get_set]; simp
        | func k =>
          rw [copyFrom_store_eq _ _ _ rfl]
          exact ⟨hS, hP _ (mem_ins_of_hasEdge _ _ _ he)⟩
      generalize copyFrom w.s (some u) (.out t x) = s1 at key
      obtain ⟨k1, k2⟩ := key
      exact ⟨fun e h => (no_err herr h).elim, fun _ => ⟨k1.congr rfl rfl, k2, rfl⟩⟩
    | arg t x =>
      rw [walkStep_arg c rec herr]
      have key : ∃ a, w.s.last = some a ∧ c.env.assignable a.ty t = true := by
        cases u with
        | root =>
          rcases gf.toRoot _ he with h | h
          · cases h
          · rcases gf.supKind _ h with h' | h' <;> cases h'
        | value n' t' x' =>
          have ht := rule_arg_value hrule
          subst ht
          obtain ⟨a, ha⟩ := Option.isSome_iff_exists.1 hP.1
          exact ⟨a, by rw [hP.2.1, ha], hS.typed _ _ ha⟩
        | arg t' x' => simp [kindOK] at hkind
        | out t' x' =>
          have ht := rule_arg_out hrule
          subst ht
          obtain ⟨a, ha⟩ := Option.isSome_iff_exists.1 hP.1
          exact ⟨a, by rw [hP.2, ha], hS.typed _ _ ha⟩
        | func k => simp [kindOK] at hkind
      obtain ⟨a, hla, hta⟩ := key
      have hst : argStore c w.s t (.arg t x) = w.s.set (.arg t x) (some a) := by
        unfold argStore
        rw [hla]
        dsimp only
        rw [if_pos hta]
      rw [hst]
      refine ⟨fun e h => (no_err herr h).elim, fun _ => ⟨hS.set _ _ hta, ?_, rfl⟩⟩
      show ((w.s.set (.arg t x) (some a)).get (.arg t x)).isSome = true
      rw [get_set]; simp
    | func k =>
      obtain ⟨f, hfo, _⟩ := gf.funcReq k u he
      have hkv : Vtx.func k ∈ c.g.verts := (Termination.mem_verts_of_hasEdge c.g gf.wf _ _ he).1
      obtain ⟨hE, hO⟩ := hrec k w.s hPv hS
      rcases hrs : rec (.func k) w.s with ⟨e | am, s1⟩
      · rw [walkStep_func_recErr c rec herr k hfo hrs]
        rw [hrs] at hE
        exact ⟨fun e' h => by cases h; exact hE e rfl, fun h => by cases h⟩
      · rw [hrs] at hO
        obtain ⟨hA, hS1, hcov⟩ := hO am rfl
        dsimp only at hS1
        -- the argument map holds every argument of the converter
        have hga : ∃ args, gatherArgs c.env f am = .ok args := by
          refine ⟨_, ExactWins.gatherArgs_ok _ _ _ ?_⟩
          intro v' hv'
          obtain ⟨a, ha⟩ := Option.isSome_iff_exists.1
            (hcov _ (gf.funcIn k f hfo hkv v' hv') (vertex_ne_root _))
          refine ⟨a, ha, ?_⟩
          have := hA _ _ ha
          rw [vertex_ty] at this
          exact this
        obtain ⟨r, unw, s2, hcd, hst2, hr2, hm2⟩ := callDirect_spec (Sup := Sup) gf.hN f am s1 hS1 hga
        cases hre : r.err with
        | some ε =>
          rw [walkStep_func_funcErr c rec herr k hfo hrs hcd hre]
          refine ⟨fun e h => ?_, fun h => by cases h⟩
          cases h
          refine Or.inr ⟨⟨_, rfl⟩, fun hne => ?_⟩
          rw [hr2 hne] at hre; cases hre
        | none =>
          have hS2 : SInv c N Sup s2 := ⟨fun x v hv => hS1.typed x v (by unfold CallSt.get at hv ⊢; rw [← hst2]; exact hv),
            fun x hx => by have := hS1.sup x hx; unfold CallSt.get at this ⊢; rw [hst2]; exact this, hm2⟩
          have hov := outputValues_spec gf.mc f r unw s2
          rw [walkStep_func_ok c rec herr k hfo hrs hcd hre hov]
          have hkey := gf.funcKey k f hfo
          have := oFold_sinv (c := c) (N := N) (Sup := Sup) f r (c.g.ins (.func f.key)) (by rw [hkey]; exact gf.outTyped k f hfo) s2 hS2
          refine ⟨fun e h => (no_err herr h).elim, fun _ => ⟨this.1, ?_⟩⟩
          show ∀ v ∈ c.g.ins (.func k), _
          rw [← hkey]
          exact this.2

/-! ### walking one path -/

theorem walkFold_winv (gf : FactsA c N Sup rank) (P : Vtx → Prop)
    (rec : Vtx → CallSt → Except RErr ArgMap × CallSt)
    (hrec : RecSpecA c N Sup P rec) (p : List Vtx) (w : WalkSt) (hw : WInv c N Sup w)
    (hpath : w.err = none → ∃ u, w.prev = some u ∧ Chain c.g u p) (hnt : ∀ v ∈ p, P v) :
    WInv c N Sup (p.foldl (walkStep c rec) w) ∧
    ((p.foldl (walkStep c rec) w).err = none → ∀ l, p.getLast? = some l →
      (p.foldl (walkStep c rec) w).prev = some l) := by
  induction p generalizing w with
  | nil => exact ⟨hw, fun _ l h => by simp at h⟩
  | cons v rest ih =>
    rw [List.foldl_cons]
    have hw1 : WInv c N Sup (walkStep c rec w v) :=
      walkStep_winv gf P rec hrec w v hw
        (fun he => by
          obtain ⟨u, hu, hc⟩ := hpath he
          exact ⟨u, hu, hc.1⟩)
        (hnt v (by simp))
    have hpath1 : (walkStep c rec w v).err = none →
        ∃ u, (walkStep c rec w v).prev = some u ∧ Chain c.g u rest := by
      intro he
      obtain ⟨u, _, hc⟩ := hpath (walkStep_err_mono c rec w v he)
      exact ⟨v, walkStep_prev c rec w v he, hc.2⟩
    obtain ⟨i1, i2⟩ := ih _ hw1 hpath1 (fun u hu => hnt u (List.mem_cons_of_mem _ hu))
    refine ⟨i1, fun he l hl => ?_⟩
    cases rest with
    | nil =>
      simp only [List.getLast?_singleton, Option.some.injEq] at hl
      subst hl
      exact walkStep_prev c rec w v he
    | cons b rest' =>
      rw [List.getLast?_cons_cons] at hl
      exact i2 he l hl

/-! ### walking all paths -/

/-- a root-first real path whose vertices satisfy `P` and that ends in a value or argument vertex -/
def GoodPathA (c : Ctx) (P : Vtx → Prop) (p : List Vtx) : Prop :=
  ∃ rest, p = .root :: rest ∧ rest ≠ [] ∧ Chain c.g .root rest ∧ (∀ v ∈ rest, P v) ∧
    ∀ l, rest.getLast? = some l → (l.isValue = true ∨ l.isArg = true)

theorem walkPaths_spec (gf : FactsA c N Sup rank) (P : Vtx → Prop)
    (rec : Vtx → CallSt → Except RErr ArgMap × CallSt)
    (hrec : RecSpecA c N Sup P rec) (paths : List (List Vtx)) (hp : ∀ p ∈ paths, GoodPathA c P p) (am : ArgMap)
    (s : CallSt) (hs : SInv c N Sup s) (ham : AmOK c am) :
    (∀ e, (walkPaths c rec paths am s).1 = .error e → Allowed N e) ∧
    (∀ am', (walkPaths c rec paths am s).1 = .ok am' →
      AmOK c am' ∧ SInv c N Sup (walkPaths c rec paths am s).2 ∧
      (∀ x, (mapGet am x).isSome = true → (mapGet am' x).isSome = true) ∧
      ∀ p ∈ paths, ∀ l, p.getLast? = some l → (mapGet am' l).isSome = true) := by
  induction paths generalizing am s with
  | nil =>
    refine ⟨fun e h => (by cases h), fun am' h => ?_⟩
    simp only [walkPaths, Except.ok.injEq] at h
    subst h
    exact ⟨ham, hs, fun _ h => h, fun _ h => by cases h⟩
  | cons p rest ih =>
    obtain ⟨tl, hptl, htl, hchain, hnt, hkind⟩ := hp p (by simp)
    unfold walkPaths
    have hw1 : WInv c N Sup { s := s, final := none, prev := some .root, err := none } :=
      ⟨fun e h => (by cases h), fun _ => ⟨hs, trivial⟩⟩
    have hfold := walkFold_winv gf P rec hrec tl _ hw1 (fun _ => ⟨.root, rfl, hchain⟩) hnt
    have hfeq : p.foldl (walkStep c rec) { s := s, final := none, prev := none, err := none } =
        tl.foldl (walkStep c rec) { s := s, final := none, prev := some .root, err := none } := by
      rw [hptl, List.foldl_cons, walkStep_root c rec rfl]
    have hlast : p.getLast? = tl.getLast? := by
      rw [hptl]
      cases tl with
      | nil => exact absurd rfl htl
      | cons a tl' => rw [List.getLast?_cons_cons]
    rw [hfeq]
    generalize tl.foldl (walkStep c rec) { s := s, final := none, prev := some .root, err := none } = w at hfold
    obtain ⟨⟨herrA, hok⟩, hprev⟩ := hfold
    dsimp only
    split
    · rename_i e he
      exact ⟨fun e' h => by cases h; exact herrA e he, fun am' h => by cases h⟩
    · rename_i herr
      obtain ⟨hS, hP⟩ := hok herr
      obtain ⟨l, hl⟩ : ∃ l, tl.getLast? = some l := by
        cases h : tl.getLast? with
        | none => exact absurd (List.getLast?_eq_none_iff.1 h) htl
        | some l => exact ⟨l, rfl⟩
      rw [hprev herr l hl] at hP
      have hfin : ∃ x, w.final = some x ∧ w.s.get l = some x := by
        rcases hkind l hl with hv | hv
        · cases l <;> simp [Vtx.isValue] at hv
          obtain ⟨x, hx⟩ := Option.isSome_iff_exists.1 hP.1
          exact ⟨x, by rw [hP.2.2, hx], hx⟩
        · cases l <;> simp [Vtx.isArg] at hv
          obtain ⟨x, hx⟩ := Option.isSome_iff_exists.1 hP.1
          exact ⟨x, by rw [hP.2, hx], hx⟩
      obtain ⟨x, hfx, hgx⟩ := hfin
      rw [hlast, hl, hfx]
      dsimp only
      have ham1 : AmOK c (mapSet am l x) := by
        intro y a hy
        rw [mapGet_mapSet'] at hy
        split at hy
        · rename_i hyl
          simp only [Option.some.injEq] at hy
          subst hy; subst hyl
          exact hS.typed _ _ hgx
        · exact ham y a hy
      obtain ⟨j1, j2⟩ := ih (fun q hq => hp q (List.mem_cons_of_mem _ hq)) (mapSet am l x) w.s hS ham1
      refine ⟨j1, fun am' h => ?_⟩
      obtain ⟨k1, k2, k3, k4⟩ := j2 am' h
      refine ⟨k1, k2, ?_, ?_⟩
      · intro y hy
        apply k3
        rw [mapGet_mapSet']
        split
        · rfl
        · exact hy
      · intro q hq l' hl'
        rcases List.mem_cons.1 hq with rfl | hq
        · rw [hlast, hl] at hl'
          cases hl'
          apply k3
          rw [mapGet_mapSet', if_pos rfl]; rfl
        · exact k4 q hq l' hl'

/-! ### ranks along a real path -/

/-- along a chain the rank grows: every vertex has at most the rank of the last one -/
theorem chain_rank (g : AGraph Vtx) (rank : Vtx → Nat) (hacyc : ∀ x y, g.hasEdge x y = true → rank y < rank x)
    (rest : List Vtx) (u : Vtx) (hc : Chain g u rest) :
    ∀ l, (u :: rest).getLast? = some l → ∀ v ∈ u :: rest, rank v ≤ rank l := by
  induction rest generalizing u with
  | nil =>
    intro l hl v hv
    simp only [List.getLast?_singleton, Option.some.injEq] at hl
    simp only [List.mem_singleton] at hv
    subst hl; subst hv
    exact Nat.le_refl _
  | cons a rest' ih =>
    intro l hl v hv
    rw [List.getLast?_cons_cons] at hl
    have h1 := ih a hc.2 l hl
    rcases List.mem_cons.1 hv with rfl | hv
    · have := hacyc _ _ hc.1
      have := h1 a (by simp)
      omega
    · exact h1 v hv

/-- a valid path to a value / argument requirement `cur` of the vertex `t` is a good path: all its
vertices are vertices of the graph of smaller rank than `t` -/
theorem goodPath_of_valid (gf : FactsA c N Sup rank) (t cur : Vtx) (p : List Vtx)
    (ht : c.g.hasEdge t cur = true)
    (hcur : cur.isValue = true ∨ cur.isArg = true) (h : validPath c.g cur p = true) :
    GoodPathA c (fun v => v ∈ c.g.verts ∧ rank v < rank t) p ∧ p.getLast? = some cur ∧
      ∀ v ∈ p, rank v < rank t := by
  simp only [validPath, Bool.and_eq_true, beq_iff_eq] at h
  obtain ⟨⟨⟨_, hhead⟩, hlast⟩, hpath⟩ := h
  cases p with
  | nil => simp at hhead
  | cons a rest =>
    simp only [List.head?_cons, Option.some.injEq] at hhead
    subst hhead
    have hne : rest ≠ [] := by
      intro h
      subst h
      simp only [List.getLast?_singleton, Option.some.injEq] at hlast
      subst hlast
      rcases hcur with h | h <;> cases h
    have hl : rest.getLast? = some cur := by
      cases rest with
      | nil => exact absurd rfl hne
      | cons b r => rw [List.getLast?_cons_cons] at hlast; exact hlast
    have hch := chain_of_isPathB c.g rest .root hpath
    have hrk : ∀ v ∈ Vtx.root :: rest, rank v < rank t := by
      intro v hv
      have h1 := chain_rank c.g rank gf.acyc rest .root hch cur hlast v hv
      have h2 := gf.acyc _ _ ht
      omega
    refine ⟨⟨rest, rfl, hne, hch, ?_, ?_⟩, hlast, hrk⟩
    · intro v hv
      exact ⟨Termination.mem_verts_of_isPathB c.g gf.wf _ rest hpath v hv, hrk v (List.mem_cons_of_mem _ hv)⟩
    · intro l h
      rw [hl] at h
      cases h
      exact hcur

/-! ### one unfolding of `reach` -/

theorem reach_step (gf : FactsA c N Sup rank) (m : Nat) (reaching : List Vtx) (k : Nat)
    (hstack : ∀ x ∈ reaching, rank (.func k) < rank x)
    (hrec : RecSpecA c N Sup (fun v => v ∈ c.g.verts ∧ rank v < rank (.func k))
      (fun v st => reach c false m (.func k :: reaching) v st))
    (s : CallSt) (hs : SInv c N Sup s) :
    ROut c N Sup k (reach c false (m + 1) reaching (.func k) s) := by
  unfold ROut
  unfold reach
  dsimp only
  -- the skipped requirements
  have ham0 : AmOK c (((c.g.outs (.func k)).filter (fun v => v == Vtx.root || takenAsIs c s v)).filterMap
      (fun v => if v == Vtx.root then none else (s.get v).map (fun x => (v, x)))) := by
    intro x a h
    have hm := mem_of_mapGet h
    simp only [List.mem_filterMap] at hm
    obtain ⟨v, _, hv⟩ := hm
    split at hv
    · cases hv
    · cases hg : s.get v with
      | none => simp [hg] at hv
      | some y =>
        simp only [hg, Option.map_some, Option.some.injEq, Prod.mk.injEq] at hv
        obtain ⟨rfl, rfl⟩ := hv
        exact hs.typed _ _ hg
  have hsk : ∀ y ∈ c.g.outs (.func k), y ≠ .root → (y == Vtx.root || takenAsIs c s y) = true →
      (mapGet (((c.g.outs (.func k)).filter (fun v => v == Vtx.root || takenAsIs c s v)).filterMap
        (fun v => if v == Vtx.root then none else (s.get v).map (fun x => (v, x)))) y).isSome = true := by
    intro y hy hyr ht
    rw [ExactWins.mapGet_am0, if_pos ⟨List.mem_filter.2 ⟨hy, ht⟩, hyr⟩]
    apply isSome_of_takenAsIs
    have : (y == Vtx.root) = false := by simpa using hyr
    simpa [this] using ht
  generalize ((c.g.outs (.func k)).filter (fun v => v == Vtx.root || takenAsIs c s v)).filterMap
    (fun v => if v == Vtx.root then none else (s.get v).map (fun x => (v, x))) = am0 at ham0 hsk
  have hmiss : ∀ cur ∈ (c.g.outs (.func k)).filter (fun v => !(v == Vtx.root || takenAsIs c s v)),
      (cur.isValue = true ∨ cur.isArg = true) ∧ c.g.hasEdge (.func k) cur = true := by
    intro cur hcur
    simp only [List.mem_filter] at hcur
    have he := hasEdge_of_mem_outs _ _ _ hcur.1
    obtain ⟨f, _, hreq⟩ := gf.funcReq k cur he
    rcases hreq with rfl | ⟨v, _, rfl⟩
    · simp at hcur
    · exact ⟨vertex_kind _, he⟩
  have hcover : ∀ y ∈ c.g.outs (.func k), (y == Vtx.root || takenAsIs c s y) = true ∨
      y ∈ (c.g.outs (.func k)).filter (fun v => !(v == Vtx.root || takenAsIs c s v)) := by
    intro y hy
    cases h : (y == Vtx.root || takenAsIs c s y) with
    | true => exact Or.inl rfl
    | false => exact Or.inr (List.mem_filter.2 ⟨hy, by simp [h]⟩)
  generalize (c.g.outs (.func k)).filter (fun v => !(v == Vtx.root || takenAsIs c s v)) = missingM
    at hmiss hcover
  have hs1 : SInv c N Sup (if c.skipRecordsInput then
      ((c.g.outs (.func k)).filter (fun v => v == Vtx.root || takenAsIs c s v)).foldl CallSt.addInput s else s) := by
    rw [gf.sri]
    exact hs
  generalize (if c.skipRecordsInput then
      ((c.g.outs (.func k)).filter (fun v => v == Vtx.root || takenAsIs c s v)).foldl CallSt.addInput s else s) = s1
    at hs1
  split
  · exact ⟨fun e h => by cases h; exact Or.inl ⟨_, rfl⟩, fun am h => by cases h⟩
  · rename_i item orcRest _
    have hs2 : SInv c N Sup { s1 with orc := orcRest } := hs1.congr rfl rfl
    split
    · exact ⟨fun e h => by cases h; exact Or.inl ⟨_, rfl⟩, fun am h => by cases h⟩
    · split
      · exact ⟨fun e h => by cases h; exact Or.inl ⟨_, rfl⟩, fun am h => by cases h⟩
      · rename_i hsame
        have hsame' : sameMembers item.missing missingM = true := by simpa using hsame
        simp only [sameMembers, Bool.and_eq_true, List.all_eq_true, decide_eq_true_eq] at hsame'
        split
        · rename_i hempty
          refine ⟨fun e h => (by cases h), fun am h => ?_⟩
          simp only [Except.ok.injEq] at h
          subst h
          refine ⟨ham0, hs2, fun y hy hyr => ?_⟩
          rcases hcover y hy with h | h
          · exact hsk y hy hyr h
          · rw [List.isEmpty_iff.1 hempty] at h; cases h
        · split
          · exact ⟨fun e h => by cases h; exact Or.inl ⟨_, rfl⟩, fun am h => by cases h⟩
          · rename_i hlen
            simp only [ne_eq, Decidable.not_not] at hlen
            split
            · exact ⟨fun e h => by cases h; exact Or.inl ⟨_, rfl⟩, fun am h => by cases h⟩
            · rename_i hvalid
              have hvalid' : ((item.missing.zip item.paths).all fun cp => validPath c.g cp.1 cp.2) = true := by
                simpa using hvalid
              have hgood : ∀ cp ∈ item.missing.zip item.paths,
                  GoodPathA c (fun v => v ∈ c.g.verts ∧ rank v < rank (.func k)) cp.2 ∧
                  cp.2.getLast? = some cp.1 ∧ ∀ v ∈ cp.2, rank v < rank (.func k) := by
                intro cp hcp
                have hm := hmiss _ (hsame'.1.1 _ (List.of_mem_zip hcp).1)
                exact goodPath_of_valid gf (.func k) cp.1 cp.2 hm.2 hm.1
                  (List.all_eq_true.1 hvalid' _ hcp)
              have hs3 : SInv c N Sup ((item.missing.zip item.paths).foldl
                  (planOne (.func k) (.func k :: reaching) c.trackReaching false)
                  { s := { s1 with orc := orcRest }, unsat := [] }).s :=
                foldl_inv (fun (ps : PlanSt) => SInv c N Sup ps.s) _
                  (fun ps cp h => planOne_sinv _ _ _ ps cp h) _ _ hs2
              have hun : ((item.missing.zip item.paths).foldl
                  (planOne (.func k) (.func k :: reaching) c.trackReaching false)
                  { s := { s1 with orc := orcRest }, unsat := [] }).unsat = [] := by
                rw [gf.tr]
                apply plan_unsat_nil _ _ _ _ _ _ rfl
                intro cp hcp v hv hmem
                have hlt := (hgood cp hcp).2.2 v hv
                rcases List.mem_cons.1 hmem with h | h
                · rw [h] at hlt; exact Nat.lt_irrefl _ hlt
                · have := hstack v h
                  omega
              split
              · rename_i hne
                rw [hun] at hne
                simp at hne
              · have hwp := walkPaths_spec gf _ _ hrec item.paths
                  (by
                    intro p hp
                    obtain ⟨cur, _, hz⟩ := zip_snd_mem item.missing item.paths hlen p hp
                    exact (hgood _ hz).1)
                  am0 _ hs3 ham0
                refine ⟨hwp.1, fun am h => ?_⟩
                obtain ⟨k1, k2, k3, k4⟩ := hwp.2 am h
                refine ⟨k1, k2, fun y hy hyr => ?_⟩
                rcases hcover y hy with h | h
                · exact k3 y (hsk y hy hyr h)
                · obtain ⟨p, hp, hz⟩ := zip_fst_mem item.missing item.paths hlen y (hsame'.1.2 _ h)
                  exact k4 p hp y (hgood _ hz).2.1

/-! ### every search succeeds: induction on the fuel -/

theorem reach_all (gf : FactsA c N Sup rank) (n : Nat) : ∀ (reaching : List Vtx) (k : Nat) (s : CallSt),
    Vtx.func k ∈ c.g.verts → (∀ x ∈ reaching, rank (.func k) < rank x) →
    Termination.measure c.g reaching ≤ n → SInv c N Sup s →
    ROut c N Sup k (reach c false n reaching (.func k) s) := by
  induction n with
  | zero =>
    intro reaching k s hk hstack hfuel _
    have hnr : Vtx.func k ∉ reaching := fun h => Nat.lt_irrefl _ (hstack _ h)
    have := Termination.measure_lt c.g reaching (.func k) hk rfl hnr
    omega
  | succ m ih =>
    intro reaching k s hk hstack hfuel hs
    have hnr : Vtx.func k ∉ reaching := fun h => Nat.lt_irrefl _ (hstack _ h)
    have hlt := Termination.measure_lt c.g reaching (.func k) hk rfl hnr
    refine reach_step gf m reaching k hstack ?_ s hs
    intro k' s' hP hs'
    refine ih (.func k :: reaching) k' s' hP.1 ?_ (by omega) hs'
    intro x hx
    rcases List.mem_cons.1 hx with rfl | hx
    · exact hP.2
    · have := hstack x hx
      have := hP.2
      omega

/-! ### `callWith` -/

/-- putting one more function on the resolution stack does not increase the measure -/
theorem measure_cons_le (g : AGraph Vtx) (t : Vtx) (reaching : List Vtx) :
    Termination.measure g (t :: reaching) ≤ Termination.measure g reaching := by
  unfold Termination.measure
  apply Termination.filter_length_le
  intro x hx
  simp only [List.mem_cons, not_or, Bool.not_eq_eq_eq_not, Bool.not_true, decide_eq_false_iff_not] at hx ⊢
  exact hx.2

theorem callWith_complete (gf : FactsA c N Sup rank) (cgr : CallGraphResult) (target : FuncDesc)
    (htv : cgr.target = .func target.key) (hunsat : cgr.unsat = [])
    (hpar : ∀ v ∈ target.input.values, v.lab.vertex ∈ c.g.outs (.func target.key))
    (m : Nat) (hfuel : Termination.measure c.g [] ≤ m) (s0 : CallSt) (hs : SInv c N Sup s0) :
    (∃ res, (callWith c cgr target (m + 1) s0).1 = .ok res) ∨
    ((∃ ε, (callWith c cgr target (m + 1) s0).1 = .convErr ε) ∧ ¬ N) ∨
    ((∃ ε res, (callWith c cgr target (m + 1) s0).1 = .targetErr ε res) ∧ ¬ N) ∨
    (∃ w, (callWith c cgr target (m + 1) s0).1 = .badOracle w) := by
  obtain ⟨hE, hO⟩ := reach_step gf m [] target.key (fun x hx => by cases hx)
    (fun k' s' hP hs' => reach_all gf m [.func target.key] k' s' hP.1
      (fun x hx => by
        simp only [List.mem_singleton] at hx
        subst hx
        exact hP.2)
      (Nat.le_trans (measure_cons_le _ _ _) hfuel) hs') s0 hs
  unfold callWith
  rw [hunsat, htv]
  simp only [List.isEmpty_nil, Bool.not_true, Bool.false_eq_true, if_false]
  rcases hres : reach c false (m + 1) [] (.func target.key) s0 with ⟨e | am, s⟩
  · rw [hres] at hE
    rcases hE e rfl with ⟨w, rfl⟩ | ⟨⟨ε, rfl⟩, hne⟩
    · exact Or.inr (Or.inr (Or.inr ⟨w, rfl⟩))
    · exact Or.inr (Or.inl ⟨⟨ε, rfl⟩, hne⟩)
  · rw [hres] at hO
    obtain ⟨hA, hS, hcov⟩ := hO am rfl
    dsimp only at hS ⊢
    have hga : ∃ args, gatherArgs c.env target am = .ok args := by
      refine ⟨_, ExactWins.gatherArgs_ok _ _ _ ?_⟩
      intro v hv
      obtain ⟨a, ha⟩ := Option.isSome_iff_exists.1 (hcov _ (hpar v hv) (vertex_ne_root _))
      refine ⟨a, ha, ?_⟩
      have := hA _ _ ha
      rw [vertex_ty] at this
      exact this
    obtain ⟨r, unw, s2, hcd, _, hr2, _⟩ := callDirect_spec (Sup := Sup) gf.hN target am s hS hga
    rw [hcd]
    dsimp only
    cases hre : r.err with
    | some ε =>
      refine Or.inr (Or.inr (Or.inl ⟨⟨ε, r, rfl⟩, fun hne => ?_⟩))
      rw [hr2 hne] at hre; cases hre
    | none => exact Or.inl ⟨r, rfl⟩

end ArgMapper.CompleteAcyclic
