import ArgMapper.Model.Reach
import ArgMapper.Proofs.Dijkstra
import ArgMapper.Proofs.GraphSpecLemmas
/-!
# Helper lemmas for C07 (call-graph level), part 1

* what `discount` does to vertices, weights and well-formedness;
* `legalChoice` gives `LegalPops`;
* the shape of a predecessor chain whose last links are known.
-/
set_option linter.unusedSectionVars false
namespace ArgMapper.AffinityCG
open ArgMapper AGraph Dijkstra DijkstraProofs

section generic
variable {α : Type} [DecidableEq α]

/-! ### edges, `ins`, `outsW` -/

theorem hasEdge_iff_mem (g : AGraph α) (u v : α) :
    g.hasEdge u v = true ↔ ∃ w, (u, v, w) ∈ g.edges := by
  constructor
  · intro h
    obtain ⟨w, hw⟩ := hasEdge_iff_weight.1 h
    exact ⟨w, weight_some_mem hw⟩
  · rintro ⟨w, hw⟩
    exact hasEdge_of_mem hw

theorem mem_ins (g : AGraph α) (x v : α) : x ∈ g.ins v ↔ g.hasEdge x v = true := by
  rw [hasEdge_iff_mem]
  simp only [AGraph.ins, AGraph.insW, List.mem_map, List.mem_filter, decide_eq_true_eq]
  constructor
  · rintro ⟨p, ⟨⟨a, b, c⟩, ⟨he, h1⟩, rfl⟩, rfl⟩
    simp only at h1
    subst h1
    exact ⟨c, he⟩
  · rintro ⟨w, hw⟩
    exact ⟨(x, w), ⟨(x, v, w), ⟨hw, rfl⟩, rfl⟩, rfl⟩

theorem verts_of_hasEdge {g : AGraph α} (hwf : g.WF) {u v : α} (h : g.hasEdge u v = true) :
    u ∈ g.verts ∧ v ∈ g.verts := by
  obtain ⟨w, hw⟩ := (hasEdge_iff_mem g u v).1 h
  exact hwf.2.2 _ hw

/-- a vertex with exactly one out-edge -/
theorem outsW_single {g : AGraph α} (hwf : g.WF) {p v : α} {w : Int} (h : g.outsW p = [(v, w)]) :
    g.weight p v = some w ∧ ∀ x, g.hasEdge p x = true → x = v := by
  refine ⟨(weight_iff_outsW hwf).1 (by rw [h]; exact List.mem_singleton.2 rfl), ?_⟩
  intro x hx
  obtain ⟨w', hw'⟩ := hasEdge_iff_weight.1 hx
  have := (weight_iff_outsW hwf).2 hw'
  rw [h] at this
  simp only [List.mem_singleton, Prod.mk.injEq] at this
  exact this.1

theorem WF_reverse (g : AGraph α) (h : g.WF) : g.reverse.WF := by
  obtain ⟨h1, h2, h3⟩ := h
  refine ⟨h1, ?_, ?_⟩
  · have : (g.reverse.edges.map (fun e => (e.1, e.2.1))) =
        (g.edges.map (fun e => (e.1, e.2.1))).map (fun p => (p.2, p.1)) := by
      simp [AGraph.reverse, List.map_map, Function.comp_def]
    rw [this]
    refine List.Pairwise.map _ ?_ h2
    intro p q hpq heq
    apply hpq
    cases p; cases q
    simp only [Prod.mk.injEq] at heq ⊢
    exact ⟨heq.2, heq.1⟩
  · intro e he
    simp only [AGraph.reverse, List.mem_map] at he
    obtain ⟨e', he', rfl⟩ := he
    exact ⟨(h3 e' he').2, (h3 e' he').1⟩

/-! ### re-weighting every edge into one vertex, into a list of vertices -/

theorem foldl_addEdge_verts (raw : α) (w : Int) : ∀ (S : List α) (h : AGraph α),
    (S.foldl (fun g src => g.addEdge src raw w) h).verts = h.verts
  | [], _ => rfl
  | s :: S, h => by
    simp only [List.foldl_cons]
    rw [foldl_addEdge_verts raw w S]
    rfl

theorem foldl_addEdge_weight (raw : α) (w : Int) : ∀ (S : List α) (h : AGraph α) (x y : α),
    (S.foldl (fun g src => g.addEdge src raw w) h).weight x y =
      if y = raw ∧ x ∈ S then some w else h.weight x y
  | [], h, x, y => by simp
  | s :: S, h, x, y => by
    simp only [List.foldl_cons]
    rw [foldl_addEdge_weight raw w S, weight_addEdge]
    by_cases hy : y = raw <;> by_cases hx : x = s <;> by_cases hS : x ∈ S <;> simp [hy, hx, hS]

theorem foldl_addEdge_WF (raw : α) (w : Int) : ∀ (S : List α) (h : AGraph α), h.WF →
    (∀ s ∈ S, s ∈ h.verts ∧ raw ∈ h.verts) → (S.foldl (fun g src => g.addEdge src raw w) h).WF
  | [], _, hwf, _ => hwf
  | s :: S, h, hwf, hS => by
    simp only [List.foldl_cons]
    have hs := hS s (List.mem_cons_self ..)
    exact foldl_addEdge_WF raw w S _ (WF_addEdge h s raw w hwf hs.1 hs.2)
      (fun t ht => hS t (List.mem_cons_of_mem _ ht))

/-- `AddEdgeWeighted(src, raw, w)` for every in-neighbour `src` of `raw` -/
def reweightInto (w : Int) (h : AGraph α) (raw : α) : AGraph α :=
  (h.ins raw).foldl (fun g src => g.addEdge src raw w) h

theorem reweightInto_verts (w : Int) (h : AGraph α) (raw : α) :
    (reweightInto w h raw).verts = h.verts := foldl_addEdge_verts raw w _ h

theorem reweightInto_weight (w : Int) (h : AGraph α) (raw x y : α) :
    (reweightInto w h raw).weight x y =
      if y = raw ∧ h.hasEdge x y = true then some w else h.weight x y := by
  unfold reweightInto
  rw [foldl_addEdge_weight]
  by_cases hy : y = raw
  · subst hy
    simp only [true_and, mem_ins]
  · simp [hy]

theorem reweightInto_hasEdge (w : Int) (h : AGraph α) (raw x y : α) :
    (reweightInto w h raw).hasEdge x y = h.hasEdge x y := by
  unfold hasEdge
  rw [reweightInto_weight]
  split
  · rename_i hc
    have := hc.2
    unfold hasEdge at this
    simp [this]
  · rfl

theorem reweightInto_WF (w : Int) (h : AGraph α) (raw : α) (hwf : h.WF) :
    (reweightInto w h raw).WF := by
  refine foldl_addEdge_WF raw w _ h hwf ?_
  intro s hs
  exact verts_of_hasEdge hwf ((mem_ins h s raw).1 hs)

theorem foldl_reweight_verts (w : Int) : ∀ (L : List α) (h : AGraph α),
    (L.foldl (reweightInto w) h).verts = h.verts
  | [], _ => rfl
  | raw :: L, h => by
    simp only [List.foldl_cons]
    rw [foldl_reweight_verts w L, reweightInto_verts]

theorem foldl_reweight_WF (w : Int) : ∀ (L : List α) (h : AGraph α), h.WF →
    (L.foldl (reweightInto w) h).WF
  | [], _, hwf => hwf
  | raw :: L, h, hwf => by
    simp only [List.foldl_cons]
    exact foldl_reweight_WF w L _ (reweightInto_WF w h raw hwf)

theorem foldl_reweight_weight (w : Int) : ∀ (L : List α) (h : AGraph α) (x y : α),
    (L.foldl (reweightInto w) h).weight x y =
      if y ∈ L ∧ h.hasEdge x y = true then some w else h.weight x y
  | [], h, x, y => by simp
  | raw :: L, h, x, y => by
    simp only [List.foldl_cons]
    rw [foldl_reweight_weight w L, reweightInto_hasEdge, reweightInto_weight]
    by_cases hy : y = raw
    · subst hy
      by_cases hL : y ∈ L <;> by_cases he : h.hasEdge x y = true <;> simp [hL, he]
    · by_cases hL : y ∈ L <;> by_cases he : h.hasEdge x y = true <;> simp [hy, hL, he]

/-! ### predecessor chains -/

omit [DecidableEq α] in
theorem pchain_drop {prev : α → Option α} : ∀ (l p : List α), PChain prev (l ++ p) → PChain prev p
  | [], _, h => h
  | [a], p, h => by
    cases p with
    | nil => trivial
    | cons b rest => exact h.2
  | a :: b :: l, p, h => pchain_drop (b :: l) p h.2

omit [DecidableEq α] in
/-- in a chain that starts at a vertex without predecessor, the element before `y` is `prev y` -/
theorem pchain_pred {prev : α → Option α} {l : List α} {y : α} {rest : List α}
    (hc : PChain prev (l ++ y :: rest))
    (hh : ∃ r0, (l ++ y :: rest).head? = some r0 ∧ prev r0 = none) :
    (prev y = none → l = []) ∧ (∀ x, prev y = some x → ∃ l', l = l' ++ [x]) := by
  rcases List.eq_nil_or_concat l with rfl | ⟨l', z, rfl⟩
  · obtain ⟨r0, h1, h2⟩ := hh
    simp only [List.nil_append, List.head?_cons, Option.some.injEq] at h1
    subst h1
    refine ⟨fun _ => rfl, fun x hx => ?_⟩
    rw [h2] at hx; cases hx
  · have h2 : PChain prev (z :: y :: rest) := by
      apply pchain_drop l'
      simpa using hc
    have hz : prev y = some z := h2.1
    refine ⟨fun hn => ?_, fun x hx => ?_⟩
    · rw [hn] at hz; cases hz
    · rw [hx] at hz; cases hz
      exact ⟨l', by simp⟩

omit [DecidableEq α] in
/-- a chain through `a` whose predecessors are `u`, then `r`, then nothing -/
theorem pchain_three {prev : α → Option α} {p l rest : List α} {r u a : α}
    (hp : p = l ++ a :: rest) (hc : PChain prev p)
    (hh : ∃ r0, p.head? = some r0 ∧ prev r0 = none)
    (ha : prev a = some u) (hu : prev u = some r) (hr : prev r = none) :
    p = r :: u :: a :: rest := by
  subst hp
  obtain ⟨l1, rfl⟩ := (pchain_pred hc hh).2 u ha
  have e1 : l1 ++ [u] ++ a :: rest = l1 ++ u :: a :: rest := by simp
  rw [e1] at hc hh ⊢
  obtain ⟨l2, rfl⟩ := (pchain_pred hc hh).2 r hu
  have e2 : l2 ++ [r] ++ u :: a :: rest = l2 ++ r :: u :: a :: rest := by simp
  rw [e2] at hc hh ⊢
  have := (pchain_pred hc hh).1 hr
  subst this
  rfl

omit [DecidableEq α] in
/-- a chain through `o` whose predecessors are `f`, `u`, `r`, then nothing -/
theorem pchain_four {prev : α → Option α} {p l rest : List α} {r u f o : α}
    (hp : p = l ++ o :: rest) (hc : PChain prev p)
    (hh : ∃ r0, p.head? = some r0 ∧ prev r0 = none)
    (ho : prev o = some f) (hf : prev f = some u) (hu : prev u = some r) (hr : prev r = none) :
    p = r :: u :: f :: o :: rest := by
  subst hp
  obtain ⟨l1, rfl⟩ := (pchain_pred hc hh).2 f ho
  have e1 : l1 ++ [f] ++ o :: rest = l1 ++ f :: (o :: rest) := by simp
  rw [e1] at hc hh ⊢
  exact pchain_three rfl hc hh hf hu hr

end generic

/-! ### `discount` -/

theorem discount_eq (g : AGraph Vtx) (n : String) (S : Nat) (sc : String) :
    discount g (.value n S sc) =
      (g.verts.filter (fun v => v.isValue && v.name == n)).foldl
        (reweightInto Generated.weightMatchingName) g := rfl

theorem discount_verts (g : AGraph Vtx) (cur : Vtx) : (discount g cur).verts = g.verts := by
  cases cur with
  | value n S sc => rw [discount_eq, foldl_reweight_verts]
  | _ => rfl

theorem discount_WF (g : AGraph Vtx) (cur : Vtx) (hwf : g.WF) : (discount g cur).WF := by
  cases cur with
  | value n S sc => rw [discount_eq]; exact foldl_reweight_WF _ _ _ hwf
  | _ => exact hwf

theorem discount_weight (g : AGraph Vtx) (hwf : g.WF) (n : String) (S : Nat) (sc : String) (x y : Vtx) :
    (discount g (.value n S sc)).weight x y =
      if (y.isValue = true ∧ y.name = n) ∧ g.hasEdge x y = true then some Generated.weightMatchingName
      else g.weight x y := by
  rw [discount_eq, foldl_reweight_weight]
  by_cases he : g.hasEdge x y = true
  · have hy := (verts_of_hasEdge hwf he).2
    simp [he, hy]
  · simp [he]

/-- the graph Dijkstra runs on -/
theorem G_weight (g : AGraph Vtx) (hwf : g.WF) (n : String) (S : Nat) (sc : String) (x y : Vtx) :
    (discount g (.value n S sc)).reverse.weight x y =
      if (x.isValue = true ∧ x.name = n) ∧ g.hasEdge y x = true then some Generated.weightMatchingName
      else g.weight y x := by
  rw [weight_reverse, discount_weight g hwf]

theorem G_WF (g : AGraph Vtx) (hwf : g.WF) (cur : Vtx) : (discount g cur).reverse.WF :=
  WF_reverse _ (discount_WF g cur hwf)

theorem G_verts (g : AGraph Vtx) (cur : Vtx) : (discount g cur).reverse.verts = g.verts :=
  discount_verts g cur

theorem legalPops_of_legalChoice {g : AGraph Vtx} {cur : Vtx} {pops : List Vtx}
    (h : legalChoice g cur pops = true) : LegalPops (discount g cur).reverse Vtx.root pops := by
  simp only [legalChoice, Bool.and_eq_true, decide_eq_true_eq, List.all_eq_true] at h
  exact ⟨h.1.1, h.1.2, fun v hv => h.2 v hv⟩

/-- the chosen path is a predecessor chain that starts at a vertex without predecessor -/
theorem choosePath_chain (g : AGraph Vtx) (cur : Vtx) (pops : List Vtx) (hnd : pops.Nodup) :
    PChain (run (discount g cur).reverse Vtx.root pops).prev (choosePath g cur pops) ∧
    (choosePath g cur pops).getLast? = some cur ∧
    ∃ r0, (choosePath g cur pops).head? = some r0 ∧
      (run (discount g cur).reverse Vtx.root pops).prev r0 = none := by
  obtain ⟨h1, _, h3, h4⟩ := tree_aux (discount g cur).reverse Vtx.root pops hnd cur
  exact ⟨h1, h3, h4⟩

end ArgMapper.AffinityCG
