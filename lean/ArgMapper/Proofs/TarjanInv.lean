import ArgMapper.Proofs.TarjanBasic
/-!
# Tarjan's SCC algorithm: the invariant

`Inv g gr a` is the usual invariant of the algorithm relative to the (implicit) list `gr` of "gray"
vertices, i.e. the vertices whose `visit` call is still running.  `Ext a a'` says that `a'` is a later
state than `a`.  `Pre`/`Post` form the contract of `sccVisit`.
-/
namespace ArgMapper
namespace Tarjan
open AGraph Traverse TraverseReach
set_option linter.unusedSectionVars false
variable {α : Type} [DecidableEq α]

structure Inv (g : AGraph α) (gr : List α) (a : SccAcct α) : Prop where
  next_pos : 1 ≤ a.next
  idx_lt : ∀ x, idxOf a x < a.next
  vis_verts : ∀ x, idxOf a x ≠ 0 → x ∈ g.verts
  vis_iff : ∀ x, idxOf a x ≠ 0 ↔ (x ∈ a.stack ∨ x ∈ a.scc.flatten)
  disj : ∀ x, x ∈ a.stack → x ∉ a.scc.flatten
  scc_nodup : a.scc.flatten.Nodup
  sorted : a.stack.Pairwise (fun p q => idxOf a q < idxOf a p)
  gray_stack : ∀ x ∈ gr, x ∈ a.stack
  closed : ∀ x y, g.hasEdge x y = true → idxOf a x ≠ 0 → x ∉ gr → idxOf a y ≠ 0
  gray_reach : ∀ x ∈ gr, ∀ y ∈ a.stack, idxOf a x ≤ idxOf a y → Reach g x y
  stack_reach : ∀ y ∈ a.stack, ∃ x ∈ gr, idxOf a x ≤ idxOf a y ∧ Reach g y x
  scc_ok : ∀ c ∈ a.scc, c ≠ [] ∧ ∀ u ∈ c, ∀ v, v ∈ c ↔ (Reach g u v ∧ Reach g v u)

theorem Inv.stack_vis {g : AGraph α} {gr : List α} {a : SccAcct α} (h : Inv g gr a) {x : α}
    (hx : x ∈ a.stack) : idxOf a x ≠ 0 := (h.vis_iff x).mpr (Or.inl hx)

theorem Inv.stack_nodup {g : AGraph α} {gr : List α} {a : SccAcct α} (h : Inv g gr a) :
    a.stack.Nodup := by
  unfold List.Nodup
  exact h.sorted.imp (fun hlt heq => by subst heq; omega)

structure Ext (a a' : SccAcct α) : Prop where
  stack : ∃ s, a'.stack = s ++ a.stack
  idx_pres : ∀ y, idxOf a y ≠ 0 → idxOf a' y = idxOf a y
  idx_new : ∀ y, idxOf a y = 0 → idxOf a' y ≠ 0 → a.next ≤ idxOf a' y
  next_le : a.next ≤ a'.next
  scc : ∃ cs, a'.scc = a.scc ++ cs

theorem Ext.refl (a : SccAcct α) : Ext a a :=
  ⟨⟨[], by simp⟩, fun _ _ => rfl, fun _ h h' => absurd h h', Nat.le_refl _, ⟨[], by simp⟩⟩

theorem Ext.vis {a a' : SccAcct α} (h : Ext a a') {y : α} (hy : idxOf a y ≠ 0) : idxOf a' y ≠ 0 := by
  rw [h.idx_pres y hy]; exact hy

theorem Ext.trans {a a' a'' : SccAcct α} (h1 : Ext a a') (h2 : Ext a' a'') : Ext a a'' := by
  refine ⟨?_, ?_, ?_, Nat.le_trans h1.next_le h2.next_le, ?_⟩
  · obtain ⟨s1, e1⟩ := h1.stack
    obtain ⟨s2, e2⟩ := h2.stack
    exact ⟨s2 ++ s1, by rw [e2, e1]; simp⟩
  · intro y hy
    rw [h2.idx_pres y (h1.vis hy), h1.idx_pres y hy]
  · intro y hy hy''
    by_cases hy' : idxOf a' y = 0
    · exact Nat.le_trans h1.next_le (h2.idx_new y hy' hy'')
    · rw [h2.idx_pres y hy']; exact h1.idx_new y hy hy'
  · obtain ⟨c1, e1⟩ := h1.scc
    obtain ⟨c2, e2⟩ := h2.scc
    exact ⟨c1 ++ c2, by rw [e2, e1]; simp⟩

theorem Ext.stack_mem {a a' : SccAcct α} (h : Ext a a') {y : α} (hy : y ∈ a.stack) : y ∈ a'.stack := by
  obtain ⟨s, e⟩ := h.stack
  rw [e]; exact List.mem_append_right _ hy

theorem Ext.whiteCount_le (g : AGraph α) {a a' : SccAcct α} (h : Ext a a') :
    whiteCount g a' ≤ whiteCount g a :=
  whiteCount_mono g (fun _ hx => h.vis hx)

/-- contract of `sccVisit g n v a`, relative to the gray vertices `gr` -/
structure Pre (g : AGraph α) (gr : List α) (n : Nat) (v : α) (a : SccAcct α) : Prop where
  inv : Inv g gr a
  vmem : v ∈ g.verts
  white : idxOf a v = 0
  access : ∀ y ∈ gr, Reach g y v
  fuel : whiteCount g a < n

structure Post (g : AGraph α) (gr : List α) (v : α) (a : SccAcct α) (r : SccAcct α × Nat) : Prop where
  inv : Inv g gr r.1
  ext : Ext a r.1
  vis : idxOf r.1 v = a.next
  le : r.2 ≤ a.next
  reach : r.2 < a.next → ∃ y ∈ r.1.stack, r.2 = idxOf r.1 y ∧ Reach g v y
  xedge : ∀ s, r.1.stack = s ++ a.stack → ∀ p ∈ s, ∀ y, g.hasEdge p y = true → y ∈ a.stack →
    r.2 ≤ idxOf r.1 y

/-! ## pushing the vertex -/

theorem idxOf_push_of_vis {v : α} {a : SccAcct α} (hw : idxOf a v = 0) {x : α} (hx : idxOf a x ≠ 0) :
    idxOf (push v a) x = idxOf a x := by
  rw [idxOf_push]
  have : x ≠ v := by rintro rfl; exact hx hw
  simp [this]

theorem idxOf_push_self (v : α) (a : SccAcct α) : idxOf (push v a) v = a.next := by
  rw [idxOf_push]; simp

theorem ext_push {a : SccAcct α} {v : α}
    (hw : idxOf a v = 0) : Ext a (push v a) := by
  refine ⟨⟨[v], by simp⟩, fun y hy => idxOf_push_of_vis hw hy, ?_, by simp, ⟨[], by simp⟩⟩
  intro y hy hy'
  rw [idxOf_push] at hy' ⊢
  by_cases h : y = v
  · simp [h]
  · simp [h] at hy'; exact absurd hy hy'

theorem inv_push {g : AGraph α} {gr : List α} {n : Nat} {v : α} {a : SccAcct α}
    (hp : Pre g gr n v a) : Inv g (v :: gr) (push v a) := by
  have hi := hp.inv
  have hw := hp.white
  have hvs : v ∉ a.stack := fun h => hi.stack_vis h hw
  have hpos := hi.next_pos
  have hstk : ∀ y ∈ a.stack, idxOf (push v a) y = idxOf a y :=
    fun y hy => idxOf_push_of_vis hw (hi.stack_vis hy)
  refine ⟨by simp, ?_, ?_, ?_, ?_, hi.scc_nodup, ?_, ?_, ?_, ?_, ?_, hi.scc_ok⟩
  · intro x
    have := hi.idx_lt x
    rw [idxOf_push]; split <;> simp <;> omega
  · intro x hx
    rw [idxOf_push] at hx
    by_cases h : x = v
    · rw [h]; exact hp.vmem
    · simp [h] at hx; exact hi.vis_verts x hx
  · intro x
    rw [idxOf_push]
    by_cases h : x = v
    · simp [h]; omega
    · simp only [h, if_false, push_stack, push_scc, List.mem_cons, false_or]; exact hi.vis_iff x
  · intro x hx
    simp only [push_stack, List.mem_cons, push_scc] at hx ⊢
    rcases hx with rfl | hx
    · intro hc; exact (hi.vis_iff x).mpr (Or.inr hc) hw
    · exact hi.disj x hx
  · simp only [push_stack, List.pairwise_cons]
    refine ⟨?_, ?_⟩
    · intro q hq
      rw [hstk q hq, idxOf_push_self]
      exact hi.idx_lt q
    · exact hi.sorted.imp_of_mem (fun {p q} hp' hq' h => by rw [hstk p hp', hstk q hq']; exact h)
  · intro x hx
    simp only [push_stack, List.mem_cons] at hx ⊢
    rcases hx with rfl | hx
    · exact Or.inl rfl
    · exact Or.inr (hi.gray_stack x hx)
  · intro x y he hx hxg
    simp only [List.mem_cons, not_or] at hxg
    rw [idxOf_push] at hx
    simp [hxg.1] at hx
    have := hi.closed x y he hx hxg.2
    rw [idxOf_push]
    by_cases h : y = v
    · simp [h]; omega
    · simp [h]; exact this
  · intro x hx y hy hle
    simp only [push_stack, List.mem_cons] at hx hy
    by_cases hxv : x = v
    · subst hxv
      rcases hy with rfl | hy
      · exact Reach.refl _
      · rw [idxOf_push_self, hstk y hy] at hle
        have := hi.idx_lt y
        omega
    · have hxg : x ∈ gr := by
        rcases hx with rfl | hx
        · exact absurd rfl hxv
        · exact hx
      rcases hy with rfl | hy
      · exact hp.access x hxg
      · rw [hstk x (hi.gray_stack x hxg), hstk y hy] at hle
        exact hi.gray_reach x hxg y hy hle
  · intro y hy
    simp only [push_stack, List.mem_cons] at hy
    rcases hy with rfl | hy
    · exact ⟨y, by simp, Nat.le_refl _, Reach.refl _⟩
    · obtain ⟨x, hxg, hle, hr⟩ := hi.stack_reach y hy
      refine ⟨x, by simp [hxg], ?_, hr⟩
      rw [hstk x (hi.gray_stack x hxg), hstk y hy]
      exact hle

end Tarjan
end ArgMapper
