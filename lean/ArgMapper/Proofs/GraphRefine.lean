import ArgMapper.Proofs.GraphOps
/-!
# Refinement proof for C19: the heap-of-maps model simulates the adjacency specification
-/
namespace ArgMapper
namespace GraphSpec
variable {α : Type} [DecidableEq α]
open AGraph GraphImpl

/-- a mutator on handle `k` only replaces the class of `k` -/
theorem step_setCls (s : SpecWorld α) (op : GOp α) (k : Nat)
    (hop : match op with
      | .add k' _ _ | .addow k' _ _ | .edge k' _ _ _ | .redge k' _ _ | .remove k' _ => k' = k
      | _ => False) :
    specStep s op = s ∨ ∃ c', specStep s op = s.setCls k c' := by
  cases op with
  | new => exact absurd hop id
  | copy k => exact absurd hop id
  | reverse k => exact absurd hop id
  | add k' v tag =>
    simp only at hop; subst hop
    by_cases hv : v ∈ (s.cls k').g.verts
    · left; simp [specStep, hv]
    · right; exact ⟨_, by simp only [specStep, hv, if_false]; rfl⟩
  | addow k' v tag =>
    simp only at hop; subst hop
    right; exact ⟨_, rfl⟩
  | edge k' u v w =>
    simp only at hop; subst hop
    right
    by_cases hp : u ∈ (s.cls k').g.verts ∧ v ∈ (s.cls k').g.verts
    · by_cases hf : (s.handle k').2 = true
      · exact ⟨_, by simp only [specStep, hp, hf, and_self, if_true]; rfl⟩
      · exact ⟨_, by simp only [specStep, hp, hf, and_self, if_true, if_false]; rfl⟩
    · exact ⟨_, by simp only [specStep, hp, if_false]; rfl⟩
  | redge k' u v =>
    simp only at hop; subst hop
    right
    by_cases hf : (s.handle k').2 = true
    · exact ⟨_, by simp only [specStep, hf, if_true]; rfl⟩
    · exact ⟨_, by simp only [specStep, hf, if_false]; rfl⟩
  | remove k' v =>
    simp only at hop; subst hop
    right; exact ⟨_, rfl⟩

theorem copy_indep (s : SpecWorld α) (h : Nat) (op : GOp α)
    (hop : match op with
      | .add k _ _ | .addow k _ _ | .edge k _ _ _ | .redge k _ _ | .remove k _ => k = s.handles.length
      | _ => False)
    (c : Nat) (hc : c < s.classes.length) :
    (specStep (specStep s (.copy h)) op).classes[c]? = s.classes[c]? := by
  have hne : ¬ s.classes.length = c := by omega
  have hk : ((specStep s (.copy h)).handle s.handles.length).1 = s.classes.length := by
    simp [specStep, SpecWorld.handle, List.getD_eq_getElem?_getD]
  have hbase : (specStep s (.copy h)).classes[c]? = s.classes[c]? := by
    simp [specStep, List.getElem?_append_left hc]
  rcases step_setCls (specStep s (.copy h)) op s.handles.length hop with e | ⟨c', e⟩
  · rw [e, hbase]
  · rw [e]
    simp only [SpecWorld.setCls, hk]
    rw [List.getElem?_set_ne hne, hbase]

/-! ### the simulation along a history -/

/-- the operation names an existing handle -/
def OpOk (s : SpecWorld α) : GOp α → Prop
  | .new => True
  | .add h _ _ | .addow h _ _ | .edge h _ _ _ | .redge h _ _ | .remove h _ | .copy h | .reverse h =>
    h < s.handles.length

def HOk : SpecWorld α → List (GOp α) → Prop
  | _, [] => True
  | s, op :: rest => OpOk s op ∧ HOk (specStep s op) rest

theorem sim_step {w : World α} {s : SpecWorld α} (hs : Sim w s) (op : GOp α) (hok : OpOk s op)
    (hn : NoPois (specStep s op)) : Sim (implStep true w op) (specStep s op) := by
  cases op with
  | new => exact sim_new hs
  | add h v tag =>
    obtain ⟨hs1, a, b, c, hgv, _⟩ := hs.init hok
    exact sim_addCore hs1 hok hgv v tag
  | addow h v tag =>
    obtain ⟨hs1, a, b, c, hgv, _⟩ := hs.init hok
    exact sim_addowCore hs1 hok hgv v tag
  | edge h u v wt =>
    obtain ⟨hs1, a, b, c, hgv, _⟩ := hs.init hok
    have hp := edge_present (hs.cok h hok) hn
    obtain ⟨w', w1, e, hsim⟩ := sim_edgeCore hs1 hok hgv u v wt hp
    simp only [implStep, edge_eq, e]
    exact hsim
  | redge h u v =>
    obtain ⟨hs1, a, b, c, hgv, _⟩ := hs.init hok
    exact sim_redgeCore hs1 hok hgv u v
  | remove h v => exact sim_remove hs hok v
  | copy h => exact sim_copy hs hok
  | reverse h => exact sim_reverse hs hok

theorem run_sim (ops : List (GOp α)) : ∀ {w : World α} {s : SpecWorld α}, Sim w s → HOk s ops →
    NoPois (ops.foldl specStep s) → Sim (ops.foldl (implStep true) w) (ops.foldl specStep s) := by
  induction ops with
  | nil => intro w s hs _ _; exact hs
  | cons op ops ih =>
    intro w s hs hok hn
    simp only [List.foldl_cons] at hn ⊢
    exact ih (sim_step hs op hok.1 (noPois_of_foldl ops hn)) hok.2 hn

/-! ### what the invariant says about observations -/

theorem view_verts (s : SpecWorld α) (h : Nat) : (s.view h).verts = (s.cls h).g.verts := by
  unfold SpecWorld.view
  split <;> rfl

theorem view_weight (s : SpecWorld α) (h : Nat) (u v : α) :
    (s.view h).weight u v = clsW (s.cls h) (s.handle h).2 u v := by
  unfold SpecWorld.view clsW
  cases (s.handle h).2
  · rfl
  · simp [weight_reverse]

theorem Sim.obs {w : World α} {s : SpecWorld α} (hs : Sim w s) {h : Nat} (hlt : h < s.handles.length) :
    (∀ v t, (v, t) ∈ vertices w h ↔ (v ∈ (s.view h).verts ∧ aget (s.cls h).tags v = some t)) ∧
    (akeys (vertices w h)).Nodup ∧
    (∀ u v wt, (v, wt) ∈ outEdges w h u ↔ (s.view h).weight u v = some wt) ∧
    (∀ u v wt, (u, wt) ∈ inEdges w h v ↔ (s.view h).weight u v = some wt) ∧
    (∀ v, v ∈ outKeys w h ↔ v ∈ (s.view h).verts) ∧
    (∀ v, v ∈ inKeys w h ↔ v ∈ (s.view h).verts) := by
  have hr := hs.rep h hlt
  refine ⟨?_, hr.hash.nd, ?_, ?_, ?_, ?_⟩
  · intro v t
    rw [view_verts]
    exact hr.hash.mem v t
  · intro u v wt
    rw [view_weight]
    exact hr.out.mem_edges u v wt
  · intro u v wt
    rw [view_weight]
    exact hr.inn.mem_edges v u wt
  · intro v
    rw [view_verts]
    unfold outKeys
    rw [mem_akeys_iff]
    exact hr.out.keys v
  · intro v
    rw [view_verts]
    unfold inKeys
    rw [mem_akeys_iff]
    exact hr.inn.keys v

theorem run_obs (ops : List (GOp α)) (hok : HOk SpecWorld.empty ops) (hn : NoPois (specRun ops)) :
    Sim (implRun true ops) (specRun ops) :=
  run_sim ops Sim.empty hok hn

end GraphSpec
end ArgMapper
