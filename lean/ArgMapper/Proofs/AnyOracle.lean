import ArgMapper.Proofs.CompleteLegalSingle
import ArgMapper.Proofs.AnyOracleClean
/-!
# After the repair of F22 the oracle need not be legal (helper lemmas for C05d)

In `C01.stdCtx` an R6 hop copies the value (`hopCopies := true`), so the walk invariant `WalkPanic.PInv` no
longer needs "every remaining oracle item is good" (`WalkPanic.ItemOK`, i.e. no path ends `…, value, value, arg`)
— which was the only thing the legality of the oracle was used for.
-/
set_option linter.unusedSectionVars false
set_option linter.unusedVariables false
namespace ArgMapper.AnyOracle
open ArgMapper WalkPanic CompleteLegal

section
variable {e : TypeEnv} {b : Builder} {funcs : Nat → Option FuncDesc} {target : FuncDesc}

/-- in the repaired context every oracle item is acceptable -/
theorem items_std (beh : Nat → Nat → List PVal → BehOut) (orc : List OrcItem) :
    ∀ it ∈ orc, (C01.stdCtx e b funcs target beh).hopCopies = true ∨
      WalkPanic.ItemOK (C01.stdCtx e b funcs target beh).g it :=
  fun _ _ => Or.inl rfl

/-- the two panic sites, every oracle -/
theorem panic_core (H : WalkPanic.Hyps e b funcs target) (beh : Nat → Nat → List PVal → BehOut)
    (fuel : Nat) (memo : List (Nat × Memo)) (orc : List OrcItem) :
    (callWith (C01.stdCtx e b funcs target beh) (callGraph {} e b funcs target false none) target fuel
      (initSt (callGraph {} e b funcs target false none).cg memo orc)).1 ≠ .panic .finalValue ∧
    (callWith (C01.stdCtx e b funcs target beh) (callGraph {} e b funcs target false none) target fuel
      (initSt (callGraph {} e b funcs target false none).cg memo orc)).1 ≠ .panic .setNotAssignable := by
  obtain ⟨h1, h2, _⟩ := WalkPanic.core_items' H beh False (fun h => h.elim) fuel memo orc (items_std beh orc)
  exact ⟨h1, h2⟩

/-- clause (a), full label language, every oracle -/
theorem single_core_any (H : WalkPanic.Hyps e b funcs target) (beh : Nat → Nat → List PVal → BehOut)
    (hsi : ∀ f ∈ b.convs.filterMap funcs, f.input.values.length ≤ 1)
    (hkey : ∀ f ∈ b.convs.filterMap funcs, f.key ≠ target.key)
    (hsat : (callGraph {} e b funcs target false none).unsat = [])
    (fuel : Nat)
    (hfuel : ((callGraph {} e b funcs target false none).cg.g.verts.filter Vtx.isFunc).length + 1 ≤ fuel)
    (memo : List (Nat × Memo)) (orc : List OrcItem) :
    let r := callWith (C01.stdCtx e b funcs target beh) (callGraph {} e b funcs target false none) target fuel
              (initSt (callGraph {} e b funcs target false none).cg memo orc)
    (∃ res, r.1 = .ok res) ∨ (∃ ε, r.1 = .convErr ε) ∨ (∃ ε res, r.1 = .targetErr ε res) ∨ (∃ w, r.1 = .badOracle w) := by
  have hreqs := WalkPanic.reqs_of_kept H beh hsat (WalkPanic.paramsKept_of_single H hsi)
  obtain ⟨m, rfl⟩ : ∃ m, fuel = m + 1 := ⟨fuel - 1, by omega⟩
  refine finish' H beh hsat hreqs (m + 1) hfuel memo orc (items_std beh orc) ?_
  intro a h
  have gf := WalkPanic.facts_std H beh True (fun _ => hreqs)
  have sf := sfacts_std H hsi hkey beh
  exact single_reach_top gf sf m _ ⟨WalkPanic.initSt_sinv H beh memo orc, items_std beh orc⟩ _ h ⟨a, rfl⟩

/-- … and when no body reports an error and the memo table is empty, the call succeeds unless the oracle does
not fit -/
theorem stable_core (H : WalkPanic.Hyps e b funcs target) (beh : Nat → Nat → List PVal → BehOut)
    (hne : ∀ f n a, (beh f n a).err = none)
    (hsi : ∀ f ∈ b.convs.filterMap funcs, f.input.values.length ≤ 1)
    (hkey : ∀ f ∈ b.convs.filterMap funcs, f.key ≠ target.key)
    (hsat : (callGraph {} e b funcs target false none).unsat = [])
    (fuel : Nat)
    (hfuel : ((callGraph {} e b funcs target false none).cg.g.verts.filter Vtx.isFunc).length + 1 ≤ fuel)
    (orc : List OrcItem)
    (hb : ∀ w, (callWith (C01.stdCtx e b funcs target beh) (callGraph {} e b funcs target false none) target fuel
              (initSt (callGraph {} e b funcs target false none).cg [] orc)).1 ≠ .badOracle w) :
    ∃ res, (callWith (C01.stdCtx e b funcs target beh) (callGraph {} e b funcs target false none) target fuel
              (initSt (callGraph {} e b funcs target false none).cg [] orc)).1 = .ok res := by
  have hclean : AnyOracleClean.Clean (initSt (callGraph {} e b funcs target false none).cg [] orc) :=
    fun p hp => by cases hp
  obtain ⟨hc1, hc2⟩ := AnyOracleClean.callWith_no_func_err (c := C01.stdCtx e b funcs target beh)
    (fun f n a => hne f n a) (callGraph {} e b funcs target false none) target fuel _ hclean
  rcases single_core_any H beh hsi hkey hsat fuel hfuel [] orc with h | ⟨ε, h⟩ | ⟨ε, r, h⟩ | ⟨w, h⟩
  · exact h
  · exact absurd h (hc1 ε)
  · exact absurd h (hc2 ε r)
  · exact absurd h (hb w)

end

end ArgMapper.AnyOracle
