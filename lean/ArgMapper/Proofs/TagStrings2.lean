import ArgMapper.Model.Sig
import ArgMapper.Proofs.TagStrings
import ArgMapper.Proofs.StrEval
import Batteries.Data.Char.AsciiCasing
/-!
# The struct-tag round trip (`valueField` then `fieldLabel`)

String-level consequences of `TagStrings.splitOn_char` (splitting at a character that does not occur,
splitting `p ++ sep ++ q`, `intercalate` after `splitOn` is the identity), the evaluation of `splitOpt` and
`parseTag` on the three non-empty tag shapes `valueField` renders, and `lower (upper s) = lower s`.
-/
set_option linter.unusedSimpArgs false
namespace ArgMapper.TagStrings
open String ArgMapper

theorem comma_eq : "," = ','.toString := by decide
theorem eq_eq : "=" = '='.toString := by decide

theorem splitChars_not_mem (sep : Char) (p : List Char) (h : sep ∉ p) : splitChars sep p = [p] := by
  induction p with
  | nil => rfl
  | cons c p ih =>
    simp only [List.mem_cons, not_or] at h
    rw [splitChars_cons_ne _ _ _ (fun e => h.1 e.symm), ih h.2]
    rfl

theorem splitChars_append_sep (sep : Char) (p q : List Char) (h : sep ∉ p) :
    splitChars sep (p ++ sep :: q) = p :: splitChars sep q := by
  induction p with
  | nil => exact splitChars_cons_eq sep q
  | cons c p ih =>
    simp only [List.mem_cons, not_or] at h
    rw [List.cons_append, splitChars_cons_ne _ _ _ (fun e => h.1 e.symm), ih h.2]
    rfl

theorem splitOn_not_mem (s : String) (sep : Char) (h : sep ∉ s.toList) : s.splitOn sep.toString = [s] := by
  rw [splitOn_char, splitChars_not_mem _ _ h]
  simp

theorem splitOn_append_sep (p q : String) (sep : Char) (h : sep ∉ p.toList) :
    (p ++ sep.toString ++ q).splitOn sep.toString = p :: q.splitOn sep.toString := by
  rw [splitOn_char, splitOn_char, String.toList_append, String.toList_append, toString_ofList, String.toList_ofList,
    List.append_assoc, List.singleton_append, splitChars_append_sep _ _ _ h]
  simp

theorem intercalate_splitChars (sep : Char) (cs : List Char) :
    sep.toString.intercalate ((splitChars sep cs).map String.ofList) = String.ofList cs := by
  induction cs with
  | nil => simp [splitChars]
  | cons c cs ih =>
    by_cases hc : c = sep
    · subst hc
      rw [splitChars_cons_eq, List.map_cons, String.intercalate_cons_of_ne_nil (by simpa using splitChars_ne_nil c cs), ih,
        toString_ofList]
      simp
    · rw [splitChars_cons_ne _ _ _ hc]
      cases hs : splitChars sep cs with
      | nil => exact absurd hs (splitChars_ne_nil _ _)
      | cons p ps =>
        rw [hs] at ih
        simp only [prependFirst, List.map_cons, List.singleton_append]
        rw [show String.ofList (c :: p) = String.ofList [c] ++ String.ofList p by simp,
          String.intercalate_cons_append]
        rw [List.map_cons] at ih
        rw [ih]
        simp

theorem intercalate_splitOn (s : String) (sep : Char) : sep.toString.intercalate (s.splitOn sep.toString) = s := by
  rw [splitOn_char, intercalate_splitChars, String.ofList_toList]

theorem splitOpt_typeOnly : splitOpt "typeOnly" = ("typeOnly", "") := by
  rw [splitOpt_eq_C]; decide +kernel

theorem splitOpt_subtype (sub : String) : splitOpt ("subtype=" ++ sub) = ("subtype", sub) := by
  unfold splitOpt
  have h : "subtype=" ++ sub = "subtype" ++ '='.toString ++ sub := by
    rw [show "subtype=" = "subtype" ++ '='.toString by decide]
  rw [eq_eq, h, splitOn_append_sep _ _ _ (by decide)]
  cases hs : sub.splitOn '='.toString with
  | nil =>
    rw [splitOn_char] at hs
    simp only [List.map_eq_nil_iff] at hs
    exact absurd hs (splitChars_ne_nil _ _)
  | cons a as =>
    simp only
    rw [← hs, intercalate_splitOn]

theorem parseTag_sub (sub : String) (h : ',' ∉ sub.toList) :
    parseTag (",".intercalate ["", "subtype=" ++ sub]) = ⟨"", false, sub⟩ := by
  have hn : ',' ∉ ("subtype=" ++ sub).toList := by
    rw [String.toList_append]; simp only [List.mem_append, not_or]; exact ⟨by decide, h⟩
  unfold parseTag
  rw [String.intercalate_cons_cons, String.intercalate_singleton]
  rw [if_neg (by simp)]
  rw [comma_eq, splitOn_append_sep _ _ _ (by decide), splitOn_not_mem _ _ hn]
  simp [splitOpt_subtype]

theorem parseTag_typeOnly_sub (sub : String) (h : ',' ∉ sub.toList) :
    parseTag (",".intercalate ["", "typeOnly", "subtype=" ++ sub]) = ⟨"", true, sub⟩ := by
  have hn : ',' ∉ ("subtype=" ++ sub).toList := by
    rw [String.toList_append]; simp only [List.mem_append, not_or]; exact ⟨by decide, h⟩
  unfold parseTag
  rw [String.intercalate_cons_cons, String.intercalate_cons_cons, String.intercalate_singleton]
  rw [if_neg (by simp)]
  rw [comma_eq, splitOn_append_sep _ _ _ (by decide), splitOn_append_sep _ _ _ (by decide), splitOn_not_mem _ _ hn]
  simp [splitOpt_subtype, splitOpt_typeOnly]

theorem lower_upper (s : String) : lower (upper s) = lower s := by
  unfold lower upper
  rw [String.map_map]
  congr 1
  funext c
  exact Char.toLower_toUpper_eq_toLower c

theorem upper_eq_empty {s : String} : upper s = "" ↔ s = "" := String.map_eq_empty

theorem parseTag_empty : parseTag "" = ⟨"", false, ""⟩ := by
  unfold parseTag; rw [if_pos rfl]

theorem lower_empty : lower "" = "" := String.map_eq_empty.2 rfl

theorem tag_roundtrip (i : Nat) (l : Label) (h : ',' ∉ l.sub.toList) :
    fieldLabel (valueField i l) = { l with name := lower l.name } := by
  obtain ⟨name, ty, sub⟩ := l
  simp only at h
  unfold fieldLabel valueField
  by_cases hn : name = "" <;> by_cases hs : sub = ""
  · subst hn; subst hs
    simp only [if_true, if_false, ne_eq, not_true_eq_false, not_false_eq_true, List.append_nil,
      List.singleton_append, List.cons_append, List.nil_append]
    rw [show ",".intercalate ["", "typeOnly"] = ",typeOnly" by decide, parseTag_typeOnly]
    simp [lower_empty]
  · subst hn
    simp only [hs, if_true, if_false, ne_eq, not_true_eq_false, not_false_eq_true, List.append_nil,
      List.singleton_append, List.cons_append, List.nil_append]
    rw [parseTag_typeOnly_sub sub h]
    simp [lower_empty]
  · subst hs
    simp only [hn, if_true, if_false, ne_eq, not_true_eq_false, not_false_eq_true, List.append_nil,
      List.singleton_append, List.cons_append, List.nil_append]
    rw [String.intercalate_singleton, parseTag_empty]
    simp [lower_upper]
  · simp only [hn, hs, if_true, if_false, ne_eq, not_true_eq_false, not_false_eq_true, List.append_nil,
      List.singleton_append, List.cons_append, List.nil_append]
    rw [parseTag_sub sub h]
    simp [lower_upper]

theorem subtypeOK_no_comma (s : String) (h : subtypeOK s = true) : ',' ∉ s.toList := by
  unfold subtypeOK String.any at h
  rw [String.contains_bool_eq] at h
  intro hm
  simp only [Bool.not_eq_true', List.any_eq_false] at h
  have := h ',' hm
  simp at this

end ArgMapper.TagStrings
