import ArgMapper.Proofs.Complete
import ArgMapper.Proofs.Prune
import ArgMapper.Proofs.Refused
/-!
# The `Call` graph of a subtype-free scenario satisfies `Complete.Facts` (helper lemmas for C05, static part)

* `callGraph_noSubV`: no value vertex of the graph carries a subtype (carried through the construction);
* `pre_func_root`: an edge `func k → root` was created for a function of key `k` without inputs;
* the remaining facts are read off the weighted edge characterisation `ExactWins.WRule` and the edge
  predicate `CGF.EdgeP`.
-/
set_option linter.unusedSectionVars false
set_option linter.unusedVariables false
namespace ArgMapper.Complete
open ArgMapper Generated

/-! ### no value vertex carries a subtype -/

def NoSubV (v : Vtx) : Prop := v.isValue = true → v.sub = ""

/-- every vertex satisfies `NoSubV` -/
def VK (c : CG) : Prop := ∀ v ∈ c.g.verts, NoSubV v

theorem vk_add {c : CG} (v : Vtx) (h : VK c) (hv : NoSubV v) : VK (c.add v) := by
  intro x hx
  have hx' : x ∈ (c.g.add v).verts := hx
  rcases (AGraph.mem_add_verts _ _ _).1 hx' with h' | h'
  · exact h x h'
  · subst h'; exact hv

theorem vk_edge {c : CG} (u v : Vtx) (w : Int) (h : VK c) : VK (c.edge u v w) := h

theorem vk_addValued {c : CG} (v : Vtx) (x : Val) (h : VK c) (hv : NoSubV v) : VK (c.addValued v x) := by
  intro y hy
  have hy' : y ∈ (c.g.add v).verts := hy
  rcases (AGraph.mem_add_verts _ _ _).1 hy' with h' | h'
  · exact h y h'
  · subst h'; exact hv

theorem noSubV_func (k : Nat) : NoSubV (.func k) := fun h => by cases h
theorem noSubV_out (t : Nat) (s : String) : NoSubV (.out t s) := fun h => by cases h
theorem noSubV_arg (t : Nat) (s : String) : NoSubV (.arg t s) := fun h => by cases h

theorem vk_funcGraph {c : CG} (f : FuncDesc) (io : Bool) (h : VK c)
    (hin : ∀ val ∈ f.input.values, val.lab.sub = "")
    (hout : io = true → ∀ p ∈ f.output.named, p.2.lab.sub = "") : VK (funcGraph c f io) := by
  unfold funcGraph
  dsimp only
  have h1 : VK (c.add (Vtx.func f.key)) := vk_add _ h (noSubV_func _)
  have h2 : VK (if f.input.empty = true then (c.add (Vtx.func f.key)).edge (Vtx.func f.key) .root weightNormal
      else c.add (Vtx.func f.key)) := by
    split
    · exact vk_edge _ _ _ h1
    · exact h1
  have h3 := CGE.foldl_inv VK (fun val => val ∈ f.input.values) (fun (c : CG) (val : SVal) =>
      if val.lab.name ≠ "" then
        (c.add (.value val.lab.name val.lab.ty val.lab.sub)).edge (Vtx.func f.key)
          (.value val.lab.name val.lab.ty val.lab.sub) weightNormal
      else
        (c.add (.arg val.lab.ty val.lab.sub)).edge (Vtx.func f.key) (.arg val.lab.ty val.lab.sub) weightTyped)
    (by
      intro c val hval hc
      split
      · exact vk_edge _ _ _ (vk_add _ hc (fun _ => hin val hval))
      · exact vk_edge _ _ _ (vk_add _ hc (noSubV_arg _ _)))
    f.input.values _ (fun _ hx => hx) h2
  split
  · exact h3
  · next hio =>
    have hio' : io = true := by simpa using hio
    apply CGE.foldl_inv' VK
    · intro c p hc
      exact vk_edge _ _ _ (vk_add _ hc (noSubV_out _ _))
    · apply CGE.foldl_inv VK (fun p => p ∈ f.output.named)
      · intro c p hp hc
        exact vk_edge _ _ _ (vk_add _ hc (fun _ => hout hio' p hp))
      · exact fun _ hx => hx
      · exact h3

theorem vk_inputsCG (c : CG) (b : Builder) (h : VK c) (hin : ∀ u ∈ Prune.inputsList b, NoSubV u) :
    VK (Prune.inputsCG c b) := by
  rw [Prune.inputsCG_eq]
  rw [Prune.inputsList_eq] at hin
  apply CGE.foldl_inv VK (fun vx => vx ∈ Prune.inputsPairs b)
  · intro c vx hvx hc
    exact vk_edge _ _ _ (vk_addValued _ _ hc (hin _ (List.mem_map.2 ⟨vx, hvx, rfl⟩)))
  · exact fun _ hx => hx
  · exact h

theorem vk_phaseR3 {c : CG} (h : VK c) : VK (phaseR3 c) := by
  unfold phaseR3
  apply CGE.foldl_inv' VK
  · intro c v hc
    dsimp only
    have h2 : VK ((((c.add (.out v.ty "")).edge v (.out v.ty "") weightTyped).add (.arg v.ty "")).edge
        (.arg v.ty "") v weightTyped) :=
      vk_edge _ _ _ (vk_add _ (vk_edge _ _ _ (vk_add _ hc (noSubV_out _ _))) (noSubV_arg _ _))
    split
    · exact vk_edge _ _ _ (vk_add _ h2 (noSubV_arg _ _))
    · exact h2
  · exact h

theorem vk_phaseR4 {c : CG} (h : VK c) : VK (phaseR4 c) := by
  unfold phaseR4
  apply CGE.foldl_inv' VK
  · intro c v hc; exact vk_edge _ _ _ (vk_add _ hc (noSubV_out _ _))
  · exact h

theorem vk_nested {c : CG} (p : Vtx → Bool) (q : Vtx → Vtx → Bool) (w : Int) (h : VK c) :
    VK ((c.g.verts.filter p).foldl (fun c v =>
      (c.g.verts.filter (q v)).foldl (fun c v2 => c.edge v v2 w) c) c) := by
  apply CGE.foldl_inv' VK
  · intro c v hc
    apply CGE.foldl_inv' VK
    · intro c v2 hc; exact hc
    · exact hc
  · exact h

theorem vk_phaseR5 {e : TypeEnv} {sk : Bool} {c : CG} (h : VK c) : VK (phaseR5 e sk c) := by
  unfold phaseR5
  exact vk_nested _ (fun v v2 => v2.isOut && decide (v2 ≠ v) && e.impl v2.ty v.ty && !(sk && v2.ty == v.ty)) _ h

theorem vk_phaseR6 {nt : Bool} {c : CG} (h : VK c) : VK (phaseR6 nt c) := by
  unfold phaseR6
  exact vk_nested _ (fun v v2 => v2.isValue && v2.ty == v.ty && v2.sub != "" && !(nt && v2.name != v.name)) _ h

theorem vk_phaseR7 {c : CG} (h : VK c) : VK (phaseR7 c) := by
  unfold phaseR7
  dsimp only
  exact vk_nested _ (fun v v2 => v2.isOut && v2.ty == v.ty && v2.sub == "") _
    (vk_nested _ (fun v v2 => v2.isOut && v2.ty == v.ty && v2.sub != "") _ h)

theorem vk_prune {c : CG} (t : Vtx) (h : VK c) : VK (prune c t) := by
  intro v hv
  exact h v ((Prune.mem_prune_verts _ _ _).1 hv).1

section
variable (e : TypeEnv) (b : Builder) (funcs : Nat → Option FuncDesc) (target : FuncDesc)

/-- no value vertex of a subtype-free `Call` graph carries a subtype -/
theorem callGraph_noSubV (hns : b.namedSub = [])
    (hlab : ∀ f ∈ C01.allFuncs b funcs target,
      (∀ l ∈ f.input.labels, l.sub = "") ∧ (∀ p ∈ f.output.named, p.2.lab.sub = "")) :
    VK (callGraph {} e b funcs target false none).cg := by
  rw [Prune.callGraph_eq]
  dsimp only
  apply vk_prune
  unfold Prune.pre
  apply vk_phaseR7
  apply vk_phaseR6
  apply vk_phaseR5
  apply vk_phaseR4
  apply vk_phaseR3
  refine CGE.foldl_inv VK (fun fid => fid ∈ b.convs) (Prune.convStep funcs) ?_ _ _ (fun _ hx => hx) ?_
  · intro c fid hfid hc
    unfold Prune.convStep
    split
    · next f hf =>
      have hmem : f ∈ C01.allFuncs b funcs target :=
        List.mem_cons_of_mem _ (List.mem_filterMap.2 ⟨fid, hfid, hf⟩)
      exact vk_funcGraph _ _ hc
        (fun val hval => (hlab f hmem).1 _ (List.mem_map.2 ⟨val, hval, rfl⟩)) (fun _ => (hlab f hmem).2)
    · exact hc
  · refine vk_inputsCG _ _ ?_ ?_
    · unfold Prune.base
      refine vk_funcGraph _ _ ?_
        (fun val hval => (hlab target (by simp [C01.allFuncs])).1 _ (List.mem_map.2 ⟨val, hval, rfl⟩))
        (fun h => by cases h)
      apply vk_add _ _ (fun h => by cases h)
      intro v hv
      simp [CG.empty, AGraph.empty] at hv
    · intro u hu
      simp only [Prune.inputsList, hns, List.map_nil, List.append_nil, List.mem_append, List.mem_map] at hu
      rcases hu with (⟨p, _, rfl⟩ | ⟨p, _, rfl⟩) | ⟨p, _, rfl⟩
      · exact fun _ => rfl
      · exact noSubV_out _ _
      · exact noSubV_out _ _

/-! ### edges from a function vertex to the root -/

/-- an edge `func k → root` comes from a function of key `k` without inputs -/
theorem pre_func_root (k : Nat) (h : (Prune.pre e b funcs target).g.hasEdge (.func k) .root = true) :
    ∃ f ∈ C01.allFuncs b funcs target, f.key = k ∧ f.input.empty = true := by
  let R : Vtx → Vtx → Prop := fun u v =>
    v = Vtx.root → ∀ k, u = Vtx.func k → ∃ f ∈ C01.allFuncs b funcs target, f.key = k ∧ f.input.empty = true
  have hd : ∀ u v, v.isData = true → R u v := by
    intro u v hv hr
    subst hr
    cases hv
  have hvert : ∀ u (l : Label), R u l.vertex := fun u l hr => absurd hr (vertex_ne_root l)
  have hfn : ∀ u k, R u (.func k) := fun u k hr => by cases hr
  have e0 : Prune.Ext R (CG.empty.add .root) (Prune.base target) :=
    Prune.ext_base target
      (fun he _ k hk => by cases hk; exact ⟨target, by simp [C01.allFuncs], rfl, he⟩)
      (fun val _ => hvert _ _)
  have e1 : Prune.Ext R (CG.empty.add .root) (Prune.inputsCG (Prune.base target) b) :=
    e0.trans (Prune.ext_inputsCG _ b (e0.verts Prune.root_mem_init) (by
      intro u hu _ k hk
      subst hk
      have := Prune.inputsList_isOrigin b _ hu
      cases this))
  have hroot1 := e1.verts Prune.root_mem_init
  have e2 : Prune.Ext R (Prune.inputsCG (Prune.base target) b)
      (b.convs.foldl (Prune.convStep funcs) (Prune.inputsCG (Prune.base target) b)) := by
    apply Prune.Ext.foldl' (R := R)
    intro c' fid hfid hc
    unfold Prune.convStep
    split
    · next f hf =>
      have hmem : f ∈ C01.allFuncs b funcs target :=
        List.mem_cons_of_mem _ (List.mem_filterMap.2 ⟨fid, hfid, hf⟩)
      exact Prune.ext_funcGraph c' f true (hc.verts hroot1)
        (fun he _ k hk => by cases hk; exact ⟨f, hmem, rfl, he⟩)
        (fun val _ => hvert _ _) (fun _ p _ => hfn _ _) (fun _ p _ => hfn _ _)
    · exact .refl _
  have hext : Prune.Ext R (CG.empty.add .root) (Prune.pre e b funcs target) := by
    unfold Prune.pre
    exact (((((e1.trans e2).trans (Prune.ext_phaseR3 _ hd)).trans (Prune.ext_phaseR4 _ hd)).trans
      (Prune.ext_phaseR5 e true _ hd)).trans (Prune.ext_phaseR6 true _ hd)).trans (Prune.ext_phaseR7 _ hd)
  rcases hext.edge_inv h with h' | h'
  · rw [Prune.init_no_edge] at h'; cases h'
  · exact h' rfl k rfl

end

/-! ### the hypotheses of C05 and what they give -/

/-- the hypotheses of `C05.complete_single` about the scenario (including the two well-formedness
conditions on the converters' value sets that the original statement lacked) -/
structure Hyps (e : TypeEnv) (b : Builder) (funcs : Nat → Option FuncDesc) (target : FuncDesc) : Prop where
  cons : C01.FuncsConsistent (C01.allFuncs b funcs target)
  nsub : b.namedSub = []
  tsub : b.typedSub = []
  labs : ∀ f ∈ C01.allFuncs b funcs target, (∀ l ∈ f.input.labels, l.sub = "") ∧ (∀ l ∈ f.output.labels, l.sub = "")
  single : ∀ f ∈ b.convs.filterMap funcs, f.input.values.length ≤ 1
  tkeys : ∀ p ∈ b.typed, p.1 = p.2.ty
  key : ∀ f ∈ b.convs.filterMap funcs, f.key ≠ target.key
  wf : ∀ f ∈ b.convs.filterMap funcs,
    (f.output.named.map (·.1)).Nodup ∧ (f.input.hasStruct = false → f.input.values = [])

theorem find_key {A : List FuncDesc} {f : FuncDesc} {k : Nat} (hf : f ∈ A) (hk : f.key = k) :
    ∃ f0, A.find? (fun f => f.key == k) = some f0 ∧ f0 ∈ A ∧ f0.key = k := by
  cases h : A.find? (fun f => f.key == k) with
  | none =>
    rw [List.find?_eq_none] at h
    have := h f hf
    simp [hk] at this
  | some f0 =>
    exact ⟨f0, rfl, List.mem_of_find?_eq_some h, by simpa using List.find?_some h⟩

theorem hasEdge_prune (c : CG) (t x y : Vtx) (h : (prune c t).g.hasEdge x y = true) : c.g.hasEdge x y = true := by
  unfold prune at h
  dsimp only at h
  revert h
  apply CGE.foldl_inv' (fun c' : CG => c'.g.hasEdge x y = true → c.g.hasEdge x y = true)
  · intro c' v hc' h
    exact hc' (CGE.hasEdge_remove _ _ _ _ h)
  · exact fun h => h

theorem mapGet_of_nodup {κ β : Type} [DecidableEq κ] {m : List (κ × β)} (hd : (m.map (·.1)).Nodup)
    {p : κ × β} (hp : p ∈ m) : mapGet m p.1 = some p.2 := by
  have h1 := CGF.mapGet_isSome_of_mem m p hp
  obtain ⟨q, hq⟩ := Option.isSome_iff_exists.1 h1
  have h2 := ExactWins.mem_of_mapGet' hq
  rw [hq, nodup_keys_unique hd h2 (show (p.1, p.2) ∈ m from hp)]

section
variable {e : TypeEnv} {b : Builder} {funcs : Nat → Option FuncDesc} {target : FuncDesc}

theorem callGraph_cg_prune :
    (callGraph {} e b funcs target false none).cg = prune (Prune.pre e b funcs target) (.func target.key) := by
  rw [Prune.callGraph_eq]

theorem Hyps.conv_of_ne (H : Hyps e b funcs target) {f : FuncDesc} (hf : f ∈ C01.allFuncs b funcs target)
    (hk : f.key ≠ target.key) : f ∈ b.convs.filterMap funcs := by
  rcases List.mem_cons.1 hf with rfl | h
  · exact absurd rfl hk
  · exact h

theorem facts_std (H : Hyps e b funcs target) (ht : ImplTrans e) (beh : Nat → Nat → List PVal → BehOut)
    (N : Prop) (hN : N → ∀ f n a, (beh f n a).err = none) :
    Facts (C01.stdCtx e b funcs target beh) N target.key (fun x => x ∈ ExactWins.inputVerts b) := by
  have hg : (C01.stdCtx e b funcs target beh).g = (ExactWins.fin e b funcs target).g :=
    ExactWins.stdCtx_g e b funcs target beh
  have hcg : (callGraph {} e b funcs target false none).cg.g = (ExactWins.fin e b funcs target).g := by
    rw [ExactWins.callGraph_cg]; rfl
  have hfo : ∀ k, (C01.stdCtx e b funcs target beh).funcOf k =
      (C01.allFuncs b funcs target).find? (fun f => f.key == k) := fun _ => rfl
  have hwf := ExactWins.fin_wf e b funcs target
  have hrule := ExactWins.fin_rule e b funcs target
  -- edges of the pruned graph are edges of `Prune.pre`
  have hpre : ∀ x y, (ExactWins.fin e b funcs target).g.hasEdge x y = true →
      (Prune.pre e b funcs target).g.hasEdge x y = true := by
    intro x y h
    rw [← hcg, callGraph_cg_prune] at h
    exact hasEdge_prune (Prune.pre e b funcs target) (.func target.key) x y h
  have hgin := CGF.ginv_callGraph {} e b funcs target none
  -- the function object of a vertex has the inputs / outputs of every function with that key
  have hsame : ∀ k f0, (C01.allFuncs b funcs target).find? (fun f => f.key == k) = some f0 →
      f0 ∈ C01.allFuncs b funcs target ∧ f0.key = k ∧
      ∀ f ∈ C01.allFuncs b funcs target, f.key = k → f0.input = f.input ∧ f0.output = f.output := by
    intro k f0 h
    have hm := List.mem_of_find?_eq_some h
    have hk : f0.key = k := by simpa using List.find?_some h
    exact ⟨hm, hk, fun f hf hfk => H.cons.1 f0 hm f hf (hk.trans hfk.symm)⟩
  refine
    { hN := hN, pub := rfl, tvn := rfl, mc := rfl, tr := rfl, sri := rfl, auto := rfl, trans := ht,
      edgeOK := ?_,
      valSub := ?_, toRoot := ?_, supKind := fun x hx => ExactWins.inputVerts_kind hx,
      funcReq := ?_, funcKey := ?_, funcRoot := ?_, single := ?_, noTarget := ?_, outTyped := ?_ }
  · -- edgeOK
    have := C01.callGraph_edges e b funcs target false none
    simp only [C01.stdCtx]
    exact this
  · -- valSub
    intro x n t s he
    rw [hg] at he
    have hmem := (Prune.hasEdge_mem_verts _ hwf _ _ he).2
    have hvk := callGraph_noSubV e b funcs target H.nsub (by
      intro f hf
      refine ⟨(H.labs f hf).1, fun p hp => ?_⟩
      exact (H.labs f hf).2 _ (List.mem_map.2 ⟨p.2, ((H.cons.2 f hf).2.1 p hp).1, rfl⟩))
    have : Vtx.value n t s ∈ (callGraph {} e b funcs target false none).cg.g.verts := by rw [hcg]; exact hmem
    exact hvk _ this rfl
  · -- toRoot
    intro x he
    rw [hg] at he
    obtain ⟨w, hw⟩ := (ExactWins.hasEdge_iff_weight _ _ _).1 he
    rcases (ExactWins.rule_to_root (hrule _ _ _ hw)).2 with ⟨k, rfl⟩ | h
    · exact Or.inl rfl
    · exact Or.inr h
  · -- funcReq
    intro k y he
    rw [hg] at he
    obtain ⟨w, hw⟩ := (ExactWins.hasEdge_iff_weight _ _ _).1 he
    rcases ExactWins.rule_from_func (hrule _ _ _ hw) with ⟨rfl, _⟩ | ⟨f, hf, hk, v, hv, hyv, _⟩
    · obtain ⟨f, hf, hk, _⟩ := pre_func_root e b funcs target k (hpre _ _ he)
      obtain ⟨f0, h0, _, _⟩ := find_key hf hk
      exact ⟨f0, by rw [hfo]; exact h0, Or.inl rfl⟩
    · obtain ⟨f0, h0, _, _⟩ := find_key hf hk
      refine ⟨f0, by rw [hfo]; exact h0, Or.inr ⟨v, ?_, hyv⟩⟩
      rw [((hsame k f0 h0).2.2 f hf hk).1]
      exact hv
  · -- funcKey
    intro k f h
    rw [hfo] at h
    exact (hsame k f h).2.1
  · -- funcRoot
    intro k f0 hk h he
    rw [hfo] at h
    rw [hg] at he
    obtain ⟨hm0, hk0, hs0⟩ := hsame k f0 h
    obtain ⟨f, hf, hfk, hemp⟩ := pre_func_root e b funcs target k (hpre _ _ he)
    rw [← (hs0 f hf hfk).1] at hemp
    have hconv := H.conv_of_ne hm0 (by rw [hk0]; exact hk)
    unfold ValueSet.empty at hemp
    cases hst : f0.input.hasStruct with
    | false => exact (H.wf f0 hconv).2 hst
    | true =>
      rw [hst] at hemp
      simpa using hemp
  · -- single
    intro k f0 hk h
    rw [hfo] at h
    obtain ⟨hm0, hk0, _⟩ := hsame k f0 h
    exact H.single f0 (H.conv_of_ne hm0 (by rw [hk0]; exact hk))
  · -- noTarget
    intro x
    rw [hg, ← hcg]
    cases he : (callGraph {} e b funcs target false none).cg.g.hasEdge x (.func target.key) with
    | false => rfl
    | true =>
      obtain ⟨f, hf, hk, _⟩ := hgin x (.func target.key) he
      exact absurd hk (H.key f hf)
  · -- outTyped
    intro k f0 h v hv
    rw [hfo] at h
    obtain ⟨hm0, hk0, hs0⟩ := hsame k f0 h
    rw [hg, ← hcg] at hv
    obtain ⟨f, hf, hfk, hcase⟩ := hgin v (.func k) (CGF.hasEdge_of_mem_ins _ _ _ hv)
    have hfa : f ∈ C01.allFuncs b funcs target := List.mem_cons_of_mem _ hf
    have hout : f0.output = f.output := (hs0 f hfa hfk).2
    rcases hcase with ⟨p, hp, rfl⟩ | ⟨p, hp, rfl⟩
    · refine ⟨?_, fun t s h => (by cases h), Or.inl rfl⟩
      intro n t s hv
      injection hv with hn ht _
      refine ⟨p.2, ?_, ht⟩
      rw [hout, ← hn]
      exact mapGet_of_nodup (H.wf f hf).1 hp
    · refine ⟨fun n t s h => (by cases h), ?_, Or.inr rfl⟩
      intro t s hv
      injection hv with ht _
      have hkey := ((H.cons.2 f hfa).2.2 p hp).2.1
      have hsome := CGF.mapGet_isSome_of_mem _ _ hp
      obtain ⟨sv, hsv⟩ := Option.isSome_iff_exists.1 hsome
      refine ⟨sv, by rw [hout, ← ht, ← hkey]; exact hsv, ?_⟩
      have := ((H.cons.2 f hfa).2.2 _ (ExactWins.mem_of_mapGet' hsv)).2.1
      rw [← this, hkey, ht]


/-- with an empty unsatisfied list every parameter vertex of the target is still a requirement of the
target vertex in the pruned graph -/
theorem params_kept (hsat : (callGraph {} e b funcs target false none).unsat = [])
    (beh : Nat → Nat → List PVal → BehOut) (v : SVal) (hv : v ∈ target.input.values) :
    v.lab.vertex ∈ (C01.stdCtx e b funcs target beh).g.outs (.func target.key) := by
  rw [ExactWins.stdCtx_g, ExactWins.mem_outs_iff_hasEdge]
  rw [ExactWins.callGraph_unsat, List.map_eq_nil_iff, List.filter_eq_nil_iff] at hsat
  have hreq := ExactWins.funcGraph_req_edge ExactWins.c0 target v hv
  have hmem : v.lab.vertex ∈ (ExactWins.fin e b funcs target).g.verts := by
    have := hsat _ ((ExactWins.mem_outs_iff_hasEdge _ _ _).2 hreq)
    simpa [AGraph.hasVertex, ExactWins.fin] using this
  unfold ExactWins.fin at hmem
  rw [ExactWins.prune_verts] at hmem
  have h1 : (ExactWins.pre e b funcs target).g.hasEdge (.func target.key) v.lab.vertex = true :=
    (ExactWins.built_pre_c1 e b funcs target).hasEdge hreq
  have hne : v.lab.vertex ≠ .func target.key := by
    unfold Label.vertex; split <;> exact fun h => by cases h
  have k2 := ExactWins.kept_step _ (ExactWins.pre_wf e b funcs target) (ExactWins.pre_root e b funcs target)
    (.func target.key) _ (.func target.key) hmem.2 hne h1
  exact ExactWins.fin_hasEdge_of_kept e b funcs target h1 k2 hmem.2

theorem initSt_sinv (H : Hyps e b funcs target) (beh : Nat → Nat → List PVal → BehOut) (N : Prop)
    (memo : List (Nat × Memo)) (hmemo : N → ∀ p ∈ memo, p.2.res.err = none) (orc : List OrcItem) :
    SInv (C01.stdCtx e b funcs target beh) N (fun x => x ∈ ExactWins.inputVerts b)
      (initSt (callGraph {} e b funcs target false none).cg memo orc) := by
  have hb : ExactWins.TypedOK b :=
    ⟨fun p hp => (H.tkeys p hp).symm, fun p hp => by rw [H.tsub] at hp; cases hp⟩
  have hstore : (callGraph {} e b funcs target false none).cg.store =
      (inputsGraph (ExactWins.c1 target) b).1.store := by
    rw [ExactWins.callGraph_cg]
    exact ExactWins.fin_store e b funcs target
  refine ⟨?_, ?_, hmemo⟩
  · intro x v hv
    rw [ExactWins.initSt_get, hstore] at hv
    cases hm : mapGet (inputsGraph (ExactWins.c1 target) b).1.store x with
    | none => rw [hm] at hv; cases hv
    | some val =>
      rw [hm] at hv
      simp only [Option.map_some, Option.some.injEq] at hv
      subst hv
      have hx : x ∈ ExactWins.inputVerts b := by
        have := Refused.callGraph_store_inputs e b funcs target (x, val)
          (by rw [hstore]; exact ExactWins.mem_of_mapGet' hm)
        exact this
      obtain ⟨val', h1, h2⟩ := ExactWins.store_inputVerts (ExactWins.c1 target) b hb x hx
      rw [hm] at h1
      cases h1
      show e.assignable val.ty x.ty = true
      rw [h2]
      exact assignable_refl _ _
  · intro x hx
    obtain ⟨val', h1, _⟩ := ExactWins.store_inputVerts (ExactWins.c1 target) b hb x hx
    rw [ExactWins.initSt_get, hstore, h1]
    rfl

/-- the core of C05: the call ends in success, in an error a function body reported (only if some body
may report one: `¬ N`), or the oracle did not fit -/
theorem complete_core (H : Hyps e b funcs target) (ht : ImplTrans e)
    (hsat : (callGraph {} e b funcs target false none).unsat = [])
    (beh : Nat → Nat → List PVal → BehOut) (N : Prop) (hN : N → ∀ f n a, (beh f n a).err = none)
    (fuel : Nat) (hfuel : 2 ≤ fuel) (memo : List (Nat × Memo))
    (hmemo : N → ∀ p ∈ memo, p.2.res.err = none) (orc : List OrcItem) :
    let r := callWith (C01.stdCtx e b funcs target beh) (callGraph {} e b funcs target false none) target fuel
              (initSt (callGraph {} e b funcs target false none).cg memo orc)
    (∃ res, r.1 = .ok res) ∨ ((∃ ε, r.1 = .convErr ε) ∧ ¬ N) ∨ ((∃ ε res, r.1 = .targetErr ε res) ∧ ¬ N) ∨
      (∃ w, r.1 = .badOracle w) := by
  obtain ⟨m, rfl⟩ : ∃ m, fuel = m + 1 + 1 := ⟨fuel - 2, by omega⟩
  exact callWith_complete (facts_std H ht beh N hN) (callGraph {} e b funcs target false none) target rfl
    (ExactWins.callGraph_target e b funcs target) hsat (params_kept hsat beh) m _
    (initSt_sinv H beh N memo hmemo orc)

end

/-! ### value sets built by the model of `NewFunc` satisfy the two well-formedness conditions -/

/-- one entry per name in the named map; no values without a struct type -/
def SetWF (vs : ValueSet) : Prop :=
  (vs.named.map (·.1)).Nodup ∧ (vs.hasStruct = false → vs.values = [])

theorem foldl_namedStep_nodup (vals : List SVal) :
    ∀ (m : List (String × SVal)), (m.map (·.1)).Nodup → ((vals.foldl namedStep m).map (·.1)).Nodup := by
  induction vals with
  | nil => intro m hm; exact hm
  | cons v vals ih =>
    intro m hm
    rw [List.foldl_cons]
    apply ih
    unfold namedStep
    split
    · exact ExactWins.mapSet_keys_nodup _ _ _ hm
    · exact hm

theorem setWF_nil : SetWF ValueSet.nil := ⟨by simp [ValueSet.nil], fun _ => rfl⟩

theorem fromStruct_setWF {d : Nat} {fs : List Field} {vs : ValueSet}
    (h : newValueSetFromStruct d fs = .ok vs) : SetWF vs := by
  by_cases hd : d ≤ 1
  · rw [newValueSetFromStruct_eq d hd fs] at h
    simp only [Except.ok.injEq] at h
    subst h
    exact ⟨foldl_namedStep_nodup _ [] (by simp), fun h => by cases h⟩
  · unfold newValueSetFromStruct at h
    rw [if_pos (by omega)] at h
    cases h

theorem lifted_setWF {ps : List Param} {vs : ValueSet} (h : newValueSetLifted ps = .ok vs) : SetWF vs := by
  unfold newValueSetLifted at h
  split at h
  · cases h
  · split at h
    · next vs' hvs =>
      simp only [Except.ok.injEq] at h
      subst h
      exact (fromStruct_setWF hvs : SetWF vs')
    · cases h

theorem newValueSet_setWF {ps : List Param} {vs : ValueSet} (h : newValueSet ps = .ok vs) : SetWF vs := by
  unfold newValueSet at h
  split at h
  · simp only [Except.ok.injEq] at h
    subst h
    exact setWF_nil
  · split at h
    · exact fromStruct_setWF h
    · exact lifted_setWF h
  · exact lifted_setWF h

theorem newFunc_setWF {ins outs : List Param} {fs : FuncSig} (h : newFunc ins outs = .ok fs) :
    SetWF fs.input ∧ SetWF fs.output := by
  refine ⟨?_, newValueSet_setWF (newFunc_ok h).1⟩
  unfold newFunc at h
  cases hi : newValueSet ins with
  | error e => simp [hi] at h
  | ok i =>
    simp only [hi] at h
    split at h
    · cases h
    · simp only [Except.ok.injEq] at h
      subst h
      exact newValueSet_setWF hi

end ArgMapper.Complete
