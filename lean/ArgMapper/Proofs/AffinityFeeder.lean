import ArgMapper.Proofs.AffinityStep
/-!
# C07, family A at the Dijkstra level: the uniquely cheapest feeder becomes the predecessor
-/
namespace ArgMapper.AffinityProofs
open ArgMapper AGraph Dijkstra DijkstraProofs
variable {α : Type} [DecidableEq α]

structure FInv (g : AGraph α) (r a ustar : α) (c wstar L : Int) (s : DSt α) : Prop where
  root : Root s r
  feed : ∀ u w, g.weight u a = some w → Tight s u r c
  merge : Merge s a ustar (c + wstar) L

theorem feeder_pred_aux (G : AGraph α) (hwf : G.WF) (r a ustar : α) (c wstar : Int) (pops : List α)
    (hleg : Dijkstra.LegalPops G r pops)
    (hr : r ∈ G.verts) (har : a ≠ r)
    (hstar : G.weight ustar a = some wstar)
    (hfeed : ∀ u w, G.weight u a = some w →
      u ≠ r ∧ u ≠ a ∧ G.weight r u = some c ∧ ∀ x w', G.weight x u = some w' → x = r)
    (hother : ∀ u w, G.weight u a = some w → u ≠ ustar →
      1 ≤ w ∧ wstar < w ∧ (-1000000 ≤ w ∧ w ≤ 1000000))
    (hc : 0 ≤ c ∧ (-1000000 ≤ c ∧ c ≤ 1000000)) (hws : -1000000 ≤ wstar ∧ wstar ≤ 1000000) :
    (Dijkstra.run G r pops).prev a = some ustar ∧ (Dijkstra.run G r pops).prev ustar = some r ∧
    (Dijkstra.run G r pops).prev r = none := by
  -- the lower bound kept on `dist a` while `ustar` is unvisited
  obtain ⟨L, hL1, hL2, hL3, hL4⟩ : ∃ L : Int, c + wstar < L ∧ c < L ∧
      (∀ w : Int, 1 ≤ w → wstar < w → L ≤ c + w) ∧ L ≤ 3000000 := by
    by_cases h : wstar < 0
    · exact ⟨c + 1, by omega, by omega, fun w h1 h2 => by omega, by omega⟩
    · exact ⟨c + wstar + 1, by omega, by omega, fun w h1 h2 => by omega, by omega⟩
  obtain ⟨hsr, hsa, hrs, hsin⟩ := hfeed ustar wstar hstar
  have hsv : ustar ∈ G.verts := (weight_verts hwf hstar).1
  have hstep : ∀ s v, FInv G r a ustar c wstar L s → LegalStep G s v →
      FInv G r a ustar c wstar L (pop G s v) := by
    intro s v hI hl
    have hv := hl.2.1
    -- a non-source vertex is popped only after the source
    have hrvis : v ≠ r → r ∈ s.visited := by
      intro hne
      apply Classical.byContradiction
      intro hrv
      exact hne (root_first hI.root hr hl hrv)
    refine ⟨root_step hI.root hr hl, ?_, ?_⟩
    · intro u w hw
      obtain ⟨hur, _, hru, huin⟩ := hfeed u w hw
      refine tight_step hwf (hI.feed u w hw) huin hru hur hv ?_ ?_ (by simp [maxInt32]; omega)
      · intro hvu
        exact hrvis (hvu ▸ hur)
      · intro hvr
        subst hvr
        rw [(hI.root.2 hv).1]
        exact (wrap32_add (by omega) hc.2).trans (by omega)
    · refine merge_step hwf hI.merge hL1 (Ne.symm hsa) hstar hv ?_ ?_ ?_
      · intro hva
        apply Classical.byContradiction
        intro hus
        have hrv := hrvis (hva ▸ har)
        have h1 := ((hI.feed ustar wstar hstar).2 hrv).1
        have h2 := (hI.merge.1 hus).2
        exact not_pop_of_lt hl hsv hus (by omega) hva
      · intro hvs
        subst hvs
        have hrv := hrvis hsr
        rw [((hI.feed v wstar hstar).2 hrv).1]
        exact wrap32_add (by omega) hws
      · intro hvs w hw
        obtain ⟨hvr, _, _, _⟩ := hfeed v w hw
        obtain ⟨h1, h2, h3⟩ := hother v w hw hvs
        have hrv := hrvis hvr
        rw [((hI.feed v w hw).2 hrv).1, wrap32_add (by omega) h3]
        exact hL3 w h1 h2
  have h0 : FInv G r a ustar c wstar L (init r) :=
    ⟨root_init r, fun u w hw => tight_init c (hfeed u w hw).1,
      merge_init _ har (by simp [maxInt32]; omega)⟩
  obtain ⟨hI, hall⟩ := run_inv (FInv G r a ustar c wstar L) hstep h0 hleg
  exact ⟨((hI.merge).2 (hall _ hsv)).2, ((hI.feed ustar wstar hstar).2 (hall _ hr)).2, hI.root.1⟩

end ArgMapper.AffinityProofs
