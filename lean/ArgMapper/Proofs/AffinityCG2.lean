import ArgMapper.Proofs.AffinityCG
import ArgMapper.Props.C07a
/-!
# Helper lemmas for C07 (call-graph level), part 2

The Dijkstra-level theorems of `Props/C07a.lean` instantiated with the graph the resolver searches,
`(discount g cur).reverse`, from the unpacked premises `famA`, `famB`, `famB'` of `Props/C07b.lean`.
-/
namespace ArgMapper.AffinityCG
open ArgMapper AGraph Dijkstra DijkstraProofs Generated

/-! ### the searched graph `G = (discount g cur).reverse`, edge by edge -/

section G
variable (g : AGraph Vtx) (hwf : g.WF) (n : String) (S : Nat) (sc : String)
include hwf

theorem G_edge {x y : Vtx} {w : Int}
    (h : (discount g (.value n S sc)).reverse.weight x y = some w) : g.hasEdge y x = true := by
  rw [G_weight g hwf] at h
  split at h
  · rename_i hc; exact hc.2
  · exact hasEdge_iff_weight.2 ⟨w, h⟩

theorem G_weight_plain {x y : Vtx} (hx : ¬ (x.isValue = true ∧ x.name = n)) :
    (discount g (.value n S sc)).reverse.weight x y = g.weight y x := by
  rw [G_weight g hwf, if_neg]
  exact fun hc => hx hc.1

theorem G_weight_named {x y : Vtx} (hv : x.isValue = true) (hn : x.name = n)
    (he : g.hasEdge y x = true) :
    (discount g (.value n S sc)).reverse.weight x y = some weightMatchingName := by
  rw [G_weight g hwf, if_pos ⟨⟨hv, hn⟩, he⟩]

end G

theorem not_value_of_isArg {a : Vtx} (h : a.isArg = true) : a.isValue = false := by
  cases a <;> simp [Vtx.isArg, Vtx.isValue] at h ⊢

theorem not_value_of_isOut {a : Vtx} (h : a.isOut = true) : a.isValue = false := by
  cases a <;> simp [Vtx.isOut, Vtx.isValue] at h ⊢

theorem mem_outs_of_hasEdge {g : AGraph Vtx} {u x : Vtx} (h : g.hasEdge u x = true) : x ∈ g.outs u := by
  obtain ⟨w, hw⟩ := hasEdge_iff_weight.1 h
  exact List.mem_map.2 ⟨(x, w), weight_some_mem_outsW hw, rfl⟩

theorem small_consts : C07.Small weightNormal ∧ C07.Small weightTyped ∧ C07.Small weightMatchingName := by
  unfold C07.Small; decide

/-! ### family A -/

theorem affinity_path_aux (g : AGraph Vtx) (hwf : g.WF) (n : String) (S : Nat) (sc : String)
    (a ustar : Vtx) (pops : List Vtx)
    (hroot : Vtx.root ∈ g.verts) (ha : a.isArg = true) (hus : ustar.isValue = true)
    (hun : ustar.name = n) (he : g.hasEdge a ustar = true)
    (hall : ∀ p ∈ g.outsW a, p.1.isValue = true ∧ 1 ≤ p.2 ∧ p.2 ≤ 1000 ∧
      g.outsW p.1 = [(Vtx.root, weightNormal)] ∧ (p.1 = ustar ∨ p.1.name ≠ n))
    (hleg : legalChoice g (.value n S sc) pops = true)
    (hmem : a ∈ choosePath g (.value n S sc) pops) :
    ∃ rest, choosePath g (.value n S sc) pops = Vtx.root :: ustar :: a :: rest := by
  have hL := legalPops_of_legalChoice hleg
  have hGwf := G_WF g hwf (.value n S sc)
  have haV := not_value_of_isArg ha
  -- every feeder of `a` in `G` is a requirement of `a` in `g`
  have hin : ∀ u w, (discount g (.value n S sc)).reverse.weight u a = some w →
      ∃ w0, (u, w0) ∈ g.outsW a := by
    intro u w h
    obtain ⟨w0, hw0⟩ := hasEdge_iff_weight.1 (G_edge g hwf n S sc h)
    exact ⟨w0, weight_some_mem_outsW hw0⟩
  have hstar : (discount g (.value n S sc)).reverse.weight ustar a = some weightMatchingName :=
    G_weight_named g hwf n S sc hus hun he
  have hlt1 : weightMatchingName < 1 := by decide
  obtain ⟨h1, h2, h3⟩ := C07.feeder_pred (discount g (.value n S sc)).reverse hGwf Vtx.root a ustar
    weightNormal weightMatchingName pops hL
    (by rw [G_verts]; exact hroot)
    (by intro e; subst e; simp [Vtx.isArg] at ha)
    hstar
    (by
      intro u w h
      obtain ⟨w0, hm⟩ := hin u w h
      obtain ⟨hv, _, _, ho, _⟩ := hall (u, w0) hm
      simp only at hv ho
      obtain ⟨hwr, honly⟩ := outsW_single hwf ho
      refine ⟨?_, ?_, ?_, ?_⟩
      · intro e; subst e; simp [Vtx.isValue] at hv
      · intro e; subst e; rw [haV] at hv; cases hv
      · rw [G_weight_plain g hwf n S sc (by simp [Vtx.isValue])]
        exact hwr
      · intro x w' hx
        exact honly x (G_edge g hwf n S sc hx))
    (by
      intro u w h hne
      obtain ⟨w0, hm⟩ := hin u w h
      obtain ⟨_, _, _, _, hor⟩ := hall (u, w0) hm
      simp only at hor
      have hname : u.name ≠ n := by
        rcases hor with hor | hor
        · exact absurd hor hne
        · exact hor
      rw [G_weight_plain g hwf n S sc (fun hc => hname hc.2)] at h
      obtain ⟨_, hb1, hb2, _, _⟩ := hall (u, w) (weight_some_mem_outsW h)
      simp only at hb1 hb2
      exact ⟨hb1, by omega, by unfold C07.Small; omega⟩)
    ⟨by decide, small_consts.1⟩ small_consts.2.2
  obtain ⟨hc1, _, hc3⟩ := choosePath_chain g (.value n S sc) pops hL.2.1
  obtain ⟨l, rest, hp⟩ := List.append_of_mem hmem
  exact ⟨rest, pchain_three hp hc1 hc3 h1 h2 h3⟩

/-! ### family B: the part common to both shapes -/

theorem branch_common (g : AGraph Vtx) (hwf : g.WF) (n : String) (S : Nat) (sc : String)
    (u a : Vtx) (k1 k2 : Nat)
    (hu : u.isValue = true) (hun : u.name = n) (ha : a.isArg = true)
    (hou : g.outsW u = [(Vtx.root, weightNormal)])
    (hoa : g.outsW a = [(u, weightTyped)])
    (hof1 : g.outsW (.func k1) = [(a, weightTyped)])
    (hof2 : g.outsW (.func k2) = [(u, weightNormal)]) :
    ((discount g (.value n S sc)).reverse.weight Vtx.root u = some weightNormal ∧
      ∀ x w, (discount g (.value n S sc)).reverse.weight x u = some w → x = Vtx.root) ∧
    ((discount g (.value n S sc)).reverse.weight u a = some weightMatchingName ∧
      ∀ x w, (discount g (.value n S sc)).reverse.weight x a = some w → x = u) ∧
    ((discount g (.value n S sc)).reverse.weight a (.func k1) = some weightTyped ∧
      ∀ x w, (discount g (.value n S sc)).reverse.weight x (.func k1) = some w → x = a) ∧
    ((discount g (.value n S sc)).reverse.weight u (.func k2) = some weightMatchingName ∧
      ∀ x w, (discount g (.value n S sc)).reverse.weight x (.func k2) = some w → x = u) := by
  obtain ⟨wu, onlyu⟩ := outsW_single hwf hou
  obtain ⟨wa, onlya⟩ := outsW_single hwf hoa
  obtain ⟨w1, only1⟩ := outsW_single hwf hof1
  obtain ⟨w2, only2⟩ := outsW_single hwf hof2
  have haV := not_value_of_isArg ha
  refine ⟨⟨?_, ?_⟩, ⟨?_, ?_⟩, ⟨?_, ?_⟩, ⟨?_, ?_⟩⟩
  · rw [G_weight_plain g hwf n S sc (by simp [Vtx.isValue])]; exact wu
  · intro x w h; exact onlyu x (G_edge g hwf n S sc h)
  · exact G_weight_named g hwf n S sc hu hun (hasEdge_iff_weight.2 ⟨_, wa⟩)
  · intro x w h; exact onlya x (G_edge g hwf n S sc h)
  · rw [G_weight_plain g hwf n S sc (by simp [haV])]; exact w1
  · intro x w h; exact only1 x (G_edge g hwf n S sc h)
  · exact G_weight_named g hwf n S sc hu hun (hasEdge_iff_weight.2 ⟨_, w2⟩)
  · intro x w h; exact only2 x (G_edge g hwf n S sc h)

/-! ### family B, both converters have a typed output -/

theorem named_converter_path_aux (g : AGraph Vtx) (hwf : g.WF) (n : String) (S : Nat) (sc : String)
    (u a o : Vtx) (k1 k2 : Nat) (pops : List Vtx)
    (hroot : Vtx.root ∈ g.verts) (hu : u.isValue = true) (hun : u.name = n) (ha : a.isArg = true)
    (hoV : o.isValue = false) (hor : o ≠ Vtx.root)
    (hou : g.outsW u = [(Vtx.root, weightNormal)])
    (hoa : g.outsW a = [(u, weightTyped)])
    (hof1 : g.outsW (.func k1) = [(a, weightTyped)])
    (hof2 : g.outsW (.func k2) = [(u, weightNormal)])
    (hk : k1 ≠ k2)
    (hoo : ∀ p ∈ g.outsW o, p.2 = weightTyped ∧ (p.1 = .func k1 ∨ p.1 = .func k2))
    (he1 : g.hasEdge o (.func k1) = true) (he2 : g.hasEdge o (.func k2) = true)
    (hleg : legalChoice g (.value n S sc) pops = true)
    (hmem : o ∈ choosePath g (.value n S sc) pops) :
    ∃ rest, choosePath g (.value n S sc) pops = Vtx.root :: u :: .func k2 :: o :: rest := by
  have hL := legalPops_of_legalChoice hleg
  have hGwf := G_WF g hwf (.value n S sc)
  have haV := not_value_of_isArg ha
  obtain ⟨cu, ca, c1, c2⟩ := branch_common g hwf n S sc u a k1 k2 hu hun ha hou hoa hof1 hof2
  have onlya := (outsW_single hwf hoa).2
  have only1 := (outsW_single hwf hof1).2
  have only2 := (outsW_single hwf hof2).2
  -- `o` is none of the other vertices
  have hou' : o ≠ u := by intro e; subst e; rw [hu] at hoV; cases hoV
  have hoa' : o ≠ a := by
    intro e; subst e
    have := onlya _ he1
    subst this
    simp [Vtx.isValue] at hu
  have ho1 : o ≠ .func k1 := by
    intro e; subst e
    have := only1 _ he1
    subst this
    simp [Vtx.isArg] at ha
  have ho2 : o ≠ .func k2 := by
    intro e; subst e
    have := only2 _ he1
    subst this
    simp [Vtx.isValue] at hu
  have hdist : [Vtx.root, u, a, Vtx.func k1, Vtx.func k2, o].Nodup := by
    cases u <;> simp [Vtx.isValue] at hu
    cases a <;> simp [Vtx.isArg] at ha
    simp only [List.nodup_cons, List.mem_cons, List.not_mem_nil, or_false, not_or, List.nodup_nil, not_false_eq_true,
      and_true]
    refine ⟨⟨by simp, by simp, by simp, by simp, Ne.symm hor⟩,
      ⟨by simp, by simp, by simp, Ne.symm hou'⟩, ⟨by simp, by simp, Ne.symm hoa'⟩,
      ⟨by simpa using hk, Ne.symm ho1⟩, Ne.symm ho2⟩
  -- the two edges into `o`
  have hwo : ∀ k, g.hasEdge o (.func k) = true →
      (discount g (.value n S sc)).reverse.weight (.func k) o = some weightTyped := by
    intro k hk'
    rw [G_weight_plain g hwf n S sc (by simp [Vtx.isValue])]
    obtain ⟨w, hw⟩ := hasEdge_iff_weight.1 hk'
    have := (hoo (_, w) (weight_some_mem_outsW hw)).1
    simp only at this
    rw [hw, this]
  have honly : ∀ x w, (discount g (.value n S sc)).reverse.weight x o = some w →
      x = .func k1 ∨ x = .func k2 := by
    intro x w h
    obtain ⟨w', hw'⟩ := hasEdge_iff_weight.1 (G_edge g hwf n S sc h)
    exact (hoo (x, w') (weight_some_mem_outsW hw')).2
  obtain ⟨sN, sT, sM⟩ := small_consts
  obtain ⟨h1, h2, h3, h4⟩ := C07.branch_pred (discount g (.value n S sc)).reverse hGwf Vtx.root u a
    (.func k1) (.func k2) o weightNormal weightMatchingName weightTyped weightMatchingName
    weightTyped weightTyped pops hL (by rw [G_verts]; exact hroot) hdist cu ca c1 c2
    ⟨hwo k1 he1, hwo k2 he2, honly⟩ (by decide) (by decide) (by decide) ⟨sN, sM, sT, sM, sT, sT⟩
  obtain ⟨hc1, _, hc3⟩ := choosePath_chain g (.value n S sc) pops hL.2.1
  obtain ⟨l, rest, hp⟩ := List.append_of_mem hmem
  exact ⟨rest, pchain_four hp hc1 hc3 h1 h2 h3 h4⟩

/-! ### family B, the name-using converter has a named output -/

theorem named_converter_path'_aux (g : AGraph Vtx) (hwf : g.WF) (n : String) (S : Nat) (sc : String)
    (u a o' : Vtx) (k1 k2 : Nat) (pops : List Vtx)
    (hroot : Vtx.root ∈ g.verts) (hu : u.isValue = true) (hun : u.name = n) (ha : a.isArg = true)
    (hoO : o'.isOut = true)
    (hou : g.outsW u = [(Vtx.root, weightNormal)])
    (hoa : g.outsW a = [(u, weightTyped)])
    (hof1 : g.outsW (.func k1) = [(a, weightTyped)])
    (hof2 : g.outsW (.func k2) = [(u, weightNormal)])
    (hk : k1 ≠ k2)
    (hoo : g.outsW o' = [(.func k1, weightTyped)])
    (hw1 : g.weight (.value n S sc) o' = some weightTyped)
    (hw2 : g.weight (.value n S sc) (.func k2) = some weightNormal)
    (hall : ∀ x ∈ g.outs (.value n S sc), x = o' ∨ x = .func k2)
    (hleg : legalChoice g (.value n S sc) pops = true) :
    choosePath g (.value n S sc) pops = [Vtx.root, u, .func k2, .value n S sc] := by
  have hL := legalPops_of_legalChoice hleg
  have hGwf := G_WF g hwf (.value n S sc)
  have haV := not_value_of_isArg ha
  have hoV := not_value_of_isOut hoO
  obtain ⟨cu, ca, c1, c2⟩ := branch_common g hwf n S sc u a k1 k2 hu hun ha hou hoa hof1 hof2
  have onlyu := (outsW_single hwf hou).2
  obtain ⟨wo, onlyo⟩ := outsW_single hwf hoo
  have hucur : u ≠ .value n S sc := by
    intro e; subst e
    have := onlyu _ (hasEdge_iff_weight.2 ⟨_, hw1⟩)
    subst this
    simp [Vtx.isOut] at hoO
  have hdist : [Vtx.root, u, a, Vtx.func k1, Vtx.func k2, o', Vtx.value n S sc].Nodup := by
    cases u <;> simp [Vtx.isValue] at hu
    cases a <;> simp [Vtx.isArg] at ha
    cases o' <;> simp [Vtx.isOut] at hoO
    simp only [List.nodup_cons, List.mem_cons, List.not_mem_nil, or_false, not_or, List.nodup_nil, not_false_eq_true,
      and_true]
    refine ⟨⟨by simp, by simp, by simp, by simp, by simp, by simp⟩,
      ⟨by simp, by simp, by simp, by simp, hucur⟩, ⟨by simp, by simp, by simp, by simp⟩,
      ⟨by simpa using hk, by simp, by simp⟩, ⟨by simp, by simp⟩, by simp⟩
  have co' : (discount g (.value n S sc)).reverse.weight (.func k1) o' = some weightTyped ∧
      ∀ x w, (discount g (.value n S sc)).reverse.weight x o' = some w → x = .func k1 := by
    refine ⟨?_, fun x w h => onlyo x (G_edge g hwf n S sc h)⟩
    rw [G_weight_plain g hwf n S sc (by simp [Vtx.isValue])]; exact wo
  have ccur : (discount g (.value n S sc)).reverse.weight o' (.value n S sc) = some weightTyped ∧
      (discount g (.value n S sc)).reverse.weight (.func k2) (.value n S sc) = some weightNormal ∧
      ∀ x w, (discount g (.value n S sc)).reverse.weight x (.value n S sc) = some w →
        x = o' ∨ x = .func k2 := by
    refine ⟨?_, ?_, fun x w h => hall x (mem_outs_of_hasEdge (G_edge g hwf n S sc h))⟩
    · rw [G_weight_plain g hwf n S sc (by simp [hoV])]; exact hw1
    · rw [G_weight_plain g hwf n S sc (by simp [Vtx.isValue])]; exact hw2
  obtain ⟨sN, sT, sM⟩ := small_consts
  obtain ⟨h1, h2, h3, h4⟩ := C07.branch_pred_long (discount g (.value n S sc)).reverse hGwf Vtx.root u a
    (.func k1) (.func k2) o' (.value n S sc) weightNormal weightMatchingName weightTyped
    weightMatchingName weightTyped weightTyped weightNormal pops hL (by rw [G_verts]; exact hroot)
    hdist cu ca c1 c2 co' ccur (by decide) (by decide) (by decide) ⟨sN, sM, sT, sM, sT, sT, sN⟩
  obtain ⟨hc1, hc2, hc3⟩ := choosePath_chain g (.value n S sc) pops hL.2.1
  obtain ⟨l, hl⟩ := List.getLast?_eq_some_iff.1 hc2
  exact pchain_four (l := l) (rest := []) hl hc1 hc3 h1 h2 h3 h4

end ArgMapper.AffinityCG
