import ArgMapper.Props.C19
/-!
# Helper lemmas for `Props/C19b.lean`: one more `specStep` after a history
-/
namespace ArgMapper.C19
open ArgMapper AGraph GraphSpec GraphImpl
variable {α : Type} [DecidableEq α]

theorem specRun_snoc (ops : List (GOp α)) (x : GOp α) : specRun (ops ++ [x]) = specStep (specRun ops) x := by
  simp [specRun, List.foldl_append]

theorem handlesOk_append (ops ops' : List (GOp α)) : ∀ s, HandlesOk s (ops ++ ops') →
    HandlesOk s ops ∧ HandlesOk (ops.foldl specStep s) ops' := by
  induction ops with
  | nil => intro s h; exact ⟨trivial, h⟩
  | cons op ops ih =>
    intro s h
    have := ih _ h.2
    exact ⟨⟨h.1, this.1⟩, this.2⟩

theorem respects_prefix (ops ops' : List (GOp α)) (hr : Respects (ops ++ ops')) : Respects ops := by
  unfold Respects at hr ⊢
  have : specRun (ops ++ ops') = ops'.foldl specStep (specRun ops) := by
    simp [specRun, List.foldl_append]
  rw [this] at hr
  exact noPois_of_foldl ops' hr

theorem cok (ops : List (GOp α)) (hh : HandlesOk SpecWorld.empty ops) (hr : Respects ops) (h : Nat)
    (hlt : h < (specRun ops).handles.length) :
    ((specRun ops).handle h).1 < (specRun ops).classes.length :=
  (run_obs ops (handlesOk_hOk ops _ hh) hr).cok h hlt

/-- the handle named by the last operation of a `HandlesOk` history exists before it -/
theorem last_ok (ops : List (GOp α)) (x : GOp α) (hh : HandlesOk SpecWorld.empty (ops ++ [x])) :
    HandlesOk (specRun ops) [x] := (handlesOk_append ops [x] _ hh).2

/-! ### the specification after one more step -/

theorem handle_lt_append (s : SpecWorld α) (x : Nat × Bool) (k : Nat) (hk : k < s.handles.length) :
    (s.handles ++ [x]).getD k (0, false) = s.handle k := by
  unfold SpecWorld.handle; exact getD_append_lt _ _ _ _ hk

section remove
variable (s : SpecWorld α) (h : Nat) (v : α) (hc : (s.handle h).1 < s.classes.length)
include hc

theorem remove_handle (k : Nat) : (specStep s (.remove h v)).handle k = s.handle k := rfl

theorem remove_cls : (specStep s (.remove h v)).cls h =
    { s.cls h with g := (s.cls h).g.remove v, tags := (s.cls h).tags.filter (fun p => !decide (p.1 = v)) } := by
  show (s.setCls h _).cls h = _
  rw [setCls_cls _ _ _ _ hc]; simp

theorem remove_weight (a b : α) : ((specStep s (.remove h v)).view h).weight a b =
    if a = v ∨ b = v then none else (s.view h).weight a b := by
  rw [view_weight, view_weight, remove_cls s h v hc, remove_handle s h v hc]
  exact clsW_remove _ _ _ _ _ _ _

theorem remove_verts (x : α) : x ∈ ((specStep s (.remove h v)).view h).verts ↔ x ∈ (s.view h).verts ∧ x ≠ v := by
  rw [view_verts, view_verts, remove_cls s h v hc]
  exact mem_remove_verts _ _ _

end remove

section addow
variable (s : SpecWorld α) (h : Nat) (v : α) (tag : Nat) (hc : (s.handle h).1 < s.classes.length)
include hc

theorem addow_cls : (specStep s (.addow h v tag)).cls h =
    { s.cls h with g := (s.cls h).g.add v, tags := setTag (s.cls h).tags v tag } := by
  show (s.setCls h _).cls h = _
  rw [setCls_cls _ _ _ _ hc]; simp

theorem addow_weight (a b : α) : ((specStep s (.addow h v tag)).view h).weight a b = (s.view h).weight a b := by
  rw [view_weight, view_weight, addow_cls s h v tag hc]
  show clsW _ (s.handle h).2 a b = _
  unfold clsW
  simp only [weight_add]

theorem addow_vert : v ∈ ((specStep s (.addow h v tag)).view h).verts ∧
    aget ((specStep s (.addow h v tag)).cls h).tags v = some tag := by
  rw [view_verts, addow_cls s h v tag hc]
  refine ⟨(mem_add_verts _ _ _).2 (Or.inr rfl), ?_⟩
  show aget (setTag _ v tag) v = _
  rw [aget_setTag]; simp

end addow

section reverse
variable (s : SpecWorld α) (h : Nat) (hlt : h < s.handles.length)
include hlt

theorem reverse_handle_new : (specStep s (.reverse h)).handle s.handles.length = ((s.handle h).1, !(s.handle h).2) := by
  show (s.handles ++ [_]).getD s.handles.length (0, false) = _
  exact getD_append_len _ _ _

theorem reverse_handle_old (k : Nat) (hk : k < s.handles.length) : (specStep s (.reverse h)).handle k = s.handle k :=
  handle_lt_append s _ k hk

theorem reverse_cls_new : (specStep s (.reverse h)).cls s.handles.length = s.cls h := by
  unfold SpecWorld.cls; rw [reverse_handle_new s h hlt]; rfl

theorem reverse_cls_old (k : Nat) (hk : k < s.handles.length) : (specStep s (.reverse h)).cls k = s.cls k := by
  unfold SpecWorld.cls; rw [reverse_handle_old s h hlt k hk]; rfl

theorem reverse_weight (a b : α) : ((specStep s (.reverse h)).view s.handles.length).weight a b =
    ((specStep s (.reverse h)).view h).weight b a := by
  rw [view_weight, view_weight, reverse_cls_new s h hlt, reverse_cls_old s h hlt h hlt,
    reverse_handle_new s h hlt, reverse_handle_old s h hlt h hlt]
  unfold clsW
  cases (s.handle h).2 <;> simp

theorem reverse_verts : ((specStep s (.reverse h)).view s.handles.length).verts = ((specStep s (.reverse h)).view h).verts := by
  rw [view_verts, view_verts, reverse_cls_new s h hlt, reverse_cls_old s h hlt h hlt]

theorem reverse_tags : ((specStep s (.reverse h)).cls s.handles.length).tags = ((specStep s (.reverse h)).cls h).tags := by
  rw [reverse_cls_new s h hlt, reverse_cls_old s h hlt h hlt]

end reverse

section copy
variable (s : SpecWorld α) (h : Nat) (hlt : h < s.handles.length)
include hlt

theorem copy_handle_new : (specStep s (.copy h)).handle s.handles.length = (s.classes.length, (s.handle h).2) := by
  show (s.handles ++ [_]).getD s.handles.length (0, false) = _
  exact getD_append_len _ _ _

theorem copy_handle_old (k : Nat) (hk : k < s.handles.length) : (specStep s (.copy h)).handle k = s.handle k :=
  handle_lt_append s _ k hk

theorem copy_cls_new : (specStep s (.copy h)).cls s.handles.length = s.cls h := by
  unfold SpecWorld.cls; rw [copy_handle_new s h hlt]
  show (s.classes ++ [_]).getD s.classes.length _ = _
  exact getD_append_len _ _ _

theorem copy_cls_old (k : Nat) (hk : k < s.handles.length) (hc : (s.handle k).1 < s.classes.length) :
    (specStep s (.copy h)).cls k = s.cls k := by
  unfold SpecWorld.cls; rw [copy_handle_old s h hlt k hk]
  show (s.classes ++ [_]).getD _ _ = _
  exact getD_append_lt _ _ _ _ hc

theorem copy_view (hc : (s.handle h).1 < s.classes.length) :
    (specStep s (.copy h)).view s.handles.length = (specStep s (.copy h)).view h := by
  unfold SpecWorld.view
  rw [copy_cls_new s h hlt, copy_cls_old s h hlt h hlt hc, copy_handle_new s h hlt, copy_handle_old s h hlt h hlt]

theorem copy_tags (hc : (s.handle h).1 < s.classes.length) :
    ((specStep s (.copy h)).cls s.handles.length).tags = ((specStep s (.copy h)).cls h).tags := by
  rw [copy_cls_new s h hlt, copy_cls_old s h hlt h hlt hc]

end copy

/-- a mutator leaves the handle table alone -/
theorem mut_handles (s : SpecWorld α) (op : GOp α) (k : Nat)
    (hop : match op with
      | .add k' _ _ | .addow k' _ _ | .edge k' _ _ _ | .redge k' _ _ | .remove k' _ => k' = k
      | _ => False) : (specStep s op).handles = s.handles := by
  rcases step_setCls s op k hop with e | ⟨c', e⟩ <;> rw [e]
  rfl

/-- a mutation through the fresh copy's handle leaves what an older handle denotes unchanged -/
theorem copy_mut_old (s : SpecWorld α) (h : Nat) (op : GOp α)
    (hop : match op with
      | .add k _ _ | .addow k _ _ | .edge k _ _ _ | .redge k _ _ | .remove k _ => k = s.handles.length
      | _ => False)
    (k : Nat) (hk : k < s.handles.length) (hc : (s.handle k).1 < s.classes.length) :
    (specStep (specStep s (.copy h)) op).handle k = s.handle k ∧
    (specStep (specStep s (.copy h)) op).cls k = s.cls k := by
  have h1 : (specStep (specStep s (.copy h)) op).handle k = s.handle k := by
    unfold SpecWorld.handle
    rw [mut_handles _ op _ hop]
    exact handle_lt_append s _ k hk
  refine ⟨h1, ?_⟩
  unfold SpecWorld.cls
  rw [h1, List.getD_eq_getElem?_getD, List.getD_eq_getElem?_getD, copy_indep s h op hop _ hc]

end ArgMapper.C19
