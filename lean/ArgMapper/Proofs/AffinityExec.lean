import ArgMapper.Model.Reach
import ArgMapper.Proofs.WalkEqs
import ArgMapper.Proofs.ErrorProp
/-!
# Execution-level helper lemmas for C07 (`Props/C07c.lean`)

A converter whose single requirement already holds a value is resolved without any path walk
(`reach` returns the one-entry argument map), executed exactly once by `callDirect`, and whatever
happens afterwards (`outputValues`, a returned error) leaves the log alone.
-/
namespace ArgMapper.AffinityExec
open ArgMapper WalkEqs

theorem mapGet_mapSet_self {β : Type} (m : List (Vtx × β)) (k : Vtx) (v : β) :
    mapGet (mapSet m k v) k = some v := by
  unfold mapGet mapSet
  induction m with
  | nil => simp
  | cons a m ih =>
    by_cases h1 : a.1 = k <;> simp_all

theorem mapGet_mapSet_ne {β : Type} (m : List (Vtx × β)) (k k' : Vtx) (v : β) (h : k' ≠ k) :
    mapGet (mapSet m k v) k' = mapGet m k' := by
  unfold mapGet mapSet
  induction m with
  | nil => simp [Ne.symm h]
  | cons a m ih =>
    by_cases h1 : a.1 = k <;> by_cases h2 : a.1 = k' <;>
      simp_all [List.find?_cons]

theorem assignable_refl (e : TypeEnv) (t : Nat) : e.assignable t t = true := by
  simp [TypeEnv.assignable]

/-- `reach` on a function vertex whose only requirement is taken as it is -/
theorem reach_single (c : Ctx) (fuel : Nat) (reaching : List Vtx) (s : CallSt) (k : Nat) (q : Vtx) (x : PVal)
    (item : OrcItem) (orest : List OrcItem)
    (hreq : c.g.outs (.func k) = [q]) (hq : (q == Vtx.root) = false) (htaken : takenAsIs c s q = true)
    (hget : s.get q = some x)
    (horc : s.orc = item :: orest) (hitem : item.target = .func k) (hmiss : item.missing = [])
    (hskip : c.skipRecordsInput = false) :
    reach c false (fuel + 1) reaching (.func k) s = (.ok [(q, x)], { s with orc := orest }) := by
  unfold reach
  simp only [hreq, hskip, horc, hitem, hmiss, List.filter_cons, List.filter_nil, hq, htaken, Bool.false_or,
    Bool.not_true, Bool.false_eq_true, if_false, if_true, List.filterMap_cons, List.filterMap_nil, hget,
    Option.map_some, ne_eq, not_true_eq_false, sameMembers, List.all_nil, Bool.and_self, decide_true,
    List.isEmpty_nil, List.length_nil]

theorem gatherArgs_single (e : TypeEnv) (f : FuncDesc) (q : Vtx) (t : Nat) (x : PVal)
    (hin : f.input.values.map (fun v => v.lab.vertex) = [q])
    (hlabty : ∀ v ∈ f.input.values, v.lab.ty = t) (hassign : e.assignable x.ty t = true) :
    gatherArgs e f [(q, x)] = .ok [{ ty := t, id := x.id, org := x.org }] := by
  unfold gatherArgs
  match hv : f.input.values, hin, hlabty with
  | [v], hin, hlabty =>
    simp only [List.map_cons, List.map_nil, List.cons.injEq, and_true] at hin
    have ht : v.lab.ty = t := hlabty v (by simp)
    simp [List.foldl_cons, hin, ht, mapGet, hassign]

/-- `callDirect` of a non-memoised function with the one-entry argument map -/
theorem callDirect_single (c : Ctx) (f : FuncDesc) (s : CallSt) (q : Vtx) (t : Nat) (x : PVal)
    (honce : f.once = false)
    (hin : f.input.values.map (fun v => v.lab.vertex) = [q])
    (hlabty : ∀ v ∈ f.input.values, v.lab.ty = t) (hassign : c.env.assignable x.ty t = true) :
    ∃ r s2 ev, callDirect c f [(q, x)] s = (.ok (r, false), s2) ∧ s2.log = s.log ++ [ev] ∧
      ev.fid = f.id ∧ ev.args = [{ ty := t, id := x.id, org := x.org }] := by
  unfold callDirect
  simp only [honce, Bool.false_eq_true, if_false, gatherArgs_single c.env f q t x hin hlabty hassign]
  exact ⟨_, _, _, rfl, rfl, rfl, rfl⟩

/-- after the execution the function step does not touch the log -/
theorem walkStep_func_log (c : Ctx) (rec : Vtx → CallSt → Except RErr ArgMap × CallSt) (w : WalkSt)
    (h : w.err = none) (k : Nat) (f : FuncDesc) (hf : c.funcOf k = some f)
    (am : ArgMap) (s1 : CallSt) (hr : rec (.func k) w.s = (.ok am, s1))
    (r : BehOut) (unw : Bool) (s2 : CallSt) (hc : callDirect c f am s1 = (.ok (r, unw), s2)) :
    (walkStep c rec w (.func k)).s.log = s2.log := by
  cases hre : r.err with
  | some ε => rw [walkStep_func_funcErr c rec h k hf hr hc hre]
  | none =>
    cases hov : outputValues c f r unw s2 with
    | error e => rw [walkStep_func_outErr c rec h k hf hr hc hre hov]
    | ok s3 =>
      rw [walkStep_func_ok c rec h k hf hr hc hre hov]
      exact (ErrorProp.outputValues_eff c f r unw s2 s3 hov).1

/-- the function step on a converter whose single requirement `q` holds `x` and is taken as it is -/
theorem walkStep_func_single (c : Ctx) (fuel : Nat) (reaching : List Vtx) (w : WalkSt) (h : w.err = none)
    (k : Nat) (f : FuncDesc) (q : Vtx) (t : Nat) (x : PVal) (item : OrcItem) (orest : List OrcItem)
    (hf : c.funcOf k = some f) (honce : f.once = false)
    (hreq : c.g.outs (.func k) = [q]) (hq : (q == Vtx.root) = false) (htaken : takenAsIs c w.s q = true)
    (hget : w.s.get q = some x)
    (hin : f.input.values.map (fun v => v.lab.vertex) = [q])
    (hlabty : ∀ v ∈ f.input.values, v.lab.ty = t) (hassign : c.env.assignable x.ty t = true)
    (horc : w.s.orc = item :: orest) (hitem : item.target = .func k) (hmiss : item.missing = [])
    (hskip : c.skipRecordsInput = false) :
    ∃ ev, (walkStep c (fun v st => reach c false (fuel + 1) reaching v st) w (.func k)).s.log = w.s.log ++ [ev] ∧
      ev.fid = f.id ∧ ev.args = [{ ty := t, id := x.id, org := x.org }] := by
  have hr := reach_single c fuel reaching w.s k q x item orest hreq hq htaken hget horc hitem hmiss hskip
  obtain ⟨r, s2, ev, hc, hlog, hfid, hargs⟩ :=
    callDirect_single c f { w.s with orc := orest } q t x honce hin hlabty hassign
  refine ⟨ev, ?_, hfid, hargs⟩
  rw [walkStep_func_log c _ w h k f hf _ _ hr r false s2 hc, hlog]

/-! ### the path prefixes -/

/-- after `root, value n tu su` (the value vertex holding `x`) only `last` has changed -/
theorem walk_root_value (c : Ctx) (rec : Vtx → CallSt → Except RErr ArgMap × CallSt) (s : CallSt)
    (n : String) (tu : Nat) (su : String) (x : PVal) (hx : s.get (.value n tu su) = some x) :
    [Vtx.root, .value n tu su].foldl (walkStep c rec) { s := s, final := none, prev := none, err := none } =
      { s := { s with last := some x }, final := some x, prev := some (.value n tu su), err := none } := by
  simp only [List.foldl_cons, List.foldl_nil]
  rw [walkStep_root c rec rfl, walkStep_value c rec rfl]
  simp only [valCopy, hx, ite_self]
  rfl

@[simp] theorem set_orc (s : CallSt) (v : Vtx) (x : Option PVal) : (s.set v x).orc = s.orc := by
  unfold CallSt.set; split <;> rfl

theorem get_set_self (s : CallSt) (v : Vtx) (x : PVal) : (s.set v (some x)).get v = some x := by
  simp only [CallSt.get, CallSt.set, mapGet_mapSet_self]

/-- after `root, value n tu su, arg t ""` the argument vertex holds `x` as well -/
theorem walk_root_value_arg (c : Ctx) (rec : Vtx → CallSt → Except RErr ArgMap × CallSt) (s : CallSt)
    (n : String) (tu : Nat) (su : String) (t : Nat) (x : PVal) (hx : s.get (.value n tu su) = some x)
    (hassign : c.env.assignable x.ty t = true) :
    [Vtx.root, .value n tu su, .arg t ""].foldl (walkStep c rec) { s := s, final := none, prev := none, err := none } =
      { s := ({ s with last := some x } : CallSt).set (.arg t "") (some x), final := some x,
        prev := some (.arg t ""), err := none } := by
  have h := walk_root_value c rec s n tu su x hx
  simp only [List.foldl_cons, List.foldl_nil] at h ⊢
  rw [h, walkStep_arg c rec rfl]
  simp only [argStore, hassign, if_true, get_set_self]

end ArgMapper.AffinityExec
