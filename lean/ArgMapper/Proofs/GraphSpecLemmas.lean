import ArgMapper.Spec.GraphSpec
import ArgMapper.Proofs.GraphAssoc
/-!
# Specification-side lemmas for C19: `AGraph.weight` under the mutators, `WF` preservation,
monotonicity of poisoning
-/
set_option linter.unusedSectionVars false
namespace ArgMapper
namespace AGraph
variable {α : Type} [DecidableEq α]

theorem isEdge_iff (u v : α) (e : α × α × Int) : isEdge u v e = true ↔ e.1 = u ∧ e.2.1 = v := by
  simp [isEdge]

theorem find_filter_keep (p q : α × α × Int → Bool) (es : List (α × α × Int))
    (h : ∀ e, p e = true → q e = true) : (es.filter q).find? p = es.find? p := by
  induction es with
  | nil => rfl
  | cons e es ih =>
    by_cases hq : q e = true
    · simp only [List.filter_cons, hq, if_true, List.find?_cons, ih]
    · have hp : p e = false := by
        cases hpe : p e with
        | false => rfl
        | true => exact absurd (h e hpe) hq
      rw [List.filter_cons_of_neg hq, ih, List.find?_cons, hp]

theorem find_filter_drop (p q : α × α × Int → Bool) (es : List (α × α × Int))
    (h : ∀ e, p e = true → q e = false) : (es.filter q).find? p = none := by
  rw [List.find?_eq_none]
  intro e he
  rw [List.mem_filter] at he
  intro hp
  have := h e hp
  rw [this] at he
  exact absurd he.2 (by simp)

theorem weight_addEdge (g : AGraph α) (u v : α) (w : Int) (a b : α) :
    (g.addEdge u v w).weight a b = if a = u ∧ b = v then some w else g.weight a b := by
  unfold weight addEdge
  simp only [List.find?_append]
  by_cases h : a = u ∧ b = v
  · obtain ⟨rfl, rfl⟩ := h
    rw [find_filter_drop]
    · simp [isEdge]
    · intro e he; simp [he]
  · rw [find_filter_keep]
    · have : isEdge a b (u, v, w) = false := by
        cases hh : isEdge a b (u, v, w) with
        | false => rfl
        | true =>
          rw [isEdge_iff] at hh
          exact absurd ⟨hh.1.symm, hh.2.symm⟩ h
      simp [h, this]
    · intro e he
      rw [isEdge_iff] at he
      cases hh : isEdge u v e with
      | false => rfl
      | true =>
        rw [isEdge_iff] at hh
        exfalso; apply h
        exact ⟨he.1.symm.trans hh.1, he.2.symm.trans hh.2⟩

theorem weight_removeEdge (g : AGraph α) (u v : α) (a b : α) :
    (g.removeEdge u v).weight a b = if a = u ∧ b = v then none else g.weight a b := by
  unfold weight removeEdge
  by_cases h : a = u ∧ b = v
  · obtain ⟨rfl, rfl⟩ := h
    rw [find_filter_drop]
    · simp
    · intro e he; simp [he]
  · rw [find_filter_keep]
    · simp [h]
    · intro e he
      rw [isEdge_iff] at he
      cases hh : isEdge u v e with
      | false => rfl
      | true =>
        rw [isEdge_iff] at hh
        exfalso; apply h
        exact ⟨he.1.symm.trans hh.1, he.2.symm.trans hh.2⟩

theorem weight_remove (g : AGraph α) (v : α) (a b : α) :
    (g.remove v).weight a b = if a = v ∨ b = v then none else g.weight a b := by
  unfold weight remove
  by_cases h : a = v ∨ b = v
  · rw [find_filter_drop]
    · simp [h]
    · intro e he
      rw [isEdge_iff] at he
      rcases h with h | h
      · simp [he.1, h]
      · simp [he.2, h]
  · rw [find_filter_keep]
    · simp [h]
    · intro e he
      rw [isEdge_iff] at he
      have h1 : ¬ a = v := fun e => h (Or.inl e)
      have h2 : ¬ b = v := fun e => h (Or.inr e)
      simp [he.1, he.2, h1, h2]

theorem weight_reverse (g : AGraph α) (a b : α) : g.reverse.weight a b = g.weight b a := by
  unfold weight reverse
  simp only
  induction g.edges with
  | nil => rfl
  | cons e es ih =>
    simp only [List.map_cons, List.find?_cons]
    have : isEdge a b (e.2.1, e.1, e.2.2) = isEdge b a e := by
      simp [isEdge, Bool.and_comm]
    rw [this]
    cases isEdge b a e with
    | true => simp
    | false => simpa using ih

theorem weight_add (g : AGraph α) (v : α) (a b : α) : (g.add v).weight a b = g.weight a b := by
  unfold add
  split <;> rfl

theorem mem_add_verts (g : AGraph α) (v x : α) : x ∈ (g.add v).verts ↔ x ∈ g.verts ∨ x = v := by
  unfold add
  split
  · constructor
    · exact Or.inl
    · rintro (h | h)
      · exact h
      · subst h; assumption
  · simp

theorem mem_remove_verts (g : AGraph α) (v x : α) : x ∈ (g.remove v).verts ↔ x ∈ g.verts ∧ x ≠ v := by
  simp [remove]

theorem weight_empty (a b : α) : (AGraph.empty : AGraph α).weight a b = none := rfl

/-! ### `WF` preservation -/

theorem WF_empty : (AGraph.empty : AGraph α).WF := by
  simp [WF, AGraph.empty]

theorem WF_add (g : AGraph α) (v : α) (h : g.WF) : (g.add v).WF := by
  unfold add
  split
  · exact h
  · rename_i hv
    obtain ⟨h1, h2, h3⟩ := h
    refine ⟨?_, h2, ?_⟩
    · simp only
      rw [List.nodup_append]
      refine ⟨h1, by simp, ?_⟩
      intro a ha b hb
      simp only [List.mem_singleton] at hb
      subst hb
      intro e; subst e; exact hv ha
    · intro e he
      have := h3 e he
      simp [this.1, this.2]

theorem WF_removeEdge (g : AGraph α) (u v : α) (h : g.WF) : (g.removeEdge u v).WF := by
  obtain ⟨h1, h2, h3⟩ := h
  refine ⟨h1, ?_, ?_⟩
  · exact (List.filter_sublist.map _).nodup h2
  · intro e he
    simp only [removeEdge, List.mem_filter] at he
    exact h3 e he.1

theorem WF_addEdge (g : AGraph α) (u v : α) (w : Int) (h : g.WF) (hu : u ∈ g.verts) (hv : v ∈ g.verts) :
    (g.addEdge u v w).WF := by
  obtain ⟨h1, h2, h3⟩ := h
  refine ⟨h1, ?_, ?_⟩
  · simp only [addEdge, List.map_append, List.map_cons, List.map_nil]
    rw [List.nodup_append]
    refine ⟨(List.filter_sublist.map _).nodup h2, by simp, ?_⟩
    intro a ha b hb
    simp only [List.mem_singleton] at hb
    subst hb
    rw [List.mem_map] at ha
    obtain ⟨e, he, rfl⟩ := ha
    rw [List.mem_filter] at he
    intro heq
    have : isEdge u v e = true := by
      rw [isEdge_iff]
      exact ⟨congrArg Prod.fst heq, congrArg Prod.snd heq⟩
    simp [this] at he
  · intro e he
    simp only [addEdge, List.mem_append, List.mem_filter, List.mem_singleton] at he
    rcases he with he | he
    · exact h3 e he.1
    · subst he; exact ⟨hu, hv⟩

theorem WF_remove (g : AGraph α) (v : α) (h : g.WF) : (g.remove v).WF := by
  obtain ⟨h1, h2, h3⟩ := h
  refine ⟨?_, ?_, ?_⟩
  · exact List.filter_sublist.nodup h1
  · exact (List.filter_sublist.map _).nodup h2
  · intro e he
    simp only [remove, List.mem_filter, Bool.and_eq_true, decide_eq_true_eq] at he ⊢
    exact ⟨⟨(h3 e he.1).1, he.2.1⟩, ⟨(h3 e he.1).2, he.2.2⟩⟩

end AGraph

namespace GraphSpec
variable {α : Type} [DecidableEq α]
open AGraph

def AllWF (s : SpecWorld α) : Prop := ∀ c ∈ s.classes, c.g.WF

theorem cls_wf {s : SpecWorld α} (hs : AllWF s) (h : Nat) : (s.cls h).g.WF := by
  unfold SpecWorld.cls
  rw [List.getD_eq_getElem?_getD]
  cases hh : s.classes[(s.handle h).1]? with
  | none => exact WF_empty
  | some c => exact hs c (List.mem_of_getElem? hh)

theorem setCls_wf {s : SpecWorld α} (hs : AllWF s) (h : Nat) (c' : SClass α) (hc : c'.g.WF) :
    AllWF (s.setCls h c') := by
  intro c hmem
  simp only [SpecWorld.setCls] at hmem
  rcases List.mem_or_eq_of_mem_set hmem with h1 | h1
  · exact hs c h1
  · subst h1; exact hc

theorem step_wf {s : SpecWorld α} (hs : AllWF s) (op : GOp α) : AllWF (specStep s op) := by
  cases op with
  | new =>
    intro c hc
    simp only [specStep, List.mem_append, List.mem_singleton] at hc
    rcases hc with hc | hc
    · exact hs c hc
    · subst hc; exact WF_empty
  | add h v tag =>
    simp only [specStep]
    split
    · exact hs
    · exact setCls_wf hs h _ (WF_add _ _ (cls_wf hs h))
  | addow h v tag => exact setCls_wf hs h _ (WF_add _ _ (cls_wf hs h))
  | edge h u v w =>
    simp only [specStep]
    split
    · rename_i hp
      split
      · exact setCls_wf hs h _ (WF_addEdge _ _ _ _ (cls_wf hs h) hp.2 hp.1)
      · exact setCls_wf hs h _ (WF_addEdge _ _ _ _ (cls_wf hs h) hp.1 hp.2)
    · exact setCls_wf hs h _ (cls_wf hs h)
  | redge h u v =>
    simp only [specStep]
    split
    · exact setCls_wf hs h _ (WF_removeEdge _ _ _ (cls_wf hs h))
    · exact setCls_wf hs h _ (WF_removeEdge _ _ _ (cls_wf hs h))
  | remove h v => exact setCls_wf hs h _ (WF_remove _ _ (cls_wf hs h))
  | copy h =>
    intro c hc
    simp only [specStep, List.mem_append, List.mem_singleton] at hc
    rcases hc with hc | hc
    · exact hs c hc
    · subst hc; exact cls_wf hs h
  | reverse h => exact hs

theorem foldl_wf (ops : List (GOp α)) : ∀ {s : SpecWorld α}, AllWF s → AllWF (ops.foldl specStep s) := by
  induction ops with
  | nil => intro s hs; exact hs
  | cons op ops ih => intro s hs; exact ih (step_wf hs op)

/-! ### poisoning is monotone -/

def Pois (s : SpecWorld α) : Prop := ∃ c ∈ s.classes, c.poisoned = true

theorem setCls_pois {s : SpecWorld α} (hp : Pois s) (h : Nat) (c' : SClass α)
    (hc : c'.poisoned = true ∨ c'.poisoned = (s.cls h).poisoned) : Pois (s.setCls h c') := by
  obtain ⟨c, hmem, hcp⟩ := hp
  obtain ⟨j, hj, hcj⟩ := List.mem_iff_getElem.1 hmem
  by_cases hji : (s.handle h).1 = j
  · refine ⟨c', ?_, ?_⟩
    · simp only [SpecWorld.setCls]
      rw [hji]
      exact List.mem_set hj _
    · rcases hc with hc | hc
      · exact hc
      · rw [hc]
        unfold SpecWorld.cls
        rw [hji, List.getD_eq_getElem?_getD, List.getElem?_eq_getElem hj]
        simp [hcj, hcp]
  · refine ⟨c, ?_, hcp⟩
    simp only [SpecWorld.setCls]
    rw [List.mem_iff_getElem]
    refine ⟨j, by simpa using hj, ?_⟩
    rw [List.getElem_set_ne hji]
    exact hcj

theorem step_pois {s : SpecWorld α} (hp : Pois s) (op : GOp α) : Pois (specStep s op) := by
  cases op with
  | new =>
    obtain ⟨c, hmem, hcp⟩ := hp
    exact ⟨c, by simp [specStep, hmem], hcp⟩
  | add h v tag =>
    simp only [specStep]
    split
    · exact hp
    · exact setCls_pois hp h _ (Or.inr rfl)
  | addow h v tag => exact setCls_pois hp h _ (Or.inr rfl)
  | edge h u v w =>
    simp only [specStep]
    split
    · split
      · exact setCls_pois hp h _ (Or.inr rfl)
      · exact setCls_pois hp h _ (Or.inr rfl)
    · exact setCls_pois hp h _ (Or.inl rfl)
  | redge h u v =>
    simp only [specStep]
    split
    · exact setCls_pois hp h _ (Or.inr rfl)
    · exact setCls_pois hp h _ (Or.inr rfl)
  | remove h v => exact setCls_pois hp h _ (Or.inr rfl)
  | copy h =>
    obtain ⟨c, hmem, hcp⟩ := hp
    exact ⟨c, by simp [specStep, hmem], hcp⟩
  | reverse h => exact hp

theorem foldl_pois (ops : List (GOp α)) : ∀ {s : SpecWorld α}, Pois s → Pois (ops.foldl specStep s) := by
  induction ops with
  | nil => intro s hs; exact hs
  | cons op ops ih => intro s hs; exact ih (step_pois hs op)

def NoPois (s : SpecWorld α) : Prop := ∀ c ∈ s.classes, c.poisoned = false

theorem noPois_of_foldl (ops : List (GOp α)) {s : SpecWorld α} (h : NoPois (ops.foldl specStep s)) :
    NoPois s := by
  intro c hc
  cases hcp : c.poisoned with
  | false => rfl
  | true =>
    obtain ⟨c', hc', hp'⟩ := foldl_pois ops (s := s) ⟨c, hc, hcp⟩
    rw [h c' hc'] at hp'
    exact absurd hp' (by simp)

/-- an unpoisoned `edge` step had both endpoints present -/
theorem edge_present {s : SpecWorld α} {h : Nat} {u v : α} {w : Int}
    (hc : (s.handle h).1 < s.classes.length) (hn : NoPois (specStep s (.edge h u v w))) :
    u ∈ (s.cls h).g.verts ∧ v ∈ (s.cls h).g.verts := by
  by_cases hp : u ∈ (s.cls h).g.verts ∧ v ∈ (s.cls h).g.verts
  · exact hp
  · exfalso
    simp only [specStep, hp, if_false] at hn
    have := hn _ (by simp only [SpecWorld.setCls]; exact List.mem_set hc _)
    simp at this

/-! ### payload table -/

theorem aget_setTag (m : List (α × Nat)) (v : α) (t : Nat) (x : α) :
    GraphImpl.aget (setTag m v t) x = if x = v then some t else GraphImpl.aget m x := by
  unfold setTag
  have : m.filter (fun p => !decide (p.1 = v)) = GraphImpl.adel m v := rfl
  rw [this, GraphImpl.aget_append, GraphImpl.aget_adel, GraphImpl.aget_single]
  by_cases hx : x = v
  · subst hx; simp
  · have : ¬ v = x := fun e => hx e.symm
    simp [hx, this]

end GraphSpec
end ArgMapper
