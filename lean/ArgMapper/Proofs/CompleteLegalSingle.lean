import ArgMapper.Proofs.CompleteLegal
/-!
# Single-input converters: `reachTarget` reports nothing unsatisfied when R6 hops copy, or there is none
(helper lemmas for C05c)

With at most one input per converter the requirement of a converter met on a path is the vertex processed
just before it (or the root).  When an R6 hop (`value n t "" → value n t s`) copies the value
(`c.hopCopies = true`, the repair of finding F22) or the graph has no R6 edge, the walk invariant
`WalkPanic.PrevP` says that vertex holds a value, so the nested search of the converter finds nothing
missing and returns at once (`ExactWins.reach_all_present`): no planning, hence no unsatisfied argument.
The top-level search plans paths that avoid the target's vertex (it has no in-edge).

With R6 edges and hops that copy nothing (`c.hopCopies = false`) this is false: `CompleteLegalCE.unsat_reached`.
-/
set_option linter.unusedSectionVars false
set_option linter.unusedVariables false
namespace ArgMapper.CompleteLegal
open ArgMapper WalkEqs ReachSound Complete WalkPanic

/-- what the single-input argument needs in addition to `WalkPanic.Facts` -/
structure SFacts (c : Ctx) (tk : Nat) : Prop where
  tvn : c.takeValuedNamed = true
  tr : c.trackReaching = true
  funcReq : ∀ k y, c.g.hasEdge (.func k) y = true →
    ∃ f, c.funcOf k = some f ∧ (y = .root ∨ ∃ v ∈ f.input.values, y = v.lab.vertex)
  funcRoot : ∀ k f, k ≠ tk → c.funcOf k = some f → c.g.hasEdge (.func k) .root = true →
    f.input.values = []
  single : ∀ k f, k ≠ tk → c.funcOf k = some f → f.input.values.length ≤ 1
  noTarget : ∀ x, c.g.hasEdge x (.func tk) = false
  /-- R6 hops copy the value (repair of F22), or there is no R6 edge -/
  noHop : c.hopCopies = true ∨ ∀ n t s n' t' s', c.g.hasEdge (.value n t s) (.value n' t' s') = false

variable {c : Ctx} {K : Prop} {Sup : Vtx → Prop} {tk : Nat}

/-- every requirement of a converter met on a path is the root or holds a value -/
theorem conv_ready (sf : SFacts c tk) (done : List Vtx) (s : CallSt) (final : Option PVal) (k : Nat) (hk : k ≠ tk)
    (u : Vtx) (hP : PrevP c s final done (some u)) (he : c.g.hasEdge (.func k) u = true) :
    ∀ y ∈ c.g.outs (.func k), (y == Vtx.root || takenAsIs c s y) = true := by
  intro y hy
  obtain ⟨f, hfo, hreq⟩ := sf.funcReq k u he
  obtain ⟨f', hfo', hreq'⟩ := sf.funcReq k y (hasEdge_of_mem_outs _ _ _ hy)
  rw [hfo] at hfo'
  cases hfo'
  rcases hreq' with rfl | ⟨v', hv', rfl⟩
  · rfl
  · have hu : u = v'.lab.vertex := by
      rcases hreq with rfl | ⟨v0, hv0, rfl⟩
      · rw [sf.funcRoot k f hk hfo he] at hv'
        cases hv'
      · rw [eq_of_length_le_one (sf.single k f hk hfo) hv0 hv']
    rw [← hu]
    have hkind : u.isValue = true ∨ u.isArg = true := by rw [hu]; exact vertex_kind _
    have hsome : (s.get u).isSome = true := by
      cases u with
      | root => rcases hkind with h | h <;> cases h
      | out _ _ => rcases hkind with h | h <;> cases h
      | func _ => rcases hkind with h | h <;> cases h
      | value n t x =>
        obtain ⟨_, _, _, hd⟩ := hP
        rcases hd with hd | ⟨hcf, pre, a, _, ha, hea⟩
        · exact hd
        · rcases sf.noHop with hh | hh
          · rw [hh] at hcf; cases hcf
          · cases a <;> simp [Vtx.isValue] at ha
            rw [hh] at hea
            cases hea
      | arg t x =>
        obtain ⟨_, hd⟩ := hP
        rcases hd with hd | ⟨hcf, pre, a, b', _, ha, hb, heb⟩
        · exact hd
        · rcases sf.noHop with hh | hh
          · rw [hh] at hcf; cases hcf
          · cases a <;> simp [Vtx.isValue] at ha
            cases b' <;> simp [Vtx.isValue] at hb
            rw [hh] at heb
            cases heb
    have : takenAsIs c s u = true := takenAsIs_of_isSome sf.tvn _ _ hkind hsome
    rw [this]; simp

/-- … so its nested search does not report an unsatisfied argument -/
theorem ready_no_unsat (hsri : c.skipRecordsInput = false) (hauto : c.auto = false) (n : Nat) (R : List Vtx)
    (k : Nat) (s : CallSt) (hall : ∀ y ∈ c.g.outs (.func k), (y == Vtx.root || takenAsIs c s y) = true) :
    ∀ e s', reach c false n R (.func k) s = (.error e, s') → ¬ IsUnsat e := by
  intro e s' h
  cases n with
  | zero =>
    simp only [reach, Prod.mk.injEq, Except.error.injEq] at h
    rw [← h.1]
    rintro ⟨l, h'⟩; cases h'
  | succ m =>
    rcases ExactWins.reach_all_present c hsri hauto m R (.func k) s hall with ⟨w, hw⟩ | ⟨rest, hr⟩
    · rw [h] at hw
      simp only [Except.error.injEq] at hw
      rw [hw]
      rintro ⟨l, h'⟩; cases h'
    · rw [hr] at h
      cases h

theorem single_fold (gf : Facts c K Sup) (sf : SFacts c tk) (n : Nat) (R : List Vtx) (p : List Vtx)
    (done : List Vtx) (w : WalkSt) (hw : WInv c K Sup done w) (hwu : ∀ e, w.err = some e → ¬ IsUnsat e)
    (hpath : w.err = none → ∃ u, w.prev = some u ∧ Chain c.g u p) (hnt : ∀ v ∈ p, v ≠ .func tk) :
    ∀ e, (p.foldl (walkStep c (fun v st => reach c false n R v st)) w).err = some e → ¬ IsUnsat e := by
  induction p generalizing done w with
  | nil => exact hwu
  | cons v rest ih =>
    rw [List.foldl_cons]
    have hedge : w.err = none → ∃ u, w.prev = some u ∧ c.g.hasEdge v u = true := fun he => by
      obtain ⟨u, hu, hc⟩ := hpath he
      exact ⟨u, hu, hc.1⟩
    have hw1 : WInv c K Sup (done ++ [v]) (walkStep c (fun v st => reach c false n R v st) w v) :=
      walkStep_winv gf _ (reach_spec gf n R) done w v hw hedge
    have hwu1 : ∀ e, (walkStep c (fun v st => reach c false n R v st) w v).err = some e → ¬ IsUnsat e := by
      apply walkStep_unsat _ _ _ _ hwu
      intro herr k hk e s' he
      subst hk
      obtain ⟨hS, hP, _⟩ := hw.2 herr
      obtain ⟨u, hu, heu⟩ := hedge herr
      rw [hu] at hP
      have hk : k ≠ tk := fun h => hnt (.func k) (by simp) (by rw [h])
      exact ready_no_unsat gf.sri gf.auto n R k w.s (conv_ready sf done w.s w.final k hk u hP heu) e s' he
    have hpath1 : (walkStep c (fun v st => reach c false n R v st) w v).err = none →
        ∃ u, (walkStep c (fun v st => reach c false n R v st) w v).prev = some u ∧ Chain c.g u rest := by
      intro he
      obtain ⟨u, _, hc⟩ := hpath (walkStep_err_mono c _ w v he)
      exact ⟨v, walkStep_prev c _ w v he, hc.2⟩
    exact ih (done ++ [v]) _ hw1 hwu1 hpath1 (fun u hu => hnt u (List.mem_cons_of_mem _ hu))

theorem single_walkPaths (gf : Facts c K Sup) (sf : SFacts c tk) (n : Nat) (R : List Vtx)
    (paths : List (List Vtx)) (hp : ∀ p ∈ paths, GoodP c p ∧ ∀ v ∈ p, v ≠ .func tk) (am : ArgMap)
    (s : CallSt) (hs : PInv c Sup s) :
    ∀ e, (walkPaths c (fun v st => reach c false n R v st) paths am s).1 = .error e → ¬ IsUnsat e := by
  induction paths generalizing am s with
  | nil => intro e h; cases h
  | cons p rest ih =>
    obtain ⟨⟨tl, hptl, htl, hchain, hkind, hpg⟩, hnt⟩ := hp p (by simp)
    unfold walkPaths
    have hw1 : WInv c K Sup [.root] { s := s, final := none, prev := some .root, err := none } :=
      ⟨fun e h => (by cases h), fun _ => ⟨hs, trivial, rfl⟩⟩
    have hnt' : ∀ v ∈ tl, v ≠ .func tk := fun v hv => hnt v (by rw [hptl]; exact List.mem_cons_of_mem _ hv)
    have hfoldW := walkFold_winv gf _ (reach_spec gf n R) tl [.root] _ hw1 (fun _ => ⟨.root, rfl, hchain⟩)
    have hfoldU := single_fold gf sf n R tl [.root] _ hw1 (fun e h => by cases h)
      (fun _ => ⟨.root, rfl, hchain⟩) hnt'
    have hfeq : p.foldl (walkStep c (fun v st => reach c false n R v st))
          { s := s, final := none, prev := none, err := none } =
        tl.foldl (walkStep c (fun v st => reach c false n R v st))
          { s := s, final := none, prev := some .root, err := none } := by
      rw [hptl, List.foldl_cons, walkStep_root c _ rfl]
    rw [hfeq]
    generalize tl.foldl (walkStep c (fun v st => reach c false n R v st))
      { s := s, final := none, prev := some .root, err := none } = w at hfoldW hfoldU
    dsimp only
    split
    · rename_i e he
      intro e' h
      cases h
      exact hfoldU e he
    · rename_i herr
      split
      · exact ih (fun q hq => hp q (List.mem_cons_of_mem _ hq)) _ _ (hfoldW.2 herr).1
      · intro e' h
        cases h
        rintro ⟨l, h'⟩; cases h'

/-- the top-level search: the planned paths avoid the target's vertex -/
theorem single_reach_top (gf : Facts c K Sup) (sf : SFacts c tk) (m : Nat) (s : CallSt) (hs : PInv c Sup s) :
    ∀ e, (reach c false (m + 1) [] (.func tk) s).1 = .error e → ¬ IsUnsat e := by
  unfold reach
  dsimp only
  have hmiss : ∀ cur ∈ (c.g.outs (.func tk)).filter (fun v => !(v == Vtx.root || takenAsIs c s v)),
      cur.isValue = true ∨ cur.isArg = true := by
    intro cur hcur
    simp only [List.mem_filter] at hcur
    have hk := kindOK_of_rule (gf.edgeOK _ _ (hasEdge_of_mem_outs _ _ _ hcur.1))
    have hnr := hcur.2
    cases cur <;> simp_all [kindOK, Vtx.isValue, Vtx.isArg]
  generalize (c.g.outs (.func tk)).filter (fun v => !(v == Vtx.root || takenAsIs c s v)) = missingM at hmiss
  have hs1eq : (if c.skipRecordsInput then
      ((c.g.outs (.func tk)).filter (fun v => v == Vtx.root || takenAsIs c s v)).foldl CallSt.addInput s else s) = s := by
    rw [gf.sri]; rfl
  rw [hs1eq, gf.auto]
  have nb : ∀ w, ¬ IsUnsat (.badOracle w) := fun w => by rintro ⟨l, h⟩; cases h
  cases horc : s.orc with
  | nil =>
    dsimp only
    intro e h; cases h; exact nb _
  | cons item orcRest =>
    dsimp only
    have hs2 : PInv c Sup { s with orc := orcRest } :=
      ⟨sinv_of_store hs.sinv rfl, fun it hit => hs.orc it (by rw [horc]; exact List.mem_cons_of_mem _ hit)⟩
    have hitem : c.hopCopies = true ∨ ItemOK c.g item := hs.orc item (by rw [horc]; exact List.mem_cons_self)
    split
    · intro e h; cases h; exact nb _
    · split
      · intro e h; cases h; exact nb _
      · rename_i hsame
        have hsame' : sameMembers item.missing missingM = true := by simpa using hsame
        simp only [sameMembers, Bool.and_eq_true, List.all_eq_true, decide_eq_true_eq] at hsame'
        split
        · intro e h; cases h
        · split
          · intro e h; cases h; exact nb _
          · rename_i hlen
            simp only [ne_eq, Decidable.not_not] at hlen
            split
            · intro e h; cases h; exact nb _
            · rename_i hvalid
              have hvalid' : ((item.missing.zip item.paths).all fun cp => validPath c.g cp.1 cp.2) = true := by
                simpa using hvalid
              have hgood : ∀ cp ∈ item.missing.zip item.paths, GoodP c cp.2 ∧ ∀ v ∈ cp.2, v ≠ .func tk := by
                intro cp hcp
                have hv := List.all_eq_true.1 hvalid' _ hcp
                obtain ⟨i, hi⟩ := List.mem_iff_getElem?.1 hcp
                rw [List.getElem?_zip_eq_some] at hi
                have hcur := hmiss _ (hsame'.1.1 _ (List.of_mem_zip hcp).1)
                obtain ⟨hg, hlast⟩ := goodP_of_valid cp.1 cp.2 hcur hv
                  (hitem.imp id (fun h => h i cp.1 cp.2 hi.1 hi.2 hv))
                refine ⟨hg, ?_⟩
                obtain ⟨rest, hp, hne, hch, _, _⟩ := hg
                intro v hv'
                rw [hp] at hv'
                rcases List.mem_cons.1 hv' with h | h
                · rw [h]; exact fun h' => by cases h'
                · refine chain_avoids c.g _ sf.noTarget rest .root hch ?_ v h
                  intro l hl
                  rw [hp] at hlast
                  have hl' : (Vtx.root :: rest).getLast? = rest.getLast? := by
                    cases rest with
                    | nil => exact absurd rfl hne
                    | cons a r => rw [List.getLast?_cons_cons]
                  rw [hl', hl] at hlast
                  cases hlast
                  intro h'
                  rw [h'] at hcur
                  rcases hcur with h'' | h'' <;> cases h''
              have hs3 : PInv c Sup ((item.missing.zip item.paths).foldl
                  (planOne (.func tk) [.func tk] c.trackReaching false)
                  { s := { s with orc := orcRest }, unsat := [] }).s :=
                foldl_inv (fun (ps : PlanSt) => PInv c Sup ps.s) _
                  (fun ps cp h => planOne_pinv _ _ _ ps cp h) _ _ hs2
              have hun : ((item.missing.zip item.paths).foldl
                  (planOne (.func tk) [.func tk] c.trackReaching false)
                  { s := { s with orc := orcRest }, unsat := [] }).unsat = [] := by
                rw [sf.tr]
                apply plan_unsat_nil _ _ _ _ _ _ rfl
                intro cp hcp v hv hmem
                simp only [List.mem_singleton] at hmem
                exact (hgood cp hcp).2 v hv hmem
              split
              · rename_i hne
                rw [hun] at hne
                simp at hne
              · apply single_walkPaths gf sf m [.func tk] item.paths _ _ _ hs3
                intro p hp
                obtain ⟨cur, _, hz⟩ := zip_snd_mem item.missing item.paths hlen p hp
                exact hgood _ hz

/-! ### the standard context -/

section
variable {e : TypeEnv} {b : Builder} {funcs : Nat → Option FuncDesc} {target : FuncDesc}

theorem sfacts_std (H : WalkPanic.Hyps e b funcs target)
    (hsi : ∀ f ∈ b.convs.filterMap funcs, f.input.values.length ≤ 1)
    (hkey : ∀ f ∈ b.convs.filterMap funcs, f.key ≠ target.key)
    (beh : Nat → Nat → List PVal → BehOut) :
    SFacts (C01.stdCtx e b funcs target beh) target.key := by
  have hg : (C01.stdCtx e b funcs target beh).g = (ExactWins.fin e b funcs target).g :=
    ExactWins.stdCtx_g e b funcs target beh
  have hcg : (callGraph {} e b funcs target false none).cg.g = (ExactWins.fin e b funcs target).g := by
    rw [ExactWins.callGraph_cg]; rfl
  have hfo : ∀ k, (C01.stdCtx e b funcs target beh).funcOf k =
      (C01.allFuncs b funcs target).find? (fun f => f.key == k) := fun _ => rfl
  have hrule := ExactWins.fin_rule e b funcs target
  have hpre : ∀ x y, (ExactWins.fin e b funcs target).g.hasEdge x y = true →
      (Prune.pre e b funcs target).g.hasEdge x y = true := by
    intro x y h
    rw [← hcg, callGraph_cg_prune] at h
    exact hasEdge_prune (Prune.pre e b funcs target) (.func target.key) x y h
  have hgin := CGF.ginv_callGraph {} e b funcs target none
  have hsame : ∀ k f0, (C01.allFuncs b funcs target).find? (fun f => f.key == k) = some f0 →
      f0 ∈ C01.allFuncs b funcs target ∧ f0.key = k ∧
      ∀ f ∈ C01.allFuncs b funcs target, f.key = k → f0.input = f.input ∧ f0.output = f.output := by
    intro k f0 h
    have hm := List.mem_of_find?_eq_some h
    have hk : f0.key = k := by simpa using List.find?_some h
    exact ⟨hm, hk, fun f hf hfk => H.cons.1 f0 hm f hf (hk.trans hfk.symm)⟩
  have conv_of_ne : ∀ {f : FuncDesc}, f ∈ C01.allFuncs b funcs target → f.key ≠ target.key →
      f ∈ b.convs.filterMap funcs := by
    intro f hf hk
    rcases List.mem_cons.1 hf with rfl | h
    · exact absurd rfl hk
    · exact h
  refine { tvn := rfl, tr := rfl, funcReq := ?_, funcRoot := ?_, single := ?_, noTarget := ?_, noHop := ?_ }
  · -- funcReq
    intro k y he
    rw [hg] at he
    obtain ⟨w, hw⟩ := (ExactWins.hasEdge_iff_weight _ _ _).1 he
    rcases ExactWins.rule_from_func (hrule _ _ _ hw) with ⟨rfl, _⟩ | ⟨f, hf, hk, v, hv, hyv, _⟩
    · obtain ⟨f, hf, hk, _⟩ := pre_func_root e b funcs target k (hpre _ _ he)
      obtain ⟨f0, h0, _, _⟩ := find_key hf hk
      exact ⟨f0, by rw [hfo]; exact h0, Or.inl rfl⟩
    · obtain ⟨f0, h0, _, _⟩ := find_key hf hk
      refine ⟨f0, by rw [hfo]; exact h0, Or.inr ⟨v, ?_, hyv⟩⟩
      rw [((hsame k f0 h0).2.2 f hf hk).1]
      exact hv
  · -- funcRoot
    intro k f0 hk h he
    rw [hfo] at h
    rw [hg] at he
    obtain ⟨hm0, hk0, hs0⟩ := hsame k f0 h
    obtain ⟨f, hf, hfk, hemp⟩ := pre_func_root e b funcs target k (hpre _ _ he)
    rw [← (hs0 f hf hfk).1] at hemp
    unfold ValueSet.empty at hemp
    cases hst : f0.input.hasStruct with
    | false => exact (H.wf f0 hm0).2 hst
    | true =>
      rw [hst] at hemp
      simpa using hemp
  · -- single
    intro k f0 hk h
    rw [hfo] at h
    obtain ⟨hm0, hk0, _⟩ := hsame k f0 h
    exact hsi f0 (conv_of_ne hm0 (by rw [hk0]; exact hk))
  · -- noTarget
    intro x
    rw [hg, ← hcg]
    cases he : (callGraph {} e b funcs target false none).cg.g.hasEdge x (.func target.key) with
    | false => rfl
    | true =>
      obtain ⟨f, hf, hk, _⟩ := hgin x (.func target.key) he
      exact absurd hk (hkey f hf)
  · -- noHop: `C01.stdCtx` is the repaired context
    exact Or.inl rfl

/-- without R6 edges every real path is good -/
theorem itemOK_of_nohop (g : AGraph Vtx)
    (hnohop : ∀ n t s n' t' s', g.hasEdge (.value n t s) (.value n' t' s') = false) (it : OrcItem) :
    ItemOK g it := by
  intro i cur path _ _ hvalid pre a b' c' heq ha hb _
  simp only [validPath, Bool.and_eq_true, beq_iff_eq] at hvalid
  have hpath := isPath_of_isPathB _ _ hvalid.2
  rw [heq] at hpath
  obtain ⟨_, he1, _⟩ := isPath_split3 _ _ _ _ pre hpath
  have ge1 : g.hasEdge b' a = true := (ReachSound.hasEdge_reverse _ _ _).1 he1
  cases a <;> simp [Vtx.isValue] at ha
  cases b' <;> simp [Vtx.isValue] at hb
  rw [hnohop] at ge1
  cases ge1

/-- **clause (a), full label language, no R6 edge in the pruned graph**: every oracle -/
theorem single_core (H : WalkPanic.Hyps e b funcs target) (beh : Nat → Nat → List PVal → BehOut)
    (hsi : ∀ f ∈ b.convs.filterMap funcs, f.input.values.length ≤ 1)
    (hkey : ∀ f ∈ b.convs.filterMap funcs, f.key ≠ target.key)
    (hnohop : ∀ n t s n' t' s',
      (callGraph {} e b funcs target false none).cg.g.hasEdge (.value n t s) (.value n' t' s') = false)
    (hsat : (callGraph {} e b funcs target false none).unsat = [])
    (fuel : Nat)
    (hfuel : ((callGraph {} e b funcs target false none).cg.g.verts.filter Vtx.isFunc).length + 1 ≤ fuel)
    (memo : List (Nat × Memo)) (orc : List OrcItem) :
    let r := callWith (C01.stdCtx e b funcs target beh) (callGraph {} e b funcs target false none) target fuel
              (initSt (callGraph {} e b funcs target false none).cg memo orc)
    (∃ res, r.1 = .ok res) ∨ (∃ ε, r.1 = .convErr ε) ∨ (∃ ε res, r.1 = .targetErr ε res) ∨ (∃ w, r.1 = .badOracle w) := by
  have hreqs := WalkPanic.reqs_of_kept H beh hsat (WalkPanic.paramsKept_of_single H hsi)
  have hitems : ∀ it ∈ orc, ItemOK (C01.stdCtx e b funcs target beh).g it := by
    intro it _
    apply itemOK_of_nohop
    rw [CompleteAcyclic.stdCtx_g_eq]
    exact hnohop
  obtain ⟨m, rfl⟩ : ∃ m, fuel = m + 1 := ⟨fuel - 1, by omega⟩
  refine finish H beh hsat hreqs (m + 1) hfuel memo orc hitems ?_
  intro a h
  have gf := WalkPanic.facts_std H beh True (fun _ => hreqs)
  have sf := sfacts_std H hsi hkey beh
  exact single_reach_top gf sf m _ ⟨WalkPanic.initSt_sinv H beh memo orc, fun it hit => Or.inr (hitems it hit)⟩ _ h
    ⟨a, rfl⟩

/-- **clause (a), full label language, legal oracles** — the statement of `C05.complete_single_legal`, true since
the repair of finding F22 (`C01.stdCtx` has `hopCopies := true`): arbitrary cycles and R6 edges -/
theorem single_core_legal (H : WalkPanic.Hyps e b funcs target) (beh : Nat → Nat → List PVal → BehOut)
    (hsi : ∀ f ∈ b.convs.filterMap funcs, f.input.values.length ≤ 1)
    (hkey : ∀ f ∈ b.convs.filterMap funcs, f.key ≠ target.key)
    (hsmall : ((callGraph {} e b funcs target false none).cg.g.edges.map (fun ed => ed.2.2)).sum < maxInt32)
    (hsat : (callGraph {} e b funcs target false none).unsat = [])
    (fuel : Nat)
    (hfuel : ((callGraph {} e b funcs target false none).cg.g.verts.filter Vtx.isFunc).length + 1 ≤ fuel)
    (memo : List (Nat × Memo)) (orc : List OrcItem)
    (hleg : ∀ it ∈ orc, ∀ (i : Nat) (cur : Vtx) (path : List Vtx), it.missing[i]? = some cur →
      it.paths[i]? = some path →
      ∃ pops, Dijkstra.LegalPops (discount (callGraph {} e b funcs target false none).cg.g cur).reverse Vtx.root pops ∧
        path = choosePath (callGraph {} e b funcs target false none).cg.g cur pops) :
    let r := callWith (C01.stdCtx e b funcs target beh) (callGraph {} e b funcs target false none) target fuel
              (initSt (callGraph {} e b funcs target false none).cg memo orc)
    (∃ res, r.1 = .ok res) ∨ (∃ ε, r.1 = .convErr ε) ∨ (∃ ε res, r.1 = .targetErr ε res) ∨ (∃ w, r.1 = .badOracle w) := by
  have hreqs := WalkPanic.reqs_of_kept H beh hsat (WalkPanic.paramsKept_of_single H hsi)
  have hitems : ∀ it ∈ orc, ItemOK (C01.stdCtx e b funcs target beh).g it :=
    fun it hit => WalkPanic.itemOK_of_legal beh hsmall it (hleg it hit)
  obtain ⟨m, rfl⟩ : ∃ m, fuel = m + 1 := ⟨fuel - 1, by omega⟩
  refine finish H beh hsat hreqs (m + 1) hfuel memo orc hitems ?_
  intro a h
  have gf := WalkPanic.facts_std H beh True (fun _ => hreqs)
  have sf := sfacts_std H hsi hkey beh
  exact single_reach_top gf sf m _ ⟨WalkPanic.initSt_sinv H beh memo orc, fun it hit => Or.inr (hitems it hit)⟩ _ h
    ⟨a, rfl⟩

end

end ArgMapper.CompleteLegal
