import ArgMapper.Props.C20
/-! helper lemmas for `Props/C20c.lean` -/
namespace ArgMapper.TraverseCorollaries
open ArgMapper AGraph Traverse ArgMapper.C20
variable {α : Type} [DecidableEq α]

theorem explored_reach' {g : AGraph α} {cb : α → DfsAct} {start x : α} (h : Explored g cb start x) :
    Reach g start x := by
  induction h with
  | start => exact Reach.refl _
  | step _ he _ _ ih => exact Reach.step ih he

theorem explored_of_reach {g : AGraph α} {start x : α} (h : Reach g start x) :
    Explored g (fun _ => DfsAct.descend) start x := by
  induction h with
  | refl => exact Explored.start
  | @step v w _ he ih =>
    by_cases hw : w = start
    · subst hw; exact Explored.start
    · exact Explored.step ih he hw rfl

theorem reportable_reach {g : AGraph α} {cb : α → DfsAct} {start w : α} (h : Reportable g cb start w) :
    Reach g start w ∧ w ≠ start := by
  obtain ⟨hne, u, hu, he⟩ := h
  exact ⟨Reach.step (explored_reach' hu) he, hne⟩

theorem reportable_descend_iff {g : AGraph α} {start w : α} :
    Reportable g (fun _ => DfsAct.descend) start w ↔ (Reach g start w ∧ w ≠ start) := by
  constructor
  · exact reportable_reach
  · rintro ⟨hr, hne⟩
    cases hr with
    | refl => exact absurd rfl hne
    | step h he => exact ⟨hne, _, explored_of_reach h, he⟩

end ArgMapper.TraverseCorollaries
