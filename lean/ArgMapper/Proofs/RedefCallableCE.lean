import ArgMapper.Props.C05
import ArgMapper.Model.Redefine
/-!
# Counterexamples to the original statement of `C08.callable_graph` (helper file for C08c)

Both scenarios satisfy every hypothesis of the original statement (no converters, no subtypes, an oracle of
root-first real paths, fuel 5); the planning run of `Redefine` succeeds, and the `Call` graph built for the
original options plus one value per declared input still lists a parameter as unsatisfied.

1. a parameter name that is not lower-case (`"A"`): the redefined function passes `Named("A", v)`, `setNamed`
   stores it under `lower "A" = "a"`, the supplied vertex is `value "a" 1`, the parameter's is `value "A" 1`.
   The model's `FuncDesc` holds arbitrary labels; `newFunc` only produces lower-case names (`fieldLabel`).
2. a name with two types: the caller supplied `a : T1`, the target has parameters `a : T1` and `a : T2`.
   The planning run takes `a : T1` as it is and declares `a : T2`; `Named("a", v₂)` then *overwrites* the
   caller's `a : T1` in the named map, and the parameter `a : T1` is unsatisfied.  Outside the property's
   premise ("each name one type", `NamesSingleType`).
-/
namespace ArgMapper.CallableCE
open ArgMapper

def e0 : TypeEnv := ⟨fun _ => false, fun _ _ => false⟩
def sv (n : String) (t : Nat) (i : Nat) : SVal := ⟨⟨n, t, ""⟩, i⟩
def noFuncs : Nat → Option FuncDesc := fun _ => none
def ctx (b : Builder) (target : FuncDesc) : Ctx :=
  { env := e0, g := (callGraph {} e0 b noFuncs target true none).cg.g,
    funcOf := fun k => (C01.allFuncs b noFuncs target).find? (fun f => f.key == k), beh := zeroBeh (fun _ => 0) }
def withDecl (b : Builder) (ls : List Label) (idOf : Label → Nat) : Builder :=
  ls.foldl (fun b l => setNamed b l.name (some { ty := l.ty, id := idOf l })) b

/-! ### 1. a name that is not lower-case -/

/-- target `func(struct{ A T1 })` with the label name left in upper case -/
def tgt1 : FuncDesc := ⟨0, 0, ⟨true, 0, [sv "A" 1 0], [("A", sv "A" 1 0)], [], false⟩, ValueSet.nil, false, false⟩
def orc1 : List OrcItem := [⟨.func 0, [.value "A" 1 ""], [[.root, .value "A" 1 ""]]⟩]

theorem consistent1 : C01.FuncsConsistent (C01.allFuncs Builder.empty noFuncs tgt1) := by
  have hl : C01.allFuncs Builder.empty noFuncs tgt1 = [tgt1] := rfl
  rw [hl]
  refine ⟨?_, ?_⟩
  · intro f hf g hg _
    simp only [List.mem_cons, List.not_mem_nil, or_false] at hf hg
    subst hf; subst hg; exact ⟨rfl, rfl⟩
  · intro f hf
    simp only [List.mem_cons, List.not_mem_nil, or_false] at hf
    subst hf
    unfold ValueSet.KeysOK; decide

theorem labels1 : C05.SubtypeFree Builder.empty (C01.allFuncs Builder.empty noFuncs tgt1) := by
  have hl : C01.allFuncs Builder.empty noFuncs tgt1 = [tgt1] := rfl
  rw [hl]; unfold C05.SubtypeFree; decide

set_option maxRecDepth 100000 in
theorem run1 :
    redefine (ctx Builder.empty tgt1) (callGraph {} e0 Builder.empty noFuncs tgt1 true none) tgt1 none 5
      (initSt (callGraph {} e0 Builder.empty noFuncs tgt1 true none).cg [] orc1) = .ok [⟨"A", 1, ""⟩] ∧
    (callGraph {} e0 (withDecl Builder.empty [⟨"A", 1, ""⟩] (fun _ => 7)) noFuncs tgt1 false none).unsat
      = [⟨"A", 1, ""⟩] := by
  decide +kernel

/-! ### 2. a supplied name with a second type -/

/-- target `func(struct{ a T1; a' T2 })`, both parameters named `a` -/
def tgt2 : FuncDesc :=
  ⟨0, 0, ⟨true, 0, [sv "a" 1 0, sv "a" 2 1], [("a", sv "a" 2 1)], [], false⟩, ValueSet.nil, false, false⟩
def b2 : Builder := { Builder.empty with named := [("a", ⟨1, 5⟩)] }
def orc2 : List OrcItem := [⟨.func 0, [.value "a" 2 ""], [[.root, .value "a" 2 ""]]⟩]

theorem consistent2 : C01.FuncsConsistent (C01.allFuncs b2 noFuncs tgt2) := by
  have hl : C01.allFuncs b2 noFuncs tgt2 = [tgt2] := rfl
  rw [hl]
  refine ⟨?_, ?_⟩
  · intro f hf g hg _
    simp only [List.mem_cons, List.not_mem_nil, or_false] at hf hg
    subst hf; subst hg; exact ⟨rfl, rfl⟩
  · intro f hf
    simp only [List.mem_cons, List.not_mem_nil, or_false] at hf
    subst hf
    unfold ValueSet.KeysOK; decide

theorem labels2 : C05.SubtypeFree b2 (C01.allFuncs b2 noFuncs tgt2) := by
  have hl : C01.allFuncs b2 noFuncs tgt2 = [tgt2] := rfl
  rw [hl]; unfold C05.SubtypeFree; decide

set_option maxRecDepth 100000 in
theorem run2 :
    redefine (ctx b2 tgt2) (callGraph {} e0 b2 noFuncs tgt2 true none) tgt2 none 5
      (initSt (callGraph {} e0 b2 noFuncs tgt2 true none).cg [] orc2) = .ok [⟨"a", 2, ""⟩] ∧
    (callGraph {} e0 (withDecl b2 [⟨"a", 2, ""⟩] (fun _ => 7)) noFuncs tgt2 false none).unsat
      = [⟨"a", 1, ""⟩] := by
  decide +kernel

end ArgMapper.CallableCE
