import Batteries.Data.String.Lemmas
/-!
# `String.splitOn` with a one-character separator

`String.splitOn s sep.toString` is the obvious split of the character list of `s` at the character
`sep`.  The loop invariant (`splitOnAux_char`) is the one Batteries proves for `String.splitAux`
(`String.splitAux_of_valid`): the string is `l ++ m ++ r`, `b` is the byte length of `l`, `i` that of
`l ++ m`, the separator index `j` is `0`.
-/
namespace ArgMapper.TagStrings

/-- splitting a list of characters at a separator character -/
def splitChars (sep : Char) : List Char → List (List Char)
  | [] => [[]]
  | c :: cs =>
    if c = sep then [] :: splitChars sep cs
    else match splitChars sep cs with
      | [] => [[c]]
      | p :: ps => (c :: p) :: ps

/-- prepend characters to the first piece -/
def prependFirst (m : List Char) : List (List Char) → List (List Char)
  | [] => [m]
  | p :: ps => (m ++ p) :: ps

theorem splitChars_ne_nil (sep : Char) (cs : List Char) : splitChars sep cs ≠ [] := by
  cases cs with
  | nil => simp [splitChars]
  | cons c cs =>
    unfold splitChars
    split
    · simp
    · split <;> simp

theorem splitChars_cons_ne (sep c : Char) (cs : List Char) (h : c ≠ sep) :
    splitChars sep (c :: cs) = prependFirst [c] (splitChars sep cs) := by
  rw [splitChars, if_neg h]
  cases splitChars sep cs <;> rfl

theorem splitChars_cons_eq (sep : Char) (cs : List Char) :
    splitChars sep (sep :: cs) = [] :: splitChars sep cs := by
  rw [splitChars, if_pos rfl]

theorem prependFirst_nil (x : List (List Char)) (h : x ≠ []) : prependFirst [] x = x := by
  cases x with
  | nil => exact absurd rfl h
  | cons p ps => rfl

theorem prependFirst_append (m n : List Char) (x : List (List Char)) :
    prependFirst (m ++ n) x = prependFirst m (prependFirst n x) := by
  cases x <;> simp [prependFirst]

open String

theorem toString_ofList (c : Char) : c.toString = String.ofList [c] := by
  simp [Char.toString]

theorem get0 (c : Char) : (0 : Pos.Raw).get c.toString = c := by
  have := get_of_valid [] [c]
  rw [toString_ofList]
  simpa using this

theorem next0 (c : Char) : (0 : Pos.Raw).next c.toString = ⟨c.utf8Size⟩ := by
  have := next_of_valid [] c []
  rw [toString_ofList]
  simpa using this

theorem atEnd_next0 (c : Char) : (⟨c.utf8Size⟩ : Pos.Raw).atEnd c.toString = true := by
  have := (atEnd_of_valid [c] []).2 rfl
  rw [toString_ofList]
  simpa using this

theorem splitOnAux_char (sep : Char) (r : List Char) : ∀ (l m : List Char) (acc : List String),
    splitOnAux (ofList (l ++ m ++ r)) sep.toString ⟨utf8Len l⟩ ⟨utf8Len l + utf8Len m⟩ 0 acc =
      acc.reverse ++ (prependFirst m (splitChars sep r)).map ofList := by
  induction r with
  | nil =>
    intro l m acc
    rw [splitOnAux]
    have h1 := (atEnd_of_valid (l ++ m) []).2 rfl
    have h2 := extract_of_valid l m []
    simp only [utf8Len_append] at h1
    rw [if_pos h1, h2]
    simp [splitChars, prependFirst]
  | cons c r ih =>
    intro l m acc
    rw [splitOnAux]
    have h1 : ¬ (Pos.Raw.atEnd (ofList (l ++ m ++ c :: r)) ⟨utf8Len l + utf8Len m⟩ = true) := by
      have := atEnd_of_valid (l ++ m) (c :: r)
      simp only [utf8Len_append] at this
      rw [this]; simp
    have h2 := extract_of_valid l m (c :: r)
    have h3 := get_of_valid (l ++ m) (c :: r)
    have h4 := next_of_valid (l ++ m) c r
    simp only [utf8Len_append, List.headD_cons] at h3 h4
    rw [if_neg h1, h3, get0, h4, next0]
    by_cases hc : c = sep
    · subst hc
      simp only [beq_self_eq_true, if_true, atEnd_next0]
      have ih' := ih (l ++ m ++ [c]) [] (ofList m :: acc)
      simp only [utf8Len_append, utf8Len_cons, utf8Len_nil, List.append_assoc, List.cons_append, List.nil_append, Nat.add_zero, Nat.zero_add] at ih'
      have hu : (⟨utf8Len l + utf8Len m + c.utf8Size⟩ : Pos.Raw).unoffsetBy ⟨c.utf8Size⟩ = ⟨utf8Len l + utf8Len m⟩ := by
        ext; simp
      rw [hu, h2]
      simp only [List.append_assoc, Nat.add_assoc]
      rw [ih', splitChars_cons_eq, prependFirst_nil _ (splitChars_ne_nil _ _)]
      simp [prependFirst]
    · have hb : (c == sep) = false := by simpa using hc
      simp only [hb]
      have ih' := ih l (m ++ [c]) acc
      simp only [utf8Len_append, utf8Len_cons, utf8Len_nil, List.append_assoc, List.cons_append, List.nil_append, Nat.zero_add] at ih'
      have hu : ((⟨utf8Len l + utf8Len m⟩ : Pos.Raw).unoffsetBy 0) = ⟨utf8Len l + utf8Len m⟩ := by
        ext; simp
      rw [hu, h4]
      simp only [List.append_assoc, Nat.add_assoc]
      rw [if_neg (by simp), ih', splitChars_cons_ne _ _ _ hc, prependFirst_append]

theorem toString_ne_empty (c : Char) : (c.toString == "") = false := by
  rw [toString_ofList]
  simp

/-- `String.splitOn` with a one-character separator is the obvious split of the character list -/
theorem splitOn_char (s : String) (sep : Char) :
    s.splitOn sep.toString = (splitChars sep s.toList).map String.ofList := by
  have h := splitOnAux_char sep s.toList [] [] []
  simp only [List.nil_append, utf8Len_nil, Nat.add_zero, String.ofList_toList, List.reverse_nil] at h
  rw [prependFirst_nil _ (splitChars_ne_nil _ _)] at h
  unfold String.splitOn
  rw [toString_ne_empty]
  exact h

end ArgMapper.TagStrings
