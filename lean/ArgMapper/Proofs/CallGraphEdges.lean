import ArgMapper.Spec.Flow
import ArgMapper.Proofs.GraphSpecLemmas
/-!
# Edge characterisation of `callGraph` (C01)

Every edge of the graph `callGraph` builds is an instance of `EdgeRule`, and every vertex with an
entry in the value store is an origin vertex.  Both facts are carried through the construction as
one invariant `Inv`.
-/
set_option linter.unusedSectionVars false
set_option linter.unusedVariables false
namespace ArgMapper
namespace CGE
open Generated

/-! ### `hasEdge` under the mutators -/

section Graph
variable {α : Type} [DecidableEq α]

theorem hasEdge_addEdge (g : AGraph α) (u v : α) (w : Int) (x y : α) :
    (g.addEdge u v w).hasEdge x y = true ↔ (x = u ∧ y = v) ∨ g.hasEdge x y = true := by
  unfold AGraph.hasEdge
  rw [AGraph.weight_addEdge]
  by_cases h : x = u ∧ y = v
  · simp [h]
  · simp [h]

theorem hasEdge_add (g : AGraph α) (v : α) (x y : α) :
    (g.add v).hasEdge x y = g.hasEdge x y := by
  unfold AGraph.hasEdge
  rw [AGraph.weight_add]

theorem hasEdge_remove (g : AGraph α) (v : α) (x y : α)
    (h : (g.remove v).hasEdge x y = true) : g.hasEdge x y = true := by
  unfold AGraph.hasEdge at h ⊢
  rw [AGraph.weight_remove] at h
  split at h
  · simp at h
  · exact h

end Graph

/-! ### the invariant and the elementary steps -/

/-- every edge obeys a rule; every stored value sits at an origin vertex -/
def Inv (e : TypeEnv) (c : CG) : Prop :=
  EdgeOK e c.g ∧ ∀ p ∈ c.store, p.1.isOrigin = true

theorem inv_empty (e : TypeEnv) : Inv e CG.empty := by
  refine ⟨?_, ?_⟩
  · intro x y h
    simp [CG.empty, AGraph.hasEdge, AGraph.weight, AGraph.empty] at h
  · intro p hp
    simp [CG.empty] at hp

theorem inv_add {e : TypeEnv} {c : CG} (v : Vtx) (h : Inv e c) : Inv e (c.add v) := by
  refine ⟨?_, h.2⟩
  intro x y hxy
  apply h.1
  have : (c.g.add v).hasEdge x y = true := hxy
  rwa [hasEdge_add] at this

theorem inv_edge {e : TypeEnv} {c : CG} (u v : Vtx) (w : Int) (h : Inv e c) (hr : EdgeRule e u v) :
    Inv e (c.edge u v w) := by
  refine ⟨?_, h.2⟩
  intro x y hxy
  have hxy' : (c.g.addEdge u v w).hasEdge x y = true := hxy
  rcases (hasEdge_addEdge _ _ _ _ _ _).1 hxy' with ⟨rfl, rfl⟩ | h'
  · exact hr
  · exact h.1 _ _ h'

theorem inv_addValued {e : TypeEnv} {c : CG} (v : Vtx) (x : Val) (h : Inv e c)
    (hv : v.isOrigin = true) : Inv e (c.addValued v x) := by
  refine ⟨?_, ?_⟩
  · intro a b hab
    apply h.1
    have : (c.g.add v).hasEdge a b = true := hab
    rwa [hasEdge_add] at this
  · intro p hp
    have hp' : p ∈ mapSet c.store v x := hp
    unfold mapSet at hp'
    rw [List.mem_append] at hp'
    rcases hp' with hp' | hp'
    · exact h.2 p (List.mem_filter.1 hp').1
    · rw [List.mem_singleton] at hp'
      subst hp'
      exact hv

theorem inv_remove {e : TypeEnv} {c : CG} (v : Vtx) (h : Inv e c) :
    Inv e { c with g := c.g.remove v } := by
  refine ⟨?_, h.2⟩
  intro x y hxy
  exact h.1 _ _ (hasEdge_remove _ _ _ _ hxy)

/-- generic fold lemma: a step that preserves `I` on every element satisfying `P` preserves it
over a list of such elements -/
theorem foldl_inv {σ β : Type} (I : σ → Prop) (P : β → Prop) (step : σ → β → σ)
    (hstep : ∀ c x, P x → I c → I (step c x)) :
    ∀ (l : List β) (c : σ), (∀ x ∈ l, P x) → I c → I (l.foldl step c) := by
  intro l
  induction l with
  | nil => intro c _ h; exact h
  | cons a l ih =>
    intro c hl h
    rw [List.foldl_cons]
    apply ih
    · intro x hx; exact hl x (List.mem_cons_of_mem _ hx)
    · exact hstep c a (hl a List.mem_cons_self) h

/-- fold lemma without a side condition on the elements -/
theorem foldl_inv' {σ β : Type} (I : σ → Prop) (step : σ → β → σ)
    (hstep : ∀ c x, I c → I (step c x)) (l : List β) (c : σ) (h : I c) : I (l.foldl step c) :=
  foldl_inv I (fun _ => True) step (fun c x _ hc => hstep c x hc) l c (fun _ _ => trivial) h

/-- fold over a filtered list: the filter predicate is available for every element -/
theorem foldl_filter_inv {σ β : Type} (I : σ → Prop) (p : β → Bool) (step : σ → β → σ)
    (hstep : ∀ c x, p x = true → I c → I (step c x)) (l : List β) (c : σ) (h : I c) :
    I ((l.filter p).foldl step c) :=
  foldl_inv I (fun x => p x = true) step hstep _ c (fun x hx => (List.mem_filter.1 hx).2) h

/-! ### `funcGraph` -/

theorem inv_funcGraph {e : TypeEnv} {c : CG} (f : FuncDesc) (io : Bool) (h : Inv e c) :
    Inv e (funcGraph c f io) := by
  unfold funcGraph
  dsimp only
  have h1 : Inv e (c.add (Vtx.func f.key)) := inv_add _ h
  have h2 : Inv e (if f.input.empty = true then (c.add (Vtx.func f.key)).edge (Vtx.func f.key) .root weightNormal
      else c.add (Vtx.func f.key)) := by
    split
    · exact inv_edge _ _ _ h1 (EdgeRule.funcReq _ _ (Or.inr (Or.inr rfl)))
    · exact h1
  have h3 := foldl_inv' (Inv e) (fun (c : CG) (val : SVal) =>
      if val.lab.name ≠ "" then
        (c.add (.value val.lab.name val.lab.ty val.lab.sub)).edge (Vtx.func f.key)
          (.value val.lab.name val.lab.ty val.lab.sub) weightNormal
      else
        (c.add (.arg val.lab.ty val.lab.sub)).edge (Vtx.func f.key) (.arg val.lab.ty val.lab.sub) weightTyped)
    (by
      intro c val hc
      split
      · exact inv_edge _ _ _ (inv_add _ hc) (EdgeRule.funcReq _ _ (Or.inl rfl))
      · exact inv_edge _ _ _ (inv_add _ hc) (EdgeRule.funcReq _ _ (Or.inr (Or.inl rfl))))
    f.input.values _ h2
  split
  · exact h3
  · apply foldl_inv'
    · intro c p hc
      exact inv_edge _ _ _ (inv_add _ hc) (EdgeRule.outputFunc _ _ (Or.inr rfl))
    · apply foldl_inv'
      · intro c p hc
        exact inv_edge _ _ _ (inv_add _ hc) (EdgeRule.outputFunc _ _ (Or.inl rfl))
      · exact h3

/-! ### `inputsGraph` -/

theorem inv_inputs_step {e : TypeEnv} (acc : CG × List Vtx) (v : Vtx) (x : Val)
    (hv : v.isOrigin = true) (h : Inv e acc.1) :
    Inv e (((acc.1.addValued v x).edge v .root weightNormal), acc.2 ++ [v]).1 := by
  dsimp only
  refine inv_edge _ _ _ (inv_addValued _ _ h hv) (EdgeRule.inputRoot _ ?_)
  simpa [Vtx.isOrigin] using hv

theorem inv_inputsGraph {e : TypeEnv} {c : CG} (b : Builder) (h : Inv e c) :
    Inv e (inputsGraph c b).1 := by
  unfold inputsGraph
  dsimp only
  apply foldl_inv' (fun acc : CG × List Vtx => Inv e acc.1)
  · intro acc p hacc
    exact inv_inputs_step acc _ _ rfl hacc
  apply foldl_inv' (fun acc : CG × List Vtx => Inv e acc.1)
  · intro acc p hacc
    exact inv_inputs_step acc _ _ rfl hacc
  apply foldl_inv' (fun acc : CG × List Vtx => Inv e acc.1)
  · intro acc p hacc
    exact inv_inputs_step acc _ _ rfl hacc
  apply foldl_inv' (fun acc : CG × List Vtx => Inv e acc.1)
  · intro acc p hacc
    exact inv_inputs_step acc _ _ rfl hacc
  exact h

/-! ### the rule phases -/

theorem inv_phaseR3 {e : TypeEnv} {c : CG} (h : Inv e c) : Inv e (phaseR3 c) := by
  unfold phaseR3
  apply foldl_filter_inv (Inv e)
  · intro c v hv hc
    cases v with
    | value n t s =>
      have h1 := inv_edge (.value n t s) (.out t "") weightTyped (inv_add (.out t "") hc)
        (EdgeRule.valueOut n t s)
      have h2 := inv_edge (.arg t "") (.value n t s) weightTyped (inv_add (.arg t "") h1)
        (EdgeRule.argValue n t s "" (Or.inl rfl))
      by_cases hs : (Vtx.value n t s).sub ≠ ""
      · rw [if_pos hs]
        exact inv_edge _ _ _ (inv_add _ h2) (EdgeRule.argValue n t s s (Or.inr rfl))
      · rw [if_neg hs]
        exact h2
    | _ => simp [Vtx.isValue] at hv
  · exact h

theorem inv_phaseR4 {e : TypeEnv} {c : CG} (h : Inv e c) : Inv e (phaseR4 c) := by
  unfold phaseR4
  apply foldl_filter_inv (Inv e)
  · intro c v hv hc
    cases v with
    | arg t s =>
      dsimp only [Vtx.ty, Vtx.sub]
      exact inv_edge _ _ _ (inv_add _ hc) (EdgeRule.argOut t s)
    | _ => simp [Vtx.isArg] at hv
  · exact h

theorem inv_phaseR5 {e : TypeEnv} {c : CG} (h : Inv e c) : Inv e (phaseR5 e true c) := by
  unfold phaseR5
  apply foldl_filter_inv (Inv e)
  · intro c v hv hc
    apply foldl_filter_inv (Inv e)
    · intro c v2 hv2 hc
      cases v with
      | out i s =>
        cases v2 with
        | out t' s' =>
          simp only [Vtx.isOut, Vtx.ty, Bool.true_and, Bool.and_eq_true, Bool.not_eq_true',
            beq_eq_false_iff_ne, ne_eq, decide_eq_true_eq] at hv hv2
          exact inv_edge _ _ _ hc (EdgeRule.ifaceOut i s t' s' hv hv2.1.2 hv2.2)
        | _ => simp [Vtx.isOut] at hv2
      | _ => simp [Vtx.isOut] at hv
    · exact hc
  · exact h

theorem inv_phaseR6 {e : TypeEnv} {c : CG} (h : Inv e c) : Inv e (phaseR6 true c) := by
  unfold phaseR6
  apply foldl_filter_inv (Inv e)
  · intro c' v hv hc
    apply foldl_filter_inv (Inv e)
    · intro c'' v2 hv2 hc
      cases v with
      | value n t s =>
        cases v2 with
        | value n2 t2 s2 =>
          simp only [Vtx.isValue, Vtx.ty, Vtx.sub, Vtx.name, Bool.true_and, Bool.and_eq_true,
            Bool.not_eq_true', beq_iff_eq, bne_iff_ne, ne_eq, bne_eq_false_iff_eq] at hv hv2
          obtain ⟨⟨rfl, _⟩⟩ := hv
          obtain ⟨⟨rfl, hs⟩, rfl⟩ := hv2
          exact inv_edge _ _ _ hc (EdgeRule.valueValue _ _ _ hs)
        | _ => simp [Vtx.isValue] at hv2
      | _ => simp [Vtx.isValue] at hv
    · exact hc
  · exact h

theorem inv_phaseR7 {e : TypeEnv} {c : CG} (h : Inv e c) : Inv e (phaseR7 c) := by
  unfold phaseR7
  dsimp only
  apply foldl_filter_inv (Inv e)
  · intro c' v hv hc
    apply foldl_filter_inv (Inv e)
    · intro c'' v2 hv2 hc
      cases v with
      | arg t s =>
        cases v2 with
        | out t2 s2 =>
          simp only [Vtx.isArg, Vtx.isOut, Vtx.ty, Vtx.sub, Bool.true_and, Bool.and_eq_true,
            beq_iff_eq, bne_iff_ne, ne_eq] at hv hv2
          obtain ⟨rfl, hs2⟩ := hv2
          exact inv_edge _ _ _ hc (EdgeRule.argOutSub _ _ _ (Or.inr ⟨hv, hs2⟩))
        | _ => simp [Vtx.isOut] at hv2
      | _ => simp [Vtx.isArg] at hv
    · exact hc
  apply foldl_filter_inv (Inv e)
  · intro c' v hv hc
    apply foldl_filter_inv (Inv e)
    · intro c'' v2 hv2 hc
      cases v with
      | arg t s =>
        cases v2 with
        | out t2 s2 =>
          simp only [Vtx.isArg, Vtx.isOut, Vtx.ty, Vtx.sub, Bool.true_and, Bool.and_eq_true,
            beq_iff_eq, bne_iff_ne, ne_eq] at hv hv2
          obtain ⟨rfl, hs2⟩ := hv2
          exact inv_edge _ _ _ hc (EdgeRule.argOutSub _ _ _ (Or.inl ⟨hv, hs2⟩))
        | _ => simp [Vtx.isOut] at hv2
      | _ => simp [Vtx.isArg] at hv
    · exact hc
  · exact h

theorem inv_phaseR8 {e : TypeEnv} {c : CG} (filter : Option Filter) (sk : Bool) (h : Inv e c) :
    Inv e (phaseR8 e filter sk c) := by
  unfold phaseR8
  apply foldl_filter_inv (Inv e)
  · intro c' v hv hc
    have hr : EdgeRule e v .root := by
      apply EdgeRule.redefineRoot
      simpa using hv
    split
    · exact hc
    · split
      · split
        · exact inv_edge _ _ _ hc hr
        · exact hc
      · exact inv_edge _ _ _ hc hr
  · exact h

theorem inv_prune {e : TypeEnv} {c : CG} (target : Vtx) (h : Inv e c) : Inv e (prune c target) := by
  unfold prune
  dsimp only
  apply foldl_inv' (Inv e)
  · intro c v hc
    exact inv_remove v hc
  · exact h

/-! ### `callGraph` -/

theorem inv_callGraph (var : Variant) (hv5 : var.r5SkipSame = true) (hv6 : var.r6NameTest = true)
    (e : TypeEnv) (b : Builder) (funcs : Nat → Option FuncDesc)
    (target : FuncDesc) (redefining : Bool) (filter : Option Filter) :
    Inv e (callGraph var e b funcs target redefining filter).cg := by
  unfold callGraph
  dsimp only
  rw [hv5, hv6]
  apply inv_prune
  have h0 : Inv e (inputsGraph (funcGraph (CG.empty.add .root) target false) b).1 :=
    inv_inputsGraph b (inv_funcGraph target false (inv_add _ (inv_empty e)))
  have h1 := foldl_inv' (Inv e) (fun (c : CG) (fid : Nat) => match funcs fid with
      | some f => funcGraph c f true
      | none => c)
    (by
      intro c fid hc
      split
      · exact inv_funcGraph _ _ hc
      · exact hc)
    b.convs _ h0
  have h7 := inv_phaseR7 (inv_phaseR6 (inv_phaseR5 (inv_phaseR4 (inv_phaseR3 h1))))
  split
  · exact inv_phaseR8 _ _ h7
  · exact h7

theorem callGraph_edgeOK (e : TypeEnv) (b : Builder) (funcs : Nat → Option FuncDesc)
    (target : FuncDesc) (redefining : Bool) (filter : Option Filter) :
    EdgeOK e (callGraph {} e b funcs target redefining filter).cg.g :=
  (inv_callGraph {} rfl rfl e b funcs target redefining filter).1

theorem callGraph_store_isOrigin (e : TypeEnv) (b : Builder) (funcs : Nat → Option FuncDesc)
    (target : FuncDesc) (redefining : Bool) (filter : Option Filter) (x : Vtx) (v : Val)
    (h : mapGet (callGraph {} e b funcs target redefining filter).cg.store x = some v) :
    x.isOrigin = true := by
  have hinv := (inv_callGraph {} rfl rfl e b funcs target redefining filter).2
  unfold mapGet at h
  rw [Option.map_eq_some_iff] at h
  obtain ⟨p, hp, _⟩ := h
  have hmem := List.mem_of_find?_eq_some hp
  have hk := List.find?_some hp
  simp only [decide_eq_true_eq] at hk
  rw [← hk]
  exact hinv p hmem

end CGE
end ArgMapper
