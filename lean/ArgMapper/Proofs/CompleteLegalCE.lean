import ArgMapper.Props.C05b
import ArgMapper.Props.C06b
/-!
# Counterexample to `C05.complete_single_legal` before the repair of finding F22 (cyclic single-input converters,
subtypes, tie-breaking)

Two single-input converters that form a cycle through one name, and two supplied values that carry a
subtype:

    target  func(z Z) int
    f       func(struct{ argmapper.Struct; N T }) struct{ argmapper.Struct; N U }
    g       func(struct{ argmapper.Struct; N U }) struct{ argmapper.Struct; N T; Z Z `argmapper:",typeOnly"` }
    fn.Call(NamedSubtype("n", T{…}, "s"), NamedSubtype("n", U{…}, "y"), Converter(f, g))

The call is satisfiable (`g` applied to the supplied `n/U/y` yields `Z`), `callGraph` reports nothing
unsatisfied, and with most tie-breaks the call succeeds.  But:

* the path to `arg Z` is forced: `root, n/U/y, n/U/"", g, out Z, arg Z` — the vertex `n/U/""` is entered by an
  R6 hop and holds no value, so the nested `reachTarget(g)` has to search for it;
* under the name discount for `n`, `n/U/""` costs 0 through the hop from `n/U/y` **and** 0 through
  `n/T/s, n/T/"", f` — a tie.  If the predecessor recorded for `n/U/""` is `f`, the walk reaches `f` with
  `n/T/""` value-less (R6 hop again) and `reachTarget(f)` searches for `n/T/""`;
* symmetric tie: `n/T/""` costs 0 through the hop from `n/T/s` and 0 through `n/U/y, n/U/"", g`.  If the
  predecessor recorded is `g` — a function whose `reachTarget` is in progress — the requirement is reported
  unsatisfied.

Every `reachTarget` runs Dijkstra afresh on a fresh copy of the graph, so the two tie-breaks are independent.
Replayed on the real library: 503 of 3000 identical calls failed with
`Unsatisfiable arguments: name: "n" (type: T)`, the others succeeded.

**Repair of finding F22.**  The defect is exactly that the R6 hop copies nothing.  The counterexample is therefore
stated for the pre-repair context (`hopCopies := false`, `ctxOld`).  In the repaired context (`C01.stdCtx`,
`hopCopies := true`) the hop copies the supplied `n/U/y` into `n/U/""`, the nested `reachTarget(g)` finds its only
requirement filled and searches for nothing: the oracles below are then rejected as inconsistent
(`badOracle "missing"` — they record a search that no longer happens), and with the oracle of the repaired
run (`orcFixed`: the forced top path, nothing missing for `g`; legal) the call succeeds (`after_repair`).

Types: `T = 1`, `U = 2`, `Z = 3`.
-/
namespace ArgMapper.CompleteLegalCE
open ArgMapper

def e0 : TypeEnv := ⟨fun _ => false, fun _ _ => false⟩
def nv (t i : Nat) : SVal := ⟨⟨"n", t, ""⟩, i⟩
def tv (t i : Nat) : SVal := ⟨⟨"", t, ""⟩, i⟩
/-- `struct{ Struct; N <t> }` -/
def setN (t : Nat) : ValueSet := ⟨true, 0, [nv t 1], [("n", nv t 1)], [], false⟩
/-- `struct{ Struct; N T; Z Z typeOnly }` -/
def setNZ : ValueSet := ⟨true, 0, [nv 1 1, tv 3 2], [("n", nv 1 1)], [(3, tv 3 2)], false⟩
/-- the lifted set of `(Z)` -/
def setZ : ValueSet := ⟨true, 0, [tv 3 0], [], [(3, tv 3 0)], true⟩

def tgt : FuncDesc := ⟨0, 0, setZ, ValueSet.nil, false, false⟩
def f : FuncDesc := ⟨1, 1, setN 1, setN 2, false, false⟩
def g : FuncDesc := ⟨2, 2, setN 2, setNZ, false, false⟩
def funcs : Nat → Option FuncDesc := fun i => if i = 1 then some f else if i = 2 then some g else none
def b : Builder :=
  { Builder.empty with namedSub := [(("n", "s"), ⟨1, 10⟩), (("n", "y"), ⟨2, 20⟩)], convs := [1, 2] }
def beh0 : Nat → Nat → List PVal → BehOut := fun _ _ _ => ⟨[7, 8], none⟩

theorem b_is_built :
    build [.namedSub "n" (some ⟨1, 10⟩) "s", .namedSub "n" (some ⟨2, 20⟩) "y", .conv [some 1, some 2]] = .ok b := by
  decide +kernel

abbrev cgr : CallGraphResult := callGraph {} e0 b funcs tgt false none

def nTs : Vtx := .value "n" 1 "s"
def nUy : Vtx := .value "n" 2 "y"
def nT : Vtx := .value "n" 1 ""
def nU : Vtx := .value "n" 2 ""

/-- the oracle: the forced top path; the search for `n/U/""` resolved through `f`; the search for `n/T/""`
resolved through `g` -/
def orc : List OrcItem :=
  [⟨.func 0, [.arg 3 ""], [[.root, nUy, nU, .func 2, .out 3 "", .arg 3 ""]]⟩,
   ⟨.func 2, [nU], [[.root, nTs, nT, .func 1, nU]]⟩,
   ⟨.func 1, [nT], [[.root, nUy, nU, .func 2, nT]]⟩]

/-- legal complete pop orders that produce these paths -/
def pops1 : List Vtx :=
  [.root, nTs, nUy, nT, nU, .arg 1 "", .arg 1 "s", .arg 2 "", .arg 2 "y", .func 1, .func 2, .out 3 "", .arg 3 "", .func 0]
def pops2 : List Vtx :=
  [.root, nTs, nT, .func 1, .arg 1 "", nU, .func 2, .arg 2 "", .arg 1 "s", nUy, .arg 2 "y", .out 3 "", .arg 3 "", .func 0]
def pops3 : List Vtx :=
  [.root, nUy, nU, .func 2, .arg 2 "", nT, .func 1, .arg 1 "", .arg 2 "y", nTs, .arg 1 "s", .out 3 "", .arg 3 "", .func 0]

/-- the context before the repair of F22: an R6 hop copies nothing -/
def ctxOld : Ctx := { C01.stdCtx e0 b funcs tgt beh0 with hopCopies := false }

def run : Outcome × CallSt :=
  callWith ctxOld cgr tgt 5 (initSt cgr.cg [] orc)

/-- the same call with the tie broken the other way in the second search: success -/
def orcGood : List OrcItem :=
  [⟨.func 0, [.arg 3 ""], [[.root, nUy, nU, .func 2, .out 3 "", .arg 3 ""]]⟩,
   ⟨.func 2, [nU], [[.root, nUy, nU]]⟩]
def runGood : Outcome × CallSt :=
  callWith ctxOld cgr tgt 5 (initSt cgr.cg [] orcGood)

/-- the oracle of the repaired run: the forced top path; the nested search of `g` has nothing missing -/
def orcFixed : List OrcItem :=
  [⟨.func 0, [.arg 3 ""], [[.root, nUy, nU, .func 2, .out 3 "", .arg 3 ""]]⟩,
   ⟨.func 2, [], []⟩]
/-- the scenario in the repaired context (`C01.stdCtx`, `hopCopies := true`) -/
def runFixed (o : List OrcItem) : Outcome × CallSt :=
  callWith (C01.stdCtx e0 b funcs tgt beh0) cgr tgt 5 (initSt cgr.cg [] o)

theorem consistent : C01.FuncsConsistent (C01.allFuncs b funcs tgt) := by
  have hl : C01.allFuncs b funcs tgt = [tgt, f, g] := rfl
  rw [hl]
  refine ⟨?_, ?_⟩
  · intro f1 hf1 f2 hf2 hk
    simp only [List.mem_cons, List.not_mem_nil, or_false] at hf1 hf2
    rcases hf1 with rfl | rfl | rfl <;> rcases hf2 with rfl | rfl | rfl <;>
      first
        | exact ⟨rfl, rfl⟩
        | exact absurd hk (by decide)
  · intro f1 hf1
    simp only [List.mem_cons, List.not_mem_nil, or_false] at hf1
    rcases hf1 with rfl | rfl | rfl <;> (unfold ValueSet.KeysOK; decide)

theorem setsWF : C05.SetsWF (C01.allFuncs b funcs tgt) := by
  have hl : C01.allFuncs b funcs tgt = [tgt, f, g] := rfl
  rw [hl]
  intro f1 hf1
  simp only [List.mem_cons, List.not_mem_nil, or_false] at hf1
  rcases hf1 with rfl | rfl | rfl <;> decide

theorem convs_eq : b.convs.filterMap funcs = [f, g] := rfl

theorem single : C05.SingleInput (b.convs.filterMap funcs) := by
  rw [convs_eq]; unfold C05.SingleInput; decide

theorem keys : ∀ f1 ∈ b.convs.filterMap funcs, f1.key ≠ tgt.key := by
  rw [convs_eq]; decide

theorem builderOK : C03.BuilderOK b := by
  unfold C03.BuilderOK C03.NamedOK
  decide

set_option maxRecDepth 100000 in
theorem legal1 : Dijkstra.LegalPops (discount cgr.cg.g (.arg 3 "")).reverse Vtx.root pops1 ∧
    [.root, nUy, nU, .func 2, .out 3 "", .arg 3 ""] = choosePath cgr.cg.g (.arg 3 "") pops1 :=
  ⟨⟨by decide +kernel, by decide +kernel, by decide +kernel⟩, by decide +kernel⟩

set_option maxRecDepth 100000 in
theorem legal2 : Dijkstra.LegalPops (discount cgr.cg.g nU).reverse Vtx.root pops2 ∧
    [.root, nTs, nT, .func 1, nU] = choosePath cgr.cg.g nU pops2 :=
  ⟨⟨by decide +kernel, by decide +kernel, by decide +kernel⟩, by decide +kernel⟩

set_option maxRecDepth 100000 in
theorem legal3 : Dijkstra.LegalPops (discount cgr.cg.g nT).reverse Vtx.root pops3 ∧
    [.root, nUy, nU, .func 2, nT] = choosePath cgr.cg.g nT pops3 :=
  ⟨⟨by decide +kernel, by decide +kernel, by decide +kernel⟩, by decide +kernel⟩

set_option maxRecDepth 100000 in
theorem legal3' : Dijkstra.LegalPops (discount cgr.cg.g nU).reverse Vtx.root pops3 ∧
    [.root, nUy, nU] = choosePath cgr.cg.g nU pops3 :=
  ⟨⟨by decide +kernel, by decide +kernel, by decide +kernel⟩, by decide +kernel⟩

theorem item_legal {gr : AGraph Vtx} {t : Vtx} {cur : Vtx} {p : List Vtx}
    (h : ∃ pops, Dijkstra.LegalPops (discount gr cur).reverse Vtx.root pops ∧ p = choosePath gr cur pops) :
    C03.LegalItem gr ⟨t, [cur], [p]⟩ := by
  intro i c path h1 h2
  match i with
  | 0 =>
    simp only [List.getElem?_cons_zero, Option.some.injEq] at h1 h2
    subst h1; subst h2
    exact h
  | n + 1 => simp at h1

theorem legal : ∀ it ∈ orc, C03.LegalItem cgr.cg.g it := by
  intro it hit
  simp only [orc, List.mem_cons, List.not_mem_nil, or_false] at hit
  rcases hit with rfl | rfl | rfl
  · exact item_legal ⟨pops1, legal1⟩
  · exact item_legal ⟨pops2, legal2⟩
  · exact item_legal ⟨pops3, legal3⟩

theorem legalGood : ∀ it ∈ orcGood, C03.LegalItem cgr.cg.g it := by
  intro it hit
  simp only [orcGood, List.mem_cons, List.not_mem_nil, or_false] at hit
  rcases hit with rfl | rfl
  · exact item_legal ⟨pops1, legal1⟩
  · exact item_legal ⟨pops3, legal3'⟩

theorem legalFixed : ∀ it ∈ orcFixed, C03.LegalItem cgr.cg.g it := by
  intro it hit
  simp only [orcFixed, List.mem_cons, List.not_mem_nil, or_false] at hit
  rcases hit with rfl | rfl
  · exact item_legal ⟨pops1, legal1⟩
  · intro i c path h1 h2
    simp at h1

/-- **after the repair of F22** (`hopCopies := true`, the default of `C01.stdCtx`) the same scenario succeeds with
its legal oracle; the two pre-repair oracles record a nested search for `n/U/""` that no longer takes place (the
hop has filled that vertex) and are rejected as inconsistent with the run -/
theorem after_repair :
    (∀ it ∈ orcFixed, C03.LegalItem cgr.cg.g it) ∧ (runFixed orcFixed).1 = .ok ⟨[7, 8], none⟩ ∧
    (runFixed orc).1 = .badOracle "missing" ∧ (runFixed orcGood).1 = .badOracle "missing" :=
  ⟨legalFixed, by decide +kernel, by decide +kernel, by decide +kernel⟩

/-- **the counterexample** (pre-repair context `ctxOld`, `hopCopies := false`): every hypothesis of `C05.complete_single_legal` holds — single-input converters
of other Go types than the target, nothing reported unsatisfied, enough fuel, every oracle item legal —
and the call ends in an unsatisfied-argument error for the parameter `N T` of the converter `f`; with another
legal oracle the same call succeeds -/
theorem unsat_reached :
    ImplTrans e0 ∧ C03.BuilderOK b ∧ C01.FuncsConsistent (C01.allFuncs b funcs tgt) ∧
    C05.SingleInput (b.convs.filterMap funcs) ∧ C05.SetsWF (C01.allFuncs b funcs tgt) ∧
    (∀ f1 ∈ b.convs.filterMap funcs, f1.key ≠ tgt.key) ∧
    C03.SmallGraph cgr.cg.g ∧ cgr.unsat = [] ∧ (C06.funcVerts cgr.cg.g).length + 1 ≤ 5 ∧
    (∀ it ∈ orc, C03.LegalItem cgr.cg.g it) ∧
    run.1 = .unsat [⟨"n", 1, ""⟩] false ∧
    (∀ it ∈ orcGood, C03.LegalItem cgr.cg.g it) ∧ runGood.1 = .ok ⟨[7, 8], none⟩ :=
  ⟨by intro a b c h; simp [e0] at h, builderOK, consistent, single, setsWF, keys,
    by unfold C03.SmallGraph; decide +kernel, by decide +kernel, by decide +kernel, legal, by decide +kernel,
    legalGood, by decide +kernel⟩

end ArgMapper.CompleteLegalCE
