import ArgMapper.Spec.Flow
import ArgMapper.Proofs.CallGraphEdges
import ArgMapper.Proofs.Sig
import ArgMapper.Proofs.ReachSound
/-!
# Edges into the root and into function vertices of `callGraph`; well-keyed value sets (C01b)

`EdgeP F` refines the edge characterisation of `CallGraphEdges.lean` for the two targets the dynamic
part of C01 cares about: an edge into the root never starts at a typed-argument vertex (in a graph
built without Redefine), and an edge into a function vertex was created from an entry of the output
set of a converter in `F` with that key.  It is carried through the construction exactly as `Inv`.
-/
set_option linter.unusedSectionVars false
set_option linter.unusedVariables false
namespace ArgMapper
namespace CGF
open Generated CGE

/-! ### the edge predicate and the elementary steps -/

/-- what an edge `x → y` of a `Call` graph looks like when `y` is the root or a function vertex -/
def EdgeP (F : List FuncDesc) (x y : Vtx) : Prop :=
  match y with
  | .root => x.isArg = false
  | .func k => ∃ f ∈ F, f.key = k ∧
      ((∃ p ∈ f.output.named, x = .value p.1 p.2.lab.ty p.2.lab.sub) ∨
       (∃ p ∈ f.output.typed, x = .out p.2.lab.ty p.2.lab.sub))
  | _ => True

def GInv (F : List FuncDesc) (c : CG) : Prop :=
  ∀ x y, c.g.hasEdge x y = true → EdgeP F x y

theorem ginv_empty (F : List FuncDesc) : GInv F CG.empty := by
  intro x y h
  simp [CG.empty, AGraph.hasEdge, AGraph.weight, AGraph.empty] at h

theorem ginv_add {F : List FuncDesc} {c : CG} (v : Vtx) (h : GInv F c) : GInv F (c.add v) := by
  intro x y hxy
  apply h
  have : (c.g.add v).hasEdge x y = true := hxy
  rwa [hasEdge_add] at this

theorem ginv_edge {F : List FuncDesc} {c : CG} (u v : Vtx) (w : Int) (h : GInv F c)
    (hr : EdgeP F u v) : GInv F (c.edge u v w) := by
  intro x y hxy
  have hxy' : (c.g.addEdge u v w).hasEdge x y = true := hxy
  rcases (hasEdge_addEdge _ _ _ _ _ _).1 hxy' with ⟨rfl, rfl⟩ | h'
  · exact hr
  · exact h _ _ h'

theorem ginv_addValued {F : List FuncDesc} {c : CG} (v : Vtx) (x : Val) (h : GInv F c) :
    GInv F (c.addValued v x) := by
  intro a b hab
  apply h
  have : (c.g.add v).hasEdge a b = true := hab
  rwa [hasEdge_add] at this

theorem ginv_remove {F : List FuncDesc} {c : CG} (v : Vtx) (h : GInv F c) :
    GInv F { c with g := c.g.remove v } := by
  intro x y hxy
  exact h _ _ (hasEdge_remove _ _ _ _ hxy)

/-! ### `funcGraph` -/

theorem ginv_funcGraph {F : List FuncDesc} {c : CG} (f : FuncDesc) (io : Bool)
    (hf : io = true → f ∈ F) (h : GInv F c) : GInv F (funcGraph c f io) := by
  unfold funcGraph
  dsimp only
  have h1 : GInv F (c.add (Vtx.func f.key)) := ginv_add _ h
  have h2 : GInv F (if f.input.empty = true then (c.add (Vtx.func f.key)).edge (Vtx.func f.key) .root weightNormal
      else c.add (Vtx.func f.key)) := by
    split
    · exact ginv_edge _ _ _ h1 rfl
    · exact h1
  have h3 := foldl_inv' (GInv F) (fun (c : CG) (val : SVal) =>
      if val.lab.name ≠ "" then
        (c.add (.value val.lab.name val.lab.ty val.lab.sub)).edge (Vtx.func f.key)
          (.value val.lab.name val.lab.ty val.lab.sub) weightNormal
      else
        (c.add (.arg val.lab.ty val.lab.sub)).edge (Vtx.func f.key) (.arg val.lab.ty val.lab.sub) weightTyped)
    (by
      intro c val hc
      split
      · exact ginv_edge _ _ _ (ginv_add _ hc) trivial
      · exact ginv_edge _ _ _ (ginv_add _ hc) trivial)
    f.input.values _ h2
  split
  · exact h3
  · next hio =>
    have hfF : f ∈ F := hf (by simpa using hio)
    apply foldl_inv (GInv F) (fun p => p ∈ f.output.typed)
    · intro c p hp hc
      exact ginv_edge _ _ _ (ginv_add _ hc) ⟨f, hfF, rfl, Or.inr ⟨p, hp, rfl⟩⟩
    · exact fun _ hx => hx
    · apply foldl_inv (GInv F) (fun p => p ∈ f.output.named)
      · intro c p hp hc
        exact ginv_edge _ _ _ (ginv_add _ hc) ⟨f, hfF, rfl, Or.inl ⟨p, hp, rfl⟩⟩
      · exact fun _ hx => hx
      · exact h3

/-! ### `inputsGraph` -/

theorem ginv_inputs_step {F : List FuncDesc} (acc : CG × List Vtx) (v : Vtx) (x : Val)
    (hv : v.isArg = false) (h : GInv F acc.1) :
    GInv F (((acc.1.addValued v x).edge v .root weightNormal), acc.2 ++ [v]).1 := by
  dsimp only
  exact ginv_edge _ _ _ (ginv_addValued _ _ h) hv

theorem ginv_inputsGraph {F : List FuncDesc} {c : CG} (b : Builder) (h : GInv F c) :
    GInv F (inputsGraph c b).1 := by
  unfold inputsGraph
  dsimp only
  apply foldl_inv' (fun acc : CG × List Vtx => GInv F acc.1)
  · intro acc p hacc
    exact ginv_inputs_step acc _ _ rfl hacc
  apply foldl_inv' (fun acc : CG × List Vtx => GInv F acc.1)
  · intro acc p hacc
    exact ginv_inputs_step acc _ _ rfl hacc
  apply foldl_inv' (fun acc : CG × List Vtx => GInv F acc.1)
  · intro acc p hacc
    exact ginv_inputs_step acc _ _ rfl hacc
  apply foldl_inv' (fun acc : CG × List Vtx => GInv F acc.1)
  · intro acc p hacc
    exact ginv_inputs_step acc _ _ rfl hacc
  exact h

/-! ### the rule phases: every added edge ends in a value or output vertex -/

theorem ginv_phaseR3 {F : List FuncDesc} {c : CG} (h : GInv F c) : GInv F (phaseR3 c) := by
  unfold phaseR3
  apply foldl_filter_inv (GInv F)
  · intro c v hv hc
    cases v with
    | value n t s =>
      have h1 := ginv_edge (.value n t s) (.out t "") weightTyped (ginv_add (.out t "") hc) trivial
      have h2 := ginv_edge (.arg t "") (.value n t s) weightTyped (ginv_add (.arg t "") h1) trivial
      by_cases hs : (Vtx.value n t s).sub ≠ ""
      · rw [if_pos hs]
        exact ginv_edge _ _ _ (ginv_add _ h2) trivial
      · rw [if_neg hs]
        exact h2
    | _ => simp [Vtx.isValue] at hv
  · exact h

theorem ginv_phaseR4 {F : List FuncDesc} {c : CG} (h : GInv F c) : GInv F (phaseR4 c) := by
  unfold phaseR4
  apply foldl_filter_inv (GInv F)
  · intro c v hv hc
    exact ginv_edge _ _ _ (ginv_add _ hc) trivial
  · exact h

theorem ginv_phaseR5 {F : List FuncDesc} {e : TypeEnv} {sk : Bool} {c : CG} (h : GInv F c) :
    GInv F (phaseR5 e sk c) := by
  unfold phaseR5
  apply foldl_filter_inv (GInv F)
  · intro c v hv hc
    apply foldl_filter_inv (GInv F)
    · intro c v2 hv2 hc
      cases v2 with
      | out t' s' => exact ginv_edge _ _ _ hc trivial
      | _ => simp [Vtx.isOut] at hv2
    · exact hc
  · exact h

theorem ginv_phaseR6 {F : List FuncDesc} {nt : Bool} {c : CG} (h : GInv F c) :
    GInv F (phaseR6 nt c) := by
  unfold phaseR6
  apply foldl_filter_inv (GInv F)
  · intro c' v hv hc
    apply foldl_filter_inv (GInv F)
    · intro c'' v2 hv2 hc
      cases v2 with
      | value n2 t2 s2 => exact ginv_edge _ _ _ hc trivial
      | _ => simp [Vtx.isValue] at hv2
    · exact hc
  · exact h

theorem ginv_phaseR7 {F : List FuncDesc} {c : CG} (h : GInv F c) : GInv F (phaseR7 c) := by
  unfold phaseR7
  dsimp only
  apply foldl_filter_inv (GInv F)
  · intro c' v hv hc
    apply foldl_filter_inv (GInv F)
    · intro c'' v2 hv2 hc
      cases v2 with
      | out t2 s2 => exact ginv_edge _ _ _ hc trivial
      | _ => simp [Vtx.isOut] at hv2
    · exact hc
  apply foldl_filter_inv (GInv F)
  · intro c' v hv hc
    apply foldl_filter_inv (GInv F)
    · intro c'' v2 hv2 hc
      cases v2 with
      | out t2 s2 => exact ginv_edge _ _ _ hc trivial
      | _ => simp [Vtx.isOut] at hv2
    · exact hc
  · exact h

theorem ginv_prune {F : List FuncDesc} {c : CG} (target : Vtx) (h : GInv F c) :
    GInv F (prune c target) := by
  unfold prune
  dsimp only
  apply foldl_inv' (GInv F)
  · intro c v hc
    exact ginv_remove v hc
  · exact h

/-! ### `callGraph` (not redefining) -/

theorem ginv_callGraph (var : Variant) (e : TypeEnv) (b : Builder) (funcs : Nat → Option FuncDesc)
    (target : FuncDesc) (filter : Option Filter) :
    GInv (b.convs.filterMap funcs) (callGraph var e b funcs target false filter).cg := by
  unfold callGraph
  dsimp only
  apply ginv_prune
  have h0 : GInv (b.convs.filterMap funcs)
      (inputsGraph (funcGraph (CG.empty.add .root) target false) b).1 :=
    ginv_inputsGraph b (ginv_funcGraph target false (by simp) (ginv_add _ (ginv_empty _)))
  have h1 := foldl_inv (GInv (b.convs.filterMap funcs)) (fun fid => fid ∈ b.convs)
    (fun (c : CG) (fid : Nat) => match funcs fid with
      | some f => funcGraph c f true
      | none => c)
    (by
      intro c fid hfid hc
      split
      · next f hf =>
        exact ginv_funcGraph _ _ (fun _ => List.mem_filterMap.2 ⟨fid, hfid, hf⟩) hc
      · exact hc)
    b.convs _ (fun _ hx => hx) h0
  exact ginv_phaseR7 (ginv_phaseR6 (ginv_phaseR5 (ginv_phaseR4 (ginv_phaseR3 h1))))

/-! ### well-keyed value sets -/

theorem foldl_namedStep_keys (V : List SVal) (vals : List SVal) :
    ∀ (m : List (String × SVal)), (∀ v ∈ vals, v ∈ V) →
      (∀ p ∈ m, p.2 ∈ V ∧ p.1 = p.2.lab.name ∧ p.1 ≠ "") →
      ∀ p ∈ vals.foldl namedStep m, p.2 ∈ V ∧ p.1 = p.2.lab.name ∧ p.1 ≠ "" := by
  induction vals with
  | nil => intro m _ hm; exact hm
  | cons v vals ih =>
    intro m hV hm
    rw [List.foldl_cons]
    apply ih _ (fun x hx => hV x (List.mem_cons_of_mem _ hx))
    intro p hp
    unfold namedStep at hp
    split at hp
    · next hn =>
      unfold mapSet at hp
      rw [List.mem_append] at hp
      rcases hp with hp | hp
      · exact hm p (List.mem_filter.1 hp).1
      · rw [List.mem_singleton] at hp
        subst hp
        exact ⟨hV v List.mem_cons_self, rfl, hn⟩
    · exact hm p hp

theorem foldl_typedStep_keys (V : List SVal) (vals : List SVal) :
    ∀ (m : List (Nat × SVal)), (∀ v ∈ vals, v ∈ V) →
      (∀ p ∈ m, p.2 ∈ V ∧ p.1 = p.2.lab.ty ∧ p.2.lab.name = "") →
      ∀ p ∈ vals.foldl typedStep m, p.2 ∈ V ∧ p.1 = p.2.lab.ty ∧ p.2.lab.name = "" := by
  induction vals with
  | nil => intro m _ hm; exact hm
  | cons v vals ih =>
    intro m hV hm
    rw [List.foldl_cons]
    apply ih _ (fun x hx => hV x (List.mem_cons_of_mem _ hx))
    intro p hp
    unfold typedStep at hp
    split at hp
    · exact hm p hp
    · next hn =>
      unfold mapSet at hp
      rw [List.mem_append] at hp
      rcases hp with hp | hp
      · exact hm p (List.mem_filter.1 hp).1
      · rw [List.mem_singleton] at hp
        subst hp
        exact ⟨hV v List.mem_cons_self, rfl, by simpa using hn⟩

theorem keysOK_nil : ValueSet.KeysOK ValueSet.nil := by
  refine ⟨?_, ?_⟩ <;> intro p hp <;> simp [ValueSet.nil] at hp

theorem fromStruct_keysOK {d : Nat} {fs : List Field} {vs : ValueSet}
    (h : newValueSetFromStruct d fs = .ok vs) : ValueSet.KeysOK vs := by
  by_cases hd : d ≤ 1
  · rw [newValueSetFromStruct_eq d hd fs] at h
    simp only [Except.ok.injEq] at h
    subst h
    refine ⟨?_, ?_⟩
    · exact foldl_namedStep_keys _ _ [] (fun _ hx => hx) (by simp)
    · exact foldl_typedStep_keys _ _ [] (fun _ hx => hx) (by simp)
  · unfold newValueSetFromStruct at h
    rw [if_pos (by omega)] at h
    cases h

theorem lifted_keysOK {ps : List Param} {vs : ValueSet}
    (h : newValueSetLifted ps = .ok vs) : ValueSet.KeysOK vs := by
  unfold newValueSetLifted at h
  split at h
  · cases h
  · split at h
    · next vs' hvs =>
      simp only [Except.ok.injEq] at h
      subst h
      exact (fromStruct_keysOK hvs : ValueSet.KeysOK vs')
    · cases h

theorem newValueSet_keysOK {ps : List Param} {vs : ValueSet}
    (h : newValueSet ps = .ok vs) : ValueSet.KeysOK vs := by
  unfold newValueSet at h
  split at h
  · simp only [Except.ok.injEq] at h
    subst h
    exact keysOK_nil
  · split at h
    · exact fromStruct_keysOK h
    · exact lifted_keysOK h
  · exact lifted_keysOK h

theorem newFunc_keysOK {ins outs : List Param} {fs : FuncSig} (h : newFunc ins outs = .ok fs) :
    ValueSet.KeysOK fs.input ∧ ValueSet.KeysOK fs.output := by
  refine ⟨?_, newValueSet_keysOK (newFunc_ok h).1⟩
  unfold newFunc at h
  cases hi : newValueSet ins with
  | error e => simp [hi] at h
  | ok i =>
    simp only [hi] at h
    split at h
    · cases h
    · simp only [Except.ok.injEq] at h
      subst h
      exact newValueSet_keysOK hi

/-! ### `FuncsOK` from the edge predicate -/

theorem hasEdge_of_mem_ins (g : AGraph Vtx) (x v : Vtx) (h : x ∈ g.ins v) : g.hasEdge x v = true := by
  rw [ReachSound.hasEdge_iff]
  simp only [AGraph.ins, AGraph.insW, List.mem_map, List.mem_filter, decide_eq_true_eq] at h
  obtain ⟨p, ⟨e, ⟨he, h1⟩, rfl⟩, rfl⟩ := h
  exact ⟨e, he, rfl, h1⟩

theorem mapGet_isSome_of_mem {κ β : Type} [DecidableEq κ] (m : List (κ × β)) (p : κ × β)
    (h : p ∈ m) : (mapGet m p.1).isSome = true := by
  unfold mapGet
  rw [Option.isSome_map, List.find?_isSome]
  exact ⟨p, h, by simp⟩

/-- the body of `FuncsOK` for a graph whose edges satisfy `EdgeP F`, when function vertices resolve to
the first function of `A ⊇ F` with that key and equal keys mean equal, well-keyed output sets -/
theorem funcsOK_of_edgeP (F A : List FuncDesc) (g : AGraph Vtx)
    (hg : ∀ x y, g.hasEdge x y = true → EdgeP F x y) (hsub : ∀ f ∈ F, f ∈ A)
    (hcons : ∀ f ∈ A, ∀ f' ∈ A, f.key = f'.key → f.output = f'.output)
    (hkeys : ∀ f ∈ A, ValueSet.KeysOK f.output)
    (k : Nat) (f : FuncDesc) (hfo : A.find? (fun f => f.key == k) = some f) :
    f.key = k ∧
    ∀ v ∈ g.ins (.func k),
      (∀ n t s, v = .value n t s → (mapGet f.output.named n).isSome = true) ∧
      (∀ t s, v = .out t s → (mapGet f.output.typed t).isSome = true) ∧
      (v.isValue = true ∨ v.isOut = true) := by
  have hk : f.key = k := by simpa using List.find?_some hfo
  have hfA : f ∈ A := List.mem_of_find?_eq_some hfo
  refine ⟨hk, ?_⟩
  intro v hv
  obtain ⟨f', hf'F, hk', hcase⟩ := hg v (.func k) (hasEdge_of_mem_ins _ _ _ hv)
  have hout : f.output = f'.output := hcons f hfA f' (hsub f' hf'F) (hk.trans hk'.symm)
  rcases hcase with ⟨p, hp, rfl⟩ | ⟨p, hp, rfl⟩
  · refine ⟨?_, ?_, Or.inl rfl⟩
    · intro n t s hv
      injection hv with hn _ _
      rw [hout, ← hn]
      exact mapGet_isSome_of_mem _ _ hp
    · intro t s hv
      cases hv
  · refine ⟨?_, ?_, Or.inr rfl⟩
    · intro n t s hv
      cases hv
    · intro t s hv
      injection hv with ht _
      have hkey := ((hkeys f' (hsub f' hf'F)).2 p hp).2.1
      rw [hout, ← ht, ← hkey]
      exact mapGet_isSome_of_mem _ _ hp

end CGF
end ArgMapper
