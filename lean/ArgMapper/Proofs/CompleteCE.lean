import ArgMapper.Props.C01b
/-!
# Counterexamples to the original statement of `C05.complete_single` (degenerate value sets)

The model's `FuncDesc` carries arbitrary `ValueSet`s; `C01.FuncsConsistent` (`ValueSet.KeysOK`) does not
say that the lookup maps behave like Go maps (one entry per key) nor that a set without a struct type
has no values.  Both scenarios below satisfy every hypothesis of the original statement, for fuel 5 and an
oracle of root-first real paths, and end in `panic finalValue` / `missingArg`.
Neither value set can be produced by `newFunc`.
-/
namespace ArgMapper.CompleteCE
open ArgMapper

def e0 : TypeEnv := ⟨fun _ => false, fun _ _ => false⟩
def sv (n : String) (t : Nat) (i : Nat) : SVal := ⟨⟨n, t, ""⟩, i⟩

/-- target `func(T2)` -/
def tgt : FuncDesc := ⟨0, 0, ⟨true, 0, [sv "" 2 0], [], [(2, sv "" 2 0)], true⟩, ValueSet.nil, false, false⟩
def b1 : Builder := { Builder.empty with convs := [1] }
def beh0 : Nat → Nat → List PVal → BehOut := fun _ _ _ => ⟨[7, 8], none⟩

/-! ### 1. two entries under one key in the named output map -/

/-- a converter without inputs whose named output map has two entries `"a"` (types 1 and 2): both value
vertices are created, `outputValues` looks both up as the *first* entry, so `value "a" 2` receives a
value of type 1, which the argument vertex `arg 2` refuses -/
def f1 : FuncDesc :=
  ⟨1, 1, ValueSet.nil, ⟨true, 0, [sv "a" 1 0, sv "a" 2 1], [("a", sv "a" 1 0), ("a", sv "a" 2 1)], [], false⟩, false, false⟩
def funcs1 : Nat → Option FuncDesc := fun i => if i = 1 then some f1 else none
def orc1 : List OrcItem :=
  [⟨.func 0, [.arg 2 ""], [[.root, .func 1, .value "a" 2 "", .arg 2 ""]]⟩, ⟨.func 1, [], []⟩]

theorem consistent1 : C01.FuncsConsistent (C01.allFuncs b1 funcs1 tgt) := by
  have hl : C01.allFuncs b1 funcs1 tgt = [tgt, f1] := rfl
  rw [hl]
  refine ⟨?_, ?_⟩
  · intro f hf g hg hk
    simp only [List.mem_cons, List.not_mem_nil, or_false] at hf hg
    rcases hf with rfl | rfl <;> rcases hg with rfl | rfl <;>
      first
        | exact ⟨rfl, rfl⟩
        | exact absurd hk (by decide)
  · intro f hf
    simp only [List.mem_cons, List.not_mem_nil, or_false] at hf
    rcases hf with rfl | rfl <;> (unfold ValueSet.KeysOK; decide)

theorem labels1 : b1.namedSub = [] ∧ b1.typedSub = [] ∧
    ∀ f ∈ C01.allFuncs b1 funcs1 tgt, (∀ l ∈ f.input.labels, l.sub = "") ∧ (∀ l ∈ f.output.labels, l.sub = "") := by
  have hl : C01.allFuncs b1 funcs1 tgt = [tgt, f1] := rfl
  rw [hl]
  decide

theorem convs1 : b1.convs.filterMap funcs1 = [f1] := rfl

set_option maxRecDepth 100000 in
theorem run1 :
    (callGraph {} e0 b1 funcs1 tgt false none).unsat = [] ∧
    (callWith (C01.stdCtx e0 b1 funcs1 tgt beh0) (callGraph {} e0 b1 funcs1 tgt false none) tgt 5
      (initSt (callGraph {} e0 b1 funcs1 tgt false none).cg [] orc1)).1 = .panic .finalValue := by
  decide

/-! ### 2. a value set without struct type that lists a value -/

/-- a converter `func() T2` whose input set has `hasStruct = false` (so `empty` holds and the vertex hangs
off the root) but lists a value of type 7: its requirement `arg 7` is pruned, the nested search finds
nothing missing, and `callDirect` looks the argument up in an empty map -/
def f2 : FuncDesc :=
  ⟨1, 1, ⟨false, 0, [sv "" 7 0], [], [(7, sv "" 7 0)], false⟩, ⟨true, 0, [sv "" 2 0], [], [(2, sv "" 2 0)], false⟩, false, false⟩
def funcs2 : Nat → Option FuncDesc := fun i => if i = 1 then some f2 else none
def orc2 : List OrcItem :=
  [⟨.func 0, [.arg 2 ""], [[.root, .func 1, .out 2 "", .arg 2 ""]]⟩, ⟨.func 1, [], []⟩]

theorem consistent2 : C01.FuncsConsistent (C01.allFuncs b1 funcs2 tgt) := by
  have hl : C01.allFuncs b1 funcs2 tgt = [tgt, f2] := rfl
  rw [hl]
  refine ⟨?_, ?_⟩
  · intro f hf g hg hk
    simp only [List.mem_cons, List.not_mem_nil, or_false] at hf hg
    rcases hf with rfl | rfl <;> rcases hg with rfl | rfl <;>
      first
        | exact ⟨rfl, rfl⟩
        | exact absurd hk (by decide)
  · intro f hf
    simp only [List.mem_cons, List.not_mem_nil, or_false] at hf
    rcases hf with rfl | rfl <;> (unfold ValueSet.KeysOK; decide)

theorem labels2 : b1.namedSub = [] ∧ b1.typedSub = [] ∧
    ∀ f ∈ C01.allFuncs b1 funcs2 tgt, (∀ l ∈ f.input.labels, l.sub = "") ∧ (∀ l ∈ f.output.labels, l.sub = "") := by
  have hl : C01.allFuncs b1 funcs2 tgt = [tgt, f2] := rfl
  rw [hl]
  decide

theorem convs2 : b1.convs.filterMap funcs2 = [f2] := rfl

set_option maxRecDepth 100000 in
theorem run2 :
    (callGraph {} e0 b1 funcs2 tgt false none).unsat = [] ∧
    (callWith (C01.stdCtx e0 b1 funcs2 tgt beh0) (callGraph {} e0 b1 funcs2 tgt false none) tgt 5
      (initSt (callGraph {} e0 b1 funcs2 tgt false none).cg [] orc2)).1 = .missingArg := by
  decide

end ArgMapper.CompleteCE
