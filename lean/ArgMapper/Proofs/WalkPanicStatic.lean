import ArgMapper.Proofs.WalkPanic
import ArgMapper.Proofs.CompleteStatic
import ArgMapper.Proofs.RedefStatic
import ArgMapper.Props.C18
import ArgMapper.Props.C20
/-!
# The `Call` graph satisfies `WalkPanic.Facts`; a legal oracle item is good (helper lemmas for C06b, static part)

* `facts_std`: the shape facts of the pruned `Call` graph the walk invariants need (full label language);
* `initSt_pinv`: the initial state satisfies the state invariant;
* `arg_value_edge`: every value vertex `value n t s` of the pruned graph is a direct requirement (weight 5)
  of the typed argument `arg t ""`, if that vertex exists — rule R3 fires for *every* value vertex;
* `pathGood_of_legal`: for a typed-argument requirement the weights are positive, Dijkstra is exact
  (C18), so the chosen path is a shortest path and cannot end `…, value n t s, value n t "", arg t ""`
  (cost `… + 5 + 5`) because `…, value n t s, arg t ""` (cost `… + 5`) is a path too;
* `reqs_of_kept`: the requirement edges of a function whose vertex and parameter vertices survive pruning
  survive pruning.
-/
set_option linter.unusedSectionVars false
set_option linter.unusedVariables false
namespace ArgMapper.WalkPanic
open ArgMapper Generated Complete

/-- (hypotheses of C06b about the scenario) -/
structure Hyps (e : TypeEnv) (b : Builder) (funcs : Nat → Option FuncDesc) (target : FuncDesc) : Prop where
  trans : ImplTrans e
  cons : C01.FuncsConsistent (C01.allFuncs b funcs target)
  named : (b.named.map (·.1)).Nodup ∧ (b.namedSub.map (·.1)).Nodup ∧ ∀ p ∈ b.namedSub, p.1.2 ≠ ""
  typed : (∀ p ∈ b.typed, p.2.ty = p.1) ∧ ∀ p ∈ b.typedSub, p.2.ty = p.1.1
  wf : ∀ f ∈ C01.allFuncs b funcs target,
    (f.output.named.map (·.1)).Nodup ∧ (f.input.hasStruct = false → f.input.values = [])

section
variable {e : TypeEnv} {b : Builder} {funcs : Nat → Option FuncDesc} {target : FuncDesc}

theorem std_g (beh : Nat → Nat → List PVal → BehOut) :
    (C01.stdCtx e b funcs target beh).g = (ExactWins.fin e b funcs target).g :=
  ExactWins.stdCtx_g e b funcs target beh

theorem cg_g : (callGraph {} e b funcs target false none).cg.g = (ExactWins.fin e b funcs target).g := by
  rw [ExactWins.callGraph_cg]; rfl

theorem facts_std (H : Hyps e b funcs target) (beh : Nat → Nat → List PVal → BehOut) (K : Prop)
    (hreqs : K → ∀ k f, (C01.stdCtx e b funcs target beh).funcOf k = some f →
      (∃ u, (C01.stdCtx e b funcs target beh).g.hasEdge (.func k) u = true) →
      ∀ v ∈ f.input.values, v.lab.vertex ∈ (C01.stdCtx e b funcs target beh).g.outs (.func k)) :
    Facts (C01.stdCtx e b funcs target beh) K (fun x => x ∈ ExactWins.inputVerts b) := by
  have hg := std_g (e := e) (b := b) (funcs := funcs) (target := target) beh
  have hcg := cg_g (e := e) (b := b) (funcs := funcs) (target := target)
  have hfo : ∀ k, (C01.stdCtx e b funcs target beh).funcOf k =
      (C01.allFuncs b funcs target).find? (fun f => f.key == k) := fun _ => rfl
  have hrule := ExactWins.fin_rule e b funcs target
  have hgin := CGF.ginv_callGraph {} e b funcs target none
  have hsame : ∀ k f0, (C01.allFuncs b funcs target).find? (fun f => f.key == k) = some f0 →
      f0 ∈ C01.allFuncs b funcs target ∧ f0.key = k ∧
      ∀ f ∈ C01.allFuncs b funcs target, f.key = k → f0.input = f.input ∧ f0.output = f.output := by
    intro k f0 h
    have hm := List.mem_of_find?_eq_some h
    have hk : f0.key = k := by simpa using List.find?_some h
    exact ⟨hm, hk, fun f hf hfk => H.cons.1 f0 hm f hf (hk.trans hfk.symm)⟩
  refine
    { pub := rfl, mc := rfl, auto := rfl, sri := rfl, trans := H.trans,
      edgeOK := ?_, toRoot := ?_, supKind := fun x hx => ExactWins.inputVerts_kind hx,
      funcKey := ?_, outTyped := ?_, reqs := hreqs }
  · -- edgeOK
    have := C01.callGraph_edges e b funcs target false none
    simp only [C01.stdCtx]
    exact this
  · -- toRoot
    intro x he
    rw [hg] at he
    obtain ⟨w, hw⟩ := (ExactWins.hasEdge_iff_weight _ _ _).1 he
    rcases (ExactWins.rule_to_root (hrule _ _ _ hw)).2 with ⟨k, rfl⟩ | h
    · exact Or.inl rfl
    · exact Or.inr h
  · -- funcKey
    intro k f h
    rw [hfo] at h
    exact (hsame k f h).2.1
  · -- outTyped
    intro k f0 h v hv
    rw [hfo] at h
    obtain ⟨hm0, hk0, hs0⟩ := hsame k f0 h
    rw [hg, ← hcg] at hv
    obtain ⟨f, hf, hfk, hcase⟩ := hgin v (.func k) (CGF.hasEdge_of_mem_ins _ _ _ hv)
    have hfa : f ∈ C01.allFuncs b funcs target := List.mem_cons_of_mem _ hf
    have hout : f0.output = f.output := (hs0 f hfa hfk).2
    rcases hcase with ⟨p, hp, rfl⟩ | ⟨p, hp, rfl⟩
    · refine ⟨?_, fun t s h => (by cases h), Or.inl rfl⟩
      intro n t s hv
      injection hv with hn ht _
      refine ⟨p.2, ?_, ht⟩
      rw [hout, ← hn]
      exact mapGet_of_nodup (H.wf f hfa).1 hp
    · refine ⟨fun n t s h => (by cases h), ?_, Or.inr rfl⟩
      intro t s hv
      injection hv with ht _
      have hkey := ((H.cons.2 f hfa).2.2 p hp).2.1
      have hsome := CGF.mapGet_isSome_of_mem _ _ hp
      obtain ⟨sv, hsv⟩ := Option.isSome_iff_exists.1 hsome
      refine ⟨sv, by rw [hout, ← ht, ← hkey]; exact hsv, ?_⟩
      have := ((H.cons.2 f hfa).2.2 _ (ExactWins.mem_of_mapGet' hsv)).2.1
      rw [← this, hkey, ht]

theorem initSt_sinv (H : Hyps e b funcs target) (beh : Nat → Nat → List PVal → BehOut)
    (memo : List (Nat × Memo)) (orc : List OrcItem) :
    SInv (C01.stdCtx e b funcs target beh) False (fun x => x ∈ ExactWins.inputVerts b)
      (initSt (callGraph {} e b funcs target false none).cg memo orc) := by
  have hb : ExactWins.TypedOK b := ⟨H.typed.1, H.typed.2⟩
  have hstore : (callGraph {} e b funcs target false none).cg.store =
      (inputsGraph (ExactWins.c1 target) b).1.store := by
    rw [ExactWins.callGraph_cg]
    exact ExactWins.fin_store e b funcs target
  refine ⟨?_, ?_, fun h => h.elim⟩
  · intro x v hv
    rw [ExactWins.initSt_get, hstore] at hv
    cases hm : mapGet (inputsGraph (ExactWins.c1 target) b).1.store x with
    | none => rw [hm] at hv; cases hv
    | some val =>
      rw [hm] at hv
      simp only [Option.map_some, Option.some.injEq] at hv
      subst hv
      have hx : x ∈ ExactWins.inputVerts b := by
        have := Refused.callGraph_store_inputs e b funcs target (x, val)
          (by rw [hstore]; exact ExactWins.mem_of_mapGet' hm)
        exact this
      obtain ⟨val', h1, h2⟩ := ExactWins.store_inputVerts (ExactWins.c1 target) b hb x hx
      rw [hm] at h1
      cases h1
      show e.assignable val.ty x.ty = true
      rw [h2]
      exact assignable_refl _ _
  · intro x hx
    obtain ⟨val', h1, _⟩ := ExactWins.store_inputVerts (ExactWins.c1 target) b hb x hx
    rw [ExactWins.initSt_get, hstore, h1]
    rfl

end

/-! ### R3: every value vertex feeds the type-only argument of its type -/

theorem edge_mono (c : CG) (u v : Vtx) (w : Int) {x y : Vtx} (h : c.g.hasEdge x y = true) :
    (c.edge u v w).g.hasEdge x y = true :=
  ExactWins.hasEdge_addEdge_mono _ _ _ _ h

theorem add_mono (c : CG) (v : Vtx) {x y : Vtx} (h : c.g.hasEdge x y = true) :
    (c.add v).g.hasEdge x y = true := by
  show (c.g.add v).hasEdge x y = true
  rw [CGE.hasEdge_add]; exact h

theorem edge_self (c : CG) (u v : Vtx) (w : Int) : (c.edge u v w).g.hasEdge u v = true :=
  ExactWins.hasEdge_addEdge_self _ _ _ _

theorem phaseR3_arg_edge (c : CG) (v : Vtx) (hv : v ∈ c.g.verts) (hk : v.isValue = true) :
    (phaseR3 c).g.hasEdge (.arg v.ty "") v = true := by
  unfold phaseR3
  refine ExactWins.foldl_effect _ (fun (c : CG) (v : Vtx) => c.g.hasEdge (.arg v.ty "") v = true) ?_ ?_
    (c.g.verts.filter Vtx.isValue) c v (List.mem_filter.2 ⟨hv, hk⟩)
  · intro c x
    dsimp only
    split
    · exact edge_mono _ _ _ _ (add_mono _ _ (edge_self _ _ _ _))
    · exact edge_self _ _ _ _
  · intro c x y h
    dsimp only
    have h2 := edge_mono _ (.arg y.ty "") y weightTyped
      (add_mono _ (.arg y.ty "") (edge_mono _ y (.out y.ty "") weightTyped (add_mono c (.out y.ty "") h)))
    split
    · exact edge_mono _ _ _ _ (add_mono _ _ h2)
    · exact h2

section
variable (e : TypeEnv) (b : Builder) (funcs : Nat → Option FuncDesc) (target : FuncDesc)

/-- no phase after the converters adds a value vertex -/
theorem pre_value_verts : RedefC.VP (fun v => v ∈ (ExactWins.c3 b funcs target).g.verts)
    (ExactWins.pre e b funcs target) := by
  unfold ExactWins.pre
  apply RedefC.vp_phaseR7
  apply RedefC.vp_phaseR6
  apply RedefC.vp_phaseR5
  apply RedefC.vp_phaseR4
  apply RedefC.vp_phaseR3
  intro v hv _
  exact hv

/-- in the pruned graph every value vertex is a direct requirement, of weight 5, of the type-only
argument of its type (when that vertex exists) -/
theorem arg_value_edge (n : String) (t : Nat) (s : String)
    (hv : Vtx.value n t s ∈ (ExactWins.fin e b funcs target).g.verts)
    (ha : Vtx.arg t "" ∈ (ExactWins.fin e b funcs target).g.verts) :
    (ExactWins.fin e b funcs target).g.weight (.arg t "") (.value n t s) = some 5 := by
  unfold ExactWins.fin at hv ha
  rw [ExactWins.prune_verts] at hv ha
  have h3 : Vtx.value n t s ∈ (ExactWins.c3 b funcs target).g.verts :=
    pre_value_verts e b funcs target _ hv.1 rfl
  have he3 := phaseR3_arg_edge (ExactWins.c3 b funcs target) _ h3 rfl
  have hb : ExactWins.Built (ExactWins.CRule b funcs target) (phaseR3 (ExactWins.c3 b funcs target)).g
      (ExactWins.pre e b funcs target).g := by
    unfold ExactWins.pre
    exact (ExactWins.built_phaseR4 _).trans ((ExactWins.built_phaseR5 e true _).trans
      ((ExactWins.built_phaseR6 true _).trans (ExactWins.built_phaseR7 _)))
  have hpre : (ExactWins.pre e b funcs target).g.hasEdge (.arg t "") (.value n t s) = true := hb.hasEdge he3
  have hfin := ExactWins.fin_hasEdge_of_kept e b funcs target hpre ha.2 hv.2
  obtain ⟨w, hw⟩ := (ExactWins.hasEdge_iff_weight _ _ _).1 hfin
  rw [hw]
  have hr := ExactWins.fin_rule e b funcs target _ _ _ hw
  rcases ExactWins.rule_from_arg (fun x hx => ExactWins.inputVerts_kind hx) hr with
    ⟨_, _, _, rfl⟩ | ⟨h, _⟩ | ⟨_, h, _⟩
  · rfl
  · cases h
  · cases h

end

/-! ### a shortest path to a typed argument does not end `…, value, value, arg` -/

theorem isPath_of_isPathB (g : AGraph Vtx) : ∀ (p : List Vtx), AGraph.isPathB g p = true → AGraph.IsPath g p
  | [], _ => trivial
  | [_], _ => trivial
  | u :: v :: rest, h => by
    simp only [AGraph.isPathB, Bool.and_eq_true] at h
    exact ⟨h.1, isPath_of_isPathB g (v :: rest) h.2⟩

theorem isPath_split3 (g : AGraph Vtx) (a b c : Vtx) : ∀ (pre : List Vtx), AGraph.IsPath g (pre ++ [a, b, c]) →
    AGraph.IsPath g (pre ++ [a]) ∧ g.hasEdge a b = true ∧ g.hasEdge b c = true
  | [], h => ⟨trivial, h.1, h.2.1⟩
  | [x], h => by
    obtain ⟨h1, h2⟩ := isPath_split3 g a b c [] h.2
    exact ⟨⟨h.1, trivial⟩, h2⟩
  | x :: y :: rest, h => by
    obtain ⟨h1, h2⟩ := isPath_split3 g a b c (y :: rest) h.2
    exact ⟨⟨h.1, h1⟩, h2⟩

theorem getLast?_snoc {α : Type} (l : List α) (a : α) : (l ++ [a]).getLast? = some a := by simp

section
variable (e : TypeEnv) (b : Builder) (funcs : Nat → Option FuncDesc) (target : FuncDesc)

/-- **the static core of C06b**: the path Dijkstra chooses (any legal pop order) for a requirement is good -/
theorem pathGood_of_legal
    (hsmall : ((ExactWins.fin e b funcs target).g.edges.map (fun ed => ed.2.2)).sum < maxInt32)
    (cur : Vtx) (pops : List Vtx)
    (hl : Dijkstra.LegalPops (discount (ExactWins.fin e b funcs target).g cur).reverse Vtx.root pops)
    (hvalid : validPath (ExactWins.fin e b funcs target).g cur
      (choosePath (ExactWins.fin e b funcs target).g cur pops) = true) :
    PathGood (choosePath (ExactWins.fin e b funcs target).g cur pops) := by
  intro pre a b' c' heq ha hb hc
  have hwf := ExactWins.fin_wf e b funcs target
  have hrule := ExactWins.fin_rule e b funcs target
  have hroot := ExactWins.fin_root e b funcs target
  have hedges := C01.callGraph_edges e b funcs target false none
  rw [cg_g] at hedges
  generalize hg : (ExactWins.fin e b funcs target).g = g at *
  have hgfin : g = (ExactWins.fin e b funcs target).g := hg.symm
  simp only [validPath, Bool.and_eq_true, beq_iff_eq] at hvalid
  obtain ⟨⟨⟨_, hhead⟩, hlast⟩, hpathB⟩ := hvalid
  -- the last vertex is the requirement
  have hcur : c' = cur := by
    rw [heq] at hlast
    have : (pre ++ [a, b', c']).getLast? = some c' := by
      have : pre ++ [a, b', c'] = (pre ++ [a, b']) ++ [c'] := by simp
      rw [this]; exact getLast?_snoc _ _
    rw [this] at hlast
    exact Option.some.inj hlast
  subst hcur
  cases c' with
  | root => cases hc
  | value _ _ _ => cases hc
  | out _ _ => cases hc
  | func _ => cases hc
  | arg t' s' =>
  have hd : discount g (.arg t' s') = g := rfl
  rw [hd] at hl
  have hno : C18.NoOverflow g.reverse := by
    constructor
    · intro ed hed
      simp only [AGraph.reverse, List.mem_map] at hed
      obtain ⟨e0, he0, rfl⟩ := hed
      have := DijkstraProofs.weight_of_mem hwf (u := e0.1) (v := e0.2.1) (w := e0.2.2) he0
      have := ExactWins.rule_pos (hrule _ _ _ this)
      show 0 ≤ e0.2.2
      omega
    · have : g.reverse.edges.map (fun e => e.2.2) = g.edges.map (fun e => e.2.2) := by
        simp [AGraph.reverse, List.map_map, Function.comp_def]
      rw [this]; exact hsmall
  have hpath : AGraph.IsPath g.reverse (choosePath g (.arg t' s') pops) := isPath_of_isPathB _ _ hpathB
  have hrootmem : Vtx.root ∈ choosePath g (.arg t' s') pops := by
    cases hcp : choosePath g (.arg t' s') pops with
    | nil => rw [hcp] at hhead; cases hhead
    | cons x xs =>
      rw [hcp] at hhead
      simp only [List.head?_cons, Option.some.injEq] at hhead
      subst hhead
      exact List.mem_cons_self
  have hr : AGraph.Reach g.reverse .root (.arg t' s') :=
    DijkstraProofs.reach_of_mem_path hpath hlast _ hrootmem
  obtain ⟨hdist, _, hpw⟩ := C18.dist_exact g.reverse (ExactWins.WF_reverse hwf) .root hroot pops hl hno (.arg t' s') hr
  have hpw' : AGraph.pathWeight g.reverse (choosePath g (.arg t' s') pops) =
      (Dijkstra.run g.reverse Vtx.root pops).dist (.arg t' s') := hpw
  rw [heq] at hpath hpw' hhead
  -- the three vertices at the end
  obtain ⟨hp1, he1, he2⟩ := isPath_split3 _ _ _ _ pre hpath
  have ge1 : g.hasEdge b' a = true := (ReachSound.hasEdge_reverse _ _ _).1 he1
  have ge2 : g.hasEdge (.arg t' s') b' = true := (ReachSound.hasEdge_reverse _ _ _).1 he2
  cases a with
  | root => cases ha
  | arg _ _ => cases ha
  | out _ _ => cases ha
  | func _ => cases ha
  | value n t s =>
  cases b' with
  | root => cases hb
  | arg _ _ => cases hb
  | out _ _ => cases hb
  | func _ => cases hb
  | value n2 t2 s2 =>
  obtain ⟨rfl, rfl, rfl, hs⟩ := rule_value_value' (hedges _ _ ge1)
  obtain ⟨rfl, hs'⟩ := rule_arg_value' (hedges _ _ ge2)
  have hs'' : s' = "" := by rcases hs' with h | h <;> exact h
  subst hs''
  -- both end vertices are vertices of the graph
  obtain ⟨w1, hw1⟩ := (ExactWins.hasEdge_iff_weight _ _ _).1 ge1
  obtain ⟨w2, hw2⟩ := (ExactWins.hasEdge_iff_weight _ _ _).1 ge2
  have hva : Vtx.value n t s ∈ g.verts := (ExactWins.weight_of_mem_verts hwf hw1).2
  have hvc : Vtx.arg t "" ∈ g.verts := (ExactWins.weight_of_mem_verts hwf hw2).1
  have hw3 : g.weight (.arg t "") (.value n t s) = some 5 := by
    rw [hgfin] at hva hvc ⊢
    exact arg_value_edge e b funcs target n t s hva hvc
  -- the weights
  have hw1' : w1 = 5 := by
    have := hrule _ _ _ hw1
    cases this; rfl
  have hw2' : w2 = 5 := by
    rcases ExactWins.rule_from_arg (fun x hx => ExactWins.inputVerts_kind hx) (hrule _ _ _ hw2) with
      ⟨_, _, _, h⟩ | ⟨h, _⟩ | ⟨_, h, _⟩
    · exact h
    · cases h
    · cases h
  subst hw1'; subst hw2'
  have rw1 : g.reverse.weight (.value n t s) (.value n t "") = some 5 := by
    rw [AGraph.weight_reverse]; exact hw1
  have rw2 : g.reverse.weight (.value n t "") (.arg t "") = some 5 := by
    rw [AGraph.weight_reverse]; exact hw2
  have rw3 : g.reverse.weight (.value n t s) (.arg t "") = some 5 := by
    rw [AGraph.weight_reverse]; exact hw3
  -- weight of the chosen path
  have hlp : (pre ++ [Vtx.value n t s]).getLast? = some (Vtx.value n t s) := getLast?_snoc _ _
  have hsplit : pre ++ [Vtx.value n t s, Vtx.value n t "", Vtx.arg t ""] =
      ((pre ++ [Vtx.value n t s]) ++ [Vtx.value n t ""]) ++ [Vtx.arg t ""] := by simp
  have hwt : AGraph.pathWeight g.reverse (pre ++ [Vtx.value n t s, Vtx.value n t "", Vtx.arg t ""]) =
      AGraph.pathWeight g.reverse (pre ++ [Vtx.value n t s]) + 5 + 5 := by
    rw [hsplit, DijkstraProofs.pathWeight_snoc (getLast?_snoc _ _), DijkstraProofs.pathWeight_snoc hlp, rw1, rw2]
    rfl
  -- the shortcut
  have halt : C18.PathFromTo g.reverse .root (.arg t "") ((pre ++ [Vtx.value n t s]) ++ [Vtx.arg t ""]) := by
    refine ⟨?_, getLast?_snoc _ _, DijkstraProofs.isPath_snoc hlp hp1
      ((ExactWins.hasEdge_iff_weight _ _ _).2 ⟨5, rw3⟩)⟩
    cases pre with
    | nil => simp at hhead
    | cons x xs => simpa using hhead
  have hle := hdist.2 _ halt
  rw [DijkstraProofs.pathWeight_snoc hlp, rw3] at hle
  rw [hwt] at hpw'
  simp only [Option.getD_some] at hle
  omega

end

/-! ### requirement edges survive when both ends survive -/

/-- `funcGraph` creates the requirement edges of the function, with or without its outputs -/
theorem funcGraph_req_edge' (c : CG) (f : FuncDesc) (io : Bool) (v : SVal) (hv : v ∈ f.input.values) :
    (funcGraph c f io).g.hasEdge (.func f.key) v.lab.vertex = true := by
  unfold funcGraph
  dsimp only
  have h3 : ∀ c0 : CG, (f.input.values.foldl (fun (c : CG) (val : SVal) =>
      if val.lab.name ≠ "" then
        (c.add (.value val.lab.name val.lab.ty val.lab.sub)).edge (Vtx.func f.key)
          (.value val.lab.name val.lab.ty val.lab.sub) weightNormal
      else
        (c.add (.arg val.lab.ty val.lab.sub)).edge (Vtx.func f.key) (.arg val.lab.ty val.lab.sub) weightTyped)
      c0).g.hasEdge (.func f.key) v.lab.vertex = true := by
    intro c0
    refine ExactWins.foldl_effect _ (fun (c : CG) (v : SVal) => c.g.hasEdge (.func f.key) v.lab.vertex = true) ?_ ?_
      f.input.values _ v hv
    · intro c x
      unfold Label.vertex
      split
      · exact edge_self _ _ _ _
      · exact edge_self _ _ _ _
    · intro c x y h
      split
      · exact edge_mono _ _ _ _ (add_mono _ _ h)
      · exact edge_mono _ _ _ _ (add_mono _ _ h)
  split
  · exact h3 _
  · apply CGE.foldl_inv' (fun c' : CG => c'.g.hasEdge (.func f.key) v.lab.vertex = true)
    · intro c' p hc'
      exact edge_mono _ _ _ _ (add_mono _ _ hc')
    · apply CGE.foldl_inv' (fun c' : CG => c'.g.hasEdge (.func f.key) v.lab.vertex = true)
      · intro c' p hc'
        exact edge_mono _ _ _ _ (add_mono _ _ hc')
      · exact h3 _

section
variable (e : TypeEnv) (b : Builder) (funcs : Nat → Option FuncDesc) (target : FuncDesc)

/-- the requirement edges of every registered converter are in the graph before pruning -/
theorem pre_conv_req_edge (fid : Nat) (hfid : fid ∈ b.convs) (f : FuncDesc) (hf : funcs fid = some f)
    (v : SVal) (hv : v ∈ f.input.values) :
    (ExactWins.pre e b funcs target).g.hasEdge (.func f.key) v.lab.vertex = true := by
  apply (ExactWins.built_pre_c3 e b funcs target).hasEdge
  have hroot2 : Vtx.root ∈ (ExactWins.c2 b target).g.verts :=
    (ExactWins.built_c2 b funcs target).verts ((ExactWins.built_c1 b funcs target).verts ExactWins.root_mem_c0)
  unfold ExactWins.c3
  have := Prune.Ext.foldl_mem (R := fun _ _ => True)
    (fun (c : CG) (fid : Nat) => match funcs fid with
      | some f => funcGraph c f true
      | none => c)
    (fun c : CG => ∀ f, funcs fid = some f → ∀ v ∈ f.input.values, c.g.hasEdge (.func f.key) v.lab.vertex = true)
    fid (ExactWins.c2 b target)
    (by
      intro c f' hf' v' hv'
      rw [hf']
      exact funcGraph_req_edge' c f' true v' hv')
    (by
      intro c c' hext hq f' hf' v' hv'
      exact hext.edge_mono (hq f' hf' v' hv'))
    b.convs
    (by
      intro c y _ hc
      split
      · exact Prune.ext_funcGraph c _ true (hc.verts hroot2) (fun _ => trivial) (fun _ _ => trivial)
          (fun _ _ _ => trivial) (fun _ _ _ => trivial)
      · exact .refl _)
    hfid (ExactWins.c2 b target) (.refl _)
  exact this f hf v hv

variable {e b funcs target}

/-- **`missingArg` needs a pruned parameter**: when every converter whose vertex survives pruning keeps
all its parameter vertices (and `callGraph` found every parameter of the target reachable), every
requirement edge of every function object is in the pruned graph -/
theorem reqs_of_kept (H : Hyps e b funcs target) (beh : Nat → Nat → List PVal → BehOut)
    (hsat : (callGraph {} e b funcs target false none).unsat = [])
    (hkept : ∀ f ∈ b.convs.filterMap funcs,
      Vtx.func f.key ∈ (callGraph {} e b funcs target false none).cg.g.verts →
      ∀ v ∈ f.input.values, v.lab.vertex ∈ (callGraph {} e b funcs target false none).cg.g.verts) :
    ∀ k f, (C01.stdCtx e b funcs target beh).funcOf k = some f →
      (∃ u, (C01.stdCtx e b funcs target beh).g.hasEdge (.func k) u = true) →
      ∀ v ∈ f.input.values, v.lab.vertex ∈ (C01.stdCtx e b funcs target beh).g.outs (.func k) := by
  intro k f0 hfo ⟨u, hu⟩ v hv
  have hfo' : (C01.allFuncs b funcs target).find? (fun f => f.key == k) = some f0 := hfo
  have hm := List.mem_of_find?_eq_some hfo'
  have hk : f0.key = k := by simpa using List.find?_some hfo'
  rcases List.mem_cons.1 hm with rfl | hconv
  · rw [← hk]
    exact params_kept hsat beh v hv
  · rw [std_g, ExactWins.mem_outs_iff_hasEdge]
    rw [std_g] at hu
    rw [cg_g] at hkept
    obtain ⟨fid, hfid, hf⟩ := List.mem_filterMap.1 hconv
    have hwf := ExactWins.fin_wf e b funcs target
    obtain ⟨w, hw⟩ := (ExactWins.hasEdge_iff_weight _ _ _).1 hu
    have hfk : Vtx.func f0.key ∈ (ExactWins.fin e b funcs target).g.verts := by
      rw [hk]; exact (ExactWins.weight_of_mem_verts hwf hw).1
    have hvk := hkept f0 hconv hfk v hv
    unfold ExactWins.fin at hfk hvk
    rw [ExactWins.prune_verts] at hfk hvk
    rw [← hk]
    exact ExactWins.fin_hasEdge_of_kept e b funcs target (pre_conv_req_edge e b funcs target fid hfid f0 hf v hv)
      hfk.2 hvk.2

/-- a legal oracle item is a good one -/
theorem itemOK_of_legal (beh : Nat → Nat → List PVal → BehOut)
    (hsmall : ((callGraph {} e b funcs target false none).cg.g.edges.map (fun ed => ed.2.2)).sum < maxInt32)
    (it : OrcItem)
    (hleg : ∀ (i : Nat) (cur : Vtx) (path : List Vtx), it.missing[i]? = some cur → it.paths[i]? = some path →
      ∃ pops, Dijkstra.LegalPops (discount (callGraph {} e b funcs target false none).cg.g cur).reverse Vtx.root pops ∧
        path = choosePath (callGraph {} e b funcs target false none).cg.g cur pops) :
    ItemOK (C01.stdCtx e b funcs target beh).g it := by
  intro i cur path h1 h2 hvalid
  obtain ⟨pops, hl, rfl⟩ := hleg i cur _ h1 h2
  rw [std_g] at hvalid
  rw [cg_g] at hsmall hl hvalid ⊢
  exact pathGood_of_legal e b funcs target hsmall cur pops hl hvalid

/-- (oracle items good, or R6 hops copy — which they do in `C01.stdCtx` since the repair of F22)
the three outcomes, for `Call` on the graph `callGraph` builds: `K` marks whether the requirement edges
are known to have survived pruning; the oracle items are good -/
theorem core_items' (H : Hyps e b funcs target) (beh : Nat → Nat → List PVal → BehOut) (K : Prop)
    (hreqs : K → (callGraph {} e b funcs target false none).unsat = [] →
      ∀ k f, (C01.stdCtx e b funcs target beh).funcOf k = some f →
        (∃ u, (C01.stdCtx e b funcs target beh).g.hasEdge (.func k) u = true) →
        ∀ v ∈ f.input.values, v.lab.vertex ∈ (C01.stdCtx e b funcs target beh).g.outs (.func k))
    (fuel : Nat) (memo : List (Nat × Memo)) (orc : List OrcItem)
    (hitems : ∀ it ∈ orc, (C01.stdCtx e b funcs target beh).hopCopies = true ∨ ItemOK (C01.stdCtx e b funcs target beh).g it) :
    (callWith (C01.stdCtx e b funcs target beh) (callGraph {} e b funcs target false none) target fuel
      (initSt (callGraph {} e b funcs target false none).cg memo orc)).1 ≠ .panic .finalValue ∧
    (callWith (C01.stdCtx e b funcs target beh) (callGraph {} e b funcs target false none) target fuel
      (initSt (callGraph {} e b funcs target false none).cg memo orc)).1 ≠ .panic .setNotAssignable ∧
    (K → (callWith (C01.stdCtx e b funcs target beh) (callGraph {} e b funcs target false none) target fuel
      (initSt (callGraph {} e b funcs target false none).cg memo orc)).1 ≠ .missingArg) := by
  by_cases hsat : (callGraph {} e b funcs target false none).unsat = []
  · have gf := facts_std H beh K (fun hk => hreqs hk hsat)
    exact callWith_notBad gf _ target rfl (fun _ _ v hv => params_kept hsat beh v hv) fuel _
      ⟨initSt_sinv H beh memo orc, hitems⟩
  · have hne : (!(callGraph {} e b funcs target false none).unsat.isEmpty) = true := by
      cases hu : (callGraph {} e b funcs target false none).unsat with
      | nil => exact absurd hu hsat
      | cons a l => rfl
    unfold callWith
    rw [if_pos hne]
    exact ⟨by simp, by simp, fun _ => by simp⟩

/-- the three outcomes, for `Call` on the graph `callGraph` builds: `K` marks whether the requirement edges
are known to have survived pruning; the oracle items are good -/
theorem core_items (H : Hyps e b funcs target) (beh : Nat → Nat → List PVal → BehOut) (K : Prop)
    (hreqs : K → (callGraph {} e b funcs target false none).unsat = [] →
      ∀ k f, (C01.stdCtx e b funcs target beh).funcOf k = some f →
        (∃ u, (C01.stdCtx e b funcs target beh).g.hasEdge (.func k) u = true) →
        ∀ v ∈ f.input.values, v.lab.vertex ∈ (C01.stdCtx e b funcs target beh).g.outs (.func k))
    (fuel : Nat) (memo : List (Nat × Memo)) (orc : List OrcItem)
    (hitems : ∀ it ∈ orc, ItemOK (C01.stdCtx e b funcs target beh).g it) :
    (callWith (C01.stdCtx e b funcs target beh) (callGraph {} e b funcs target false none) target fuel
      (initSt (callGraph {} e b funcs target false none).cg memo orc)).1 ≠ .panic .finalValue ∧
    (callWith (C01.stdCtx e b funcs target beh) (callGraph {} e b funcs target false none) target fuel
      (initSt (callGraph {} e b funcs target false none).cg memo orc)).1 ≠ .panic .setNotAssignable ∧
    (K → (callWith (C01.stdCtx e b funcs target beh) (callGraph {} e b funcs target false none) target fuel
      (initSt (callGraph {} e b funcs target false none).cg memo orc)).1 ≠ .missingArg) :=
  core_items' H beh K hreqs fuel memo orc (fun it hit => Or.inr (hitems it hit))

/-- … for a legal oracle -/
theorem core (H : Hyps e b funcs target) (beh : Nat → Nat → List PVal → BehOut) (K : Prop)
    (hreqs : K → (callGraph {} e b funcs target false none).unsat = [] →
      ∀ k f, (C01.stdCtx e b funcs target beh).funcOf k = some f →
        (∃ u, (C01.stdCtx e b funcs target beh).g.hasEdge (.func k) u = true) →
        ∀ v ∈ f.input.values, v.lab.vertex ∈ (C01.stdCtx e b funcs target beh).g.outs (.func k))
    (hsmall : ((callGraph {} e b funcs target false none).cg.g.edges.map (fun ed => ed.2.2)).sum < maxInt32)
    (fuel : Nat) (memo : List (Nat × Memo)) (orc : List OrcItem)
    (hleg : ∀ it ∈ orc, ∀ (i : Nat) (cur : Vtx) (path : List Vtx), it.missing[i]? = some cur →
      it.paths[i]? = some path →
      ∃ pops, Dijkstra.LegalPops (discount (callGraph {} e b funcs target false none).cg.g cur).reverse Vtx.root pops ∧
        path = choosePath (callGraph {} e b funcs target false none).cg.g cur pops) :
    (callWith (C01.stdCtx e b funcs target beh) (callGraph {} e b funcs target false none) target fuel
      (initSt (callGraph {} e b funcs target false none).cg memo orc)).1 ≠ .panic .finalValue ∧
    (callWith (C01.stdCtx e b funcs target beh) (callGraph {} e b funcs target false none) target fuel
      (initSt (callGraph {} e b funcs target false none).cg memo orc)).1 ≠ .panic .setNotAssignable ∧
    (K → (callWith (C01.stdCtx e b funcs target beh) (callGraph {} e b funcs target false none) target fuel
      (initSt (callGraph {} e b funcs target false none).cg memo orc)).1 ≠ .missingArg) :=
  core_items H beh K hreqs fuel memo orc (fun it hit => itemOK_of_legal beh hsmall it (hleg it hit))

end

/-! ### single-input converters keep their parameter -/

section
variable {e : TypeEnv} {b : Builder} {funcs : Nat → Option FuncDesc} {target : FuncDesc}

theorem kept_of_explored (c : CG) (hwf : c.g.WF) (hroot : Vtx.root ∈ c.g.verts) (t u : Vtx)
    (h : C20.Explored c.g.reverse (fun v => if v = t then .skip else .descend) .root u) :
    ExactWins.Kept c t u := by
  have hex := (C20.dfs_exact c.g.reverse (ExactWins.WF_reverse hwf)
    (fun v => if v = t then .skip else .descend) .root hroot (by intro w _; split <;> simp)).2.2
  cases h with
  | start => exact Or.inl rfl
  | step hu' he hne _ =>
    right
    rw [hex u]
    exact ⟨hne, _, hu', he⟩

/-- a kept vertex other than the root was reached from a kept requirement -/
theorem kept_pred (c : CG) (hwf : c.g.WF) (hroot : Vtx.root ∈ c.g.verts) (t y : Vtx)
    (hk : ExactWins.Kept c t y) (hy : y ≠ .root) :
    ∃ u, ExactWins.Kept c t u ∧ c.g.hasEdge y u = true := by
  have hex := (C20.dfs_exact c.g.reverse (ExactWins.WF_reverse hwf)
    (fun v => if v = t then .skip else .descend) .root hroot (by intro w _; split <;> simp)).2.2
  rcases hk with h | hlog
  · exact absurd h hy
  · obtain ⟨_, u, hu, hedge⟩ := (hex y).1 hlog
    exact ⟨u, kept_of_explored c hwf hroot t u hu, (ReachSound.hasEdge_reverse _ _ _).1 hedge⟩

/-- a converter with at most one input whose vertex survives pruning keeps its parameter vertex: the
vertex was reached through that parameter (or through the root, and then there is no parameter) -/
theorem paramsKept_of_single (H : Hyps e b funcs target)
    (hsi : ∀ f ∈ b.convs.filterMap funcs, f.input.values.length ≤ 1) :
    ∀ f ∈ b.convs.filterMap funcs,
      Vtx.func f.key ∈ (callGraph {} e b funcs target false none).cg.g.verts →
      ∀ v ∈ f.input.values, v.lab.vertex ∈ (callGraph {} e b funcs target false none).cg.g.verts := by
  intro f hf hfv v hv
  have hcg := cg_g (e := e) (b := b) (funcs := funcs) (target := target)
  rw [hcg] at hfv ⊢
  have hfa : f ∈ C01.allFuncs b funcs target := List.mem_cons_of_mem _ hf
  have hwf := ExactWins.pre_wf e b funcs target
  unfold ExactWins.fin at hfv
  rw [ExactWins.prune_verts] at hfv
  obtain ⟨u, hku, hge⟩ := kept_pred _ hwf (ExactWins.pre_root e b funcs target) _ _ hfv.2 (by simp)
  obtain ⟨w, hw⟩ := (ExactWins.hasEdge_iff_weight _ _ _).1 hge
  have hum : u ∈ (ExactWins.pre e b funcs target).g.verts := (ExactWins.weight_of_mem_verts hwf hw).2
  rcases ExactWins.rule_from_func (ExactWins.pre_rule e b funcs target _ _ _ hw) with ⟨rfl, _⟩ | ⟨f', hf', hk', v', hv', huv, _⟩
  · -- reached through the root: the function has no input at all
    exfalso
    have hfin : (ExactWins.fin e b funcs target).g.hasEdge (.func f.key) .root = true :=
      ExactWins.fin_hasEdge_of_kept e b funcs target hge hfv.2 hku
    rw [← hcg, callGraph_cg_prune] at hfin
    have hpp := hasEdge_prune (Prune.pre e b funcs target) (.func target.key) _ _ hfin
    obtain ⟨f', hf', hk', hemp⟩ := pre_func_root e b funcs target f.key hpp
    rw [(H.cons.1 f' hf' f hfa hk').1] at hemp
    unfold ValueSet.empty at hemp
    cases hst : f.input.hasStruct with
    | false =>
      rw [(H.wf f hfa).2 hst] at hv
      cases hv
    | true =>
      rw [hst] at hemp
      have : f.input.values = [] := by simpa using hemp
      rw [this] at hv
      cases hv
  · rw [(H.cons.1 f' hf' f hfa hk').1] at hv'
    have : v' = v := eq_of_length_le_one (hsi f hf) hv' hv
    subst this
    unfold ExactWins.fin
    rw [ExactWins.prune_verts, ← huv]
    exact ⟨hum, hku⟩

end

end ArgMapper.WalkPanic
