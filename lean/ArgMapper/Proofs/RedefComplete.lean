import ArgMapper.Proofs.Complete
import ArgMapper.Proofs.RedefineInputs
/-!
# Completeness of the planning run of `Redefine` on single-input converter sets (helper lemmas for C08b)

Dynamic part: the analogue of `Proofs/Complete.lean` for `reach c true …` on a graph with the
filter-gated root edges of rule R8.  The only difference to a `Call` graph is what may hang off the root:
besides function vertices and supplied vertices, any value / typed-argument vertex (`FactsR.toRoot`).
In redefine mode `planOne` stores a zero value at the first vertex of every chosen path, so the walk still
finds a value at the vertex that follows the root; the supplied-vertex predicate of `Complete.SInv` is
instantiated, after planning, with "supplied, or planned as the input of a chosen path".

In addition the walk is shown to leave `inputSet` untouched (the nested searches of converters return at
once), so the recorded input set is the one the planning loop built: it has no duplicates.
-/
set_option linter.unusedSectionVars false
set_option linter.unusedVariables false
namespace ArgMapper.RedefC
open ArgMapper WalkEqs ReachSound Complete

/-- what the dynamic part needs to know about the context (`Complete.Facts` with the weaker `toRoot`) -/
structure FactsR (c : Ctx) (N : Prop) (tk : Nat) (Sup0 : Vtx → Prop) : Prop where
  hN : N → NE c
  pub : c.publishAfterUpdate = true
  tvn : c.takeValuedNamed = true
  mc : c.memoCopy = true
  tr : c.trackReaching = true
  sri : c.skipRecordsInput = false
  auto : c.auto = false
  trans : ImplTrans c.env
  edgeOK : EdgeOK c.env c.g
  valSub : ∀ x n t s, c.g.hasEdge x (.value n t s) = true → s = ""
  toRoot : ∀ x, c.g.hasEdge x .root = true → x.isFunc = true ∨ Sup0 x ∨ x.isValue = true ∨ x.isArg = true
  funcReq : ∀ k y, c.g.hasEdge (.func k) y = true →
    ∃ f, c.funcOf k = some f ∧ (y = .root ∨ ∃ v ∈ f.input.values, y = v.lab.vertex)
  funcKey : ∀ k f, c.funcOf k = some f → f.key = k
  funcRoot : ∀ k f, k ≠ tk → c.funcOf k = some f → c.g.hasEdge (.func k) .root = true →
    f.input.values = []
  single : ∀ k f, k ≠ tk → c.funcOf k = some f → f.input.values.length ≤ 1
  noTarget : ∀ x, c.g.hasEdge x (.func tk) = false
  outTyped : ∀ k f, c.funcOf k = some f → OutTyped f (c.g.ins (.func k))

variable {c : Ctx} {N : Prop} {tk : Nat} {Sup0 Sup : Vtx → Prop} {E : RErr → Prop}

/-- `Complete.WInv` with an arbitrary set `E` of admitted errors -/
def WInvE (c : Ctx) (N : Prop) (Sup : Vtx → Prop) (E : RErr → Prop) (w : WalkSt) : Prop :=
  (∀ e, w.err = some e → E e) ∧
  (w.err = none → SInv c N Sup w.s ∧ PrevOK c w.s w.final w.prev)

/-- the nested search of a converter whose requirements are all filled fails with an admitted error or
returns at once -/
def RecSpecE (c : Ctx) (E : RErr → Prop) (rec : Vtx → CallSt → Except RErr ArgMap × CallSt) : Prop :=
  ∀ k s, (∀ v ∈ c.g.outs (.func k), (v == Vtx.root || takenAsIs c s v) = true) →
    (∃ e, (rec (.func k) s).1 = .error e ∧ E e) ∨
    ∃ rest, rec (.func k) s =
      (.ok ((c.g.outs (.func k)).filterMap (fun v => if v == Vtx.root then none else (s.get v).map (fun x => (v, x)))),
       { s with orc := rest })

theorem RecSpecE.of_recSpec {rec : Vtx → CallSt → Except RErr ArgMap × CallSt} (h : RecSpec c rec) :
    RecSpecE c (Allowed N) rec := by
  intro k s hall
  rcases h k s hall with ⟨w, hw⟩ | h'
  · exact Or.inl ⟨_, hw, Or.inl ⟨w, rfl⟩⟩
  · exact Or.inr h'

/-! ### one step of the walk -/

theorem walkStep_winv' (gf : FactsR c N tk Sup0) (hEf : ∀ ε, ¬ N → E (.funcErr ε))
    (rec : Vtx → CallSt → Except RErr ArgMap × CallSt)
    (hrec : RecSpecE c E rec) (w : WalkSt) (v : Vtx) (hw : WInvE c N Sup E w)
    (hedge : w.err = none → ∃ u, w.prev = some u ∧ c.g.hasEdge v u = true) (hv : v ≠ .func tk)
    (hroot : w.err = none → w.prev = some .root → v.isFunc = true ∨ Sup v) :
    WInvE c N Sup E (walkStep c rec w v) ∧
    ((walkStep c rec w v).err = none → (walkStep c rec w v).s.inputSet = w.s.inputSet) := by
  cases herr : w.err with
  | some e => rw [walkStep_err c rec herr]; exact ⟨hw, fun _ => rfl⟩
  | none =>
    obtain ⟨hS, hP⟩ := hw.2 herr
    obtain ⟨u, hu, he⟩ := hedge herr
    have hroot' : u = .root → v.isFunc = true ∨ Sup v := fun h => hroot herr (by rw [hu, h])
    rw [hu] at hP
    have hrule := gf.edgeOK _ _ he
    have hkind := kindOK_of_rule hrule
    cases v with
    | root =>
      rw [walkStep_root c rec herr]
      exact ⟨⟨fun e h => (no_err herr h).elim, fun _ => ⟨hS, trivial⟩⟩, fun _ => rfl⟩
    | value n t x =>
      rw [walkStep_value c rec herr, hu]
      -- the copy
      have key : SInv c N Sup (valCopy c w.s (some u) (.value n t x)) ∧
          ((valCopy c w.s (some u) (.value n t x)).get (.value n t x)).isSome = true := by
        cases u with
        | root =>
          rw [valCopy_store_eq _ _ _ _ rfl rfl]
          rcases hroot' rfl with h | h
          · cases h
          · exact ⟨hS, hS.sup _ h⟩
        | value n' t' x' =>
          exact absurd (gf.valSub _ _ _ _ he) (rule_value_value hrule)
        | arg t' x' => simp [kindOK] at hkind
        | out t' x' =>
          have ht := rule_value_out hrule
          subst ht
          obtain ⟨a, ha⟩ := Option.isSome_iff_exists.1 hP.1
          show SInv c N Sup (w.s.set _ (w.s.get (.out t' x'))) ∧ ((w.s.set _ (w.s.get (.out t' x'))).get _).isSome = true
          rw [ha]
          refine ⟨hS.set _ _ (hS.typed (.out t' x') a ha), ?_⟩
          rw [get_set]; simp
        | func k =>
          rw [valCopy_store_eq _ _ _ _ rfl rfl]
          exact ⟨hS, hP _ (mem_ins_of_hasEdge _ _ _ he)⟩
      have hinp := RedefineInputs.valCopy_inputSet c w.s (some u) (.value n t x)
      generalize valCopy c w.s (some u) (.value n t x) = s1 at key hinp
      obtain ⟨k1, k2⟩ := key
      refine ⟨⟨fun e h => (no_err herr h).elim, fun _ => ⟨k1.congr rfl rfl, ?_⟩⟩, fun _ => hinp⟩
      obtain ⟨a, ha⟩ := Option.isSome_iff_exists.1 k2
      show (s1.get (.value n t x)).isSome = true ∧
        (if c.publishAfterUpdate = true then s1.get (.value n t x) else w.s.get (.value n t x)) = s1.get (.value n t x) ∧
        (s1.get (.value n t x)).or w.final = s1.get (.value n t x)
      rw [gf.pub, ha]
      simp
    | out t x =>
      rw [walkStep_out c rec herr, hu]
      have key : SInv c N Sup (copyFrom w.s (some u) (.out t x)) ∧
          ((copyFrom w.s (some u) (.out t x)).get (.out t x)).isSome = true := by
        cases u with
        | root =>
          rw [copyFrom_store_eq _ _ _ rfl]
          rcases hroot' rfl with h | h
          · cases h
          · exact ⟨hS, hS.sup _ h⟩
        | value n' t' x' => simp [kindOK] at hkind
        | arg t' x' => simp [kindOK] at hkind
        | out t' x' =>
          obtain ⟨hi, him⟩ := rule_out_out hrule
          obtain ⟨a, ha⟩ := Option.isSome_iff_exists.1 hP.1
          show SInv c N Sup (w.s.set _ (w.s.get (.out t' x'))) ∧ ((w.s.set _ (w.s.get (.out t' x'))).get _).isSome = true
          rw [ha]
          refine ⟨hS.set _ _ (assignable_trans_impl _ gf.trans _ _ _ (hS.typed (.out t' x') a ha) hi him), ?_⟩
          rw [get_set]; simp
        | func k =>
          rw [copyFrom_store_eq _ _ _ rfl]
          exact ⟨hS, hP _ (mem_ins_of_hasEdge _ _ _ he)⟩
      have hinp := RedefineInputs.copyFrom_inputSet w.s (some u) (.out t x)
      generalize copyFrom w.s (some u) (.out t x) = s1 at key hinp
      obtain ⟨k1, k2⟩ := key
      exact ⟨⟨fun e h => (no_err herr h).elim, fun _ => ⟨k1.congr rfl rfl, k2, rfl⟩⟩, fun _ => hinp⟩
    | arg t x =>
      rw [walkStep_arg c rec herr]
      have key : SInv c N Sup (argStore c w.s t (.arg t x)) ∧
          ((argStore c w.s t (.arg t x)).get (.arg t x)).isSome = true := by
        have fromLast : (∃ a, w.s.last = some a ∧ c.env.assignable a.ty t = true) →
            SInv c N Sup (argStore c w.s t (.arg t x)) ∧
              ((argStore c w.s t (.arg t x)).get (.arg t x)).isSome = true := by
          rintro ⟨a, hla, hta⟩
          have hst : argStore c w.s t (.arg t x) = w.s.set (.arg t x) (some a) := by
            unfold argStore
            rw [hla]
            dsimp only
            rw [if_pos hta]
          rw [hst]
          refine ⟨hS.set _ _ hta, ?_⟩
          rw [get_set]; simp
        cases u with
        | root =>
          rcases hroot' rfl with h | h
          · cases h
          · have hsome := hS.sup _ h
            unfold argStore
            split
            · rename_i a hla
              split
              · rename_i hta
                refine ⟨hS.set _ _ hta, ?_⟩
                rw [get_set]; simp
              · exact ⟨hS, hsome⟩
            · exact ⟨hS, hsome⟩
        | value n' t' x' =>
          have ht := rule_arg_value hrule
          subst ht
          obtain ⟨a, ha⟩ := Option.isSome_iff_exists.1 hP.1
          exact fromLast ⟨a, by rw [hP.2.1, ha], hS.typed _ _ ha⟩
        | arg t' x' => simp [kindOK] at hkind
        | out t' x' =>
          have ht := rule_arg_out hrule
          subst ht
          obtain ⟨a, ha⟩ := Option.isSome_iff_exists.1 hP.1
          exact fromLast ⟨a, by rw [hP.2, ha], hS.typed _ _ ha⟩
        | func k => simp [kindOK] at hkind
      exact ⟨⟨fun e h => (no_err herr h).elim, fun _ => ⟨key.1, key.2, rfl⟩⟩,
        fun _ => RedefineInputs.argStore_inputSet _ _ _ _⟩
    | func k =>
      have hk : k ≠ tk := fun h => hv (by rw [h])
      obtain ⟨f, hfo, hreq⟩ := gf.funcReq k u he
      have hlen := gf.single k f hk hfo
      -- every requirement of the converter is the root or holds a value
      have hu_some : u ≠ .root → (w.s.get u).isSome = true := by
        intro hur
        rcases hreq with h | ⟨v0, _, h⟩
        · exact absurd h hur
        · have hd : u.isData = true := by
            rw [h]; rcases vertex_kind v0.lab with h' | h' <;> simp [Vtx.isData, h']
          exact prevOK_isSome hd hP
      have hvals : ∀ v' ∈ f.input.values, u = v'.lab.vertex := by
        intro v' hv'
        rcases hreq with h | ⟨v0, hv0, h⟩
        · subst h
          rw [gf.funcRoot k f hk hfo he] at hv'
          cases hv'
        · rw [h, eq_of_length_le_one hlen hv0 hv']
      have hready : ∀ r ∈ c.g.outs (.func k), (r == Vtx.root || takenAsIs c w.s r) = true := by
        intro r hr
        obtain ⟨f', hfo', hreq'⟩ := gf.funcReq k r (hasEdge_of_mem_outs _ _ _ hr)
        rw [hfo] at hfo'
        cases hfo'
        rcases hreq' with rfl | ⟨v', hv', rfl⟩
        · rfl
        · have hu' := hvals v' hv'
          rw [← hu']
          have : takenAsIs c w.s u = true :=
            takenAsIs_of_isSome gf.tvn _ _ (by rw [hu']; exact vertex_kind _)
              (hu_some (by rw [hu']; exact vertex_ne_root _))
          rw [this]; simp
      rcases hrec k w.s hready with ⟨wm, hbad, hE⟩ | ⟨rest, hok⟩
      · rw [walkStep_func_recErr c rec herr k hfo (pair_of_fst _ _ hbad)]
        exact ⟨⟨fun e h => by cases h; exact hE, fun h => by cases h⟩, fun h => by cases h⟩
      · -- the argument map holds the converter's only argument
        have hS1 : SInv c N Sup { w.s with orc := rest } := hS.congr rfl rfl
        have hga : ∃ args, gatherArgs c.env f
            ((c.g.outs (.func k)).filterMap (fun v => if v == Vtx.root then none else (w.s.get v).map (fun x => (v, x))))
            = .ok args := by
          refine ⟨_, ExactWins.gatherArgs_ok _ _ _ ?_⟩
          intro v' hv'
          have hu' := hvals v' hv'
          have hne : u ≠ .root := by rw [hu']; exact vertex_ne_root _
          obtain ⟨a, ha⟩ := Option.isSome_iff_exists.1 (hu_some hne)
          refine ⟨a, ?_, ?_⟩
          · rw [ExactWins.mapGet_am0, ← hu', if_pos ⟨(ExactWins.mem_outs_iff_hasEdge _ _ _).2 he, hne⟩, ha]
          · have := hS.typed _ _ ha
            rw [hu', vertex_ty] at this
            exact this
        obtain ⟨r, unw, s2, hcd, hst2, hr2, hm2⟩ := callDirect_spec (Sup := Sup) gf.hN f _ _ hS1 hga
        have hin2 : s2.inputSet = w.s.inputSet := by
          have := RedefineInputs.callDirect_inputSet c f
            ((c.g.outs (.func k)).filterMap (fun v => if v == Vtx.root then none else (w.s.get v).map (fun x => (v, x))))
            { w.s with orc := rest }
          rw [hcd] at this
          exact this
        cases hre : r.err with
        | some ε =>
          rw [walkStep_func_funcErr c rec herr k hfo hok hcd hre]
          refine ⟨⟨fun e h => ?_, fun h => by cases h⟩, fun h => by cases h⟩
          cases h
          refine hEf _ (fun hne => ?_)
          rw [hr2 hne] at hre; cases hre
        | none =>
          have hS2 : SInv c N Sup s2 := ⟨fun x v hv => hS1.typed x v (by unfold CallSt.get at hv ⊢; rw [← hst2]; exact hv),
            fun x hx => by have := hS1.sup x hx; unfold CallSt.get at this ⊢; rw [hst2]; exact this, hm2⟩
          have hov := outputValues_spec gf.mc f r unw s2
          rw [walkStep_func_ok c rec herr k hfo hok hcd hre hov]
          have hkey := gf.funcKey k f hfo
          have := oFold_sinv (c := c) (N := N) (Sup := Sup) f r (c.g.ins (.func f.key)) (by rw [hkey]; exact gf.outTyped k f hfo) s2 hS2
          refine ⟨⟨fun e h => (no_err herr h).elim, fun _ => ⟨this.1, ?_⟩⟩, fun _ => ?_⟩
          · show ∀ v ∈ c.g.ins (.func k), _
            rw [← hkey]
            exact this.2
          · show ((c.g.ins (.func f.key)).foldl (oStep f r) s2).inputSet = w.s.inputSet
            rw [RedefineInputs.oFold_inputSet, hin2]

/-! ### walking one path -/

theorem walkFold_err_mono (rec : Vtx → CallSt → Except RErr ArgMap × CallSt) (p : List Vtx) (w : WalkSt)
    (h : (p.foldl (walkStep c rec) w).err = none) : w.err = none := by
  induction p generalizing w with
  | nil => exact h
  | cons v rest ih =>
    rw [List.foldl_cons] at h
    exact walkStep_err_mono c rec w v (ih _ h)

theorem walkFold_winv' (gf : FactsR c N tk Sup0) (hEf : ∀ ε, ¬ N → E (.funcErr ε))
    (rec : Vtx → CallSt → Except RErr ArgMap × CallSt)
    (hrec : RecSpecE c E rec) (p : List Vtx) (w : WalkSt) (hw : WInvE c N Sup E w)
    (hpath : w.err = none → ∃ u, w.prev = some u ∧ Chain c.g u p) (hnt : ∀ v ∈ p, v ≠ .func tk)
    (hnr : ∀ v ∈ p, v ≠ .root)
    (hfirst : w.err = none → w.prev = some .root → ∀ v, p.head? = some v → v.isFunc = true ∨ Sup v) :
    WInvE c N Sup E (p.foldl (walkStep c rec) w) ∧
    ((p.foldl (walkStep c rec) w).err = none → ∀ l, p.getLast? = some l →
      (p.foldl (walkStep c rec) w).prev = some l) ∧
    ((p.foldl (walkStep c rec) w).err = none → (p.foldl (walkStep c rec) w).s.inputSet = w.s.inputSet) := by
  induction p generalizing w with
  | nil => exact ⟨hw, fun _ l h => by simp at h, fun _ => rfl⟩
  | cons v rest ih =>
    rw [List.foldl_cons]
    obtain ⟨hw1, hin1⟩ := walkStep_winv' (Sup := Sup) gf hEf rec hrec w v hw
        (fun he => by
          obtain ⟨u, hu, hc⟩ := hpath he
          exact ⟨u, hu, hc.1⟩)
        (hnt v (by simp)) (fun he hp => hfirst he hp v rfl)
    have hpath1 : (walkStep c rec w v).err = none →
        ∃ u, (walkStep c rec w v).prev = some u ∧ Chain c.g u rest := by
      intro he
      obtain ⟨u, _, hc⟩ := hpath (walkStep_err_mono c rec w v he)
      exact ⟨v, walkStep_prev c rec w v he, hc.2⟩
    obtain ⟨i1, i2, i3⟩ := ih _ hw1 hpath1 (fun u hu => hnt u (List.mem_cons_of_mem _ hu))
      (fun u hu => hnr u (List.mem_cons_of_mem _ hu))
      (fun he hp => by
        rw [walkStep_prev c rec w v he] at hp
        simp only [Option.some.injEq] at hp
        exact absurd hp (hnr v (by simp)))
    refine ⟨i1, fun he l hl => ?_, fun he => ?_⟩
    · cases rest with
      | nil =>
        simp only [List.getLast?_singleton, Option.some.injEq] at hl
        subst hl
        exact walkStep_prev c rec w v he
      | cons b rest' =>
        rw [List.getLast?_cons_cons] at hl
        exact i2 he l hl
    · rw [i3 he]
      exact hin1 (walkFold_err_mono rec rest _ he)

/-! ### walking all paths -/

/-- a root-first real path that avoids the target vertex and the root, whose second vertex is a function
vertex or holds a value, and which ends in a value or argument vertex -/
def GoodPath' (c : Ctx) (tk : Nat) (Sup : Vtx → Prop) (p : List Vtx) : Prop :=
  ∃ rest, p = .root :: rest ∧ rest ≠ [] ∧ Chain c.g .root rest ∧ (∀ v ∈ rest, v ≠ .func tk) ∧
    (∀ v ∈ rest, v ≠ .root) ∧ (∀ v, rest.head? = some v → v.isFunc = true ∨ Sup v) ∧
    ∀ l, rest.getLast? = some l → (l.isValue = true ∨ l.isArg = true)

theorem walkPaths_spec' (gf : FactsR c N tk Sup0) (hEf : ∀ ε, ¬ N → E (.funcErr ε))
    (rec : Vtx → CallSt → Except RErr ArgMap × CallSt)
    (hrec : RecSpecE c E rec) (paths : List (List Vtx)) (hp : ∀ p ∈ paths, GoodPath' c tk Sup p) (am : ArgMap)
    (s : CallSt) (hs : SInv c N Sup s) :
    (∀ e, (walkPaths c rec paths am s).1 = .error e → E e) ∧
    (∀ am', (walkPaths c rec paths am s).1 = .ok am' →
      (walkPaths c rec paths am s).2.inputSet = s.inputSet) := by
  induction paths generalizing am s with
  | nil =>
    refine ⟨fun e h => (by cases h), fun am' h => rfl⟩
  | cons p rest ih =>
    obtain ⟨tl, hptl, htl, hchain, hnt, hnr, hfirst, hkind⟩ := hp p (by simp)
    unfold walkPaths
    have hw1 : WInvE c N Sup E { s := s, final := none, prev := some .root, err := none } :=
      ⟨fun e h => (by cases h), fun _ => ⟨hs, trivial⟩⟩
    have hfold := walkFold_winv' (Sup := Sup) gf hEf rec hrec tl _ hw1 (fun _ => ⟨.root, rfl, hchain⟩) hnt hnr
      (fun _ _ => hfirst)
    have hfeq : p.foldl (walkStep c rec) { s := s, final := none, prev := none, err := none } =
        tl.foldl (walkStep c rec) { s := s, final := none, prev := some .root, err := none } := by
      rw [hptl, List.foldl_cons, walkStep_root c rec rfl]
    have hlast : p.getLast? = tl.getLast? := by
      rw [hptl]
      cases tl with
      | nil => exact absurd rfl htl
      | cons a tl' => rw [List.getLast?_cons_cons]
    rw [hfeq]
    generalize tl.foldl (walkStep c rec) { s := s, final := none, prev := some .root, err := none } = w at hfold
    obtain ⟨⟨herrA, hok⟩, hprev, hinp⟩ := hfold
    dsimp only at hinp
    dsimp only
    split
    · rename_i e he
      exact ⟨fun e' h => by cases h; exact herrA e he, fun am' h => by cases h⟩
    · rename_i herr
      obtain ⟨hS, hP⟩ := hok herr
      obtain ⟨l, hl⟩ : ∃ l, tl.getLast? = some l := by
        cases h : tl.getLast? with
        | none => exact absurd (List.getLast?_eq_none_iff.1 h) htl
        | some l => exact ⟨l, rfl⟩
      rw [hprev herr l hl] at hP
      have hfin : ∃ x, w.final = some x ∧ w.s.get l = some x := by
        rcases hkind l hl with hv | hv
        · cases l <;> simp [Vtx.isValue] at hv
          obtain ⟨x, hx⟩ := Option.isSome_iff_exists.1 hP.1
          exact ⟨x, by rw [hP.2.2, hx], hx⟩
        · cases l <;> simp [Vtx.isArg] at hv
          obtain ⟨x, hx⟩ := Option.isSome_iff_exists.1 hP.1
          exact ⟨x, by rw [hP.2, hx], hx⟩
      obtain ⟨x, hfx, hgx⟩ := hfin
      rw [hlast, hl, hfx]
      dsimp only
      obtain ⟨j1, j2⟩ := ih (fun q hq => hp q (List.mem_cons_of_mem _ hq)) (mapSet am l x) w.s hS
      refine ⟨j1, fun am' h => ?_⟩
      rw [j2 am' h]
      exact hinp herr

/-! ### planning in redefine mode -/

theorem planOne_sinv' (target : Vtx) (reaching : List Vtx) (trk : Bool) (ps : PlanSt) (cp : Vtx × List Vtx)
    (h : SInv c N Sup ps.s) : SInv c N Sup (planOne target reaching trk true ps cp).s := by
  unfold planOne
  dsimp only
  split
  · exact h
  · rename_i input _
    simp only [if_true]
    have h1 : SInv c N Sup (ps.s.addInput input) := h.congr (addInput_store _ _) (addInput_memo _ _)
    split
    · split
      · exact h1.set _ _ (assignable_refl _ _)
      · exact h1
    · exact h1.set _ _ (assignable_refl _ _)
    · exact h1

theorem planOne_mono (target : Vtx) (reaching : List Vtx) (trk : Bool) (ps : PlanSt) (cp : Vtx × List Vtx)
    (x : Vtx) (h : (ps.s.get x).isSome = true) :
    ((planOne target reaching trk true ps cp).s.get x).isSome = true := by
  unfold planOne
  dsimp only
  split
  · exact h
  · rename_i input _
    simp only [if_true]
    have h1 : ((ps.s.addInput input).get x).isSome = true := by
      unfold CallSt.get at h ⊢
      rw [addInput_store]
      exact h
    split
    · split
      · rw [get_set]; split
        · rfl
        · exact h1
      · exact h1
    · rw [get_set]; split
      · rfl
      · exact h1
    · exact h1

theorem planOne_sets (target : Vtx) (reaching : List Vtx) (trk : Bool) (ps : PlanSt) (cp : Vtx × List Vtx)
    (y : Vtx) (hy : pathInput cp.2 = some y) (hk : y.isValue = true ∨ y.isArg = true) :
    ((planOne target reaching trk true ps cp).s.get y).isSome = true := by
  unfold planOne
  dsimp only
  rw [hy]
  simp only [if_true]
  cases y with
  | value n t u =>
    dsimp only
    split
    · rw [get_set]; simp
    · rename_i hn
      cases hg : (ps.s.addInput (Vtx.value n t u)).get (Vtx.value n t u) with
      | none => rw [hg] at hn; simp at hn
      | some a => rfl
  | arg t u =>
    dsimp only
    rw [get_set]; simp
  | root => rcases hk with h | h <;> cases h
  | out t u => rcases hk with h | h <;> cases h
  | func k => rcases hk with h | h <;> cases h

theorem plan_sets (target : Vtx) (reaching : List Vtx) (trk : Bool) (l : List (Vtx × List Vtx)) (ps : PlanSt) :
    ∀ cp ∈ l, ∀ y, pathInput cp.2 = some y → (y.isValue = true ∨ y.isArg = true) →
      ((l.foldl (planOne target reaching trk true) ps).s.get y).isSome = true := by
  induction l generalizing ps with
  | nil => intro cp hcp; cases hcp
  | cons a l ih =>
    intro cp hcp y hy hk
    rw [List.foldl_cons]
    rcases List.mem_cons.1 hcp with rfl | hcp
    · exact foldl_inv (fun (ps : PlanSt) => (ps.s.get y).isSome = true) _
        (fun ps cp' h => planOne_mono target reaching trk ps cp' y h) _ _
        (planOne_sets target reaching trk ps cp y hy hk)
    · exact ih _ cp hcp y hy hk

theorem addInput_nodup (s : CallSt) (v : Vtx) (h : s.inputSet.Nodup) : (s.addInput v).inputSet.Nodup := by
  unfold CallSt.addInput
  split
  · exact h
  · rename_i hv
    show (s.inputSet ++ [v]).Nodup
    rw [List.nodup_append]
    refine ⟨h, by simp, ?_⟩
    intro a ha b hb
    simp only [List.mem_singleton] at hb
    subst hb
    intro hab
    subst hab
    exact hv ha

theorem planOne_nodup (target : Vtx) (reaching : List Vtx) (trk rd : Bool) (ps : PlanSt) (cp : Vtx × List Vtx)
    (h : ps.s.inputSet.Nodup) : (planOne target reaching trk rd ps cp).s.inputSet.Nodup := by
  unfold planOne
  dsimp only
  split
  · exact h
  · rename_i input _
    have h1 := addInput_nodup ps.s input h
    split
    · split
      · split
        · rw [RedefineInputs.set_inputSet]; exact h1
        · exact h1
      · rw [RedefineInputs.set_inputSet]; exact h1
      · exact h1
    · exact h1

/-- a valid path to a value / argument requirement is a good path, up to what its second vertex holds -/
theorem goodPath_of_valid' (gf : FactsR c N tk Sup0) (cur : Vtx) (p : List Vtx)
    (hcur : cur.isValue = true ∨ cur.isArg = true) (h : validPath c.g cur p = true) :
    (∃ rest, p = .root :: rest ∧ rest ≠ [] ∧ Chain c.g .root rest ∧ (∀ v ∈ rest, v ≠ .func tk) ∧
      (∀ v ∈ rest, v ≠ .root) ∧ ∀ l, rest.getLast? = some l → (l.isValue = true ∨ l.isArg = true)) ∧
    p.getLast? = some cur := by
  simp only [validPath, Bool.and_eq_true, beq_iff_eq] at h
  obtain ⟨⟨⟨_, hhead⟩, hlast⟩, hpath⟩ := h
  refine ⟨?_, hlast⟩
  cases p with
  | nil => simp at hhead
  | cons a rest =>
    simp only [List.head?_cons, Option.some.injEq] at hhead
    subst hhead
    have hne : rest ≠ [] := by
      intro h
      subst h
      simp only [List.getLast?_singleton, Option.some.injEq] at hlast
      subst hlast
      rcases hcur with h | h <;> cases h
    have hl : rest.getLast? = some cur := by
      cases rest with
      | nil => exact absurd rfl hne
      | cons b r => rw [List.getLast?_cons_cons] at hlast; exact hlast
    have hch := chain_of_isPathB c.g rest .root hpath
    have hnoroot : ∀ (rest : List Vtx) (u : Vtx), Chain c.g u rest → ∀ v ∈ rest, v ≠ .root := by
      intro rest
      induction rest with
      | nil => intro u _ v hv; cases hv
      | cons b r ih =>
        intro u hc v hv
        rcases List.mem_cons.1 hv with rfl | hv
        · intro hr
          subst hr
          have := kindOK_of_rule (gf.edgeOK _ _ hc.1)
          simp [kindOK] at this
        · exact ih b hc.2 v hv
    refine ⟨rest, rfl, hne, hch, ?_, hnoroot rest .root hch, ?_⟩
    · apply chain_avoids c.g _ gf.noTarget rest .root hch
      intro l h
      rw [hl] at h
      cases h
      intro h
      subst h
      rcases hcur with h | h <;> cases h
    · intro l h
      rw [hl] at h
      cases h
      exact hcur

/-- the nested search of a converter whose requirements are all filled returns at once (any mode) -/
theorem reach_all_present' (c : Ctx) (hsr : c.skipRecordsInput = false) (hauto : c.auto = false) (rd : Bool)
    (n : Nat) (reaching : List Vtx) (t : Vtx) (s : CallSt)
    (hall : ∀ v ∈ c.g.outs t, (v == Vtx.root || takenAsIs c s v) = true) :
    (∃ w, (reach c rd (n + 1) reaching t s).1 = .error (.badOracle w)) ∨
    ∃ rest,
      reach c rd (n + 1) reaching t s =
        (.ok ((c.g.outs t).filterMap (fun v => if v == Vtx.root then none else (s.get v).map (fun x => (v, x)))),
         { s with orc := rest }) := by
  unfold reach
  dsimp only
  have hskip : (c.g.outs t).filter (fun v => v == Vtx.root || takenAsIs c s v) = c.g.outs t :=
    List.filter_eq_self.2 hall
  have hmiss : (c.g.outs t).filter (fun v => !(v == Vtx.root || takenAsIs c s v)) = [] := by
    rw [List.filter_eq_nil_iff]
    intro v hv
    simp [hall v hv]
  rw [hskip, hmiss, hsr, hauto]
  simp only [Bool.false_eq_true, if_false]
  cases horc : s.orc with
  | nil => exact Or.inl ⟨_, rfl⟩
  | cons item rest =>
    dsimp only
    split
    · exact Or.inl ⟨_, rfl⟩
    · split
      · exact Or.inl ⟨_, rfl⟩
      · exact Or.inr ⟨rest, rfl⟩

/-! ### the top-level `reach` in redefine mode -/

theorem mem_addInput_self (s : CallSt) (v : Vtx) : v ∈ (s.addInput v).inputSet := by
  unfold CallSt.addInput
  split
  · assumption
  · show v ∈ s.inputSet ++ [v]
    simp

theorem mem_addInput_mono (s : CallSt) (v x : Vtx) (h : x ∈ s.inputSet) : x ∈ (s.addInput v).inputSet := by
  unfold CallSt.addInput
  split
  · exact h
  · show x ∈ s.inputSet ++ [v]
    exact List.mem_append_left _ h

theorem planOne_inputSet (target : Vtx) (reaching : List Vtx) (trk rd : Bool) (ps : PlanSt) (cp : Vtx × List Vtx) :
    (planOne target reaching trk rd ps cp).s.inputSet =
      match pathInput cp.2 with
      | none => ps.s.inputSet
      | some input => (ps.s.addInput input).inputSet := by
  unfold planOne
  dsimp only
  cases hpi : pathInput cp.2 with
  | none => rfl
  | some input =>
    dsimp only
    split
    · split
      · split
        · rw [RedefineInputs.set_inputSet]
        · rfl
      · rw [RedefineInputs.set_inputSet]
      · rfl
    · rfl

/-- the input of every planned path is recorded -/
theorem plan_inputs (target : Vtx) (reaching : List Vtx) (trk rd : Bool) (l : List (Vtx × List Vtx)) (ps : PlanSt) :
    (∀ x ∈ ps.s.inputSet, x ∈ (l.foldl (planOne target reaching trk rd) ps).s.inputSet) ∧
    ∀ cp ∈ l, ∀ x, pathInput cp.2 = some x → x ∈ (l.foldl (planOne target reaching trk rd) ps).s.inputSet := by
  induction l generalizing ps with
  | nil => exact ⟨fun x h => h, fun cp hcp => by cases hcp⟩
  | cons a l ih =>
    rw [List.foldl_cons]
    obtain ⟨i1, i2⟩ := ih (planOne target reaching trk rd ps a)
    have hmono : ∀ x ∈ ps.s.inputSet, x ∈ (planOne target reaching trk rd ps a).s.inputSet := by
      intro x hx
      rw [planOne_inputSet]
      split
      · exact hx
      · exact mem_addInput_mono _ _ _ hx
    refine ⟨fun x hx => i1 x (hmono x hx), ?_⟩
    intro cp hcp x hx
    rcases List.mem_cons.1 hcp with rfl | hcp
    · apply i1
      rw [planOne_inputSet, hx]
      exact mem_addInput_self _ _
    · exact i2 cp hcp x hx

/-- what a successful planning run tells about a requirement `r` of the target: it was taken as it is, or
resolved along a real root-first path whose input was recorded -/
def Resolved (c : Ctx) (s : CallSt) (I : List Vtx) (r : Vtx) : Prop :=
  r = .root ∨ takenAsIs c s r = true ∨
    ∃ p x, validPath c.g r p = true ∧ pathInput p = some x ∧ x ∈ I

theorem reach_top' (gf : FactsR c N tk Sup0) (hEf : ∀ ε, ¬ N → E (.funcErr ε)) (hEb : ∀ w, E (.badOracle w))
    (m : Nat)
    (hrec : RecSpecE c E (fun v st => reach c true m [.func tk] v st)) (s : CallSt) (hs : SInv c N Sup0 s)
    (hin : s.inputSet.Nodup) :
    (∀ e, (reach c true (m + 1) [] (.func tk) s).1 = .error e → E e) ∧
    (∀ am, (reach c true (m + 1) [] (.func tk) s).1 = .ok am →
      (reach c true (m + 1) [] (.func tk) s).2.inputSet.Nodup ∧
      ∀ r ∈ c.g.outs (.func tk), Resolved c s (reach c true (m + 1) [] (.func tk) s).2.inputSet r) := by
  unfold reach
  dsimp only
  generalize ((c.g.outs (.func tk)).filter (fun v => v == Vtx.root || takenAsIs c s v)).filterMap
    (fun v => if v == Vtx.root then none else (s.get v).map (fun x => (v, x))) = am0
  have hmiss : ∀ cur ∈ (c.g.outs (.func tk)).filter (fun v => !(v == Vtx.root || takenAsIs c s v)),
      cur.isValue = true ∨ cur.isArg = true := by
    intro cur hcur
    simp only [List.mem_filter] at hcur
    obtain ⟨f, _, hreq⟩ := gf.funcReq tk cur (hasEdge_of_mem_outs _ _ _ hcur.1)
    rcases hreq with rfl | ⟨v, _, rfl⟩
    · simp at hcur
    · exact vertex_kind _
  have hcover : ∀ y ∈ c.g.outs (.func tk), (y = .root ∨ takenAsIs c s y = true) ∨
      y ∈ (c.g.outs (.func tk)).filter (fun v => !(v == Vtx.root || takenAsIs c s v)) := by
    intro y hy
    cases h : (y == Vtx.root || takenAsIs c s y) with
    | true =>
      simp only [Bool.or_eq_true, beq_iff_eq] at h
      exact Or.inl h
    | false => exact Or.inr (List.mem_filter.2 ⟨hy, by simp [h]⟩)
  generalize (c.g.outs (.func tk)).filter (fun v => !(v == Vtx.root || takenAsIs c s v)) = missingM
    at hmiss hcover
  have hs1 : SInv c N Sup0 (if c.skipRecordsInput then
      ((c.g.outs (.func tk)).filter (fun v => v == Vtx.root || takenAsIs c s v)).foldl CallSt.addInput s else s) ∧
      (if c.skipRecordsInput then
      ((c.g.outs (.func tk)).filter (fun v => v == Vtx.root || takenAsIs c s v)).foldl CallSt.addInput s else s).inputSet.Nodup := by
    rw [gf.sri]
    exact ⟨hs, hin⟩
  generalize (if c.skipRecordsInput then
      ((c.g.outs (.func tk)).filter (fun v => v == Vtx.root || takenAsIs c s v)).foldl CallSt.addInput s else s) = s1
    at hs1
  obtain ⟨hs1, hin1⟩ := hs1
  split
  · exact ⟨fun e h => by cases h; exact hEb _, fun am h => by cases h⟩
  · rename_i item orcRest _
    have hs2 : SInv c N Sup0 { s1 with orc := orcRest } := hs1.congr rfl rfl
    split
    · exact ⟨fun e h => by cases h; exact hEb _, fun am h => by cases h⟩
    · split
      · exact ⟨fun e h => by cases h; exact hEb _, fun am h => by cases h⟩
      · rename_i hsame
        have hsame' : sameMembers item.missing missingM = true := by simpa using hsame
        simp only [sameMembers, Bool.and_eq_true, List.all_eq_true, decide_eq_true_eq] at hsame'
        split
        · rename_i hempty
          refine ⟨fun e h => (by cases h), fun am h => ⟨hin1, fun r hr => ?_⟩⟩
          rcases hcover r hr with (h | h) | h
          · exact Or.inl h
          · exact Or.inr (Or.inl h)
          · rw [List.isEmpty_iff.1 hempty] at h; cases h
        · split
          · exact ⟨fun e h => by cases h; exact hEb _, fun am h => by cases h⟩
          · rename_i hlen
            simp only [ne_eq, Decidable.not_not] at hlen
            split
            · exact ⟨fun e h => by cases h; exact hEb _, fun am h => by cases h⟩
            · rename_i hvalid
              have hvalid' : ((item.missing.zip item.paths).all fun cp => validPath c.g cp.1 cp.2) = true := by
                simpa using hvalid
              have hgood := fun cp (hcp : cp ∈ item.missing.zip item.paths) =>
                goodPath_of_valid' gf cp.1 cp.2 (hmiss _ (hsame'.1.1 _ (List.of_mem_zip hcp).1))
                  (List.all_eq_true.1 hvalid' _ hcp)
              have hs3 : SInv c N Sup0 ((item.missing.zip item.paths).foldl
                  (planOne (.func tk) [.func tk] c.trackReaching true)
                  { s := { s1 with orc := orcRest }, unsat := [] }).s :=
                foldl_inv (fun (ps : PlanSt) => SInv c N Sup0 ps.s) _
                  (fun ps cp h => planOne_sinv' _ _ _ ps cp h) _ _ hs2
              have hin3 : ((item.missing.zip item.paths).foldl
                  (planOne (.func tk) [.func tk] c.trackReaching true)
                  { s := { s1 with orc := orcRest }, unsat := [] }).s.inputSet.Nodup :=
                foldl_inv (fun (ps : PlanSt) => ps.s.inputSet.Nodup) _
                  (fun ps cp h => planOne_nodup _ _ _ _ ps cp h) _ _ hin1
              have hset := plan_sets (.func tk) [.func tk] c.trackReaching (item.missing.zip item.paths)
                  { s := { s1 with orc := orcRest }, unsat := [] }
              have hrecd := (plan_inputs (.func tk) [.func tk] c.trackReaching true (item.missing.zip item.paths)
                  { s := { s1 with orc := orcRest }, unsat := [] }).2
              have hun : ((item.missing.zip item.paths).foldl
                  (planOne (.func tk) [.func tk] c.trackReaching true)
                  { s := { s1 with orc := orcRest }, unsat := [] }).unsat = [] := by
                rw [gf.tr]
                apply plan_unsat_nil _ _ _ _ _ _ rfl
                intro cp hcp v hv hmem
                simp only [List.mem_singleton] at hmem
                obtain ⟨⟨rest, hp, _, _, hnt, _⟩, _⟩ := hgood cp hcp
                rw [hp] at hv
                rcases List.mem_cons.1 hv with h | h
                · rw [h] at hmem; cases hmem
                · exact hnt v h hmem
              generalize (item.missing.zip item.paths).foldl
                  (planOne (.func tk) [.func tk] c.trackReaching true)
                  { s := { s1 with orc := orcRest }, unsat := [] } = ps3 at hs3 hin3 hset hrecd hun
              split
              · rename_i hne
                rw [hun] at hne
                simp at hne
              · -- the supplied-or-planned predicate
                let Sup1 : Vtx → Prop := fun x => Sup0 x ∨
                  ((x.isValue = true ∨ x.isArg = true) ∧ ∃ cp ∈ item.missing.zip item.paths, pathInput cp.2 = some x)
                have hs4 : SInv c N Sup1 ps3.s := by
                  refine ⟨hs3.typed, ?_, hs3.memo⟩
                  rintro x (hx | ⟨hk, cp, hcp, hpi⟩)
                  · exact hs3.sup x hx
                  · exact hset cp hcp x hpi hk
                have hwp := walkPaths_spec' (Sup := Sup1) gf hEf _ hrec item.paths
                  (by
                    intro p hp
                    obtain ⟨cur, _, hz⟩ := zip_snd_mem item.missing item.paths hlen p hp
                    obtain ⟨⟨rest, hpe, hne, hch, hnt, hnr, hkind⟩, _⟩ := hgood _ hz
                    refine ⟨rest, hpe, hne, hch, hnt, hnr, ?_, hkind⟩
                    intro y hy
                    cases rest with
                    | nil => cases hy
                    | cons y' rest' =>
                      simp only [List.head?_cons, Option.some.injEq] at hy
                      subst hy
                      have hpi : pathInput p = some y' := by
                        have : p = Vtx.root :: y' :: rest' := hpe
                        rw [this]
                        rfl
                      rcases gf.toRoot y' hch.1 with h | h | h | h
                      · exact Or.inl h
                      · exact Or.inr (Or.inl h)
                      · exact Or.inr (Or.inr ⟨Or.inl h, _, hz, hpi⟩)
                      · exact Or.inr (Or.inr ⟨Or.inr h, _, hz, hpi⟩))
                  am0 _ hs4
                refine ⟨hwp.1, fun am h => ?_⟩
                rw [hwp.2 am h]
                refine ⟨hin3, fun r hr => ?_⟩
                rcases hcover r hr with (h | h) | h
                · exact Or.inl h
                · exact Or.inr (Or.inl h)
                · obtain ⟨p, hp, hz⟩ := zip_fst_mem item.missing item.paths hlen r (hsame'.1.2 _ h)
                  obtain ⟨⟨rest, hpe, hne, _⟩, _⟩ := hgood _ hz
                  have hpe' : p = Vtx.root :: rest := hpe
                  cases rest with
                  | nil => exact absurd rfl hne
                  | cons y' rest' =>
                    refine Or.inr (Or.inr ⟨p, y', List.all_eq_true.1 hvalid' _ hz, by rw [hpe']; rfl, ?_⟩)
                    exact hrecd _ hz y' (by show pathInput p = some y'; rw [hpe']; rfl)

end ArgMapper.RedefC
