import ArgMapper.Model.Hist
import ArgMapper.Proofs.ReachSound
import ArgMapper.Proofs.NoFabMemo
/-!
# Nothing is fabricated: provenance ids through `reach` (helper lemmas for C01c)

`Av A log i`: the id `i` is *available* — it is one of the ids `A` the operation started with (supplied
values, outputs held in run-once cells), or an output of an execution of the log.  `Inv c A s`: every id in
the store, in `last`, in the run-once cells and in the arguments of the logged executions is available, and
every run-once cell a function of the context would read holds one id per output value of that function
(so `resultField` never falls back to the zero value).  The walk preserves `Inv` and only ever extends the
log.
-/
namespace ArgMapper.NoFab
open ArgMapper ArgMapper.WalkEqs
open ArgMapper.ReachSound (mem_of_mapGet get_set gatherArgs_eq gStep_fold argOf oStep outputValues_eq)

/-! ### hypotheses on the context -/

/-- the lookup maps of every converter's output set hold members of its value list (part of
`ValueSet.KeysOK`) -/
def OutsListed (c : Ctx) : Prop :=
  ∀ k f, c.funcOf k = some f →
    (∀ p ∈ f.output.named, p.2 ∈ f.output.values) ∧ (∀ p ∈ f.output.typed, p.2 ∈ f.output.values)

/-- the bodies of the converters return (at least) one id per output value (part of `C01.BehFull`) -/
def BehLen (c : Ctx) : Prop :=
  ∀ k f, c.funcOf k = some f → ∀ n args, f.output.values.length ≤ (c.beh f.id n args).outs.length

/-- the run-once cells the converters of the context would read hold one id per output value -/
def MemoFull (c : Ctx) (memo : List (Nat × Memo)) : Prop :=
  ∀ k f, c.funcOf k = some f → f.once = true → ∀ m, mapGet memo f.id = some m →
    f.output.values.length ≤ m.res.outs.length

/-! ### available ids -/

def Av (A : Nat → Prop) (log : List ExecEv) (i : Nat) : Prop := A i ∨ ∃ ev ∈ log, i ∈ ev.res.outs

theorem Av.mono {A : Nat → Prop} {log log' : List ExecEv} (h : ∀ ev ∈ log, ev ∈ log') {i : Nat}
    (hi : Av A log i) : Av A log' i := by
  rcases hi with hi | ⟨ev, hev, hi⟩
  · exact .inl hi
  · exact .inr ⟨ev, h ev hev, hi⟩

def AmOK (A : Nat → Prop) (log : List ExecEv) (am : ArgMap) : Prop := ∀ p ∈ am, Av A log p.2.id

theorem AmOK.mono {A : Nat → Prop} {log log' : List ExecEv} (h : ∀ ev ∈ log, ev ∈ log') {am : ArgMap}
    (ham : AmOK A log am) : AmOK A log' am := fun p hp => (ham p hp).mono h

structure Inv (c : Ctx) (A : Nat → Prop) (s : CallSt) : Prop where
  store : ∀ p ∈ s.store, Av A s.log p.2.id
  last : ∀ x, s.last = some x → Av A s.log x.id
  memo : ∀ p ∈ s.memo, ∀ i ∈ p.2.res.outs, Av A s.log i
  log : ∀ ev ∈ s.log, ∀ a ∈ ev.args, Av A s.log a.id
  full : MemoFull c s.memo

variable {c : Ctx} {A : Nat → Prop}

theorem Inv.get {s : CallSt} (h : Inv c A s) {v : Vtx} {x : PVal} (hg : s.get v = some x) :
    Av A s.log x.id := h.store _ (mem_of_mapGet hg)

theorem Inv.congr {s s' : CallSt} (h : Inv c A s) (hs : s'.store = s.store) (hla : s'.last = s.last)
    (hm : s'.memo = s.memo) (hl : s'.log = s.log) : Inv c A s' := by
  constructor
  · rw [hs, hl]; exact h.store
  · rw [hla, hl]; exact h.last
  · rw [hm, hl]; exact h.memo
  · rw [hl]; exact h.log
  · rw [hm]; exact h.full

@[simp] theorem set_log (s : CallSt) (v : Vtx) (x : Option PVal) : (s.set v x).log = s.log := by
  unfold CallSt.set; split <;> rfl
@[simp] theorem set_last (s : CallSt) (v : Vtx) (x : Option PVal) : (s.set v x).last = s.last := by
  unfold CallSt.set; split <;> rfl
@[simp] theorem set_memo (s : CallSt) (v : Vtx) (x : Option PVal) : (s.set v x).memo = s.memo := by
  unfold CallSt.set; split <;> rfl
@[simp] theorem addInput_log (s : CallSt) (v : Vtx) : (s.addInput v).log = s.log := by
  unfold CallSt.addInput; split <;> rfl
@[simp] theorem addInput_last (s : CallSt) (v : Vtx) : (s.addInput v).last = s.last := by
  unfold CallSt.addInput; split <;> rfl
@[simp] theorem addInput_memo (s : CallSt) (v : Vtx) : (s.addInput v).memo = s.memo := by
  unfold CallSt.addInput; split <;> rfl
@[simp] theorem addInput_store (s : CallSt) (v : Vtx) : (s.addInput v).store = s.store := by
  unfold CallSt.addInput; split <;> rfl

theorem mem_set_store {s : CallSt} {v : Vtx} {x : Option PVal} {p : Vtx × PVal} (hp : p ∈ (s.set v x).store) :
    p ∈ s.store ∨ x = some p.2 := by
  unfold CallSt.set at hp
  cases x with
  | some y =>
    rcases NoFabMemo.mem_mapSet hp with hp | rfl
    · exact .inl hp
    · exact .inr rfl
  | none => exact .inl (List.mem_filter.1 hp).1

theorem Inv.set {s : CallSt} (h : Inv c A s) (v : Vtx) (x : Option PVal)
    (hx : ∀ y, x = some y → Av A s.log y.id) : Inv c A (s.set v x) := by
  constructor
  · intro p hp
    rw [set_log]
    rcases mem_set_store hp with hp | hp
    · exact h.store p hp
    · exact hx _ hp
  · rw [set_last, set_log]; exact h.last
  · rw [set_memo, set_log]; exact h.memo
  · rw [set_log]; exact h.log
  · rw [set_memo]; exact h.full

theorem Inv.setLast {s : CallSt} (h : Inv c A s) (x : Option PVal)
    (hx : ∀ y, x = some y → Av A s.log y.id) : Inv c A { s with last := x } :=
  ⟨h.store, hx, h.memo, h.log, h.full⟩

theorem Inv.addInput {s : CallSt} (h : Inv c A s) (v : Vtx) : Inv c A (s.addInput v) :=
  h.congr (by simp) (by simp) (by simp) (by simp)

theorem foldl_inv {σ β : Type} (P : σ → Prop) (g : σ → β → σ) (hg : ∀ s v, P s → P (g s v))
    (l : List β) (s : σ) (h : P s) : P (l.foldl g s) := by
  induction l generalizing s with
  | nil => exact h
  | cons a l ih => exact ih _ (hg _ _ h)

theorem mem_of_mapGet' {κ β : Type} [DecidableEq κ] {m : List (κ × β)} {k : κ} {v : β}
    (h : mapGet m k = some v) : (k, v) ∈ m := by
  unfold mapGet at h
  cases hf : m.find? (fun p => decide (p.1 = k)) with
  | none => simp [hf] at h
  | some p =>
    simp only [hf, Option.map_some, Option.some.injEq] at h
    have h1 := List.find?_some hf
    have h2 := List.mem_of_find?_eq_some hf
    simp only [decide_eq_true_eq] at h1
    obtain ⟨a, b⟩ := p
    simp only at h1 h
    subst h1; subst h
    exact h2

/-! ### callDirect -/

theorem gatherArgs_ids (e : TypeEnv) (f : FuncDesc) (am : ArgMap) (args : List PVal)
    (h : gatherArgs e f am = .ok args) : ∀ a ∈ args, ∃ p ∈ am, a.id = p.2.id := by
  rw [gatherArgs_eq] at h
  obtain ⟨h1, h2⟩ := gStep_fold e am _ _ _ h
  simp only [List.nil_append] at h1
  subst h1
  intro a ha
  obtain ⟨v, hv, rfl⟩ := List.mem_map.1 ha
  have hs := h2 v hv
  cases hm : mapGet am v.lab.vertex with
  | none => simp [hm] at hs
  | some a0 =>
    refine ⟨_, mem_of_mapGet hm, ?_⟩
    simp only [argOf, hm]

/-- the three ways `callDirect` ends -/
theorem callDirect_cases (c : Ctx) (f : FuncDesc) (am : ArgMap) (s : CallSt) :
    (∃ m, (if f.once then mapGet s.memo f.id else none) = some m ∧
      callDirect c f am s = (.ok (m.res, m.unwrapped), s)) ∨
    (∃ e, callDirect c f am s = (.error e, s)) ∨
    (∃ args, gatherArgs c.env f am = .ok args ∧
      callDirect c f am s = (.ok (c.beh f.id (countOf s f.id) args, false),
        { s with
          log := s.log ++ [{ fid := f.id, nth := countOf s f.id, args := args, params := f.input.labels,
                             res := c.beh f.id (countOf s f.id) args }],
          count := mapSet s.count f.id (countOf s f.id + 1),
          memo := if f.once then mapSet s.memo f.id { res := c.beh f.id (countOf s f.id) args, unwrapped := false }
                  else s.memo })) := by
  unfold callDirect
  cases (if f.once then mapGet s.memo f.id else none) with
  | some m => exact .inl ⟨m, rfl, rfl⟩
  | none =>
    dsimp only
    cases hargs : gatherArgs c.env f am with
    | error x => exact .inr (.inl ⟨x, rfl⟩)
    | ok args =>
      refine .inr (.inr ⟨args, rfl, ?_⟩)
      dsimp only
      cases f.once <;> rfl

/-- what `callDirect` returns and leaves behind -/
def CdGood (c : Ctx) (A : Nat → Prop) (f : FuncDesc) (s : CallSt) (r : Except RErr (BehOut × Bool) × CallSt) : Prop :=
  (∀ ev ∈ s.log, ev ∈ r.2.log) ∧ Inv c A r.2 ∧
  ∀ res u, r.1 = .ok (res, u) → (∀ i ∈ res.outs, Av A r.2.log i) ∧
    ((∃ k, c.funcOf k = some f) → f.output.values.length ≤ res.outs.length)

theorem callDirect_inv (hb : BehLen c) (f : FuncDesc) (am : ArgMap) (s : CallSt) (h : Inv c A s)
    (ham : AmOK A s.log am) : CdGood c A f s (callDirect c f am s) := by
  rcases callDirect_cases c f am s with ⟨m, hm, heq⟩ | ⟨e, heq⟩ | ⟨args, hargs, heq⟩
  · rw [heq]
    refine ⟨fun _ h => h, h, ?_⟩
    intro res u hr
    simp only [Except.ok.injEq, Prod.mk.injEq] at hr
    obtain ⟨rfl, _⟩ := hr
    have honce : f.once = true ∧ mapGet s.memo f.id = some m := by
      cases ho : f.once with
      | false => simp [ho] at hm
      | true => simp only [ho, if_true] at hm; exact ⟨rfl, hm⟩
    refine ⟨fun i hi => h.memo _ (mem_of_mapGet' honce.2) i hi, ?_⟩
    rintro ⟨k, hk⟩
    exact h.full k f hk honce.1 m honce.2
  · rw [heq]
    exact ⟨fun _ h => h, h, fun res u hr => by cases hr⟩
  · rw [heq]
    have hsub : ∀ ev ∈ s.log, ev ∈ s.log ++ [({ fid := f.id, nth := countOf s f.id, args := args, params := f.input.labels, res := c.beh f.id (countOf s f.id) args } : ExecEv)] :=
      fun ev hev => List.mem_append_left _ hev
    have hnew : ∀ i ∈ (c.beh f.id (countOf s f.id) args).outs,
        Av A (s.log ++ [({ fid := f.id, nth := countOf s f.id, args := args, params := f.input.labels, res := c.beh f.id (countOf s f.id) args } : ExecEv)]) i :=
      fun i hi => .inr ⟨_, List.mem_append_right _ (List.mem_singleton.2 rfl), hi⟩
    refine ⟨hsub, ?_, ?_⟩
    · constructor
      · exact fun p hp => (h.store p hp).mono hsub
      · exact fun x hx => (h.last x hx).mono hsub
      · intro p hp
        dsimp only at hp ⊢
        split at hp
        · rcases NoFabMemo.mem_mapSet hp with hp | rfl
          · exact fun i hi => (h.memo p hp i hi).mono hsub
          · exact hnew
        · exact fun i hi => (h.memo p hp i hi).mono hsub
      · intro ev hev a ha
        dsimp only at hev ⊢
        rcases List.mem_append.1 hev with hev | hev
        · exact (h.log ev hev a ha).mono hsub
        · rw [List.mem_singleton] at hev
          subst hev
          obtain ⟨p, hp, hid⟩ := gatherArgs_ids c.env f am args hargs a ha
          rw [hid]
          exact (ham p hp).mono hsub
      · intro k g hg honce m hm
        dsimp only at hm
        split at hm
        · rw [mapGet_mapSet] at hm
          split at hm
          · rename_i hid
            simp only [Option.some.injEq] at hm
            subst hm
            dsimp only
            rw [← hid]
            exact hb k g hg _ _
          · exact h.full k g hg honce m hm
        · exact h.full k g hg honce m hm
    · intro res u hr
      simp only [Except.ok.injEq, Prod.mk.injEq] at hr
      obtain ⟨rfl, _⟩ := hr
      refine ⟨hnew, ?_⟩
      rintro ⟨k, hk⟩
      exact hb k f hk _ _

/-! ### outputValues -/

theorem exists_zip_of_mem {α β : Type} (l1 : List α) (l2 : List β) (hlen : l1.length ≤ l2.length) (a : α)
    (ha : a ∈ l1) : ∃ b, (a, b) ∈ l1.zip l2 := by
  induction l1 generalizing l2 with
  | nil => cases ha
  | cons a' l1 ih =>
    cases l2 with
    | nil => simp at hlen
    | cons b' l2 =>
      rcases List.mem_cons.1 ha with rfl | ha
      · exact ⟨b', by simp⟩
      · obtain ⟨b, hb⟩ := ih l2 (by simpa using hlen) ha
        exact ⟨b, by simp [hb]⟩

/-- with one id per output value, the field of a listed output value is one of the returned ids -/
theorem resultField_id (f : FuncDesc) (r : BehOut) (sv : SVal) (ty : Nat) (v : Vtx)
    (hsv : sv ∈ f.output.values) (hlen : f.output.values.length ≤ r.outs.length) :
    (resultField f r sv.index ty v).id ∈ r.outs := by
  unfold resultField
  split
  · rename_i p hp
    have := List.mem_of_find?_eq_some hp
    exact (List.of_mem_zip (a := p.1) (b := p.2) this).2
  · rename_i hnone
    exfalso
    obtain ⟨b, hb⟩ := exists_zip_of_mem _ _ hlen sv hsv
    have := List.find?_eq_none.1 hnone _ hb
    simp at this

theorem oStep_inv (f : FuncDesc) (r : BehOut) (s : CallSt) (v : Vtx) (h : Inv c A s)
    (hl : (∀ p ∈ f.output.named, p.2 ∈ f.output.values) ∧ (∀ p ∈ f.output.typed, p.2 ∈ f.output.values))
    (hlen : f.output.values.length ≤ r.outs.length) (hr : ∀ i ∈ r.outs, Av A s.log i) :
    Inv c A (oStep f r s v) := by
  unfold oStep
  split
  · split
    · rename_i sv hsv
      apply h.set
      intro y hy
      cases hy
      exact hr _ (resultField_id f r sv _ _ (hl.1 _ (mem_of_mapGet' hsv)) hlen)
    · exact h
  · split
    · rename_i sv hsv
      apply h.set
      intro y hy
      cases hy
      exact hr _ (resultField_id f r sv _ _ (hl.2 _ (mem_of_mapGet' hsv)) hlen)
    · exact h
  · exact h

theorem oStep_log (f : FuncDesc) (r : BehOut) (s : CallSt) (v : Vtx) : (oStep f r s v).log = s.log := by
  unfold oStep
  split <;> (try split) <;> simp

theorem outputValues_inv (f : FuncDesc) (r : BehOut) (u : Bool) (s s' : CallSt) (h : Inv c A s)
    (hl : (∀ p ∈ f.output.named, p.2 ∈ f.output.values) ∧ (∀ p ∈ f.output.typed, p.2 ∈ f.output.values))
    (hlen : f.output.values.length ≤ r.outs.length) (hr : ∀ i ∈ r.outs, Av A s.log i)
    (ho : outputValues c f r u s = .ok s') : Inv c A s' ∧ s'.log = s.log := by
  rw [outputValues_eq] at ho
  split at ho
  · cases ho
  · simp only [Except.ok.injEq] at ho
    subst ho
    apply foldl_inv (P := fun (t : CallSt) => Inv c A t ∧ t.log = s.log)
    · intro t v ht
      refine ⟨oStep_inv f r t v ht.1 hl hlen (by rw [ht.2]; exact hr), ?_⟩
      rw [oStep_log]; exact ht.2
    · split
      · refine ⟨⟨h.store, h.last, ?_, h.log, ?_⟩, rfl⟩
        · intro p hp
          dsimp only at hp ⊢
          obtain ⟨q, hq, rfl⟩ := List.mem_map.1 hp
          have := h.memo q hq
          split <;> exact this
        · intro k g hg honce m hm
          dsimp only at hm
          rw [Once.mapGet_map_unwrap] at hm
          cases hq : mapGet s.memo g.id with
          | none => simp [hq] at hm
          | some q =>
            simp only [hq, Option.map_some, Option.some.injEq] at hm
            have := h.full k g hg honce q hq
            subst hm
            split <;> exact this
      · exact ⟨h, rfl⟩

/-! ### one step of the walk -/

/-- what a sub-computation started in `s` returns and leaves behind -/
def Good (c : Ctx) (A : Nat → Prop) (s : CallSt) (r : Except RErr ArgMap × CallSt) : Prop :=
  (∀ ev ∈ s.log, ev ∈ r.2.log) ∧ Inv c A r.2 ∧ ∀ am, r.1 = .ok am → AmOK A r.2.log am

theorem Good.error {s s' : CallSt} (hsub : ∀ ev ∈ s.log, ev ∈ s'.log) (h : Inv c A s') (e : RErr) :
    Good c A s (.error e, s') := ⟨hsub, h, fun am h => by cases h⟩

theorem Good.trans {s s1 : CallSt} {r : Except RErr ArgMap × CallSt} (hsub : ∀ ev ∈ s.log, ev ∈ s1.log)
    (h : Good c A s1 r) : Good c A s r := ⟨fun ev hev => h.1 ev (hsub ev hev), h.2⟩

def RecOK (c : Ctx) (A : Nat → Prop) (rec : Vtx → CallSt → Except RErr ArgMap × CallSt) : Prop :=
  ∀ v s, Inv c A s → Good c A s (rec v s)

structure WInv (c : Ctx) (A : Nat → Prop) (s0 : CallSt) (w : WalkSt) : Prop where
  ext : ∀ ev ∈ s0.log, ev ∈ w.s.log
  inv : Inv c A w.s
  final : ∀ x, w.final = some x → Av A w.s.log x.id

theorem copyFrom_inv (s : CallSt) (prev : Option Vtx) (v : Vtx) (h : Inv c A s) :
    Inv c A (copyFrom s prev v) := by
  unfold copyFrom
  split
  · exact h.set _ _ (fun y hy => h.get hy)
  · exact h

theorem copyFrom_log (s : CallSt) (prev : Option Vtx) (v : Vtx) : (copyFrom s prev v).log = s.log := by
  unfold copyFrom
  split <;> simp

theorem valCopy_inv (s : CallSt) (prev : Option Vtx) (v : Vtx) (h : Inv c A s) :
    Inv c A (valCopy c s prev v) := by
  rcases valCopy_cases c s prev v with h1 | ⟨n, t, st, x, _, _, hg, h1⟩
  · rw [h1]; exact copyFrom_inv s prev v h
  · rw [h1]
    apply h.set
    intro y hy
    cases hy
    exact h.get hg

theorem valCopy_log (s : CallSt) (prev : Option Vtx) (v : Vtx) : (valCopy c s prev v).log = s.log := by
  rcases valCopy_cases c s prev v with h1 | ⟨n, t, st, x, _, _, hg, h1⟩
  · rw [h1]; exact copyFrom_log s prev v
  · rw [h1]; simp

theorem argStore_inv (s : CallSt) (t : Nat) (v : Vtx) (h : Inv c A s) : Inv c A (argStore c s t v) := by
  unfold argStore
  split
  · rename_i x hx
    split
    · apply h.set
      intro y hy
      cases hy
      exact h.last _ hx
    · exact h
  · exact h

theorem argStore_log (s : CallSt) (t : Nat) (v : Vtx) : (argStore c s t v).log = s.log := by
  unfold argStore
  split
  · split <;> simp
  · rfl

theorem walkStep_inv (hb : BehLen c) (hk : OutsListed c)
    (rec : Vtx → CallSt → Except RErr ArgMap × CallSt) (hrec : RecOK c A rec)
    (s0 : CallSt) (w : WalkSt) (v : Vtx) (hw : WInv c A s0 w) : WInv c A s0 (walkStep c rec w v) := by
  cases herr : w.err with
  | some e => rw [walkStep_err c rec herr]; exact hw
  | none =>
    cases v with
    | root => rw [walkStep_root c rec herr]; exact ⟨hw.ext, hw.inv, hw.final⟩
    | value n t u =>
      rw [walkStep_value c rec herr]
      have hv := valCopy_inv (c := c) w.s w.prev (.value n t u) hw.inv
      have hlog := valCopy_log (c := c) w.s w.prev (.value n t u)
      refine ⟨?_, ?_, ?_⟩
      · dsimp only; rw [hlog]; exact hw.ext
      · apply hv.setLast
        intro y hy
        split at hy
        · exact hv.get hy
        · rw [hlog]; exact hw.inv.get hy
      · intro x hx
        dsimp only at hx ⊢
        rw [hlog]
        cases hg : (valCopy c w.s w.prev (.value n t u)).get (.value n t u) with
        | some y =>
          rw [hg] at hx
          simp only [Option.some_or, Option.some.injEq] at hx
          subst hx
          have := hv.get hg
          rw [hlog] at this; exact this
        | none =>
          rw [hg] at hx
          simp only [Option.none_or] at hx
          exact hw.final x hx
    | arg t u =>
      rw [walkStep_arg c rec herr]
      have hv := argStore_inv (c := c) w.s t (.arg t u) hw.inv
      have hlog := argStore_log (c := c) w.s t (.arg t u)
      refine ⟨?_, hv, ?_⟩
      · dsimp only; rw [hlog]; exact hw.ext
      · intro x hx
        exact hv.get hx
    | out t u =>
      rw [walkStep_out c rec herr]
      have hv := copyFrom_inv (c := c) (A := A) w.s w.prev (.out t u) hw.inv
      have hlog := copyFrom_log w.s w.prev (.out t u)
      refine ⟨?_, ?_, ?_⟩
      · dsimp only; rw [hlog]; exact hw.ext
      · exact hv.setLast _ (fun y hy => hv.get hy)
      · intro x hx
        dsimp only at hx ⊢
        rw [hlog]; exact hw.final x hx
    | func k =>
      cases hf : c.funcOf k with
      | none => rw [walkStep_func_none c rec herr k hf]; exact ⟨hw.ext, hw.inv, hw.final⟩
      | some f =>
        have hr := hrec (Vtx.func k) w.s hw.inv
        rcases hrs : rec (Vtx.func k) w.s with ⟨e | am, s1⟩
        · rw [walkStep_func_recErr c rec herr k hf hrs]
          rw [hrs] at hr
          exact ⟨fun ev hev => hr.1 ev (hw.ext ev hev), hr.2.1, fun x hx => (hw.final x hx).mono hr.1⟩
        · rw [hrs] at hr
          obtain ⟨hr1, hr2, hr3⟩ := hr
          have hcd := callDirect_inv hb f am s1 hr2 (hr3 am rfl)
          rcases hcs : callDirect c f am s1 with ⟨e | ⟨r, unw⟩, s2⟩
          · rw [walkStep_func_cdErr c rec herr k hf hrs hcs]
            rw [hcs] at hcd
            exact ⟨fun ev hev => hcd.1 ev (hr1 ev (hw.ext ev hev)), hcd.2.1,
              fun x hx => ((hw.final x hx).mono hr1).mono hcd.1⟩
          · rw [hcs] at hcd
            obtain ⟨hc1, hc2, hc3⟩ := hcd
            have h2 : WInv c A s0 { w with s := s2 } :=
              ⟨fun ev hev => hc1 ev (hr1 ev (hw.ext ev hev)), hc2, fun x hx => ((hw.final x hx).mono hr1).mono hc1⟩
            cases hre : r.err with
            | some ε =>
              rw [walkStep_func_funcErr c rec herr k hf hrs hcs hre]
              exact ⟨h2.ext, h2.inv, h2.final⟩
            | none =>
              cases hov : outputValues c f r unw s2 with
              | error e =>
                rw [walkStep_func_outErr c rec herr k hf hrs hcs hre hov]
                exact ⟨h2.ext, h2.inv, h2.final⟩
              | ok s3 =>
                rw [walkStep_func_ok c rec herr k hf hrs hcs hre hov]
                obtain ⟨ho1, ho2⟩ := hc3 r unw rfl
                obtain ⟨hi3, hl3⟩ := outputValues_inv f r unw s2 s3 hc2 (hk k f hf) (ho2 ⟨k, hf⟩) ho1 hov
                refine ⟨?_, hi3, ?_⟩
                · dsimp only; rw [hl3]; exact h2.ext
                · dsimp only; rw [hl3]; exact h2.final

theorem mem_mapSet_am {am : ArgMap} {k : Vtx} {x : PVal} {p : Vtx × PVal} (h : p ∈ mapSet am k x) :
    p ∈ am ∨ p = (k, x) := NoFabMemo.mem_mapSet h

theorem walkPaths_inv (hb : BehLen c) (hk : OutsListed c)
    (rec : Vtx → CallSt → Except RErr ArgMap × CallSt) (hrec : RecOK c A rec)
    (ps : List (List Vtx)) (am : ArgMap) (s : CallSt) (hs : Inv c A s) (ham : AmOK A s.log am) :
    Good c A s (walkPaths c rec ps am s) := by
  induction ps generalizing am s with
  | nil =>
    refine ⟨fun _ h => h, hs, fun am' h => ?_⟩
    simp only [walkPaths, Except.ok.injEq] at h
    subst h; exact ham
  | cons p rest ih =>
    unfold walkPaths
    have hw : WInv c A s (p.foldl (walkStep c rec) { s := s, final := none, prev := none, err := none }) :=
      foldl_inv (P := fun w => WInv c A s w) _ (fun w v hw => walkStep_inv hb hk rec hrec s w v hw) p _
        ⟨fun _ h => h, hs, fun x hx => by cases hx⟩
    generalize p.foldl (walkStep c rec) { s := s, final := none, prev := none, err := none } = w at hw
    dsimp only
    split
    · exact Good.error hw.ext hw.inv _
    · split
      · rename_i x lastV hx hlast
        apply Good.trans hw.ext
        apply ih _ _ hw.inv
        intro q hq
        rcases mem_mapSet_am hq with hq | rfl
        · exact (ham q hq).mono hw.ext
        · exact hw.final x hx
      · exact Good.error hw.ext hw.inv _

/-! ### reach -/

theorem planOne_inv (target : Vtx) (reaching : List Vtx) (tr : Bool) (ps : PlanSt)
    (cp : Vtx × List Vtx) (s0 : CallSt) (h : Inv c A ps.s ∧ ps.s.log = s0.log) :
    Inv c A (planOne target reaching tr false ps cp).s ∧ (planOne target reaching tr false ps cp).s.log = s0.log := by
  unfold planOne
  dsimp only
  split
  · exact h
  · simp only [Bool.false_eq_true, if_false]
    exact ⟨h.1.addInput _, by rw [addInput_log]; exact h.2⟩

theorem am0_ok (s : CallSt) (hs : Inv c A s) (l : List Vtx) :
    AmOK A s.log (l.filterMap (fun v => if v == Vtx.root then none else (s.get v).map (fun x => (v, x)))) := by
  intro p hp
  simp only [List.mem_filterMap] at hp
  obtain ⟨v, _, hv⟩ := hp
  split at hv
  · cases hv
  · cases hg : s.get v with
    | none => simp [hg] at hv
    | some y =>
      simp only [hg, Option.map_some, Option.some.injEq] at hv
      subst hv
      exact hs.get hg

theorem foldl_addInput_inv (l : List Vtx) (s : CallSt) (h : Inv c A s) :
    Inv c A (l.foldl CallSt.addInput s) ∧ (l.foldl CallSt.addInput s).log = s.log := by
  apply foldl_inv (P := fun (t : CallSt) => Inv c A t ∧ t.log = s.log)
  · intro t v ht
    exact ⟨ht.1.addInput v, by rw [addInput_log]; exact ht.2⟩
  · exact ⟨h, rfl⟩

theorem reach_inv (hb : BehLen c) (hk : OutsListed c) (n : Nat) (reaching : List Vtx) :
    RecOK c A (reach c false n reaching) := by
  induction n generalizing reaching with
  | zero =>
    intro tv s hs
    unfold reach
    exact Good.error (fun _ h => h) hs _
  | succ n ih =>
    intro tv s hs
    unfold reach
    dsimp only
    have ham0 := am0_ok s hs ((c.g.outs tv).filter (fun v => v == Vtx.root || takenAsIs c s v))
    generalize ((c.g.outs tv).filter (fun v => v == Vtx.root || takenAsIs c s v)).filterMap
      (fun v => if v == Vtx.root then none else (s.get v).map (fun x => (v, x))) = am0 at ham0
    have hs1 : Inv c A (if c.skipRecordsInput then
        ((c.g.outs tv).filter (fun v => v == Vtx.root || takenAsIs c s v)).foldl CallSt.addInput s else s) ∧
        (if c.skipRecordsInput then
        ((c.g.outs tv).filter (fun v => v == Vtx.root || takenAsIs c s v)).foldl CallSt.addInput s else s).log
          = s.log := by
      split
      · exact foldl_addInput_inv _ s hs
      · exact ⟨hs, rfl⟩
    generalize (if c.skipRecordsInput then
        ((c.g.outs tv).filter (fun v => v == Vtx.root || takenAsIs c s v)).foldl CallSt.addInput s else s) = s1 at hs1
    obtain ⟨hi1, hl1⟩ := hs1
    have hsub1 : ∀ ev ∈ s.log, ev ∈ s1.log := by rw [hl1]; exact fun _ h => h
    split
    · exact Good.error hsub1 hi1 _
    · rename_i item orcRest _
      have hi2 : Inv c A { s1 with orc := orcRest } := hi1.congr rfl rfl rfl rfl
      have hsub2 : ∀ ev ∈ s.log, ev ∈ ({ s1 with orc := orcRest } : CallSt).log := hsub1
      split
      · exact Good.error hsub2 hi2 _
      · split
        · exact Good.error hsub2 hi2 _
        · split
          · refine ⟨hsub2, hi2, fun am h => ?_⟩
            simp only [Except.ok.injEq] at h
            subst h
            show AmOK A s1.log am0
            rw [hl1]; exact ham0
          · split
            · exact Good.error hsub2 hi2 _
            · split
              · exact Good.error hsub2 hi2 _
              · have hp := foldl_inv
                  (P := fun (t : PlanSt) => Inv c A t.s ∧ t.s.log = s.log)
                  (planOne tv (tv :: reaching) c.trackReaching false)
                  (fun t v ht => planOne_inv tv (tv :: reaching) c.trackReaching t v s ht)
                  (item.missing.zip item.paths) { s := { s1 with orc := orcRest }, unsat := [] } ⟨hi2, hl1⟩
                generalize (item.missing.zip item.paths).foldl
                  (planOne tv (tv :: reaching) c.trackReaching false)
                  { s := { s1 with orc := orcRest }, unsat := [] } = ps at hp
                obtain ⟨hi3, hl3⟩ := hp
                have hsub3 : ∀ ev ∈ s.log, ev ∈ ps.s.log := by rw [hl3]; exact fun _ h => h
                split
                · exact Good.error hsub3 hi3 _
                · apply Good.trans hsub3
                  exact walkPaths_inv hb hk _ (ih (tv :: reaching)) _ _ _ hi3 (by rw [hl3]; exact ham0)

/-! ### Call -/

theorem callWith_inv (hb : BehLen c) (hk : OutsListed c) (cgr : CallGraphResult) (target : FuncDesc)
    (fuel : Nat) (s0 : CallSt) (h : Inv c A s0) : Inv c A (callWith c cgr target fuel s0).2 := by
  unfold callWith
  split
  · exact h
  · have hr := reach_inv (A := A) hb hk fuel [] cgr.target s0 h
    rcases hres : reach c false fuel [] cgr.target s0 with ⟨e | am, s⟩
    · rw [hres] at hr
      cases e <;> exact hr.2.1
    · rw [hres] at hr
      dsimp only
      have hcd := callDirect_inv hb target am s hr.2.1 (hr.2.2 am rfl)
      rcases hcs : callDirect c target am s with ⟨e | ⟨r, unw⟩, s2⟩
      · rw [hcs] at hcd
        cases e <;> exact hcd.2.1
      · rw [hcs] at hcd
        dsimp only
        split <;> exact hcd.2.1

/-- the state a call of a history starts from -/
theorem start_inv (cg : CG) (h : HistState) (orc : List OrcItem) (hm : MemoFull c h.memo) :
    Inv c (fun i => i ∈ cg.store.map (fun p => p.2.id) ∨ ∃ p ∈ h.memo, i ∈ p.2.res.outs)
      (h.start cg orc) := by
  constructor
  · intro p hp
    simp only [HistState.start, initSt, List.mem_map] at hp
    obtain ⟨q, hq, rfl⟩ := hp
    exact .inl (.inl (List.mem_map.2 ⟨q, hq, rfl⟩))
  · intro x hx; cases hx
  · intro p hp i hi
    exact .inl (.inr ⟨p, hp, hi⟩)
  · intro ev hev; cases hev
  · exact hm

/-- **no fabrication, one call** -/
theorem histCall_no_fab (hb : BehLen c) (hk : OutsListed c) (cgr : CallGraphResult) (target : FuncDesc)
    (fuel : Nat) (h : HistState) (orc : List OrcItem) (hm : MemoFull c h.memo) :
    ∀ ev ∈ (histCall c cgr target fuel h orc).2.log, ∀ a ∈ ev.args,
      a.id ∈ cgr.cg.store.map (fun p => p.2.id) ∨ (∃ p ∈ h.memo, a.id ∈ p.2.res.outs) ∨
      ∃ ev' ∈ (histCall c cgr target fuel h orc).2.log, a.id ∈ ev'.res.outs := by
  intro ev hev a ha
  have := (callWith_inv hb hk cgr target fuel _ (start_inv cgr.cg h orc hm)).log ev hev a ha
  rcases this with (h1 | h1) | h1
  · exact .inl h1
  · exact .inr (.inl h1)
  · exact .inr (.inr h1)

end ArgMapper.NoFab
