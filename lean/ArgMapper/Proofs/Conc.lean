import ArgMapper.Model.Conc
/-!
# Helper lemmas for C12 / C11 (concurrent clause): the invariant of the locked run-once protocol
-/
namespace ArgMapper.Conc

/-- what the shared state must look like for thread `t` to be at `pc` (locked protocol) -/
def PcOk (st : OState) (t : Nat) : Pc → Prop
  | .start => True
  | .entered => st.lock = some t ∧ ((st.memo = none ∧ st.execs = 0) ∨ (st.memo = some 1 ∧ st.execs = 1))
  | .hit r => st.lock = some t ∧ r = 1 ∧ st.memo = some 1 ∧ st.execs = 1
  | .miss => st.lock = some t ∧ st.memo = none ∧ st.execs = 0
  | .executed r => st.lock = some t ∧ r = 1 ∧ st.memo = none ∧ st.execs = 1
  | .stored r => st.lock = some t ∧ r = 1 ∧ st.memo = some 1 ∧ st.execs = 1
  | .done r => r = 1

def Active (pc : Pc) : Prop := pc ≠ .start ∧ ∀ r, pc ≠ .done r

structure Inv (st : OState) : Prop where
  execs : st.execs ≤ 1
  ok : ∀ t pc, st.pcs[t]? = some pc → PcOk st t pc
  holder : ∀ t, st.lock = some t → ∃ pc, st.pcs[t]? = some pc ∧ Active pc
  free : st.lock = none → (st.memo = none ∧ st.execs = 0) ∨ (st.memo = some 1 ∧ st.execs = 1)

theorem inv_init (n : Nat) : Inv (init n) := by
  refine ⟨by simp [init], ?_, ?_, ?_⟩
  · intro t pc h
    simp only [init, List.getElem?_replicate] at h
    split at h
    · cases h; trivial
    · cases h
  · intro t h; simp [init] at h
  · intro _; simp [init]

/-- a thread that is neither at `start` nor at `done` holds the lock -/
theorem lock_of_active {st : OState} {t : Nat} {pc : Pc} (h : PcOk st t pc) (ha : Active pc) :
    st.lock = some t := by
  cases pc with
  | start => exact absurd rfl ha.1
  | done r => exact absurd rfl (ha.2 r)
  | entered => exact h.1
  | hit r => exact h.1
  | miss => exact h.1
  | executed r => exact h.1
  | stored r => exact h.1

/-- if `tid` holds the lock, every other thread is at `start` or `done 1` -/
theorem other_idle {st : OState} (hi : Inv st) {tid t : Nat} (hl : st.lock = some tid) (hne : t ≠ tid)
    {pc : Pc} (h : st.pcs[t]? = some pc) : pc = .start ∨ pc = .done 1 := by
  have hok := hi.ok t pc h
  cases pc with
  | start => exact Or.inl rfl
  | done r => right; simp only [PcOk] at hok; rw [hok]
  | entered => have := hok.1; rw [hl] at this; cases this; exact absurd rfl hne
  | hit r => have := hok.1; rw [hl] at this; cases this; exact absurd rfl hne
  | miss => have := hok.1; rw [hl] at this; cases this; exact absurd rfl hne
  | executed r => have := hok.1; rw [hl] at this; cases this; exact absurd rfl hne
  | stored r => have := hok.1; rw [hl] at this; cases this; exact absurd rfl hne

theorem PcOk_idle {st : OState} {t : Nat} {pc : Pc} (h : pc = .start ∨ pc = .done 1) : PcOk st t pc := by
  rcases h with h | h <;> subst h <;> simp [PcOk]

/-- one step of a thread that holds the lock and moves to `pc'` in the new shared state -/
theorem inv_move_holder {st : OState} (hi : Inv st) {tid : Nat} (hlt : tid < st.pcs.length)
    (hl : st.lock = some tid) (st' : OState) (pc' : Pc) (hpcs : st'.pcs = st.pcs.set tid pc')
    (hex : st'.execs ≤ 1) (hok : PcOk st' tid pc')
    (hlock : (st'.lock = some tid ∧ Active pc') ∨
      (st'.lock = none ∧ (pc' = .start ∨ pc' = .done 1) ∧
        ((st'.memo = none ∧ st'.execs = 0) ∨ (st'.memo = some 1 ∧ st'.execs = 1)))) : Inv st' := by
  refine ⟨hex, ?_, ?_, ?_⟩
  · intro t pc h
    rw [hpcs] at h
    by_cases heq : tid = t
    · subst heq
      rw [List.getElem?_set_self hlt] at h
      cases h; exact hok
    · rw [List.getElem?_set_ne heq] at h
      exact PcOk_idle (other_idle hi hl (Ne.symm heq) h)
  · intro t ht
    rcases hlock with ⟨hl', ha⟩ | ⟨hl', _⟩
    · rw [hl'] at ht; cases ht
      exact ⟨pc', by rw [hpcs, List.getElem?_set]; simp [hlt], ha⟩
    · rw [hl'] at ht; cases ht
  · intro hn
    rcases hlock with ⟨hl', _⟩ | ⟨_, _, h⟩
    · rw [hl'] at hn; cases hn
    · exact h

theorem lt_of_getElem? {l : List Pc} {i : Nat} {pc : Pc} (h : l[i]? = some pc) : i < l.length := by
  rcases Nat.lt_or_ge i l.length with h' | h'
  · exact h'
  · rw [List.getElem?_eq_none h'] at h; cases h

theorem inv_step {st : OState} (hi : Inv st) (tid : Nat) : Inv (step true st tid) := by
  unfold step
  split
  · exact hi
  · -- start
    next hpc =>
    have hlt := lt_of_getElem? hpc
    simp only [if_true]
    split
    · next hnone =>
      -- acquire
      have hfree := hi.free hnone
      refine ⟨hi.execs, ?_, ?_, ?_⟩
      · intro t pc h
        simp only [setPc] at h
        by_cases heq : tid = t
        · subst heq
          rw [List.getElem?_set_self hlt] at h
          cases h
          exact ⟨rfl, hfree⟩
        · rw [List.getElem?_set_ne heq] at h
          have hok := hi.ok t pc h
          have : pc = .start ∨ pc = .done 1 := by
            cases pc with
            | start => exact Or.inl rfl
            | done r => right; simp only [PcOk] at hok; rw [hok]
            | entered => have := hok.1; rw [hnone] at this; cases this
            | hit r => have := hok.1; rw [hnone] at this; cases this
            | miss => have := hok.1; rw [hnone] at this; cases this
            | executed r => have := hok.1; rw [hnone] at this; cases this
            | stored r => have := hok.1; rw [hnone] at this; cases this
          exact PcOk_idle this
      · intro t ht
        simp only [setPc] at ht
        cases ht
        refine ⟨.entered, by simp [setPc, hlt], ?_⟩
        exact ⟨by simp, by simp⟩
      · intro h; simp [setPc] at h
    · exact hi
  · -- entered
    next hpc =>
    have hlt := lt_of_getElem? hpc
    have hok := hi.ok _ _ hpc
    simp only [PcOk] at hok
    obtain ⟨hl, hm⟩ := hok
    split
    · next r hr =>
      have : r = 1 ∧ st.execs = 1 := by
        rcases hm with ⟨h1, _⟩ | ⟨h1, h2⟩
        · rw [h1] at hr; cases hr
        · rw [h1] at hr; cases hr; exact ⟨rfl, h2⟩
      obtain ⟨rfl, he⟩ := this
      exact inv_move_holder hi hlt hl _ _ rfl hi.execs ⟨hl, rfl, hr, he⟩
        (Or.inl ⟨hl, by simp [Active]⟩)
    · next hr =>
      have he : st.execs = 0 := by
        rcases hm with ⟨_, h2⟩ | ⟨h1, _⟩
        · exact h2
        · rw [h1] at hr; cases hr
      exact inv_move_holder hi hlt hl _ _ rfl hi.execs ⟨hl, hr, he⟩
        (Or.inl ⟨hl, by simp [Active]⟩)
  · -- hit
    next r hpc =>
    have hlt := lt_of_getElem? hpc
    have hok := hi.ok _ _ hpc
    simp only [PcOk] at hok
    obtain ⟨hl, rfl, hm, he⟩ := hok
    exact inv_move_holder hi hlt hl _ _ rfl hi.execs rfl
      (Or.inr ⟨rfl, Or.inr rfl, Or.inr ⟨hm, he⟩⟩)
  · -- miss
    next hpc =>
    have hlt := lt_of_getElem? hpc
    have hok := hi.ok _ _ hpc
    simp only [PcOk] at hok
    obtain ⟨hl, hm, he⟩ := hok
    refine inv_move_holder hi hlt hl _ _ rfl ?_ ⟨hl, ?_, hm, ?_⟩ (Or.inl ⟨hl, by simp [Active]⟩)
    · simp [setPc, he]
    · simp [he]
    · simp [setPc, he]
  · -- executed
    next r hpc =>
    have hlt := lt_of_getElem? hpc
    have hok := hi.ok _ _ hpc
    simp only [PcOk] at hok
    obtain ⟨hl, rfl, hm, he⟩ := hok
    exact inv_move_holder hi hlt hl _ _ rfl hi.execs ⟨hl, rfl, rfl, he⟩
      (Or.inl ⟨hl, by simp [Active]⟩)
  · -- stored
    next r hpc =>
    have hlt := lt_of_getElem? hpc
    have hok := hi.ok _ _ hpc
    simp only [PcOk] at hok
    obtain ⟨hl, rfl, hm, he⟩ := hok
    exact inv_move_holder hi hlt hl _ _ rfl hi.execs rfl
      (Or.inr ⟨rfl, Or.inr rfl, Or.inr ⟨hm, he⟩⟩)
  · exact hi

theorem inv_foldl (sched : List Nat) : ∀ st, Inv st → Inv (sched.foldl (step true) st) := by
  induction sched with
  | nil => intro st h; exact h
  | cons t ts ih => intro st h; exact ih _ (inv_step h t)

theorem inv_run (n : Nat) (sched : List Nat) : Inv (run true n sched) :=
  inv_foldl sched _ (inv_init n)

theorem result_eq_one {st : OState} (hi : Inv st) {i r : Nat} (h : result st i = some r) : r = 1 := by
  unfold result at h
  split at h
  · next r' hpc =>
    cases h
    exact hi.ok _ _ hpc
  · cases h

/-! ### lock discipline -/

theorem guarded_no_race (guard : String → String) (progs : List (List Access)) (hg : Guarded guard progs)
    (p q : List Access) (hp : p ∈ progs) (hq : q ∈ progs) : ¬ Race p q := by
  rintro ⟨a, ha, b, hb, hloc, hw, hno⟩
  have hwa : ∃ q' ∈ progs, ∃ b' ∈ q', b'.loc = a.loc ∧ b'.write = true := by
    rcases hw with hw | hw
    · exact ⟨p, hp, a, ha, rfl, hw⟩
    · exact ⟨q, hq, b, hb, hloc.symm, hw⟩
  have hwb : ∃ q' ∈ progs, ∃ b' ∈ q', b'.loc = b.loc ∧ b'.write = true := by
    obtain ⟨q', hq', b', hb', h1, h2⟩ := hwa
    exact ⟨q', hq', b', hb', h1.trans hloc, h2⟩
  have h1 := hg p hp a ha hwa
  have h2 := hg q hq b hb hwb
  exact hno ⟨guard a.loc, h1, by rw [h2, hloc]⟩

theorem common_lock_no_race (l : String) (p q : List Access) (hp : ∀ a ∈ p, a.lock = some l)
    (hq : ∀ a ∈ q, a.lock = some l) : ¬ Race p q := by
  rintro ⟨a, ha, b, hb, _, _, hno⟩
  exact hno ⟨l, hp a ha, hq b hb⟩

end ArgMapper.Conc
