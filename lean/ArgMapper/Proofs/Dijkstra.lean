import ArgMapper.Proofs.DijkstraPath
/-!
# Helper lemmas for C18: what one `pop` does, the predecessor-tree invariant, `chainAux`
-/
namespace ArgMapper.DijkstraProofs
open ArgMapper AGraph Dijkstra
variable {α : Type} [DecidableEq α]

/-! ### one relaxation, a fold of relaxations, one `pop` -/

theorem relax_one (u : α) (du : Int) (s : DSt α) (e : α × Int) :
    (relax u du s e).visited = s.visited ∧
    (∀ x, ((relax u du s e).dist x = s.dist x ∧ (relax u du s e).prev x = s.prev x) ∨
      (x = e.1 ∧ x ∉ s.visited ∧ (relax u du s e).prev x = some u ∧
        (relax u du s e).dist x = wrap32 (du + wrap32 e.2) ∧
        (relax u du s e).dist x < s.dist x)) ∧
    (e.1 ∉ s.visited → (relax u du s e).dist e.1 ≤ wrap32 (du + wrap32 e.2)) := by
  unfold relax
  split
  · rename_i hv
    exact ⟨rfl, fun x => Or.inl ⟨rfl, rfl⟩, fun h => absurd hv h⟩
  · rename_i hv
    split
    · rename_i hlt
      refine ⟨rfl, fun x => ?_, fun _ => by simp [DSt.set]⟩
      by_cases hx : x = e.1
      · subst hx
        exact Or.inr ⟨rfl, hv, by simp [DSt.set], by simp [DSt.set], by simpa [DSt.set] using hlt⟩
      · exact Or.inl ⟨by simp [DSt.set, hx], by simp [DSt.set, hx]⟩
    · rename_i hlt
      exact ⟨rfl, fun x => Or.inl ⟨rfl, rfl⟩, fun _ => by omega⟩

/-- the effect of relaxing a list `l` of out-edges of `u` -/
structure RelaxSpec (u : α) (du : Int) (l : List (α × Int)) (s s' : DSt α) : Prop where
  vis : s'.visited = s.visited
  frozen : ∀ x, x ∈ s.visited → s'.dist x = s.dist x ∧ s'.prev x = s.prev x
  mono : ∀ x, s'.dist x ≤ s.dist x
  relaxed : ∀ x w, (x, w) ∈ l → x ∉ s.visited → s'.dist x ≤ wrap32 (du + wrap32 w)
  cases : ∀ x, (s'.dist x = s.dist x ∧ s'.prev x = s.prev x) ∨
    (x ∉ s.visited ∧ s'.prev x = some u ∧
      ∃ w, (x, w) ∈ l ∧ s'.dist x = wrap32 (du + wrap32 w) ∧ s'.dist x < s.dist x)

theorem relax_fold_spec (u : α) (du : Int) : ∀ (l : List (α × Int)) (s : DSt α),
    RelaxSpec u du l s (l.foldl (relax u du) s)
  | [], s => by
    refine ⟨rfl, fun _ _ => ⟨rfl, rfl⟩, fun _ => Int.le_refl _, ?_, fun _ => Or.inl ⟨rfl, rfl⟩⟩
    intro x w h; simp at h
  | e :: l, s => by
    have ih := relax_fold_spec u du l (relax u du s e)
    obtain ⟨h1v, h1c, h1r⟩ := relax_one u du s e
    simp only [List.foldl_cons]
    generalize l.foldl (relax u du) (relax u du s e) = s' at ih
    generalize relax u du s e = s1 at ih h1v h1c h1r
    have h1mono : ∀ x, s1.dist x ≤ s.dist x := by
      intro x
      rcases h1c x with h | h
      · rw [h.1]; exact Int.le_refl _
      · omega
    refine ⟨ih.vis.trans h1v, ?_, ?_, ?_, ?_⟩
    · intro x hx
      have h2 := ih.frozen x (h1v ▸ hx)
      rcases h1c x with h | h
      · exact ⟨h2.1.trans h.1, h2.2.trans h.2⟩
      · exact absurd hx h.2.1
    · intro x
      have := ih.mono x
      have := h1mono x
      omega
    · intro x w hm hx
      rcases List.mem_cons.1 hm with h | h
      · subst h
        have := h1r hx
        have := ih.mono x
        simp only at *
        omega
      · have := ih.relaxed x w h (h1v ▸ hx)
        exact this
    · intro x
      rcases ih.cases x with h2 | ⟨h2v, h2p, w, hw, h2d, h2lt⟩
      · rcases h1c x with h | ⟨hxe, hxv, hp, hd, hlt⟩
        · exact Or.inl ⟨h2.1.trans h.1, h2.2.trans h.2⟩
        · refine Or.inr ⟨hxv, h2.2.trans hp, e.2, ?_, h2.1.trans hd, by omega⟩
          rw [hxe]; exact List.mem_cons_self ..
      · refine Or.inr ⟨h1v ▸ h2v, h2p, w, List.mem_cons_of_mem _ hw, h2d, ?_⟩
        have := h1mono x
        omega

theorem pop_spec (g : AGraph α) (s : DSt α) (u : α) :
    RelaxSpec u (s.dist u) (g.outsW u) { s with visited := u :: s.visited } (pop g s u) :=
  relax_fold_spec u (s.dist u) (g.outsW u) _

theorem pop_visited (g : AGraph α) (s : DSt α) (u : α) :
    (pop g s u).visited = u :: s.visited := (pop_spec g s u).vis

theorem foldl_pop_visited (g : AGraph α) : ∀ (pops : List α) (s : DSt α),
    (pops.foldl (pop g) s).visited = pops.reverse ++ s.visited
  | [], s => by simp
  | u :: pops, s => by
    simp only [List.foldl_cons]
    rw [foldl_pop_visited g pops, pop_visited]
    simp

theorem run_visited (g : AGraph α) (src : α) (pops : List α) :
    (run g src pops).visited = pops.reverse := by
  unfold run
  rw [foldl_pop_visited]
  simp [init]

/-! ### the predecessor-tree invariant (all weights, any duplicate-free pop order) -/

structure TInv (g : AGraph α) (s : DSt α) (rank : α → Nat) : Prop where
  bound_vis : ∀ x, x ∈ s.visited → rank x < s.visited.length
  bound_unvis : ∀ x, x ∉ s.visited → rank x = s.visited.length
  prev_ok : ∀ x u, s.prev x = some u → u ∈ s.visited ∧ rank u < rank x ∧ g.hasEdge u x = true

theorem tinv_init (g : AGraph α) (src : α) : TInv g (init src) (fun _ => 0) :=
  ⟨fun x h => by simp [init] at h, fun x _ => by simp [init], fun x u h => by simp [init] at h⟩

theorem tinv_pop {g : AGraph α} {s : DSt α} {rank : α → Nat} (h : TInv g s rank) {u : α}
    (hu : u ∉ s.visited) :
    TInv g (pop g s u) (fun x => if x ∈ s.visited then rank x else if x = u then s.visited.length
      else s.visited.length + 1) := by
  have sp := pop_spec g s u
  have hv : (pop g s u).visited = u :: s.visited := sp.vis
  refine ⟨?_, ?_, ?_⟩
  · intro x hx
    rw [hv] at hx ⊢
    simp only [List.length_cons]
    by_cases hxv : x ∈ s.visited
    · simp only [hxv, if_true]; have := h.bound_vis x hxv; omega
    · rcases List.mem_cons.1 hx with rfl | hx'
      · simp [hxv]
      · exact absurd hx' hxv
  · intro x hx
    rw [hv] at hx ⊢
    simp only [List.mem_cons, not_or] at hx
    simp [hx.1, hx.2]
  · intro x w hp
    have hrw : ∀ w, w ∈ s.visited → (if w ∈ s.visited then rank w else if w = u then
        s.visited.length else s.visited.length + 1) = rank w := by
      intro w hw; simp [hw]
    rcases sp.cases x with ⟨_, hpe⟩ | ⟨hxv, hpe, w', hw', _, _⟩
    · rw [hpe] at hp
      obtain ⟨hwv, hlt, he⟩ := h.prev_ok x w hp
      refine ⟨hv ▸ List.mem_cons_of_mem _ hwv, ?_, he⟩
      rw [hrw w hwv]
      by_cases hxv : x ∈ s.visited
      · simpa [hxv] using hlt
      · have := h.bound_vis w hwv
        simp only [hxv, if_false]
        split <;> omega
    · rw [hpe] at hp
      cases hp
      simp only [List.mem_cons, not_or] at hxv
      refine ⟨hv ▸ List.mem_cons_self .., ?_, hasEdge_of_mem (mem_outsW.1 hw')⟩
      simp [hu, hxv.1, hxv.2]

theorem tinv_foldl (g : AGraph α) : ∀ (pops : List α) (s : DSt α) (rank : α → Nat),
    TInv g s rank → pops.Nodup → (∀ x ∈ pops, x ∉ s.visited) →
    ∃ rank', TInv g (pops.foldl (pop g) s) rank'
  | [], s, rank, h, _, _ => ⟨rank, h⟩
  | u :: pops, s, rank, h, hnd, hdis => by
    simp only [List.foldl_cons]
    have hu : u ∉ s.visited := hdis u (List.mem_cons_self ..)
    rw [List.nodup_cons] at hnd
    refine tinv_foldl g pops _ _ (tinv_pop h hu) hnd.2 ?_
    intro x hx
    rw [pop_visited]
    simp only [List.mem_cons, not_or]
    refine ⟨?_, hdis x (List.mem_cons_of_mem _ hx)⟩
    rintro rfl
    exact hnd.1 hx

theorem tinv_run (g : AGraph α) (src : α) (pops : List α) (hnd : pops.Nodup) :
    ∃ rank, TInv g (run g src pops) rank :=
  tinv_foldl g pops _ _ (tinv_init g src) hnd (fun x _ => by simp [init])

/-! ### predecessor chains -/

/-- consecutive elements are linked by `prev` -/
def PChain (prev : α → Option α) : List α → Prop
  | [] => True
  | [_] => True
  | a :: b :: rest => prev b = some a ∧ PChain prev (b :: rest)

omit [DecidableEq α] in
theorem chainAux_spec (prev : α → Option α) (rank : α → Nat)
    (hr : ∀ x u, prev x = some u → rank u < rank x) :
    ∀ (fuel : Nat) (v : α) (acc : List α), rank v < fuel → PChain prev (v :: acc) →
    ∃ l, chainAux prev fuel v acc = l ++ v :: acc ∧ PChain prev (l ++ v :: acc) ∧
      ∃ r, (l ++ v :: acc).head? = some r ∧ prev r = none
  | 0, _, _, h, _ => by omega
  | n + 1, v, acc, h, hc => by
    unfold chainAux
    cases hp : prev v with
    | none => exact ⟨[], rfl, hc, v, rfl, hp⟩
    | some u =>
      have hlt := hr v u hp
      obtain ⟨l, h1, h2, h3⟩ := chainAux_spec prev rank hr n u (v :: acc) (by omega) ⟨hp, hc⟩
      refine ⟨l ++ [u], ?_, ?_, ?_⟩
      · simpa using h1
      · simpa using h2
      · simpa using h3

theorem isPath_of_pchain {g : AGraph α} {prev : α → Option α}
    (he : ∀ x u, prev x = some u → g.hasEdge u x = true) :
    ∀ p : List α, PChain prev p → IsPath g p
  | [], _ => trivial
  | [_], _ => trivial
  | a :: b :: rest, h => ⟨he b a h.1, isPath_of_pchain he (b :: rest) h.2⟩

/-- everything `tree` needs, in one statement about `edgeToPath` -/
theorem tree_aux (g : AGraph α) (src : α) (pops : List α) (hnd : pops.Nodup) (v : α) :
    PChain (run g src pops).prev (edgeToPath (run g src pops).prev (pops.length + 1) v) ∧
    IsPath g (edgeToPath (run g src pops).prev (pops.length + 1) v) ∧
    (edgeToPath (run g src pops).prev (pops.length + 1) v).getLast? = some v ∧
    ∃ r, (edgeToPath (run g src pops).prev (pops.length + 1) v).head? = some r ∧
      (run g src pops).prev r = none := by
  obtain ⟨rank, hT⟩ := tinv_run g src pops hnd
  have hlen : (run g src pops).visited.length = pops.length := by
    rw [run_visited]; simp
  have hrk : rank v < pops.length + 1 := by
    by_cases hv : v ∈ (run g src pops).visited
    · have := hT.bound_vis v hv; omega
    · have := hT.bound_unvis v hv; omega
  obtain ⟨l, h1, h2, r, h3, h4⟩ := chainAux_spec (run g src pops).prev rank
    (fun x u h => (hT.prev_ok x u h).2.1) (pops.length + 1) v [] hrk trivial
  unfold edgeToPath
  rw [h1]
  refine ⟨h2, isPath_of_pchain (fun x u h => (hT.prev_ok x u h).2.2) _ h2, by simp, r, h3, h4⟩

omit [DecidableEq α] in
/-- a predicate closed under `prev` holds along the whole chain -/
theorem pchain_all {prev : α → Option α} {G : α → Prop}
    (hG : ∀ x u, G x → prev x = some u → G u) :
    ∀ (p : List α) (v : α), PChain prev p → p.getLast? = some v → G v → ∀ x ∈ p, G x
  | [], _, _, hl, _ => by simp at hl
  | [a], v, _, hl, hv => by
    simp at hl; subst hl
    intro x hx; simp at hx; subst hx; exact hv
  | a :: b :: rest, v, hc, hl, hv => by
    have hl' : (b :: rest).getLast? = some v := by
      simpa [List.getLast?_cons_cons] using hl
    have ih := pchain_all hG (b :: rest) v hc.2 hl' hv
    intro x hx
    rcases List.mem_cons.1 hx with rfl | hx
    · exact hG b x (ih b (List.mem_cons_self ..)) hc.1
    · exact ih x hx

/-- if along a chain every predecessor link accounts for the distance difference, the chain's
    weight is the difference of the end distances -/
theorem pchain_weight {g : AGraph α} {prev : α → Option α} {dist : α → Int} :
    ∀ (p : List α) (a v : α), PChain prev p →
    (∀ x ∈ p, ∀ u, prev x = some u → ∃ w, g.weight u x = some w ∧ dist x = dist u + w) →
    p.head? = some a → p.getLast? = some v → pathWeight g p = dist v - dist a
  | [], _, _, _, _, hh, _ => by simp at hh
  | [x], a, v, _, _, hh, hl => by
    simp at hh hl; subst hh; subst hl
    simp [pathWeight]
  | x :: y :: rest, a, v, hc, hw, hh, hl => by
    have hl' : (y :: rest).getLast? = some v := by
      simpa [List.getLast?_cons_cons] using hl
    simp at hh; subst hh
    have ih := pchain_weight (g := g) (dist := dist) (y :: rest) y v hc.2
      (fun z hz => hw z (List.mem_cons_of_mem _ hz)) rfl hl'
    obtain ⟨w, hw1, hw2⟩ := hw y (by simp) x hc.1
    simp only [pathWeight, hw1, Option.getD_some]
    omega

end ArgMapper.DijkstraProofs
