import ArgMapper.Proofs.TarjanInv
/-!
# Tarjan's SCC algorithm: the loop over the successors of a vertex

`FoldInv` is the invariant of the `foldl (sccEdge …)` in `sccVisit … x a`, where `done` is the list of
successors already processed.
-/
namespace ArgMapper
namespace Tarjan
open AGraph Traverse TraverseReach
set_option linter.unusedSectionVars false
variable {α : Type} [DecidableEq α]

theorem reach_edge {g : AGraph α} {a b : α} (h : g.hasEdge a b = true) : Reach g a b :=
  Reach.step (Reach.refl a) h

theorem nil_of_eq_append_self {s l : List α} (h : l = s ++ l) : s = [] := by
  have := congrArg List.length h
  simp only [List.length_append] at this
  exact List.eq_nil_of_length_eq_zero (by omega)

/-- the contract of the recursive calls -/
def RecSpec (g : AGraph α) (n : Nat) : Prop :=
  ∀ gr v a, Pre g gr n v a → Post g gr v a (sccVisit g n v a)

structure FoldInv (g : AGraph α) (n : Nat) (x : α) (a : SccAcct α) (gr : List α) (done : List α)
    (st : SccAcct α × Nat) : Prop where
  inv : Inv g (x :: gr) st.1
  ext : Ext (push x a) st.1
  fuel : whiteCount g st.1 < n
  le : st.2 ≤ a.next
  reach : ∃ y ∈ st.1.stack, st.2 = idxOf st.1 y ∧ Reach g x y
  done_vis : ∀ t ∈ done, idxOf st.1 t ≠ 0
  done_edge : ∀ t ∈ done, t ∈ a.stack → st.2 ≤ idxOf st.1 t
  xedge : ∀ s, st.1.stack = s ++ x :: a.stack → ∀ p ∈ s, ∀ y, g.hasEdge p y = true → y ∈ a.stack →
    st.2 ≤ idxOf st.1 y

theorem foldInv_init {g : AGraph α} {n : Nat} {x : α} {a : SccAcct α} {gr : List α}
    (hp : Pre g gr (n + 1) x a) : FoldInv g n x a gr [] (push x a, a.next) := by
  have hpos := hp.inv.next_pos
  refine ⟨inv_push hp, Ext.refl _, ?_, Nat.le_refl _, ?_, ?_, ?_, ?_⟩
  · have h1 : whiteCount g (push x a) < whiteCount g a :=
      whiteCount_lt g (fun _ hy => (ext_push hp.white).vis hy) hp.vmem hp.white
        (by rw [idxOf_push_self]; omega)
    have := hp.fuel
    show whiteCount g (push x a) < n
    omega
  · exact ⟨x, by simp, (idxOf_push_self x a).symm, Reach.refl _⟩
  · intro t ht; cases ht
  · intro t ht; cases ht
  · intro s hs p hp'
    have : s = [] := nil_of_eq_append_self (l := x :: a.stack) (by simpa using hs)
    subst this; cases hp'

theorem foldInv_step {g : AGraph α} (hwf : g.WF) {n : Nat} {x : α} {a : SccAcct α} {gr : List α}
    (hp : Pre g gr (n + 1) x a) (hrec : RecSpec g n) {done : List α} {st : SccAcct α × Nat}
    (F : FoldInv g n x a gr done st) {t : α} (he : g.hasEdge x t = true) :
    FoldInv g n x a gr (done ++ [t]) (sccEdge (sccVisit g n) st t) := by
  have hnext : a.next + 1 ≤ st.1.next := F.ext.next_le
  have hle := F.le
  have hold : ∀ y ∈ a.stack, y ∈ st.1.stack := fun y hy =>
    F.ext.stack_mem (by simp [hy])
  rw [sccEdge_eq]
  by_cases hw : idxOf st.1 t = 0
  · rw [if_pos hw]
    have hpre : Pre g (x :: gr) n t st.1 := by
      refine ⟨F.inv, (hasEdge_verts hwf he).2, hw, ?_, F.fuel⟩
      intro y hy
      rcases List.mem_cons.mp hy with rfl | hy
      · exact reach_edge he
      · exact reach_trans (hp.access y hy) (reach_edge he)
    have P := hrec (x :: gr) t st.1 hpre
    generalize sccVisit g n t st.1 = r at P
    refine ⟨P.inv, F.ext.trans P.ext, ?_, ?_, ?_, ?_, ?_, ?_⟩
    · exact Nat.lt_of_le_of_lt (P.ext.whiteCount_le g) F.fuel
    · show min st.2 r.2 ≤ a.next
      omega
    · obtain ⟨y, hy, hye, hyr⟩ := F.reach
      show ∃ y ∈ r.1.stack, min st.2 r.2 = idxOf r.1 y ∧ Reach g x y
      by_cases hlt : r.2 < st.2
      · obtain ⟨y', hy', hye', hyr'⟩ := P.reach (by omega)
        exact ⟨y', hy', by rw [← hye']; omega, reach_trans (reach_edge he) hyr'⟩
      · refine ⟨y, P.ext.stack_mem hy, ?_, hyr⟩
        rw [P.ext.idx_pres y (F.inv.stack_vis hy), ← hye]; omega
    · intro t' ht'
      show idxOf r.1 t' ≠ 0
      rcases List.mem_append.mp ht' with h | h
      · exact P.ext.vis (F.done_vis t' h)
      · simp only [List.mem_singleton] at h
        subst h
        rw [P.vis]
        have := F.inv.next_pos
        omega
    · intro t' ht' hta
      show min st.2 r.2 ≤ idxOf r.1 t'
      rcases List.mem_append.mp ht' with h | h
      · have := F.done_edge t' h hta
        rw [P.ext.idx_pres t' (F.done_vis t' h)]
        omega
      · simp only [List.mem_singleton] at h
        subst h
        exact absurd hw (F.inv.stack_vis (hold _ hta))
    · intro s hs p hps y hpy hya
      show min st.2 r.2 ≤ idxOf r.1 y
      change r.1.stack = s ++ x :: a.stack at hs
      obtain ⟨s0, hs0⟩ := F.ext.stack
      simp only [push_stack] at hs0
      obtain ⟨st', hst'⟩ := P.ext.stack
      have hs' : s = st' ++ s0 := by
        apply List.append_cancel_right (bs := x :: a.stack)
        rw [← hs, hst', hs0]; simp
      rw [hs'] at hps
      rcases List.mem_append.mp hps with h | h
      · have := P.xedge st' hst' p h y hpy (hold y hya)
        omega
      · have := F.xedge s0 hs0 p h y hpy hya
        rw [P.ext.idx_pres y (F.inv.stack_vis (hold y hya))]
        omega
  · rw [if_neg hw]
    by_cases hts : t ∈ st.1.stack
    · rw [if_pos hts]
      refine ⟨F.inv, F.ext, F.fuel, ?_, ?_, ?_, ?_, ?_⟩
      · show min st.2 (idxOf st.1 t) ≤ a.next
        omega
      · obtain ⟨y, hy, hye, hyr⟩ := F.reach
        show ∃ y ∈ st.1.stack, min st.2 (idxOf st.1 t) = idxOf st.1 y ∧ Reach g x y
        by_cases hlt : idxOf st.1 t < st.2
        · exact ⟨t, hts, by omega, reach_edge he⟩
        · exact ⟨y, hy, by omega, hyr⟩
      · intro t' ht'
        show idxOf st.1 t' ≠ 0
        rcases List.mem_append.mp ht' with h | h
        · exact F.done_vis t' h
        · simp only [List.mem_singleton] at h
          subst h; exact hw
      · intro t' ht' hta
        show min st.2 (idxOf st.1 t) ≤ idxOf st.1 t'
        rcases List.mem_append.mp ht' with h | h
        · have := F.done_edge t' h hta
          omega
        · simp only [List.mem_singleton] at h
          subst h; omega
      · intro s hs p hps y hpy hya
        show min st.2 (idxOf st.1 t) ≤ idxOf st.1 y
        have := F.xedge s hs p hps y hpy hya
        omega
    · rw [if_neg hts]
      refine ⟨F.inv, F.ext, F.fuel, F.le, F.reach, ?_, ?_, F.xedge⟩
      · intro t' ht'
        rcases List.mem_append.mp ht' with h | h
        · exact F.done_vis t' h
        · simp only [List.mem_singleton] at h
          subst h; exact hw
      · intro t' ht' hta
        rcases List.mem_append.mp ht' with h | h
        · exact F.done_edge t' h hta
        · simp only [List.mem_singleton] at h
          subst h; exact absurd (hold _ hta) hts

theorem foldInv_fold {g : AGraph α} (hwf : g.WF) {n : Nat} {x : α} {a : SccAcct α} {gr : List α}
    (hp : Pre g gr (n + 1) x a) (hrec : RecSpec g n) : ∀ (ts done : List α) (st : SccAcct α × Nat),
    FoldInv g n x a gr done st → (∀ t ∈ ts, g.hasEdge x t = true) →
    FoldInv g n x a gr (done ++ ts) (ts.foldl (sccEdge (sccVisit g n)) st)
  | [], done, st, F, _ => by simpa using F
  | t :: ts, done, st, F, h => by
    have F' := foldInv_step hwf hp hrec F (h t (by simp))
    have := foldInv_fold hwf hp hrec ts (done ++ [t]) _ F' (fun t' ht' => h t' (by simp [ht']))
    simpa using this

theorem foldInv_outs {g : AGraph α} (hwf : g.WF) {n : Nat} {x : α} {a : SccAcct α} {gr : List α}
    (hp : Pre g gr (n + 1) x a) (hrec : RecSpec g n) :
    FoldInv g n x a gr (g.outs x) ((g.outs x).foldl (sccEdge (sccVisit g n)) (push x a, a.next)) := by
  have := foldInv_fold hwf hp hrec (g.outs x) [] _ (foldInv_init hp) (fun t ht => mem_outs.mp ht)
  simpa using this

end Tarjan
end ArgMapper
