import ArgMapper.Spec.Flow
/-!
# Helper lemmas for C01: the matching table is closed under flow along the edge rules
-/
namespace ArgMapper.FlowCompat
open ArgMapper

/-- the end point of a rule flow is a data vertex -/
theorem ruleFlow_isData {e : TypeEnv} {o x : Vtx} (h : RuleFlow e o x) : x.isData = true := by
  cases h with
  | here hd => exact hd
  | step hd _ _ => exact hd

theorem not_ruleFlow_root {e : TypeEnv} {o : Vtx} (h : RuleFlow e o .root) : False := by
  have := ruleFlow_isData h
  simp [Vtx.isData, Vtx.isValue, Vtx.isArg, Vtx.isOut] at this

theorem not_ruleFlow_func {e : TypeEnv} {o : Vtx} {k : Nat} (h : RuleFlow e o (.func k)) : False := by
  have := ruleFlow_isData h
  simp [Vtx.isData, Vtx.isValue, Vtx.isArg, Vtx.isOut] at this

/-- `Flow` in a graph whose edges obey the rules is `RuleFlow` -/
theorem flow_ruleFlow {e : TypeEnv} {g : AGraph Vtx} (hg : EdgeOK e g) {o x : Vtx} (h : Flow g o x) :
    RuleFlow e o x := by
  induction h with
  | here hd => exact .here hd
  | step hd he _ ih => exact .step hd (hg _ _ he) ih

/-- what can flow to an out vertex -/
def OutReach (e : TypeEnv) (o : Vtx) (i : Nat) (s : String) : Prop :=
  ∃ t' s', o = .out t' s' ∧ ((t' = i ∧ s' = s) ∨ (e.isIface i = true ∧ e.impl t' i = true ∧ t' ≠ i))

theorem ruleFlow_out_aux {e : TypeEnv} (ht : ImplTrans e) (ha : ImplAntisym e) {o x : Vtx}
    (h : RuleFlow e o x) : ∀ i s, x = .out i s → OutReach e o i s := by
  induction h with
  | here _ => intro i s hx; exact ⟨i, s, hx, .inl ⟨rfl, rfl⟩⟩
  | @step x y hd he hr ih =>
    intro i s hx
    subst hx
    cases he with
    | inputRoot _ _ => exact (not_ruleFlow_root hr).elim
    | outputFunc _ _ _ => exact (not_ruleFlow_func hr).elim
    | redefineRoot _ _ => exact (not_ruleFlow_root hr).elim
    | ifaceOut _ _ t' s' hi him hne =>
      obtain ⟨t'', s'', ho, hc⟩ := ih t' s' rfl
      refine ⟨t'', s'', ho, .inr ?_⟩
      rcases hc with ⟨h1, _⟩ | ⟨hi', him', hne'⟩
      · subst h1; exact ⟨hi, him, hne⟩
      · refine ⟨hi, ht _ _ _ him' him, ?_⟩
        intro heq
        subst heq
        exact hne (ha t' t'' hi' hi him him')

theorem ruleFlow_out {e : TypeEnv} (ht : ImplTrans e) (ha : ImplAntisym e) {o : Vtx} {i : Nat} {s : String}
    (h : RuleFlow e o (.out i s)) : OutReach e o i s :=
  ruleFlow_out_aux ht ha h i s rfl

/-- what can flow to a value vertex -/
def ValueReach (e : TypeEnv) (o : Vtx) (n : String) (t : Nat) (s : String) : Prop :=
  o = .value n t s ∨ (∃ s', o = .value n t s' ∧ s = "" ∧ s' ≠ "") ∨
  (∃ t' s', o = .out t' s' ∧ ((t' = t ∧ s' = "") ∨ (e.isIface t = true ∧ e.impl t' t = true ∧ t' ≠ t)))

theorem ruleFlow_value_aux {e : TypeEnv} (ht : ImplTrans e) (ha : ImplAntisym e) {o x : Vtx}
    (h : RuleFlow e o x) : ∀ n t s, x = .value n t s → ValueReach e o n t s := by
  induction h with
  | here _ => intro n t s hx; exact .inl hx
  | @step x y hd he hr ih =>
    intro n t s hx
    subst hx
    cases he with
    | inputRoot _ _ => exact (not_ruleFlow_root hr).elim
    | outputFunc _ _ _ => exact (not_ruleFlow_func hr).elim
    | redefineRoot _ _ => exact (not_ruleFlow_root hr).elim
    | valueOut _ _ _ =>
      obtain ⟨t', s', ho, hc⟩ := ruleFlow_out ht ha hr
      exact .inr (.inr ⟨t', s', ho, hc⟩)
    | valueValue _ _ s' hs' =>
      rcases ih n t s' rfl with h1 | ⟨s'', _, h2, _⟩ | h3
      · exact .inr (.inl ⟨s', h1, rfl, hs'⟩)
      · exact (hs' h2).elim
      · exact .inr (.inr h3)

theorem ruleFlow_value {e : TypeEnv} (ht : ImplTrans e) (ha : ImplAntisym e) {o : Vtx} {n : String} {t : Nat}
    {s : String} (h : RuleFlow e o (.value n t s)) : ValueReach e o n t s :=
  ruleFlow_value_aux ht ha h n t s rfl

theorem compat_of_outReach_sub {e : TypeEnv} {o : Vtx} {n : String} {t : Nat} {s s' : String}
    (h : OutReach e o t s') (hs : s = s' ∨ s = "" ∨ s' = "") :
    compatB e { name := n, ty := t, sub := s } o.label = true := by
  obtain ⟨t', s'', ho, hc⟩ := h
  subst ho
  rcases hc with ⟨h1, h2⟩ | ⟨hi, him, hne⟩
  · subst h1; subst h2
    rcases hs with h | h | h <;> simp [compatB, Vtx.label, h]
  · simp [compatB, Vtx.label, hi, him, hne]

theorem compat_value {e : TypeEnv} (ht : ImplTrans e) (ha : ImplAntisym e) {o : Vtx} {n : String} {t : Nat}
    {s : String} (h : RuleFlow e o (.value n t s)) :
    compatB e { name := n, ty := t, sub := s } o.label = true := by
  rcases ruleFlow_value ht ha h with h1 | ⟨s', h2, hs, _⟩ | ⟨t', s', ho, hc⟩
  · subst h1; simp [compatB, Vtx.label]
  · subst h2; subst hs; simp [compatB, Vtx.label]
  · exact compat_of_outReach_sub (s' := "") ⟨t', s', ho, hc⟩ (.inr (.inr rfl))

theorem compat_arg {e : TypeEnv} (ht : ImplTrans e) (ha : ImplAntisym e) {o : Vtx} {t : Nat}
    {s : String} (ho : o.isOrigin = true) (h : RuleFlow e o (.arg t s)) :
    compatB e { name := "", ty := t, sub := s } o.label = true := by
  cases h with
  | here _ => simp [Vtx.isOrigin, Vtx.isValue, Vtx.isOut] at ho
  | step hd he hr =>
    cases he with
    | redefineRoot _ _ => exact (not_ruleFlow_root hr).elim
    | inputRoot _ _ => exact (not_ruleFlow_root hr).elim
    | outputFunc _ _ _ => exact (not_ruleFlow_func hr).elim
    | argValue n _ s' _ hss =>
      rcases ruleFlow_value ht ha hr with h1 | ⟨s'', h2, hs, _⟩ | ⟨t', s'', ho', hc⟩
      · subst h1
        rcases hss with h | h <;> simp [compatB, Vtx.label, h]
      · subst h2; subst hs
        have : s = "" := by rcases hss with h | h <;> exact h
        simp [compatB, Vtx.label, this]
      · exact compat_of_outReach_sub (s' := "") ⟨t', s'', ho', hc⟩ (.inr (.inr rfl))
    | argOut _ _ => exact compat_of_outReach_sub (ruleFlow_out ht ha hr) (.inl rfl)
    | argOutSub _ _ s' hss =>
      refine compat_of_outReach_sub (ruleFlow_out ht ha hr) ?_
      rcases hss with ⟨h, _⟩ | ⟨_, h⟩
      · exact .inr (.inl h)
      · exact .inr (.inr h)

/-- the matching table is closed under flow along the edge rules -/
theorem flow_compat (e : TypeEnv) (ht : ImplTrans e) (ha : ImplAntisym e) (o x : Vtx)
    (ho : o.isOrigin = true) (hx : x.isValue = true ∨ x.isArg = true) (h : RuleFlow e o x) :
    compatB e x.label o.label = true := by
  cases x with
  | value n t s => exact compat_value ht ha h
  | arg t s => exact compat_arg ht ha ho h
  | root => simp [Vtx.isValue, Vtx.isArg] at hx
  | out _ _ => simp [Vtx.isValue, Vtx.isArg] at hx
  | func _ => simp [Vtx.isValue, Vtx.isArg] at hx

/-- the vertex of a parameter label is a value or arg vertex -/
theorem Label.vertex_isParam (p : Label) : p.vertex.isValue = true ∨ p.vertex.isArg = true := by
  unfold Label.vertex
  split
  · exact .inl rfl
  · exact .inr rfl

/-- the vertex of a parameter label carries that label -/
theorem Label.vertex_label (p : Label) : p.vertex.label = p := by
  unfold Label.vertex
  split
  · rfl
  · next h =>
    have h' : p.name = "" := by simpa using h
    cases p
    simp only [Vtx.label] at *
    simp [h']

end ArgMapper.FlowCompat
