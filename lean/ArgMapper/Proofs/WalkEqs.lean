import ArgMapper.Model.Reach
/-!
# Equational form of `walkStep` (shared by the C01 and C04 helper files)
-/
namespace ArgMapper.WalkEqs
open ArgMapper

/-- the copy a value / out vertex makes from the preceding out vertex -/
def copyFrom (s : CallSt) (prev : Option Vtx) (v : Vtx) : CallSt :=
  match prev with
  | some (.out t st) => s.set v (s.get (.out t st))
  | _ => s

/-- the write an arg vertex makes from `last` -/
def argStore (c : Ctx) (s : CallSt) (t : Nat) (v : Vtx) : CallSt :=
  match s.last with
  | some x => if c.env.assignable x.ty t then s.set v (some x) else s
  | none => s

/-- the write a value vertex makes on being entered: the copy from a preceding out vertex, or (repair of
F22, `c.hopCopies`) the value held by a preceding named-value vertex -/
def valCopy (c : Ctx) (s : CallSt) (prev : Option Vtx) (v : Vtx) : CallSt :=
  match prev with
  | some (.out t st) => s.set v (s.get (.out t st))
  | some (.value n t st) =>
    match (if c.hopCopies then s.get (.value n t st) else none) with
    | some x => s.set v (some x)
    | none => s
  | _ => s

theorem valCopy_none (c : Ctx) (s : CallSt) (v : Vtx) : valCopy c s none v = s := rfl

theorem valCopy_out (c : Ctx) (s : CallSt) (t : Nat) (st : String) (v : Vtx) :
    valCopy c s (some (.out t st)) v = copyFrom s (some (.out t st)) v := rfl

/-- entered from anything but a named-value vertex, a value vertex behaves as before the repair -/
theorem valCopy_eq_copyFrom (c : Ctx) (s : CallSt) (prev : Option Vtx) (v : Vtx)
    (h : ∀ n t st, prev ≠ some (.value n t st)) : valCopy c s prev v = copyFrom s prev v := by
  cases prev with
  | none => rfl
  | some p => cases p <;> first | rfl | exact absurd rfl (h _ _ _)

/-- without the repair a value vertex behaves as before -/
theorem valCopy_noHop (c : Ctx) (s : CallSt) (prev : Option Vtx) (v : Vtx) (hc : c.hopCopies = false) :
    valCopy c s prev v = copyFrom s prev v := by
  cases prev with
  | none => rfl
  | some p => cases p <;> first | rfl | (unfold valCopy copyFrom; simp [hc])

theorem valCopy_hop_some (c : Ctx) (s : CallSt) (n : String) (t : Nat) (st : String) (v : Vtx) {x : PVal}
    (hc : c.hopCopies = true) (hg : s.get (.value n t st) = some x) :
    valCopy c s (some (.value n t st)) v = s.set v (some x) := by
  unfold valCopy; simp [hc, hg]

theorem valCopy_hop_none (c : Ctx) (s : CallSt) (n : String) (t : Nat) (st : String) (v : Vtx)
    (hg : c.hopCopies = false ∨ s.get (.value n t st) = none) :
    valCopy c s (some (.value n t st)) v = s := by
  unfold valCopy
  rcases hg with hg | hg <;> simp [hg]

/-- the two shapes of `valCopy`: the pre-repair copy, or the hop write of the previous named vertex's value -/
theorem valCopy_cases (c : Ctx) (s : CallSt) (prev : Option Vtx) (v : Vtx) :
    valCopy c s prev v = copyFrom s prev v ∨
    ∃ n t st x, prev = some (.value n t st) ∧ c.hopCopies = true ∧ s.get (.value n t st) = some x ∧
      valCopy c s prev v = s.set v (some x) := by
  cases prev with
  | none => exact .inl rfl
  | some p =>
    cases p with
    | value n t st =>
      cases hc : c.hopCopies with
      | false => exact .inl (valCopy_noHop c s _ v hc)
      | true =>
        cases hg : s.get (.value n t st) with
        | none => exact .inl (valCopy_hop_none c s n t st v (.inr hg))
        | some x => exact .inr ⟨n, t, st, x, rfl, rfl, hg, valCopy_hop_some c s n t st v hc hg⟩
    | _ => exact .inl rfl

variable (c : Ctx) (rec : Vtx → CallSt → Except RErr ArgMap × CallSt)

theorem walkStep_err {w : WalkSt} {e : RErr} (h : w.err = some e) (v : Vtx) : walkStep c rec w v = w := by
  unfold walkStep; rw [h]

theorem walkStep_root {w : WalkSt} (h : w.err = none) :
    walkStep c rec w .root = { w with prev := some .root } := by
  unfold walkStep; rw [h]

theorem walkStep_value {w : WalkSt} (h : w.err = none) (n : String) (t : Nat) (u : String) :
    walkStep c rec w (.value n t u) =
      { w with
        s := { valCopy c w.s w.prev (.value n t u) with
               last := if c.publishAfterUpdate then (valCopy c w.s w.prev (.value n t u)).get (.value n t u)
                       else w.s.get (.value n t u) },
        prev := some (.value n t u),
        final := ((valCopy c w.s w.prev (.value n t u)).get (.value n t u)).or w.final } := by
  unfold walkStep; rw [h]
  unfold valCopy
  cases hp : w.prev with
  | none => dsimp only [CallSt.get]; cases mapGet w.s.store (Vtx.value n t u) <;> rfl
  | some p =>
    cases p with
    | value n' t' u' =>
      dsimp only
      cases hh : (if c.hopCopies = true then w.s.get (Vtx.value n' t' u') else none) with
      | none => dsimp only [CallSt.get]; cases mapGet w.s.store (Vtx.value n t u) <;> rfl
      | some x =>
        dsimp only [CallSt.get]
        cases mapGet (w.s.set (Vtx.value n t u) (some x)).store (Vtx.value n t u) <;> rfl
    | out t' u' =>
      dsimp only [CallSt.get]
      cases mapGet (w.s.set (Vtx.value n t u) (mapGet w.s.store (Vtx.out t' u'))).store (Vtx.value n t u) <;> rfl
    | _ => dsimp only [CallSt.get]; cases mapGet w.s.store (Vtx.value n t u) <;> rfl

theorem walkStep_arg {w : WalkSt} (h : w.err = none) (t : Nat) (u : String) :
    walkStep c rec w (.arg t u) =
      { w with s := argStore c w.s t (.arg t u), prev := some (.arg t u),
               final := (argStore c w.s t (.arg t u)).get (.arg t u) } := by
  unfold walkStep; rw [h]; rfl

theorem walkStep_out {w : WalkSt} (h : w.err = none) (t : Nat) (u : String) :
    walkStep c rec w (.out t u) =
      { w with s := { copyFrom w.s w.prev (.out t u) with last := (copyFrom w.s w.prev (.out t u)).get (.out t u) },
               prev := some (.out t u) } := by
  unfold walkStep; rw [h]
  unfold copyFrom
  cases hp : w.prev with
  | none => rfl
  | some p => cases p <;> rfl

theorem walkStep_func_none {w : WalkSt} (h : w.err = none) (k : Nat) (hf : c.funcOf k = none) :
    walkStep c rec w (.func k) = { w with err := some (.panic .unknownVertex) } := by
  unfold walkStep; rw [h]; dsimp only; rw [hf]

theorem walkStep_func_recErr {w : WalkSt} (h : w.err = none) (k : Nat) {f : FuncDesc} (hf : c.funcOf k = some f)
    {e : RErr} {s1 : CallSt} (hr : rec (.func k) w.s = (.error e, s1)) :
    walkStep c rec w (.func k) = { w with s := s1, err := some e } := by
  unfold walkStep; rw [h]; dsimp only; rw [hf]; dsimp only; rw [hr]

theorem walkStep_func_cdErr {w : WalkSt} (h : w.err = none) (k : Nat) {f : FuncDesc} (hf : c.funcOf k = some f)
    {am : ArgMap} {s1 : CallSt} (hr : rec (.func k) w.s = (.ok am, s1))
    {e : RErr} {s2 : CallSt} (hc : callDirect c f am s1 = (.error e, s2)) :
    walkStep c rec w (.func k) = { w with s := s2, err := some e } := by
  unfold walkStep; rw [h]; dsimp only; rw [hf]; dsimp only; rw [hr]; dsimp only; rw [hc]

theorem walkStep_func_funcErr {w : WalkSt} (h : w.err = none) (k : Nat) {f : FuncDesc} (hf : c.funcOf k = some f)
    {am : ArgMap} {s1 : CallSt} (hr : rec (.func k) w.s = (.ok am, s1))
    {r : BehOut} {unw : Bool} {s2 : CallSt} (hc : callDirect c f am s1 = (.ok (r, unw), s2))
    {e : Nat} (he : r.err = some e) :
    walkStep c rec w (.func k) = { w with s := s2, err := some (.funcErr e) } := by
  unfold walkStep; rw [h]; dsimp only; rw [hf]; dsimp only; rw [hr]; dsimp only; rw [hc]; dsimp only
  split
  · rename_i e' he'; rw [he] at he'; cases he'; rfl
  · rename_i he'; rw [he] at he'; cases he'

theorem walkStep_func_outErr {w : WalkSt} (h : w.err = none) (k : Nat) {f : FuncDesc} (hf : c.funcOf k = some f)
    {am : ArgMap} {s1 : CallSt} (hr : rec (.func k) w.s = (.ok am, s1))
    {r : BehOut} {unw : Bool} {s2 : CallSt} (hc : callDirect c f am s1 = (.ok (r, unw), s2))
    (he : r.err = none) {e : RErr} (ho : outputValues c f r unw s2 = .error e) :
    walkStep c rec w (.func k) = { w with s := s2, err := some e } := by
  unfold walkStep; rw [h]; dsimp only; rw [hf]; dsimp only; rw [hr]; dsimp only; rw [hc]; dsimp only
  split
  · rename_i e' he'; rw [he] at he'; cases he'
  · rw [ho]

theorem walkStep_func_ok {w : WalkSt} (h : w.err = none) (k : Nat) {f : FuncDesc} (hf : c.funcOf k = some f)
    {am : ArgMap} {s1 : CallSt} (hr : rec (.func k) w.s = (.ok am, s1))
    {r : BehOut} {unw : Bool} {s2 : CallSt} (hc : callDirect c f am s1 = (.ok (r, unw), s2))
    (he : r.err = none) {s3 : CallSt} (ho : outputValues c f r unw s2 = .ok s3) :
    walkStep c rec w (.func k) = { w with s := s3, prev := some (.func k) } := by
  unfold walkStep; rw [h]; dsimp only; rw [hf]; dsimp only; rw [hr]; dsimp only; rw [hc]; dsimp only
  split
  · rename_i e' he'; rw [he] at he'; cases he'
  · rw [ho]


theorem walkStep_err_mono (w : WalkSt) (v : Vtx) (h : (walkStep c rec w v).err = none) : w.err = none := by
  cases herr : w.err with
  | none => rfl
  | some e => rw [walkStep_err c rec herr, herr] at h; cases h

theorem walkStep_prev (w : WalkSt) (v : Vtx) (h : (walkStep c rec w v).err = none) :
    (walkStep c rec w v).prev = some v := by
  have herr := walkStep_err_mono c rec w v h
  cases v with
  | root => rw [walkStep_root c rec herr]
  | value n t u => rw [walkStep_value c rec herr]
  | arg t u => rw [walkStep_arg c rec herr]
  | out t u => rw [walkStep_out c rec herr]
  | func k =>
    cases hfo : c.funcOf k with
    | none => rw [walkStep_func_none c rec herr k hfo] at h; cases h
    | some f =>
      rcases hrs : rec (Vtx.func k) w.s with ⟨e | am, s1⟩
      · rw [walkStep_func_recErr c rec herr k hfo hrs] at h; cases h
      · rcases hcs : callDirect c f am s1 with ⟨e | ⟨r, unw⟩, s2⟩
        · rw [walkStep_func_cdErr c rec herr k hfo hrs hcs] at h; cases h
        · cases hre : r.err with
          | some ε => rw [walkStep_func_funcErr c rec herr k hfo hrs hcs hre] at h; cases h
          | none =>
            cases hov : outputValues c f r unw s2 with
            | error e => rw [walkStep_func_outErr c rec herr k hfo hrs hcs hre hov] at h; cases h
            | ok s3 => rw [walkStep_func_ok c rec herr k hfo hrs hcs hre hov]

end ArgMapper.WalkEqs
