import ArgMapper.Model.Sig
/-!
# Kernel-evaluable mirrors of the string functions used by `parseTag`

`String.splitOn` is defined by well-founded recursion and does not reduce by `decide`/`rfl`.
`splitOnC` is a fuel-driven structural copy which is *provably equal* to `String.splitOn` for all
arguments (when the fuel runs out it falls back to the original), so closed instances can be
evaluated by `decide +kernel` after rewriting with `splitOn_eq_C`.
-/
namespace ArgMapper

open String in
def splitOnAuxF : Nat → String → String → Pos.Raw → Pos.Raw → Pos.Raw → List String → Option (List String)
  | 0, _, _, _, _, _, _ => none
  | n + 1, s, sep, b, i, j, r =>
    if i.atEnd s then
      some ((b.extract s i :: r).reverse)
    else
      if i.get s == j.get sep then
        if (j.next sep).atEnd sep then
          splitOnAuxF n s sep (i.next s) (i.next s) 0 (b.extract s ((i.next s).unoffsetBy (j.next sep)) :: r)
        else
          splitOnAuxF n s sep b (i.next s) (j.next sep) r
      else
        splitOnAuxF n s sep b ((i.unoffsetBy j).next s) 0 r

theorem splitOnAuxF_sound : ∀ (n : Nat) (s sep : String) (b i j : String.Pos.Raw) (r res : List String),
    splitOnAuxF n s sep b i j r = some res → String.splitOnAux s sep b i j r = res := by
  intro n
  induction n with
  | zero => intro s sep b i j r res h; simp [splitOnAuxF] at h
  | succ n ih =>
    intro s sep b i j r res h
    rw [String.splitOnAux]
    simp only [splitOnAuxF] at h
    split at h
    · next h1 => simp only [h1, if_true]; simpa using h
    · next h1 =>
      simp only [h1]
      split at h
      · next h2 =>
        simp only [h2, if_true]
        split at h
        · next h3 => simp only [h3, if_true]; exact ih _ _ _ _ _ _ _ h
        · next h3 => simp only [h3]; exact ih _ _ _ _ _ _ _ h
      · next h2 => simp only [h2]; exact ih _ _ _ _ _ _ _ h

def splitOnC (s sep : String) : List String :=
  if sep == "" then [s]
  else (splitOnAuxF ((s.utf8ByteSize + 2) * (sep.utf8ByteSize + 2)) s sep 0 0 0 []).getD
    (String.splitOnAux s sep 0 0 0 [])

theorem splitOn_eq_C (s sep : String) : s.splitOn sep = splitOnC s sep := by
  unfold String.splitOn splitOnC
  split
  · rfl
  · cases h : splitOnAuxF ((s.utf8ByteSize + 2) * (sep.utf8ByteSize + 2)) s sep 0 0 0 [] with
    | none => rfl
    | some res => exact splitOnAuxF_sound _ _ _ _ _ _ _ _ h

def splitOptC (v : String) : String × String :=
  match splitOnC v "=" with
  | [] => (v, "")
  | [k] => (k, "")
  | k :: rest => (k, "=".intercalate rest)

theorem splitOpt_eq_C : splitOpt = splitOptC := by
  funext v; unfold splitOpt splitOptC; rw [splitOn_eq_C]; rfl

def parseTagC (tag : String) : TagInfo :=
  if tag = "" then { nameOverride := "", typeOnly := false, subtype := "" }
  else
    let parts := splitOnC tag ","
    let opts := (parts.drop 1).map splitOptC
    { nameOverride := parts.headD "",
      typeOnly := opts.any (fun o => o.1 == "typeOnly"),
      subtype := ((opts.reverse.find? (fun o => o.1 == "subtype")).map (·.2)).getD "" }

theorem parseTag_eq_C : parseTag = parseTagC := by
  funext tag; unfold parseTag parseTagC; rw [splitOn_eq_C, splitOpt_eq_C]

def fieldLabelC (f : Field) : Label :=
  let ti := parseTagC f.tag
  let nm := lower (if ti.nameOverride ≠ "" then ti.nameOverride else f.name)
  { name := if ti.typeOnly then "" else nm, ty := f.ty, sub := ti.subtype }

theorem fieldLabel_eq_C : fieldLabel = fieldLabelC := by
  funext f; unfold fieldLabel fieldLabelC; rw [parseTag_eq_C]

theorem parseTag_typeOnly : parseTag ",typeOnly" = ⟨"", true, ""⟩ := by
  rw [parseTag_eq_C]; decide +kernel

end ArgMapper
