import ArgMapper.Proofs.RedefCallableMono
/-!
# The redefined function is callable (helper lemmas for C08c)

* `withDecl`: the builder of the call the redefined function makes; it only touches the named and the typed
  map, keeps every entry whose key it does not write, and holds an entry for every declared input
  (when the declared names are pairwise distinct after lower-casing);
* a successful planning run resolves every parameter of the target along a real root-first path of the
  Redefine graph whose input is supplied or declared (`RedefC.reach_top'`); every other edge of the path is
  an edge of the unpruned `Call` graph, which only grows with the supplied values (`pre_mono`): the parameter
  survives pruning in the `Call` graph of the new builder (`callable_unsat`).
-/
set_option linter.unusedSectionVars false
set_option linter.unusedVariables false
namespace ArgMapper.RedefC
open ArgMapper Generated

/-! ### the builder of the redefined function's call -/

def declStep (idOf : Label → Nat) (b : Builder) (l : Label) : Builder :=
  setNamed b l.name (some { ty := l.ty, id := idOf l })

def withDecl (b : Builder) (ls : List Label) (idOf : Label → Nat) : Builder :=
  ls.foldl (declStep idOf) b

theorem declStep_named (idOf : Label → Nat) (b : Builder) (l : Label) (hn : l.name ≠ "") :
    declStep idOf b l = { b with named := mapSet b.named (lower l.name) { ty := l.ty, id := idOf l } } := by
  unfold declStep setNamed
  rw [if_neg hn]

theorem declStep_typed (idOf : Label → Nat) (b : Builder) (l : Label) (hn : l.name = "") :
    declStep idOf b l = { b with typed := mapSet b.typed l.ty { ty := l.ty, id := idOf l } } := by
  unfold declStep setNamed
  rw [if_pos hn]
  rfl

theorem declStep_rest (idOf : Label → Nat) (b : Builder) (l : Label) :
    (declStep idOf b l).convs = b.convs ∧ (declStep idOf b l).namedSub = b.namedSub ∧
    (declStep idOf b l).typedSub = b.typedSub := by
  by_cases hn : l.name = ""
  · rw [declStep_typed idOf b l hn]; exact ⟨rfl, rfl, rfl⟩
  · rw [declStep_named idOf b l hn]; exact ⟨rfl, rfl, rfl⟩

theorem withDecl_rest (idOf : Label → Nat) (ls : List Label) (b : Builder) :
    (withDecl b ls idOf).convs = b.convs ∧ (withDecl b ls idOf).namedSub = b.namedSub ∧
    (withDecl b ls idOf).typedSub = b.typedSub := by
  unfold withDecl
  induction ls generalizing b with
  | nil => exact ⟨rfl, rfl, rfl⟩
  | cons l ls ih =>
    rw [List.foldl_cons]
    obtain ⟨h1, h2, h3⟩ := ih (declStep idOf b l)
    obtain ⟨k1, k2, k3⟩ := declStep_rest idOf b l
    exact ⟨h1.trans k1, h2.trans k2, h3.trans k3⟩

theorem mem_mapSet_of_ne {κ β : Type} [DecidableEq κ] {m : List (κ × β)} {k : κ} {v : β} {p : κ × β}
    (hp : p ∈ m) (hk : p.1 ≠ k) : p ∈ mapSet m k v := by
  unfold mapSet
  exact List.mem_append_left _ (List.mem_filter.2 ⟨hp, by simpa using hk⟩)

theorem mem_mapSet_self {κ β : Type} [DecidableEq κ] (m : List (κ × β)) (k : κ) (v : β) :
    (k, v) ∈ mapSet m k v := by
  unfold mapSet
  exact List.mem_append_right _ (by simp)

theorem mapSet_key {κ β : Type} [DecidableEq κ] {m : List (κ × β)} (k : κ) (v : β) {p : κ × β}
    (hp : p ∈ m) : ∃ p' ∈ mapSet m k v, p'.1 = p.1 := by
  by_cases hk : p.1 = k
  · exact ⟨(k, v), mem_mapSet_self m k v, hk.symm⟩
  · exact ⟨p, mem_mapSet_of_ne hp hk, rfl⟩

/-- typed keys are supplied by the builder they are keyed under -/
theorem withDecl_typedKeys (idOf : Label → Nat) (ls : List Label) (b : Builder)
    (h : ∀ p ∈ b.typed, p.1 = p.2.ty) : ∀ p ∈ (withDecl b ls idOf).typed, p.1 = p.2.ty := by
  unfold withDecl
  induction ls generalizing b with
  | nil => exact h
  | cons l ls ih =>
    rw [List.foldl_cons]
    apply ih
    by_cases hn : l.name = ""
    · rw [declStep_typed idOf b l hn]
      intro p hp
      rcases ExactWins.mem_mapSet hp with h' | h'
      · exact h p h'
      · rw [h']
    · rw [declStep_named idOf b l hn]
      exact h

/-- an entry of the named map whose key no declared input writes is kept -/
theorem withDecl_named_keep (idOf : Label → Nat) (ls : List Label) (b : Builder) (p : String × Val)
    (hp : p ∈ b.named) (h : ∀ l ∈ ls, l.name ≠ "" → p.1 ≠ lower l.name) :
    p ∈ (withDecl b ls idOf).named := by
  unfold withDecl
  induction ls generalizing b with
  | nil => exact hp
  | cons l ls ih =>
    rw [List.foldl_cons]
    apply ih _ _ (fun l' hl' => h l' (List.mem_cons_of_mem _ hl'))
    by_cases hn : l.name = ""
    · rw [declStep_typed idOf b l hn]; exact hp
    · rw [declStep_named idOf b l hn]
      exact mem_mapSet_of_ne hp (h l List.mem_cons_self hn)

/-- the declared names are pairwise distinct after lower-casing -/
def DistinctKeys (ls : List Label) : Prop :=
  ls.Pairwise (fun l l' => l.name ≠ "" → l'.name ≠ "" → lower l.name ≠ lower l'.name)

/-- every named declared input is in the named map -/
theorem withDecl_named_new (idOf : Label → Nat) (ls : List Label) (b : Builder) (hd : DistinctKeys ls)
    (l : Label) (hl : l ∈ ls) (hn : l.name ≠ "") :
    (lower l.name, ({ ty := l.ty, id := idOf l } : Val)) ∈ (withDecl b ls idOf).named := by
  induction ls generalizing b with
  | nil => cases hl
  | cons a ls ih =>
    unfold DistinctKeys at hd
    rw [List.pairwise_cons] at hd
    show _ ∈ (withDecl (declStep idOf b a) ls idOf).named
    rcases List.mem_cons.1 hl with rfl | hl
    · apply withDecl_named_keep
      · rw [declStep_named idOf b l hn]
        exact mem_mapSet_self _ _ _
      · intro l' hl' hn'
        exact hd.1 l' hl' hn hn'
    · exact ih _ hd.2 hl

/-- a key of the typed map stays a key; every type-only declared input is a key -/
theorem withDecl_typed_key (idOf : Label → Nat) (ls : List Label) (b : Builder) (t : Nat)
    (h : (∃ p ∈ b.typed, p.1 = t) ∨ ∃ l ∈ ls, l.name = "" ∧ l.ty = t) :
    ∃ p ∈ (withDecl b ls idOf).typed, p.1 = t := by
  induction ls generalizing b with
  | nil =>
    rcases h with h | ⟨l, hl, _⟩
    · exact h
    · cases hl
  | cons a ls ih =>
    show ∃ p ∈ (withDecl (declStep idOf b a) ls idOf).typed, p.1 = t
    apply ih
    by_cases hn : a.name = ""
    · rw [declStep_typed idOf b a hn]
      rcases h with ⟨p, hp, hpt⟩ | ⟨l, hl, hln, hlt⟩
      · obtain ⟨p', hp', hk⟩ := mapSet_key a.ty ({ ty := a.ty, id := idOf a } : Val) hp
        exact Or.inl ⟨p', hp', hk.trans hpt⟩
      · rcases List.mem_cons.1 hl with rfl | hl
        · exact Or.inl ⟨_, mem_mapSet_self _ _ _, hlt⟩
        · exact Or.inr ⟨l, hl, hln, hlt⟩
    · rw [declStep_named idOf b a hn]
      rcases h with h | ⟨l, hl, hln, hlt⟩
      · exact Or.inl h
      · rcases List.mem_cons.1 hl with rfl | hl
        · exact absurd hln hn
        · exact Or.inr ⟨l, hl, hln, hlt⟩

/-- every vertex the old builder supplies is supplied by the new one, when no declared name is the name of
a supplied named value -/
theorem withDecl_inputs (idOf : Label → Nat) (ls : List Label) (b : Builder)
    (hfresh : ∀ l ∈ ls, l.name ≠ "" → ∀ p ∈ b.named, p.1 ≠ lower l.name) :
    ∀ u ∈ Prune.inputsList b, u ∈ Prune.inputsList (withDecl b ls idOf) := by
  intro u hu
  obtain ⟨_, h2, h3⟩ := withDecl_rest idOf ls b
  simp only [Prune.inputsList, List.mem_append, List.mem_map, h2, h3] at hu ⊢
  rcases hu with ((⟨p, hp, rfl⟩ | h) | ⟨p, hp, rfl⟩) | h
  · exact Or.inl (Or.inl (Or.inl ⟨p, withDecl_named_keep idOf ls b p hp
      (fun l hl hn => hfresh l hl hn p hp), rfl⟩))
  · exact Or.inl (Or.inl (Or.inr h))
  · obtain ⟨p', hp', hk⟩ := withDecl_typed_key idOf ls b p.1 (Or.inl ⟨p, hp, rfl⟩)
    exact Or.inl (Or.inr ⟨p', hp', by rw [hk]⟩)
  · exact Or.inr h


/-! ### what a successful Redefine tells -/

theorem redefine_ok_inv (c : Ctx) (cgr : CallGraphResult) (target : FuncDesc) (fout : Option Filter)
    (fuel : Nat) (s0 : CallSt) (ls : List Label) (h : redefine c cgr target fout fuel s0 = .ok ls) :
    cgr.unsat = [] ∧ ∃ am s, reach c true fuel [] cgr.target s0 = (.ok am, s) ∧
      ls = declaredInputs s.inputSet cgr.inputs ∧ fieldsOK ls = true := by
  unfold redefine at h
  split at h
  · cases h
  · split at h
    · cases h
    · rename_i hun
      split at h <;> try (cases h)
      rename_i am s heq
      dsimp only at h
      split at h
      · rename_i hf
        simp only [RedefOutcome.ok.injEq] at h
        refine ⟨by simpa using hun, am, s, heq, h.symm, ?_⟩
        rw [← h]; exact hf
      · split at h <;> cases h

theorem mem_declared_value (I prov : List Vtx) (n : String) (t : Nat) (s : String)
    (h : Vtx.value n t s ∈ I) (hn : Vtx.value n t s ∉ prov) :
    ({ name := n, ty := t, sub := "" } : Label) ∈ declaredInputs I prov := by
  unfold declaredInputs
  rw [List.mem_filterMap]
  exact ⟨_, List.mem_filter.2 ⟨h, by simpa using hn⟩, rfl⟩

theorem mem_declared_arg (I prov : List Vtx) (t : Nat) (s : String)
    (h : Vtx.arg t s ∈ I) (hn : Vtx.arg t s ∉ prov) :
    ({ name := "", ty := t, sub := "" } : Label) ∈ declaredInputs I prov := by
  unfold declaredInputs
  rw [List.mem_filterMap]
  exact ⟨_, List.mem_filter.2 ⟨h, by simpa using hn⟩, rfl⟩

theorem distinct_of_fieldsOK (ls : List Label) (hf : fieldsOK ls = true)
    (hlow : ∀ l ∈ ls, l.name ≠ "" → lower l.name = l.name) : DistinctKeys ls := by
  unfold fieldsOK at hf
  simp only [decide_eq_true_eq] at hf
  unfold DistinctKeys
  induction ls with
  | nil => exact List.Pairwise.nil
  | cons a ls ih =>
    rw [List.pairwise_cons]
    rw [List.filter_cons] at hf
    by_cases hn : a.name = ""
    · have : (a.name != "") = false := by simp [hn]
      rw [this] at hf
      simp only [Bool.false_eq_true, if_false] at hf
      exact ⟨fun l' _ h => absurd hn h, ih (fun l hl => hlow l (List.mem_cons_of_mem _ hl)) hf⟩
    · have : (a.name != "") = true := by simpa using hn
      rw [this] at hf
      simp only [if_true, List.map_cons, List.nodup_cons] at hf
      refine ⟨fun l' hl' _ hn' heq => hf.1 ?_, ih (fun l hl => hlow l (List.mem_cons_of_mem _ hl)) hf.2⟩
      rw [hlow a List.mem_cons_self hn, hlow l' (List.mem_cons_of_mem _ hl') hn'] at heq
      rw [heq]
      exact List.mem_map.2 ⟨l', List.mem_filter.2 ⟨hl', by simpa using hn'⟩, rfl⟩

theorem vertex_arg_sub {l : Label} {t : Nat} {s : String} (h : l.vertex = .arg t s) : l.sub = s := by
  unfold Label.vertex at h
  split at h
  · cases h
  · injection h

/-! ### the unpruned graph: R4 edges, value vertices -/

theorem nested_verts (c : CG) (p : Vtx → Bool) (q : Vtx → Vtx → Bool) (w : Int) (x : Vtx) :
    x ∈ ((c.g.verts.filter p).foldl (fun c v =>
      (c.g.verts.filter (q v)).foldl (fun c v2 => c.edge v v2 w) c) c).g.verts ↔ x ∈ c.g.verts := by
  rw [nested_run, mem_run_verts]
  constructor
  · rintro (h | h)
    · exact h
    · obtain ⟨_, _, _, _, _, _, h'⟩ := mem_nestedOps h
      cases h'
  · exact Or.inl

theorem phaseR5_verts (e : TypeEnv) (sk : Bool) (c : CG) (x : Vtx) :
    x ∈ (phaseR5 e sk c).g.verts ↔ x ∈ c.g.verts := by
  unfold phaseR5
  exact nested_verts c (fun v => v.isOut && e.isIface v.ty)
    (fun v v2 => v2.isOut && decide (v2 ≠ v) && e.impl v2.ty v.ty && !(sk && v2.ty == v.ty)) weightTyped x

theorem phaseR6_verts (nt : Bool) (c : CG) (x : Vtx) :
    x ∈ (phaseR6 nt c).g.verts ↔ x ∈ c.g.verts := by
  unfold phaseR6
  exact nested_verts c (fun v => v.isValue && v.sub == "" && (c.valueOf v).isNone)
    (fun v v2 => v2.isValue && v2.ty == v.ty && v2.sub != "" && !(nt && v2.name != v.name)) weightTyped x

theorem phaseR7_verts (c : CG) (x : Vtx) : x ∈ (phaseR7 c).g.verts ↔ x ∈ c.g.verts := by
  unfold phaseR7
  dsimp only
  rw [nested_verts _ (fun v => v.isArg && v.sub != "") (fun v v2 => v2.isOut && v2.ty == v.ty && v2.sub == "")
    weightTypedOtherSubtype x]
  exact nested_verts c (fun v => v.isArg && v.sub == "") (fun v v2 => v2.isOut && v2.ty == v.ty && v2.sub != "")
    weightTypedOtherSubtype x

/-- R4 in the unpruned graph: an argument vertex depends on the output vertex of its type and subtype -/
theorem pre_arg_out (e : TypeEnv) (b : Builder) (funcs : Nat → Option FuncDesc) (target : FuncDesc)
    (t : Nat) (s : String) (h : Vtx.arg t s ∈ (Prune.pre e b funcs target).g.verts) :
    (Prune.pre e b funcs target).g.hasEdge (.arg t s) (.out t s) = true := by
  unfold Prune.pre at h ⊢
  rw [phaseR7_verts, phaseR6_verts, phaseR5_verts] at h
  have hd : ∀ (u v : Vtx), v.isData = true → (fun (_ _ : Vtx) => True) u v := fun _ _ _ => trivial
  apply (Prune.ext_phaseR7 (R := fun _ _ => True) _ hd).edge_mono
  apply (Prune.ext_phaseR6 (R := fun _ _ => True) true _ hd).edge_mono
  apply (Prune.ext_phaseR5 (R := fun _ _ => True) e true _ hd).edge_mono
  rw [phaseR4_run, mem_run_verts] at h
  rw [phaseR4_run, run_hasEdge]
  have hmem : Vtx.arg t s ∈ (phaseR3 (b.convs.foldl (Prune.convStep funcs)
      (Prune.inputsCG (Prune.base target) b))).g.verts := by
    rcases h with h | h
    · exact h
    · simp only [List.mem_flatMap, List.mem_filter, r4Ops, List.mem_cons, List.not_mem_nil, or_false] at h
      obtain ⟨v, _, h | h⟩ := h <;> cases h
  refine Or.inr ⟨weightTyped, ?_⟩
  simp only [List.mem_flatMap, List.mem_filter]
  exact ⟨.arg t s, ⟨hmem, rfl⟩, by simp [r4Ops, Vtx.ty, Vtx.sub]⟩


/-! ### declared value vertices -/

section
open Complete ExactWins
variable {e : TypeEnv} {b : Builder} {funcs : Nat → Option FuncDesc} {target : FuncDesc}

/-- a value vertex of the unpruned graph has a name or is supplied -/
theorem pre_valueNamed (H : Hyps e b funcs target) :
    VP (fun v => v.name ≠ "" ∨ v ∈ inputVerts b) (ExactWins.pre e b funcs target) := by
  rw [← pre_eq]
  apply vp_pre
  · intro u hu _
    exact Or.inr hu
  · intro f hf val hval hn
    exact Or.inl hn
  · intro f hf p hp
    have hfa : f ∈ C01.allFuncs b funcs target := List.mem_cons_of_mem _ hf
    exact Or.inl ((H.cons.2 f hfa).2.1 p hp).2.2

/-- a value vertex that is not supplied: no subtype, a lower-case name that no supplied value has -/
theorem declared_named (H : Hyps e b funcs target)
    (hnames : NamesSingle (nameLabels b (C01.allFuncs b funcs target)))
    (hlowF : ∀ f ∈ C01.allFuncs b funcs target, ∀ l ∈ f.input.labels ++ f.output.labels, lower l.name = l.name)
    (n : String) (t : Nat) (s : String) (hv : Vtx.value n t s ∈ (ExactWins.pre e b funcs target).g.verts)
    (hnot : Vtx.value n t s ∉ inputVerts b) :
    s = "" ∧ n ≠ "" ∧ lower n = n ∧ ∀ p ∈ b.named, p.1 ≠ n := by
  obtain ⟨hs, l', hl', hln, hlt⟩ := pre_valueVerts H _ hv rfl
  dsimp only [Vtx.sub, Vtx.name, Vtx.ty] at hs hln hlt
  subst hs
  have hne : n ≠ "" := by
    rcases pre_valueNamed H _ hv rfl with h | h
    · exact h
    · exact absurd h hnot
  have hsup : ∀ p ∈ b.named, p.1 = n → p.2.ty = t → False := by
    intro p hp h1 h2
    apply hnot
    unfold inputVerts
    rw [← h1, ← h2]
    exact List.mem_append_left _ (List.mem_append_left _ (List.mem_append_left _ (List.mem_map.2 ⟨p, hp, rfl⟩)))
  refine ⟨rfl, hne, ?_, ?_⟩
  · unfold nameLabels at hl'
    rcases List.mem_append.1 hl' with h | h
    · obtain ⟨p, hp, rfl⟩ := List.mem_map.1 h
      exact absurd hlt (fun h2 => hsup p hp hln h2)
    · obtain ⟨f, hf, hl⟩ := List.mem_flatMap.1 h
      rw [← hln]
      exact hlowF f hf l' hl
  · intro p hp h1
    have hlp : ({ name := p.1, ty := p.2.ty, sub := "" } : Label) ∈ nameLabels b (C01.allFuncs b funcs target) := by
      unfold nameLabels
      exact List.mem_append_left _ (List.mem_map.2 ⟨p, hp, rfl⟩)
    have := hnames l' hl' _ hlp (by rw [hln]; exact hne) (by rw [hln, h1])
    exact hsup p hp h1 (by rw [← hlt]; exact this.2.symm)

/-! ### the `Call` graph of the redefined function's call has no unsatisfied parameter -/

theorem callable_unsat (H : Hyps e b funcs target) (ht : ImplTrans e)
    (hnames : NamesSingle (nameLabels b (C01.allFuncs b funcs target)))
    (hlowF : ∀ f ∈ C01.allFuncs b funcs target, ∀ l ∈ f.input.labels ++ f.output.labels, lower l.name = l.name)
    (fin fout : Option Filter) (outCount : Nat → Nat) (fuel : Nat) (orc : List OrcItem) (ls : List Label)
    (hok : redefine (rctx e b funcs target fin outCount) (callGraph {} e b funcs target true fin) target fout fuel
            (initSt (callGraph {} e b funcs target true fin).cg [] orc) = .ok ls)
    (idOf : Label → Nat) :
    (callGraph {} e (withDecl b ls idOf) funcs target false none).unsat = [] := by
  obtain ⟨hun, am, s, hreach, hls, hfields⟩ := redefine_ok_inv _ _ _ _ _ _ _ hok
  rw [RedefC.callGraph_target] at hreach
  rw [RedefC.callGraph_inputs] at hls
  have gf := factsR H ht fin outCount
  have hg := rctx_g e b funcs target fin outCount
  cases fuel with
  | zero =>
    unfold reach at hreach
    cases hreach
  | succ m =>
  have hrecE : RecSpecE (rctx e b funcs target fin outCount) (fun _ => True)
      (fun v st => reach (rctx e b funcs target fin outCount) true m [.func target.key] v st) := by
    intro k st hall
    cases m with
    | zero =>
      refine Or.inl ⟨.outOfFuel, ?_, trivial⟩
      unfold reach
      rfl
    | succ m' =>
      rcases reach_all_present' _ gf.sri gf.auto true m' [.func target.key] (.func k) st hall with ⟨w, hw⟩ | h
      · exact Or.inl ⟨_, hw, trivial⟩
      · exact Or.inr h
  obtain ⟨_, hO⟩ := reach_top' (E := fun _ => True) gf (fun _ _ => trivial) (fun _ => trivial) m hrecE _
    (initSt_sinvR H fin outCount orc) (by simp [initSt])
  have hadj := RedefineInputs.reach_inputSet (rctx e b funcs target fin outCount) gf.sri true (m + 1) []
    (.func target.key) (initSt (callGraph {} e b funcs target true fin).cg [] orc)
    (by intro v hv; simp [initSt] at hv)
  rw [hreach] at hO hadj
  obtain ⟨_, hres⟩ := hO am rfl
  dsimp only at hres hadj
  -- vertices of the input set are vertices of the unpruned graph of `b`, adjacent to the root in the Redefine graph
  have hadj' : ∀ x ∈ s.inputSet, (finR e fin b funcs target).g.hasEdge x .root = true := by
    intro x hx
    have := hadj x hx
    rw [hg] at this
    exact this
  have hIpre : ∀ x ∈ s.inputSet, x ∈ (ExactWins.pre e b funcs target).g.verts := fun x hx =>
    finR_verts e fin b funcs target (Prune.hasEdge_mem_verts _ (finR_wf e fin b funcs target) _ _ (hadj' x hx)).1
  -- the declared labels
  have hdecl : ∀ l ∈ ls, l.name ≠ "" → lower l.name = l.name ∧ ∀ p ∈ b.named, p.1 ≠ l.name := by
    intro l hl hn
    rw [hls] at hl
    obtain ⟨v, hv, hnot, hkind, hlab⟩ := RedefineInputs.mem_declaredInputs _ _ l hl
    cases v with
    | value n t st =>
      have hl' : l.name = n := by rw [hlab]; rfl
      obtain ⟨_, _, h3, h4⟩ := declared_named H hnames hlowF n t st (hIpre _ hv) hnot
      rw [hl']
      exact ⟨h3, h4⟩
    | arg t st => exact absurd (by rw [hlab]; rfl) hn
    | root => rcases hkind with h | h <;> cases h
    | out t st => rcases hkind with h | h <;> cases h
    | func k => rcases hkind with h | h <;> cases h
  have hdist : DistinctKeys ls := distinct_of_fieldsOK ls hfields (fun l hl hn => (hdecl l hl hn).1)
  have hinputs : ∀ u ∈ Prune.inputsList b, u ∈ Prune.inputsList (withDecl b ls idOf) :=
    withDecl_inputs idOf ls b (fun l hl hn p hp => by rw [(hdecl l hl hn).1]; exact (hdecl l hl hn).2 p hp)
  obtain ⟨hconv, _, _⟩ := withDecl_rest idOf ls b
  -- the unpruned graph grows
  have hsub : Sub (ExactWins.pre e b funcs target).g (ExactWins.pre e (withDecl b ls idOf) funcs target).g := by
    rw [← pre_eq, ← pre_eq]
    apply pre_mono e funcs target hconv hinputs
    intro v hv hval
    have hv' : v ∈ (ExactWins.pre e b funcs target).g.verts := by
      rw [← pre_eq]
      unfold Prune.pre
      rw [phaseR7_verts, phaseR6_verts]
      exact hv
    exact (pre_valueVerts H _ hv' hval).1
  have hwf' := ExactWins.pre_wf e (withDecl b ls idOf) funcs target
  have hroot' := ExactWins.pre_root e (withDecl b ls idOf) funcs target
  -- `Good u`: `u` survives pruning in the new graph
  let Good : Vtx → Prop := fun u => u ∈ (ExactWins.pre e (withDecl b ls idOf) funcs target).g.verts ∧
    Kept (ExactWins.pre e (withDecl b ls idOf) funcs target) (.func target.key) u
  have good_root : ∀ u, (ExactWins.pre e (withDecl b ls idOf) funcs target).g.hasEdge u .root = true → Good u :=
    fun u h => ⟨(Prune.hasEdge_mem_verts _ hwf' _ _ h).1, kept_of_root_edge _ hwf' hroot' _ _ h⟩
  have good_step : ∀ u v, Good u → u ≠ .func target.key →
      (ExactWins.pre e (withDecl b ls idOf) funcs target).g.hasEdge v u = true → Good v :=
    fun u v hu hne h => ⟨(Prune.hasEdge_mem_verts _ hwf' _ _ h).1, kept_step _ hwf' hroot' _ _ _ hu.2 hne h⟩
  have good_input : ∀ u ∈ Prune.inputsList (withDecl b ls idOf), Good u := by
    intro u hu
    apply good_root
    rw [← pre_eq]
    exact Prune.inputs_edge_root e _ funcs target u hu
  -- edges of the Redefine graph that do not end in the root
  have hedge : ∀ u v, u ≠ .root → (rctx e b funcs target fin outCount).g.hasEdge v u = true →
      (ExactWins.pre e (withDecl b ls idOf) funcs target).g.hasEdge v u = true := by
    intro u v hu h
    rw [hg] at h
    rcases finR_edge e fin b funcs target h with h' | ⟨h', _⟩
    · exact hsub.2 _ _ h'
    · exact absurd h' hu
  have hnotk : ∀ u v, (rctx e b funcs target fin outCount).g.hasEdge v u = true → u ≠ .func target.key := by
    intro u v h hu
    rw [hu, gf.noTarget] at h
    cases h
  -- along a path
  have hchain : ∀ (rest : List Vtx) (u : Vtx), Chain (rctx e b funcs target fin outCount).g u rest →
      Good u → u ≠ .root → (∀ w ∈ rest, w ≠ .root) → ∀ w ∈ rest, Good w := by
    intro rest
    induction rest with
    | nil => intro u _ _ _ _ w hw; cases hw
    | cons a rest ih =>
      intro u hc hgu hur hnr w hw
      have hga : Good a := good_step u a hgu (hnotk u a hc.1) (hedge u a hur hc.1)
      rcases List.mem_cons.1 hw with rfl | hw
      · exact hga
      · exact ih a hc.2 hga (hnr a List.mem_cons_self) (fun w' hw' => hnr w' (List.mem_cons_of_mem _ hw')) w hw
  -- every parameter survives pruning
  have hparam : ∀ v ∈ target.input.values, Good v.lab.vertex := by
    intro v hv
    have hwfR := preR_wf e fin b funcs target
    have hrR := preR_root e fin b funcs target
    have h1 : (ExactWins.pre e b funcs target).g.hasEdge (.func target.key) v.lab.vertex = true :=
      (built_pre_c1 e b funcs target).hasEdge (funcGraph_req_edge c0 target v hv)
    have h1R := (ext_preR e fin b funcs target).edge_mono h1
    have hfin : v.lab.vertex ∈ (finR e fin b funcs target).g.verts := by
      rw [RedefC.callGraph_unsat, List.map_eq_nil_iff, List.filter_eq_nil_iff] at hun
      have := hun _ ((mem_outs_iff_hasEdge _ _ _).2 (funcGraph_req_edge c0 target v hv))
      simpa [AGraph.hasVertex] using this
    have hne : v.lab.vertex ≠ .func target.key := by
      unfold Label.vertex; split <;> exact fun h => by cases h
    have k1 : Kept (preR e fin b funcs target) (.func target.key) v.lab.vertex := by
      unfold finR at hfin
      rw [prune_verts] at hfin
      exact hfin.2
    have k2 : Kept (preR e fin b funcs target) (.func target.key) (.func target.key) :=
      kept_step _ hwfR hrR _ _ _ k1 hne h1R
    have hout : v.lab.vertex ∈ (rctx e b funcs target fin outCount).g.outs (.func target.key) := by
      rw [hg, mem_outs_iff_hasEdge]
      obtain ⟨w, hw⟩ := (hasEdge_iff_weight _ _ _).1 h1R
      refine (hasEdge_iff_weight _ _ _).2 ⟨w, ?_⟩
      unfold finR
      rw [prune_weight _ hwfR]
      exact ⟨hw, k2, k1⟩
    rcases hres _ hout with h | h | ⟨p, x, hvalid, hpi, hx⟩
    · exact absurd h (vertex_ne_root _)
    · -- taken as it is: supplied by the caller
      have hsome := isSome_of_takenAsIs _ _ h
      rw [ExactWins.initSt_get, RedefC.callGraph_cg, finR_store] at hsome
      cases hm : mapGet (c2 b target).store v.lab.vertex with
      | none => rw [hm] at hsome; cases hsome
      | some val =>
        exact good_input _ (hinputs _ (store_key_input e b funcs target _ val hm))
    · -- resolved along a path
      obtain ⟨⟨rest, hpe, hne', hch, _, hnr, _⟩, hlast⟩ :=
        goodPath_of_valid' gf v.lab.vertex p (vertex_kind _) hvalid
      rw [hpe] at hpi hlast
      cases rest with
      | nil => exact absurd rfl hne'
      | cons x' rest' =>
        have hxx : x' = x := by simpa [pathInput] using hpi
        subst hxx
        have hxe := hadj' x' hx
        have hxpre := hIpre x' hx
        have hgx : Good x' := by
          rcases finR_edge e fin b funcs target hxe with h' | ⟨_, hk⟩
          · exact good_root _ (hsub.2 _ _ h')
          · by_cases hsup : x' ∈ inputVerts b
            · exact good_input _ (hinputs _ hsup)
            · cases x' with
              | value n t st =>
                obtain ⟨hs, hn, hlown, _⟩ := declared_named H hnames hlowF n t st hxpre hsup
                subst hs
                have hl : ({ name := n, ty := t, sub := "" } : Label) ∈ ls := by
                  rw [hls]; exact mem_declared_value _ _ n t "" hx hsup
                have := withDecl_named_new idOf ls b hdist _ hl hn
                dsimp only at this
                rw [hlown] at this
                apply good_input
                simp only [Prune.inputsList, List.mem_append, List.mem_map]
                exact Or.inl (Or.inl (Or.inl ⟨_, this, rfl⟩))
              | arg t st =>
                have hst : st = "" := by
                  cases rest' with
                  | nil =>
                    simp only [List.getLast?_cons_cons, List.getLast?_singleton, Option.some.injEq] at hlast
                    have := vertex_arg_sub hlast.symm
                    rw [← this]
                    exact (H.labs target (by simp [C01.allFuncs])).1 _ (List.mem_map.2 ⟨v, hv, rfl⟩)
                  | cons z rest'' =>
                    have hz := hch.2.1
                    have hrule := gf.edgeOK _ _ hz
                    have hkind := ReachSound.kindOK_of_rule hrule
                    cases z with
                    | func k =>
                      obtain ⟨f, hfo, hreq⟩ := gf.funcReq k _ hz
                      have hfo' : (C01.allFuncs b funcs target).find? (fun f => f.key == k) = some f := hfo
                      have hfm : f ∈ C01.allFuncs b funcs target := List.mem_of_find?_eq_some hfo'
                      rcases hreq with h | ⟨v', hv', h⟩
                      · cases h
                      · rw [← vertex_arg_sub h.symm]
                        exact (H.labs f hfm).1 _ (List.mem_map.2 ⟨v', hv', rfl⟩)
                    | root => simp [ReachSound.kindOK] at hkind
                    | value _ _ _ => simp [ReachSound.kindOK] at hkind
                    | arg _ _ => simp [ReachSound.kindOK] at hkind
                    | out _ _ => simp [ReachSound.kindOK] at hkind
                subst hst
                have hl : ({ name := "", ty := t, sub := "" } : Label) ∈ ls := by
                  rw [hls]; exact mem_declared_arg _ _ t "" hx hsup
                obtain ⟨q, hq, hqt⟩ := withDecl_typed_key idOf ls b t (Or.inr ⟨_, hl, rfl, rfl⟩)
                have hgo : Good (.out t "") := by
                  apply good_input
                  simp only [Prune.inputsList, List.mem_append, List.mem_map]
                  exact Or.inl (Or.inr ⟨q, hq, by rw [hqt]⟩)
                have harg : Vtx.arg t "" ∈ (ExactWins.pre e (withDecl b ls idOf) funcs target).g.verts :=
                  hsub.1 _ hxpre
                have he4 := pre_arg_out e (withDecl b ls idOf) funcs target t "" (by rw [pre_eq]; exact harg)
                rw [pre_eq] at he4
                exact good_step _ _ hgo (fun h => by cases h) he4
              | root => rcases hk with h | h <;> cases h
              | out _ _ => rcases hk with h | h <;> cases h
              | func _ => rcases hk with h | h <;> cases h
        have hx'r : x' ≠ .root := hnr x' List.mem_cons_self
        have hall := hchain rest' x' hch.2 hgx hx'r (fun w hw => hnr w (List.mem_cons_of_mem _ hw))
        cases rest' with
        | nil =>
          simp only [List.getLast?_cons_cons, List.getLast?_singleton, Option.some.injEq] at hlast
          rw [← hlast]; exact hgx
        | cons z rest'' =>
          rw [List.getLast?_cons_cons, List.getLast?_cons_cons] at hlast
          have : v.lab.vertex ∈ z :: rest'' := by
            have := List.mem_of_getLast? hlast
            exact this
          exact hall _ this
  -- conclusion
  rw [ExactWins.callGraph_unsat, List.map_eq_nil_iff, List.filter_eq_nil_iff]
  intro r hr
  have hmem : r ∈ (prune (ExactWins.pre e (withDecl b ls idOf) funcs target) (.func target.key)).g.verts := by
    rw [prune_verts]
    rcases c1_target_outs target r hr with rfl | ⟨v, hv, rfl⟩
    · exact ⟨hroot', Or.inl rfl⟩
    · exact hparam v hv
  simp [AGraph.hasVertex, hmem]

end


/-! ### the hypotheses of C05 carry over to the new builder -/

theorem hyps_withDecl {e : TypeEnv} {b : Builder} {funcs : Nat → Option FuncDesc} {target : FuncDesc}
    (H : Complete.Hyps e b funcs target) (ls : List Label) (idOf : Label → Nat) :
    Complete.Hyps e (withDecl b ls idOf) funcs target := by
  obtain ⟨hconv, hns, hts⟩ := withDecl_rest idOf ls b
  have hall : C01.allFuncs (withDecl b ls idOf) funcs target = C01.allFuncs b funcs target := by
    unfold C01.allFuncs
    rw [hconv]
  refine ⟨?_, hns.trans H.nsub, hts.trans H.tsub, ?_, ?_, withDecl_typedKeys idOf ls b H.tkeys, ?_, ?_⟩
  · rw [hall]; exact H.cons
  · rw [hall]; exact H.labs
  · rw [hconv]; exact H.single
  · rw [hconv]; exact H.key
  · rw [hconv]; exact H.wf

end ArgMapper.RedefC
