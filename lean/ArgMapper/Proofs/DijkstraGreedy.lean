import ArgMapper.Proofs.Dijkstra
/-!
# Helper lemmas for C18: the greedy pop order is legal
-/
namespace ArgMapper.DijkstraProofs
open ArgMapper AGraph Dijkstra
variable {α : Type} [DecidableEq α]

omit [DecidableEq α] in
theorem pickMin_spec (s : DSt α) : ∀ (l : List α),
    (pickMin s l = none → l = []) ∧
    ∀ u, pickMin s l = some u → u ∈ l ∧ ∀ x ∈ l, s.dist u ≤ s.dist x
  | [] => by simp [pickMin]
  | x :: xs => by
    obtain ⟨ih1, ih2⟩ := pickMin_spec s xs
    unfold pickMin
    cases hp : pickMin s xs with
    | none =>
      have := ih1 hp; subst this
      simp
    | some y =>
      obtain ⟨hy, hmin⟩ := ih2 y hp
      simp only
      refine ⟨by split <;> simp, ?_⟩
      intro u hu
      split at hu
      · rename_i hle
        cases hu
        refine ⟨List.mem_cons_self .., ?_⟩
        intro z hz
        rcases List.mem_cons.1 hz with rfl | hz
        · exact Int.le_refl _
        · have := hmin z hz; omega
      · rename_i hle
        cases hu
        refine ⟨List.mem_cons_of_mem _ hy, ?_⟩
        intro z hz
        rcases List.mem_cons.1 hz with rfl | hz
        · omega
        · exact hmin z hz

theorem greedy_legalFrom (g : AGraph α) : ∀ (n : Nat) (s : DSt α),
    legalFrom g s (greedyPops g n s) = true
  | 0, s => by simp [greedyPops, legalFrom]
  | n + 1, s => by
    unfold greedyPops
    cases hp : pickMin s (g.verts.filter (fun x => !decide (x ∈ s.visited))) with
    | none => simp [legalFrom]
    | some u =>
      obtain ⟨hu, hmin⟩ := (pickMin_spec s _).2 u hp
      simp only [List.mem_filter, Bool.not_eq_true', decide_eq_false_iff_not] at hu hmin
      simp only [legalFrom, Bool.and_eq_true, decide_eq_true_eq, Bool.not_eq_true',
        decide_eq_false_iff_not, List.all_eq_true, Bool.or_eq_true]
      refine ⟨⟨⟨hu.1, hu.2⟩, ?_⟩, greedy_legalFrom g n _⟩
      intro x hx
      by_cases hxv : x ∈ s.visited
      · exact Or.inl hxv
      · exact Or.inr (hmin x ⟨hx, hxv⟩)

theorem greedy_nodup (g : AGraph α) : ∀ (n : Nat) (s : DSt α),
    (greedyPops g n s).Nodup ∧ ∀ x ∈ greedyPops g n s, x ∉ s.visited
  | 0, s => by simp [greedyPops]
  | n + 1, s => by
    unfold greedyPops
    cases hp : pickMin s (g.verts.filter (fun x => !decide (x ∈ s.visited))) with
    | none => simp
    | some u =>
      obtain ⟨hu, _⟩ := (pickMin_spec s _).2 u hp
      simp only [List.mem_filter, Bool.not_eq_true', decide_eq_false_iff_not] at hu
      obtain ⟨ih1, ih2⟩ := greedy_nodup g n (pop g s u)
      simp only [pop_visited, List.mem_cons, not_or] at ih2
      simp only [List.nodup_cons, List.mem_cons]
      refine ⟨⟨fun h => (ih2 u h).1 rfl, ih1⟩, ?_⟩
      rintro x (rfl | hx)
      · exact hu.2
      · exact (ih2 x hx).2

theorem filter_length_le {β : Type} (p q : β → Bool) (hpq : ∀ x, p x = true → q x = true) :
    ∀ (l : List β), (l.filter p).length ≤ (l.filter q).length
  | [] => by simp
  | y :: ys => by
    have ih := filter_length_le p q hpq ys
    by_cases hpy : p y = true
    · simp [hpy, hpq y hpy]; exact ih
    · by_cases hqy : q y = true
      · simp [hpy, hqy]; omega
      · simp [hpy, hqy]; exact ih

theorem filter_length_lt {β : Type} (p q : β → Bool) (hpq : ∀ x, p x = true → q x = true) (u : β)
    (hq : q u = true) (hp : p u = false) : ∀ (l : List β), u ∈ l →
    (l.filter p).length < (l.filter q).length
  | [], h => by simp at h
  | x :: xs, h => by
    have hle := filter_length_le p q hpq xs
    rcases List.mem_cons.1 h with rfl | h
    · simp [hp, hq]; omega
    · have ih := filter_length_lt p q hpq u hq hp xs h
      by_cases hpx : p x = true
      · simp [hpx, hpq x hpx]; exact ih
      · by_cases hqx : q x = true
        · simp [hpx, hqx]; omega
        · simp [hpx, hqx]; exact ih

theorem greedy_cover (g : AGraph α) : ∀ (n : Nat) (s : DSt α),
    (g.verts.filter (fun x => !decide (x ∈ s.visited))).length ≤ n →
    ∀ v, v ∈ g.verts → v ∉ s.visited → v ∈ greedyPops g n s
  | 0, s, hlen, v, hv, hvv => by
    have : v ∈ g.verts.filter (fun x => !decide (x ∈ s.visited)) := by
      simp [List.mem_filter, hv, hvv]
    have h0 : g.verts.filter (fun x => !decide (x ∈ s.visited)) = [] :=
      List.eq_nil_of_length_eq_zero (by omega)
    rw [h0] at this; simp at this
  | n + 1, s, hlen, v, hv, hvv => by
    have hmem : v ∈ g.verts.filter (fun x => !decide (x ∈ s.visited)) := by
      simp [List.mem_filter, hv, hvv]
    unfold greedyPops
    cases hp : pickMin s (g.verts.filter (fun x => !decide (x ∈ s.visited))) with
    | none =>
      have := (pickMin_spec s _).1 hp
      rw [this] at hmem; simp at hmem
    | some u =>
      obtain ⟨hu, _⟩ := (pickMin_spec s _).2 u hp
      simp only [List.mem_filter, Bool.not_eq_true', decide_eq_false_iff_not] at hu
      simp only [List.mem_cons]
      by_cases hvu : v = u
      · exact Or.inl hvu
      · right
        apply greedy_cover g n (pop g s u) _ v hv
        · rw [pop_visited]; simp [hvu, hvv]
        · have := filter_length_lt (fun x => !decide (x ∈ (pop g s u).visited))
            (fun x => !decide (x ∈ s.visited)) (by
              intro x; rw [pop_visited]; simp) u (by simp [hu.2])
            (by rw [pop_visited]; simp) g.verts hu.1
          omega

theorem greedy_legal_aux (g : AGraph α) (src : α) :
    LegalPops g src (greedyPops g g.verts.length (init src)) := by
  refine ⟨greedy_legalFrom g _ _, (greedy_nodup g _ _).1, ?_⟩
  intro v hv
  exact greedy_cover g _ _ (List.length_filter_le _ _) v hv (by simp [init])

end ArgMapper.DijkstraProofs
