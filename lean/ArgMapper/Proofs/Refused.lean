import ArgMapper.Proofs.ReachSound
import ArgMapper.Proofs.FlowCompat
import ArgMapper.Proofs.CallGraphFuncs
import ArgMapper.Proofs.Prune
import ArgMapper.Props.C01b
/-!
# An underivable parameter is never fed (helper lemmas for C02)

The dynamic invariant of `ReachSound.lean` (every value in flight entered at an origin vertex and can
flow to where it sits) is carried along unchanged; next to it a second invariant `DInv` says that the
ghost origin of every value in flight (store, `last`, `final`, argument maps) satisfies a predicate
`D` ("derivable origin"), that every memo cell belongs to functions whose output vertices all satisfy
`D`, and that no logged execution has the forbidden id `tid`.

The development is abstract in `D`, `tid` and the list `F` of callable function objects (`Hyp`); the
instance for `Call` (`D v := Deriv … v.label`) is at the end of the file.
-/
namespace ArgMapper.Refused
open ArgMapper WalkEqs ReachSound

/-! ### the second invariant -/

/-- every output vertex of `f`'s function vertex is a derivable origin -/
def OutD (c : Ctx) (D : Vtx → Prop) (f : FuncDesc) : Prop := ∀ v ∈ c.g.ins (.func f.key), D v

def AmD (D : Vtx → Prop) (am : ArgMap) : Prop := ∀ x a, mapGet am x = some a → D a.org

/-- what the dynamic part needs to know about the context -/
structure Hyp (c : Ctx) (D : Vtx → Prop) (tid : Nat) (F : List FuncDesc) : Prop where
  funcOf : ∀ k f, c.funcOf k = some f → f ∈ F
  /-- a function whose argument struct could be populated from sound, derivable arguments is not the
  forbidden one, and its outputs are derivable -/
  exec : ∀ f ∈ F, ∀ am args, AmOK c.g am → AmD D am → gatherArgs c.env f am = .ok args →
    f.id ≠ tid ∧ OutD c D f
  /-- run-once functions sharing a memo cell share their function vertex -/
  ids : ∀ f ∈ F, ∀ g ∈ F, f.once = true → g.once = true → f.id = g.id → f.id ≠ tid → f.key = g.key

structure DInv (c : Ctx) (D : Vtx → Prop) (tid : Nat) (F : List FuncDesc) (s : CallSt) : Prop where
  store : ∀ x v, s.get x = some v → D v.org
  last : ∀ v, s.last = some v → D v.org
  memo : ∀ p ∈ s.memo, p.1 ≠ tid ∧ ∀ g ∈ F, g.once = true → g.id = p.1 → OutD c D g
  log : ∀ ev ∈ s.log, ev.fid ≠ tid

section Dyn
variable {c : Ctx} {D : Vtx → Prop} {tid : Nat} {F : List FuncDesc}

@[simp] theorem set_memo (s : CallSt) (v : Vtx) (x : Option PVal) : (s.set v x).memo = s.memo := by
  unfold CallSt.set; split <;> rfl
@[simp] theorem addInput_memo (s : CallSt) (v : Vtx) : (s.addInput v).memo = s.memo := by
  unfold CallSt.addInput; split <;> rfl
@[simp] theorem addInput_last (s : CallSt) (v : Vtx) : (s.addInput v).last = s.last := by
  unfold CallSt.addInput; split <;> rfl

theorem DInv.congr {s s' : CallSt} (h : DInv c D tid F s) (hs : s'.store = s.store)
    (hl : s'.last = s.last) (hm : s'.memo = s.memo) (hg : s'.log = s.log) : DInv c D tid F s' := by
  refine ⟨?_, by rw [hl]; exact h.last, by rw [hm]; exact h.memo, by rw [hg]; exact h.log⟩
  intro x v hv
  unfold CallSt.get at hv
  rw [hs] at hv
  exact h.store x v hv

theorem DInv.set {s : CallSt} (h : DInv c D tid F s) (v : Vtx) (x : Option PVal)
    (hx : ∀ a, x = some a → D a.org) : DInv c D tid F (s.set v x) := by
  refine ⟨?_, by rw [set_last]; exact h.last, by rw [set_memo]; exact h.memo,
    by rw [set_log]; exact h.log⟩
  intro u a ha
  rw [get_set] at ha
  split at ha
  · exact hx a ha
  · exact h.store u a ha

theorem DInv.setLast {s : CallSt} (h : DInv c D tid F s) (l : Option PVal)
    (hl : ∀ a, l = some a → D a.org) : DInv c D tid F { s with last := l } :=
  ⟨h.store, hl, h.memo, h.log⟩

theorem DInv.addInput {s : CallSt} (h : DInv c D tid F s) (v : Vtx) : DInv c D tid F (s.addInput v) :=
  h.congr (by simp) (by simp) (by simp) (by simp)

theorem mem_of_mapGet' {κ β : Type} [DecidableEq κ] {m : List (κ × β)} {k : κ} {v : β}
    (h : mapGet m k = some v) : (k, v) ∈ m := by
  unfold mapGet at h
  rw [Option.map_eq_some_iff] at h
  obtain ⟨p, hp, rfl⟩ := h
  have h1 := List.find?_some hp
  have h2 := List.mem_of_find?_eq_some hp
  simp only [decide_eq_true_eq] at h1
  subst h1
  exact h2

/-! ### callDirect -/

theorem callDirect_d (H : Hyp c D tid F) (f : FuncDesc) (hfF : f ∈ F) (am : ArgMap) (s : CallSt)
    (hd : DInv c D tid F s) (ham : AmOK c.g am) (hamd : AmD D am) :
    DInv c D tid F (callDirect c f am s).2 ∧
    ∀ r u, (callDirect c f am s).1 = .ok (r, u) → f.id ≠ tid ∧ OutD c D f := by
  unfold callDirect
  split
  · rename_i m hm
    refine ⟨hd, fun r u _ => ?_⟩
    by_cases ho : f.once = true
    · rw [if_pos ho] at hm
      obtain ⟨h1, h2⟩ := hd.memo _ (mem_of_mapGet' hm)
      exact ⟨h1, h2 f hfF ho rfl⟩
    · rw [if_neg ho] at hm; cases hm
  · split
    · exact ⟨hd, fun r u h => by cases h⟩
    · rename_i args hargs
      obtain ⟨hne, hout⟩ := H.exec f hfF am args ham hamd hargs
      dsimp only
      refine ⟨?_, fun _ _ _ => ⟨hne, hout⟩⟩
      have h1 : DInv c D tid F { s with
          log := s.log ++ [{ fid := f.id, nth := countOf s f.id, args := args, params := f.input.labels,
                             res := c.beh f.id (countOf s f.id) args }],
          count := mapSet s.count f.id (countOf s f.id + 1) } := by
        refine ⟨hd.store, hd.last, hd.memo, ?_⟩
        intro ev hev
        rcases List.mem_append.1 hev with h' | h'
        · exact hd.log ev h'
        · simp only [List.mem_singleton] at h'
          subst h'; exact hne
      split
      · rename_i ho
        refine ⟨h1.store, h1.last, ?_, h1.log⟩
        intro p hp
        have hp' : p ∈ mapSet s.memo f.id { res := c.beh f.id (countOf s f.id) args, unwrapped := false } := hp
        unfold mapSet at hp'
        rcases List.mem_append.1 hp' with h' | h'
        · exact hd.memo p (List.mem_filter.1 h').1
        · simp only [List.mem_singleton] at h'
          subst h'
          refine ⟨hne, fun g hgF hgo hgid => ?_⟩
          have hk := H.ids f hfF g hgF ho hgo hgid.symm hne
          intro v hv
          rw [← hk] at hv
          exact hout v hv
      · exact h1

/-! ### outputValues -/

theorem oStep_d (f : FuncDesc) (r : BehOut) (s : CallSt) (v : Vtx) (hv : D v)
    (h : DInv c D tid F s) : DInv c D tid F (oStep f r s v) := by
  have key : ∀ sv : SVal, DInv c D tid F (s.set v (some (resultField f r sv.index sv.lab.ty v))) := by
    intro sv
    apply h.set
    intro a ha
    simp only [Option.some.injEq] at ha
    subst ha
    rw [resultField_org]; exact hv
  unfold oStep
  split
  · split
    · exact key _
    · exact h
  · split
    · exact key _
    · exact h
  · exact h

theorem oFold_d (f : FuncDesc) (r : BehOut) (l : List Vtx) (hl : ∀ v ∈ l, D v) (s : CallSt)
    (h : DInv c D tid F s) : DInv c D tid F (l.foldl (oStep f r) s) := by
  induction l generalizing s with
  | nil => exact h
  | cons a l ih =>
    exact ih (fun v hv => hl v (List.mem_cons_of_mem _ hv)) _ (oStep_d f r s a (hl a (by simp)) h)

theorem outputValues_d (f : FuncDesc) (r : BehOut) (u : Bool) (s s' : CallSt) (hout : OutD c D f)
    (h : DInv c D tid F s) (ho : outputValues c f r u s = .ok s') : DInv c D tid F s' := by
  rw [outputValues_eq] at ho
  split at ho
  · cases ho
  · simp only [Except.ok.injEq] at ho
    subst ho
    apply oFold_d f r _ hout
    split
    · refine ⟨h.store, h.last, ?_, h.log⟩
      intro p hp
      simp only [List.mem_map] at hp
      obtain ⟨q, hq, rfl⟩ := hp
      have := h.memo q hq
      split
      · exact this
      · exact this
    · exact h

/-! ### one step of the walk -/

def WD (c : Ctx) (D : Vtx → Prop) (tid : Nat) (F : List FuncDesc) (w : WalkSt) : Prop :=
  DInv c D tid F w.s ∧ ∀ x, w.final = some x → D x.org

def DRec (c : Ctx) (D : Vtx → Prop) (tid : Nat) (F : List FuncDesc)
    (rec : Vtx → CallSt → Except RErr ArgMap × CallSt) : Prop :=
  ∀ k s, Inv c s → DInv c D tid F s →
    DInv c D tid F (rec (.func k) s).2 ∧ ∀ am, (rec (.func k) s).1 = .ok am → AmD D am

theorem copyFrom_d (s : CallSt) (prev : Option Vtx) (v : Vtx) (h : DInv c D tid F s) :
    DInv c D tid F (copyFrom s prev v) := by
  unfold copyFrom
  split
  · apply h.set
    intro a ha
    exact h.store _ _ ha
  · exact h

theorem valCopy_d (s : CallSt) (prev : Option Vtx) (v : Vtx) (h : DInv c D tid F s) :
    DInv c D tid F (valCopy c s prev v) := by
  rcases valCopy_cases c s prev v with h1 | ⟨n, t, st, x, _, _, hg, h1⟩ <;> rw [h1]
  · exact copyFrom_d s prev v h
  · apply h.set
    intro a ha
    cases ha
    exact h.store _ _ hg

theorem argStore_d (s : CallSt) (t : Nat) (v : Vtx) (h : DInv c D tid F s) :
    DInv c D tid F (argStore c s t v) := by
  unfold argStore
  split
  · rename_i x hx
    split
    · apply h.set
      intro a ha
      simp only [Option.some.injEq] at ha
      subst ha
      exact h.last _ hx
    · exact h
  · exact h

theorem walkStep_d (H : Hyp c D tid F)
    (rec : Vtx → CallSt → Except RErr ArgMap × CallSt) (hrec : RecSound c rec) (hdrec : DRec c D tid F rec)
    (w : WalkSt) (v : Vtx) (hw : Inv c w.s) (hd : WD c D tid F w) :
    WD c D tid F (walkStep c rec w v) := by
  cases herr : w.err with
  | some e => rw [walkStep_err c rec herr]; exact hd
  | none =>
    cases v with
    | root =>
      rw [walkStep_root c rec herr]
      exact hd
    | value n t u =>
      rw [walkStep_value c rec herr]
      have h1 := valCopy_d w.s w.prev (.value n t u) hd.1
      refine ⟨?_, ?_⟩
      · apply h1.setLast
        intro a ha
        split at ha
        · exact h1.store _ _ ha
        · exact hd.1.store _ _ ha
      · intro x hx
        dsimp only at hx
        cases hget : (valCopy c w.s w.prev (.value n t u)).get (.value n t u) with
        | some y =>
          rw [hget] at hx
          simp only [Option.some_or, Option.some.injEq] at hx
          subst hx
          exact h1.store _ _ hget
        | none =>
          rw [hget] at hx
          exact hd.2 x (by simpa using hx)
    | arg t u =>
      rw [walkStep_arg c rec herr]
      have h1 := argStore_d (c := c) w.s t (.arg t u) hd.1
      exact ⟨h1, fun x hx => h1.store _ _ hx⟩
    | out t u =>
      rw [walkStep_out c rec herr]
      have h1 := copyFrom_d w.s w.prev (.out t u) hd.1
      exact ⟨h1.setLast _ (fun a ha => h1.store _ _ ha), hd.2⟩
    | func k =>
      cases hfo : c.funcOf k with
      | none =>
        rw [walkStep_func_none c rec herr k hfo]
        exact hd
      | some f =>
        have hfF := H.funcOf k f hfo
        have hr := hrec k w.s hw
        have hdr := hdrec k w.s hw hd.1
        rcases hrs : rec (Vtx.func k) w.s with ⟨e | am, s1⟩
        · rw [walkStep_func_recErr c rec herr k hfo hrs]
          rw [hrs] at hdr
          exact ⟨hdr.1, hd.2⟩
        · rw [hrs] at hr hdr
          have hcd := callDirect_d H f hfF am s1 hdr.1 (hr.2 am rfl) (hdr.2 am rfl)
          rcases hcs : callDirect c f am s1 with ⟨e | ⟨r, unw⟩, s2⟩
          · rw [walkStep_func_cdErr c rec herr k hfo hrs hcs]
            rw [hcs] at hcd
            exact ⟨hcd.1, hd.2⟩
          · rw [hcs] at hcd
            cases hre : r.err with
            | some ε =>
              rw [walkStep_func_funcErr c rec herr k hfo hrs hcs hre]
              exact ⟨hcd.1, hd.2⟩
            | none =>
              cases hov : outputValues c f r unw s2 with
              | error e =>
                rw [walkStep_func_outErr c rec herr k hfo hrs hcs hre hov]
                exact ⟨hcd.1, hd.2⟩
              | ok s3 =>
                rw [walkStep_func_ok c rec herr k hfo hrs hcs hre hov]
                exact ⟨outputValues_d f r unw s2 s3 (hcd.2 r unw rfl).2 hcd.1 hov, hd.2⟩

/-! ### walking one path, all paths -/

theorem walk_fold_d (H : Hyp c D tid F) (hg : EdgeOK c.env c.g) (hf : FuncsOK c)
    (rec : Vtx → CallSt → Except RErr ArgMap × CallSt) (hrec : RecSound c rec) (hdrec : DRec c D tid F rec)
    (p : List Vtx) (w : WalkSt) (hw : WInv c w) (hpath : w.err = none → PathFrom c.g w.prev p)
    (hd : WD c D tid F w) : WD c D tid F (p.foldl (walkStep c rec) w) := by
  induction p generalizing w with
  | nil => exact hd
  | cons v rest ih =>
    rw [List.foldl_cons]
    have hw1 : WInv c (walkStep c rec w v) :=
      walkStep_inv c hg hf rec hrec w v hw (fun he u hu => (hpath he).1 u hu) (fun he h => (hpath he).2.1 h)
    have hpath1 : (walkStep c rec w v).err = none → PathFrom c.g (walkStep c rec w v).prev rest := by
      intro he
      rw [walkStep_prev c rec w v he]
      exact (hpath (walkStep_err_mono c rec w v he)).2.2
    exact ih _ hw1 hpath1 (walkStep_d H rec hrec hdrec w v hw.1 hd)

theorem walkPaths_d (H : Hyp c D tid F) (hg : EdgeOK c.env c.g) (hf : FuncsOK c)
    (rec : Vtx → CallSt → Except RErr ArgMap × CallSt) (hrec : RecSound c rec) (hdrec : DRec c D tid F rec)
    (paths : List (List Vtx)) (hp : ∀ p ∈ paths, GoodPath c p) (am : ArgMap) (s : CallSt)
    (hs : Inv c s) (ham : AmOK c.g am) (hd : DInv c D tid F s) (hamd : AmD D am) :
    DInv c D tid F (walkPaths c rec paths am s).2 ∧
    ∀ am', (walkPaths c rec paths am s).1 = .ok am' → AmD D am' := by
  induction paths generalizing am s with
  | nil =>
    refine ⟨hd, fun am' h => ?_⟩
    simp only [walkPaths, Except.ok.injEq] at h
    subst h; exact hamd
  | cons p rest ih =>
    unfold walkPaths
    have hgood := hp p (by simp)
    have hfold := walk_fold_inv c hg hf rec hrec p { s := s, final := none, prev := none, err := none }
      ⟨hs, fun _ => rfl⟩ (fun _ => hgood.1)
    have hfd := walk_fold_d H hg hf rec hrec hdrec p { s := s, final := none, prev := none, err := none }
      ⟨hs, fun _ => rfl⟩ (fun _ => hgood.1) ⟨hd, fun x hx => by cases hx⟩
    generalize p.foldl (walkStep c rec) { s := s, final := none, prev := none, err := none } = w at hfold hfd
    obtain ⟨⟨hi, hprev⟩, hlastv⟩ := hfold
    dsimp only
    split
    · exact ⟨hfd.1, fun am' h => by cases h⟩
    · rename_i herr
      split
      · rename_i x lastV hx hlast
        apply ih (fun q hq => hp q (List.mem_cons_of_mem _ hq)) _ _ hi _ hfd.1
        · intro y a hy
          rw [mapGet_mapSet'] at hy
          split at hy
          · simp only [Option.some.injEq] at hy
            subst hy
            exact hfd.2 _ hx
          · exact hamd y a hy
        · intro y a hy
          rw [mapGet_mapSet'] at hy
          split at hy
          · rename_i hyl
            simp only [Option.some.injEq] at hy
            subst hy; subst hyl
            have hP := hprev herr
            rw [hlastv herr y hlast] at hP
            rcases hgood.2 y hlast with hv | hv
            · cases y <;> simp [Vtx.isValue] at hv
              exact hP.1 x hx
            · cases y <;> simp [Vtx.isArg] at hv
              exact hP x hx
          · exact ham y a hy
      · exact ⟨hfd.1, fun am' h => by cases h⟩

/-! ### reach -/

theorem planOne_d (target : Vtx) (reaching : List Vtx) (tr : Bool) (ps : PlanSt)
    (cp : Vtx × List Vtx) (h : DInv c D tid F ps.s) :
    DInv c D tid F (planOne target reaching tr false ps cp).s := by
  unfold planOne
  dsimp only
  split
  · exact h
  · simp only [Bool.false_eq_true, if_false]
    exact h.addInput _

theorem am0_d (s : CallSt) (hs : DInv c D tid F s) (l : List Vtx) :
    AmD D (l.filterMap (fun v => if v == Vtx.root then none else (s.get v).map (fun x => (v, x)))) := by
  intro x a h
  have hm := mem_of_mapGet h
  simp only [List.mem_filterMap] at hm
  obtain ⟨v, _, hv⟩ := hm
  split at hv
  · cases hv
  · cases hg : s.get v with
    | none => simp [hg] at hv
    | some y =>
      simp only [hg, Option.map_some, Option.some.injEq, Prod.mk.injEq] at hv
      obtain ⟨rfl, rfl⟩ := hv
      exact hs.store _ _ hg

theorem reach_d (H : Hyp c D tid F) (hg : EdgeOK c.env c.g) (hf : FuncsOK c)
    (hnar : ∀ t s, c.g.hasEdge (.arg t s) .root = false)
    (n : Nat) (reaching : List Vtx) (k : Nat) (s : CallSt) (hs : Inv c s) (hd : DInv c D tid F s) :
    DInv c D tid F (reach c false n reaching (.func k) s).2 ∧
    ∀ am, (reach c false n reaching (.func k) s).1 = .ok am → AmD D am := by
  induction n generalizing reaching k s with
  | zero =>
    unfold reach
    exact ⟨hd, fun am h => by cases h⟩
  | succ n ih =>
    unfold reach
    dsimp only
    have ham0 := am0_ok c s hs ((c.g.outs (.func k)).filter (fun v => v == Vtx.root || takenAsIs c s v))
    have hamd0 := am0_d s hd ((c.g.outs (.func k)).filter (fun v => v == Vtx.root || takenAsIs c s v))
    generalize ((c.g.outs (.func k)).filter (fun v => v == Vtx.root || takenAsIs c s v)).filterMap
      (fun v => if v == Vtx.root then none else (s.get v).map (fun x => (v, x))) = am0 at ham0 hamd0
    have hmiss : ∀ cur ∈ (c.g.outs (.func k)).filter (fun v => !(v == Vtx.root || takenAsIs c s v)),
        cur.isValue = true ∨ cur.isArg = true := by
      intro cur hcur
      simp only [List.mem_filter] at hcur
      have hk := kindOK_of_rule (hg _ _ (hasEdge_of_mem_outs _ _ _ hcur.1))
      have hnr := hcur.2
      cases cur <;> simp_all [kindOK, Vtx.isValue, Vtx.isArg]
    generalize (c.g.outs (.func k)).filter (fun v => !(v == Vtx.root || takenAsIs c s v)) = missingM at hmiss
    have hs1 : Inv c (if c.skipRecordsInput then
        ((c.g.outs (.func k)).filter (fun v => v == Vtx.root || takenAsIs c s v)).foldl CallSt.addInput s else s) := by
      split
      · exact foldl_inv (Inv c) _ (fun s v h => h.addInput v) _ _ hs
      · exact hs
    have hd1 : DInv c D tid F (if c.skipRecordsInput then
        ((c.g.outs (.func k)).filter (fun v => v == Vtx.root || takenAsIs c s v)).foldl CallSt.addInput s else s) := by
      split
      · exact foldl_inv (DInv c D tid F) _ (fun s v h => h.addInput v) _ _ hd
      · exact hd
    generalize (if c.skipRecordsInput then
        ((c.g.outs (.func k)).filter (fun v => v == Vtx.root || takenAsIs c s v)).foldl CallSt.addInput s else s) = s1
      at hs1 hd1
    split
    · exact ⟨hd1, fun am h => by cases h⟩
    · rename_i item orcRest _
      have hs2 : Inv c { s1 with orc := orcRest } := hs1.congr rfl rfl
      have hd2 : DInv c D tid F { s1 with orc := orcRest } := hd1.congr rfl rfl rfl rfl
      split
      · exact ⟨hd2, fun am h => by cases h⟩
      · split
        · exact ⟨hd2, fun am h => by cases h⟩
        · rename_i hsame
          split
          · refine ⟨hd2, fun am h => ?_⟩
            simp only [Except.ok.injEq] at h
            subst h; exact hamd0
          · split
            · exact ⟨hd2, fun am h => by cases h⟩
            · rename_i hlen
              split
              · exact ⟨hd2, fun am h => by cases h⟩
              · rename_i hvalid
                have hs3 : Inv c ((item.missing.zip item.paths).foldl
                    (planOne (.func k) (.func k :: reaching) c.trackReaching false)
                    { s := { s1 with orc := orcRest }, unsat := [] }).s :=
                  foldl_inv (fun (ps : PlanSt) => Inv c ps.s) _
                    (fun ps cp h => planOne_inv c _ _ _ ps cp h) _ _ hs2
                have hd3 : DInv c D tid F ((item.missing.zip item.paths).foldl
                    (planOne (.func k) (.func k :: reaching) c.trackReaching false)
                    { s := { s1 with orc := orcRest }, unsat := [] }).s :=
                  foldl_inv (fun (ps : PlanSt) => DInv c D tid F ps.s) _
                    (fun ps cp h => planOne_d _ _ _ ps cp h) _ _ hd2
                split
                · exact ⟨hd3, fun am h => by cases h⟩
                · apply walkPaths_d H hg hf _
                    (fun k' st hst => reach_sound c hg hf hnar n _ k' st hst)
                    (fun k' st hst hdt => ih _ k' st hst hdt) _ _ _ _ hs3 ham0 hd3 hamd0
                  intro p hp
                  simp only [ne_eq, Decidable.not_not] at hlen
                  obtain ⟨cur, hcur, hz⟩ := zip_snd_mem item.missing item.paths hlen p hp
                  have hvalid' : ((item.missing.zip item.paths).all fun cp => validPath c.g cp.1 cp.2) = true := by
                    simpa using hvalid
                  have hv := List.all_eq_true.1 hvalid' _ hz
                  obtain ⟨h1, h2⟩ := pathFrom_of_valid c hg hnar cur p hv
                  refine ⟨h1, fun l hl => ?_⟩
                  rw [h2] at hl
                  simp only [Option.some.injEq] at hl
                  subst hl
                  apply hmiss
                  have hsame' : sameMembers item.missing missingM = true := by simpa using hsame
                  simp only [sameMembers, Bool.and_eq_true, List.all_eq_true, decide_eq_true_eq] at hsame'
                  exact hsame'.1.1 _ hcur

/-! ### Call -/

theorem callWith_refused (H : Hyp c D tid F) (hg : EdgeOK c.env c.g) (hf : FuncsOK c)
    (hnar : ∀ t s, c.g.hasEdge (.arg t s) .root = false) (cgr : CallGraphResult)
    (target : FuncDesc) (htF : target ∈ F) (htid : target.id = tid)
    (htv : cgr.target = .func target.key)
    (fuel : Nat) (s0 : CallSt) (hs : Inv c s0) (hd : DInv c D tid F s0) :
    (∀ ev ∈ (callWith c cgr target fuel s0).2.log, ev.fid ≠ tid) ∧
    ∀ res, (callWith c cgr target fuel s0).1 ≠ .ok res := by
  unfold callWith
  split
  · exact ⟨hd.log, fun res h => by cases h⟩
  · rw [htv]
    have hr := reach_sound c hg hf hnar fuel [] target.key s0 hs
    have hdr := reach_d H hg hf hnar fuel [] target.key s0 hs hd
    rcases hres : reach c false fuel [] (.func target.key) s0 with ⟨e | am, s⟩
    · rw [hres] at hdr
      cases e <;> exact ⟨hdr.1.log, fun res h => by cases h⟩
    · rw [hres] at hr hdr
      have h2 := callDirect_d H target htF am s hdr.1 (hr.2 am rfl) (hdr.2 am rfl)
      dsimp only
      rcases hcs : callDirect c target am s with ⟨e | ⟨r, u⟩, s2⟩
      · rw [hcs] at h2
        cases e <;> exact ⟨h2.1.log, fun res h => by cases h⟩
      · rw [hcs] at h2
        exact absurd htid (h2.2 r u rfl).1

end Dyn

/-! ### the value store of `callGraph` holds exactly the supplied values -/

section Store
open Generated

/-- every key of the value store satisfies `P` -/
def SK (P : Vtx → Prop) (c : CG) : Prop := ∀ p ∈ c.store, P p.1

variable {P : Vtx → Prop}

theorem sk_add {c : CG} (v : Vtx) (h : SK P c) : SK P (c.add v) := h
theorem sk_edge {c : CG} (u v : Vtx) (w : Int) (h : SK P c) : SK P (c.edge u v w) := h

theorem sk_addValued {c : CG} (v : Vtx) (x : Val) (h : SK P c) (hv : P v) : SK P (c.addValued v x) := by
  intro p hp
  have hp' : p ∈ mapSet c.store v x := hp
  unfold mapSet at hp'
  rcases List.mem_append.1 hp' with hp' | hp'
  · exact h p (List.mem_filter.1 hp').1
  · rw [List.mem_singleton] at hp'
    subst hp'
    exact hv

theorem sk_funcGraph {c : CG} (f : FuncDesc) (io : Bool) (h : SK P c) : SK P (funcGraph c f io) := by
  unfold funcGraph
  dsimp only
  have h2 : SK P (if f.input.empty = true then (c.add (Vtx.func f.key)).edge (Vtx.func f.key) .root weightNormal
      else c.add (Vtx.func f.key)) := by
    split <;> exact h
  have h3 := CGE.foldl_inv' (SK P) (fun (c : CG) (val : SVal) =>
      if val.lab.name ≠ "" then
        (c.add (.value val.lab.name val.lab.ty val.lab.sub)).edge (Vtx.func f.key)
          (.value val.lab.name val.lab.ty val.lab.sub) weightNormal
      else
        (c.add (.arg val.lab.ty val.lab.sub)).edge (Vtx.func f.key) (.arg val.lab.ty val.lab.sub) weightTyped)
    (by
      intro c val hc
      split <;> exact hc)
    f.input.values _ h2
  split
  · exact h3
  · apply CGE.foldl_inv' (SK P)
    · intro c p hc; exact hc
    · apply CGE.foldl_inv' (SK P)
      · intro c p hc; exact hc
      · exact h3

theorem sk_inputsCG (c : CG) (b : Builder) (h : SK P c) (hin : ∀ u ∈ Prune.inputsList b, P u) :
    SK P (Prune.inputsCG c b) := by
  rw [Prune.inputsCG_eq]
  rw [Prune.inputsList_eq] at hin
  apply CGE.foldl_inv (SK P) (fun vx => vx ∈ Prune.inputsPairs b)
  · intro c vx hvx hc
    exact sk_edge _ _ _ (sk_addValued _ _ hc (hin _ (List.mem_map.2 ⟨vx, hvx, rfl⟩)))
  · exact fun _ hx => hx
  · exact h

theorem sk_phaseR3 {c : CG} (h : SK P c) : SK P (phaseR3 c) := by
  unfold phaseR3
  apply CGE.foldl_inv' (SK P)
  · intro c v hc
    dsimp only
    split <;> exact hc
  · exact h

theorem sk_phaseR4 {c : CG} (h : SK P c) : SK P (phaseR4 c) := by
  unfold phaseR4
  apply CGE.foldl_inv' (SK P)
  · intro c v hc; exact hc
  · exact h

theorem sk_nested {c : CG} (p : Vtx → Bool) (q : Vtx → Vtx → Bool) (w : Int) (h : SK P c) :
    SK P ((c.g.verts.filter p).foldl (fun c v =>
      (c.g.verts.filter (q v)).foldl (fun c v2 => c.edge v v2 w) c) c) := by
  apply CGE.foldl_inv' (SK P)
  · intro c v hc
    apply CGE.foldl_inv' (SK P)
    · intro c v2 hc; exact hc
    · exact hc
  · exact h

theorem sk_phaseR5 {e : TypeEnv} {sk : Bool} {c : CG} (h : SK P c) : SK P (phaseR5 e sk c) := by
  unfold phaseR5
  exact sk_nested _ (fun v v2 => v2.isOut && decide (v2 ≠ v) && e.impl v2.ty v.ty && !(sk && v2.ty == v.ty)) _ h

theorem sk_phaseR6 {nt : Bool} {c : CG} (h : SK P c) : SK P (phaseR6 nt c) := by
  unfold phaseR6
  exact sk_nested _ (fun v v2 => v2.isValue && v2.ty == v.ty && v2.sub != "" && !(nt && v2.name != v.name)) _ h

theorem sk_phaseR7 {c : CG} (h : SK P c) : SK P (phaseR7 c) := by
  unfold phaseR7
  dsimp only
  exact sk_nested _ (fun v v2 => v2.isOut && v2.ty == v.ty && v2.sub == "") _
    (sk_nested _ (fun v v2 => v2.isOut && v2.ty == v.ty && v2.sub != "") _ h)

theorem sk_prune {c : CG} (t : Vtx) (h : SK P c) : SK P (prune c t) := by
  unfold prune
  dsimp only
  apply CGE.foldl_inv' (SK P)
  · intro c v hc; exact hc
  · exact h

/-- every key of the value store of a `Call` graph is the vertex of a supplied value -/
theorem callGraph_store_inputs (e : TypeEnv) (b : Builder) (funcs : Nat → Option FuncDesc)
    (target : FuncDesc) :
    SK (fun u => u ∈ Prune.inputsList b) (callGraph {} e b funcs target false none).cg := by
  rw [Prune.callGraph_eq]
  dsimp only
  apply sk_prune
  unfold Prune.pre
  apply sk_phaseR7
  apply sk_phaseR6
  apply sk_phaseR5
  apply sk_phaseR4
  apply sk_phaseR3
  refine CGE.foldl_inv' (SK (fun u => u ∈ Prune.inputsList b)) (Prune.convStep funcs) ?_ _ _ ?_
  · intro c fid hc
    unfold Prune.convStep
    split
    · exact sk_funcGraph _ _ hc
    · exact hc
  · refine sk_inputsCG _ _ ?_ (fun u hu => hu)
    unfold Prune.base
    apply sk_funcGraph
    intro p hp
    cases hp

end Store

/-! ### the instance for `Call`: derivable origins -/

section Static
variable (e : TypeEnv) (sup : List Label) (convs : List FuncDesc)

/-- every parameter of `f` has a compatible derivable label -/
def Sat (f : FuncDesc) : Prop :=
  ∀ q ∈ f.input.labels, ∃ o, Deriv e sup convs o ∧ compatB e q o = true

theorem sat_of_gather (ht : ImplTrans e) (ha : ImplAntisym e) {g : AGraph Vtx} (hg : EdgeOK e g)
    (f : FuncDesc) (am : ArgMap) (args : List PVal) (ham : AmOK g am)
    (hamd : AmD (fun v => Deriv e sup convs v.label) am) (h : gatherArgs e f am = .ok args) :
    Sat e sup convs f := by
  rw [gatherArgs_eq] at h
  obtain ⟨_, h2⟩ := gStep_fold e am _ _ _ h
  intro q hq
  obtain ⟨v, hv, rfl⟩ := List.mem_map.1 hq
  cases hm : mapGet am v.lab.vertex with
  | none => have := h2 v hv; rw [hm] at this; cases this
  | some a =>
    obtain ⟨hor, hfl⟩ := ham _ _ hm
    refine ⟨a.org.label, hamd _ _ hm, ?_⟩
    have := FlowCompat.flow_compat e ht ha a.org v.lab.vertex hor (FlowCompat.Label.vertex_isParam _)
      (FlowCompat.flow_ruleFlow hg hfl)
    rwa [FlowCompat.Label.vertex_label] at this

theorem deriv_outputs (f : FuncDesc) (hf : f ∈ convs) (hsat : Sat e sup convs f) (l : Label)
    (hl : l ∈ f.output.labels) : Deriv e sup convs l := by
  classical
  refine Deriv.output
    (fun q => if h : ∃ o, Deriv e sup convs o ∧ compatB e q o = true then Classical.choose h else default)
    hf hl ?_ ?_
  · intro q hq
    have h := hsat q hq
    simp only [dif_pos h]
    exact (Classical.choose_spec h).1
  · intro q hq
    have h := hsat q hq
    simp only [dif_pos h]
    exact (Classical.choose_spec h).2

/-- the vertex created from an entry of a well-keyed output set carries that entry's label -/
theorem edgeP_label (f : FuncDesc) (hk : ValueSet.KeysOK f.output) (v : Vtx)
    (h : (∃ p ∈ f.output.named, v = .value p.1 p.2.lab.ty p.2.lab.sub) ∨
         (∃ p ∈ f.output.typed, v = .out p.2.lab.ty p.2.lab.sub)) :
    v.label ∈ f.output.labels := by
  rcases h with ⟨p, hp, rfl⟩ | ⟨p, hp, rfl⟩
  · obtain ⟨hv, hn, _⟩ := hk.1 p hp
    refine List.mem_map.2 ⟨p.2, hv, ?_⟩
    simp only [Vtx.label, hn]
  · obtain ⟨hv, _, hn⟩ := hk.2 p hp
    refine List.mem_map.2 ⟨p.2, hv, ?_⟩
    simp only [Vtx.label, ← hn]

end Static

section Instance
variable (e : TypeEnv) (b : Builder) (funcs : Nat → Option FuncDesc) (target : FuncDesc) (sup : List Label)

/-- derivable origin -/
def DO (v : Vtx) : Prop := Deriv e sup (b.convs.filterMap funcs) v.label

theorem hyp_std (ht : ImplTrans e) (ha : ImplAntisym e)
    (hc : C01.FuncsConsistent (C01.allFuncs b funcs target))
    (hid : ∀ f ∈ C01.allFuncs b funcs target, f.id = target.id → f = target)
    (hids : ∀ f ∈ b.convs.filterMap funcs, ∀ g ∈ b.convs.filterMap funcs,
      f.once = true → g.once = true → f.id = g.id → f.key = g.key)
    (p : Label) (hp : p ∈ target.input.labels)
    (hu : ∀ o, Deriv e sup (b.convs.filterMap funcs) o → compatB e p o = false)
    (c : Ctx) (henv : c.env = e) (hg : EdgeOK e c.g)
    (hgi : ∀ x y, c.g.hasEdge x y = true → CGF.EdgeP (b.convs.filterMap funcs) x y)
    (hfun : ∀ k f, c.funcOf k = some f → f ∈ C01.allFuncs b funcs target) :
    Hyp c (DO e b funcs sup) target.id (C01.allFuncs b funcs target) := by
  refine ⟨hfun, ?_, ?_⟩
  · intro f hfF am args ham hamd hargs
    rw [henv] at hargs
    have hsat : Sat e sup (b.convs.filterMap funcs) f :=
      sat_of_gather e sup _ ht ha hg f am args ham hamd hargs
    refine ⟨?_, ?_⟩
    · intro hfid
      have := hid f hfF hfid
      subst this
      obtain ⟨o, ho, hco⟩ := hsat p hp
      rw [hu o ho] at hco
      cases hco
    · intro v hv
      obtain ⟨f', hf', hk', hcase⟩ := hgi v (.func f.key) (CGF.hasEdge_of_mem_ins _ _ _ hv)
      have hf'F : f' ∈ C01.allFuncs b funcs target := List.mem_cons_of_mem _ hf'
      obtain ⟨hin, hout⟩ := hc.1 f' hf'F f hfF hk'
      have hsat' : Sat e sup (b.convs.filterMap funcs) f' := by
        intro q hq
        rw [hin] at hq
        exact hsat q hq
      exact deriv_outputs e sup _ f' hf' hsat' _ (edgeP_label f' (hc.2 f' hf'F).2 v hcase)
  · intro f hfF g hgF hfo hgo hfg hne
    have hfc : f ∈ b.convs.filterMap funcs := by
      rcases List.mem_cons.1 hfF with rfl | h
      · exact absurd rfl hne
      · exact h
    have hgc : g ∈ b.convs.filterMap funcs := by
      rcases List.mem_cons.1 hgF with rfl | h
      · exact absurd hfg hne
      · exact h
    exact hids f hfc g hgc hfo hgo hfg

theorem initSt_d (hsup : ∀ u ∈ Prune.inputsList b, u.label ∈ sup) (orc : List OrcItem)
    (c : Ctx) (F : List FuncDesc) (tid : Nat) :
    DInv c (DO e b funcs sup) tid F (initSt (callGraph {} e b funcs target false none).cg [] orc) := by
  refine ⟨?_, ?_, ?_, ?_⟩
  · intro x v hv
    have hm := mem_of_mapGet hv
    simp only [initSt, List.mem_map, Prod.mk.injEq] at hm
    obtain ⟨q, hq, rfl, rfl⟩ := hm
    exact Deriv.supplied (hsup _ (callGraph_store_inputs e b funcs target q hq))
  · intro v h; simp [initSt] at h
  · intro p h; simp [initSt] at h
  · intro ev h; simp [initSt] at h

/-- **C02, execution level** (in terms of an arbitrary list `sup` containing the supplied labels) -/
theorem refused_core (ht : ImplTrans e) (ha : ImplAntisym e)
    (hc : C01.FuncsConsistent (C01.allFuncs b funcs target))
    (hid : ∀ f ∈ C01.allFuncs b funcs target, f.id = target.id → f = target)
    (hids : ∀ f ∈ b.convs.filterMap funcs, ∀ g ∈ b.convs.filterMap funcs,
      f.once = true → g.once = true → f.id = g.id → f.key = g.key)
    (hsup : ∀ u ∈ Prune.inputsList b, u.label ∈ sup)
    (p : Label) (hp : p ∈ target.input.labels)
    (hu : ∀ o, Deriv e sup (b.convs.filterMap funcs) o → compatB e p o = false)
    (beh : Nat → Nat → List PVal → BehOut) (fuel : Nat) (orc : List OrcItem) :
    (∀ ev ∈ (callWith (C01.stdCtx e b funcs target beh) (callGraph {} e b funcs target false none) target fuel
              (initSt (callGraph {} e b funcs target false none).cg [] orc)).2.log, ev.fid ≠ target.id) ∧
    (∀ res, (callWith (C01.stdCtx e b funcs target beh) (callGraph {} e b funcs target false none) target fuel
              (initSt (callGraph {} e b funcs target false none).cg [] orc)).1 ≠ .ok res) := by
  have henv : (C01.stdCtx e b funcs target beh).env = e := rfl
  have hcg : (C01.stdCtx e b funcs target beh).g = (callGraph {} e b funcs target false none).cg.g := by
    simp only [C01.stdCtx]
  have hg : EdgeOK (C01.stdCtx e b funcs target beh).env (C01.stdCtx e b funcs target beh).g := by
    rw [henv, hcg]; exact C01.callGraph_edges e b funcs target false none
  have hgi : ∀ x y, (C01.stdCtx e b funcs target beh).g.hasEdge x y = true →
      CGF.EdgeP (b.convs.filterMap funcs) x y := by
    rw [hcg]; exact CGF.ginv_callGraph {} e b funcs target none
  have hfun : ∀ k f, (C01.stdCtx e b funcs target beh).funcOf k = some f →
      f ∈ C01.allFuncs b funcs target := by
    intro k f hfo
    simp only [C01.stdCtx] at hfo
    exact List.mem_of_find?_eq_some hfo
  have H := hyp_std e b funcs target sup ht ha hc hid hids p hp hu (C01.stdCtx e b funcs target beh) henv
    (henv ▸ hg) hgi hfun
  have hnar : ∀ t s, (C01.stdCtx e b funcs target beh).g.hasEdge (.arg t s) .root = false := by
    intro t s
    rw [hcg]
    exact C01.callGraph_no_arg_root e b funcs target none t s
  have hs : Inv (C01.stdCtx e b funcs target beh)
      (initSt (callGraph {} e b funcs target false none).cg [] orc) := by
    refine ⟨?_, fun ev h => by simp [initSt] at h⟩
    rw [hcg]
    exact ReachSound.initSt_storeOK _ [] orc (C01.callGraph_store_origin e b funcs target false none)
  exact callWith_refused H hg (C01.stdCtx_funcsOK e b funcs target beh hc) hnar _ target
    List.mem_cons_self rfl rfl fuel _ hs (initSt_d e b funcs target sup hsup orc _ _ _)

end Instance

/-! ### counterexample to the statement without the hypothesis on run-once ids

Two run-once converters with the same `id` (memo key) but different Go types: `fA : () → A` and
`fB : (A, W) → B`, nothing supplies `W`.  `B` is underivable, yet `fB` is never executed — `callDirect`
finds the memo cell `fA` left under the shared id and `outputValues` writes `fB`'s outputs from it. -/
namespace Cex

def e0 : TypeEnv := { isIface := fun _ => false, impl := fun _ _ => false }
def lA : Label := ⟨"", 1, ""⟩
def lB : Label := ⟨"", 2, ""⟩
def lW : Label := ⟨"", 3, ""⟩
def vs (ls : List Label) : ValueSet :=
  { hasStruct := true, ptrs := 0, values := ls.zipIdx.map (fun p => ⟨p.1, p.2⟩),
    named := [], typed := ls.zipIdx.map (fun p => (p.1.ty, ⟨p.1, p.2⟩)), lifted := false }
def fA : FuncDesc := { id := 7, key := 1, input := ValueSet.nil, output := vs [lA], hasErr := false, once := true }
def fB : FuncDesc := { id := 7, key := 2, input := vs [lA, lW], output := vs [lB], hasErr := false, once := true }
def tgt : FuncDesc := { id := 0, key := 0, input := vs [lA, lB], output := ValueSet.nil, hasErr := false, once := false }
def b0 : Builder := ⟨[], [], [], [], [1, 2], [], none, none, false, 0⟩
def funcs0 : Nat → Option FuncDesc := fun i => if i = 1 then some fA else if i = 2 then some fB else none
def beh0 : Nat → Nat → List PVal → BehOut := fun _ _ _ => { outs := [5], err := none }
def orc0 : List OrcItem :=
  [ { target := .func 0, missing := [.arg 1 "", .arg 2 ""],
      paths := [[.root, .func 1, .out 1 "", .arg 1 ""],
                [.root, .func 1, .out 1 "", .arg 1 "", .func 2, .out 2 "", .arg 2 ""]] },
    { target := .func 1, missing := [], paths := [] },
    { target := .func 1, missing := [], paths := [] },
    { target := .func 2, missing := [], paths := [] } ]

theorem convs_eq : b0.convs.filterMap funcs0 = [fA, fB] := rfl

theorem deriv_only_A (sup : List Label) (hs : sup = []) (o : Label) (h : Deriv e0 sup [fA, fB] o) : o = lA := by
  induction h with
  | supplied h => subst hs; cases h
  | @output f l w hf hl _ hc ih =>
    simp only [List.mem_cons, List.not_mem_nil, or_false] at hf
    rcases hf with rfl | rfl
    · have : l ∈ [lA] := hl
      simpa using this
    · have hW : lW ∈ fB.input.labels := by decide
      have h1 := ih lW hW
      have h2 := hc lW hW
      rw [h1] at h2
      exact absurd h2 (by decide)

theorem underivable_B (sup : List Label) (hs : sup = []) :
    ∀ o, Deriv e0 sup (b0.convs.filterMap funcs0) o → compatB e0 lB o = false := by
  intro o h
  rw [convs_eq] at h
  rw [deriv_only_A sup hs o h]
  decide

theorem consistent : C01.FuncsConsistent (C01.allFuncs b0 funcs0 tgt) := by
  have hl : C01.allFuncs b0 funcs0 tgt = [tgt, fA, fB] := rfl
  rw [hl]
  refine ⟨?_, ?_⟩
  · intro f hf g hg hk
    simp only [List.mem_cons, List.not_mem_nil, or_false] at hf hg
    rcases hf with rfl | rfl | rfl <;> rcases hg with rfl | rfl | rfl <;>
      first
        | exact ⟨rfl, rfl⟩
        | exact absurd hk (by decide)
  · intro f hf
    simp only [List.mem_cons, List.not_mem_nil, or_false] at hf
    rcases hf with rfl | rfl | rfl <;> (unfold ValueSet.KeysOK; decide)

theorem target_id : ∀ f ∈ C01.allFuncs b0 funcs0 tgt, f.id = tgt.id → f = tgt := by
  have hl : C01.allFuncs b0 funcs0 tgt = [tgt, fA, fB] := rfl
  rw [hl]
  intro f hf hid
  simp only [List.mem_cons, List.not_mem_nil, or_false] at hf
  rcases hf with rfl | rfl | rfl
  · rfl
  · exact absurd hid (by decide)
  · exact absurd hid (by decide)

set_option maxRecDepth 100000 in
theorem run :
    ((callWith (C01.stdCtx e0 b0 funcs0 tgt beh0) (callGraph {} e0 b0 funcs0 tgt false none) tgt 5
        (initSt (callGraph {} e0 b0 funcs0 tgt false none).cg [] orc0)).2.log.map (·.fid)) = [7, 0] ∧
    (callWith (C01.stdCtx e0 b0 funcs0 tgt beh0) (callGraph {} e0 b0 funcs0 tgt false none) tgt 5
        (initSt (callGraph {} e0 b0 funcs0 tgt false none).cg [] orc0)).1 = .ok { outs := [5], err := none } := by
  decide

end Cex

end ArgMapper.Refused
