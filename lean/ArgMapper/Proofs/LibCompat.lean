import ArgMapper.Spec.Flow
import ArgMapper.Proofs.FlowCompat
/-!
# Helper lemmas for C13 (continued): `libCompatB` is exactly what the edge rules realise

`FlowCompat.ruleFlow_out` / `FlowCompat.ruleFlow_value` characterise what can flow to an out / value
vertex; `ruleFlow_arg` below does the same for arg vertices.  The converse lemmas build the explicit
chains.  `ruleFlow_value_iff`, `ruleFlow_arg_iff` are the exact characterisations, from which the
comparison with `libCompatB` is a case split on which of the two labels are named.
-/
namespace ArgMapper.LibCompat
open ArgMapper ArgMapper.FlowCompat

/-- what can flow to an arg vertex -/
def ArgReach (e : TypeEnv) (o : Vtx) (t : Nat) (s : String) : Prop :=
  o = .arg t s ∨
  (∃ n s0, o = .value n t s0 ∧ (s = "" ∨ s = s0)) ∨
  (∃ t' s', o = .out t' s' ∧
    ((t' = t ∧ (s' = s ∨ s = "" ∨ s' = "")) ∨ (e.isIface t = true ∧ e.impl t' t = true ∧ t' ≠ t)))

theorem argReach_of_outReach {e : TypeEnv} {o : Vtx} {t : Nat} {s s' : String}
    (h : OutReach e o t s') (hs : s' = s ∨ s = "" ∨ s' = "") : ArgReach e o t s := by
  obtain ⟨t', s'', ho, hc⟩ := h
  refine .inr (.inr ⟨t', s'', ho, ?_⟩)
  rcases hc with ⟨h1, h2⟩ | hc
  · subst h1; subst h2; exact .inl ⟨rfl, hs⟩
  · exact .inr hc

theorem ruleFlow_arg {e : TypeEnv} (ht : ImplTrans e) (ha : ImplAntisym e) {o : Vtx} {t : Nat} {s : String}
    (h : RuleFlow e o (.arg t s)) : ArgReach e o t s := by
  cases h with
  | here _ => exact .inl rfl
  | step hd he hr =>
    cases he with
    | redefineRoot _ _ => exact (not_ruleFlow_root hr).elim
    | inputRoot _ _ => exact (not_ruleFlow_root hr).elim
    | outputFunc _ _ _ => exact (not_ruleFlow_func hr).elim
    | argValue n _ s0 _ hss =>
      rcases ruleFlow_value ht ha hr with h1 | ⟨s'', h2, hs, _⟩ | ⟨t', s'', ho', hc⟩
      · exact .inr (.inl ⟨n, s0, h1, hss⟩)
      · subst hs
        have : s = "" := by rcases hss with h | h <;> exact h
        exact .inr (.inl ⟨n, s'', h2, .inl this⟩)
      · exact argReach_of_outReach (s' := "") ⟨t', s'', ho', hc⟩ (.inr (.inr rfl))
    | argOut _ _ => exact argReach_of_outReach (ruleFlow_out ht ha hr) (.inl rfl)
    | argOutSub _ _ s' hss =>
      refine argReach_of_outReach (ruleFlow_out ht ha hr) ?_
      rcases hss with ⟨h, _⟩ | ⟨_, h⟩
      · exact .inr (.inl h)
      · exact .inr (.inr h)

/-! ## the explicit chains -/

theorem here_out (e : TypeEnv) (t : Nat) (s : String) : RuleFlow e (.out t s) (.out t s) := .here rfl
theorem here_value (e : TypeEnv) (n : String) (t : Nat) (s : String) :
    RuleFlow e (.value n t s) (.value n t s) := .here rfl

/-- every `OutReach` is realised (by zero or one `ifaceOut` step) -/
theorem ruleFlow_of_outReach {e : TypeEnv} {o : Vtx} {i : Nat} {s : String} (h : OutReach e o i s) :
    RuleFlow e o (.out i s) := by
  obtain ⟨t', s', ho, hc⟩ := h
  subst ho
  rcases hc with ⟨h1, h2⟩ | ⟨hi, him, hne⟩
  · subst h1; subst h2; exact here_out e _ _
  · exact .step rfl (.ifaceOut i s t' s' hi him hne) (here_out e _ _)

/-- every `ValueReach` is realised -/
theorem ruleFlow_of_valueReach {e : TypeEnv} {o : Vtx} {n : String} {t : Nat} {s : String}
    (h : ValueReach e o n t s) : RuleFlow e o (.value n t s) := by
  rcases h with h1 | ⟨s', h2, hs, hs'⟩ | ⟨t', s', ho, hc⟩
  · subst h1; exact here_value e _ _ _
  · subst h2; subst hs
    exact .step rfl (.valueValue n t s' hs') (here_value e _ _ _)
  · exact .step rfl (.valueOut n t s) (ruleFlow_of_outReach ⟨t', s', ho, hc⟩)

/-- every `ArgReach` is realised -/
theorem ruleFlow_of_argReach {e : TypeEnv} {o : Vtx} {t : Nat} {s : String}
    (h : ArgReach e o t s) : RuleFlow e o (.arg t s) := by
  rcases h with h1 | ⟨n, s0, h2, hs⟩ | ⟨t', s', ho, hc⟩
  · subst h1; exact .here rfl
  · subst h2
    exact .step rfl (.argValue n t s0 s hs) (here_value e _ _ _)
  · subst ho
    rcases hc with ⟨h1, hs⟩ | hif
    · subst h1
      by_cases hss : s' = s
      · subst hss; exact .step rfl (.argOut t' s') (here_out e _ _)
      · have hx : (s = "" ∧ s' ≠ "") ∨ (s ≠ "" ∧ s' = "") := by
          rcases hs with h | h | h
          · exact (hss h).elim
          · subst h; exact .inl ⟨rfl, hss⟩
          · subst h; exact .inr ⟨fun h => hss h.symm, rfl⟩
        exact .step rfl (.argOutSub t' s s' hx) (here_out e _ _)
    · exact .step rfl (.argOut t s) (ruleFlow_of_outReach ⟨t', s', rfl, .inr hif⟩)

theorem ruleFlow_value_iff {e : TypeEnv} (ht : ImplTrans e) (ha : ImplAntisym e) {o : Vtx} {n : String}
    {t : Nat} {s : String} : RuleFlow e o (.value n t s) ↔ ValueReach e o n t s :=
  ⟨ruleFlow_value ht ha, ruleFlow_of_valueReach⟩

theorem ruleFlow_arg_iff {e : TypeEnv} (ht : ImplTrans e) (ha : ImplAntisym e) {o : Vtx}
    {t : Nat} {s : String} : RuleFlow e o (.arg t s) ↔ ArgReach e o t s :=
  ⟨ruleFlow_arg ht ha, ruleFlow_of_argReach⟩

/-! ## comparison with `libCompatB`, by the four name cases -/

/-- named origin → named parameter -/
theorem lib_value_value (e : TypeEnv) (pn : String) (pt : Nat) (ps : String) (on : String) (ot : Nat)
    (os : String) (hp : pn ≠ "") (ho : on ≠ "") :
    ValueReach e (.value on ot os) pn pt ps ↔
      libCompatB e { name := pn, ty := pt, sub := ps } { name := on, ty := ot, sub := os } = true := by
  simp only [libCompatB, ValueReach, bne_iff_ne, ne_eq, hp, ho, not_false_eq_true, if_true,
    Bool.or_eq_true, Bool.and_eq_true, beq_iff_eq, Label.mk.injEq, Vtx.value.injEq]
  constructor
  · rintro (⟨h1, h2, h3⟩ | ⟨s', ⟨h1, h2, h3⟩, h4, h5⟩ | ⟨t', s', h, _⟩)
    · exact .inl ⟨h1, h2, h3⟩
    · subst h3; exact .inr ⟨⟨⟨h4, h2⟩, h5⟩, h1⟩
    · cases h
  · rintro (⟨h1, h2, h3⟩ | ⟨⟨⟨h4, h2⟩, h5⟩, h1⟩)
    · exact .inl ⟨h1, h2, h3⟩
    · exact .inr (.inl ⟨os, ⟨h1, h2, rfl⟩, h4, h5⟩)

/-- type-only origin → named parameter -/
theorem lib_value_out (e : TypeEnv) (pn : String) (pt : Nat) (ps : String) (ot : Nat)
    (os : String) (hp : pn ≠ "") :
    ValueReach e (.out ot os) pn pt ps ↔
      libCompatB e { name := pn, ty := pt, sub := ps } { name := "", ty := ot, sub := os } = true := by
  simp only [libCompatB, ValueReach, bne_iff_ne, ne_eq, hp, not_false_eq_true, if_true,
    not_true_eq_false, if_false, Bool.or_eq_true, Bool.and_eq_true, beq_iff_eq]
  constructor
  · rintro (h | ⟨s', h, _⟩ | ⟨t', s', h, hc⟩)
    · cases h
    · cases h
    · cases h
      rcases hc with hc | ⟨h1, h2, h3⟩
      · exact .inl hc
      · exact .inr ⟨⟨h1, h2⟩, h3⟩
  · rintro (hc | ⟨⟨h1, h2⟩, h3⟩)
    · exact .inr (.inr ⟨ot, os, rfl, .inl hc⟩)
    · exact .inr (.inr ⟨ot, os, rfl, .inr ⟨h1, h2, h3⟩⟩)

/-- named origin → type-only parameter -/
theorem lib_arg_value (e : TypeEnv) (pt : Nat) (ps : String) (on : String) (ot : Nat)
    (os : String) (ho : on ≠ "") :
    ArgReach e (.value on ot os) pt ps ↔
      libCompatB e { name := "", ty := pt, sub := ps } { name := on, ty := ot, sub := os } = true := by
  simp only [libCompatB, ArgReach, bne_iff_ne, ne_eq, ho, not_false_eq_true, if_true,
    not_true_eq_false, if_false, Bool.or_eq_true, Bool.and_eq_true, beq_iff_eq]
  constructor
  · rintro (h | ⟨n, s0, h, hs⟩ | ⟨t', s', h, _⟩)
    · cases h
    · cases h; exact ⟨rfl, hs⟩
    · cases h
  · rintro ⟨h1, hs⟩
    subst h1
    exact .inr (.inl ⟨on, os, rfl, hs⟩)

/-- type-only origin → type-only parameter -/
theorem lib_arg_out (e : TypeEnv) (pt : Nat) (ps : String) (ot : Nat) (os : String) :
    ArgReach e (.out ot os) pt ps ↔
      libCompatB e { name := "", ty := pt, sub := ps } { name := "", ty := ot, sub := os } = true := by
  simp only [libCompatB, ArgReach, bne_iff_ne, ne_eq, not_true_eq_false, if_false,
    Bool.or_eq_true, Bool.and_eq_true, beq_iff_eq]
  constructor
  · rintro (h | ⟨n, s0, h, _⟩ | ⟨t', s', h, hc⟩)
    · cases h
    · cases h
    · cases h
      rcases hc with ⟨h1, h2 | h2 | h2⟩ | ⟨h1, h2, h3⟩
      · exact .inl ⟨h1, .inl (.inl h2.symm)⟩
      · exact .inl ⟨h1, .inl (.inr h2)⟩
      · exact .inl ⟨h1, .inr h2⟩
      · exact .inr ⟨⟨h1, h2⟩, h3⟩
  · rintro (⟨h1, (h2 | h2) | h2⟩ | ⟨⟨h1, h2⟩, h3⟩)
    · exact .inr (.inr ⟨ot, os, rfl, .inl ⟨h1, .inl h2.symm⟩⟩)
    · exact .inr (.inr ⟨ot, os, rfl, .inl ⟨h1, .inr (.inl h2)⟩⟩)
    · exact .inr (.inr ⟨ot, os, rfl, .inl ⟨h1, .inr (.inr h2)⟩⟩)
    · exact .inr (.inr ⟨ot, os, rfl, .inr ⟨h1, h2, h3⟩⟩)

/-- `gapClass` is `"none"` or one of the five recorded classes -/
theorem gapClass_cases (e : TypeEnv) (p o : Label) :
    (gapClass e p o = "none" ∧ (compatB e p o = false ∨ libCompatB e p o = true)) ∨
    gapClass e p o ∈ ["G1_named_value_of_implementing_type_to_named_interface_parameter",
      "G2_named_value_of_implementing_type_to_typed_interface_parameter",
      "G3_named_value_without_subtype_to_typed_parameter_with_subtype",
      "G4_named_value_without_subtype_to_same-named_parameter_with_subtype",
      "G5_typed_value_with_subtype_to_named_parameter_of_that_type"] := by
  unfold gapClass
  split
  · next h =>
    left
    refine ⟨rfl, ?_⟩
    simpa using h
  · right
    split
    · split <;> simp
    · split
      · simp
      · split <;> simp

end ArgMapper.LibCompat
