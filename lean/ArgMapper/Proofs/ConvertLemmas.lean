import ArgMapper.Model.Convert
import ArgMapper.Proofs.Sig
import ArgMapper.Proofs.ReachSound
/-!
# Helper lemmas for C10: the identity function's signature; the last execution of a successful call
-/
namespace ArgMapper.ConvertLemmas
open ArgMapper

/-! ### the signature of `func(T) T` -/

/-- the value set of the one-parameter positional list `[T]` -/
def singleVS (T : Nat) : ValueSet :=
  { hasStruct := true, ptrs := 0, values := [liftedVal 0 T],
    named := [liftedVal 0 T].foldl namedStep [],
    typed := [liftedVal 0 T].foldl typedStep [], lifted := true }

theorem newValueSet_single (T : Nat) : newValueSet [.plain T] = .ok (singleVS T) := by
  have hns : ∀ p ∈ [Param.plain T], p.isStruct = false := by
    intro p hp; simp at hp; subst hp; rfl
  rw [newValueSet_eq_lifted _ hns (by simp), newValueSetLifted_eq _ hns]
  rfl

theorem newValueSet_nil : newValueSet [] = .ok ValueSet.nil := rfl

theorem singleVS_labels (T : Nat) : (singleVS T).labels = [⟨"", T, ""⟩] := rfl

theorem singleVS_values (T : Nat) : (singleVS T).values = [liftedVal 0 T] := rfl

theorem identitySig_ne (T : Nat) (hT : T ≠ errorTy) :
    identitySig T = .ok { input := singleVS T, output := singleVS T, hasErr := false } := by
  unfold identitySig newFunc
  have hb : (T == errorTy) = false := by simpa using hT
  simp [newValueSet_single, hb]

theorem identitySig_error :
    identitySig errorTy = .ok { input := singleVS errorTy, output := ValueSet.nil, hasErr := true } := by
  unfold identitySig newFunc
  simp [newValueSet_single, newValueSet_nil]

theorem identityDesc_ne (id key T : Nat) (hT : T ≠ errorTy) :
    identityDesc id key T =
      some { id := id, key := key, input := singleVS T, output := singleVS T, hasErr := false, once := false } := by
  unfold identityDesc
  rw [identitySig_ne T hT]

theorem identityDesc_error (id key : Nat) :
    identityDesc id key errorTy =
      some { id := id, key := key, input := singleVS errorTy, output := ValueSet.nil, hasErr := true,
             once := false } := by
  unfold identityDesc
  rw [identitySig_error]

/-! ### `convert` as a case analysis on the call's outcome -/

theorem convert_value_iff (c : Ctx) (cgr : CallGraphResult) (ident : FuncDesc) (fuel : Nat) (s0 : CallSt) (v : Nat) :
    convert c cgr ident fuel s0 = .value v ↔
      ∃ r, (callWith { c with beh := withIdentity ident.id c.beh } cgr ident fuel s0).1 = .ok r ∧
        r.outs.head? = some v := by
  unfold convert
  generalize (callWith { c with beh := withIdentity ident.id c.beh } cgr ident fuel s0).1 = o
  cases o with
  | ok r =>
    cases ho : r.outs with
    | nil => simp [ho]
    | cons x xs =>
      simp only [ho]
      constructor
      · intro h; cases h; exact ⟨r, rfl, by simp [ho]⟩
      · rintro ⟨r', h1, h2⟩
        cases h1
        simp [ho] at h2
        rw [h2]
  | _ => simp

theorem convert_failed (c : Ctx) (cgr : CallGraphResult) (ident : FuncDesc) (fuel : Nat) (s0 : CallSt) (o : Outcome)
    (h : convert c cgr ident fuel s0 = .failed o) :
    o = (callWith { c with beh := withIdentity ident.id c.beh } cgr ident fuel s0).1 := by
  unfold convert at h
  generalize (callWith { c with beh := withIdentity ident.id c.beh } cgr ident fuel s0).1 = o' at h
  cases o' with
  | ok r =>
    cases ho : r.outs with
    | nil => simp [ho] at h; exact h.symm
    | cons x xs => simp [ho] at h
  | _ => simp at h; exact h.symm

/-! ### the last execution of a successful call on a function that is not run-once -/

theorem callDirect_not_once_ok (c : Ctx) (f : FuncDesc) (am : ArgMap) (s : CallSt) (hon : f.once = false)
    (r : BehOut) (u : Bool) (s2 : CallSt) (h : callDirect c f am s = (.ok (r, u), s2)) :
    ∃ args, gatherArgs c.env f am = .ok args ∧
      r = c.beh f.id (countOf s f.id) args ∧
      s2.log = s.log ++ [{ fid := f.id, nth := countOf s f.id, args := args, params := f.input.labels, res := r }] := by
  unfold callDirect at h
  simp only [hon] at h
  cases hg : gatherArgs c.env f am with
  | error x => simp [hg] at h
  | ok args =>
    simp only [hg] at h
    simp only [Bool.false_eq_true, if_false, Prod.mk.injEq, Except.ok.injEq] at h
    obtain ⟨⟨h1, _⟩, h2⟩ := h
    refine ⟨args, rfl, h1.symm, ?_⟩
    rw [← h2, h1]

theorem callWith_ok_last (c : Ctx) (cgr : CallGraphResult) (target : FuncDesc) (fuel : Nat) (s0 : CallSt)
    (hon : target.once = false) (r : BehOut) (h : (callWith c cgr target fuel s0).1 = .ok r) :
    ∃ am s args, gatherArgs c.env target am = .ok args ∧
      r = c.beh target.id (countOf s target.id) args ∧
      (callWith c cgr target fuel s0).2.log =
        s.log ++ [{ fid := target.id, nth := countOf s target.id, args := args, params := target.input.labels,
                    res := r }] := by
  unfold callWith at h ⊢
  split at h
  · cases h
  · rename_i hu
    rw [if_neg hu]
    rcases hre : reach c false fuel [] cgr.target s0 with ⟨e | am, s⟩
    · rw [hre] at h
      cases e <;> cases h
    · rw [hre] at h
      dsimp only at h ⊢
      rcases hcd : callDirect c target am s with ⟨e | ⟨r', u⟩, s2⟩
      · rw [hcd] at h
        cases e <;> cases h
      · rw [hcd] at h
        dsimp only at h ⊢
        cases hre' : r'.err with
        | some e => simp [hre'] at h
        | none =>
          simp only [hre'] at h ⊢
          cases h
          obtain ⟨args, h1, h2, h3⟩ := callDirect_not_once_ok c target am s hon _ u s2 hcd
          exact ⟨am, s, args, h1, h2, h3⟩

/-- `gatherArgs` on a function with the single positional parameter `T` -/
theorem gatherArgs_single (e : TypeEnv) (f : FuncDesc) (am : ArgMap) (T : Nat)
    (hv : f.input.values = [liftedVal 0 T]) (args : List PVal) (h : gatherArgs e f am = .ok args) :
    ∃ a : PVal, args = [a] ∧ a.ty = T := by
  rw [ReachSound.gatherArgs_eq, hv] at h
  obtain ⟨h1, h2⟩ := ReachSound.gStep_fold e am _ _ _ h
  have := h2 (liftedVal 0 T) (by simp)
  cases hm : mapGet am (liftedVal 0 T).lab.vertex with
  | none => simp [hm] at this
  | some a =>
    refine ⟨ReachSound.argOf am (liftedVal 0 T), by simpa using h1, ?_⟩
    unfold ReachSound.argOf
    rw [hm]
    rfl

end ArgMapper.ConvertLemmas
