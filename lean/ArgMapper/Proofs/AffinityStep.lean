import ArgMapper.Proofs.DijkstraExact
/-!
# Helper lemmas for C07 (Dijkstra level): step invariants for legal pop orders, any weights

`pop_unch` / `pop_edge` characterise one `pop` on a well-formed graph.  On top of them four small
invariants, each preserved by a legal step under explicit side conditions:

* `Root`   — the source is popped first, its predecessor stays `none`;
* `Tight`  — a vertex with exactly one in-neighbour gets its distance from it and is not popped before it;
* `Merge`  — a vertex with a distinguished best in-neighbour: once that one is popped the distance and
             predecessor are final;
* `Fresh`  — a vertex none of whose in-neighbours is visited is still at `MaxInt32`.
-/
namespace ArgMapper.AffinityProofs
open ArgMapper AGraph Dijkstra DijkstraProofs
variable {α : Type} [DecidableEq α]

theorem wrap32_small {x : Int} (h0 : -2147483648 ≤ x) (h1 : x ≤ 2147483647) : wrap32 x = x := by
  unfold wrap32; omega

theorem wrap32_add {d w : Int} (hd : -100000000 ≤ d ∧ d ≤ 100000000)
    (hw : -1000000 ≤ w ∧ w ≤ 1000000) : wrap32 (d + wrap32 w) = d + w := by
  rw [wrap32_small (x := w) (by omega) (by omega), wrap32_small (by omega) (by omega)]

theorem weight_verts {g : AGraph α} (hwf : g.WF) {u v : α} {w : Int} (h : g.weight u v = some w) :
    u ∈ g.verts ∧ v ∈ g.verts := hwf.2.2 _ (weight_some_mem h)

/-! ### legal steps -/

def LegalStep (g : AGraph α) (s : DSt α) (v : α) : Prop :=
  v ∈ g.verts ∧ v ∉ s.visited ∧ ∀ x ∈ g.verts, x ∈ s.visited ∨ s.dist v ≤ s.dist x

theorem legal_foldl_inv {g : AGraph α} (P : DSt α → Prop)
    (hstep : ∀ s v, P s → LegalStep g s v → P (pop g s v)) :
    ∀ (pops : List α) (s : DSt α), P s → legalFrom g s pops = true → P (pops.foldl (pop g) s)
  | [], _, h, _ => h
  | u :: pops, s, h, hl => by
    simp only [legalFrom, Bool.and_eq_true, decide_eq_true_eq, Bool.not_eq_true',
      decide_eq_false_iff_not, List.all_eq_true, Bool.or_eq_true] at hl
    obtain ⟨⟨⟨hu, huv⟩, hmin⟩, hrest⟩ := hl
    exact legal_foldl_inv P hstep pops _ (hstep s u h ⟨hu, huv, hmin⟩) hrest

omit [DecidableEq α] in
/-- a legal step never pops `x` while some unvisited vertex is strictly closer -/
theorem not_pop_of_lt {g : AGraph α} {s : DSt α} {v x z : α} (hl : LegalStep g s v)
    (hz : z ∈ g.verts) (hzv : z ∉ s.visited) (hlt : s.dist z < s.dist x) : v ≠ x := by
  rintro rfl
  rcases hl.2.2 z hz with h | h
  · exact hzv h
  · omega

theorem run_inv {g : AGraph α} {r : α} {pops : List α} (P : DSt α → Prop)
    (hstep : ∀ s v, P s → LegalStep g s v → P (pop g s v)) (h0 : P (init r))
    (hleg : LegalPops g r pops) :
    P (run g r pops) ∧ ∀ x, x ∈ g.verts → x ∈ (run g r pops).visited := by
  refine ⟨legal_foldl_inv P hstep pops _ h0 hleg.1, fun x hx => ?_⟩
  rw [run_visited]
  exact List.mem_reverse.2 (hleg.2.2 x hx)

/-! ### one `pop` on a well-formed graph -/

theorem pop_unch {g : AGraph α} (hwf : g.WF) (s : DSt α) (v x : α)
    (h : x ∈ v :: s.visited ∨ ∀ w, g.weight v x ≠ some w) :
    (pop g s v).dist x = s.dist x ∧ (pop g s v).prev x = s.prev x := by
  obtain ⟨_, hfro, _, _, hcases⟩ := pop_facts g s v
  rcases h with h | h
  · exact hfro x h
  · rcases hcases x with hc | ⟨_, _, w, hw, _, _⟩
    · exact hc
    · exact absurd ((weight_iff_outsW hwf).1 hw) (h w)

theorem pop_edge {g : AGraph α} (hwf : g.WF) (s : DSt α) (v x : α) (w : Int)
    (hw : g.weight v x = some w) (hx : x ∉ v :: s.visited) :
    (wrap32 (s.dist v + wrap32 w) < s.dist x →
      (pop g s v).dist x = wrap32 (s.dist v + wrap32 w) ∧ (pop g s v).prev x = some v) ∧
    (s.dist x ≤ wrap32 (s.dist v + wrap32 w) →
      (pop g s v).dist x = s.dist x ∧ (pop g s v).prev x = s.prev x) := by
  obtain ⟨_, _, _, hrel, hcases⟩ := pop_facts g s v
  have hr := hrel x w ((weight_iff_outsW hwf).2 hw) hx
  rcases hcases x with hc | ⟨_, hp, w', hw', hd, hlt⟩
  · refine ⟨fun hlt => ?_, fun _ => hc⟩
    rw [hc.1] at hr; omega
  · have hww : w' = w := by
      have h2 := (weight_iff_outsW hwf).1 hw'
      rw [hw] at h2; cases h2; rfl
    subst hww
    exact ⟨fun _ => ⟨hd, hp⟩, fun hle => by omega⟩

/-- the three ways `x` can relate to the popped vertex `v` -/
theorem pop_trichotomy (g : AGraph α) (s : DSt α) (v x : α) :
    (x ∈ v :: s.visited ∨ ∀ w, g.weight v x ≠ some w) ∨
    ∃ w, g.weight v x = some w ∧ x ∉ v :: s.visited := by
  by_cases hx : x ∈ v :: s.visited
  · exact Or.inl (Or.inl hx)
  · cases hq : g.weight v x with
    | none => exact Or.inl (Or.inr (fun w hw => by cases hw))
    | some w => exact Or.inr ⟨w, rfl, hx⟩

/-! ### `Root` -/

def Root (s : DSt α) (r : α) : Prop :=
  s.prev r = none ∧ (r ∉ s.visited → s.dist r = 0 ∧ ∀ x, x ≠ r → s.dist x = maxInt32)

theorem root_init (r : α) : Root (init r) r :=
  ⟨rfl, fun _ => ⟨by simp [init], fun x hx => by simp [init, hx]⟩⟩

omit [DecidableEq α] in
/-- while the source is unvisited it is the only legal pop -/
theorem root_first {g : AGraph α} {s : DSt α} {r v : α} (hR : Root s r) (hr : r ∈ g.verts)
    (hl : LegalStep g s v) (hrv : r ∉ s.visited) : v = r := by
  apply Classical.byContradiction
  intro hne
  obtain ⟨h0, hmax⟩ := hR.2 hrv
  rcases hl.2.2 r hr with h | h
  · exact hrv h
  · rw [hmax v hne, h0] at h; simp [maxInt32] at h

theorem root_step {g : AGraph α} {s : DSt α} {r v : α} (hR : Root s r) (hr : r ∈ g.verts)
    (hl : LegalStep g s v) : Root (pop g s v) r := by
  obtain ⟨hv, hfro, _, _, _⟩ := pop_facts g s v
  by_cases hrv : r ∈ s.visited
  · refine ⟨((hfro r (List.mem_cons_of_mem _ hrv)).2).trans hR.1, fun h => ?_⟩
    rw [hv] at h
    exact absurd (List.mem_cons_of_mem _ hrv) h
  · have hvr : v = r := root_first hR hr hl hrv
    subst hvr
    refine ⟨(hfro v (List.mem_cons_self ..)).2.trans hR.1, fun h => ?_⟩
    rw [hv] at h
    exact absurd (List.mem_cons_self ..) h

/-! ### `Tight` -/

def Tight (s : DSt α) (x p : α) (d : Int) : Prop :=
  (p ∉ s.visited → x ∉ s.visited ∧ s.dist x = maxInt32) ∧
  (p ∈ s.visited → s.dist x = d ∧ s.prev x = some p)

theorem tight_init {r x p : α} (d : Int) (hx : x ≠ r) : Tight (init r) x p d :=
  ⟨fun _ => ⟨by simp [init], by simp [init, hx]⟩, fun h => by simp [init] at h⟩

theorem tight_step {g : AGraph α} (hwf : g.WF) {s : DSt α} {v x p : α} {d w : Int}
    (hT : Tight s x p d) (hin : ∀ y w', g.weight y x = some w' → y = p)
    (hw : g.weight p x = some w) (hxp : x ≠ p) (hv : v ∉ s.visited)
    (hearly : v = x → p ∈ s.visited)
    (hd : v = p → wrap32 (s.dist p + wrap32 w) = d) (hdlt : d < maxInt32) :
    Tight (pop g s v) x p d := by
  have hvis := pop_visited g s v
  by_cases hvp : v = p
  · subst hvp
    obtain ⟨hxv, hdx⟩ := hT.1 hv
    have hx : x ∉ v :: s.visited := by simp [hxp, hxv]
    have h2 := (pop_edge hwf s v x w hw hx).1 (by rw [hd rfl, hdx]; exact hdlt)
    rw [hd rfl] at h2
    refine ⟨fun h => ?_, fun _ => h2⟩
    rw [hvis] at h
    exact absurd (List.mem_cons_self ..) h
  · have hun := pop_unch hwf s v x (Or.inr (fun w' hw' => hvp (hin v w' hw')))
    refine ⟨fun h => ?_, fun h => ?_⟩
    · rw [hvis] at h ⊢
      simp only [List.mem_cons, not_or] at h ⊢
      obtain ⟨h1, h2⟩ := hT.1 h.2
      refine ⟨⟨?_, h1⟩, hun.1.trans h2⟩
      intro hxv
      exact h.2 (hearly hxv.symm)
    · rw [hvis] at h
      rcases List.mem_cons.1 h with h | h
      · exact absurd h.symm hvp
      · obtain ⟨h1, h2⟩ := hT.2 h
        exact ⟨hun.1.trans h1, hun.2.trans h2⟩

/-! ### `Merge` -/

def Merge (s : DSt α) (x b : α) (D L : Int) : Prop :=
  (b ∉ s.visited → x ∉ s.visited ∧ L ≤ s.dist x) ∧
  (b ∈ s.visited → s.dist x = D ∧ s.prev x = some b)

theorem merge_init {r x b : α} (D : Int) {L : Int} (hx : x ≠ r) (hL : L ≤ maxInt32) :
    Merge (init r) x b D L :=
  ⟨fun _ => ⟨by simp [init], by simp [init, hx, hL]⟩, fun h => by simp [init] at h⟩

theorem merge_step {g : AGraph α} (hwf : g.WF) {s : DSt α} {v x b : α} {D L wb : Int}
    (hM : Merge s x b D L) (hDL : D < L) (hxb : x ≠ b) (hw : g.weight b x = some wb)
    (hv : v ∉ s.visited) (hearly : v = x → b ∈ s.visited)
    (hb : v = b → wrap32 (s.dist b + wrap32 wb) = D)
    (hoth : v ≠ b → ∀ w, g.weight v x = some w → L ≤ wrap32 (s.dist v + wrap32 w)) :
    Merge (pop g s v) x b D L := by
  have hvis := pop_visited g s v
  by_cases hvb : v = b
  · subst hvb
    obtain ⟨hxv, hdx⟩ := hM.1 hv
    have hx : x ∉ v :: s.visited := by simp [hxb, hxv]
    have h2 := (pop_edge hwf s v x wb hw hx).1 (by rw [hb rfl]; omega)
    rw [hb rfl] at h2
    refine ⟨fun h => ?_, fun _ => h2⟩
    rw [hvis] at h
    exact absurd (List.mem_cons_self ..) h
  · have key := pop_trichotomy g s v x
    refine ⟨fun h => ?_, fun h => ?_⟩
    · rw [hvis] at h ⊢
      simp only [List.mem_cons, not_or] at h ⊢
      obtain ⟨h1, h2⟩ := hM.1 h.2
      have hvx : ¬ x = v := fun hxv => h.2 (hearly hxv.symm)
      refine ⟨⟨hvx, h1⟩, ?_⟩
      rcases key with hk | ⟨w, hw', hx⟩
      · rw [(pop_unch hwf s v x hk).1]; exact h2
      · have hL := hoth hvb w hw'
        have pe := pop_edge hwf s v x w hw' hx
        by_cases hlt : wrap32 (s.dist v + wrap32 w) < s.dist x
        · rw [(pe.1 hlt).1]; exact hL
        · rw [(pe.2 (by omega)).1]; exact h2
    · rw [hvis] at h
      rcases List.mem_cons.1 h with h | h
      · exact absurd h.symm hvb
      · obtain ⟨h1, h2⟩ := hM.2 h
        rcases key with hk | ⟨w, hw', hx⟩
        · have h3 := pop_unch hwf s v x hk
          exact ⟨h3.1.trans h1, h3.2.trans h2⟩
        · have hL := hoth hvb w hw'
          have h3 := (pop_edge hwf s v x w hw' hx).2 (by omega)
          exact ⟨h3.1.trans h1, h3.2.trans h2⟩

/-! ### `Fresh` -/

def Fresh (g : AGraph α) (s : DSt α) (x : α) : Prop :=
  (∀ y w, g.weight y x = some w → y ∉ s.visited) → s.dist x = maxInt32

theorem fresh_init (g : AGraph α) {r x : α} (hx : x ≠ r) : Fresh g (init r) x :=
  fun _ => by simp [init, hx]

theorem fresh_step {g : AGraph α} (hwf : g.WF) {s : DSt α} {v x : α} (hF : Fresh g s x) :
    Fresh g (pop g s v) x := by
  intro h
  rw [pop_visited] at h
  have h1 : ∀ w, g.weight v x ≠ some w := fun w hw => h v w hw (List.mem_cons_self ..)
  rw [(pop_unch hwf s v x (Or.inr h1)).1]
  exact hF (fun y w hw hy => h y w hw (List.mem_cons_of_mem _ hy))

end ArgMapper.AffinityProofs
